/-
  C01 / C04 / C07 / C11 — THE WRITE-SIDE BRIDGE, round 9.

  PART 1 — the rate clauses are EXACT.  `Sf.AbsWrite.rateOk` accepts, for the 16-bit class (SVX, MPC2K) exactly `min sr 65535`, for
  the binary32 class (IRCAM) exactly `float32Quant sr` (the integer rounded to binary32, 2^31 − 128 from 2^31 − 64 Hz on), and
  `rateOkG` — the clause on the whole geometry, what `sfmodel abs-write` evaluates (`judgeG`) — for VOC exactly what the block type
  selected by encoding and channel count makes of the rate (type 9: the rate; type 1 / 8: the time-constant quantiser).
  `ircam_rate_exact_accepted / _only`, `voc_rate_exact_accepted / _only`, `svx_rate_exact_accepted / _only`: the models' quantisers
  are accepted AT EVERY RATE and nothing else is; the tolerances of the earlier rounds are `_old_rule` witnesses.  Hence
  `ircam_session_accepted_every_rate`, `voc_session_accepted_every_rate` (under `acceptedG`): no rate hypothesis is left.

  -- properties: C01 C04 C07 C11
-/
import SfProps.C04Bridge2Ex
import SfProofs.AbsWriteRateExact
import SfProofs.IrcamRateExact
import SfProofs.SvxReopen
import SfProofs.AbsWriteBridgeSampleRun
import SfProofs.AbsWriteBridgeSampleW64
import SfProofs.AbsWriteBridgeSampleAiff
import SfProofs.AbsWriteBridgeSampleCaf
namespace Sf.C04Bridge3
open Sf Sf.AbsWrite Sf.AbsWriteBridge Sf.C04Bridge Sf.C04Bridge2
open Sf.AbsWriteBridge.Small (Cont Laws Valid small2Cont)

/-! ## IRCAM: the binary32 field -/

/-- **ircam_rate_exact_accepted** (FULL): at EVERY rate sf_open accepts, the model's quantiser (the IEEE round trip of the rate
    through the byte-exact float writer / reader, capped) answers a rate, and the predicate's clause accepts it -/
theorem ircam_rate_exact_accepted (sr : Nat) (h1 : 1 ≤ sr) (h2 : sr ≤ 0x7FFFFFFF) :
    ∃ q, Ircam.rateQ sr = some q ∧ rateOk 0x0A sr (q : Int) = true :=
  ⟨_, IrcamRateExact.ircam_rateQ_exact sr h1 h2, (AbsWriteRate.rateOk_float32_iff 0x0A sr _ AbsWriteRate.rateClass_ircam).2 rfl⟩

/-- **ircam_rate_exact_only** (FULL): an accepted rate IS the model's quantiser value -/
theorem ircam_rate_exact_only (sr : Nat) (h1 : 1 ≤ sr) (h2 : sr ≤ 0x7FFFFFFF) (got : Int) (h : rateOk 0x0A sr got = true) :
    ∃ q : Nat, got = (q : Int) ∧ Ircam.rateQ sr = some q :=
  ⟨_, (AbsWriteRate.rateOk_float32_iff 0x0A sr got AbsWriteRate.rateClass_ircam).1 h, IrcamRateExact.ircam_rateQ_exact sr h1 h2⟩

/-- the clause before round 9 asked nothing from 2^31 − 64 Hz on (a reader answering 1 Hz for 2^31 − 1 Hz passed); the exact clause
    pins 2^31 − 128 there; below the cap the two agree -/
theorem ircam_rate_cap_old_rule :
    float32CapOld (2 ^ 31 - 1) 1 = true ∧ rateOk 0x0A (2 ^ 31 - 1) 1 = false ∧ rateOk 0x0A (2 ^ 31 - 1) (2 ^ 31 - 128) = true ∧
    float32CapOld (2 ^ 31 - 64) 12345 = true ∧ rateOk 0x0A (2 ^ 31 - 64) 12345 = false ∧
    float32CapOld (2 ^ 24 + 3) (2 ^ 24 + 4) = true ∧ rateOk 0x0A (2 ^ 24 + 3) (2 ^ 24 + 4) = true ∧ rateOk 0x0A (2 ^ 24 + 3) (2 ^ 24 + 3) = false := by
  decide

/-- IRCAM: every job of whole frames at EVERY rate is accepted — `ircam_session_accepted` without its two rate hypotheses -/
theorem ircam_session_accepted_every_rate (c : Ircam.Cfg) (hwf : c.wf) (ty : Ty) (stale stale' : Nat) (ops : List Small.Op)
    (hv : Valid c.ch ty ops) :
    accepted (Small.recordOf (Small.small1Cont (Ircam.spec c) Ircam.parse (ircamGeom c) (encFor c.codec c.big)) ty stale stale' ops) = true := by
  obtain ⟨q, hq, hr⟩ := ircam_rate_exact_accepted c.sr hwf.2.2.1 hwf.2.2.2
  exact ircam_session_accepted c hwf q hq hr ty stale stale' ops hv

example : C04Bridge2.exIrcam.wf ∧ Valid C04Bridge2.exIrcam.ch .s16 C04Bridge2.exOps ∧ float32Quant C04Bridge2.exIrcam.sr = 2 ^ 24 := by decide

/-! ## SVX / MPC2K: the saturating 16-bit field -/

theorem svx_rate_exact_accepted (sr : Nat) : rateOk 0x06 sr ((Svx.rateField sr : Nat) : Int) = true :=
  (AbsWriteRate.rateOk_field16_iff 0x06 sr _ AbsWriteRate.rateClass_svx).2 rfl

theorem svx_rate_exact_only (sr : Nat) (got : Int) (h : rateOk 0x06 sr got = true) : got = ((Svx.rateField sr : Nat) : Int) :=
  (AbsWriteRate.rateOk_field16_iff 0x06 sr got AbsWriteRate.rateClass_svx).1 h

theorem mpc2k_rate_exact_only (sr : Nat) (got : Int) (h : rateOk 0x21 sr got = true) : got = ((Mpc2k.quant sr : Nat) : Int) :=
  (AbsWriteRate.rateOk_field16_iff 0x21 sr got AbsWriteRate.rateClass_mpc2k).1 h

/-- the clause before round 9 asked nothing above 65535 Hz; the wrapped value of the defect KF-RATE16-WRAP (65537 → 1) passed it -/
theorem field16_old_rule : field16Old 65537 1 = true ∧ rateOk 0x06 65537 1 = false ∧ rateOk 0x06 65537 65535 = true ∧
    field16Old 131072 0 = true ∧ rateOk 0x21 131072 0 = false := by decide

/-! ## VOC: the time-constant fields -/

theorem vocGeom_major (c : Voc.Cfg) (hwf : c.wf) : (vocGeom c).major = 0x08 := by
  obtain ⟨hcd, _⟩ := hwf
  show (0x080000 + c.codec) / 0x10000 % 0x1000 = 0x08
  rcases hcd with h | h | h | h <;> omega

theorem vocGeom_codec (c : Voc.Cfg) (hwf : c.wf) : (vocGeom c).codec = c.codec := by
  obtain ⟨hcd, _⟩ := hwf
  show (0x080000 + c.codec) % 0x10000 = c.codec
  rcases hcd with h | h | h | h <;> omega

theorem unrate8_pos (b : Nat) (hb : b < 256) : 1 ≤ Voc.unrate8 b := by
  unfold Voc.unrate8
  exact (Nat.le_div_iff_mul_le (by omega)).2 (by omega)

theorem unrate16_pos (s : Nat) (hs : s < 65536) : 1 ≤ Voc.unrate16 true s := by
  unfold Voc.unrate16
  simp only [if_true]
  exact (Nat.le_div_iff_mul_le (by omega)).2 (by omega)

theorem rate8_lt (sr : Nat) : Voc.rate8 sr < 256 := by unfold Voc.rate8 wrapU; omega
theorem rate16_lt (sr : Nat) : Voc.rate16 sr < 65536 := by unfold Voc.rate16 wrapU; omega

/-- the type 1 block: inside the field the model's quantiser is the documented one -/
theorem voc_quant8 (sr : Nat) (h0 : 0 < 10 ^ 6 / sr) (h1 : 10 ^ 6 / sr < 2 ^ 8) : Voc.unrate8 (Voc.rate8 sr) = 10 ^ 6 / (10 ^ 6 / sr) := by
  have e : Voc.rate8 sr = 256 - 1000000 / sr := by
    unfold Voc.rate8 wrapU
    generalize 1000000 / sr = d at *
    omega
  unfold Voc.unrate8; rw [e]
  generalize 1000000 / sr = d at *
  congr 1; omega

theorem voc_quant16 (sr : Nat) (h0 : 0 < 128 * 10 ^ 6 / sr) (h1 : 128 * 10 ^ 6 / sr < 2 ^ 16) :
    Voc.unrate16 true (Voc.rate16 sr) = 128 * 10 ^ 6 / (128 * 10 ^ 6 / sr) := by
  have e : Voc.rate16 sr = 65536 - 128000000 / sr := by
    unfold Voc.rate16 wrapU
    generalize 128000000 / sr = d at *
    omega
  unfold Voc.unrate16; rw [e]; simp only [if_true]
  generalize 128000000 / sr = d at *
  congr 1; omega

/-- **voc_rate_exact_accepted** (FULL): at EVERY rate, for every configuration sf_open accepts, the exact clause accepts the model's
    quantiser — the type 9 block's rate, the 8-bit and the 16-bit time constant, the wrapped constants outside the fields included -/
theorem voc_rate_exact_accepted (c : Voc.Cfg) (hwf : c.wf) : rateOkG (vocGeom c) ((Voc.quant c : Nat) : Int) = true := by
  rw [AbsWriteRate.rateOkG_voc_iff _ _ (vocGeom_major c hwf), vocGeom_codec c hwf]
  show _ ∨ (_ ∧ c.ch = 1 ∧ periodOk _ _ c.sr _ = true) ∨ (_ ∧ c.ch ≠ 1 ∧ periodOk _ _ c.sr _ = true)
  by_cases h5 : c.codec = 5
  · by_cases h1 : c.ch = 1
    · refine Or.inr (Or.inl ⟨h5, h1, ?_⟩)
      have : Voc.quant c = Voc.unrate8 (Voc.rate8 c.sr) := by unfold Voc.quant; rw [if_pos h5, if_pos h1]
      rw [this]
      exact AbsWriteRate.periodOk_complete _ _ _ _ (fun a b => voc_quant8 c.sr a b) (unrate8_pos _ (rate8_lt _))
    · refine Or.inr (Or.inr ⟨h5, h1, ?_⟩)
      have : Voc.quant c = Voc.unrate16 true (Voc.rate16 c.sr) := by unfold Voc.quant; rw [if_pos h5, if_neg h1]
      rw [this]
      exact AbsWriteRate.periodOk_complete _ _ _ _ (fun a b => voc_quant16 c.sr a b) (unrate16_pos _ (rate16_lt _))
  · exact Or.inl ⟨h5, by rw [C04Voc.voc_rate_exact9 c h5]; rfl⟩

/-- … hence the clause that sees only the container and the rate accepts it as well: the hypothesis `hrate` of `voc_laws` /
    `voc_session_accepted` holds at every rate -/
theorem voc_rate_ok (c : Voc.Cfg) (hwf : c.wf) : rateOk 0x08 c.sr ((Voc.quant c : Nat) : Int) = true := by
  have := AbsWriteRate.rateOk_of_rateOkG _ _ (voc_rate_exact_accepted c hwf)
  rw [vocGeom_major c hwf] at this
  exact this

/-- **voc_rate_exact_only** (FULL): where the block's field can hold the period (type 1: 3907 … 10^6 Hz, type 8: 1954 … 128·10^6 Hz;
    type 9: every rate) an accepted rate IS the model's quantiser -/
theorem voc_rate_exact_only (c : Voc.Cfg) (hwf : c.wf) (got : Int) (h : rateOkG (vocGeom c) got = true)
    (hin : c.codec = 5 → if c.ch = 1 then 3907 ≤ c.sr ∧ c.sr ≤ 10 ^ 6 else 1954 ≤ c.sr ∧ c.sr ≤ 128 * 10 ^ 6) :
    got = ((Voc.quant c : Nat) : Int) := by
  rw [AbsWriteRate.rateOkG_voc_iff _ _ (vocGeom_major c hwf), vocGeom_codec c hwf] at h
  change (_ ∧ got = (c.sr : Int)) ∨ (_ ∧ c.ch = 1 ∧ periodOk _ _ c.sr got = true) ∨ (_ ∧ c.ch ≠ 1 ∧ periodOk _ _ c.sr got = true) at h
  rcases h with ⟨h5, e⟩ | ⟨h5, h1, e⟩ | ⟨h5, h1, e⟩
  · rw [C04Voc.voc_rate_exact9 c h5]; exact e
  · have hr := hin h5; rw [if_pos h1] at hr
    have h0 : 0 < 10 ^ 6 / c.sr := Nat.div_pos hr.2 (by omega)
    have hb : 10 ^ 6 / c.sr < 2 ^ 8 := (Nat.div_lt_iff_lt_mul (by omega)).2 (by omega)
    rcases (AbsWriteRate.periodOk_iff _ _ _ _).1 e with ⟨_, _, e'⟩ | ⟨h' | h', _⟩
    · have : Voc.quant c = Voc.unrate8 (Voc.rate8 c.sr) := by unfold Voc.quant; rw [if_pos h5, if_pos h1]
      rw [this, voc_quant8 c.sr h0 hb]; exact e'
    · omega
    · omega
  · have hr := hin h5; rw [if_neg h1] at hr
    have h0 : 0 < 128 * 10 ^ 6 / c.sr := Nat.div_pos hr.2 (by omega)
    have hb : 128 * 10 ^ 6 / c.sr < 2 ^ 16 := (Nat.div_lt_iff_lt_mul (by omega)).2 (by omega)
    rcases (AbsWriteRate.periodOk_iff _ _ _ _).1 e with ⟨_, _, e'⟩ | ⟨h' | h', _⟩
    · have : Voc.quant c = Voc.unrate16 true (Voc.rate16 c.sr) := by unfold Voc.quant; rw [if_pos h5, if_neg h1]
      rw [this, voc_quant16 c.sr h0 hb]; exact e'
    · omega
    · omega

/-- the tolerance of the earlier rounds (`divisorTolOld`): 44101 Hz passed for a mono PCM_U8 file asked at 44100 Hz (time constant
    234 = 45454 Hz), the true answer 45454 Hz passed only because the tolerance is wide, and outside 4000 … 200000 Hz nothing was asked
    (3907 Hz: 1 Hz passed); the exact clause accepts 45454 and 3921 and nothing else; for stereo 44107 (16-bit constant) -/
theorem voc_rate_tolerance_old_rule :
    divisorTolOld 44100 44101 = true ∧ rateOkG ⟨0x080005, 1, 44100⟩ 44101 = false ∧ rateOkG ⟨0x080005, 1, 44100⟩ 45454 = true ∧
    rateOkG ⟨0x080005, 2, 44100⟩ 45454 = false ∧ rateOkG ⟨0x080005, 2, 44100⟩ 44107 = true ∧ rateOkG ⟨0x080002, 2, 44100⟩ 44107 = false ∧
    rateOkG ⟨0x080002, 2, 44100⟩ 44100 = true ∧ divisorTolOld 3907 1 = true ∧ rateOkG ⟨0x080005, 1, 3907⟩ 1 = false ∧
    rateOkG ⟨0x080005, 1, 3907⟩ 3921 = true ∧ rateOkG ⟨0x080005, 1, 3906⟩ 1 = true ∧ rateOkG ⟨0x080005, 1, 3906⟩ 0 = false ∧
    rateOk 0x08 44100 44101 = false ∧ rateOk 0x08 44100 45454 = true ∧ rateOk 0x08 44100 44107 = true ∧ rateOk 0x08 44100 44100 = true := by
  decide

/-- the closed reference file of a VOC job re-opens with the model's quantiser as its rate -/
theorem voc_record_rate (c : Voc.Cfg) (hwf : c.wf) (ty : Ty) (stale stale' : Nat) (ops : List Small.Op) (hv : Valid c.ch ty ops)
    (hguard : vocGuard ((Small.sampleList ops).length * (encFor c.codec false).nbytes)) :
    (Small.recordOf (vocCont c) ty stale stale' ops).info.sr = ((Voc.quant c : Nat) : Int) := by
  have L := voc_laws c hwf (voc_rate_ok c hwf)
  obtain ⟨hcd, hch, _, _⟩ := hwf
  have hnbw : (encFor c.codec false).nbytes = Voc.bytewidth c.codec := by
    unfold encFor; rcases hcd with h | h | h | h <;> rw [h] <;> simp [encOf, Enc.nbytes, PcmFmt.nbytes, Voc.bytewidth]
  have hchpos : 0 < c.ch := by rcases hch with h | h <;> omega
  let W := Small.toW (vocCont c) ty false (Small.refOps ops)
  have hD : Small2.opsData W = (encFor c.codec false).encodeAll {} ty (Small.sampleList ops) := by
    show Small2.opsData (Small.toW (vocCont c) ty false (Small.refOps ops)) = _
    rw [Small.opsData_toW, Small.refOps_samples]; rfl
  obtain ⟨g1, g2⟩ := Small.callsOf_good c.ch ty ops hv
  have hl := samples_length c.ch _ g1
  rw [g2] at hl
  have hlen : (Small2.opsData W).length = (Small.sampleList ops).length * (encFor c.codec false).nbytes := by
    rw [hD, Enc.encodeAll_length]
  have hwhole : (Small2.opsData W).length % c.bw = 0 := by
    rw [hlen, hl, hnbw]
    show _ % (Voc.bytewidth c.codec * c.ch) = 0
    rw [Nat.mul_assoc, Nat.mul_comm c.ch]
    exact Nat.mul_mod_left _ _
  have hfn : Voc.closedBytes c stale W = Voc.closedBytes c stale [.write (Small2.opsData W) false] :=
    L.closedFn stale stale W [.write (Small2.opsData W) false] (by simp [Small2.opsData])
  have hp := C04Voc.voc_reopen_info c ⟨hcd, hch, by assumption, by assumption⟩ stale [.write (Small2.opsData W) false]
    (whole_single _ _ hwhole) (by simp only [Small2.opsData, List.append_nil]; rw [hlen]; exact hguard)
  show (Small.infoOf (Voc.parse (Voc.closedBytes c stale W))).sr = _
  rw [hfn, hp]
  rfl

/-- VOC: every job of whole frames at EVERY rate passes THE PREDICATE WITH THE EXACT RATE CLAUSE (`judgeG`, what `sfmodel abs-write`
    evaluates): `voc_session_accepted` without its rate hypothesis, and the re-open rate is exactly the block's quantiser -/
theorem voc_session_accepted_every_rate (c : Voc.Cfg) (hwf : c.wf) (ty : Ty) (stale stale' : Nat) (ops : List Small.Op)
    (hv : Valid c.ch ty ops) (hguard : vocGuard ((Small.sampleList ops).length * (encFor c.codec false).nbytes)) :
    acceptedG (Small.recordOf (vocCont c) ty stale stale' ops) = true := by
  rw [AbsWriteRate.acceptedG_iff]
  refine ⟨voc_session_accepted c hwf (voc_rate_ok c hwf) ty stale stale' ops hv hguard, ?_⟩
  rw [voc_record_rate c hwf ty stale stale' ops hv hguard]
  exact voc_rate_exact_accepted c hwf

/-- non-vacuity: mono PCM_U8 at 11025 Hz (time constant 166 = 11111 Hz) — hypotheses, the record's rate, the verdict of `judgeG` -/
example : (⟨5, 1, 11025⟩ : Voc.Cfg).wf ∧ Valid 1 .s16 C04Bridge2.exOps1 ∧
    (Small.sampleList C04Bridge2.exOps1).length * (encFor 5 false).nbytes + 14 < 2 ^ 24 ∧
    (Small.recordOf (vocCont ⟨5, 1, 11025⟩) .s16 0 99999 C04Bridge2.exOps1).info.sr = 11111 ∧
    acceptedG (Small.recordOf (vocCont ⟨5, 1, 11025⟩) .s16 0 99999 C04Bridge2.exOps1) = true ∧
    (judgeG { Small.recordOf (vocCont ⟨5, 1, 11025⟩) .s16 0 99999 C04Bridge2.exOps1 with
              info := { ch := 1, sr := 11025, fmt := 0x080005, frames := 3 } }).map (·.tag) = ["rate"] := by
  decide +kernel

/-- every container but VOC: the two predicates agree, so every `<x>_session_accepted` theorem is a theorem about `acceptedG` -/
theorem acceptedG_of_accepted (r : Record) (h : r.g.major ≠ 0x08) (ha : accepted r = true) : acceptedG r = true := by
  rw [AbsWriteRate.acceptedG_eq_accepted r h]; exact ha

/-! ## PART 2 — SVX: the re-open theorem of the chunk-loop reader, `SvxReopens` is no hypothesis any more -/

/-- **svx_reopen_info** (FULL within the 32-bit BODY size field): for every configuration sf_open accepts — every file name up to 255
    characters included, since the repair of KF-SVX-NAME-LENGTH — every stale frames value and every session, the closed file re-opens
    through the chunk loop of svx_read_header (VHDR, NAME, ANNO, BODY) with the requested channels and encoding, the saturated rate and
    D / bw frames -/
theorem svx_reopen_info (c : Svx.Cfg) (hwf : c.wf) : SvxReopens c :=
  fun st w _ hD => SvxReopen.svx_reopens c hwf st w hD

/-- … and so does the image every header update leaves (C11) -/
theorem svx_snapshot_valid_parse (c : Svx.Cfg) (hwf : c.wf) (st : Nat) (w : List Sf.Small.WOp) (hD : (Sf.Small.opsData w).length < 2 ^ 32) :
    Svx.parse (Sf.Small.snapshotBytes (Svx.spec c) st w) =
      .ok { ch := c.ch, fmt := c.fmtWord, sr := min c.sr 65535, frames := (Sf.Small.opsData w).length / c.bw } :=
  SvxReopen.svx_snapshot_reopens c hwf st w hD

/-- SVX: every job of whole frames (below 2^32 audio bytes) is accepted — `svx_session_accepted` without the reader hypothesis -/
theorem svx_session_accepted_all (c : Svx.Cfg) (hwf : c.wf) (ty : Ty) (stale stale' : Nat) (ops : List Small.Op)
    (hv : Valid c.ch ty ops) (hguard : svxGuard ((Small.sampleList ops).length * (encFor c.codec true).nbytes)) :
    accepted (Small.recordOf (Small.small1Cont (Svx.spec c) Svx.parse (svxGeom c) (encFor c.codec true)) ty stale stale' ops) = true :=
  svx_session_accepted c hwf (svx_reopen_info c hwf) ty stale stale' ops hv hguard

example : C04Svx.exCfg.wf ∧ Valid C04Svx.exCfg.ch .s16 C04Bridge2.exOps1 ∧
    (Small.sampleList C04Bridge2.exOps1).length * (encFor C04Svx.exCfg.codec true).nbytes < 2 ^ 32 := by decide

/-- the reader before the repair of KF-SVX-NAME-LENGTH (`Svx.parseNameOld`: a NAME chunk above 255 bytes fails the open): the library
    could not re-open the file it wrote under a 254 or 255 character name (NAME chunk of 256 bytes) — the full statement failed, and
    held for names up to 253 characters (`SvxReopen.svx_reopens_old_rule`) -/
theorem svx_reopen_info_old_rule_fails :
    ¬ (∀ c : Svx.Cfg, c.wf → ∀ st (w : List Sf.Small.WOp), (Sf.Small.opsData w).length < 2 ^ 32 →
        Svx.parseNameOld (Sf.Small.closedBytes (Svx.spec c) st w) =
          .ok { ch := c.ch, fmt := c.fmtWord, sr := min c.sr 65535, frames := (Sf.Small.opsData w).length / c.bw }) := by
  intro h
  have w := SvxReopen.svx_name_254_not_reopened_old_rule
  have := h ⟨0x01, 0, 1, 44100, List.replicate 254 65⟩ w.1 0 [.write [1, 2, 3] false] (by decide)
  rw [w.2.1] at this
  exact absurd this (by decide)

theorem svx_reopen_info_old_rule (c : Svx.Cfg) (hwf : c.wf) (hname : c.name.length ≤ 253) (st : Nat) (w : List Sf.Small.WOp)
    (hD : (Sf.Small.opsData w).length < 2 ^ 32) :
    Svx.parseNameOld (Sf.Small.closedBytes (Svx.spec c) st w) =
      .ok { ch := c.ch, fmt := c.fmtWord, sr := min c.sr 65535, frames := (Sf.Small.opsData w).length / c.bw } :=
  SvxReopen.svx_reopens_old_rule c hwf hname st w hD

end Sf.C04Bridge3

/-! ## PART 3 — containers whose closed bytes are a function of the SAMPLES (PEAK chunk): the sample-level bridge

  `Sf.AbsWriteBridge.Sample`: `SCont` / `SLaws` (lean/SfProofs/AbsWriteBridgeSample.lean), `sample_cont_session_accepted`
  (…SampleRun.lean), PEAK bookkeeping and its partition independence on samples (…SamplePeak.lean, from `Sf.Peak.run_partition`),
  instances …SampleW64.lean, …SampleAiff.lean, …SampleCaf.lean. -/

namespace Sf.C04Bridge3
open Sf Sf.AbsWrite Sf.AbsWriteBridge Sf.C04Bridge Sf.C04Bridge2
open Sf.AbsWriteBridge.Small (Valid)
open Sf.AbsWriteBridge.Sample (SCont SLaws toS sData sData_toS sample_cont_session_accepted)

/-- the write operations of a valid job hand over whole frames -/
theorem whole_toS (ch : Nat) (ty : Ty) : ∀ (p : List Small.Op) (a : Bool), Valid ch ty p →
    ∀ xs b, Sample.SOp.write xs b ∈ toS a p → xs.length % ch = 0
  | [], _, _, _, _, h => by simp [toS] at h
  | .write fc ys :: r, a, hv, xs, b, h => by
    simp only [toS, List.mem_cons] at h
    rcases h with h | h
    · cases h; exact (hv (.write fc ys) (by simp)).1
    · exact whole_toS ch ty r a (fun o ho => hv o (by simp [ho])) xs b h
  | .update :: r, a, hv, xs, b, h => by
    simp only [toS, List.mem_cons] at h
    rcases h with h | h
    · cases h
    · exact whole_toS ch ty r a (fun o ho => hv o (by simp [ho])) xs b h
  | .auto c :: r, _, hv, xs, b, h => by
    simp only [toS] at h
    exact whole_toS ch ty r c (fun o ho => hv o (by simp [ho])) xs b h

/-- the samples of a prefix of a job are at most the samples of the job -/
theorem prefix_samples_le (ops p post : List Small.Op) (e : ops = p ++ post) :
    (Small.sampleList p).length ≤ (Small.sampleList ops).length := by
  rw [e, Small.sampleList_append]; simp

/-- **sample_session_accepted**: the generic theorem with a guard of the shape "whole frames ∧ P (number of samples)" -/
theorem sample_session_accepted (K : SCont) (ty : Ty) (G : List Sample.SOp → Prop) (L : SLaws K ty G) (stale stale' : Nat) (ops : List Small.Op)
    (hv : Valid K.g.ch ty ops) (hG : ∀ p, Valid K.g.ch ty p → (Small.sampleList p).length ≤ (Small.sampleList ops).length → G (toS false p)) :
    accepted (Sample.recordOf K ty stale stale' ops) = true := by
  apply sample_cont_session_accepted K ty G L stale stale' ops hv
  · exact hG _ (Small.refOps_valid K.g.ch ty L.chpos ops hv) (by rw [Small.refOps_samples])
  · intro p post e
    exact hG p (fun o ho => hv o (by rw [e]; simp [ho])) (prefix_samples_le ops p post e)

/-! ### W64 (PCM_U8 / 16 / 24 / 32, FLOAT, DOUBLE, ULAW, ALAW; no PEAK chunk: through the sample-level interface for uniformity) -/

/-- **w64_session_accepted** (FULL within the reader's 2^62 size guard): every job of whole frames on the W64 model — any split into
    item / frame calls, header updates, auto mode, any stale frames value — is accepted: C04 info / rate / frames / eof, C01 round trip
    under the side condition, C07 partition / stale, C11 at every crash point.  From `stale_frames_ignored_w64`, `snapshot_valid_w64`,
    `auto_write_is_snapshot_w64`, `w64_reopen_info`. -/
theorem w64_session_accepted (c : W64.Cfg) (hwf : c.wf) (ty : Ty) (stale stale' : Nat) (ops : List Small.Op) (hv : Valid c.ch ty ops)
    (hsz : W64.hdrLen c + (Small.sampleList ops).length * (Sample.w64Enc c.codec).nbytes + 24 < 2 ^ 62) :
    accepted (Sample.recordOf (Sample.w64Cont c) ty stale stale' ops) = true := by
  apply sample_session_accepted (Sample.w64Cont c) ty (Sample.w64Guard c ty) (Sample.w64_slaws c hwf ty) stale stale' ops hv
  intro p hvp hle
  refine ⟨?_, ?_⟩
  · intro op hop
    cases op with
    | write xs b => exact whole_toS c.ch ty p false hvp xs b hop
    | update => trivial
  · rw [sData_toS]
    have := Nat.mul_le_mul_right (Sample.w64Enc c.codec).nbytes hle
    omega

/-- non-vacuity: a stereo 16-bit W64 job (frames call, update, auto mode, items call) — hypotheses, crash points, the verdict, evaluated -/
example : (⟨0x02, 2, 44100⟩ : W64.Cfg).wf ∧ Valid 2 .s16 C04Bridge2.exOps ∧
    (Sample.recordOf (Sample.w64Cont ⟨0x02, 2, 44100⟩) .s16 0 99999 C04Bridge2.exOps).snaps.map (·.info.frames) = [1, 3] ∧
    (Sample.recordOf (Sample.w64Cont ⟨0x02, 2, 44100⟩) .s16 0 99999 C04Bridge2.exOps).info.frames = 3 ∧
    accepted (Sample.recordOf (Sample.w64Cont ⟨0x02, 2, 44100⟩) .s16 0 99999 C04Bridge2.exOps) = true := by
  decide +kernel

/-! ### what the PEAK theorems ask of a job -/

/-- every write call of the job hands over at least one sample and only values that are finite in the file's type ("all sample
    sequences of finite values"; an empty call never reaches the PEAK bookkeeping, `Sf.Peak.WellFormed` leaves it out) -/
def PeakJob (e : Enc) (ty : Ty) (ops : List Small.Op) : Prop :=
  ∀ fc xs, Small.Op.write fc xs ∈ ops → xs ≠ [] ∧ ∀ x ∈ xs, (Sf.Peak.fileFmt e).isFinite (Sf.Peak.convVal e {} ty x) = true

theorem peakOk_toS (e : Enc) (ch : Nat) (ty : Ty) : ∀ (p : List Small.Op) (a : Bool), Valid ch ty p → PeakJob e ty p →
    Sample.PeakOk e ch ty (toS a p)
  | [], _, _, _ => by intro c hc; simp [toS, Sample.sCalls] at hc
  | .write fc ys :: r, a, hv, hj => by
    intro c hc
    simp only [toS, Sample.sCalls, List.mem_cons] at hc
    rcases hc with rfl | hc
    · obtain ⟨h1, h2⟩ := hj fc ys (by simp)
      exact ⟨List.length_pos_iff.2 h1, (hv (.write fc ys) (by simp)).1, h2⟩
    · exact peakOk_toS e ch ty r a (fun o ho => hv o (by simp [ho])) (fun f x hx => hj f x (by simp [hx])) c hc
  | .update :: r, a, hv, hj => by
    intro c hc
    simp only [toS, Sample.sCalls] at hc
    exact peakOk_toS e ch ty r a (fun o ho => hv o (by simp [ho])) (fun f x hx => hj f x (by simp [hx])) c hc
  | .auto b :: r, _, hv, hj => by
    intro c hc
    simp only [toS] at hc
    exact peakOk_toS e ch ty r b (fun o ho => hv o (by simp [ho])) (fun f x hx => hj f x (by simp [hx])) c hc

theorem peakJob_samples (e : Enc) (ty : Ty) : ∀ (ops : List Small.Op), PeakJob e ty ops →
    ∀ x ∈ Small.sampleList ops, (Sf.Peak.fileFmt e).isFinite (Sf.Peak.convVal e {} ty x) = true
  | [], _ => by simp [Small.sampleList]
  | .write fc ys :: r, hj => by
    intro x hx
    simp only [Small.sampleList, List.mem_append] at hx
    rcases hx with hx | hx
    · exact (hj fc ys (by simp)).2 x hx
    · exact peakJob_samples e ty r (fun f y hy => hj f y (by simp [hy])) x hx
  | .update :: r, hj => by simpa [Small.sampleList] using peakJob_samples e ty r (fun f y hy => hj f y (by simp [hy]))
  | .auto b :: r, hj => by simpa [Small.sampleList] using peakJob_samples e ty r (fun f y hy => hj f y (by simp [hy]))

theorem peakJob_refOps (e : Enc) (ty : Ty) (ops : List Small.Op) (hj : PeakJob e ty ops) : PeakJob e ty (Small.refOps ops) := by
  intro fc xs hm
  unfold Small.refOps at hm
  split at hm
  · cases hm
  · rename_i hne
    simp only [List.mem_singleton, Small.Op.write.injEq] at hm
    obtain ⟨_, rfl⟩ := hm
    exact ⟨fun h0 => hne (by rw [h0]; rfl), peakJob_samples e ty ops hj⟩

theorem peakJob_prefix (e : Enc) (ty : Ty) (ops p post : List Small.Op) (h : ops = p ++ post) (hj : PeakJob e ty ops) : PeakJob e ty p :=
  fun fc xs hm => hj fc xs (by rw [h]; exact List.mem_append_left _ hm)

/-- the generic theorem for a PEAK container: guard = whole frames ∧ a bound on the number of samples ∧ (float file → PEAK-well-formed
    calls).  `hG` builds the guard from its three parts. -/
theorem peak_session_accepted (K : SCont) (ty : Ty) (G : List Sample.SOp → Prop) (L : SLaws K ty G) (isFloat : Bool) (bound : Nat)
    (hG : ∀ w : List Sample.SOp, (∀ xs b, Sample.SOp.write xs b ∈ w → xs.length % K.g.ch = 0) → (sData w).length ≤ bound →
      (isFloat = true → Sample.PeakOk K.enc K.g.ch ty w) → G w)
    (stale stale' : Nat) (ops : List Small.Op) (hv : Valid K.g.ch ty ops) (hb : (Small.sampleList ops).length ≤ bound)
    (hj : isFloat = true → PeakJob K.enc ty ops) :
    accepted (Sample.recordOf K ty stale stale' ops) = true := by
  apply sample_cont_session_accepted K ty G L stale stale' ops hv
  · have hvr := Small.refOps_valid K.g.ch ty L.chpos ops hv
    exact hG _ (whole_toS K.g.ch ty _ false hvr) (by rw [sData_toS, Small.refOps_samples]; exact hb)
      (fun hf => peakOk_toS K.enc K.g.ch ty _ false hvr (peakJob_refOps K.enc ty ops (hj hf)))
  · intro p post e
    have hvp : Valid K.g.ch ty p := fun o ho => hv o (by rw [e]; simp [ho])
    exact hG _ (whole_toS K.g.ch ty p false hvp) (by rw [sData_toS]; exact Nat.le_trans (prefix_samples_le ops p post e) hb)
      (fun hf => peakOk_toS K.enc K.g.ch ty p false hvp (peakJob_prefix K.enc ty ops p post e (hj hf)))

/-! ### AIFF / AIFF-C (PCM_S8 / U8 / 16 / 24 / 32 in both byte orders, FLOAT, DOUBLE, ULAW, ALAW) -/

/-- **aiff_session_accepted** (FULL within the 32-bit FORM / SSND size fields): every job of whole frames on the AIFF model — any split
    into item / frame calls, header updates, auto mode, any stale frames value; for FLOAT / DOUBLE files every call non-empty with finite
    values (what the PEAK theorems ask) — is accepted.  The closed bytes hold the PEAK chunk: its values and positions are those of
    `Sf.Peak.run` (the handle model's `peakUpdate`, chunk by chunk through the staging buffer) and do not depend on the split
    (`Sample.peak_partition` = C18 `peak_partition_independent`).  From `closedBytes_eq`, `aiff_reopen_info`, `aiff_snapshot_valid`,
    `auto_write_is_update`. -/
theorem aiff_session_accepted (c : Aiff.Cfg) (k : Aiff.Kind) (e : Enc) (hwf : c.wf) (hk : Aiff.kindOf c = some k) (he : Aiff.encOf c k = some e)
    (ty : Ty) (stale stale' : Nat) (ops : List Small.Op) (hv : Valid c.ch ty ops)
    (hsz : Aiff.hdrLen c k + (Small.sampleList ops).length * e.nbytes + 1 < 2 ^ 32)
    (hj : c.isFloat = true → PeakJob e ty ops) :
    accepted (Sample.recordOf (Sample.aiffCont c k e) ty stale stale' ops) = true := by
  have hnb : 0 < e.nbytes := (Sample.aiff_slaws c k e hwf hk he ty).nb
  apply peak_session_accepted (Sample.aiffCont c k e) ty (Sample.aiffGuard c k e ty) (Sample.aiff_slaws c k e hwf hk he ty) c.isFloat
    (Small.sampleList ops).length ?_ stale stale' ops hv (Nat.le_refl _) hj
  intro w hw hlen hpk
  refine ⟨?_, ?_, hpk⟩
  · intro op hop
    cases op with
    | write xs b => exact hw xs b hop
    | update => trivial
  · have := Nat.mul_le_mul_right e.nbytes hlen
    omega

/-- non-vacuity: a mono FL32 AIFF-C job (0.5 | update | auto: −1.0, 0.25): hypotheses, the PEAK chunk of the closed file (1.0f at frame 1,
    bytes 56 … 80), the same bytes from the one-call reference run, the verdict -/
example : Sample.aiffExC.wf ∧ Aiff.kindOf Sample.aiffExC = some Sample.aiffExK ∧ Aiff.encOf Sample.aiffExC Sample.aiffExK = some (.flt true) ∧
    Valid 1 .f32 [.write true [0x3F000000], .update, .auto true, .write false [0xBF800000, 0x3E800000]] ∧
    (Sample.recordOf (Sample.aiffCont Sample.aiffExC Sample.aiffExK (.flt true)) .f32 0 99999
      [.write true [0x3F000000], .update, .auto true, .write false [0xBF800000, 0x3E800000]]).snaps.map (·.info.frames) = [1, 3] ∧
    accepted (Sample.recordOf (Sample.aiffCont Sample.aiffExC Sample.aiffExK (.flt true)) .f32 0 99999
      [.write true [0x3F000000], .update, .auto true, .write false [0xBF800000, 0x3E800000]]) = true := by
  decide +kernel

example : PeakJob (.flt true) .f32 [.write true [0x3F000000], .update, .auto true, .write false [0xBF800000, 0x3E800000]] := by
  intro fc xs hm
  simp only [List.mem_cons, Small.Op.write.injEq, List.mem_nil_iff, or_false, reduceCtorEq, false_or] at hm
  rcases hm with ⟨_, rfl⟩ | ⟨_, rfl⟩ <;> exact ⟨by simp, by decide +kernel⟩

/-! ### CAF (PCM_S8 / 16 / 24 / 32 in both byte orders, FLOAT, DOUBLE, ULAW, ALAW) -/

/-- **caf_session_accepted** (FULL within the reader's 2^31 − 1 byte guard on the audio): every job of whole frames on the CAF model —
    any split into item / frame calls, header updates, auto mode, any stale frames value; for FLOAT / DOUBLE files every call non-empty
    with finite values — is accepted.  The closed file holds the 'peak' chunk (binary32 value, 64-bit frame position per channel):
    `Sf.Peak.run` threaded through the calls, partition independent on samples.  From `stale_frames_ignored_caf`, `snapshot_valid_caf`,
    `auto_write_is_snapshot_caf`, `caf_reopen_info` (for the update image: `Sf.Caf.parse_hdr_tail`, the parser on the image without its
    pad byte). -/
theorem caf_session_accepted (c : Caf.Cfg) (hwf : c.wf) (ty : Ty) (stale stale' : Nat) (ops : List Small.Op) (hv : Valid c.ch ty ops)
    (hsz : (Small.sampleList ops).length * (Sample.cafEnc c).nbytes ≤ 0x7FFFFFFF)
    (hj : Caf.isFloat c.codec = true → PeakJob (Sample.cafEnc c) ty ops) :
    accepted (Sample.recordOf (Sample.cafCont c) ty stale stale' ops) = true := by
  apply peak_session_accepted (Sample.cafCont c) ty (Sample.cafGuard c ty) (Sample.caf_slaws c hwf ty) (Caf.isFloat c.codec)
    (Small.sampleList ops).length ?_ stale stale' ops hv (Nat.le_refl _) hj
  intro w hw hlen hpk
  refine ⟨?_, ?_, hpk⟩
  · intro op hop
    cases op with
    | write xs b => exact hw xs b hop
    | update => trivial
  · exact Nat.le_trans (Nat.mul_le_mul_right (Sample.cafEnc c).nbytes hlen) hsz

/-- non-vacuity: a mono little-endian FLOAT CAF job (0.5 | update | auto: −1.0, 0.25) — configuration, job, crash points, verdict -/
example : (⟨0x06, 1, 1, 8000⟩ : Caf.Cfg).wf ∧
    Valid 1 .f32 [.write true [0x3F000000], .update, .auto true, .write false [0xBF800000, 0x3E800000]] ∧
    (Sample.recordOf (Sample.cafCont ⟨0x06, 1, 1, 8000⟩) .f32 0 99999
      [.write true [0x3F000000], .update, .auto true, .write false [0xBF800000, 0x3E800000]]).snaps.map (·.info.frames) = [1, 3] ∧
    (Sample.recordOf (Sample.cafCont ⟨0x06, 1, 1, 8000⟩) .f32 0 99999
      [.write true [0x3F000000], .update, .auto true, .write false [0xBF800000, 0x3E800000]]).info.frames = 3 := by
  decide +kernel

example : PeakJob (Sample.cafEnc ⟨0x06, 1, 1, 8000⟩) .f32 [.write true [0x3F000000], .update, .auto true, .write false [0xBF800000, 0x3E800000]] := by
  intro fc xs hm
  simp only [List.mem_cons, Small.Op.write.injEq, List.mem_nil_iff, or_false, reduceCtorEq, false_or] at hm
  rcases hm with ⟨_, rfl⟩ | ⟨_, rfl⟩ <;> exact ⟨by simp, by decide +kernel⟩

end Sf.C04Bridge3
