-- properties: C05 C06 C07 C20
/-
  Tables by execution for NMS ADPCM and GSM 06.10 (the twin of `g72x_tables_extracted`, SfProps/C05G72x.lean).

  lean/SfModel/Generated/NmsTables.lean and GsmTables.lean are rewritten on every C05 / C06 / C07 / C20 run by
  vlib/codectab.py `pregen` from the tree under test (throw-away programs that #include src/nms_adpcm.c resp.
  src/GSM610/table.c + add.c and print the arrays).  The theorems below say that the tables TRANSCRIBED in
  SfModel/Nms.lean and SfModel/Gsm.lean — the published ones: the NMS tables of the codec's only definition, the tables
  4.1 – 4.6 of GSM 06.10 section 4.4 — are the arrays the tree under test computes with.  One theorem per table, so a
  changed entry stops a theorem that names the table (vlib/codectab.py names the entry and looks for a failing input).

    nms_table_expn_extracted, nms_table_scale_factor_step_extracted, nms_table_step_extracted,
    nms_table_step_search_extracted, nms_geometry_extracted                 → `nms_tables_extracted`
    gsm_table_A_extracted … gsm_table_FAC_extracted (ten)                     → `gsm_tables_extracted`
    gsm_bitoff_extracted     the 256-entry `bitoff` table of add.c (gsm_norm) is "8 − number of binary digits", the
                             function the model's `gsmNorm` computes with (`bitlen`)
  The sources inline the entries of gsm_A, gsm_B, gsm_MIC, gsm_MAC, gsm_INVA and gsm_H at their points of use
  (`STEP (0, -32, 13107)` …) where the model reads its tables: an edit of one of those six arrays stops its theorem
  but changes no behaviour (`no-failing-input-found`), an edit of an inlined constant shows in the correspondence.
-/
import SfModel.Nms
import SfModel.Gsm
import SfModel.GsmEnc
import SfModel.Generated.NmsTables
import SfModel.Generated.GsmTables
import SfProofs.Table
namespace Sf.C20CodecTables
open Sf

/-! ## NMS ADPCM -/

theorem nms_table_expn_extracted : Nms.tableExpn = Generated.Nms.expn := by decide
theorem nms_table_scale_factor_step_extracted : Nms.tableScaleFactorStep = Generated.Nms.scale_factor_step := by decide
theorem nms_table_step_extracted : Nms.tableStep = Generated.Nms.step := by decide
theorem nms_table_step_search_extracted : Nms.tableStepSearch = Generated.Nms.step_search := by decide
/-- NMS_SAMPLES_PER_BLOCK, NMS_BLOCK_SHORTS_16 / 24 / 32 -/
theorem nms_geometry_extracted :
    [(Nms.spb : Int), Nms.Rate.r16.shorts, Nms.Rate.r24.shorts, Nms.Rate.r32.shorts] = Generated.Nms.geometry := by decide

/-- **tables by execution**: the four transcribed tables and the block geometry are the static arrays / #defines of the
    tree under test -/
theorem nms_tables_extracted :
    Nms.tableExpn = Generated.Nms.expn ∧ Nms.tableScaleFactorStep = Generated.Nms.scale_factor_step ∧
    Nms.tableStep = Generated.Nms.step ∧ Nms.tableStepSearch = Generated.Nms.step_search ∧
    [(Nms.spb : Int), Nms.Rate.r16.shorts, Nms.Rate.r24.shorts, Nms.Rate.r32.shorts] = Generated.Nms.geometry :=
  ⟨nms_table_expn_extracted, nms_table_scale_factor_step_extracted, nms_table_step_extracted,
   nms_table_step_search_extracted, nms_geometry_extracted⟩

/-- non-vacuity: the tables are not empty and the extracted ones are really used by the model's decoder — the first
    decoded sample of the all-ones 4-bit codeword moves by `table_step [16 + 7] * y >> 12` -/
example : Generated.Nms.step.length = 24 ∧ Generated.Nms.expn.length = 32 ∧
    (Nms.decodeSample (Nms.St.init .r32) 7).2 ≠ (Nms.decodeSample (Nms.St.init .r32) 0).2 := by decide

/-! ## GSM 06.10 -/

theorem gsm_table_A_extracted : Gsm.tabA = Generated.Gsm.A := by decide
theorem gsm_table_B_extracted : Gsm.tabB = Generated.Gsm.B := by decide
theorem gsm_table_MIC_extracted : Gsm.tabMIC = Generated.Gsm.MIC := by decide
theorem gsm_table_MAC_extracted : Gsm.tabMAC = Generated.Gsm.MAC := by decide
theorem gsm_table_INVA_extracted : Gsm.tabINVA = Generated.Gsm.INVA := by decide
theorem gsm_table_DLB_extracted : Gsm.tabDLB = Generated.Gsm.DLB := by decide
theorem gsm_table_QLB_extracted : Gsm.tabQLB = Generated.Gsm.QLB := by decide
theorem gsm_table_H_extracted : Gsm.tabH = Generated.Gsm.H := by decide
theorem gsm_table_NRFAC_extracted : Gsm.tabNRFAC = Generated.Gsm.NRFAC := by decide
theorem gsm_table_FAC_extracted : Gsm.tabFAC = Generated.Gsm.FAC := by decide

/-- **tables by execution**: the ten arrays of table.c -/
theorem gsm_tables_extracted :
    Gsm.tabA = Generated.Gsm.A ∧ Gsm.tabB = Generated.Gsm.B ∧ Gsm.tabMIC = Generated.Gsm.MIC ∧ Gsm.tabMAC = Generated.Gsm.MAC ∧
    Gsm.tabINVA = Generated.Gsm.INVA ∧ Gsm.tabDLB = Generated.Gsm.DLB ∧ Gsm.tabQLB = Generated.Gsm.QLB ∧
    Gsm.tabH = Generated.Gsm.H ∧ Gsm.tabNRFAC = Generated.Gsm.NRFAC ∧ Gsm.tabFAC = Generated.Gsm.FAC :=
  ⟨gsm_table_A_extracted, gsm_table_B_extracted, gsm_table_MIC_extracted, gsm_table_MAC_extracted, gsm_table_INVA_extracted,
   gsm_table_DLB_extracted, gsm_table_QLB_extracted, gsm_table_H_extracted, gsm_table_NRFAC_extracted, gsm_table_FAC_extracted⟩

example : Generated.Gsm.FAC.length = 8 ∧ Generated.Gsm.H.length = 11 ∧ Gsm.tab Gsm.tabQLB 3 = 32767 := by decide

/-- `bitoff [i]` (add.c, the table behind `gsm_norm`) = 8 − (number of binary digits of i), for all 256 bytes: the
    model's `gsmNorm` computes the count arithmetically (`bitlen`) -/
theorem gsm_bitoff_extracted :
    Generated.Gsm.bitoff = (List.range 256).map fun i => (8 : Int) - (Gsm.bitlen i : Int) := by
  apply tabIs_spec
  decide +kernel

example : Generated.Gsm.bitoff.length = 256 ∧ Generated.Gsm.bitoff.getD 0 0 = 8 ∧ Generated.Gsm.bitoff.getD 255 0 = 0 := by
  decide +kernel

end Sf.C20CodecTables
