/-
  SfProps.C09CmdFail — the failure-value table of sf_command (lean/SfModel/CmdFail.lean) against the command model Sf.Command.run.

  * `calc_all_refusal_convention` (full strength): SFC_CALC_MAX_ALL_CHANNELS / SFC_CALC_NORM_MAX_ALL_CHANNELS with a block of the right
    size on ANY handle that cannot scan the file (not seekable, or no read functions: a write-only handle) are refused by convention
    `code` — non-zero return value = the recorded error —, write nothing into the block and leave the handle as it was.
  * `calc_all_success_clean`: whenever these two report success (0) the error is 0 and the whole block is filled in.
  * `calc_signal_max_refusal_convention` / `calc_signal_max_refusal_holds` are the same statement for SFC_CALC_SIGNAL_MAX /
    SFC_CALC_NORM_SIGNAL_MAX at full strength (since the repair of KF-C09-CALC-SIGNAL-MAX-RET0: `return psf->error` behind the call);
    `calc_signal_max_success_clean` is the converse.  The rule before the repair (`runOld`: the case ended in `break`) is kept:
    `calc_signal_max_old_rule` (a write-only WAV handle and a GSM read handle were answered 0 with the error recorded) and
    `calc_signal_max_refusal_old_rule` (the statement failed for it).
  * the seeded rule of round 8 (C09-calc-all-returns-false: `return SF_FALSE` in the shared guard) is `calcAllSeeded`; it is refuted
    by the same handle.
-/
import SfModel.Command
import SfModel.CmdFail
namespace Sf.C09CmdFail
open Sf Sf.Command Sf.CmdFail

/-- the handle cannot serve a scanning command -/
def cannotScan (h : H) : Bool := !h.seekable || !canRead h

def retInt : Ret → Option Int
  | .exact v => some v
  | _ => none

/-- the refusal clause on a model answer -/
def refusedRes (c : Conv) (r : Res) : Bool :=
  match retInt r.ret, r.err with
  | some v, some e => refusedBy c v e
  | _, _ => false

theorem calc_all_refusal_convention (g : G) (h : H) (cmd : Int) (m : Mem) (hc : cmd = 0x1042 ∨ cmd = 0x1043)
    (hs : cannotScan h = true) :
    let r := run g (some h) cmd (szDouble * h.channels) (some m)
    refusedRes .code r = true ∧ r.writes = [] ∧ r.h' = some h := by
  have hcls : classify cmd = .k1042 := by rcases hc with rfl | rfl <;> decide
  have hpre : preHandle g (some h) cmd (szDouble * h.channels) (some m) = none := by
    rcases hc with rfl | rfl <;> simp [preHandle]
  simp only [run, hpre, withHandle, hcls, guardEq]
  simp only [cannotScan, Bool.or_eq_true, Bool.not_eq_true'] at hs
  by_cases hk : h.seekable = true
  · have hr : canRead h = false := by rcases hs with h1 | h1 <;> simp_all
    simp [hk, hr, refusedRes, retInt, refusedBy, eUnimplemented]
  · simp [hk, refusedRes, retInt, refusedBy, eNotSeekable]

theorem calc_all_success_clean (g : G) (h : H) (cmd : Int) (size : Nat) (data : Option Mem) (hc : cmd = 0x1042 ∨ cmd = 0x1043)
    (h0 : (run g (some h) cmd size data).ret = .exact 0) :
    cannotScan h = false ∧ (run g (some h) cmd size data).writes = [(0, szDouble * h.channels)] ∧ size = szDouble * h.channels := by
  have hcls : classify cmd = .k1042 := by rcases hc with rfl | rfl <;> decide
  have hpre : preHandle g (some h) cmd size data = none := by
    rcases hc with rfl | rfl <;> simp [preHandle]
  simp only [run, hpre, withHandle, hcls, guardEq] at h0 ⊢
  cases data with
  | none => simp [eBadParam] at h0
  | some m =>
    by_cases hsz : size = szDouble * h.channels
    · subst hsz
      by_cases hk : h.seekable = true
      · by_cases hr : canRead h = true
        · simp [hk, hr, cannotScan]
        · simp [hk, hr, eUnimplemented] at h0
      · simp [hk, eNotSeekable] at h0
    · simp [hsz, eBadParam] at h0

def wavW : H :=
  { mode := .w, container := cWAV, codec := 2, channels := 2, seekable := true, hasCommand := true, haveWritten := true,
    readCur := 0, writeCur := 8, normFloat := true, normDouble := true, clipping := false, floatIntMult := false,
    scaleIntFloat := false, autoHeader := false, ieeeReplace := false, endswap := false, ambisonic := 0x40,
    rf64Downgrade := false, bext := none, cart := none, cues := none, hasInstrument := false, hasLoop := false,
    hasChanMap := false, hasPeak := false, logLen := 11, metaEpoch := 0, fileEpoch := 0 }

/-- a read handle of a codec that cannot seek (WAV / GSM 6.10) -/
def gsmR : H := { wavW with mode := .r, codec := 0x20, channels := 1, seekable := false, haveWritten := false, writeCur := 0 }

def g0 : G := { verLen := 16, gLogLen := 0, simpleCount := 13, majorCount := 23, subtypeCount := 28 }

-- non-vacuity: both kinds of handle, both error numbers
example : cannotScan wavW = true ∧ cannotScan gsmR = true ∧
    (run g0 (some wavW) 0x1042 16 (some ⟨16, fun _ => 0⟩)).ret = .exact 18 ∧
    (run g0 (some gsmR) 0x1043 8 (some ⟨8, fun _ => 0⟩)).ret = .exact 40 ∧
    (run g0 (some { wavW with mode := .r }) 0x1042 16 (some ⟨16, fun _ => 0⟩)).ret = .exact 0 := by decide

/-! ## SFC_CALC_SIGNAL_MAX / SFC_CALC_NORM_SIGNAL_MAX: the statement at full strength, and the rule before the repair -/

/-- the refusal statement for the pair under an arbitrary answer function (the current `run`, or the rule before the repair) -/
def calcSignalMaxRefusal (f : G → H → Int → Mem → Res) : Prop :=
  ∀ (g : G) (h : H) (cmd : Int) (m : Mem), (cmd = 0x1040 ∨ cmd = 0x1041) → cannotScan h = true →
    ∃ v : Int, (f g h cmd m).ret = .exact v ∧ v ≠ 0

def calc_signal_max_refusal_full : Prop :=
  calcSignalMaxRefusal fun g h cmd m => run g (some h) cmd szDouble (some m)

/-- the pair behind the size guard is `calcSignalMax false` -/
theorem calc_signal_max_run (g : G) (h : H) (cmd : Int) (m : Mem) (hc : cmd = 0x1040 ∨ cmd = 0x1041) :
    run g (some h) cmd szDouble (some m) = calcSignalMax false h := by
  have hcls : classify cmd = .k1040 := by rcases hc with rfl | rfl <;> decide
  have hpre : preHandle g (some h) cmd szDouble (some m) = none := by
    rcases hc with rfl | rfl <;> simp [preHandle]
  simp [run, hpre, withHandle, hcls, guardEq]

/-- FULL STRENGTH (since the repair of KF-C09-CALC-SIGNAL-MAX-RET0): on ANY handle that cannot scan the file the pair is refused by
    convention `code` — the non-zero return value is the recorded error —, and the handle is left as it was.  (The block receives the
    0.0 psf_calc_signal_max returns: `writes` is the double.) -/
theorem calc_signal_max_refusal_convention (g : G) (h : H) (cmd : Int) (m : Mem) (hc : cmd = 0x1040 ∨ cmd = 0x1041)
    (hs : cannotScan h = true) :
    let r := run g (some h) cmd szDouble (some m)
    refusedRes .code r = true ∧ r.writes = [(0, szDouble)] ∧ r.h' = some h := by
  rw [calc_signal_max_run g h cmd m hc]
  simp only [cannotScan, Bool.or_eq_true, Bool.not_eq_true'] at hs
  by_cases hk : h.seekable = true
  · have hr : canRead h = false := by rcases hs with h1 | h1 <;> simp_all
    simp [calcSignalMax, hk, hr, refusedRes, retInt, refusedBy, eUnimplemented]
  · simp [calcSignalMax, hk, refusedRes, retInt, refusedBy, eNotSeekable]

theorem calc_signal_max_refusal_holds : calc_signal_max_refusal_full := by
  intro g h cmd m hc hs
  have h1 := calc_signal_max_refusal_convention g h cmd m hc hs
  simp only [refusedRes] at h1
  show ∃ v : Int, (run g (some h) cmd szDouble (some m)).ret = .exact v ∧ v ≠ 0
  generalize run g (some h) cmd szDouble (some m) = r at h1 ⊢
  obtain ⟨h1, _, _⟩ := h1
  cases hr : r.ret with
  | exact v =>
    refine ⟨v, rfl, ?_⟩
    intro hv
    subst hv
    cases he : r.err <;> simp [hr, he, retInt, refusedBy] at h1
  | among l => simp [hr, retInt] at h1
  | undef => simp [hr, retInt] at h1

/-- whenever the pair reports success (0) the handle can scan, the size is right and the double is written -/
theorem calc_signal_max_success_clean (g : G) (h : H) (cmd : Int) (size : Nat) (data : Option Mem) (hc : cmd = 0x1040 ∨ cmd = 0x1041)
    (h0 : (run g (some h) cmd size data).ret = .exact 0) :
    cannotScan h = false ∧ (run g (some h) cmd size data).writes = [(0, szDouble)] ∧ size = szDouble := by
  have hcls : classify cmd = .k1040 := by rcases hc with rfl | rfl <;> decide
  have hpre : preHandle g (some h) cmd size data = none := by
    rcases hc with rfl | rfl <;> simp [preHandle]
  simp only [run, hpre, withHandle, hcls, guardEq] at h0 ⊢
  cases data with
  | none => simp [eBadParam] at h0
  | some m =>
    by_cases hsz : size = szDouble
    · subst hsz
      by_cases hk : h.seekable = true
      · by_cases hr : canRead h = true
        · simp [calcSignalMax, hk, hr, cannotScan]
        · simp [calcSignalMax, hk, hr, eUnimplemented] at h0
      · simp [calcSignalMax, hk, eNotSeekable] at h0
    · simp [hsz, eBadParam] at h0

-- non-vacuity: both kinds of handle, both error numbers, both ids; a read handle scans
example : (run g0 (some wavW) 0x1040 8 (some ⟨8, fun _ => 0⟩)).ret = .exact 18 ∧
    (run g0 (some wavW) 0x1041 8 (some ⟨8, fun _ => 0⟩)).err = some 18 ∧
    (run g0 (some gsmR) 0x1041 8 (some ⟨8, fun _ => 0⟩)).ret = .exact 40 ∧
    (run g0 (some { wavW with mode := .r }) 0x1040 8 (some ⟨8, fun _ => 0⟩)).ret = .exact 0 ∧
    cannotScan { wavW with mode := .r } = false := by decide

/-- the rule before the repair: the case ended in `break` (return 0) whatever psf_calc_signal_max had recorded -/
def runOld (g : G) (h : H) (cmd : Int) (size : Nat) (data : Option Mem) : Res :=
  if cmd = 0x1040 ∨ cmd = 0x1041 then
    guardEq szDouble size data (some h) eBadParam (some eBadParam) fun _ => calcSignalMax true h
  else run g (some h) cmd size data

/-- KF-C09-CALC-SIGNAL-MAX-RET0 (repaired): under the old rule a write-only WAV handle was answered 0 with error 18 recorded … -/
theorem calc_signal_max_old_rule :
    (runOld g0 wavW 0x1040 szDouble (some ⟨8, fun _ => 0⟩)).ret = .exact 0 ∧
    (runOld g0 wavW 0x1040 szDouble (some ⟨8, fun _ => 0⟩)).err = some eUnimplemented ∧ cannotScan wavW = true ∧
    (runOld g0 gsmR 0x1041 szDouble (some ⟨8, fun _ => 0⟩)).ret = .exact 0 ∧
    (runOld g0 gsmR 0x1041 szDouble (some ⟨8, fun _ => 0⟩)).err = some eNotSeekable := by decide

/-- … so the full statement failed for it -/
theorem calc_signal_max_refusal_old_rule : ¬ calcSignalMaxRefusal fun g h cmd m => runOld g h cmd szDouble (some m) := by
  intro hf
  obtain ⟨v, hv, hne⟩ := hf g0 wavW 0x1040 ⟨8, fun _ => 0⟩ (Or.inl rfl) (by decide)
  have h0 : (runOld g0 wavW 0x1040 szDouble (some ⟨8, fun _ => 0⟩)).ret = .exact 0 := by decide
  rw [h0] at hv
  injection hv with hv
  exact hne hv.symm

/-- the two rules differ in nothing but the return value of a refused call -/
theorem calc_signal_max_old_rule_differs_only_in_ret (h : H) :
    { calcSignalMax true h with ret := (calcSignalMax false h).ret } = calcSignalMax false h := by
  unfold calcSignalMax
  split
  · rfl
  · split <;> rfl

/-! ## the seeded rule (C09-calc-all-returns-false) -/

/-- `if (! calc_max_possible (psf)) return SF_FALSE ;` — the refusal of the _ALL_CHANNELS pair answers 0 -/
def calcAllSeeded (g : G) (h : H) (cmd : Int) (size : Nat) (data : Option Mem) : Res :=
  let r := run g (some h) cmd size data
  if (cmd = 0x1042 ∨ cmd = 0x1043) ∧ cannotScan h = true ∧ r.ret ≠ .exact eBadParam then { r with ret := .exact 0 } else r

theorem calcAllSeeded_old_rule : refusedRes .code (calcAllSeeded g0 wavW 0x1042 16 (some ⟨16, fun _ => 0⟩)) = false ∧
    refusedRes .code (run g0 (some wavW) 0x1042 16 (some ⟨16, fun _ => 0⟩)) = true := by decide

end Sf.C09CmdFail
