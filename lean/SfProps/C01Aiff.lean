/-
  C01 — lossless write/read round trip, AIFF / AIFF-C (PCM S8/U8/16/24/32 in both byte orders, FLOAT, DOUBLE, µ-law and
  A-law through the integer-PCM side condition of `lossless`).  Property theorems only.

  A typed session: `openW`, any list of `TOp`s (write calls handing over items of ONE caller type `ty` with the
  write-side conversion settings `cv`; SFC_UPDATE_HEADER_NOW; auto-header writes), `close`.  The encoder is the one
  `aiff_open` installs (`Sf.Aiff.encOf`, SfModel/AiffAudio.lean); the container is `Sf.Aiff` (SfModel/Aiff.lean).
-/
import SfModel.AiffAudio
import SfProps.C01
import SfProps.C04Aiff
namespace Sf.C01Aiff
open Sf Sf.Aiff Sf.C04Aiff

inductive TOp
  | write (vals : List Int) (peaks : List Aiff.Peak) (auto : Bool)
  | update
deriving Repr

def TOp.samples : TOp → List Int
  | .write v _ _ => v
  | .update => []

/-- the untyped container operation behind a typed one -/
def TOp.toW (e : Enc) (cv : Conv) (ty : Ty) : TOp → Aiff.WOp
  | .write v pk auto => Aiff.WOp.write (e.encodeAll cv ty v) pk auto
  | .update => Aiff.WOp.update

theorem toW_write (c : Cfg) (k : Kind) (s : St) (e : Enc) (cv : Conv) (ty : Ty) (v : List Int) (pk : List Aiff.Peak) (auto : Bool) :
    applyOp c k s ((TOp.write v pk auto).toW e cv ty) = writeSamples c k s e cv ty v (some pk) auto := rfl

/-- the audio region of a typed session is the encoding of the concatenated samples -/
theorem opsData_typed (e : Enc) (cv : Conv) (ty : Ty) (ops : List TOp) :
    opsData (ops.map (TOp.toW e cv ty)) = e.encodeAll cv ty (ops.flatMap TOp.samples) := by
  induction ops with
  | nil => rfl
  | cons op r ih =>
    cases op with
    | write v pk auto => simp [TOp.toW, opsData, TOp.samples, ih, Enc.encodeAll_append]
    | update => simp [TOp.toW, opsData, TOp.samples, ih]

/-- the installed encoder is well formed and as wide as psf->bytewidth -/
theorem encOf_props (c : Cfg) (k : Kind) (ha : accepted c = true) (hk : kindOf c = some k) :
    ∃ e, Aiff.encOf c k = some e ∧ e.wf ∧ e.nbytes = bytewidthOf c.codec ∧ 0 < e.nbytes := by
  obtain ⟨codec, endian, ch0, sr0⟩ := c
  simp only [accepted, decide_eq_true_eq, Bool.or_eq_true, Bool.and_eq_true] at ha
  have hcases : (codec = 2 ∨ codec = 3 ∨ codec = 4) ∨ (codec = 1 ∨ codec = 5 ∨ codec = 6 ∨ codec = 7 ∨ codec = 0x10 ∨ codec = 0x11) := by
    rcases ha with ⟨h1, _⟩ | ⟨_, h⟩
    · exact Or.inl h1
    · exact Or.inr h
  rcases hcases with (h | h | h) | (h | h | h | h | h | h) <;> subst h <;>
    refine ⟨_, rfl, ?_, ?_, ?_⟩ <;> simp [Enc.wf, PcmFmt.wf, Enc.nbytes, PcmFmt.nbytes, bytewidthOf]

/-- **aiff_file_roundtrip.**  For every accepted AIFF configuration, every typed session and every read-side
    conversion setting: the closed file is header ++ encodeAll (all samples) ++ pad byte; under the FORM-size guard it
    re-opens with the requested channels / format / rate and exactly the frames written; and its audio region
    decodes back to the written samples bit for bit whenever each sample is lossless for the encoding. -/
theorem aiff_file_roundtrip (c : Cfg) (k : Kind) (hwf : c.wf) (hk : kindOf c = some k) (e : Enc) (he : Aiff.encOf c k = some e)
    (cv c' : Conv) (ty : Ty) (stale : Nat) (ops : List TOp) (N : Nat)
    (hN : (ops.flatMap TOp.samples).length = N * c.ch)
    (hv : ∀ v ∈ ops.flatMap TOp.samples, ty.inRange v) (hl : ∀ v ∈ ops.flatMap TOp.samples, lossless e ty v)
    (hguard : (closedBytes c k stale (ops.map (TOp.toW e cv ty))).length < 2 ^ 32) :
    let bytes := closedBytes c k stale (ops.map (TOp.toW e cv ty))
    let samples := ops.flatMap TOp.samples
    (∃ hdr, hdr.length = hdrLen c k ∧ bytes = hdr ++ e.encodeAll cv ty samples ++ tailBytes (samples.length * e.nbytes)) ∧
    parse bytes = .ok { ch := c.ch, fmt := c.fmtWord, sr := c.sr, frames := N } ∧
    e.decodeAll c' ty ((bytes.drop (hdrLen c k)).take (samples.length * e.nbytes)) = samples := by
  intro bytes samples
  obtain ⟨e', he', hewf, hnb, hpos⟩ := encOf_props c k hwf.1 hk
  rw [he] at he'; cases he'
  have hb : bytes = _ := closedBytes_eq c k hwf hk stale (ops.map (TOp.toW e cv ty))
  have hd : opsData (ops.map (TOp.toW e cv ty)) = e.encodeAll cv ty samples := opsData_typed e cv ty ops
  have hdl : (opsData (ops.map (TOp.toW e cv ty))).length = samples.length * e.nbytes := by
    rw [hd, Enc.encodeAll_length_cw]
  obtain ⟨i, _⟩ := run_inv c k hwf.1 hk (ops.map (TOp.toW e cv ty)) _ (inv_open c k hwf.1 hk stale)
  have hhl : (closedHdr c k (opsData (ops.map (TOp.toW e cv ty))).length (finalPeaks c k stale (ops.map (TOp.toW e cv ty)))).length = hdrLen c k := by
    unfold closedHdr finalPeaks; exact hdrRaw_length c k hwf.1 hk _ _ _ _ i.pk
  refine ⟨⟨_, hhl, by rw [hb, hd, Enc.encodeAll_length_cw]⟩, ?_, ?_⟩
  · have hbytes : (opsData (ops.map (TOp.toW e cv ty))).length = N * c.bw := by
      rw [hdl, hN, Cfg.bw, hnb]; rw [Nat.mul_assoc, Nat.mul_comm c.ch]
    exact aiff_frames_exact c k hwf hk stale _ N hbytes hguard
  · rw [hb, List.append_assoc, List.drop_left' hhl, ← hdl, List.take_left' rfl, hd]
    exact C01.data_roundtrip C01.widenExact e hewf hpos cv c' ty samples hv hl

/-- non-vacuity: 24-bit little-endian stereo AIFF-C (`sowt` family: '42n1'), shorts, two calls with a header
    update in between — 2 frames, and the audio region decodes to the shorts written -/
def exC : Cfg := ⟨0x03, 1, 2, 48000⟩
def exK : Kind := ⟨true, mk4 "42n1", true⟩
def exE : Enc := .pcm ⟨24, false, false⟩
def exT : List TOp := [.write [1, -1] [] false, .update, .write [32767, -32768] [] true]
example : exC.wf ∧ kindOf exC = some exK ∧ Aiff.encOf exC exK = some exE ∧
    parse (closedBytes exC exK 7 (exT.map (TOp.toW exE {} .s16))) = .ok ⟨2, 0x10020003, 48000, 2⟩ ∧
    exE.decodeAll {} .s16 (((closedBytes exC exK 7 (exT.map (TOp.toW exE {} .s16))).drop (hdrLen exC exK)).take 12) =
      [1, -1, 32767, -32768] := by decide +kernel

end Sf.C01Aiff
