-- properties: C05 C20
/-
  C05 / C06 / C20 (GSM 06.10 decoder) — NO WRAP ANYWHERE IN THE DECODER.

  SfProofs/GsmTwin.lean defines a wrap-free twin of the decoder: every function of SfModel/Gsm.lean again, with every
  `int16_t` / `int32_t` conversion removed and the arithmetic on unbounded integers with the Recommendation's saturating
  operators (`Sf.Gsm.Rec`) — `gsmDecodeN`.  The theorems:

    `gsm_decoder_never_wraps`           ∀ state satisfying the decoder invariant, ∀ frame bytes (any 33 / 65 bytes, magic
                                        right or wrong, both layouts): the twin and the wrapping decoder return the same
                                        state and the same 160 samples — no conversion in the decoder ever changes a value
    `gsm_decoder_never_wraps_stream`    … hence for every sequence of frames from `gsm_create`, every delivered block and
                                        the final state are those of the wrap-free decoder (33-byte and WAV49 layouts)
    `gsm_decoder_mult_r_is_spec`        in particular the macro GSM_MULT_R, whose value at (MIN_WORD, MIN_WORD) would wrap
                                        (`gsm_multR_min_min`), is only ever evaluated where it equals the spec operator
    `gsm_postproc_is_floor8`            the one deliberate truncation, `& 0xFFF8`, is "round down to a multiple of 8"
  What the proof needs of the input is only that every parameter lies inside its bit field, which the unpackers guarantee for
  any bytes (`gsm_frame_fields_in_range`, and per LAR index `Sf.Gsm.Twin.mkParams_larInv`): with a LARc [2] of 63 (six bits
  where the frame has five) `Decoding_of_the_coded_Log_Area_Ratios` WOULD wrap — `gsm_lar_wrap_needs_out_of_field_code`.
-/
import SfProofs.GsmTwin
namespace Sf.C06GsmNoWrap
open Sf Sf.Gsm Sf.Gsm.Proofs Sf.Gsm.Twin

/-- **no wrap in `gsm_decode`**: full strength over states and bytes -/
theorem gsm_decoder_never_wraps (st : State) (c : List Byte) (inv : SInv st) : gsmDecodeN st c = gsmDecode st c :=
  gsmDecodeN_eq st c inv

def decodeAll33N : State → List (List Byte) → List (List Int)
  | _, [] => []
  | st, c :: cs =>
    let (st1, o) := gsmDecodeN st c
    (o.getD []) :: decodeAll33N st1 cs

def decodeAll49N : State → List (List Byte) → List (List Int)
  | _, [] => []
  | st, c :: cs =>
    let (st1, o1) := gsmDecodeN st c
    let (st2, o2) := gsmDecodeN st1 (c.drop 33)
    (o1.getD [] ++ o2.getD []) :: decodeAll49N st2 cs

/-- **whole streams**: any number of frames / WAV49 blocks of any bytes, from any invariant state (so from `gsm_create`) -/
theorem gsm_decoder_never_wraps_stream (frames : List (List Byte)) :
    (∀ st, SInv st → decodeAll33N st frames = decodeAll33 st frames) ∧
    (∀ st, SInv st → decodeAll49N st frames = decodeAll49 st frames) ∧
    decodeAll33N State.init frames = decodeAll33 State.init frames ∧
    decodeAll49N State.initWav frames = decodeAll49 State.initWav frames := by
  have k33 : ∀ (fs : List (List Byte)) (st : State), SInv st → decodeAll33N st fs = decodeAll33 st fs := by
    intro fs
    induction fs with
    | nil => intro st _; rfl
    | cons c cs ih =>
      intro st inv
      simp only [decodeAll33N, decodeAll33]
      rw [gsmDecodeN_eq st c inv, ih _ (gsmDecode_spec st c inv).1]
  have k49 : ∀ (fs : List (List Byte)) (st : State), SInv st → decodeAll49N st fs = decodeAll49 st fs := by
    intro fs
    induction fs with
    | nil => intro st _; rfl
    | cons c cs ih =>
      intro st inv
      simp only [decodeAll49N, decodeAll49]
      have i1 := (gsmDecode_spec st c inv).1
      rw [gsmDecodeN_eq st c inv, gsmDecodeN_eq _ (c.drop 33) i1, ih _ (gsmDecode_spec _ (c.drop 33) i1).1]
  exact ⟨k33 frames, k49 frames, k33 frames _ SInv_init, k49 frames _ SInv_initWav⟩

/-- every GSM_MULT_R the decoder evaluates equals the spec operator mult_r (so the macro's wrap at (MIN_WORD, MIN_WORD) is
    never taken): the long-term synthesis, the post-processing and — cell by cell — the APCM inverse quantisation and the LAR
    decoding of the twin are written with the exact `(a · b + 16384) / 2^15` and proved equal to the macro-shaped model -/
theorem gsm_decoder_mult_r_is_spec (hist erp : List Int) (nr bcr : Int) (hw : AllW16 hist) (msr : Int) (hm : W16 msr) (l : List Int) :
    ltSynthN hist nr bcr erp = ltSynth hist nr bcr erp ∧ postprocN msr l = postproc msr l :=
  ⟨ltSynthN_eq hist nr bcr erp hw, postprocN_eq l msr hm⟩

/-- Postprocessing's `& 0xFFF8` -/
theorem gsm_postproc_is_floor8 (x : Int) (h : W16 x) : w16 (((wrapU 16 x / 8 * 8 : Nat) : Int)) = x / 8 * 8 := trunc8_exact x h

/-- the bit-field hypothesis is needed: a LAR code outside its five-bit field makes the `<< 10` leave 16 bits -/
theorem gsm_lar_wrap_needs_out_of_field_code :
    larStepN 63 (tab tabB 2) (tab tabMIC 2) (tab tabINVA 2) ≠ larStep 63 (tab tabB 2) (tab tabMIC 2) (tab tabINVA 2) ∧
    larStepN 31 (tab tabB 2) (tab tabMIC 2) (tab tabINVA 2) = larStep 31 (tab tabB 2) (tab tabMIC 2) (tab tabINVA 2) := by
  decide +kernel

/-- non-vacuity: the all-ones frame (largest lag, gain, block maximum and pulse codes) through both decoders -/
example : gsmDecodeN State.init (0xDF :: List.replicate 32 0xFF) = gsmDecode State.init (0xDF :: List.replicate 32 0xFF) ∧
    ((gsmDecode State.init (0xDF :: List.replicate 32 0xFF)).2.getD []).length = 160 := by
  decide +kernel

end Sf.C06GsmNoWrap
