/-
  C09, twin runs.  "An invalid call leaves positions, frame count, metadata and FILE CONTENTS unchanged" is a statement about
  everything observable LATER: a history with refused calls interleaved must end in the same closed file as the history without
  them.  For the handle model (RAW / AU / WAV, every sample-granular codec):

  * `Twin`                                  : a history in which some calls are marked as refused;
  * `Wf`                                    : every marked call is an invalid call in the state it is issued in (`OpInvalid`: the read /
                                              write / seek classes of C09.lean, or an SFC_FILE_TRUNCATE that reports failure), every
                                              other call is any call but a zero-count read / write;
  * `invalid_calls_do_not_change_state`     : after the twin the handle equals the handle after the base history up to the error
                                              field, and the store (bytes AND position) is the same;
  * `invalid_calls_do_not_change_closed_file` : `sf_close` then writes the same file;
  * `twin_reopen_equal`                     : so re-opening gives the same handle, and every later call the same answers.
  The predicate the check evaluates on the implementation's transcripts is `Sf.AbsTwin.twinOk` (SfModel/AbsTwin.lean).
-/
import SfProofs.TwinClose
import SfProps.C09
import SfModel.AbsTwin
namespace Sf.C09Twin
open Sf

/-- a refused call: an invalid read / write / seek (`OpInvalid`), or SFC_FILE_TRUNCATE answering non-zero -/
def Refused (h : H) (s : Store) : Op → Prop
  | .truncate _ f => (stepTruncate h s f).2.2.ret ≠ 0
  | op => OpInvalid h op

/-- a refused call changes nothing but the error field -/
theorem refused_no_effect (h : H) (s : Store) (op : Op) (hr : Refused h s op) :
    ∃ e, (stepAny h s op).1 = { h with error := e } ∧ (stepAny h s op).2.1 = s := by
  cases op with
  | truncate _ f =>
    obtain ⟨e, e1, e2, _⟩ := C09.truncate_invalid_no_effect h s f hr
    exact ⟨e, e1, e2⟩
  | read a ty fc n => obtain ⟨e, _, e1, e2⟩ := stepAny_invalid h s (.read a ty fc n) hr; exact ⟨e, e1, e2⟩
  | write a ty fc n d => obtain ⟨e, _, e1, e2⟩ := stepAny_invalid h s (.write a ty fc n d) hr; exact ⟨e, e1, e2⟩
  | seek a o w => obtain ⟨e, _, e1, e2⟩ := stepAny_invalid h s (.seek a o w) hr; exact ⟨e, e1, e2⟩
  | cmdFlag _ _ _ => exact absurd hr id
  | close _ => exact absurd hr id

/-- a history with refused calls marked (`true`) -/
abbrev Twin := List (Bool × Op)

def twinOps (t : Twin) : List Op := t.map (·.2)
def baseOps : Twin → List Op
  | [] => []
  | (true, _) :: r => baseOps r
  | (false, op) :: r => op :: baseOps r

/-- marked calls are refused where they are issued; unmarked calls are error-blind -/
def Wf : H → Store → Twin → Prop
  | _, _, [] => True
  | h, s, (true, op) :: r => Refused h s op ∧ Wf (stepAny h s op).1 (stepAny h s op).2.1 r
  | h, s, (false, op) :: r => ErrBlind op ∧ Wf (stepAny h s op).1 (stepAny h s op).2.1 r

theorem twin_state (t : Twin) : ∀ (h : H) (s : Store) (e0 : Int), Wf h s t →
    ∃ e, runOps h s (twinOps t) =
      ({ (runOps { h with error := e0 } s (baseOps t)).1 with error := e }, (runOps { h with error := e0 } s (baseOps t)).2) := by
  induction t with
  | nil => intro h s e0 _; exact ⟨h.error, rfl⟩
  | cons x r ih =>
    intro h s e0 hw
    obtain ⟨b, op⟩ := x
    cases b with
    | true =>
      obtain ⟨hr, hw'⟩ := hw
      obtain ⟨e1, q1, q2⟩ := refused_no_effect h s op hr
      rw [q1, q2] at hw'
      obtain ⟨e, he⟩ := ih { h with error := e1 } s e0 hw'
      refine ⟨e, ?_⟩
      show runOps (stepAny h s op).1 (stepAny h s op).2.1 (twinOps r) = _
      rw [q1, q2, he]
      rfl
    | false =>
      obtain ⟨hb, hw'⟩ := hw
      obtain ⟨e, he⟩ := ih (stepAny h s op).1 (stepAny h s op).2.1 (stepAny h s op).1.error hw'
      refine ⟨e, ?_⟩
      show runOps (stepAny h s op).1 (stepAny h s op).2.1 (twinOps r) =
        ({ (runOps (stepAny { h with error := e0 } s op).1 (stepAny { h with error := e0 } s op).2.1 (baseOps r)).1 with error := e },
         (runOps (stepAny { h with error := e0 } s op).1 (stepAny { h with error := e0 } s op).2.1 (baseOps r)).2)
      rw [stepAny_error_blind h s op e0 hb, he]

/-- **Refused calls interleaved anywhere in a history leave the handle (up to the error field) and the store — bytes and
    position — exactly as the history without them does.** -/
theorem invalid_calls_do_not_change_state (t : Twin) (h : H) (s : Store) (hw : Wf h s t) :
    ∃ e, (runOps h s (twinOps t)).1 = { (runOps h s (baseOps t)).1 with error := e } ∧
         (runOps h s (twinOps t)).2 = (runOps h s (baseOps t)).2 := by
  obtain ⟨e, he⟩ := twin_state t h s h.error hw
  exact ⟨e, by rw [he], by rw [he]⟩

/-- **… and `sf_close` then writes the same file.** -/
theorem invalid_calls_do_not_change_closed_file (t : Twin) (h : H) (s : Store) (hw : Wf h s t) :
    closeHandle (runOps h s (twinOps t)).1 (runOps h s (twinOps t)).2 =
    closeHandle (runOps h s (baseOps t)).1 (runOps h s (baseOps t)).2 := by
  obtain ⟨e, e1, e2⟩ := invalid_calls_do_not_change_state t h s hw
  rw [e1, e2, closeHandle_error]

/-- so whatever is done with the closed file afterwards — re-open in any mode, `info`, reads — sees no difference -/
theorem twin_reopen_equal (t : Twin) (h : H) (s : Store) (hw : Wf h s t) (ix : Nat) (m : Mode) (fmt : Nat) (ch sr : Int) :
    openHandle ix (closeHandle (runOps h s (twinOps t)).1 (runOps h s (twinOps t)).2) m fmt ch sr =
    openHandle ix (closeHandle (runOps h s (baseOps t)).1 (runOps h s (baseOps t)).2) m fmt ch sr := by
  rw [invalid_calls_do_not_change_closed_file t h s hw]

/-! ## non-vacuity: a stereo 16-bit WAV written in two calls, with a read, a misaligned write, an out-of-range seek target
(negative), an unknown whence and a refused SFC_FILE_TRUNCATE in between -/

def wS : Store := {}
def twinEx : Twin :=
  [(false, .write 0 .s16 true 1 [1, 2]), (true, .read 0 .s16 false 2), (true, .write 0 .s16 false 3 [7, 7, 7]),
   (true, .seek 0 (-4) 0), (true, .seek 0 0 7), (true, .truncate 0 0), (false, .write 0 .s16 true 1 [3, 4])]

example : (match openHandle 0 wS .w 0x010002 2 8000 with
    | .ok h s =>
      decide ((closeHandle (runOps h s (twinOps twinEx)).1 (runOps h s (twinOps twinEx)).2).bytes =
              (closeHandle (runOps h s (baseOps twinEx)).1 (runOps h s (baseOps twinEx)).2).bytes ∧
              (closeHandle (runOps h s (baseOps twinEx)).1 (runOps h s (baseOps twinEx)).2).bytes.length = 52 ∧
              (runOps h s (twinOps (twinEx.take 5))).1.error ≠ 0 ∧ (runOps h s (baseOps (twinEx.take 5))).1.error = 0)
    | _ => false) = true := by decide +kernel

/-- the hypothesis is met: on the read-only handle of C09.lean, an unknown whence is refused and a one-frame read is error-blind -/
example : Wf C09.eH C09.eS [(true, .seek 0 0 7), (false, .read 0 .s16 true 1)] :=
  ⟨Or.inl (by unfold seekKnown; decide), by show (1 : Int) ≠ 0; decide, trivial⟩

end Sf.C09Twin

/-! ## what the predicate of the check means (`Sf.AbsTwin.twinOk`, evaluated by `sfmodel abs-twin` on the implementation's transcripts) -/
namespace Sf.C09Twin
open Sf.AbsTwin

theorem insFail_none (i : Ins) : insFail i = none ↔ (i.must = true → i.refused = true ∧ i.err ≠ 0 ∧ 0 < i.msgLen) := by
  unfold insFail
  cases hm : i.must <;> cases hr : i.refused <;> simp

theorem pairFail_none (p : Pair) : pairFail p = none ↔ p.base = p.twin := by
  unfold pairFail
  by_cases h : p.base = p.twin <;> simp [h]

theorem filterMap_nil {α β} (f : α → Option β) (l : List α) : l.filterMap f = [] ↔ ∀ x ∈ l, f x = none := by
  induction l with
  | nil => simp
  | cons a r ih =>
    cases h : f a <;> simp [List.filterMap_cons, h, ih]

/-- **A twin record is accepted exactly when every call of an invalid class was refused with an error code and a message, and every
    line the two histories share — later calls on the handle, the close, the bytes of the closed file, info / metadata / audio of the
    re-opened file — is the same with and without the refused calls.** -/
theorem twinOk_meaning (r : Record) :
    twinOk r = true ↔
      (∀ i ∈ r.ins, i.must = true → i.refused = true ∧ i.err ≠ 0 ∧ 0 < i.msgLen) ∧ (∀ p ∈ r.pairs, p.base = p.twin) := by
  unfold twinOk judge
  rw [List.isEmpty_iff, List.append_eq_nil_iff, filterMap_nil, filterMap_nil]
  constructor
  · rintro ⟨a, b⟩
    exact ⟨fun i hi => (insFail_none i).mp (a i hi), fun p hp => (pairFail_none p).mp (b p hp)⟩
  · rintro ⟨a, b⟩
    exact ⟨fun i hi => (insFail_none i).mpr (a i hi), fun p hp => (pairFail_none p).mpr (b p hp)⟩

/-- in particular the closed files are byte-identical -/
theorem accepted_closed_files_equal (r : Record) (h : twinOk r = true) (p : Pair) (hp : p ∈ r.pairs) (_ : p.phase = .file) :
    p.base = p.twin := ((twinOk_meaning r).mp h).2 p hp

/-- non-vacuity: an accepted record, and one rejected by each clause (a seek that was not refused; a refusal without error code;
    a closed file that differs) -/
example : twinOk { ins := [⟨3, true, true, 5, 9⟩, ⟨7, false, false, 0, 9⟩], pairs := [⟨5, .state, "ret=1", "ret=1"⟩, ⟨9, .file, "len=2 hex=0102", "len=2 hex=0102"⟩] } = true ∧
    judge { ins := [⟨3, true, false, 0, 9⟩], pairs := [] } = [.failValue 3] ∧
    judge { ins := [⟨3, true, true, 0, 9⟩], pairs := [] } = [.errorCode 3] ∧
    judge { ins := [], pairs := [⟨9, .file, "len=2 hex=0102", "len=3 hex=010200"⟩] } = [.differs .file 9] := by decide

end Sf.C09Twin
