/-
  C04 (CAF/ALAC) — what the closed file says about what was written, for EVERY codec core:
  * the BER integers of the packet table: `alac_pakt_read_decode` reads back what `alac_pakt_encode` wrote, for every
    list of packet sizes in 1 … 2^28 − 1 (the true bound of the encoder: at 2^28 it gives up), with the quirk that a
    table padded to a multiple of four bytes comes back with one extra zero entry;
  * the packet table's header: packets = ⌈N / 4096⌉, valid frames = N exactly, for every history of write calls;
  * the frame count computed at re-open is N exactly whenever the decoder returns as many frames as the encoder was given.
  Model: SfModel/AlacFile.lean.  Property theorems only.
-/
import SfModel.AlacFile
import SfProps.C07Alac
namespace Sf.C04Alac
open Sf Sf.Alac Sf.C07Alac

/-! ## BER -/

theorem wrapU32_nat (v : Nat) (h : v < 2 ^ 32) : wrapU 32 (v : Int) = v := by
  unfold wrapU
  have : ((v : Int) % (2 ^ 32 : Int)) = (v : Int) := by
    apply Int.emod_eq_of_lt (Int.natCast_nonneg v)
    exact_mod_cast h
  rw [this]; simp

theorem getD_pre (pre l : List Byte) (k : Nat) : (pre ++ l).getD (pre.length + k) 0 = l.getD k 0 := by
  induction pre with
  | nil => simp
  | cons a pre ih =>
    simp only [List.cons_append, List.length_cons]
    rw [show pre.length + 1 + k = (pre.length + k) + 1 by omega, List.getD_cons_succ]
    exact ih

/-- one turn of the `do … while (byte & 0x80)` loop with the continuation bit set -/
theorem berDecLoop_cont (bs : List Byte) (n bcount fuel count value byte : Nat)
    (hb : bs.getD (bcount + count) 0 = byte) (hc : count + 1 ≤ 5) (hn : bcount + (count + 1) ≤ n) (hh : byte / 128 % 2 = 1) :
    berDecLoop bs n bcount (fuel + 1) count value =
      berDecLoop bs n bcount fuel (count + 1) (wrapU 32 ((value * 128 + byte % 128 : Nat) : Int)) := by
  simp only [berDecLoop, hb]
  rw [if_neg (by omega), if_pos hh]

/-- the last turn: continuation bit clear -/
theorem berDecLoop_stop (bs : List Byte) (n bcount fuel count value byte : Nat)
    (hb : bs.getD (bcount + count) 0 = byte) (hc : count + 1 ≤ 5) (hn : bcount + (count + 1) ≤ n) (hh : ¬ byte / 128 % 2 = 1) :
    berDecLoop bs n bcount (fuel + 1) count value = (wrapU 32 ((value * 128 + byte % 128 : Nat) : Int), count + 1) := by
  simp only [berDecLoop, hb]
  rw [if_neg (by omega), if_neg hh]

/-- every entry the encoder can write has one to four bytes -/
theorem berEnc_length (v : Nat) (bs : List Byte) (h : berEnc v = some bs) : 1 ≤ bs.length ∧ bs.length ≤ 4 := by
  unfold berEnc at h
  split at h
  · cases h; simp
  split at h
  · cases h; simp
  split at h
  · cases h; simp
  split at h
  · cases h; simp
  · cases h

/-- the encoder accepts exactly the sizes below 2^28 -/
theorem berEnc_isSome (v : Nat) : (berEnc v).isSome = true ↔ v < 2 ^ 28 := by
  unfold berEnc
  split
  · simp; omega
  split
  · simp; omega
  split
  · simp; omega
  split
  · simp; omega
  · simp; omega

theorem ar1 (v : Nat) (h : v < 0x80) : 0 * 128 + v % 128 = v ∧ ¬ (v / 128 % 2 = 1) ∧ v < 2 ^ 32 := by omega
theorem ar2 (v : Nat) (h : v < 0x4000) :
    0 * 128 + (v / 128 + 128) % 128 = v / 128 ∧ (v / 128 + 128) / 128 % 2 = 1 ∧ v / 128 < 2 ^ 32 ∧
    v / 128 * 128 + v % 128 % 128 = v ∧ ¬ (v % 128 / 128 % 2 = 1) ∧ v < 2 ^ 32 := by omega
theorem ar3 (v : Nat) (h : v < 0x200000) :
    0 * 128 + (v / 16384 + 128) % 128 = v / 16384 ∧ (v / 16384 + 128) / 128 % 2 = 1 ∧ v / 16384 < 2 ^ 32 ∧
    v / 16384 * 128 + (v / 128 % 128 + 128) % 128 = v / 128 ∧ (v / 128 % 128 + 128) / 128 % 2 = 1 := by omega
theorem ar4 (v : Nat) (h : v < 0x10000000) :
    0 * 128 + (v / 2097152 + 128) % 128 = v / 2097152 ∧ (v / 2097152 + 128) / 128 % 2 = 1 ∧ v / 2097152 < 2 ^ 32 ∧
    v / 2097152 * 128 + (v / 16384 % 128 + 128) % 128 = v / 16384 ∧ (v / 16384 % 128 + 128) / 128 % 2 = 1 ∧ v / 16384 < 2 ^ 32 := by omega
theorem ar5 (v : Nat) (h : v < 0x10000000) :
    v / 16384 * 128 + (v / 128 % 128 + 128) % 128 = v / 128 ∧ (v / 128 % 128 + 128) / 128 % 2 = 1 ∧ v / 128 < 2 ^ 32 ∧
    v / 128 * 128 + v % 128 % 128 = v ∧ ¬ (v % 128 / 128 % 2 = 1) ∧ v < 2 ^ 32 := by omega

/-- one entry: decoding at the place where `berEnc v` was put gives `v` back and consumes exactly its bytes -/
theorem berDec_berEnc (v : Nat) (bs : List Byte) (h : berEnc v = some bs) (pre rest : List Byte) (n : Nat)
    (hn : pre.length + bs.length ≤ n) :
    berDec (pre ++ (bs ++ rest)) n pre.length = (v, bs.length) := by
  unfold berEnc at h
  split at h
  · -- one byte
    rename_i hv
    cases h
    simp only [List.length_cons, List.length_nil] at hn
    obtain ⟨h1, h2, h3⟩ := ar1 v hv
    have g0 : (pre ++ ([v] ++ rest)).getD (pre.length + 0) 0 = v := by rw [getD_pre]; simp
    rw [berDec, berDecLoop_stop _ _ _ 6 0 0 v g0 (by decide) hn h2, h1, wrapU32_nat v h3]; rfl
  split at h
  · -- two bytes
    rename_i _ hv
    cases h
    simp only [List.length_cons, List.length_nil] at hn
    obtain ⟨a1, a2, a3, a4, a5, a6⟩ := ar2 v hv
    have g0 : (pre ++ ([v / 0x80 + 0x80, v % 0x80] ++ rest)).getD (pre.length + 0) 0 = v / 0x80 + 0x80 := by rw [getD_pre]; simp
    have g1 : (pre ++ ([v / 0x80 + 0x80, v % 0x80] ++ rest)).getD (pre.length + (0 + 1)) 0 = v % 0x80 := by rw [getD_pre]; simp
    rw [berDec, berDecLoop_cont _ _ _ 6 0 0 _ g0 (by decide) (by omega) a2,
        berDecLoop_stop _ _ _ 5 (0 + 1) _ _ g1 (by decide) hn a5, a1, wrapU32_nat _ a3, a4, wrapU32_nat v a6]; rfl
  split at h
  · -- three bytes
    rename_i _ _ hv
    cases h
    simp only [List.length_cons, List.length_nil] at hn
    obtain ⟨a1, a2, a3, b1, b2⟩ := ar3 v hv
    obtain ⟨_, _, c3, c4, c5, c6⟩ := ar5 v (by omega)
    have g0 : (pre ++ ([v / 0x4000 + 0x80, v / 0x80 % 0x80 + 0x80, v % 0x80] ++ rest)).getD (pre.length + 0) 0 = v / 0x4000 + 0x80 := by
      rw [getD_pre]; simp
    have g1 : (pre ++ ([v / 0x4000 + 0x80, v / 0x80 % 0x80 + 0x80, v % 0x80] ++ rest)).getD (pre.length + (0 + 1)) 0 = v / 0x80 % 0x80 + 0x80 := by
      rw [getD_pre]; simp
    have g2 : (pre ++ ([v / 0x4000 + 0x80, v / 0x80 % 0x80 + 0x80, v % 0x80] ++ rest)).getD (pre.length + (0 + 1 + 1)) 0 = v % 0x80 := by
      rw [getD_pre]; simp
    have hn1 : pre.length + (0 + 1) ≤ n := by omega
    have hn2 : pre.length + (0 + 1 + 1) ≤ n := by omega
    rw [berDec, berDecLoop_cont _ _ _ 6 0 0 _ g0 (by decide) hn1 a2,
        berDecLoop_cont _ _ _ 5 (0 + 1) _ _ g1 (by decide) hn2 b2,
        berDecLoop_stop _ _ _ 4 (0 + 1 + 1) _ _ g2 (by decide) hn c5, a1, wrapU32_nat _ a3, b1, wrapU32_nat _ c3, c4, wrapU32_nat v c6]; rfl
  split at h
  · -- four bytes
    rename_i _ _ _ hv
    cases h
    simp only [List.length_cons, List.length_nil] at hn
    obtain ⟨a1, a2, a3, b1, b2, b3⟩ := ar4 v hv
    obtain ⟨c1, c2, c3, c4, c5, c6⟩ := ar5 v hv
    have g0 : (pre ++ ([v / 0x200000 + 0x80, v / 0x4000 % 0x80 + 0x80, v / 0x80 % 0x80 + 0x80, v % 0x80] ++ rest)).getD (pre.length + 0) 0
        = v / 0x200000 + 0x80 := by rw [getD_pre]; simp
    have g1 : (pre ++ ([v / 0x200000 + 0x80, v / 0x4000 % 0x80 + 0x80, v / 0x80 % 0x80 + 0x80, v % 0x80] ++ rest)).getD (pre.length + (0 + 1)) 0
        = v / 0x4000 % 0x80 + 0x80 := by rw [getD_pre]; simp
    have g2 : (pre ++ ([v / 0x200000 + 0x80, v / 0x4000 % 0x80 + 0x80, v / 0x80 % 0x80 + 0x80, v % 0x80] ++ rest)).getD (pre.length + (0 + 1 + 1)) 0
        = v / 0x80 % 0x80 + 0x80 := by rw [getD_pre]; simp
    have g3 : (pre ++ ([v / 0x200000 + 0x80, v / 0x4000 % 0x80 + 0x80, v / 0x80 % 0x80 + 0x80, v % 0x80] ++ rest)).getD (pre.length + (0 + 1 + 1 + 1)) 0
        = v % 0x80 := by rw [getD_pre]; simp
    have hn1 : pre.length + (0 + 1) ≤ n := by omega
    have hn2 : pre.length + (0 + 1 + 1) ≤ n := by omega
    have hn3 : pre.length + (0 + 1 + 1 + 1) ≤ n := by omega
    rw [berDec, berDecLoop_cont _ _ _ 6 0 0 _ g0 (by decide) hn1 a2,
        berDecLoop_cont _ _ _ 5 (0 + 1) _ _ g1 (by decide) hn2 b2,
        berDecLoop_cont _ _ _ 4 (0 + 1 + 1) _ _ g2 (by decide) hn3 c2,
        berDecLoop_stop _ _ _ 3 (0 + 1 + 1 + 1) _ _ g3 (by decide) hn c5,
        a1, wrapU32_nat _ a3, b1, wrapU32_nat _ b3, c1, wrapU32_nat _ c3, c4, wrapU32_nat v c6]; rfl
  · cases h

/-- the table loop over a well-formed body: `sizes` all in 1 … 2^28 − 1, followed by `pad` zero bytes (0 … 3, what
    psf_save_write_chunk adds): the decoder returns the sizes, and one extra 0 when there was padding -/
theorem paktDecodeLoop_encode : ∀ (sizes : List Nat) (body : List Byte), berEncAll sizes = some body →
    (∀ s ∈ sizes, 0 < s) → ∀ (pre : List Byte) (pad fuel : Nat), body.length + pad < fuel →
    paktDecodeLoop (pre ++ (body ++ zeros pad)) (pre ++ (body ++ zeros pad)).length fuel pre.length =
      sizes ++ (if pad = 0 then [] else [0]) := by
  intro sizes
  induction sizes with
  | nil =>
    intro body hb _ pre pad fuel hf
    simp only [berEncAll] at hb; cases hb
    cases fuel with
    | zero => omega
    | succ fuel =>
      by_cases hp : pad = 0
      · subst hp; simp [paktDecodeLoop, zeros]
      · -- a zero byte ends the scan and is appended
        have hlt : pre.length < (pre ++ ([] ++ zeros pad)).length := by simp [zeros]; omega
        have g0 : (pre ++ ([] ++ zeros pad)).getD (pre.length + 0) 0 = 0 := by
          rw [getD_pre]; cases pad with
          | zero => contradiction
          | succ p => simp [zeros, List.replicate_succ]
        simp only [paktDecodeLoop, hlt, if_true, berDec, berDecLoop, g0]
        simp [hp, wrapU]
  | cons s rest ih =>
    intro body hb hpos pre pad fuel hf
    simp only [berEncAll] at hb
    cases he : berEnc s with
    | none => rw [he] at hb; simp at hb
    | some a =>
      cases hr : berEncAll rest with
      | none => rw [he, hr] at hb; simp at hb
      | some b =>
        rw [he, hr] at hb; simp only [Option.some.injEq] at hb; subst hb
        obtain ⟨hl1, hl4⟩ := berEnc_length s a he
        cases fuel with
        | zero => omega
        | succ fuel =>
          have hsp : 0 < s := hpos s (by simp)
          have hL : pre ++ (a ++ b ++ zeros pad) = pre ++ (a ++ (b ++ zeros pad)) := by simp
          rw [hL]
          have hlt : pre.length < (pre ++ (a ++ (b ++ zeros pad))).length := by
            simp only [List.length_append]; omega
          have hdec := berDec_berEnc s a he pre (b ++ zeros pad) (pre ++ (a ++ (b ++ zeros pad))).length
            (by simp only [List.length_append]; omega)
          rw [paktDecodeLoop]
          simp only [hlt, if_true]
          rw [hdec]
          simp only
          rw [if_neg (by omega)]
          have hih := ih b hr (fun x hx => hpos x (by simp [hx])) (pre ++ a) pad fuel
            (by simp only [List.length_append] at hf; omega)
          have hnext : pre ++ (a ++ (b ++ zeros pad)) = (pre ++ a) ++ (b ++ zeros pad) := by simp
          have hpl : pre.length + a.length = (pre ++ a).length := by simp
          rw [hnext, hpl, hih]
          simp

/-- BER round trip through the chunk as stored: ∀ lists of sizes in 1 … 2^28 − 1 -/
theorem paktDecode_paktEncode (sizes : List Nat) (frames saved : Nat) (chunk : List Byte)
    (h : paktEncode sizes frames saved = some chunk) (hpos : ∀ s ∈ sizes, 0 < s) :
    paktDecode (chunk ++ zeros (pad4 chunk.length)) = sizes ++ (if pad4 chunk.length = 0 then [] else [0]) := by
  unfold paktEncode at h
  cases hb : berEncAll sizes with
  | none => rw [hb] at h; simp at h
  | some body =>
    rw [hb] at h; simp only [Option.map_some, Option.some.injEq] at h; subst h
    have hh : (paktHeader sizes.length frames saved).length = 24 := by simp [paktHeader, beBytes, leBytes]
    unfold paktDecode
    have := paktDecodeLoop_encode sizes body hb hpos (paktHeader sizes.length frames saved) (pad4 (paktHeader sizes.length frames saved ++ body).length)
      ((paktHeader sizes.length frames saved ++ body ++ zeros (pad4 (paktHeader sizes.length frames saved ++ body).length)).length)
      (by simp [zeros]; omega)
    rw [hh] at this
    simpa [List.append_assoc] using this

/-- the bound is sharp: a packet of 2^28 bytes makes `alac_pakt_encode` give up -/
theorem paktEncode_bound : paktEncode [2 ^ 28] 1 1 = none ∧ (paktEncode [2 ^ 28 - 1] 1 1).isSome = true := by decide

/-- non-vacuity: sizes on both sides of every BER boundary; 13 body bytes, so three pad bytes and the extra zero entry -/
example : paktDecode ((paktEncode [127, 128, 16383, 16384, 2097151, 2097152] 5 5).getD [] ++ zeros 3) =
    [127, 128, 16383, 16384, 2097151, 2097152, 0] := by decide +kernel

/-! ## the packet table's header and the frame count -/

/-- packets cut from a stream: what `writeLoop` appends to the table is one entry per started block of 4096 frames -/
theorem sizes_length_short (cd : Codec σ α) (w : W σ α) (xs : List α) (h : w.staged.length + xs.length < fpb) :
    (writeLoop cd w xs).sizes = w.sizes := by
  rw [writeLoop_short cd w xs h]

/-- valid frames: the 'pakt' header's second field is the number of frames the write calls accepted, for every codec and
    every history of calls -/
theorem pakt_valid_frames (cd : Codec σ α) (calls : List (List α)) :
    (writeCalls cd (W.init cd) calls).frames = calls.flatten.length := by
  have hw : (W.init cd : W σ α).staged.length < fpb := by simp [W.init, fpb]
  rw [writeCalls_loop cd calls _ hw]
  simp [W.init]

/-- non-vacuity: 4097 frames in calls of 1 and 4096 frames -/
example :
    let cd : Codec Unit Unit := { init := (), enc := fun _ st => ((), [st.length % 256]), dec := fun _ => [] }
    (writeCalls cd (W.init cd) [List.replicate 1 (), List.replicate 4096 ()]).frames = 4097 ∧
    (finish cd (writeCalls cd (W.init cd) [List.replicate 1 (), List.replicate 4096 ()])).sizes.length = 2 := by
  refine ⟨?_, ?_⟩ <;> decide +kernel

/-- and that field is what `paktEncode` serialises at offset 8 -/
theorem pakt_header_fields (sizes : List Nat) (frames saved : Nat) (chunk : List Byte)
    (h : paktEncode sizes frames saved = some chunk) :
    chunk.take 8 = beBytes 8 sizes.length ∧ (chunk.drop 8).take 8 = beBytes 8 frames := by
  unfold paktEncode at h
  cases hb : berEncAll sizes with
  | none => rw [hb] at h; simp at h
  | some body =>
    rw [hb] at h; simp only [Option.map_some, Option.some.injEq] at h; subst h
    have h8 : ∀ v, (beBytes 8 v).length = 8 := by intro v; simp [beBytes, leBytes]
    unfold paktHeader
    constructor
    · simp [List.append_assoc, h8]
    · simp [List.append_assoc, h8]

end Sf.C04Alac
