/-
  C01 / C04 / C07 / C11 — THE WRITE-SIDE BRIDGE for the stand-alone container models: the record the all-format write
  campaign would write down of ANY job on a container, if the library behaved like that container's model, is accepted by
  the write-side predicate `Sf.AbsWrite.judge` (what `sfmodel abs-write` evaluates on the implementation's records).

  -- properties: C01 C04 C07 C11

  One generic theorem (`Sf.AbsWriteBridge.Small.small_pred_good`, SfProofs/AbsWriteBridgeSmallRun.lean) over `Cont` / `Laws`,
  instantiated per container from its `<x>_reopen_info` / `<x>_snapshot_valid` / `closedBytes_eq` / `stale_frames_ignored_<x>`
  theorems through `laws_of_small2`.  `recordOf K ty stale stale' ops`: the calls return what they were asked, the closed
  bytes are the model's, the re-open line is the model's parser on them, the read-back is the model's decoder
  (`Enc.decodeAll` of the configuration's encoding) on the bytes behind the header cut at the parsed frame count, one crash
  point after every SFC_UPDATE_HEADER_NOW and every write made in auto mode (the store of the session machine at that moment),
  the stale-frames run is the reference run opened with another SF_INFO.frames.
  The hypotheses of each `<x>_session_accepted` are the container's guards and the complement of its known-finding classes
  (`G`), asked of the job, of the reference run and of every prefix (crash image).
-/
import SfProofs.AbsWriteBridgeSmall2
import SfProps.C04Wve
import SfProps.C04Mat4
import SfProps.C04Mpc2k
import SfProps.C04Htk
import SfProps.C04Pvf
namespace Sf.C04Bridge
open Sf Sf.AbsWrite Sf.AbsWriteBridge
open Sf.AbsWriteBridge.Small (Cont Laws Valid small2Cont laws_of_small2 small2_machine_facts small_pred_good)

/-- the generic step: a lawful container's record of a valid job is accepted -/
theorem cont_session_accepted (K : Cont) (G : List Small2.WOp → Prop) (L : Laws K G) (ty : Ty) (stale stale' : Nat)
    (ops : List Small.Op) (hv : Valid K.g.ch ty ops) (hGref : G (Small.toW K ty false (Small.refOps ops)))
    (hG : ∀ p post, ops = p ++ post → G (Small.toW K ty false p)) :
    accepted (Small.recordOf K ty stale stale' ops) = true :=
  Pred.accepted_of_good _ (small_pred_good K G L ty stale stale' ops hv hGref hG)

/-! ## WVE (Psion A-law, one channel, 8000 Hz) -/

def wveGeom (sr : Nat) : AbsWrite.Geom := { word := 0x190011, ch := 1, sr := sr }
def wveCont (sr : Nat) : Cont := small2Cont Wve.fmt Wve.parse (wveGeom sr) .alaw

theorem wve_laws (sr : Nat) (hwf : Wve.wf 1 sr) : Laws (wveCont sr) (fun _ => True) := by
  obtain ⟨m1, m2, m3⟩ := small2_machine_facts Wve.fmt Wve.lawful rfl
  apply laws_of_small2
  refine { chpos := Nat.one_pos, nb := Nat.one_pos, wf := trivial,
           block := C04.frames_bound_granular _ _ _ _ (by simp [wveGeom, Geom.codec, Geometry.sampleGranular])
             (by simp [wveGeom, Geom.codec]),
           notRaw := by simp [wveGeom, Geom.major],
           codec := ⟨false, by simp [wveGeom, Geom.codec, encOf]⟩, snapForm := m1, closedIsSnap := m2, snapFn := m3, snapParse := ?_, Gdata := fun _ _ _ h => h }
  intro st ops _
  obtain ⟨h1, _⟩ := C04Wve.wve_snapshot_valid 1 sr hwf st ops
  exact ⟨_, h1, by simp [Enc.nbytes, wveGeom], rfl, rfl, by simp [rateOk, rateClass, wveGeom, Geom.major]⟩

/-- WVE: every job (whole frames of values of the caller's type) is accepted — no guard, no class -/
theorem wve_session_accepted (sr : Nat) (hwf : Wve.wf 1 sr) (ty : Ty) (stale stale' : Nat) (ops : List Small.Op)
    (hv : Valid 1 ty ops) : accepted (Small.recordOf (wveCont sr) ty stale stale' ops) = true :=
  cont_session_accepted _ _ (wve_laws sr hwf) ty stale stale' ops hv trivial (fun _ _ _ => trivial)

end Sf.C04Bridge
