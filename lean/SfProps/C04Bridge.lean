/-
  C01 / C04 / C07 / C11 — THE WRITE-SIDE BRIDGE for the stand-alone container models: the record the all-format write
  campaign would write down of ANY job on a container, if the library behaved like that container's model, is accepted by
  the write-side predicate `Sf.AbsWrite.judge` (what `sfmodel abs-write` evaluates on the implementation's records).

  -- properties: C01 C04 C07 C11

  One generic theorem (`Sf.AbsWriteBridge.Small.small_pred_good`, SfProofs/AbsWriteBridgeSmallRun.lean) over `Cont` / `Laws`,
  instantiated per container from its `<x>_reopen_info` / `<x>_snapshot_valid` / `closedBytes_eq` / `stale_frames_ignored_<x>`
  theorems through `laws_of_small2`.  `recordOf K ty stale stale' ops`: the calls return what they were asked, the closed
  bytes are the model's, the re-open line is the model's parser on them, the read-back is the model's decoder
  (`Enc.decodeAll` of the configuration's encoding) on the bytes behind the header cut at the parsed frame count, one crash
  point after every SFC_UPDATE_HEADER_NOW and every write made in auto mode (the store of the session machine at that moment),
  the stale-frames run is the reference run opened with another SF_INFO.frames.
  The hypotheses of each `<x>_session_accepted` are the container's guards and the complement of its known-finding classes
  (`G`), asked of the job, of the reference run and of every prefix (crash image).
-/
import SfProofs.AbsWriteBridgeSmall2
import SfProps.C04Wve
import SfProps.C04Mat4
import SfProps.C04Mpc2k
import SfProps.C04Htk
import SfProps.C04Pvf
namespace Sf.C04Bridge
open Sf Sf.AbsWrite Sf.AbsWriteBridge
open Sf.AbsWriteBridge.Small (Cont Laws Valid small2Cont laws_of_small2 small2_machine_facts small_pred_good)

/-- the generic step: a lawful container's record of a valid job is accepted -/
theorem cont_session_accepted (K : Cont) (G : List Small2.WOp → Prop) (L : Laws K G) (ty : Ty) (stale stale' : Nat)
    (ops : List Small.Op) (hv : Valid K.g.ch ty ops) (hGref : G (Small.toW K ty false (Small.refOps ops)))
    (hG : ∀ p post, ops = p ++ post → G (Small.toW K ty false p)) :
    accepted (Small.recordOf K ty stale stale' ops) = true :=
  Pred.accepted_of_good _ (small_pred_good K G L ty stale stale' ops hv hGref hG)

/-! ## WVE (Psion A-law, one channel, 8000 Hz) -/

def wveGeom (sr : Nat) : AbsWrite.Geom := { word := 0x190011, ch := 1, sr := sr }
def wveCont (sr : Nat) : Cont := small2Cont Wve.fmt Wve.parse (wveGeom sr) .alaw

theorem wve_laws (sr : Nat) (hwf : Wve.wf 1 sr) : Laws (wveCont sr) (fun _ => True) := by
  obtain ⟨m1, m2, m3⟩ := small2_machine_facts Wve.fmt Wve.lawful rfl
  apply laws_of_small2
  refine { chpos := Nat.one_pos, nb := Nat.one_pos, wf := trivial,
           block := C04.frames_bound_granular _ _ _ _ (by simp [wveGeom, Geom.codec, Geometry.sampleGranular])
             (by simp [wveGeom, Geom.codec]),
           notRaw := by simp [wveGeom, Geom.major],
           codec := ⟨false, by simp [wveGeom, Geom.codec, encOf]⟩, snapForm := m1, closedIsSnap := m2, snapFn := m3, snapParse := ?_, Gdata := fun _ _ _ h => h }
  intro st ops _
  obtain ⟨h1, _⟩ := C04Wve.wve_snapshot_valid 1 sr hwf st ops
  exact ⟨_, h1, by simp [Enc.nbytes, wveGeom], rfl, rfl, by simp [rateOk, rateClass, wveGeom, Geom.major]⟩

/-- WVE: every job (whole frames of values of the caller's type) is accepted — no guard, no class -/
theorem wve_session_accepted (sr : Nat) (hwf : Wve.wf 1 sr) (ty : Ty) (stale stale' : Nat) (ops : List Small.Op)
    (hv : Valid 1 ty ops) : accepted (Small.recordOf (wveCont sr) ty stale stale' ops) = true :=
  cont_session_accepted _ _ (wve_laws sr hwf) ty stale stale' ops hv trivial (fun _ _ _ => trivial)

/-! ## the wrapper for containers whose guards depend on the number of audio bytes only -/

/-- the guard `G` of a container: whole frames of audio, and a predicate `P` on the audio byte count -/
def guardOf (bw : Nat) (P : Nat → Prop) (ops : List Small2.WOp) : Prop :=
  (Small2.opsData ops).length % bw = 0 ∧ P (Small2.opsData ops).length

theorem whole_single (bw : Nat) (d : List Byte) (h : d.length % bw = 0) : Small2.WholeFrames bw [.write d false] := by
  intro op hop; simp only [List.mem_singleton] at hop; subst hop; exact h

theorem small2_session_accepted (F : Small2.Fmt) (parse : List Byte → Small2.ParseRes) (g : AbsWrite.Geom) (enc : Enc)
    (P : Nat → Prop) (X : Small.Small2Facts F parse g enc (guardOf (enc.nbytes * g.ch) P)) (ty : Ty) (stale stale' : Nat)
    (ops : List Small.Op) (hv : Valid g.ch ty ops)
    (hP : ∀ p post, ops = p ++ post → P ((Small.sampleList p).length * enc.nbytes)) :
    accepted (Small.recordOf (small2Cont F parse g enc) ty stale stale' ops) = true := by
  have hG : ∀ p, Valid g.ch ty p → P ((Small.sampleList p).length * enc.nbytes) →
      guardOf (enc.nbytes * g.ch) P (Small.toW (small2Cont F parse g enc) ty false p) := by
    intro p hvp hp
    obtain ⟨g1, g2⟩ := Small.callsOf_good g.ch ty p hvp
    have hl := samples_length g.ch _ g1
    rw [g2] at hl
    unfold guardOf
    rw [Small.opsData_toW]
    show ((small2Cont F parse g enc).enc.encodeAll {} ty (Small.sampleList p)).length % _ = 0 ∧ _
    rw [Enc.encodeAll_length]
    refine ⟨?_, hp⟩
    show (Small.sampleList p).length * enc.nbytes % (enc.nbytes * g.ch) = 0
    rw [hl, Nat.mul_assoc, Nat.mul_comm g.ch]; exact Nat.mul_mod_left _ _
  apply cont_session_accepted _ _ (laws_of_small2 X) ty stale stale' ops hv
  · apply hG _ (Small.refOps_valid g.ch ty X.chpos ops hv)
    rw [Small.refOps_samples]
    simpa using hP ops [] (by simp)
  · intro p post e
    exact hG p (fun o ho => hv o (by rw [e]; simp [ho])) (hP p post e)

/-- the encoding a sample-granular codec code selects, by byte order -/
def encFor (codec : Nat) (big : Bool) : Enc := (encOf .raw codec big).getD .ulaw

/-! ## MAT4 (PCM_16 / PCM_32 / FLOAT / DOUBLE, both byte orders) -/

def mat4Geom (c : Mat4.Cfg) : AbsWrite.Geom := { word := c.endian * 0x10000000 + 0x0C0000 + c.codec, ch := c.ch, sr := c.sr }

theorem mat4_facts (c : Mat4.Cfg) (hwf : c.wf) :
    Small.Small2Facts (Mat4.fmt c) Mat4.parse (mat4Geom c) (encFor c.codec (!c.little))
      (guardOf ((encFor c.codec (!c.little)).nbytes * (mat4Geom c).ch) (fun D => D / c.bw < 2 ^ 31)) := by
  obtain ⟨m1, m2, m3⟩ := small2_machine_facts (Mat4.fmt c) (Mat4.lawful c) rfl
  obtain ⟨hcd, hend, hch1, hch2, hsr1, hsr2⟩ := hwf
  have hcodec : (mat4Geom c).codec = c.codec := by
    show (c.endian * 0x10000000 + 0x0C0000 + c.codec) % 0x10000 = c.codec
    rcases hcd with h | h | h | h <;> omega
  have hmajor : (mat4Geom c).major = 0x0C := by
    show (c.endian * 0x10000000 + 0x0C0000 + c.codec) / 0x10000 % 0x1000 = 0x0C
    rcases hcd with h | h | h | h <;> omega
  have henc : encOf .raw c.codec (!c.little) = some (encFor c.codec (!c.little)) := by
    unfold encFor; rcases hcd with h | h | h | h <;> rw [h] <;> simp [encOf]
  have hnbw : (encFor c.codec (!c.little)).nbytes = Mat4.bytewidth c.codec := by
    unfold encFor; rcases hcd with h | h | h | h <;> rw [h] <;> simp [encOf, Enc.nbytes, PcmFmt.nbytes, Mat4.bytewidth]
  have hbw : (encFor c.codec (!c.little)).nbytes * (mat4Geom c).ch = c.bw := by rw [hnbw]; rfl
  obtain ⟨hnb, hewf⟩ := encOf_props _ _ _ _ henc
  refine { chpos := hch1, nb := hnb, wf := hewf,
           block := C04.frames_bound_granular _ _ _ _
             (by rw [hcodec]; rcases hcd with h | h | h | h <;> rw [h] <;> simp [Geometry.sampleGranular])
             (by rw [hmajor]; simp),
           notRaw := by rw [hmajor]; simp, codec := ⟨_, by rw [hcodec]; exact henc⟩,
           snapForm := m1, closedIsSnap := m2, snapFn := m3, snapParse := ?_, Gdata := fun a b e h => by unfold guardOf at *; rw [← e]; exact h }
  intro st ops hg
  rw [hbw] at hg ⊢
  obtain ⟨hmod, hguard⟩ := hg
  have e := m3 st st ops [.write (Small2.opsData ops) false] (by simp [Small2.opsData])
  obtain ⟨h1, _⟩ := C04Mat4.mat4_snapshot_valid c ⟨hcd, hend, hch1, hch2, hsr1, hsr2⟩ st [.write (Small2.opsData ops) false]
    (whole_single _ _ hmod) (by simpa [Small2.opsData] using hguard)
  rw [← e] at h1
  refine ⟨_, h1, by simp [Small2.opsData], rfl, ?_, ?_⟩
  · show c.fmtWord % 0x10000000 = (c.endian * 0x10000000 + 0x0C0000 + c.codec) % 0x10000000
    unfold Mat4.Cfg.fmtWord
    rcases hcd with h | h | h | h <;> (split <;> omega)
  · have hq := C04Mat4.mat4_rate_exact c.sr hsr1 hsr2
    show rateOk (mat4Geom c).major c.sr ((Mat4.quant c.sr : Nat) : Int) = true
    rw [hq, hmajor]; simp [rateOk, rateClass]

/-- MAT4: every job of whole frames is accepted under the guard of the 32-bit cols field (fewer than 2^31 frames) -/
theorem mat4_session_accepted (c : Mat4.Cfg) (hwf : c.wf) (ty : Ty) (stale stale' : Nat) (ops : List Small.Op)
    (hv : Valid c.ch ty ops) (hguard : (Small.sampleList ops).length * (encFor c.codec (!c.little)).nbytes / c.bw < 2 ^ 31) :
    accepted (Small.recordOf (small2Cont (Mat4.fmt c) Mat4.parse (mat4Geom c) (encFor c.codec (!c.little))) ty stale stale' ops) = true := by
  apply small2_session_accepted _ _ _ _ _ (mat4_facts c hwf) ty stale stale' ops hv
  intro p post e
  have : (Small.sampleList p).length ≤ (Small.sampleList ops).length := by rw [e, Small.sampleList_append]; simp
  exact Nat.lt_of_le_of_lt (Nat.div_le_div_right (Nat.mul_le_mul_right _ this)) hguard

end Sf.C04Bridge
