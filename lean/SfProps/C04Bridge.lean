/-
  C01 / C04 / C07 / C11 — THE WRITE-SIDE BRIDGE for the stand-alone container models: the record the all-format write
  campaign would write down of ANY job on a container, if the library behaved like that container's model, is accepted by
  the write-side predicate `Sf.AbsWrite.judge` (what `sfmodel abs-write` evaluates on the implementation's records).

  -- properties: C01 C04 C07 C11

  One generic theorem (`Sf.AbsWriteBridge.Small.small_pred_good`, SfProofs/AbsWriteBridgeSmallRun.lean) over `Cont` / `Laws`,
  instantiated per container from its `<x>_reopen_info` / `<x>_snapshot_valid` / `closedBytes_eq` / `stale_frames_ignored_<x>`
  theorems through `laws_of_small2`.  `recordOf K ty stale stale' ops`: the calls return what they were asked, the closed
  bytes are the model's, the re-open line is the model's parser on them, the read-back is the model's decoder
  (`Enc.decodeAll` of the configuration's encoding) on the bytes behind the header cut at the parsed frame count, one crash
  point after every SFC_UPDATE_HEADER_NOW and every write made in auto mode (the store of the session machine at that moment),
  the stale-frames run is the reference run opened with another SF_INFO.frames.
  The hypotheses of each `<x>_session_accepted` are the container's guards and the complement of its known-finding classes
  (`G`), asked of the job, of the reference run and of every prefix (crash image).
-/
import SfProofs.AbsWriteBridgeSmall1
import SfProofs.AbsWriteRate
import SfProps.C04Wve
import SfProps.C04Mat4
import SfProps.C04Mpc2k
import SfProps.C04Htk
import SfProps.C04Pvf
import SfProps.C04Avr
namespace Sf.C04Bridge
open Sf Sf.AbsWrite Sf.AbsWriteBridge
open Sf.AbsWriteBridge.Small (Cont Laws Valid small2Cont laws_of_small2 small2_machine_facts small_pred_good)

/-- the generic step: a lawful container's record of a valid job is accepted -/
theorem cont_session_accepted (K : Cont) (G : List Small2.WOp → Prop) (L : Laws K G) (ty : Ty) (stale stale' : Nat)
    (ops : List Small.Op) (hv : Valid K.g.ch ty ops) (hGref : G (Small.toW K ty false (Small.refOps ops)))
    (hG : ∀ p post, ops = p ++ post → G (Small.toW K ty false p)) :
    accepted (Small.recordOf K ty stale stale' ops) = true :=
  Pred.accepted_of_good _ (small_pred_good K G L ty stale stale' ops hv hGref hG)

/-! ## WVE (Psion A-law, one channel, 8000 Hz) -/

def wveGeom (sr : Nat) : AbsWrite.Geom := { word := 0x190011, ch := 1, sr := sr }
def wveCont (sr : Nat) : Cont := small2Cont Wve.fmt Wve.parse (wveGeom sr) .alaw

theorem wve_laws (sr : Nat) (hwf : Wve.wf 1 sr) : Laws (wveCont sr) (fun _ => True) := by
  obtain ⟨m1, m2, m3⟩ := small2_machine_facts Wve.fmt Wve.lawful rfl
  apply laws_of_small2
  refine { chpos := Nat.one_pos, nb := Nat.one_pos, wf := trivial,
           block := C04.frames_bound_granular _ _ _ _ (by simp [wveGeom, Geom.codec, Geometry.sampleGranular])
             (by simp [wveGeom, Geom.codec]),
           notRaw := by simp [wveGeom, Geom.major],
           codec := ⟨false, by simp [wveGeom, Geom.codec, encOf]⟩, snapForm := m1, closedIsSnap := m2, snapFn := m3, snapParse := ?_, Gdata := fun _ _ _ h => h }
  intro st ops _
  obtain ⟨h1, _⟩ := C04Wve.wve_snapshot_valid 1 sr hwf st ops
  exact ⟨_, h1, by simp [Enc.nbytes, wveGeom], rfl, rfl, by simp [rateOk, rateClass, wveGeom, Geom.major]⟩

/-- WVE: every job (whole frames of values of the caller's type) is accepted — no guard, no class -/
theorem wve_session_accepted (sr : Nat) (hwf : Wve.wf 1 sr) (ty : Ty) (stale stale' : Nat) (ops : List Small.Op)
    (hv : Valid 1 ty ops) : accepted (Small.recordOf (wveCont sr) ty stale stale' ops) = true :=
  cont_session_accepted _ _ (wve_laws sr hwf) ty stale stale' ops hv trivial (fun _ _ _ => trivial)

/-! ## the wrapper for containers whose guards depend on the number of audio bytes only -/

/-- the guard `G` of a container: whole frames of audio, and a predicate `P` on the audio byte count -/
def guardOf (bw : Nat) (P : Nat → Prop) (ops : List Small2.WOp) : Prop :=
  (Small2.opsData ops).length % bw = 0 ∧ P (Small2.opsData ops).length

theorem whole_single (bw : Nat) (d : List Byte) (h : d.length % bw = 0) : Small2.WholeFrames bw [.write d false] := by
  intro op hop; simp only [List.mem_singleton] at hop; subst hop; exact h

theorem small2_session_accepted (F : Small2.Fmt) (parse : List Byte → Small2.ParseRes) (g : AbsWrite.Geom) (enc : Enc)
    (P : Nat → Prop) (X : Small.Small2Facts F parse g enc (guardOf (enc.nbytes * g.ch) P)) (ty : Ty) (stale stale' : Nat)
    (ops : List Small.Op) (hv : Valid g.ch ty ops)
    (hP : ∀ p post, ops = p ++ post → P ((Small.sampleList p).length * enc.nbytes)) :
    accepted (Small.recordOf (small2Cont F parse g enc) ty stale stale' ops) = true := by
  have hG : ∀ p, Valid g.ch ty p → P ((Small.sampleList p).length * enc.nbytes) →
      guardOf (enc.nbytes * g.ch) P (Small.toW (small2Cont F parse g enc) ty false p) := by
    intro p hvp hp
    obtain ⟨g1, g2⟩ := Small.callsOf_good g.ch ty p hvp
    have hl := samples_length g.ch _ g1
    rw [g2] at hl
    unfold guardOf
    rw [Small.opsData_toW]
    show ((small2Cont F parse g enc).enc.encodeAll {} ty (Small.sampleList p)).length % _ = 0 ∧ _
    rw [Enc.encodeAll_length]
    refine ⟨?_, hp⟩
    show (Small.sampleList p).length * enc.nbytes % (enc.nbytes * g.ch) = 0
    rw [hl, Nat.mul_assoc, Nat.mul_comm g.ch]; exact Nat.mul_mod_left _ _
  apply cont_session_accepted _ _ (laws_of_small2 X) ty stale stale' ops hv
  · apply hG _ (Small.refOps_valid g.ch ty X.chpos ops hv)
    rw [Small.refOps_samples]
    simpa using hP ops [] (by simp)
  · intro p post e
    exact hG p (fun o ho => hv o (by rw [e]; simp [ho])) (hP p post e)

/-- the encoding a sample-granular codec code selects, by byte order -/
def encFor (codec : Nat) (big : Bool) : Enc := (encOf .raw codec big).getD .ulaw

/-! ## MAT4 (PCM_16 / PCM_32 / FLOAT / DOUBLE, both byte orders) -/

def mat4Geom (c : Mat4.Cfg) : AbsWrite.Geom := { word := c.endian * 0x10000000 + 0x0C0000 + c.codec, ch := c.ch, sr := c.sr }

theorem mat4_facts (c : Mat4.Cfg) (hwf : c.wf) :
    Small.Small2Facts (Mat4.fmt c) Mat4.parse (mat4Geom c) (encFor c.codec (!c.little))
      (guardOf ((encFor c.codec (!c.little)).nbytes * (mat4Geom c).ch) (fun D => D / c.bw < 2 ^ 31)) := by
  obtain ⟨m1, m2, m3⟩ := small2_machine_facts (Mat4.fmt c) (Mat4.lawful c) rfl
  obtain ⟨hcd, hend, hch1, hch2, hsr1, hsr2⟩ := hwf
  have hcodec : (mat4Geom c).codec = c.codec := by
    show (c.endian * 0x10000000 + 0x0C0000 + c.codec) % 0x10000 = c.codec
    rcases hcd with h | h | h | h <;> omega
  have hmajor : (mat4Geom c).major = 0x0C := by
    show (c.endian * 0x10000000 + 0x0C0000 + c.codec) / 0x10000 % 0x1000 = 0x0C
    rcases hcd with h | h | h | h <;> omega
  have henc : encOf .raw c.codec (!c.little) = some (encFor c.codec (!c.little)) := by
    unfold encFor; rcases hcd with h | h | h | h <;> rw [h] <;> simp [encOf]
  have hnbw : (encFor c.codec (!c.little)).nbytes = Mat4.bytewidth c.codec := by
    unfold encFor; rcases hcd with h | h | h | h <;> rw [h] <;> simp [encOf, Enc.nbytes, PcmFmt.nbytes, Mat4.bytewidth]
  have hbw : (encFor c.codec (!c.little)).nbytes * (mat4Geom c).ch = c.bw := by rw [hnbw]; rfl
  obtain ⟨hnb, hewf⟩ := encOf_props _ _ _ _ henc
  refine { chpos := hch1, nb := hnb, wf := hewf,
           block := C04.frames_bound_granular _ _ _ _
             (by rw [hcodec]; rcases hcd with h | h | h | h <;> rw [h] <;> simp [Geometry.sampleGranular])
             (by rw [hmajor]; simp),
           notRaw := by rw [hmajor]; simp, codec := ⟨_, by rw [hcodec]; exact henc⟩,
           snapForm := m1, closedIsSnap := m2, snapFn := m3, snapParse := ?_, Gdata := fun a b e h => by unfold guardOf at *; rw [← e]; exact h }
  intro st ops hg
  rw [hbw] at hg ⊢
  obtain ⟨hmod, hguard⟩ := hg
  have e := m3 st st ops [.write (Small2.opsData ops) false] (by simp [Small2.opsData])
  obtain ⟨h1, _⟩ := C04Mat4.mat4_snapshot_valid c ⟨hcd, hend, hch1, hch2, hsr1, hsr2⟩ st [.write (Small2.opsData ops) false]
    (whole_single _ _ hmod) (by simpa [Small2.opsData] using hguard)
  rw [← e] at h1
  refine ⟨_, h1, by simp [Small2.opsData], rfl, ?_, ?_⟩
  · show c.fmtWord % 0x10000000 = (c.endian * 0x10000000 + 0x0C0000 + c.codec) % 0x10000000
    unfold Mat4.Cfg.fmtWord
    rcases hcd with h | h | h | h <;> (split <;> omega)
  · have hq := C04Mat4.mat4_rate_exact c.sr hsr1 hsr2
    show rateOk (mat4Geom c).major c.sr ((Mat4.quant c.sr : Nat) : Int) = true
    rw [hq, hmajor]; simp [rateOk, rateClass]

/-- MAT4: every job of whole frames is accepted under the guard of the 32-bit cols field (fewer than 2^31 frames) -/
theorem mat4_session_accepted (c : Mat4.Cfg) (hwf : c.wf) (ty : Ty) (stale stale' : Nat) (ops : List Small.Op)
    (hv : Valid c.ch ty ops) (hguard : (Small.sampleList ops).length * (encFor c.codec (!c.little)).nbytes / c.bw < 2 ^ 31) :
    accepted (Small.recordOf (small2Cont (Mat4.fmt c) Mat4.parse (mat4Geom c) (encFor c.codec (!c.little))) ty stale stale' ops) = true := by
  apply small2_session_accepted _ _ _ _ _ (mat4_facts c hwf) ty stale stale' ops hv
  intro p post e
  have : (Small.sampleList p).length ≤ (Small.sampleList ops).length := by rw [e, Small.sampleList_append]; simp
  exact Nat.lt_of_le_of_lt (Nat.div_le_div_right (Nat.mul_le_mul_right _ this)) hguard

/-! ## MPC2K (PCM_16 little endian, one or two channels, 16-bit rate field) -/

def mpc2kGeom (c : Mpc2k.Cfg) : AbsWrite.Geom := { word := 0x210002, ch := c.ch, sr := c.sr }

theorem mpc2k_facts (c : Mpc2k.Cfg) (hwf : c.wf) :
    Small.Small2Facts (Mpc2k.fmt c) Mpc2k.parse (mpc2kGeom c) (.pcm ⟨16, false, false⟩)
      (guardOf (2 * c.ch) (fun _ => True)) := by
  obtain ⟨m1, m2, m3⟩ := small2_machine_facts (Mpc2k.fmt c) (Mpc2k.lawful c hwf.2.2.2) rfl
  have hch : 0 < c.ch := by rcases hwf.1 with h | h <;> omega
  refine { chpos := hch, nb := by decide, wf := by decide,
           block := C04.frames_bound_granular _ _ _ _ (by simp [mpc2kGeom, Geom.codec, Geometry.sampleGranular])
             (by simp [mpc2kGeom, Geom.codec]),
           notRaw := by simp [mpc2kGeom, Geom.major], codec := ⟨false, by simp [mpc2kGeom, Geom.codec, encOf]⟩,
           snapForm := m1, closedIsSnap := m2, snapFn := m3, snapParse := ?_, Gdata := fun a b e h => by unfold guardOf at *; rw [← e]; exact h }
  intro st ops _
  obtain ⟨h1, _⟩ := C04Mpc2k.mpc2k_snapshot_valid c hwf st ops
  refine ⟨_, h1, rfl, rfl, rfl, ?_⟩
  show rateOk (mpc2kGeom c).major c.sr ((Mpc2k.quant c.sr : Nat) : Int) = true
  have hm : (mpc2kGeom c).major = 0x21 := by simp [mpc2kGeom, Geom.major]
  rw [hm]
  simp only [rateOk, rateClass]
  simp only [show ((0x21 : Nat) == 0x04) = false from rfl, show ((0x21 : Nat) == 0x06) = false from rfl,
    show ((0x21 : Nat) == 0x21) = true from rfl, Bool.or_true, Bool.false_eq_true, if_false, if_true, Bool.or_eq_true,
    decide_eq_true_eq, beq_iff_eq]
  rfl                                       -- the 16-bit clause is exact: `Mpc2k.quant` = min sr 65535

/-- MPC2K: every job of whole frames is accepted -/
theorem mpc2k_session_accepted (c : Mpc2k.Cfg) (hwf : c.wf) (ty : Ty) (stale stale' : Nat) (ops : List Small.Op)
    (hv : Valid c.ch ty ops) :
    accepted (Small.recordOf (small2Cont (Mpc2k.fmt c) Mpc2k.parse (mpc2kGeom c) (.pcm ⟨16, false, false⟩)) ty stale stale' ops) = true :=
  small2_session_accepted _ _ _ _ _ (mpc2k_facts c hwf) ty stale stale' ops hv (fun _ _ _ => trivial)

/-! ## HTK (PCM_16 big endian, one channel, sample period in 100 ns units) -/

def htkGeom (sr : Nat) : AbsWrite.Geom := { word := 0x100002, ch := 1, sr := sr }

/-- the guards of `htk_reopen_info`: the 32-bit `2 * sample_count` arithmetic and the class KF-HTK-MAGIC-CLASH -/
def htkGuard (sr D : Nat) : Prop := 12 + D < 2 ^ 31 ∧ ¬ C04Htk.KF.magicClash sr (D / 2)

/-- THE PERIOD CLAUSE IS EXACT AND COMPLETE FOR HTK: what the model's quantiser (`Htk.quant`: 10^7 / (10^7 / sr), 16000 for a
    zero period) makes of ANY positive rate is accepted by the rate clause of the write-side predicate — no rate hypothesis
    remains on `htk_session_accepted` -/
theorem htk_rate_exact_accepted (sr : Nat) (_h1 : 1 ≤ sr) : rateOk 0x10 sr ((Htk.quant sr : Nat) : Int) = true := by
  apply AbsWriteRate.rateOk_period_complete 0x10 (10 ^ 7) 31 sr _ AbsWriteRate.rateClass_htk
  · intro hp _
    unfold Htk.quant Htk.period; rw [if_pos hp]
  · unfold Htk.quant Htk.period
    split
    · rename_i hp
      exact Nat.div_pos (Nat.div_le_self _ _) hp
    · decide

/-- … and it accepts nothing else where the field can express the rate: the clause pins the re-open rate to the quantiser -/
theorem htk_rate_exact_only (sr : Nat) (h1 : 1 ≤ sr) (h2 : sr ≤ 10000000) (got : Int) (h : rateOk 0x10 sr got = true) :
    got = ((Htk.quant sr : Nat) : Int) := by
  have hpos : 0 < 10000000 / sr := Nat.div_pos h2 h1
  rcases (AbsWriteRate.rateOk_period_iff 0x10 (10 ^ 7) 31 sr got AbsWriteRate.rateClass_htk).1 h with ⟨_, _, hg⟩ | ⟨h0 | hb, _⟩
  · rw [hg]; unfold Htk.quant Htk.period; rw [if_pos hpos]
  · have : 10 ^ 7 / sr = 10000000 / sr := rfl
    omega
  · have hlt : 10 ^ 7 / sr < 2 ^ 31 := Nat.lt_of_le_of_lt (Nat.div_le_self _ _) (by decide)
    omega

theorem htk_facts (sr : Nat) (hwf : Htk.wf sr) :
    Small.Small2Facts (Htk.fmt sr) Htk.parse (htkGeom sr) (.pcm ⟨16, false, true⟩) (guardOf (2 * 1) (htkGuard sr)) := by
  obtain ⟨m1, m2, m3⟩ := small2_machine_facts (Htk.fmt sr) (Htk.lawful sr) rfl
  refine { chpos := Nat.one_pos, nb := by decide, wf := by decide,
           block := C04.frames_bound_granular _ _ _ _ (by simp [htkGeom, Geom.codec, Geometry.sampleGranular])
             (by simp [htkGeom, Geom.codec]),
           notRaw := by simp [htkGeom, Geom.major], codec := ⟨true, by simp [htkGeom, Geom.codec, encOf]⟩,
           snapForm := m1, closedIsSnap := m2, snapFn := m3, snapParse := ?_, Gdata := fun a b e h => by unfold guardOf at *; rw [← e]; exact h }
  intro st ops hg
  obtain ⟨hmod, hlen, hk⟩ := hg
  have e := m3 st st ops [.write (Small2.opsData ops) false] (by simp [Small2.opsData])
  obtain ⟨hdr, hl, hf⟩ := m1 st [.write (Small2.opsData ops) false]
  obtain ⟨h1, _⟩ := C04Htk.htk_snapshot_valid sr hwf st [.write (Small2.opsData ops) false] (whole_single _ _ (by simpa using hmod))
    (by rw [hf]; simp only [List.length_append, hl]; simpa [Small2.opsData, Htk.fmt] using hlen) (by simpa [Small2.opsData] using hk)
  rw [← e] at h1
  refine ⟨_, h1, by simp [Small2.opsData, Enc.nbytes, PcmFmt.nbytes, htkGeom], rfl, rfl, ?_⟩
  have hm : (htkGeom sr).major = 0x10 := by simp [htkGeom, Geom.major]
  rw [hm]; exact htk_rate_exact_accepted sr hwf.1

/-- HTK: every job at EVERY rate is accepted under the guards of `htk_reopen_info` (asked of the finished file and of every
    crash image) -/
theorem htk_session_accepted (sr : Nat) (hwf : Htk.wf sr)
    (ty : Ty) (stale stale' : Nat) (ops : List Small.Op) (hv : Valid 1 ty ops)
    (hguard : ∀ p post, ops = p ++ post → htkGuard sr ((Small.sampleList p).length * 2)) :
    accepted (Small.recordOf (small2Cont (Htk.fmt sr) Htk.parse (htkGeom sr) (.pcm ⟨16, false, true⟩)) ty stale stale' ops) = true :=
  small2_session_accepted _ _ _ _ _ (htk_facts sr hwf) ty stale stale' ops hv hguard

/-- the clause at the rates the campaigns ask for, by evaluation (6 MHz is stored as period 1 and read as 10 MHz; above 10 MHz the
    period is 0 and the reader's guess 16000 is "any positive rate") -/
theorem htk_rate_tolerance : ∀ sr ∈ [1, 8000, 11025, 16000, 22050, 44100, 48000, 65535, 65536, 96000, 3200000, 3333334, 5000000, 6000000, 9999999,
      10000000, 10000001, 2 ^ 30 - 1, 2 ^ 30, 2 ^ 30 + 1, 2 ^ 31 - 1],
    rateOk 0x10 sr ((Htk.quant sr : Nat) : Int) = true := by decide

/-- the first-order tolerance the period clause used before it was made exact: |got − sr| ≤ max 1 (sr² / u + 1) -/
def periodTolOld (u sr : Nat) (got : Int) : Bool := (got - (sr : Int)).natAbs ≤ max 1 (sr * sr / u + 1)

/-- **htk_rate_tolerance_old_rule** — the predicate imprecision the exact clause removed: the first-order tolerance refused what a
    CORRECT library answers between about 3.2 MHz and 10 MHz (6 MHz is period 1 = 10 MHz), and accepted wrong answers at
    ordinary rates (44101 for 44100 Hz, whose period 226 reads back as 44247 and as nothing else) -/
theorem htk_rate_tolerance_old_rule :
    periodTolOld (10 ^ 7) 6000000 ((Htk.quant 6000000 : Nat) : Int) = false ∧ rateOk 0x10 6000000 ((Htk.quant 6000000 : Nat) : Int) = true ∧
    periodTolOld (10 ^ 7) 44100 44101 = true ∧ rateOk 0x10 44100 44101 = false := by decide

/-! ## PVF (PCM_S8 / PCM_16 / PCM_32 big endian, text header, no close function) -/

def pvfGeom (c : Pvf.Cfg) : AbsWrite.Geom := { word := 0x0E0000 + c.codec, ch := c.ch, sr := c.sr }

theorem pvf_facts (c : Pvf.Cfg) (hwf : c.wf) :
    Small.Small2Facts (Pvf.fmt c) Pvf.parse (pvfGeom c) (encFor c.codec true)
      (guardOf ((encFor c.codec true).nbytes * (pvfGeom c).ch) (fun D => ¬ (Pvf.hdr c).length + D < 12)) := by
  obtain ⟨hcd, hch1, hch2, hsr1, hsr2⟩ := hwf
  have hcodec : (pvfGeom c).codec = c.codec := by
    show (0x0E0000 + c.codec) % 0x10000 = c.codec
    rcases hcd with h | h | h <;> omega
  have hmajor : (pvfGeom c).major = 0x0E := by
    show (0x0E0000 + c.codec) / 0x10000 % 0x1000 = 0x0E
    rcases hcd with h | h | h <;> omega
  have henc : encOf .raw c.codec true = some (encFor c.codec true) := by
    unfold encFor; rcases hcd with h | h | h <;> rw [h] <;> simp [encOf]
  have hnbw : (encFor c.codec true).nbytes = Pvf.bytewidth c.codec := by
    unfold encFor; rcases hcd with h | h | h <;> rw [h] <;> simp [encOf, Enc.nbytes, PcmFmt.nbytes, Pvf.bytewidth]
  obtain ⟨hnb, hewf⟩ := encOf_props _ _ _ _ henc
  have hconst := fun st ops => Small2.closedBytes_const (Pvf.fmt c) (Pvf.lawfulConst c) st ops
  refine { chpos := hch1, nb := hnb, wf := hewf,
           block := C04.frames_bound_granular _ _ _ _
             (by rw [hcodec]; rcases hcd with h | h | h <;> rw [h] <;> simp [Geometry.sampleGranular])
             (by rw [hmajor]; simp),
           notRaw := by rw [hmajor]; simp, codec := ⟨_, by rw [hcodec]; exact henc⟩,
           snapForm := fun st ops => ⟨_, rfl, (hconst st ops).2⟩,
           closedIsSnap := fun st ops => by rw [(hconst st ops).1, (hconst st ops).2],
           snapFn := fun a b ops ops' e => by rw [(hconst a ops).2, (hconst b ops').2, e],
           snapParse := ?_, Gdata := fun a b e h => by unfold guardOf at *; rw [← e]; exact h }
  intro st ops hg
  obtain ⟨h1, _⟩ := C04Pvf.pvf_snapshot_valid c ⟨hcd, hch1, hch2, hsr1, hsr2⟩ st ops
  refine ⟨_, h1, by rw [hnbw]; rfl, rfl, ?_, ?_⟩
  · show (0x0E0000 + c.codec) % 0x10000000 = (0x0E0000 + c.codec) % 0x10000000
    rfl
  · show rateOk (pvfGeom c).major c.sr ((Pvf.quant c.sr : Nat) : Int) = true
    rw [hmajor]; simp [rateOk, rateClass, Pvf.quant]

/-- PVF: every job is accepted; the guard (a file of at least 12 bytes) is a leftover of the time before 356615c, when KF-PVF-TINY excluded shorter files: `pvf_snapshot_valid` no longer needs it,
    asked of the finished file and of every crash image -/
theorem pvf_session_accepted (c : Pvf.Cfg) (hwf : c.wf) (ty : Ty) (stale stale' : Nat) (ops : List Small.Op)
    (hv : Valid c.ch ty ops)
    (hk : ∀ p post, ops = p ++ post → ¬ (Pvf.hdr c).length + (Small.sampleList p).length * (encFor c.codec true).nbytes < 12) :
    accepted (Small.recordOf (small2Cont (Pvf.fmt c) Pvf.parse (pvfGeom c) (encFor c.codec true)) ty stale stale' ops) = true :=
  small2_session_accepted _ _ _ _ _ (pvf_facts c hwf) ty stale stale' ops hv hk

/-! ## AVR (PCM_S8 / PCM_U8 / PCM_16 big endian, one or two channels; the `Sf.Small` session machine) -/

def avrGeom (c : Avr.Cfg) : AbsWrite.Geom := { word := c.endian * 0x10000000 + 0x120000 + c.codec, ch := c.ch, sr := c.sr }

theorem avr_facts (c : Avr.Cfg) (hwf : c.wf) :
    Small.Small1Facts (Avr.spec c) Avr.parse (avrGeom c) (encFor c.codec true) (fun _ => True) := by
  obtain ⟨m1, m2, m3⟩ := Small.small1_machine_facts (Avr.spec c) (Avr.spec_lenOk c) rfl rfl
  obtain ⟨hacc, hch1, hsr1, hsr2⟩ := hwf
  have hacc' : (c.codec = 0x01 ∨ c.codec = 0x02 ∨ c.codec = 0x05) ∧ (c.endian = 0 ∨ c.endian = 2) ∧ c.ch ≤ 2 := by
    simpa [Avr.accepted] using hacc
  obtain ⟨hcd, hend, _⟩ := hacc'
  have hcodec : (avrGeom c).codec = c.codec := by
    show (c.endian * 0x10000000 + 0x120000 + c.codec) % 0x10000 = c.codec
    rcases hcd with h | h | h <;> omega
  have hmajor : (avrGeom c).major = 0x12 := by
    show (c.endian * 0x10000000 + 0x120000 + c.codec) / 0x10000 % 0x1000 = 0x12
    rcases hcd with h | h | h <;> omega
  have henc : encOf .raw c.codec true = some (encFor c.codec true) := by
    unfold encFor; rcases hcd with h | h | h <;> rw [h] <;> simp [encOf]
  have hnbw : (encFor c.codec true).nbytes = c.bytewidth := by
    unfold encFor Avr.Cfg.bytewidth; rcases hcd with h | h | h <;> rw [h] <;> simp [encOf, Enc.nbytes, PcmFmt.nbytes]
  obtain ⟨hnb, hewf⟩ := encOf_props _ _ _ _ henc
  have hwf' : c.wf := ⟨hacc, hch1, hsr1, hsr2⟩
  have hfmt : c.fmtWord % 0x10000000 = (avrGeom c).word % 0x10000000 := by
    show (0x120000 + c.codec) % 0x10000000 = (c.endian * 0x10000000 + 0x120000 + c.codec) % 0x10000000
    rcases hcd with h | h | h <;> omega
  refine { chpos := hch1, nb := hnb, wf := hewf,
           block := C04.frames_bound_granular _ _ _ _
             (by rw [hcodec]; rcases hcd with h | h | h <;> rw [h] <;> simp [Geometry.sampleGranular])
             (by rw [hmajor]; simp),
           notRaw := by rw [hmajor]; simp, codec := ⟨_, by rw [hcodec]; exact henc⟩,
           snapForm := m1, closedForm := m2, closedFn := m3, closedParse := ?_, snapParse := ?_ }
  · intro st ops _
    refine ⟨_, C04Avr.avr_reopen_info c hwf' st _, ?_, rfl, hfmt, ?_⟩
    · show (Sf.Small.opsData (Small.toS1 ops)).length / c.bw = _
      rw [Small.opsData_toS1, hnbw]; rfl
    · show rateOk (avrGeom c).major c.sr ((c.sr : Nat) : Int) = true
      rw [hmajor]; simp [rateOk, rateClass]
  · intro st w _
    obtain ⟨h1, _⟩ := C04Avr.avr_snapshot_valid c hwf' st w
    exact ⟨_, h1, by show _ / c.bw = _; rw [hnbw]; rfl, rfl, hfmt⟩

/-- AVR: every job of whole frames is accepted — no guard, no class -/
theorem avr_session_accepted (c : Avr.Cfg) (hwf : c.wf) (ty : Ty) (stale stale' : Nat) (ops : List Small.Op)
    (hv : Valid c.ch ty ops) :
    accepted (Small.recordOf (Small.small1Cont (Avr.spec c) Avr.parse (avrGeom c) (encFor c.codec true)) ty stale stale' ops) = true :=
  cont_session_accepted _ _ (Small.laws_of_small1 (avr_facts c hwf)) ty stale stale' ops hv trivial (fun _ _ _ => trivial)

/-! ## non-vacuity: a stereo MAT4 16-bit job (frames call, update, auto mode, items call), evaluated -/

def exOps : List Small.Op := [.write true [1, -2], .update, .auto true, .write false [3, -4, 5, 6]]
def exC : Mat4.Cfg := ⟨2, 2, 2, 44100⟩

example : exC.wf ∧ (Small.recordOf (small2Cont (Mat4.fmt exC) Mat4.parse (mat4Geom exC) (encFor 2 true)) .s16 0 99999 exOps).snaps.map (·.info.frames) = [1, 3] ∧
    (Small.recordOf (small2Cont (Mat4.fmt exC) Mat4.parse (mat4Geom exC) (encFor 2 true)) .s16 0 99999 exOps).info.frames = 3 ∧
    accepted (Small.recordOf (small2Cont (Mat4.fmt exC) Mat4.parse (mat4Geom exC) (encFor 2 true)) .s16 0 99999 exOps) = true := by
  decide +kernel

end Sf.C04Bridge
