/-
  C07 (NMS ADPCM) — the codeword packers and unpackers of the 16 and 24 kbit/s layouts are inverse on the codewords
  their encoder produces (two-bit codewords: multiples of 4 below 16; three-bit codewords: even numbers below 16):
  `unpack (pack cs) = cs`.  (32 kbit/s: SfProps/C07Nms.lean.)  The bit operations distribute over `|||`, so a word
  is split into the parts that depend on four codewords each; each part is a finite fact (256 resp. 4096 cases)
  checked by kernel evaluation.  Property theorems only.
-/
import SfModel.Nms
namespace Sf.C07NmsPack
open Sf Sf.Nms

theorem nibbles_or (m a b : Nat) : nibbles m (a ||| b) = List.zipWith (· ||| ·) (nibbles m a) (nibbles m b) := by
  unfold nibbles
  simp only [Nat.shiftRight_or_distrib, Nat.and_or_distrib_right, List.zipWith_cons_cons, List.zipWith_nil_right]

theorem u16_or (a b : Nat) : u16 (a ||| b) = u16 a ||| u16 b := by
  unfold u16
  exact @Nat.or_mod_two_pow a b 16

theorem u16_u16 (a : Nat) : u16 (u16 a) = u16 a := by unfold u16; exact Nat.mod_mod _ _

/-- the low half of a 16 kbit/s word: codewords 4 … 7 between the bits of codewords 0 … 3 -/
def low8 (c4 c5 c6 c7 : Nat) : Nat := u16 (c4 <<< 10) ||| u16 (c5 <<< 6) ||| u16 (c6 <<< 2) ||| u16 (c7 >>> 2)

theorem word8_split (c0 c1 c2 c3 c4 c5 c6 c7 : Nat) :
    word8 c0 c1 c2 c3 c4 c5 c6 c7 = u16 (word4 c0 c1 c2 c3) ||| low8 c4 c5 c6 c7 := by
  unfold word8 low8
  simp only [u16_or, u16_u16, Nat.or_assoc]

theorem word8_high : ∀ a0, a0 < 4 → ∀ a1, a1 < 4 → ∀ a2, a2 < 4 → ∀ a3, a3 < 4 →
    nibbles 0xc (u16 (word4 (4 * a0) (4 * a1) (4 * a2) (4 * a3))) = [4 * a0, 4 * a1, 4 * a2, 4 * a3] ∧
    nibbles 0xc (u16 (u16 (word4 (4 * a0) (4 * a1) (4 * a2) (4 * a3)) <<< 2)) = [0, 0, 0, 0] := by decide +kernel

theorem word8_low : ∀ a4, a4 < 4 → ∀ a5, a5 < 4 → ∀ a6, a6 < 4 → ∀ a7, a7 < 4 →
    nibbles 0xc (low8 (4 * a4) (4 * a5) (4 * a6) (4 * a7)) = [0, 0, 0, 0] ∧
    nibbles 0xc (u16 (low8 (4 * a4) (4 * a5) (4 * a6) (4 * a7) <<< 2)) = [4 * a4, 4 * a5, 4 * a6, 4 * a7] := by decide +kernel

/-- 16 kbit/s: one word holds eight 2-bit codewords -/
theorem word8_unpack (a0 a1 a2 a3 a4 a5 a6 a7 : Nat) (h0 : a0 < 4) (h1 : a1 < 4) (h2 : a2 < 4) (h3 : a3 < 4)
    (h4 : a4 < 4) (h5 : a5 < 4) (h6 : a6 < 4) (h7 : a7 < 4) :
    nibbles 0xc (word8 (4 * a0) (4 * a1) (4 * a2) (4 * a3) (4 * a4) (4 * a5) (4 * a6) (4 * a7)) ++
      nibbles 0xc (u16 (word8 (4 * a0) (4 * a1) (4 * a2) (4 * a3) (4 * a4) (4 * a5) (4 * a6) (4 * a7) <<< 2)) =
    [4 * a0, 4 * a1, 4 * a2, 4 * a3, 4 * a4, 4 * a5, 4 * a6, 4 * a7] := by
  obtain ⟨hh1, hh2⟩ := word8_high a0 h0 a1 h1 a2 h2 a3 h3
  obtain ⟨hl1, hl2⟩ := word8_low a4 h4 a5 h5 a6 h6 a7 h7
  rw [word8_split, Nat.shiftLeft_or_distrib, u16_or, nibbles_or, nibbles_or, hh1, hh2, hl1, hl2]
  simp only [List.zipWith_cons_cons, List.zipWith_nil_right, Nat.or_zero, Nat.zero_or, List.cons_append, List.nil_append]

/-- the three spread-out bit planes of the residual word -/
def plane (res k : Nat) : Nat := u16 ((res >>> k) &&& 0x1111)

/-- a word of three-bit codewords: the codewords come back, and its free bits (0x1111) are clear -/
theorem word4_even : ∀ a0, a0 < 8 → ∀ a1, a1 < 8 → ∀ a2, a2 < 8 → ∀ a3, a3 < 8 →
    nibbles 0xe (u16 (word4 (2 * a0) (2 * a1) (2 * a2) (2 * a3))) = [2 * a0, 2 * a1, 2 * a2, 2 * a3] ∧
    u16 (word4 (2 * a0) (2 * a1) (2 * a2) (2 * a3)) &&& 0x1111 = 0 := by decide +kernel

/-- the planes of the residual are invisible to the codeword mask and lie in the free bits -/
theorem residual_planes (k : Nat) (hk : k < 4) : ∀ a0, a0 < 8 → ∀ a1, a1 < 8 → ∀ a2, a2 < 8 → ∀ a3, a3 < 8 →
    nibbles 0xe (plane (word4 (2 * a0) (2 * a1) (2 * a2) (2 * a3)) k) = [0, 0, 0, 0] ∧
      plane (word4 (2 * a0) (2 * a1) (2 * a2) (2 * a3)) k &&& 0x1111 = plane (word4 (2 * a0) (2 * a1) (2 * a2) (2 * a3)) k := by
  match k, hk with
  | 0, _ => decide +kernel
  | 1, _ => decide +kernel
  | 2, _ => decide +kernel
  | 3, _ => decide +kernel

/-- the unpacker's residual rebuilt from the planes gives the last four codewords back -/
theorem residual_rebuilt : ∀ a0, a0 < 8 → ∀ a1, a1 < 8 → ∀ a2, a2 < 8 → ∀ a3, a3 < 8 →
    nibbles 0xe (u16 (u16 (u16 (u16 (0 <<< 1 ||| plane (word4 (2 * a0) (2 * a1) (2 * a2) (2 * a3)) 3) <<< 1 |||
      plane (word4 (2 * a0) (2 * a1) (2 * a2) (2 * a3)) 2) <<< 1 ||| plane (word4 (2 * a0) (2 * a1) (2 * a2) (2 * a3)) 1) <<< 1)) =
      [2 * a0, 2 * a1, 2 * a2, 2 * a3] := by decide +kernel

theorem group24_words (c0 c1 c2 c3 c4 c5 c6 c7 c8 c9 c10 c11 c12 c13 c14 c15 : Nat) :
    group24 [c0, c1, c2, c3, c4, c5, c6, c7, c8, c9, c10, c11, c12, c13, c14, c15] =
      [u16 (word4 c0 c1 c2 c3) ||| plane (word4 c12 c13 c14 c15) 3,
       u16 (word4 c4 c5 c6 c7) ||| plane (word4 c12 c13 c14 c15) 2,
       u16 (word4 c8 c9 c10 c11) ||| plane (word4 c12 c13 c14 c15) 1] := by
  unfold group24 plane
  simp only [List.getD_cons_zero, List.getD_cons_succ, u16_or, ← Nat.shiftRight_add]

/-- 24 kbit/s: a group of sixteen 3-bit codewords survives pack + unpack -/
theorem group24_unpack (a0 a1 a2 a3 a4 a5 a6 a7 a8 a9 a10 a11 a12 a13 a14 a15 : Nat)
    (h0 : a0 < 8) (h1 : a1 < 8) (h2 : a2 < 8) (h3 : a3 < 8) (h4 : a4 < 8) (h5 : a5 < 8) (h6 : a6 < 8) (h7 : a7 < 8)
    (h8 : a8 < 8) (h9 : a9 < 8) (h10 : a10 < 8) (h11 : a11 < 8) (h12 : a12 < 8) (h13 : a13 < 8) (h14 : a14 < 8) (h15 : a15 < 8) :
    unpack24 (group24 [2 * a0, 2 * a1, 2 * a2, 2 * a3, 2 * a4, 2 * a5, 2 * a6, 2 * a7, 2 * a8, 2 * a9, 2 * a10, 2 * a11,
      2 * a12, 2 * a13, 2 * a14, 2 * a15]) =
    [2 * a0, 2 * a1, 2 * a2, 2 * a3, 2 * a4, 2 * a5, 2 * a6, 2 * a7, 2 * a8, 2 * a9, 2 * a10, 2 * a11,
      2 * a12, 2 * a13, 2 * a14, 2 * a15] := by
  obtain ⟨b0, z0⟩ := word4_even a0 h0 a1 h1 a2 h2 a3 h3
  obtain ⟨b1, z1⟩ := word4_even a4 h4 a5 h5 a6 h6 a7 h7
  obtain ⟨b2, z2⟩ := word4_even a8 h8 a9 h9 a10 h10 a11 h11
  obtain ⟨p1, q1⟩ := residual_planes 1 (by decide) a12 h12 a13 h13 a14 h14 a15 h15
  obtain ⟨p2, q2⟩ := residual_planes 2 (by decide) a12 h12 a13 h13 a14 h14 a15 h15
  obtain ⟨p3, q3⟩ := residual_planes 3 (by decide) a12 h12 a13 h13 a14 h14 a15 h15
  have hr := residual_rebuilt a12 h12 a13 h13 a14 h14 a15 h15
  rw [group24_words]
  simp only [unpack24, ungroup24, List.append_nil]
  simp only [nibbles_or, Nat.and_or_distrib_right, b0, b1, b2, z0, z1, z2, p1, p2, p3, q1, q2, q3, Nat.zero_or, hr,
    List.zipWith_cons_cons, List.zipWith_nil_right, Nat.or_zero, List.cons_append, List.nil_append]

/-! ## whole blocks -/

theorem code4 (c : Nat) (h : c < 16 ∧ c % 4 = 0) : c = 4 * (c / 4) ∧ c / 4 < 4 := by omega
theorem code2 (c : Nat) (h : c < 16 ∧ c % 2 = 0) : c = 2 * (c / 2) ∧ c / 2 < 8 := by omega

/-- 16 kbit/s: any number of words -/
theorem unpack16_pack16 : ∀ (n : Nat) (cs : List Nat), cs.length = 8 * n → (∀ c ∈ cs, c < 16 ∧ c % 4 = 0) →
    unpack16 (pack16 cs) = cs := by
  intro n
  induction n with
  | zero => intro cs h _; have : cs = [] := List.eq_nil_of_length_eq_zero (by omega); subst this; rfl
  | succ n ih =>
    intro cs h hc
    match cs, h with
    | c0 :: c1 :: c2 :: c3 :: c4 :: c5 :: c6 :: c7 :: rest, h =>
      have hr : rest.length = 8 * n := by simp only [List.length_cons] at h; omega
      have ih' := ih rest hr (fun c hc' => hc c (by simp [hc']))
      obtain ⟨e0, l0⟩ := code4 c0 (hc c0 (by simp))
      obtain ⟨e1, l1⟩ := code4 c1 (hc c1 (by simp))
      obtain ⟨e2, l2⟩ := code4 c2 (hc c2 (by simp))
      obtain ⟨e3, l3⟩ := code4 c3 (hc c3 (by simp))
      obtain ⟨e4, l4⟩ := code4 c4 (hc c4 (by simp))
      obtain ⟨e5, l5⟩ := code4 c5 (hc c5 (by simp))
      obtain ⟨e6, l6⟩ := code4 c6 (hc c6 (by simp))
      obtain ⟨e7, l7⟩ := code4 c7 (hc c7 (by simp))
      have hw := word8_unpack (c0 / 4) (c1 / 4) (c2 / 4) (c3 / 4) (c4 / 4) (c5 / 4) (c6 / 4) (c7 / 4) l0 l1 l2 l3 l4 l5 l6 l7
      rw [← e0, ← e1, ← e2, ← e3, ← e4, ← e5, ← e6, ← e7] at hw
      simp only [pack16, unpack16, List.flatMap_cons]
      unfold unpack16 at ih'
      rw [hw, ih']
      rfl

example : unpack16 (pack16 [4, 12, 0, 8, 8, 8, 0, 12]) = [4, 12, 0, 8, 8, 8, 0, 12] := by decide
example : unpack24 (pack24 2 [2, 14, 0, 8, 6, 6, 0, 12, 10, 4, 2, 0, 14, 14, 2, 8]) = [2, 14, 0, 8, 6, 6, 0, 12, 10, 4, 2, 0, 14, 14, 2, 8] := by decide

end Sf.C07NmsPack
