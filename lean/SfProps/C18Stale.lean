/-
  C18, stale PEAK chunks.  The PEAK bookkeeping of libsndfile only ever grows: seeking back in a write session and overwriting the
  loudest frame, overwriting it through an SFM_RDWR handle, or truncating it away leaves a PEAK chunk that no longer describes the
  stored samples — and files from other software carry whatever their writer put there.  The statement asks of SFC_CALC_* "the true
  maximum absolute value of the stored samples"; SFC_GET_SIGNAL_MAX / SFC_GET_MAX_ALL_CHANNELS are the commands that report the
  header.  In the model the scan is `Sf.Peak.stepCalc` (save, rewind, read to the end, seek back, restore), and

  * `calc_ignores_peak_chunk`     : for EVERY handle state, store and PEAK state `p` — whatever the chunk said at open, or none at all —
                                    the four commands return the same values, leave the same store and the same handle (which keeps `p`);
  * `calc_same_whatever_the_chunk`: two handles that differ only in their PEAK state get the same answers;
  * `stale_peak_by_overwrite`     : the legitimate history "write 1.0, 0.25 — seek back — write 0.5 — close" on a mono float WAV, run on
                                    the model: the closed file's chunk says 1.0 at frame 0, SFC_GET_SIGNAL_MAX after re-open reports 1.0,
                                    SFC_CALC_SIGNAL_MAX reports 0.5, the true maximum of the two stored samples.
  (vlib/c18stale.py is the campaign: overwrite in write mode, overwrite and truncate through SFM_RDWR, PEAK chunk patched in the file.)
-/
import SfProofs.PeakStale
namespace Sf.C18Stale
open Sf Sf.Peak

/-- **SFC_CALC_* never look at the PEAK chunk**: replace the handle's PEAK state by anything; values, store and (up to that state)
    handle after the command are the same. -/
theorem calc_ignores_peak_chunk (h : H) (s : Store) (normalize : Bool) (p : Option (List Sf.Peak)) :
    (stepCalc (withPeak h p) s normalize).2.2.sig = (stepCalc h s normalize).2.2.sig ∧
    (stepCalc (withPeak h p) s normalize).2.2.all = (stepCalc h s normalize).2.2.all ∧
    (stepCalc (withPeak h p) s normalize).2.1 = (stepCalc h s normalize).2.1 ∧
    (stepCalc (withPeak h p) s normalize).1 = withPeak (stepCalc h s normalize).1 p := by
  rw [stepCalc_peak]
  exact ⟨rfl, rfl, rfl, rfl⟩

/-- two handles on the same file that agree on everything but the PEAK state get the same four answers -/
theorem calc_same_whatever_the_chunk (h1 h2 : H) (s : Store) (normalize : Bool) (he : withPeak h1 none = withPeak h2 none) :
    (stepCalc h1 s normalize).2.2.sig = (stepCalc h2 s normalize).2.2.sig ∧
    (stepCalc h1 s normalize).2.2.all = (stepCalc h2 s normalize).2.2.all := by
  have a := calc_ignores_peak_chunk h1 s normalize none
  have b := calc_ignores_peak_chunk h2 s normalize none
  rw [he] at a
  exact ⟨a.1.symm.trans b.1, a.2.1.symm.trans b.2.1⟩

/-! ## a stale chunk made by a legitimate history, on the model -/

/-- open a mono FLOAT WAV for writing, write [1.0, 0.25], seek back to frame 0, write [0.5], close -/
def staleFile : Option Store :=
  match openHandle 0 {} .w 0x010006 1 8000 with
  | .ok h s =>
    let a := stepWrite h s .f32 false 2 [0x3F800000, 0x3E800000]
    let b := stepSeek a.1 a.2.1 0 0
    let c := stepWrite b.1 b.2.1 .f32 false 1 [0x3F000000]
    some (closeHandle c.1 c.2.1)
  | _ => none

/-- (SFC_GET_SIGNAL_MAX after re-open, SFC_CALC_SIGNAL_MAX, SFC_CALC_MAX_ALL_CHANNELS, read position afterwards) -/
def staleAnswers : Option (Nat × Nat × List Nat × Int) :=
  match staleFile with
  | some s =>
    (match openHandle 0 s .r 0 0 0 with
     | .ok h s =>
       let r := stepCalc h s false
       some ((h.peak.map getSignalMax).getD 0, r.2.2.sig, r.2.2.all.1, r.1.rpos)
     | _ => none)
  | none => none

/-- the chunk says 1.0 (0x3FF0…), the stored samples are 0.5 and 0.25: CALC answers 0.5 (0x3FE0…), GET answers the chunk -/
theorem stale_peak_by_overwrite :
    staleAnswers = some (0x3FF0000000000000, 0x3FE0000000000000, [0x3FE0000000000000], 0) := by decide +kernel

/-- non-vacuity of `calc_same_whatever_the_chunk`: the re-opened handle (which has a PEAK state), the same handle told "no PEAK chunk" and told "2.0 at frame 1" -/
example : (match staleFile with
    | some s => (match openHandle 0 s .r 0 0 0 with
       | .ok h s => h.peak.isSome && decide ((stepCalc (withPeak h none) s false).2.2.sig = 0x3FE0000000000000) &&
                    decide ((stepCalc (withPeak h (some [{ value := 0x4000000000000000, position := 1 }])) s true).2.2.sig = 0x3FE0000000000000)
       | _ => false)
    | none => false) = true := by decide +kernel

end Sf.C18Stale
