/-
  C12 — metadata set before the audio survives close and re-open.

  Theorems about SfModel/Meta.lean (the definitions `sfmodel meta` runs against the library).  Each round-trip theorem
  carries the implementation's limits as explicit hypotheses; where the full statement fails, the counter-example is a
  proved witness and the hypothesis of the `…_partial` theorem is exactly the known-finding class.
-/
import SfModel.Meta
import SfProofs.MetaBytes
import SfProofs.MetaStrings
namespace Sf.Meta

/-! ## cue points -/

theorem serCue_length (c : Cue) : (serCue c).length = 24 := by simp [serCue]

theorem parseCue_serCue (c : Cue) (h : c.wf) : parseCue (serCue c) = c.stripName := by
  obtain ⟨h1, h2, h3, h4, h5, h6⟩ := h
  simp [parseCue, serCue, Cue.stripName, List.drop_append, ofLE_le4, List.drop_eq_nil_of_le, List.take_of_length_le, *]

theorem parseCues_flatMap (cs : List Cue) (h : ∀ c ∈ cs, c.wf) :
    parseCues cs.length (cs.flatMap serCue) = cs.map Cue.stripName := by
  induction cs with
  | nil => simp [parseCues]
  | cons c t ih =>
    have hc := h c (by simp)
    have ht : ∀ c ∈ t, c.wf := fun c hc => h c (by simp [hc])
    simp only [List.length_cons, List.flatMap_cons, parseCues, List.map_cons]
    rw [if_neg (by simp [serCue_length]), take_front _ _ 24 (serCue_length c), drop_front _ _ 24 (serCue_length c),
      parseCue_serCue c hc, ih ht]

/-- cue positions, ids and the chunk/block fields survive (0 … 2500 cue points): the re-opened file returns the cue list
    with every name emptied -/
theorem cue_roundtrip (cs : List Cue) (hn : cs.length ≤ MAX_CUES) (h : ∀ c ∈ cs, c.wf) :
    readCues (writeCues cs) = some (cs.map Cue.stripName) := by
  have hlt : cs.length < 2 ^ 32 := by unfold MAX_CUES at hn; omega
  have h8 : (mk "cue " ++ le4 (4 + cs.length * 24)).length = 8 := by simp [mk_length]
  unfold readCues writeCues
  simp only [List.append_assoc]
  rw [show mk "cue " ++ (le4 (4 + cs.length * 24) ++ (le4 cs.length ++ cs.flatMap serCue))
        = (mk "cue " ++ le4 (4 + cs.length * 24)) ++ (le4 cs.length ++ cs.flatMap serCue) by simp]
  rw [drop_front _ _ 8 h8]
  simp only [take_front _ _ 4 (le4_length _), drop_front _ _ 4 (le4_length _), ofLE_le4 hlt]
  rw [if_neg (by omega), parseCues_flatMap cs h]

example : readCues (writeCues [⟨1, 10, 0x61746164, 0, 0, 10, []⟩, ⟨7, 20, 0x61746164, 1, 2, 3, []⟩])
    = some [⟨1, 10, 0x61746164, 0, 0, 10, []⟩, ⟨7, 20, 0x61746164, 1, 2, 3, []⟩] := by decide

/-- the full statement for cue points: what is set is what is returned -/
def cue_full : Prop := ∀ cs : List Cue, cs.length ≤ 100 → (∀ c ∈ cs, c.wf ∧ c.name.length < 256) → readCues (writeCues cs) = some cs

/-- cue names do not survive (no `adtl`/`labl` list is ever written) -/
theorem cue_names_lost : ¬ cue_full := by
  intro h
  have := h [⟨1, 10, 0x61746164, 0, 0, 10, [111, 110, 101]⟩] (by decide) (by decide)
  revert this; decide

/-- class KF.cueNames: some cue point carries a name.  Outside it the round trip is exact. -/
theorem cue_roundtrip_partial (cs : List Cue) (hn : cs.length ≤ MAX_CUES) (h : ∀ c ∈ cs, c.wf) (hnames : ∀ c ∈ cs, c.name = []) :
    readCues (writeCues cs) = some cs := by
  rw [cue_roundtrip cs hn h]
  congr 1
  conv => rhs; rw [← List.map_id cs]
  apply List.map_congr_left
  intro c hc
  have := hnames c hc
  cases c; simp_all [Cue.stripName]

example : (∀ c ∈ [(⟨1, 10, 0, 0, 0, 10, []⟩ : Cue)], c.name = []) := by decide

/-- more than 2500 cue points: the chunk is skipped on re-open -/
theorem cue_count_limit_witness : readCues (mk "cue " ++ le4 (4 + 2501 * 24) ++ le4 2501) = none := by decide

/-! ## bext -/

/-- what a re-opened file returns for a stored bext block: everything but the reserved field -/
def Bext.reread (b : Bext) : Bext := { b with reserved := zeros 180 }

theorem bext_chunk_roundtrip_with (maxSize : Nat) (b : Bext) (h : b.wf) (hlim : BEXT_MIN + b.history.length ≤ maxSize)
    (h16 : b.history.length ≤ 16384) :
    readBextWith maxSize (writeBext b) = some b.reread := by
  obtain ⟨d1, d2, d3, d4, d5, t1, t2, v, um, a1, a2, a3, a4, a5, _⟩ := h
  have hs : BEXT_MIN + b.history.length < 2 ^ 32 := by unfold BEXT_MIN at *; omega
  unfold readBextWith writeBext
  simp only [List.append_assoc]
  have e4 : (mk "bext").length = 4 := by decide
  rw [drop_front_add (mk "bext") _ 4 0 e4, drop_front_add (mk "bext") _ 4 4 e4]
  simp only [List.drop_zero, take_front _ _ 4 (le4_length _), drop_front _ _ 4 (le4_length _), ofLE_le4 hs]
  rw [if_neg (by unfold BEXT_MIN BEXT_STRUCT_16K at *; omega)]
  cases b
  simp_all [Bext.reread, List.drop_append, ofLE_le4, ofLE_le2, List.drop_eq_nil_of_le, List.take_of_length_le, BEXT_MIN]

/-- the chunk round trip for every coding history the writer can emit (at most 16384 bytes): no other bound since the repair -/
theorem bext_chunk_roundtrip (b : Bext) (h : b.wf) (h16 : b.history.length ≤ 16384) : readBext (writeBext b) = some b.reread :=
  bext_chunk_roundtrip_with BEXT_MAX b h (by unfold BEXT_MAX; omega) h16

theorem crlfGo_zero (skip : Option Byte) (src : List Byte) : crlfGo 0 skip src = [] := by
  induction src generalizing skip with
  | nil => simp [crlfGo]
  | cons a t ih => simp only [crlfGo]; split <;> simp [ih]

/-- psf_strlcpy_crlf writes at most `room + 1` bytes before the terminator -/
theorem crlfGo_length (room : Nat) (skip : Option Byte) (src : List Byte) : (crlfGo room skip src).length ≤ room + 1 := by
  induction src generalizing room skip with
  | nil => simp [crlfGo]
  | cons a t ih =>
    simp only [crlfGo]
    split
    · exact ih room none
    · split
      · simp
      · rename_i hr
        have h2 : ∀ sk, (crlfGo (room - 2) sk t).length + 2 ≤ room + 1 := by
          intro sk
          by_cases h1 : room = 1
          · subst h1; simp [crlfGo_zero]
          · have := ih (room - 2) sk; omega
        split
        · simpa using h2 (some 10)
        · split
          · simpa using h2 (some 13)
          · have := ih (room - 1) none
            simp only [List.length_cons]; omega

theorem cstr_length_le2 (l : List Byte) : (cstr l).length ≤ l.length := by
  unfold cstr
  induction l with
  | nil => simp
  | cons a t ih =>
    simp only [List.takeWhile_cons]
    split
    · simp only [List.length_cons]; omega
    · simp

theorem crlfCopy_length (src : List Byte) : (crlfCopy src).length ≤ 16383 := by
  have := crlfGo_length (VAR_TEXT - 2) none src
  have := cstr_length_le2 (crlfGo (VAR_TEXT - 2) none src)
  unfold crlfCopy VAR_TEXT at *; omega

theorem strlcat_length (d s : List Byte) (h : d.length ≤ 16383) : (strlcat VAR_TEXT d s).length ≤ 16383 := by
  simp only [strlcat, VAR_TEXT, List.length_append, List.length_take]; omega

theorem closeLine_length (t : List Byte) (h : t.length ≤ 16383) : (closeLine t).length ≤ 16383 := by
  unfold closeLine; split
  · exact strlcat_length t _ h
  · exact h

/-- the stored coding history never exceeds the 16 KiB of SF_BROADCAST_INFO_16K -/
theorem normHistory_length (mode : Mode) (line src : List Byte) : (normHistory mode line src).length ≤ 16384 := by
  have h1 := closeLine_length _ (crlfCopy_length src)
  unfold normHistory
  simp only [List.length_append, zeros_length]
  split
  · have := strlcat_length _ line h1; omega
  · omega

/-- the value the re-opened file must return: the documented normalisations of SFC_SET_BROADCAST_INFO (CR/LF line ends, a
    line end added when missing, the library's coding-history line appended, even size) plus `version := 2` and the
    reserved field zeroed -/
def normBext (mode : Mode) (line : List Byte) (info : Bext) : Bext := (setBext mode line info).reread

/-- get after re-open = normalise (set) — at full strength since the repair of the reader's 10 KiB bound: for every
    block the SET call accepts, whatever the length of its coding history -/
theorem bext_roundtrip (mode : Mode) (line : List Byte) (info : Bext) (h : info.wf) :
    readBext (writeBext (setBext mode line info)) = some (normBext mode line info) := by
  apply bext_chunk_roundtrip
  · obtain ⟨d1, d2, d3, d4, d5, t1, t2, v, um, a1, a2, a3, a4, a5, r⟩ := h
    exact ⟨d1, d2, d3, d4, d5, t1, t2, by simp [setBext], um, a1, a2, a3, a4, a5, r⟩
  · simpa [setBext] using normHistory_length mode line info.history

def bextSample : Bext := ⟨fixW 256 (ascii "desc"), zeros 32, zeros 32, zeros 10, zeros 8, 1, 2, 1, zeros 64, 1, 2, 3, 4, 5, zeros 180, ascii "A=PCM\n"⟩

example : readBext (writeBext (setBext .write (ascii "T=x\r\n") bextSample)) = some (normBext .write (ascii "T=x\r\n") bextSample) ∧
    (normBext .write (ascii "T=x\r\n") bextSample).history = ascii "A=PCM\r\nT=x\r\n" := by decide +kernel

/-- the full statement: every block with up to 16 KiB of coding history (what sndfile.h offers) survives -/
def bext_full_for (read : List Byte → Option Bext) : Prop :=
  ∀ (b : Bext), b.wf → b.history.length ≤ 16384 → read (writeBext b) = some b.reread

theorem bext_full : bext_full_for readBext := fun b h h16 => bext_chunk_roundtrip b h h16

theorem bext_over_limit_old_rule (b : Bext) (hlim : BEXT_MIN + b.history.length > BEXT_MAX_OLD) (hs : b.history.length ≤ 16384) :
    readBextOld (writeBext b) = none := by
  have hs : BEXT_MIN + b.history.length < 2 ^ 32 := by unfold BEXT_MIN; omega
  unfold readBextOld readBextWith writeBext
  simp only [List.append_assoc]
  have e4 : (mk "bext").length = 4 := by decide
  rw [drop_front_add (mk "bext") _ 4 0 e4]
  simp only [List.drop_zero, take_front _ _ 4 (le4_length _), ofLE_le4 hs]
  rw [if_pos (by omega)]

/-- before the repair: a stored coding history of more than 9638 bytes (chunk > 10 KiB) was emitted by the writer and the whole
    chunk skipped by the reader -/
theorem bext_history_limit_old_rule : ¬ bext_full_for readBextOld := by
  intro h
  have hw : ({ bextSample with history := zeros 9640 } : Bext).wf := by decide +kernel
  have := h { bextSample with history := zeros 9640 } hw (by simp)
  rw [bext_over_limit_old_rule _ (by simp [BEXT_MIN, BEXT_MAX_OLD]) (by simp)] at this
  cases this

/-! ## cart -/

def Cart.reread (c : Cart) : Cart := { c with reserved := zeros 276 }

theorem cart_chunk_roundtrip_with (limit : Nat) (c : Cart) (h : c.wf) (hlim : CART_MIN + c.tag.length < limit) (h16 : c.tag.length ≤ 16384) :
    readCartWith limit (writeCart c) = some c.reread := by
  obtain ⟨h1, h2, h3⟩ := h
  have hs : CART_MIN + c.tag.length < 2 ^ 32 := by unfold CART_MIN; omega
  unfold readCartWith writeCart
  simp only [List.append_assoc]
  have e4 : (mk "cart").length = 4 := by decide
  rw [drop_front_add (mk "cart") _ 4 0 e4, drop_front_add (mk "cart") _ 4 4 e4]
  simp only [List.drop_zero, take_front _ _ 4 (le4_length _), drop_front _ _ 4 (le4_length _), ofLE_le4 hs]
  rw [if_neg (by unfold CART_MIN at *; omega)]
  cases c
  simp_all [Cart.reread, List.drop_append, List.drop_eq_nil_of_le, List.take_of_length_le, CART_MIN]

theorem cart_chunk_roundtrip (c : Cart) (h : c.wf) (h16 : c.tag.length ≤ 16384) : readCart (writeCart c) = some c.reread :=
  cart_chunk_roundtrip_with _ c h (by unfold CART_MIN CART_STRUCT_16K; omega) h16

def normCart (junk : Byte) (info : Cart) : Cart := (setCart junk info).reread

theorem normTag_length (junk : Byte) (src : List Byte) : (normTag junk src).length ≤ 16384 := by
  have h1 := closeLine_length _ (crlfCopy_length src)
  unfold normTag
  simp only [List.length_append, List.length_cons, List.length_nil]
  split
  · rename_i hev; simp only [List.length_cons, List.length_nil]; omega
  · simp only [List.length_nil]; omega

/-- get after re-open = normalise (set) at full strength since the repair of the reader's size test: CR/LF line ends, a line
    end added when missing, NUL padding to an even size; the reserved field is written as zeros.  `junk` is the byte after
    the terminator that cart_var_set never writes. -/
theorem cart_roundtrip (junk : Byte) (info : Cart) (h : info.wf) :
    readCart (writeCart (setCart junk info)) = some (normCart junk info) := by
  apply cart_chunk_roundtrip
  · exact h
  · simpa [setCart] using normTag_length junk info.tag

def cartSample : Cart := ⟨fixW 748 (ascii "0101title"), zeros 276, fixW 1024 (ascii "http://x"), ascii "tag\rtext"⟩

example : readCart (writeCart (setCart 0 cartSample)) = some (normCart 0 cartSample) ∧
    (normCart 0 cartSample).tag = ascii "tag\r\ntext\r\n" ++ [0] := by decide +kernel

/-- before the repair (`>=` where `>` is meant): a tag text that fills the 16 KiB was written and then refused by the reader -/
theorem cart_full_size_old_rule (c : Cart) (h16 : c.tag.length = 16384) : readCartOld (writeCart c) = none := by
  have hs : CART_MIN + c.tag.length < 2 ^ 32 := by unfold CART_MIN; omega
  unfold readCartOld readCartWith writeCart
  simp only [List.append_assoc]
  have e4 : (mk "cart").length = 4 := by decide
  rw [drop_front_add (mk "cart") _ 4 0 e4]
  simp only [List.drop_zero, take_front _ _ 4 (le4_length _), ofLE_le4 hs]
  rw [if_pos (by unfold CART_MIN CART_STRUCT_16K; omega)]

/-- … and such texts exist: 16381 characters and a line end normalise to 16383 bytes, tag_text_size 16384 -/
example : (normTag 0 (List.replicate 16381 120 ++ [10])).length = 16384 := by decide +kernel

/-! ## LIST/INFO -/

theorem cstr_append_zero (s r : List Byte) (h : ∀ b ∈ s, b ≠ 0) : cstr (s ++ 0 :: r) = s := by
  induction s with
  | nil => simp [cstr]
  | cons a t ih =>
    have ha : a ≠ 0 := h a (by simp)
    have := ih (fun b hb => h b (by simp [hb]))
    simp [cstr, ha] at this ⊢
    exact this

theorem infoMarker_spec {ty : Nat} {m : List Byte} (h : infoMarker ty = some m) :
    m.length = 4 ∧ markerType m = some (some ty) ∧ m ≠ mk "INFO" ∧ m ≠ mk "adtl" := by
  unfold infoMarker at h
  split at h <;> simp at h <;> subst h <;> decide

theorem serString_length (s : List Byte) : (serString s).length = 4 + (s.length + 1 + (s.length + 1) % 2) := by
  simp [serString]; omega

/-- the padded size of an item's text as the 's' conversion writes it: strlen + 1 rounded up to even -/
def paddedLen (e : Nat × List Byte) : Nat := e.2.length + 1 + (e.2.length + 1) % 2

theorem serItem_length (e : Nat × List Byte) (h : infoOk e) : (serItem e).length = 8 + paddedLen e := by
  obtain ⟨ty, s⟩ := e
  obtain ⟨_, hm⟩ := h
  obtain ⟨m, hm⟩ := Option.isSome_iff_exists.mp hm
  obtain ⟨m4, _⟩ := infoMarker_spec hm
  simp only at hm
  simp [serItem, hm, serString, m4, paddedLen]; omega

/-- one item at the front of the list, for any text buffer and either rule: parsed when its padded size is below the buffer
    size, otherwise skipped (current rule) or the end of the walk (old rule) -/
theorem parseItemsW_front (buf : Nat) (sk : Bool) (fuel : Nat) (e : Nat × List Byte) (rest : List Byte) (h : infoOk e)
    (h32 : paddedLen e < 2 ^ 32) :
    parseItemsW buf sk (fuel + 1) (serItem e ++ rest) =
      if paddedLen e ≥ buf then (if sk then parseItemsW buf sk fuel rest else []) else e :: parseItemsW buf sk fuel rest := by
  obtain ⟨ty, s⟩ := e
  obtain ⟨hz, hm⟩ := h
  simp only [paddedLen] at h32 ⊢
  simp only at hz hm
  obtain ⟨m, hm⟩ := Option.isSome_iff_exists.mp hm
  obtain ⟨m4, mt, mi, ma⟩ := infoMarker_spec hm
  have hev : (s.length + 1 + (s.length + 1) % 2) % 2 = 0 := by omega
  simp only [serItem, hm, serString, List.append_assoc]
  rw [parseItemsW]
  rw [if_neg (by simp [m4])]
  simp only [take_front _ _ 4 m4, drop_front _ _ 4 m4, take_front _ _ 4 (le4_length _), drop_front _ _ 4 (le4_length _), ofLE_le4 h32, hev,
    Nat.add_zero]
  rw [if_neg (by simp [mi, ma])]
  simp only [mt]
  have hsplit : s ++ ([0] ++ (zeros ((s.length + 1) % 2) ++ rest)) = (s ++ ([0] ++ zeros ((s.length + 1) % 2))) ++ rest := by simp
  have hlen : (s ++ ([0] ++ zeros ((s.length + 1) % 2))).length = s.length + 1 + (s.length + 1) % 2 := by simp; omega
  rw [if_neg (by rw [hsplit, List.length_append, hlen]; omega)]
  simp only [hsplit, take_front _ _ _ hlen, drop_front _ _ _ hlen]
  by_cases hb : buf ≤ s.length + 1 + (s.length + 1) % 2
  · simp only [ge_iff_le, hb, ↓reduceIte]
  · simp only [ge_iff_le, hb, ↓reduceIte]
    congr 1
    rw [show s ++ ([0] ++ zeros ((s.length + 1) % 2)) = s ++ 0 :: zeros ((s.length + 1) % 2) by simp, cstr_append_zero s _ hz]

/-- an item below the buffer size is parsed and the walk continues behind it -/
theorem parseItemsW_item (buf : Nat) (sk : Bool) (fuel : Nat) (e : Nat × List Byte) (rest : List Byte) (h : infoOk e)
    (hb : paddedLen e < buf) (hbuf : buf ≤ 2 ^ 32) :
    parseItemsW buf sk (fuel + 1) (serItem e ++ rest) = e :: parseItemsW buf sk fuel rest := by
  rw [parseItemsW_front buf sk fuel e rest h (by omega), if_neg (by omega)]

theorem parseItemsW_items (buf : Nat) (sk : Bool) (hbuf : buf ≤ 2 ^ 32) (es : List (Nat × List Byte))
    (h : ∀ e ∈ es, infoOk e ∧ paddedLen e < buf) :
    ∀ fuel, es.length ≤ fuel → parseItemsW buf sk fuel (es.flatMap serItem) = es := by
  induction es with
  | nil => intro fuel _; cases fuel <;> simp [parseItemsW]
  | cons e t ih =>
    intro fuel hf
    cases fuel with
    | zero => simp at hf
    | succ f =>
      simp only [List.flatMap_cons]
      rw [parseItemsW_item buf sk f e _ (h e (by simp)).1 (h e (by simp)).2 hbuf, ih (fun e he => h e (by simp [he])) f (by simpa using hf)]

theorem serItem_length_pos (e : Nat × List Byte) (h : infoOk e) : 1 ≤ (serItem e).length := by
  rw [serItem_length e h]; omega

theorem flatMap_serItem_length (es : List (Nat × List Byte)) (h : ∀ e ∈ es, infoOk e) : es.length ≤ (es.flatMap serItem).length := by
  induction es with
  | nil => simp
  | cons e t ih =>
    have := serItem_length_pos e (h e (by simp))
    have := ih (fun e he => h e (by simp [he]))
    simp only [List.flatMap_cons, List.length_append, List.length_cons]; omega

/-- every item is at most as long as the whole list -/
theorem paddedLen_le_flatMap (es : List (Nat × List Byte)) (h : ∀ e ∈ es, infoOk e) :
    ∀ e ∈ es, 8 + paddedLen e ≤ (es.flatMap serItem).length := by
  induction es with
  | nil => intro e he; cases he
  | cons x t ih =>
    intro e he
    simp only [List.flatMap_cons, List.length_append]
    rcases List.mem_cons.mp he with rfl | he
    · rw [serItem_length e (h e (by simp))]; omega
    · have := ih (fun e he => h e (by simp [he])) e he; omega

/-- the walk of a whole LIST chunk as the writer lays it out, for any items parser that reads what `parseItemsW buf sk`
    reads with a buffer every item is smaller than -/
theorem parseInfoWith_roundtrip (buf : Nat) (sk : Bool) (hbuf : buf ≤ 2 ^ 32) (es : List (Nat × List Byte))
    (h : ∀ e ∈ es, infoOk e ∧ paddedLen e < buf) (hsize : (infoBody es).length < 2 ^ 32) :
    parseInfoWith (fun fuel body => parseItemsW buf sk fuel body) (serInfo es) = es := by
  have h' : ∀ e ∈ es, infoOk e := fun e he => (h e he).1
  unfold parseInfoWith serInfo
  simp only [List.append_assoc]
  have e4 : (mk "LIST").length = 4 := by decide
  have i4 : (mk "INFO").length = 4 := by decide
  rw [drop_front_add (mk "LIST") _ 4 0 e4, drop_front_add (mk "LIST") _ 4 4 e4]
  simp only [List.drop_zero, take_front _ _ 4 (le4_length _), drop_front _ _ 4 (le4_length _), ofLE_le4 hsize, List.take_length]
  cases es with
  | nil => simp [infoBody, i4]
  | cons e t =>
    have hpos := flatMap_serItem_length (e :: t) h'
    have hbl : (infoBody (e :: t)).length = 4 + ((e :: t).flatMap serItem).length := by simp [infoBody, i4]
    have h10 : 10 ≤ (serItem e).length := by
      rw [serItem_length e (h' e (by simp))]; unfold paddedLen; omega
    rw [if_neg (by rw [hbl]; simp only [List.flatMap_cons, List.length_append]; omega)]
    rw [hbl]
    unfold infoBody
    rw [show 4 + ((e :: t).flatMap serItem).length = (((e :: t).flatMap serItem).length + 3) + 1 by omega, parseItemsW]
    rw [if_neg (by simp [i4])]
    simp only [take_front _ _ 4 i4, drop_front _ _ 4 i4]
    rw [if_pos (Or.inl trivial)]
    exact parseItemsW_items buf sk hbuf (e :: t) h _ (by omega)

/-- `info_roundtrip` (full strength since the repairs of the reader): parse (serialise pairs) = pairs for every list of C
    strings of types RIFF INFO has an id for whose LIST chunk the header cache can hold (`HEADER_CAP` = 100 KiB: the writer
    cannot produce more either) — whatever the length of the single texts -/
theorem info_roundtrip (es : List (Nat × List Byte)) (h : ∀ e ∈ es, infoOk e) (hsize : (infoBody es).length ≤ HEADER_CAP) :
    parseInfo (serInfo es) = es := by
  have hs32 : (infoBody es).length < 2 ^ 32 := by unfold HEADER_CAP at hsize; omega
  have i4 : (mk "INFO").length = 4 := by decide
  have hbl : (infoBody es).length = 4 + (es.flatMap serItem).length := by simp [infoBody, i4]
  have hbuf : infoBufSize (infoBody es).length = max (infoBody es).length 2047 + 1 := by
    unfold infoBufSize; rw [Nat.min_eq_left hsize]
  have key := parseInfoWith_roundtrip (infoBufSize (infoBody es).length) true
    (by rw [hbuf]; unfold HEADER_CAP at hsize; omega) es
    (fun e he => ⟨h e he, by have := paddedLen_le_flatMap es h e he; rw [hbuf]; omega⟩) hs32
  -- the buffer the parser computes is the one of `key`: the body it sees is `infoBody es`
  have hbody : parseInfo (serInfo es) = parseInfoWith (fun fuel body => parseItemsW (infoBufSize (infoBody es).length) true fuel body) (serInfo es) := by
    unfold parseInfo parseInfoWith serInfo parseItems
    simp only [List.append_assoc]
    have e4 : (mk "LIST").length = 4 := by decide
    rw [drop_front_add (mk "LIST") _ 4 0 e4, drop_front_add (mk "LIST") _ 4 4 e4]
    simp only [List.drop_zero, take_front _ _ 4 (le4_length _), drop_front _ _ 4 (le4_length _), ofLE_le4 hs32, List.take_length]
  rw [hbody]; exact key

/-- `info_roundtrip` for what a string table can hold (at most 32 entries), in terms of the texts: the sum of the padded
    lengths plus 8 bytes per item plus the 4 of `INFO` within the header cache -/
theorem info_roundtrip_table (es : List (Nat × List Byte)) (h : ∀ e ∈ es, infoOk e)
    (hsum : 4 + (es.map fun e => 8 + paddedLen e).sum ≤ HEADER_CAP) : parseInfo (serInfo es) = es := by
  apply info_roundtrip es h
  have i4 : (mk "INFO").length = 4 := by decide
  have : (es.flatMap serItem).length = (es.map fun e => 8 + paddedLen e).sum := by
    clear hsum
    induction es with
    | nil => simp
    | cons e t ih =>
      simp only [List.flatMap_cons, List.length_append, List.map_cons, List.sum_cons]
      rw [serItem_length e (h e (by simp)), ih (fun e he => h e (by simp [he]))]
  simp only [infoBody, List.length_append, i4, this]
  exact hsum

example : parseInfo (serInfo [(1, ascii "Title"), (3, ascii "me (libsndfile-1.2.2)"), (16, ascii "x")]) =
    [(1, ascii "Title"), (3, ascii "me (libsndfile-1.2.2)"), (16, ascii "x")] := by decide +kernel

/-- the full statement: no length limit is documented for strings; the container's limit is what its header can hold -/
def info_full_for (parse : List Byte → List (Nat × List Byte)) : Prop :=
  ∀ es : List (Nat × List Byte), (∀ e ∈ es, (∀ b ∈ e.2, b ≠ 0) ∧ (infoMarker e.1).isSome) → es.length ≤ 32 →
  (infoBody es).length ≤ HEADER_CAP → parse (serInfo es) = es

/-- full strength for the repaired reader -/
theorem info_full : info_full_for parseInfo := fun es h _ hsize => info_roundtrip es h hsize

/-- a text of 2046 bytes and the item behind it now both come back -/
example : parseInfo (serInfo [(1, List.replicate 2046 65), (4, [66])]) = [(1, List.replicate 2046 65), (4, [66])] := by decide +kernel

/-- the reader before the repairs: a text of 2046 bytes (2047 with its NUL, padded to 2048 = sizeof buffer) was refused and
    every item behind it was dropped with it -/
theorem info_limit_old_rule : ¬ info_full_for parseInfoOld := by
  intro h
  have := h [(1, List.replicate 2046 65), (4, [66])] (by decide +kernel) (by decide) (by decide +kernel)
  revert this
  decide +kernel

theorem info_later_items_dropped_old_rule :
    parseInfoOld (serInfo [(5, [67]), (1, List.replicate 2046 65), (4, [66])]) = [(5, [67])] := by decide +kernel

/-- … and 2045 bytes passed: the old reader's round trip under its limit predicate `infoOkOld` -/
theorem info_roundtrip_short_items_old_rule (es : List (Nat × List Byte)) (h : ∀ e ∈ es, infoOkOld e) (hsize : (infoBody es).length < 2 ^ 32) :
    parseInfoOld (serInfo es) = es :=
  parseInfoWith_roundtrip INFO_BUFFER false (by decide) es
    (fun e he => ⟨(h e he).1, by have := (h e he).2; unfold paddedLen INFO_BUFFER; omega⟩) hsize

example : parseInfoOld (serInfo [(1, List.replicate 2045 65), (4, [66])]) = [(1, List.replicate 2045 65), (4, [66])] := by decide +kernel

/-- repair (a): an item that is too long for the text buffer (it can only come from another writer: more than 100 KiB) is
    skipped and the walk goes on with the next item … -/
theorem info_long_item_skipped (buf fuel : Nat) (e : Nat × List Byte) (rest : List Byte) (h : infoOk e) (h32 : paddedLen e < 2 ^ 32)
    (hlong : buf ≤ paddedLen e) : parseItemsW buf true (fuel + 1) (serItem e ++ rest) = parseItemsW buf true fuel rest := by
  rw [parseItemsW_front buf true fuel e rest h h32, if_pos hlong]; rfl

/-- … where the old rule ended the walk: every later item was lost -/
theorem info_long_item_ends_walk_old_rule (buf fuel : Nat) (e : Nat × List Byte) (rest : List Byte) (h : infoOk e) (h32 : paddedLen e < 2 ^ 32)
    (hlong : buf ≤ paddedLen e) : parseItemsW buf false (fuel + 1) (serItem e ++ rest) = [] := by
  rw [parseItemsW_front buf false fuel e rest h h32, if_pos hlong]; rfl

/-- non-vacuity of the two: a small buffer makes the case concrete -/
example : parseItemsW 8 true 9 (serItem (1, ascii "too long a title") ++ serItem (4, ascii "me")) = [(4, ascii "me")] ∧
    parseItemsW 8 false 9 (serItem (1, ascii "too long a title") ++ serItem (4, ascii "me")) = [] := by decide +kernel

/-! ## instrument (`smpl`) -/

theorem wrapU32_lt (x : Int) : wrapU 32 x < 2 ^ 32 := by
  unfold wrapU
  have h := Int.emod_lt_of_pos x (show (0 : Int) < 2 ^ 32 by decide)
  have h0 := Int.emod_nonneg x (show (2 ^ 32 : Int) ≠ 0 by decide)
  omega

theorem loopTypeEnc_lt (m : Int) : loopTypeEnc m < 2 ^ 32 := by
  unfold loopTypeEnc
  split
  · decide
  · split
    · decide
    · split <;> decide

theorem stop_roundtrip (s : Nat) (h : s < 2 ^ 32) : (wrapU 32 ((s : Int) - 1) + 1) % 2 ^ 32 = s := by
  unfold wrapU
  by_cases h0 : s = 0
  · subst h0; decide
  · have : ((s : Int) - 1) % 2 ^ 32 = (s : Int) - 1 := Int.emod_eq_of_lt (by omega) (by omega)
    rw [this]
    omega

theorem serLoop_length (k : Nat) (l : Loop) : (serLoop k l).length = 24 := by simp [serLoop]

theorem serLoops_length (k : Nat) (ls : List Loop) : (serLoops k ls).length = 24 * ls.length := by
  induction ls generalizing k with
  | nil => simp [serLoops]
  | cons l t ih => simp only [serLoops, List.length_append, serLoop_length, ih, List.length_cons]; omega

theorem parseLoop_serLoop (k : Nat) (l : Loop) (h : l.start < 2 ^ 32 ∧ l.stop < 2 ^ 32 ∧ l.count < 2 ^ 32) :
    parseLoop (serLoop k l) = normLoop l := by
  obtain ⟨h1, h2, h3⟩ := h
  have e := loopTypeEnc_lt l.mode
  have w := wrapU32_lt ((l.stop : Int) - 1)
  have sr : (wrapU 32 ((l.stop : Int) - 1) + 1) % 4294967296 = l.stop := stop_roundtrip l.stop h2
  simp [parseLoop, serLoop, normLoop, List.drop_append, ofLE_le4, List.drop_eq_nil_of_le, List.take_of_length_le, stop_roundtrip, *]

theorem parseLoops_serLoops (ls : List Loop) (h : ∀ l ∈ ls, l.start < 2 ^ 32 ∧ l.stop < 2 ^ 32 ∧ l.count < 2 ^ 32) :
    ∀ fuel k, ls.length ≤ fuel → parseLoops fuel (serLoops k ls) = ls.map normLoop := by
  induction ls with
  | nil => intro fuel k _; cases fuel <;> simp [parseLoops, serLoops]
  | cons l t ih =>
    intro fuel k hf
    cases fuel with
    | zero => simp at hf
    | succ f =>
      show parseLoops (f + 1) (serLoop k l ++ serLoops (k + 1) t) = (l :: t).map normLoop
      rw [parseLoops, List.map_cons]
      rw [if_neg (by simp [serLoop_length]), take_front _ _ 24 (serLoop_length k l), drop_front _ _ 24 (serLoop_length k l),
        parseLoop_serLoop k l (h l (by simp)), ih (fun l hl => h l (by simp [hl])) f (k + 1) (by simpa using hf)]

/-- get after re-open = normInst (set) for 0 … 16 loops: base note, loop modes, starts, ends and counts survive; gain, key
    and velocity ranges are replaced by 1, 0..127, 0..127 and detune goes through detuneDec ∘ detuneEnc -/
theorem inst_roundtrip (period : Nat) (i : Inst) (hp : period < 2 ^ 32) (hl : i.loops.length ≤ 16)
    (hw : ∀ l ∈ i.loops, l.start < 2 ^ 32 ∧ l.stop < 2 ^ 32 ∧ l.count < 2 ^ 32) :
    readSmpl (writeSmpl period i) = some (normInst i) := by
  have hs : 36 + i.loops.length * 24 < 2 ^ 32 := by omega
  have hn : i.loops.length < 2 ^ 32 := by omega
  have hb := wrapU32_lt i.basenote
  have hd : detuneEnc i.detune < 2 ^ 32 := wrapU32_lt _
  have hev : (36 + i.loops.length * 24) % 2 = 0 := by omega
  unfold readSmpl writeSmpl
  simp only [List.append_assoc]
  have e4 : (mk "smpl").length = 4 := by decide
  rw [drop_front_add (mk "smpl") _ 4 0 e4, drop_front_add (mk "smpl") _ 4 4 e4]
  simp only [List.drop_zero, take_front _ _ 4 (le4_length _), drop_front _ _ 4 (le4_length _), ofLE_le4 hs, hev, Nat.add_zero]
  have hlen : (le4 0 ++ (le4 0 ++ (le4 period ++ (le4 (wrapU 32 i.basenote) ++ (le4 (detuneEnc i.detune) ++ (le4 0 ++ (le4 0 ++
      (le4 i.loops.length ++ (le4 0 ++ serLoops 0 i.loops))))))))).length = 36 + i.loops.length * 24 := by
    simp [serLoops_length]; omega
  rw [List.take_of_length_le (Nat.le_of_eq hlen)]
  have hz : (0 : Nat) < 2 ^ 32 := by decide
  rw [if_neg (by omega)]
  simp [normInst, List.drop_append, ofLE_le4, List.drop_eq_nil_of_le, List.take_of_length_le, hl, *]
  by_cases h0 : i.loops = []
  · simp [h0]
  · rw [if_neg h0, parseLoops_serLoops i.loops hw _ 0 (by omega), List.take_of_length_le (by simpa using hl)]

def instSample : Inst := ⟨1, 60, 5, 0, 127, 0, 127, [⟨801, 1, 3, 7⟩, ⟨803, 2, 4, 0⟩]⟩

example : readSmpl (writeSmpl 22675 instSample) = some instSample ∧ normInst instSample = instSample := by decide +kernel

/-- the full statement for the instrument: what is set is what is returned -/
def inst_full : Prop := ∀ (i : Inst), i.loops.length ≤ 16 → -128 ≤ i.detune ∧ i.detune ≤ 127 → 0 ≤ i.keyLo ∧ i.keyLo ≤ i.keyHi ∧ i.keyHi ≤ 127 →
  readSmpl (writeSmpl 22675 i) = some i

/-- key (and velocity) ranges and the gain are not stored … -/
theorem inst_ranges_lost : ¬ inst_full := by
  intro h
  have := h { instSample with keyLo := 10, keyHi := 90 } (by decide) (by decide) (by decide)
  revert this; decide +kernel

/-- … and a negative detune comes back with the wrong sign: -50 cents re-open as +50 -/
theorem inst_detune_sign_lost : (normInst { instSample with detune := -50 }).detune = 50 ∧ (normInst { instSample with detune := 100 }).detune = 0 := by
  decide +kernel

/-- classes KF.smplRanges / KF.smplDetune: outside them (gain 1, full key and velocity ranges, detune 0 … 99, base note a
    char, loop modes from the SF_LOOP_* enum) the round trip is exact -/
theorem inst_roundtrip_partial (period : Nat) (i : Inst) (hp : period < 2 ^ 32) (hl : i.loops.length ≤ 16)
    (hw : ∀ l ∈ i.loops, l.start < 2 ^ 32 ∧ l.stop < 2 ^ 32 ∧ l.count < 2 ^ 32 ∧ (l.mode = 800 ∨ l.mode = 801 ∨ l.mode = 802 ∨ l.mode = 803))
    (hg : i.gain = 1) (hv : i.velLo = 0 ∧ i.velHi = 127) (hk : i.keyLo = 0 ∧ i.keyHi = 127)
    (hd : detuneDec (detuneEnc i.detune) = i.detune) (hb : -128 ≤ i.basenote ∧ i.basenote ≤ 127) :
    readSmpl (writeSmpl period i) = some i := by
  rw [inst_roundtrip period i hp hl (fun l hl' => ⟨(hw l hl').1, (hw l hl').2.1, (hw l hl').2.2.1⟩)]
  have hbn : wrapS 8 (wrapU 32 i.basenote) = i.basenote := by
    unfold wrapS wrapU
    obtain ⟨b1, b2⟩ := hb
    have h1 := Int.emod_emod_of_dvd i.basenote (show (2 ^ 8 : Int) ∣ 2 ^ 32 by decide)
    have h2 := Int.emod_nonneg i.basenote (show (2 ^ 32 : Int) ≠ 0 by decide)
    simp only [Int.toNat_of_nonneg h2, h1]
    omega
  have hm : i.loops.map normLoop = i.loops := by
    conv => rhs; rw [← List.map_id i.loops]
    apply List.map_congr_left
    intro l hl'
    obtain ⟨_, _, _, m⟩ := hw l hl'
    cases l
    rcases m with m | m | m | m <;> simp_all [normLoop, loopTypeEnc, loopTypeDec, SF_LOOP_FORWARD, SF_LOOP_BACKWARD, SF_LOOP_ALTERNATING, SF_LOOP_NONE]
  cases i
  simp_all [normInst]

/-- detune 0 … 99 is inside the exact region (checked on every value) -/
theorem detune_exact_range : ∀ d ∈ List.range 100, detuneDec (detuneEnc (d : Int)) = (d : Int) := by decide +kernel

/-! ## the string table -/

theorem init_inv (fl : Nat) : (Strings.init fl).Inv := by
  refine ⟨by simp [Strings.init], by simp [Strings.init, Strings.used], ?_⟩
  intro s hs hp
  simp only [Strings.init, List.mem_replicate] at hs
  rw [hs.2] at hp; simp [Slot.free] at hp

/-- `strings_store_inv`, one call: offsets stay inside the used part of the store and `used ≤ capacity`, whatever the
    mode, the type, the text and the outcome of the call -/
theorem store_inv (e : Env) (t : Strings) (ty : Int) (str : List Byte) (h : t.Inv) : (store e t ty str).2.Inv := by
  unfold store
  split; · exact h
  split; · exact h
  split; · exact h
  simp only
  split; · exact h
  split; · exact h
  split; · exact h
  split; · exact h
  split; · exact h
  obtain ⟨h1, h2, h3⟩ := h
  simp only [Strings.used] at h2 h3 ⊢
  generalize htext : (if (ty = 3 && isWriteMode e.mode) = true then softwareText e.pkgName e.pkgVersion str else str) = text
  refine ⟨by simp [markBefore_length, h1], ?_, ?_⟩
  · simp only [Strings.used, List.length_append, List.length_cons, List.length_nil] at h2 ⊢
    have := Nat.le_max_right 256 (2 * t.cap + (text.length + 1) + 1)
    by_cases hc : t.storage.length + (text.length + 1) + 1 > t.cap
    · rw [if_pos hc]; omega
    · rw [if_neg hc]; omega
  · intro s hs hp
    simp only [Strings.used, List.length_append, List.length_cons, List.length_nil] at h2 ⊢
    rcases List.mem_or_eq_of_mem_set hs with hs | hs
    · have hm := markBefore_live_mem ty _ t.slots s hs hp
      obtain ⟨a, b⟩ := h3 s hm hp
      refine ⟨by omega, ?_⟩
      rw [List.append_assoc, List.drop_append_of_le_length (by omega)]
      rw [cstr_append_of_lt _ _ (by simp only [List.length_drop]; omega)]
      omega
    · subst hs
      dsimp only
      refine ⟨by omega, ?_⟩
      rw [List.append_assoc, List.drop_left]
      have := cstr_terminated_le text []
      omega

/-- `strings_store_inv`: for every sequence of calls (any modes, types, texts; successful or refused) on a freshly opened
    handle, every live slot points at a text inside the used part of the store and `used ≤ capacity` -/
theorem strings_store_inv (fl : Nat) (calls : List (Env × Int × List Byte)) :
    (calls.foldl (fun t c => (store c.1 t c.2.1 c.2.2).2) (Strings.init fl)).Inv := by
  suffices ∀ t : Strings, t.Inv → (calls.foldl (fun t c => (store c.1 t c.2.1 c.2.2).2) t).Inv from this _ (init_inv fl)
  induction calls with
  | nil => intro t h; exact h
  | cons c cs ih => intro t h; exact ih _ (store_inv c.1 t c.2.1 c.2.2 h)

def envW : Env := ⟨.write, false, ascii "libsndfile", ascii "1.2.2"⟩

example : let t := (store envW (store envW (Strings.init 0x300) 1 (ascii "a")).2 1 (ascii "bc")).2
    get t 1 = some (ascii "bc") ∧ t.used = 5 ∧ t.cap = 256 ∧ (t.slots.take 3).map (·.type) = [-1, 1, 0] := by decide +kernel

/-- the software string: the suffix is appended unless the package name already occurs; nothing is cut (full strength since
    the repair of the 128-byte buffer) -/
theorem software_suffix (pn pv s : List Byte) (hs : s ≠ []) (hn : isInfix pn s = false) :
    softwareText pn pv s = s ++ [32, 40] ++ pn ++ [45] ++ pv ++ [41] := by
  unfold softwareText
  rw [if_neg (by simp [hn]), if_neg (by simpa using hs)]

example : (store envW (Strings.init 0x300) 3 (ascii "me")).2.storage = ascii "me (libsndfile-1.2.2)" ++ [0] := by decide +kernel

example : get (store envW (Strings.init 0x300) 3 (List.replicate 120 65)).2 3 = some (List.replicate 120 65 ++ ascii " (libsndfile-1.2.2)") := by
  decide +kernel

/-- before the repair the text went through `char new_str [128]`: a software string was cut to 127 bytes (and lost the suffix) -/
theorem software_truncated_old_rule :
    get (storeOld envW (Strings.init 0x300) 3 (List.replicate 120 65)).2 3 = some (List.replicate 120 65 ++ ascii " (libsn") := by decide +kernel

/-- a refused psf_store_string leaves the whole table as it was (full strength since the repair of the slot loop) -/
theorem store_refused_unchanged (e : Env) (t : Strings) (ty : Int) (str : List Byte) :
    (store e t ty str).1 ≠ 0 → (store e t ty str).2 = t := by
  unfold store
  split; · intro _; rfl
  split; · intro _; rfl
  split; · intro _; rfl
  simp only
  split; · intro _; rfl
  split; · intro _; rfl
  split; · intro _; rfl
  split; · intro _; rfl
  split; · intro _; rfl
  intro h; simp at h

/-- the 33rd call on a handle is refused and, since the repair, the value the type had is still there -/
example :
    let full := (List.range 32).foldl (fun t k => (store envW t 1 [65 + k]).2) (Strings.init 0x300)
    get full 1 = some [96] ∧ (store envW full 1 [66]).1 = SFE_STR_MAX_COUNT ∧ get (store envW full 1 [66]).2 1 = some [96] := by decide +kernel

/-- before the repair a refused call could still erase: the 33rd sf_set_string failed with SFE_STR_MAX_COUNT *after* the slot loop
    had marked the existing entry of that type as replaced -/
theorem refused_set_erases_old_rule :
    let full := (List.range 32).foldl (fun t k => (storeOld envW t 1 [65 + k]).2) (Strings.init 0x300)
    get full 1 = some [96] ∧ (storeOld envW full 1 [66]).1 = SFE_STR_MAX_COUNT ∧ get (storeOld envW full 1 [66]).2 1 = none := by decide +kernel

/-- … and `sf_set_string (sf, 0, …)` marked every free slot, so that no later string could be stored -/
theorem type_zero_bricks_table_old_rule :
    (storeOld envW (storeOld envW (Strings.init 0x300) 0 [65]).2 1 [66]).1 = SFE_STR_MAX_COUNT ∧
    (store envW (store envW (Strings.init 0x300) 0 [65]).2 1 [66]).1 = 0 := by decide +kernel

/-! ## calls that come too late or that the container cannot store -/

def Op.isAudio : Op → Bool
  | .writeAudio _ => true
  | _ => false

/-- the result code says "refused" (`sf_set_string`: non-zero; `sf_command`: SF_FALSE) -/
def refused : Op → Nat → Bool
  | .setString _ _, r => r ≠ 0
  | .writeAudio _, _ => false
  | _, r => r = 0

/-- `late_or_unsupported_is_harmless` (model level, full strength since the repair of the string-table slot loop): a metadata
    call never touches the audio bytes; when it is refused — because audio has been written, because the container has no
    place for the item, or because its size fields are inconsistent — the whole handle state is what it was: strings of
    every type, bext, cart, cue points and instrument -/
theorem late_or_unsupported_is_harmless (pn pv : List Byte) (h : MetaState) (op : Op) (hop : op.isAudio = false) :
    (step pn pv h op).2.audio = h.audio ∧ (step pn pv h op).2.haveWritten = h.haveWritten ∧
    (refused op (step pn pv h op).1 = true →
      (step pn pv h op).2.bext = h.bext ∧ (step pn pv h op).2.cart = h.cart ∧ (step pn pv h op).2.cues = h.cues ∧
      (step pn pv h op).2.inst = h.inst ∧ (step pn pv h op).2.strings = h.strings) := by
  cases op with
  | writeAudio b => simp [Op.isAudio] at hop
  | setString ty s =>
    simp only [step]
    split
    · simp
    · refine ⟨rfl, rfl, ?_⟩
      intro hr
      refine ⟨rfl, rfl, rfl, rfl, ?_⟩
      simp only [refused, decide_eq_true_eq] at hr
      exact store_refused_unchanged _ _ _ _ hr
  | setBext line b d ds => simp only [step]; (repeat' split) <;> simp [refused]
  | setCart j c d ds => simp only [step]; (repeat' split) <;> simp [refused]
  | setCues cs => simp only [step]; (repeat' split) <;> simp [refused]
  | setInst i => simp only [step]; (repeat' split) <;> simp [refused]

/-- non-vacuity: bext on an AIFF handle is refused, bext after the audio is refused; a string after the audio is accepted -/
example : (step [] [] (MetaState.open .aiff) (.setBext [] bextSample 6 614)).1 = 0 ∧
    (step [] [] (step [] [] (MetaState.open .wav) (.writeAudio [1, 2])).2 (.setBext [] bextSample 6 614)).1 = 0 ∧
    (step [] [] (step [] [] (MetaState.open .wav) (.writeAudio [1, 2])).2 (.setString 1 [65])).1 = 0 ∧
    (step [] [] (MetaState.open .w64) (.setString 1 [65])).1 = SFE_STR_NO_SUPPORT := by decide +kernel

/-- since the repair: once audio has been written no SFC_SET_BROADCAST_INFO changes the size of the bext chunk, so the header
    that precedes the audio keeps its length (a block of another size is refused, the block set before is kept) -/
theorem late_bext_keeps_size (pn pv : List Byte) (h : MetaState) (line : List Byte) (b : Bext) (d ds : Nat) (hw : h.haveWritten = true) :
    ((step pn pv h (.setBext line b d ds)).2.bext.map fun o => o.history.length) = h.bext.map fun o => o.history.length := by
  simp only [step]
  split; · rfl
  split; · rfl
  split; · rfl
  split; · rfl
  split; · rfl
  split; · rfl
  rename_i hsz
  simp only [hw, true_and, ne_eq, Decidable.not_not] at hsz
  simp [hsz]

/-- … and likewise for the cart chunk -/
theorem late_cart_keeps_size (pn pv : List Byte) (h : MetaState) (j : Byte) (c : Cart) (d ds : Nat) (hw : h.haveWritten = true) :
    ((step pn pv h (.setCart j c d ds)).2.cart.map fun o => o.tag.length) = h.cart.map fun o => o.tag.length := by
  simp only [step]
  split; · rfl
  split; · rfl
  split; · rfl
  split; · rfl
  split; · rfl
  split; · rfl
  rename_i hsz
  simp only [hw, true_and, ne_eq, Decidable.not_not] at hsz
  simp [hsz]

/-- before the repair a second block after the audio was accepted whatever its size: the header grew over the audio -/
theorem late_grow_old_rule :
    let h1 := (step [] [] (step [] [] (MetaState.open .wav) (.setBext [] bextSample 6 614)).2 (.writeAudio [1, 2, 3, 4])).2
    let big : Bext := { bextSample with history := ascii "a much longer coding history line\r\n" }
    (stepOld [] [] h1 (.setBext [] big 35 643)).1 = 1 ∧
    ((stepOld [] [] h1 (.setBext [] big 35 643)).2.bext.map fun o => o.history.length) = some 36 ∧ (h1.bext.map fun o => o.history.length) = some 8 ∧
    (step [] [] h1 (.setBext [] big 35 643)).1 = 0 ∧
    (step [] [] h1 (.setBext [] { bextSample with timeLow := 77 } 6 614)).1 = 1 := by decide +kernel

/-- SFC_SET_CUE: the later call wins (since the repair); before, the second call reported success and kept the first set -/
theorem set_cue_last_wins (pn pv : List Byte) (h : MetaState) (cs : List Cue) (hw : h.haveWritten = false) :
    (step pn pv h (.setCues cs)).1 = 1 ∧ (step pn pv h (.setCues cs)).2.cues = some cs := by
  simp [step, hw]

theorem second_set_cue_old_rule :
    let h1 := (stepOld [] [] (MetaState.open .wav) (.setCues [⟨1, 10, 0, 0, 0, 10, []⟩])).2
    (stepOld [] [] h1 (.setCues [⟨2, 20, 0, 0, 0, 20, []⟩])).1 = 1 ∧
    (stepOld [] [] h1 (.setCues [⟨2, 20, 0, 0, 0, 20, []⟩])).2.cues = some [⟨1, 10, 0, 0, 0, 10, []⟩] := by decide +kernel

example : (step [] [] (step [] [] (MetaState.open .wav) (.setCues [⟨1, 10, 0, 0, 0, 10, []⟩])).2 (.setCues [⟨2, 20, 0, 0, 0, 20, []⟩])).2.cues
    = some [⟨2, 20, 0, 0, 0, 20, []⟩] := by decide +kernel

end Sf.Meta
