/-
  C01 / C04 (CAF/ALAC) — the BER integers of the packet table at their case splits, and what they mean for the file:
  -- properties: C01 C04
  * `berEnc v` IS the big-endian base-128 numeral of v: its digits evaluate to v, every byte but the last carries the
    continuation bit, the last does not, there is no leading zero digit (so the cases 128 / 16384 / 2^21 are the first values with
    two / three / four bytes, `berEnc_boundaries`);
  * only the size 0 is written as the lone zero byte the reader takes for the end of the table (`berEnc_terminator_iff`);
  * therefore the reader counts EVERY packet of a closed file (`reopen_counts_every_packet`): no frame behind a packet of 128,
    16384, … bytes is lost.
  Model: SfModel/AlacFile.lean; the round trip itself is Sf.C04Alac.paktDecode_paktEncode.  The campaign steers real packets to
  127 / 128 / 129 and 16383 / 16384 / 16385 bytes (vlib/alac.py `boundary_campaign`).
-/
import SfModel.AlacFile
import SfProps.C04Alac
namespace Sf.C04AlacBer
open Sf Sf.Alac Sf.C04Alac

/-- value of a base-128 numeral, most significant digit first (what `alac_pakt_read_decode` accumulates) -/
def berVal (bs : List Byte) : Nat := bs.foldl (fun a b => a * 128 + b % 128) 0

/-- every byte but the last has bit 7 set, the last has it clear -/
def flagsOk : List Byte → Bool
  | [] => false
  | [b] => b < 128
  | b :: rest => 128 ≤ b && b < 256 && flagsOk rest

theorem nm1 (v : Nat) (_h : v < 0x80) : (0 * 128 + v % 128 = v) ∧ v < 128 := by omega
theorem nm2 (v : Nat) (h0 : ¬ v < 0x80) (h : v < 0x4000) :
    ((0 * 128 + (v / 128 + 128) % 128) * 128 + v % 128 % 128 = v) ∧
    ((128 ≤ v / 128 + 128 ∧ v / 128 + 128 < 256) ∧ v % 128 < 128) ∧ (v / 128 + 128) % 128 ≠ 0 := by omega
theorem nm3 (v : Nat) (h0 : ¬ v < 0x4000) (h : v < 0x200000) :
    (((0 * 128 + (v / 16384 + 128) % 128) * 128 + (v / 128 % 128 + 128) % 128) * 128 + v % 128 % 128 = v) ∧
    ((128 ≤ v / 16384 + 128 ∧ v / 16384 + 128 < 256) ∧ (128 ≤ v / 128 % 128 + 128 ∧ v / 128 % 128 + 128 < 256) ∧ v % 128 < 128) ∧
    (v / 16384 + 128) % 128 ≠ 0 := by omega
theorem nm4 (v : Nat) (h0 : ¬ v < 0x200000) (h : v < 0x10000000) :
    ((((0 * 128 + (v / 2097152 + 128) % 128) * 128 + (v / 16384 % 128 + 128) % 128) * 128 + (v / 128 % 128 + 128) % 128) * 128 + v % 128 % 128 = v) ∧
    ((128 ≤ v / 2097152 + 128 ∧ v / 2097152 + 128 < 256) ∧ (128 ≤ v / 16384 % 128 + 128 ∧ v / 16384 % 128 + 128 < 256) ∧
      (128 ≤ v / 128 % 128 + 128 ∧ v / 128 % 128 + 128 < 256) ∧ v % 128 < 128) ∧
    (v / 2097152 + 128) % 128 ≠ 0 := by omega

/-- the numeral of v: value, continuation flags, no leading zero digit -/
theorem berEnc_spec (v : Nat) (bs : List Byte) (h : berEnc v = some bs) :
    berVal bs = v ∧ flagsOk bs = true ∧ (1 < bs.length → bs.headD 0 % 128 ≠ 0) := by
  unfold berEnc at h
  have tac1 : ∀ (l : List Byte), bs = l → (berVal l = v ∧ flagsOk l = true ∧ (1 < l.length → l.headD 0 % 128 ≠ 0)) →
      berVal bs = v ∧ flagsOk bs = true ∧ (1 < bs.length → bs.headD 0 % 128 ≠ 0) := by
    intro l e hl; subst e; exact hl
  split at h
  · rename_i h1
    refine tac1 _ (Option.some.inj h).symm ⟨?_, ?_, ?_⟩
    · simp only [berVal, List.foldl]; exact (nm1 v h1).1
    · simp only [flagsOk, decide_eq_true_eq]; exact (nm1 v h1).2
    · intro hh; simp at hh
  split at h
  · rename_i h0 h1
    refine tac1 _ (Option.some.inj h).symm ⟨?_, ?_, ?_⟩
    · simp only [berVal, List.foldl]; exact (nm2 v h0 h1).1
    · simp only [flagsOk, Bool.and_eq_true, decide_eq_true_eq]; exact (nm2 v h0 h1).2.1
    · intro _; simp only [List.headD]; exact (nm2 v h0 h1).2.2
  split at h
  · rename_i h0 h1
    refine tac1 _ (Option.some.inj h).symm ⟨?_, ?_, ?_⟩
    · simp only [berVal, List.foldl]; exact (nm3 v h0 h1).1
    · simp only [flagsOk, Bool.and_eq_true, decide_eq_true_eq]; exact (nm3 v h0 h1).2.1
    · intro _; simp only [List.headD]; exact (nm3 v h0 h1).2.2
  split at h
  · rename_i h0 h1
    refine tac1 _ (Option.some.inj h).symm ⟨?_, ?_, ?_⟩
    · simp only [berVal, List.foldl]; exact (nm4 v h0 h1).1
    · simp only [flagsOk, Bool.and_eq_true, decide_eq_true_eq]; exact (nm4 v h0 h1).2.1
    · intro _; simp only [List.headD]; exact (nm4 v h0 h1).2.2
  · cases h

/-- the number of bytes is the number of base-128 digits of v -/
theorem berEnc_digits (v : Nat) (bs : List Byte) (h : berEnc v = some bs) :
    (bs.length = 1 ↔ v < 128) ∧ (bs.length = 2 ↔ 128 ≤ v ∧ v < 16384) ∧ (bs.length = 3 ↔ 16384 ≤ v ∧ v < 2097152) ∧
    (bs.length = 4 ↔ 2097152 ≤ v ∧ v < 268435456) := by
  unfold berEnc at h
  split at h
  · cases h; simp; omega
  split at h
  · cases h; simp; omega
  split at h
  · cases h; simp; omega
  split at h
  · cases h; simp; omega
  · cases h

/-- the lone zero byte — the reader's end-of-table mark — is written for the size 0 and for no other -/
theorem berEnc_terminator_iff (v : Nat) : berEnc v = some [0] ↔ v = 0 := by
  constructor
  · intro h
    have := (berEnc_spec v [0] h).1
    simpa [berVal] using this.symm
  · intro h; subst h; decide

/-- both sides of every case split, byte for byte -/
theorem berEnc_boundaries :
    berEnc 127 = some [0x7f] ∧ berEnc 128 = some [0x81, 0x00] ∧ berEnc 129 = some [0x81, 0x01] ∧
    berEnc 16383 = some [0xff, 0x7f] ∧ berEnc 16384 = some [0x81, 0x80, 0x00] ∧ berEnc 16385 = some [0x81, 0x80, 0x01] ∧
    berEnc 2097151 = some [0xff, 0xff, 0x7f] ∧ berEnc 2097152 = some [0x81, 0x80, 0x80, 0x00] ∧
    berEnc 268435455 = some [0xff, 0xff, 0xff, 0x7f] ∧ berEnc 268435456 = none := by decide

/-- `alac_reader_calc_frames` counts every entry of a table of positive sizes below the file length, with or without the
    extra zero entry of a padded chunk -/
theorem countBlocks_all (fl : Nat) : ∀ (sizes : List Nat) (tail : List Nat), (∀ s ∈ sizes, 0 < s ∧ s < fl) →
    (tail = [] ∨ tail = [0]) → countBlocks fl (sizes ++ tail) = sizes.length := by
  intro sizes
  induction sizes with
  | nil =>
    intro tail _ ht
    rcases ht with rfl | rfl <;> simp [countBlocks]
  | cons s rest ih =>
    intro tail hs ht
    have h1 := hs s (by simp)
    have hr : ∀ x ∈ rest, 0 < x ∧ x < fl := fun x hx => hs x (by simp [hx])
    simp only [List.cons_append, countBlocks, List.length_cons]
    rw [if_neg (by omega), if_pos h1.2, ih tail hr ht]; omega

/-- C04 / C01 for the packet table as stored: whatever the sizes of the packets (1 … 2^28 − 1, below the file length), the
    reader finds all of them — `blocks` of alac_reader_calc_frames is the number of packets written -/
theorem reopen_counts_every_packet (sizes : List Nat) (frames saved fl : Nat) (chunk : List Byte)
    (h : paktEncode sizes frames saved = some chunk) (hs : ∀ s ∈ sizes, 0 < s ∧ s < fl) :
    countBlocks fl (paktDecode (chunk ++ zeros (pad4 chunk.length))) = sizes.length := by
  rw [paktDecode_paktEncode sizes frames saved chunk h (fun s hx => (hs s hx).1)]
  apply countBlocks_all fl sizes _ hs
  split <;> simp

/-- non-vacuity: a table with packets of 128, 16384 and 127 bytes in a file of 20000 bytes; and a coder that wrote 128 as a lone
    zero byte (0x80 & 0x7f) would make the reader stop in front of that packet -/
example : (paktEncode [128, 16384, 127] 8252 60).isSome = true ∧
    countBlocks 20000 (paktDecode ((paktEncode [128, 16384, 127] 8252 60).getD [] ++ zeros 2)) = 3 ∧
    countBlocks 20000 (paktDecode (paktHeader 3 8252 60 ++ [0x00, 0x81, 0x80, 0x00, 0x7f])) = 0 := by
  refine ⟨?_, ?_, ?_⟩ <;> decide +kernel

end Sf.C04AlacBer
