/-
  C19 — SFC_TEST_IEEE_FLOAT_REPLACE on one handle never changes which float code ANOTHER handle runs, whatever was opened or
  switched before: with the rule of the code the path of a handle is a function of its own flag.  Model: SfModel/CapsWorld.lean;
  campaign vlib/cmdreach.py (every SFC_* command on a handle A, then B is opened: B's transcript = B's transcript without A).
-/
import SfModel.CapsWorld
namespace Sf.C19Caps
open Sf Sf.CapsWorld

/-- the code: the static is dead across calls -/
theorem init_ignores_static (st st' : Caps) (f : Bool) : (init .probeAlways st f).2 = (init .probeAlways st' f).2 := rfl

theorem step_path_self (w : W) (i : Nat) : ((step .probeAlways w (.open i)).path i) = .host ∧
    ∀ on, (step .probeAlways w (.replace i on)).path i = probe on := by
  refine ⟨by simp [step, init, probe], fun on => by simp [step, init]⟩

theorem step_path_other (r : Rule) (w : W) (ev : Ev) (j : Nat) (hj : ∀ i, (ev = .open i ∨ ∃ on, ev = .replace i on) → i ≠ j) :
    (step r w ev).path j = w.path j ∧ (step r w ev).flag j = w.flag j := by
  cases ev with
  | «open» i => have := hj i (Or.inl rfl); simp [step, Ne.symm this]
  | replace i on => have := hj i (Or.inr ⟨on, rfl⟩); simp [step, Ne.symm this]

/-- the invariant of the code's rule: every handle that has a path has the path of its own flag -/
def Own (w : W) : Prop := ∀ j, w.path j = .unknown ∨ w.path j = probe (w.flag j)

theorem own_step (w : W) (h : Own w) (ev : Ev) : Own (step .probeAlways w ev) := by
  intro j
  cases ev with
  | «open» i =>
    by_cases hj : j = i
    · subst hj; right; simp [step, init, probe]
    · have := h j; simpa [step, hj] using this
  | replace i on =>
    by_cases hj : j = i
    · subst hj; right; simp [step, init]
    · have := h j; simpa [step, hj] using this

/-- **history independence**: after ANY sequence of opens and switches (on any handles), a handle opened now runs the host code -/
theorem open_after_any_history (evs : List Ev) (w : W) (i : Nat) :
    (run .probeAlways w (evs ++ [.open i])).path i = .host := by
  simp [run, List.foldl_append, step, init, probe]

theorem own_run (evs : List Ev) (w : W) (h : Own w) : Own (run .probeAlways w evs) := by
  induction evs generalizing w with
  | nil => exact h
  | cons ev evs ih => exact ih _ (own_step w h ev)

/-- **the caching rule**: handle 0 sets the switch, handle 1 is opened afterwards with its own flag off — and runs the portable code -/
theorem cache_rule_leaks_across_handles :
    (run .cacheUnlessReplace {} [.open 0, .replace 0 true, .open 1]).path 1 = .portable ∧
    (run .cacheUnlessReplace {} [.open 0, .replace 0 true, .open 1]).flag 1 = false ∧
    (run .cacheUnlessReplace {} [.open 1]).path 1 = .host ∧
    (run .probeAlways {} [.open 0, .replace 0 true, .open 1]).path 1 = .host := by
  refine ⟨by decide, by decide, by decide, by decide⟩

/-- … and the two paths store different bytes for +Inf (0x7F800000): the portable writer has no encoding for it -/
theorem paths_differ_on_infinity : storeLE .host 0x7F800000 = [0x00, 0x00, 0x80, 0x7F] ∧ storeLE .portable 0x7F800000 ≠ storeLE .host 0x7F800000 := by
  refine ⟨by decide, by decide⟩

example : Own ({} : W) := fun _ => Or.inl rfl

end Sf.C19Caps
