-- properties: C04 C11
/-
  C04 / C11 — WAVEX files (SfModel/Wavex.lean), sample-granular encodings, write side.  Property theorems only
  (helpers: SfProofs/WavexSession.lean).  `image c N pk data = hdr c N pk ++ data ++ tail c N` is the closed file.
-/
import SfProofs.WavexSession
namespace Sf.C04Wavex
open Sf Sf.Wavex

/-- the header is 80 bytes, plus 16 + 8·channels for the PEAK chunk of float / double files, whatever lengths and peaks
    are written into it; the closed file is header, audio and one zero byte exactly when the audio ends on an odd offset -/
theorem wavex_header_length (c : Cfg) (n : Nat) (pk : List Peak) (data : List Byte)
    (hpk : isFloat c.codec = true → pk.length = c.ch) (hd : data.length = n * c.bw) :
    (hdr c n pk).length = hdrLen c ∧ (image c n pk data).length = hdrLen c + data.length + (hdrLen c + data.length) % 2 ∧
    (image c n pk data).length % 2 = 0 := by
  have h1 : (hdr c n pk).length = hdrLen c := hdrRaw_length c _ _ _ _ hpk
  have h4 : (tail c n).length = (hdrLen c + data.length) % 2 := by
    unfold tail; rw [hd]
    by_cases h : (hdrLen c + n * c.bw) % 2 = 1
    · simp [h]
    · simp [h]; omega
  refine ⟨h1, ?_, ?_⟩ <;> simp [image, h1, h4] <;> omega

/-- `stale_frames_ignored` for WAVEX: the closed file of any valid session is `image c N pk data` — no stale value, no trace
    of how the frames were split or of header updates — and the header written by sf_open does not depend on it either -/
theorem stale_frames_ignored_wavex (c : Cfg) (stale : Int) (ops : List Op) (hv : ∀ op ∈ ops, op.valid c) :
    (close c (run c (openW c stale) ops)).bytes = image c (sessFrames ops) (sessPeaks c ops) (sessData ops) ∧
    (openW c stale).bytes = (openW c 0).bytes := by
  have i := run_inv ops (openW_inv c stale) hv
  refine ⟨?_, rfl⟩
  simpa [sessPeaks] using close_bytes i

/-- C11 `snapshot_valid` for WAVEX: when SFC_UPDATE_HEADER_NOW returns the store is `hdrSnap c N_k pk_k` — the header whose
    RIFF size, fact count and data size describe exactly the frames written so far — followed by exactly their bytes -/
theorem snapshot_valid_wavex (c : Cfg) (stale : Int) (ops : List Op) (hv : ∀ op ∈ ops, op.valid c) :
    (step c (run c (openW c stale) ops) .update).bytes = hdrSnap c (sessFrames ops) (sessPeaks c ops) ++ sessData ops := by
  have i := run_inv ops (openW_inv c stale) hv
  have := (writeHeader_inv i true).2.1 rfl
  simpa [step, sessPeaks] using this

/-- …and in auto mode every write call that transferred something ends in such a crash point -/
theorem auto_write_is_snapshot_wavex (c : Cfg) (stale : Int) (ops : List Op) (hv : ∀ op ∈ ops, op.valid c)
    (k : Nat) (data : List Byte) (p : List Peak) (hk : k ≠ 0) (hd : data.length = k * c.bw) (hp : p.length = c.ch)
    (hauto : (run c (openW c stale) ops).auto = true) :
    (step c (run c (openW c stale) ops) (.write k data p)).bytes =
      hdrSnap c (sessFrames ops + k) (sessPeaks c (ops ++ [.write k data p])) ++ (sessData ops ++ data) := by
  have i := run_inv ops (openW_inv c stale) hv
  have := (step_inv i (.write k data p) ⟨hd, hp⟩).2 k data p rfl hk hauto
  simpa [sessPeaks, List.foldl_append] using this

/-- a float session (RIFF, 1 channel): 3 frames in two calls around an update, auto mode on; 104 + 12 bytes, fact = 3 -/
def exCfg : Cfg := { codec := 0x06, endian := 0, ch := 1, sr := 8000 }
def exOps : List Op :=
  [.write 1 [0, 0, 0, 63] [{ value := 0x3FE0000000000000, position := 0 }], .update, .auto true,
   .write 2 [0, 0, 128, 63, 0, 0, 0, 0] [{ value := 0x3FF0000000000000, position := 1 }]]
example : exCfg.wf ∧ (∀ op ∈ exOps, op.valid exCfg) ∧ sessFrames exOps = 3 ∧
    (close exCfg (run exCfg (openW exCfg 99999) exOps)).bytes.length = 104 + 12 ∧
    ofLE (((close exCfg (run exCfg (openW exCfg 99999) exOps)).bytes.drop 4).take 4) = 108 ∧
    ofLE (((close exCfg (run exCfg (openW exCfg 99999) exOps)).bytes.drop 68).take 4) = 3 := by decide +kernel

end Sf.C04Wavex
