/-
  C07 for G.721 / G.723 (src/g72x.c + src/G72x/*.c) on the bit-exact model of SfModel/G72x.lean, G72xFile.lean: the
  generic block-writer theorems of SfProps/C07Block.lean instantiated with the REAL encoder (`Sf.G72x.encodeBlock`,
  predictor state carried across blocks).  Property theorems only; helpers in SfProofs/G72x.lean, SfProofs/BlockWriter.lean.

  * `g72x_write_is_fold`        any sequence of write calls of any caller types (4096-item staging for int / float /
                                 double, none for short) is the per-sample fold `pushFrame` over the converted shorts
  * `g72x_write_partition`      the closed data region depends only on the concatenated converted shorts: ∀ rates,
                                 ∀ conversion settings, ∀ sample sequences, ∀ splits into calls, ∀ caller types
  * `g72x_write_partition_typed` … in particular two call lists with the same (type, value) sequence
  * `g72x_closed_length`        the data region of a session of N samples is ⌈N/120⌉ whole blocks
  * `g72x_frames_at_reopen`     N ≤ F < N + 120 for the frame count a reader computes from those bytes

  For one channel the item and the frame variant of a write call are the same call (count = frames), so the theorems
  cover both.
-/
import SfProofs.G72x
import SfProps.C07Block
namespace Sf.C07G72x
open Sf Sf.G72x Sf.G72x.Proofs Sf.Block Sf.Block.Proofs Sf.C07Block

/-- the shorts the codec is handed by a list of calls -/
def shorts (cv : Conv) (calls : List (Ty × List Int)) : List Int := calls.flatMap fun c => c.2.map (toCodec cv c.1)

/-- one-channel frames of a list of items -/
def frames1 (xs : List Int) : List (List Int) := xs.map fun x => [x]

theorem frames1_flatten (xs : List Int) : (frames1 xs).flatten = xs := by
  induction xs with
  | nil => rfl
  | cons x xs ih => simp [frames1] at ih ⊢; exact ih

theorem frames1_uniform (xs : List Int) : Uniform 1 (frames1 xs) := by
  intro f hf
  simp [frames1] at hf
  obtain ⟨a, _, rfl⟩ := hf
  rfl

theorem g72x_writer_wf (r : Rate) : WWF (writer r) := ⟨by show 0 < 120; omega, by show 0 < 1; omega⟩

theorem g72x_init_inv (r : Rate) : WInv (writer r) ((writer r).init St.init) := init_inv_w _ (g72x_writer_wf r) _

/-- **any session is the per-sample fold**: every call of every caller type, whatever its staging pieces are, stores
    its converted shorts one by one, encoding a block each time 120 are there -/
theorem g72x_write_is_fold (r : Rate) (cv : Conv) (calls : List (Ty × List Int)) (st : WState St) (inv : WInv (writer r) st) :
    calls.foldl (fun st c => writeCall r cv c.1 st c.2) st = (frames1 (shorts cv calls)).foldl (pushFrame (writer r)) st ∧
      WInv (writer r) ((frames1 (shorts cv calls)).foldl (pushFrame (writer r)) st) := by
  let calls2 : List (Nat × List (List Int)) := calls.map fun c => (if c.1 = .s16 then 0 else 4096, frames1 (c.2.map (toCodec cv c.1)))
  have h := block_writer_calls_fold (writer r) (g72x_writer_wf r) calls2 st inv (by
    intro c hc
    obtain ⟨d, _, rfl⟩ := List.mem_map.mp hc
    exact frames1_uniform _)
  have e1 : calls2.foldl (fun st c => wcall (writer r) (c.1 * (writer r).ch) st c.2.flatten) st =
      calls.foldl (fun st c => writeCall r cv c.1 st c.2) st := by
    simp only [calls2, List.foldl_map]
    congr 1
    funext s c
    simp only [frames1_flatten, wcall, writeCall, chunkOf, chunkLen, writer, Nat.mul_one]
  have e2 : calls2.flatMap (·.2) = frames1 (shorts cv calls) := by
    simp only [calls2, shorts, frames1, List.flatMap_map, List.map_flatMap]
  rw [← e1, ← e2]
  exact h

/-- **write-partition independence (full strength)**: the closed data region is a function of the concatenated
    converted shorts only -/
theorem g72x_write_partition (r : Rate) (cv : Conv) (calls1 calls2 : List (Ty × List Int))
    (h : shorts cv calls1 = shorts cv calls2) : closedBytes r cv calls1 = closedBytes r cv calls2 := by
  unfold closedBytes
  rw [(g72x_write_is_fold r cv calls1 _ (g72x_init_inv r)).1, (g72x_write_is_fold r cv calls2 _ (g72x_init_inv r)).1, h]

/-- the bytes of any session are the bytes of ONE call of shorts with the concatenation -/
theorem g72x_closed_bytes_single (r : Rate) (cv : Conv) (calls : List (Ty × List Int)) :
    closedBytes r cv calls = closedBytes r cv [(.s16, shorts cv calls)] := by
  apply g72x_write_partition
  have hid : toCodec cv Ty.s16 = id := by funext v; rfl
  simp [shorts, hid]

/-- the (type, value) sequence of a session -/
def tagged (calls : List (Ty × List Int)) : List (Ty × Int) := calls.flatMap fun c => c.2.map fun v => (c.1, v)

theorem shorts_of_tagged (cv : Conv) (calls : List (Ty × List Int)) :
    shorts cv calls = (tagged calls).map fun p => toCodec cv p.1 p.2 := by
  simp [shorts, tagged, List.map_flatMap, Function.comp_def]

/-- the same values of the same types, split into calls in any two ways: identical bytes -/
theorem g72x_write_partition_typed (r : Rate) (cv : Conv) (calls1 calls2 : List (Ty × List Int))
    (h : tagged calls1 = tagged calls2) : closedBytes r cv calls1 = closedBytes r cv calls2 :=
  g72x_write_partition r cv calls1 calls2 (by rw [shorts_of_tagged, shorts_of_tagged, h])

/-- non-vacuity: 130 samples (more than a block) as 1 + 128 + 1 of three caller types against one call of shorts -/
example : closedBytes g721 {} [(.s16, [1000]), (.s32, List.replicate 128 (2000 * 65536 + 77)), (.s16, [-3000])] =
    closedBytes g721 {} [(.s16, [1000] ++ List.replicate 128 2000 ++ [-3000])] := by
  apply g72x_write_partition
  decide

example : (closedBytes g723_24 {} [(.s16, [1000, -2000, 30000])]).length = 45 := by decide +kernel

/-! ## geometry of the closed data region -/

/-- state of the writer after `m` samples: position in the block, number of blocks out, each `blockBytes` long -/
structure Geo (r : Rate) (st : WState St) (m : Nat) : Prop where
  cnt : st.cnt = m % blockSamples
  out : st.out.length = m / blockSamples
  len : ∀ b ∈ st.out, b.length = r.blockBytes
  buf : st.buf.length = blockSamples

theorem encodeBlock_length (r : Rate) (hb : r.bits ≤ 8) (st : St) (buf : List Int) (h : buf.length = blockSamples) :
    (encodeBlock r st buf).2.length = r.blockBytes := by
  simp only [encodeBlock, pack]
  rw [packLoop_length r.bits hb _ 0 0 (by decide), encodeList_length, h, Rate.blockBytes, Nat.mul_comm]
  simp

theorem pushFrame_geo (r : Rate) (hb : r.bits ≤ 8) (st : WState St) (m : Nat) (g : Geo r st m) (x : Int) :
    Geo r (pushFrame (writer r) st [x]) (m + 1) := by
  have hc := g.cnt
  have hlt : m % blockSamples < blockSamples := Nat.mod_lt _ (by decide)
  have hbuf : (overwrite st.buf (st.cnt * 1) [x] 1).length = blockSamples := by
    rw [overwrite_length _ _ _ _ (by rw [g.buf, hc]; omega) (by simp), g.buf]
  unfold pushFrame
  simp only
  split
  · rename_i hfull0
    have hfull : st.cnt + 1 ≥ blockSamples := hfull0
    have h119 : m % blockSamples = blockSamples - 1 := by omega
    refine ⟨?_, ?_, ?_, ?_⟩
    · show 0 = (m + 1) % blockSamples
      simp only [blockSamples] at h119 ⊢; omega
    · show (_ :: st.out).length = (m + 1) / blockSamples
      rw [List.length_cons, g.out]
      simp only [blockSamples] at h119 ⊢; omega
    · intro b hbm
      simp only [Writer.emit] at hbm
      rcases List.mem_cons.mp hbm with h | h
      · rw [h]; exact encodeBlock_length r hb _ _ hbuf
      · exact g.len b h
    · exact hbuf
  · rename_i hfull0
    have hfull : ¬ st.cnt + 1 ≥ blockSamples := hfull0
    refine ⟨?_, ?_, g.len, hbuf⟩
    · show st.cnt + 1 = (m + 1) % blockSamples
      simp only [blockSamples] at hc hfull ⊢; omega
    · show st.out.length = (m + 1) / blockSamples
      rw [g.out]
      simp only [blockSamples] at hc hfull ⊢; omega

theorem fold_geo (r : Rate) (hb : r.bits ≤ 8) : ∀ (xs : List Int) (st : WState St) (m : Nat), Geo r st m →
    Geo r ((frames1 xs).foldl (pushFrame (writer r)) st) (m + xs.length) := by
  intro xs
  induction xs with
  | nil => intro st m g; exact g
  | cons x xs ih =>
    intro st m g
    have := ih _ (m + 1) (pushFrame_geo r hb st m g x)
    simp only [frames1, List.map_cons, List.foldl_cons, List.length_cons] at this ⊢
    rw [show m + (xs.length + 1) = m + 1 + xs.length by omega]
    exact this

theorem flatten_length_const {α : Type} (n : Nat) : ∀ (l : List (List α)), (∀ b ∈ l, b.length = n) → l.flatten.length = l.length * n := by
  intro l
  induction l with
  | nil => intro _; simp
  | cons a l ih =>
    intro h
    rw [List.flatten_cons, List.length_append, h a (by simp), ih (fun b hb => h b (by simp [hb])), List.length_cons, Nat.succ_mul]
    omega

/-- **geometry**: a session of N samples (any calls, any types) leaves ⌈N / 120⌉ whole blocks in the data region -/
theorem g72x_closed_length (r : Rate) (hb : r.bits ≤ 8) (cv : Conv) (calls : List (Ty × List Int)) :
    (closedBytes r cv calls).length = ((shorts cv calls).length + (blockSamples - 1)) / blockSamples * r.blockBytes := by
  unfold closedBytes
  rw [(g72x_write_is_fold r cv calls _ (g72x_init_inv r)).1]
  have g0 : Geo r ((writer r).init St.init) 0 := ⟨rfl, rfl, by intro b hb; simp [Writer.init] at hb, by simp [Writer.init, writer, zeros]⟩
  have g := fold_geo r hb (shorts cv calls) _ 0 g0
  rw [Nat.zero_add] at g
  generalize (frames1 (shorts cv calls)).foldl (pushFrame (writer r)) ((writer r).init St.init) = st at g
  generalize (shorts cv calls).length = n at g
  unfold Writer.close
  by_cases hz : st.cnt = 0
  · rw [if_pos hz]
    simp only [WState.bytes]
    rw [flatten_length_const r.blockBytes _ (by intro b hbm; exact g.len b (List.mem_reverse.mp hbm)), List.length_reverse, g.out]
    have := g.cnt
    congr 1
    simp only [blockSamples] at this ⊢; omega
  · rw [if_neg hz]
    simp only [WState.bytes, Writer.emit]
    have hpad : (List.take (st.cnt * (writer r).ch) st.buf ++ zeros (((writer r).spb - st.cnt) * (writer r).ch)).length = blockSamples := by
      have hc := g.cnt
      have hlt : n % blockSamples < blockSamples := Nat.mod_lt _ (by decide)
      simp only [writer, List.length_append, List.length_take, zeros, List.length_replicate, g.buf, Nat.mul_one]
      omega
    rw [flatten_length_const r.blockBytes _ (by
      intro b hbm
      rcases List.mem_cons.mp (List.mem_reverse.mp hbm) with h | h
      · rw [h]; exact encodeBlock_length r hb _ _ hpad
      · exact g.len b h), List.length_reverse, List.length_cons, g.out]
    have := g.cnt
    congr 1
    simp only [blockSamples] at this ⊢; omega

/-- **frames at re-open**: N samples written (any session): a reader of the closed data region finds F frames with
    N ≤ F < N + 120 (the last block is padded; nothing records N) — for the three rates libsndfile offers -/
theorem g72x_frames_at_reopen (r : Rate) (hr : r.bits = 3 ∨ r.bits = 4 ∨ r.bits = 5) (cv : Conv) (calls : List (Ty × List Int)) :
    (shorts cv calls).length ≤ framesAtOpen r (closedBytes r cv calls).length ∧
    framesAtOpen r (closedBytes r cv calls).length < (shorts cv calls).length + blockSamples := by
  rw [g72x_closed_length r (by omega) cv calls]
  generalize (shorts cv calls).length = n
  unfold framesAtOpen blocksTotal Rate.blockBytes
  simp only [blockSamples]
  rcases hr with h | h | h <;> rw [h] <;> constructor <;> omega

example : framesAtOpen g721 (closedBytes g721 {} [(.s16, List.replicate 121 5)]).length = 240 := by decide +kernel

end Sf.C07G72x
