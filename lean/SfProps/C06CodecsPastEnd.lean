-- properties: C05
/-
  C05 / C06 for NMS ADPCM and GSM 06.10 — reads of ANY size at ANY position, in particular reads that CROSS the end of
  the data (the clamp of sf_read_* and the zero tail), for every caller type with its staging loop.  (G.721 / G.723:
  `g72x_read_contract`, SfProps/C06G72x.lean, already has this strength; it is restated here as
  `g72x_read_crossing_end` so that the three codecs stand side by side.)

    `nms_read_any`, `gsm_read_any`   ∀ handle satisfying the invariant (open, and every state reached by reads that
        ended inside the data), ∀ caller type, ∀ n: the call returns c = min (n, frames − position); the cells it writes
        are the caller image of stream [position, position + c) followed by zeros, at most n cells in all; the position
        advances by c — so a request that crosses the end is clamped, the tail zero, and the handle is then at `frames`
    `nms_read_crossing_end`, `gsm_read_crossing_end`   the corollary for position + n > frames
  They instantiate the generic `readLoop_general` (= `block_reader_past_end`) through the staging loops
  (SfProofs/BlockPastEnd.lean).  Property theorems only.
-/
import SfProps.C06Nms
import SfProps.C06Gsm
import SfProps.C06G72x
import SfProofs.BlockPastEnd
namespace Sf.C06CodecsPastEnd
open Sf Sf.Block Sf.Block.Proofs Sf.Block.PastEnd

theorem map_zeros (f : Int → Int) (h0 : f 0 = 0) (k : Nat) : (zeros k).map f = zeros k := by
  simp [zeros, h0]

/-! ## NMS ADPCM -/

/-- **NMS: any request at any position** -/
theorem nms_read_any (cv : Conv) (ty : Ty) (h : RHandle) (hi : C06Nms.HInv h) (n : Nat) :
    ∃ h' k, Nms.read cv ty h n =
        (h', (h.r.slice h.pos (min n (h.frames - h.pos))).map (Nms.toCaller cv ty) ++ zeros k, min n (h.frames - h.pos)) ∧
      min n (h.frames - h.pos) + k ≤ n ∧ h'.pos = h.pos + min n (h.frames - h.pos) ∧ h'.frames = h.frames ∧ h'.r = h.r := by
  obtain ⟨h', k, e, hk, hp, hf, hr⟩ := readBrk_any h hi.wf hi.ch hi.inv hi.pos hi.fr (Nms.chunkOf ty) n
  refine ⟨h', k, ?_, hk, hp, hf, hr⟩
  unfold Nms.read
  rw [e]
  simp only [List.map_append, map_zeros _ (C06Nms.toCaller_zero cv ty)]

/-- **NMS: a read that crosses the end of the data** returns what is left, zero-fills behind it and leaves the handle
    at the end -/
theorem nms_read_crossing_end (cv : Conv) (ty : Ty) (h : RHandle) (hi : C06Nms.HInv h) (n : Nat) (hle : h.pos ≤ h.frames)
    (hcross : h.frames < h.pos + n) :
    ∃ h' k, Nms.read cv ty h n = (h', (h.r.slice h.pos (h.frames - h.pos)).map (Nms.toCaller cv ty) ++ zeros k, h.frames - h.pos) ∧
      h.frames - h.pos + k ≤ n ∧ h'.pos = h.frames := by
  obtain ⟨h', k, e, hk, hp, _, _⟩ := nms_read_any cv ty h hi n
  have hm : min n (h.frames - h.pos) = h.frames - h.pos := by omega
  rw [hm] at e hk hp
  exact ⟨h', k, e, hk, by omega⟩

/-- non-vacuity: a one-block 32 kbit/s file (82 bytes, 160 frames) asked for 200 shorts -/
example : (Nms.read {} .s16 (Nms.openR .r32 (List.replicate 82 0x77)) 200).2.2 = 160 ∧
    ((Nms.read {} .s16 (Nms.openR .r32 (List.replicate 82 0x77)) 200).2.1.drop 160).all (· == 0) = true := by decide +kernel

/-! ## GSM 06.10 -/

theorem gsm_toCaller_zero (cv : Conv) (ty : Ty) : Gsm.toCaller cv ty 0 = 0 := by
  cases ty
  · rfl
  · rfl
  · unfold Gsm.toCaller Oki.toCaller; simp only; cases cv.normF <;> decide
  · unfold Gsm.toCaller Oki.toCaller; simp only; cases cv.normD <;> decide

/-- **GSM: any request at any position** (the staging loop of gsm610_read_i/f/d goes on after a short piece: the
    later pieces zero-fill at the running offset, so the written cells are still stream ++ zeros) -/
theorem gsm_read_any (h : RHandle) (hi : C06Gsm.HInv h) (cv : Conv) (ty : Ty) (n : Nat) :
    ∃ h' k, Gsm.readCall h cv ty n =
        (h', (h.r.slice h.pos (min n (h.frames - h.pos))).map (Gsm.toCaller cv ty) ++ zeros k, min n (h.frames - h.pos)) ∧
      min n (h.frames - h.pos) + k ≤ n ∧ h'.pos = h.pos + min n (h.frames - h.pos) ∧ h'.frames = h.frames ∧ h'.r = h.r := by
  obtain ⟨h', k, e, hk, hp, hf, hr⟩ := read_any h hi.wf hi.ch1 hi.inv hi.pos.symm hi.frm (Gsm.chunkOf ty) n
  refine ⟨h', k, ?_, hk, hp, hf, hr⟩
  unfold Gsm.readCall
  rw [e]
  simp only [List.map_append, map_zeros _ (gsm_toCaller_zero cv ty)]

/-- **GSM: a read that crosses the end of the data** -/
theorem gsm_read_crossing_end (h : RHandle) (hi : C06Gsm.HInv h) (cv : Conv) (ty : Ty) (n : Nat) (hle : h.pos ≤ h.frames)
    (hcross : h.frames < h.pos + n) :
    ∃ h' k, Gsm.readCall h cv ty n = (h', (h.r.slice h.pos (h.frames - h.pos)).map (Gsm.toCaller cv ty) ++ zeros k, h.frames - h.pos) ∧
      h.frames - h.pos + k ≤ n ∧ h'.pos = h.frames := by
  obtain ⟨h', k, e, hk, hp, _, _⟩ := gsm_read_any h hi cv ty n
  have hm : min n (h.frames - h.pos) = h.frames - h.pos := by omega
  rw [hm] at e hk hp
  exact ⟨h', k, e, hk, by omega⟩

/-- non-vacuity: a one-frame RAW file (160 frames) asked for 5000 ints through the 4096-piece staging loop -/
example : (Gsm.readCall (Gsm.openRead ⟨false⟩ (0xD0 :: List.replicate 32 0) 33 none) {} .s32 5000).2.2 = 160 := by decide +kernel

/-! ## G.721 / G.723 (restated from `g72x_read_contract`) -/

theorem g72x_read_crossing_end (h : G72x.RHandle) (hi : G72x.Proofs.HInv h) (ty : Ty) (n : Nat) (hcross : h.frames < h.pos + n) :
    (h.read ty n).2.2 = h.frames - h.pos ∧
    (h.read ty n).2.1 = h.r.slice h.pos (h.frames - h.pos) ++ zeros (n - (h.frames - h.pos)) ∧
    (h.read ty n).1.pos = h.frames := by
  obtain ⟨h1, h2, _, h4, h5, _⟩ := C06G72x.g72x_read_contract h hi ty n
  have hm : min n (h.frames - h.pos) = h.frames - h.pos := by have := hi.le; omega
  rw [hm] at h1
  rw [h1] at h2 h4 h5
  exact ⟨h1, h2, by have := hi.le; omega⟩

example : (G72x.RHandle.read (G72x.RHandle.open G72x.g721 (List.replicate 60 0x77)) .s16 200).2.2 = 120 := by decide +kernel

end Sf.C06CodecsPastEnd
