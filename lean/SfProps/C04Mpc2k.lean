-- properties: C04 C11
/-
  C04 / C11 — the Akai MPC 2000 container (stand-alone L1 model SfModel/Mpc2k.lean; helpers SfProofs/Mpc2kImage.lean,
  SfProofs/Small2Session.lean).  Property theorems only.

  A *session* is `openW` (sf_open SFM_WRITE; the caller's frames value is a parameter — it is visible in the very
  first header, see `mpc2k_open_image_stale`), any list of `WOp`s, then `close`.
-/
import SfModel.Mpc2k
import SfProofs.Mpc2kImage
namespace Sf.C04Mpc2k
open Sf Sf.Small2 Sf.Mpc2k

/-! ### the 16-bit rate field -/

/-- rates up to 65535 are stored exactly, larger ones as 65535; the stored value is always a non-zero 16-bit number
    (so the file can be re-opened) and storing is idempotent -/
theorem mpc2k_rate16 (sr : Nat) : (sr < 65536 → quant sr = sr) ∧ (65536 ≤ sr → quant sr = 65535) ∧ quant sr < 65536 ∧
    quant (quant sr) = quant sr ∧ (1 ≤ sr → 1 ≤ quant sr) := by
  unfold quant; omega

example : quant 44100 = 44100 ∧ quant 65535 = 65535 ∧ quant 65536 = 65535 ∧ quant 96000 = 65535 := by decide

/-- the class of the repaired defect KF-RATE16-WRAP: the rate is a multiple of 65536 -/
def KF.rate16Wrap (sr : Nat) : Prop := sr % 65536 = 0
instance (sr : Nat) : Decidable (KF.rate16Wrap sr) := by unfold KF.rate16Wrap; infer_instance

/-! ### closed files -/

theorem closedBytesQ_eq (q : Nat → Nat) (c : Cfg) (hwf : c.wf) (stale : Nat) (ops : List WOp) :
    closedBytes (fmtQ q c) stale ops =
      hdrQ (q c.sr) c ⟨(((opsData ops).length / (2 * c.ch) : Nat) : Int), ((42 + (opsData ops).length : Nat) : Int), ((opsData ops).length : Nat)⟩ ++ opsData ops := by
  rw [Small2.closedBytes_eq (fmtQ q c) (lawfulQ q c hwf.2.2.2) rfl stale ops]
  show calcHdr (fmtQ q c) (42 + _) ++ _ = _
  rw [calcHdrQ_eq]

theorem closedBytes_eq (c : Cfg) (hwf : c.wf) (stale : Nat) (ops : List WOp) :
    closedBytes (fmt c) stale ops =
      hdr c { frames := (((opsData ops).length / (2 * c.ch) : Nat) : Int), filelength := ((42 + (opsData ops).length : Nat) : Int),
              datalength := ((opsData ops).length : Nat) } ++ opsData ops :=
  closedBytesQ_eq quant c hwf stale ops

/-- what C04 asks of MPC2K under the rate rule `q` (the rate "quantised by the documented unit") -/
def reopenFull (q : Nat → Nat) : Prop :=
  ∀ (c : Cfg), c.wf → ∀ (stale : Nat) (ops : List WOp),
    parse (closedBytes (fmtQ q c) stale ops) =
      .ok { ch := c.ch, fmt := 0x210002, sr := q c.sr, frames := (opsData ops).length / (2 * c.ch) }

def mpc2k_reopen_full : Prop := reopenFull quant

/-- **mpc2k_reopen_info** (full strength since the repair of KF-RATE16-WRAP).  For every accepted configuration — every
    rate in [1, 2^31-1] — and every session — no size guard: the reader takes the length from the file — the closed
    file re-opens with the requested channels, MPC2K / PCM_16, the rate saturated to 16 bits (exact up to 65535) and
    frames = audio bytes / (2 · channels). -/
theorem mpc2k_reopen_info (c : Cfg) (hwf : c.wf) (stale : Nat) (ops : List WOp) :
    parse (closedBytes (fmt c) stale ops) =
      .ok { ch := c.ch, fmt := 0x210002, sr := quant c.sr, frames := (opsData ops).length / (2 * c.ch) } := by
  rw [closedBytes_eq c hwf]
  show parse (hdrQ (quant c.sr) c _ ++ _) = _
  rw [parse_image _ c hwf, readHeader_image _ c hwf _ _ (by rw [quant_field]; exact quant_pos _ hwf.2.1), quant_field]

theorem mpc2k_reopen_full_holds : mpc2k_reopen_full := fun c hwf stale ops => mpc2k_reopen_info c hwf stale ops

/-- **mpc2k_reopen_old_rule.**  Under the rule before the repair (`(uint16_t) samplerate`) a rate in the class
    KF.rate16Wrap was stored as 0 and validate_sfinfo refused the closed file -/
theorem mpc2k_reopen_old_rule (c : Cfg) (hwf : c.wf) (stale : Nat) (ops : List WOp) (hk : KF.rate16Wrap c.sr) :
    parse (closedBytes (fmtOld c) stale ops) = .err := by
  show parse (closedBytes (fmtQ quantOld c) stale ops) = .err
  rw [closedBytesQ_eq quantOld c hwf, parse_image _ c hwf]
  refine readHeader_rate0 _ c hwf _ _ ?_
  unfold KF.rate16Wrap at hk
  unfold quantOld; omega

/-- the full statement failed under the old rule: 65536 Hz is the witness (findings/kf_rate16_wrap.txt) -/
theorem mpc2k_reopen_full_old_rule_fails : ¬ reopenFull quantOld := by
  intro h
  have hwf : (⟨2, 65536, List.replicate 17 0x20⟩ : Cfg).wf := by decide
  have h1 := h ⟨2, 65536, List.replicate 17 0x20⟩ hwf 0 [.write [0, 1, 0, 2] false]
  have h2 := mpc2k_reopen_old_rule ⟨2, 65536, List.replicate 17 0x20⟩ hwf 0 [.write [0, 1, 0, 2] false] (by decide)
  rw [show fmtOld _ = fmtQ quantOld _ from rfl] at h2
  rw [h2] at h1
  cases h1

-- the witness of the repaired defect re-opens now, at 65535 Hz
example : parse (closedBytes (fmt ⟨2, 65536, List.replicate 17 0x20⟩) 0 [.write [0, 1, 0, 2] false]) = .ok ⟨2, 0x210002, 65535, 1⟩ ∧
    parse (closedBytes (fmtOld ⟨2, 65536, List.replicate 17 0x20⟩) 0 [.write [0, 1, 0, 2] false]) = .err := by decide +kernel

def exCfg : Cfg := { ch := 2, sr := 44100 }
def exOps : List WOp := [.write [0, 1, 0, 2] false, .update, .write [0, 3, 0, 4, 0, 5, 0, 6] true]
example : exCfg.wf ∧ (closedBytes (fmt exCfg) 77 exOps).length = 54 ∧
    parse (closedBytes (fmt exCfg) 77 exOps) = .ok ⟨2, 0x210002, 44100, 3⟩ := by decide +kernel

/-- **mpc2k_size_fields.**  The file is the 42-byte header plus the audio; the three frame-count fields (loop end,
    sample frames, loop length at offsets 26, 30, 34) hold the low 32 bits of audio bytes / (2 · channels), and the
    rate field (offset 40) the rate saturated to 16 bits. -/
theorem mpc2k_size_fields (c : Cfg) (hwf : c.wf) (stale : Nat) (ops : List WOp) (bytes : List Byte) (D : Nat)
    (hbytes : bytes = closedBytes (fmt c) stale ops) (hD : D = (opsData ops).length) :
    bytes.length = 42 + D ∧
    ofLE ((bytes.drop 26).take 4) = (D / (2 * c.ch)) % 2 ^ 32 ∧ ofLE ((bytes.drop 30).take 4) = (D / (2 * c.ch)) % 2 ^ 32 ∧
    ofLE ((bytes.drop 34).take 4) = (D / (2 * c.ch)) % 2 ^ 32 ∧ ofLE ((bytes.drop 40).take 2) = quant c.sr ∧
    bytes.drop 42 = opsData ops := by
  have hn := hwf.2.2.2
  rw [closedBytes_eq c hwf, ← hD] at hbytes
  have hlen : bytes.length = 42 + D := by rw [hbytes, hD]; simp [hdr, hdrQ, hn]; omega
  have hF : ∀ v : Nat, ofLE (le32 ((v : Nat) : Int)) = v % 2 ^ 32 := fun v => by rw [ofLE_le32, wrapU_nat_mod]
  have e : bytes = ([1, 4] ++ c.name ++ [100, 0, (c.ch - 1) % 2] ++ le32 0) ++ (le32 ((D / (2 * c.ch) : Nat) : Int) ++
      (le32 ((D / (2 * c.ch) : Nat) : Int) ++ (le32 ((D / (2 * c.ch) : Nat) : Int) ++ ([0, 1] ++ (le16 (quant c.sr : Nat) ++ opsData ops))))) := by
    rw [hbytes]; simp [hdr, hdrQ]
  have h26 : ([1, 4] ++ c.name ++ [100, 0, (c.ch - 1) % 2] ++ le32 0).length = 26 := by simp [hn]
  have d26 := drop_append_len _ (le32 ((D / (2 * c.ch) : Nat) : Int) ++
      (le32 ((D / (2 * c.ch) : Nat) : Int) ++ (le32 ((D / (2 * c.ch) : Nat) : Int) ++ ([0, 1] ++ (le16 (quant c.sr : Nat) ++ opsData ops))))) 26 h26
  rw [← e] at d26
  have d30 : bytes.drop 30 = le32 ((D / (2 * c.ch) : Nat) : Int) ++ (le32 ((D / (2 * c.ch) : Nat) : Int) ++
      ([0, 1] ++ (le16 (quant c.sr : Nat) ++ opsData ops))) := by
    rw [show (30 : Nat) = 26 + 4 from rfl, ← List.drop_drop, d26]; exact drop_append_len _ _ 4 (le32_length _)
  have d34 : bytes.drop 34 = le32 ((D / (2 * c.ch) : Nat) : Int) ++ ([0, 1] ++ (le16 (quant c.sr : Nat) ++ opsData ops)) := by
    rw [show (34 : Nat) = 30 + 4 from rfl, ← List.drop_drop, d30]; exact drop_append_len _ _ 4 (le32_length _)
  have d40 : bytes.drop 40 = le16 (quant c.sr : Nat) ++ opsData ops := by
    rw [show (40 : Nat) = 34 + (4 + 2) from rfl, ← List.drop_drop, d34, ← List.drop_drop, drop_append_len _ _ 4 (le32_length _)]
    exact drop_append_len [0, 1] _ 2 rfl
  refine ⟨hlen, ?_, ?_, ?_, ?_, ?_⟩
  · rw [d26, take_append_len _ _ 4 (le32_length _), hF]
  · rw [d30, take_append_len _ _ 4 (le32_length _), hF]
  · rw [d34, take_append_len _ _ 4 (le32_length _), hF]
  · rw [d40, take_append_len _ _ 2 (le16_length _), le16_q, quant_field]
  · rw [show (42 : Nat) = 40 + 2 from rfl, ← List.drop_drop, d40]; exact drop_append_len _ _ 2 (le16_length _)

example : ofLE (((closedBytes (fmt exCfg) 77 exOps).drop 30).take 4) = 3 ∧ ofLE (((closedBytes (fmt exCfg) 77 exOps).drop 40).take 2) = 44100 := by
  decide +kernel

/-- **mpc2k_frames_bound.**  16-bit PCM is sample-granular and nothing is padded: `N` frames re-open as `N`. -/
theorem mpc2k_frames_bound (ch N : Nat) (hch : 0 < ch) : (N * (2 * ch)) / (2 * ch) = N ∧ N ≤ (N * (2 * ch)) / (2 * ch) ∧
    (N * (2 * ch)) / (2 * ch) < N + 1 := by
  have : (N * (2 * ch)) / (2 * ch) = N := Nat.mul_div_cancel _ (by omega)
  omega

example : (3 * (2 * 2)) / (2 * 2) = 3 := by decide

/-! ### the caller's frames field -/

/-- **stale_frames_ignored_mpc2k.**  Closed bytes and update images do not depend on the caller's frames value. -/
theorem stale_frames_ignored_mpc2k (c : Cfg) (hwf : c.wf) (a b : Nat) (ops : List WOp) :
    closedBytes (fmt c) a ops = closedBytes (fmt c) b ops ∧ snapshotBytes (fmt c) a ops = snapshotBytes (fmt c) b ops :=
  ⟨stale_ignored (fmt c) (lawful c hwf.2.2.2) rfl a b ops, stale_ignored_snapshot (fmt c) (lawful c hwf.2.2.2) a b ops⟩

example : closedBytes (fmt exCfg) 0 exOps = closedBytes (fmt exCfg) 123456 exOps := by decide +kernel

/-- …but the header written by sf_open itself (before any write call or update) carries the stale value in its three
    frame-count fields: mpc2k_open writes the header before pcm_init resets sf.frames -/
theorem mpc2k_open_image_stale : (openW (fmt exCfg) 0).bytes ≠ (openW (fmt exCfg) 99).bytes := by decide

/-! ### C11: header updates -/

/-- **mpc2k_snapshot_valid.**  After any session prefix, the image a header update leaves in the store parses
    with the same parameters and frames = audio bytes so far / (2 · channels), and is the
    42-byte header followed by the audio written so far. -/
theorem mpc2k_snapshot_valid (c : Cfg) (hwf : c.wf) (stale : Nat) (ops : List WOp) :
    parse (snapshotBytes (fmt c) stale ops) =
      .ok { ch := c.ch, fmt := 0x210002, sr := quant c.sr, frames := (opsData ops).length / (2 * c.ch) } ∧
    ∃ hdr, hdr.length = 42 ∧ snapshotBytes (fmt c) stale ops = hdr ++ opsData ops := by
  rw [← closed_is_snapshot (fmt c) rfl stale ops]
  refine ⟨mpc2k_reopen_info c hwf stale ops, calcHdr (fmt c) (42 + (opsData ops).length), ?_, ?_⟩
  · exact (lawful c hwf.2.2.2).hlen _
  · exact Small2.closedBytes_eq (fmt c) (lawful c hwf.2.2.2) rfl stale ops

example : parse (snapshotBytes (fmt exCfg) 5 [.write [1, 2, 3, 4] false]) = .ok ⟨2, 0x210002, 44100, 1⟩ := by decide +kernel

end Sf.C04Mpc2k
