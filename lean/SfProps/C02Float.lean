/-
  C02 (floating-point part) — sample-type conversions follow the documented rules exactly.
  Property theorems only; lemmas are in SfProofs/Float*.lean.

  A float/double is its bit pattern (`Nat`); `Fmt.toDy` gives the dyadic (sign, m, e) its fields denote and
  `Dy.val : Dy → ℚ` the rational number (-1)^sign · m · 2^e.  For Inf/NaN patterns `toDy` returns the value the
  fields would have with the all-ones exponent treated as an ordinary one (magnitude ≥ 2^128 resp. 2^1024 =
  `Fmt.huge`); `Fmt.isFinite` separates the two cases, and `finite_iff_mag_lt` says so.
-/
import SfProps.C02
import SfProofs.FloatPcm
namespace Sf.C02
open Sf Sf.Float

/-! ## 1. rounding basics -/

/-- `rneShr m k` (= m / 2^k rounded half-to-even) is within half a unit: 2·|rneShr m k · 2^k − m| ≤ 2^k -/
theorem rneShr_half_ulp (m k : Nat) : 2 * ((rneShr m k : Int) * 2 ^ k - m).natAbs ≤ 2 ^ k :=
  Sf.Float.rneShr_half_ulp m k

/-- … and exactly on a tie the result is even -/
theorem rneShr_ties_to_even (m k : Nat)
    (h : 2 * (rneShr m k * 2 ^ k) = 2 * m + 2 ^ k ∨ 2 * m = 2 * (rneShr m k * 2 ^ k) + 2 ^ k) : rneShr m k % 2 = 0 :=
  Sf.Float.rneShr_tie_even m k h

theorem rneShr_monotone (m₁ m₂ k : Nat) (h : m₁ ≤ m₂) : rneShr m₁ k ≤ rneShr m₂ k := Sf.Float.rneShr_mono m₁ m₂ k h

theorem rneShr_of_multiple (a k : Nat) : rneShr (a * 2 ^ k) k = a := Sf.Float.rneShr_exact a k

example : rneShr 5 1 = 2 ∧ rneShr 7 1 = 4 ∧ rneShr 6 2 = 2 ∧ rneShr 10 2 = 2 ∧ rneShr 11 2 = 3 := by decide

/-- `Dy.rint` (what `lrint` / `cvtss2si` compute in range) is the nearest integer, ties to even:
    |rint a − a| ≤ 1/2, and rint a is even whenever |rint a − a| = 1/2 -/
theorem rint_nearest_even (a : Dy) :
    |(a.rint : ℚ) - a.val| ≤ 1 / 2 ∧ (|(a.rint : ℚ) - a.val| = 1 / 2 → a.rint % 2 = 0) := by
  have h := Dy.rint_isRNE a
  refine ⟨h.abs_le, fun he => h.2.2 ?_⟩
  rcases abs_eq (by norm_num : (0 : ℚ) ≤ 1 / 2) |>.mp he with e | e
  · left; linarith
  · right; linarith

/-- `Dy.rint` is monotone in the real value -/
theorem rint_monotone (a b : Dy) (h : a.val ≤ b.val) : a.rint ≤ b.rint :=
  (Dy.rint_isRNE a).mono (Dy.rint_isRNE b) h

/-- rint of an integer-valued dyadic is that integer -/
theorem rint_of_int (a : Dy) (z : Int) (h : a.val = z) : a.rint = z := (Dy.rint_isRNE a).eq_int z h

example : (⟨false, 5, -1⟩ : Dy).rint = 2 ∧ (⟨false, 7, -1⟩ : Dy).rint = 4 ∧ (⟨true, 5, -1⟩ : Dy).rint = -2 ∧
    (⟨false, 3, 2⟩ : Dy).rint = 12 := by decide

/-! ## 2. rounding to a format is exact on representable values -/

/-- if m·2^e = n·2^q with n < 2^(mbits+1), q ≥ qmin (normal or subnormal quantum) and the value is below the overflow
    threshold, then converting to the format and back gives the same sign, the same value, a finite pattern -/
theorem ofDy_toDy_exact (f : Fmt) (hf : f.Std) (d : Dy) (h : f.Rep d) :
    (f.toDy (f.ofDy d)).val = d.val ∧ (f.toDy (f.ofDy d)).neg = d.neg ∧ f.isFinite (f.ofDy d) = true :=
  let ⟨a, _, c, e⟩ := Sf.Float.ofDy_toDy_exact f hf d h; ⟨c, a, e⟩

/-- non-vacuity: 0x7FFFFF·2^-23 (= 1 − 2^-23) is representable in binary32 and encodes as 0x3F7FFFFE -/
example : f32.Rep ⟨false, 0x7FFFFF, -23⟩ ∧ f32.ofDy ⟨false, 0x7FFFFF, -23⟩ = 0x3F7FFFFE := by
  refine ⟨rep_of f32 (Or.inl rfl) _ 0x7FFFFF (-23) (by decide) (by decide) (by decide) rfl, by decide⟩

/-- in general the result is the value rounded at the quantum (ties to even), capped at the overflow threshold -/
theorem toDy_ofDy_rounds (f : Fmt) (hf : f.Std) (d : Dy) :
    (f.toDy (f.ofDy d)).neg = d.neg ∧ (f.toDy (f.ofDy d)).mag = min (f.rnd d).mag f.huge ∧
    IsRNE (d.mag * 2 ^ (-(f.quantum d))) (f.rnd d).m ∧ |(f.rnd d).mag - d.mag| ≤ 2 ^ (f.quantum d - 1) :=
  ⟨(toDy_ofDy f hf d).1, (toDy_ofDy f hf d).2, rnd_isRNE f d, rnd_err f d⟩

/-- `(float) x` is exact for |x| < 2^24, `(double) x` for |x| < 2^53 -/
theorem f32_ofInt_exact (x : Int) (hx : x.natAbs < 2 ^ 24) : (f32.toDy (f32.ofInt x)).val = x :=
  Sf.Float.f32_ofInt_exact x hx
theorem f64_ofInt_exact (x : Int) (hx : x.natAbs < 2 ^ 53) : (f64.toDy (f64.ofInt x)).val = x :=
  Sf.Float.f64_ofInt_exact x hx

example : f32.ofInt (-8388607) = 0xCAFFFFFE ∧ f32.ofInt 16777217 = 0x4B800000 := by decide

/-- multiplying a normal number by 2^k is exact while the exponent field stays in 1 … emax−1 -/
theorem mul_pow2_exact_normal (f : Fmt) (hf : f.Std) (b : Nat) (k : Int) (hn : f.isNormal b = true)
    (h1 : 1 ≤ (f.expo b : ℤ) + k) (h2 : (f.expo b : ℤ) + k < f.emax) :
    (f.toDy (f.ofDy ((f.toDy b).mul ⟨false, 1, k⟩))).val = (f.toDy b).val * 2 ^ k :=
  Sf.Float.mul_pow2_exact_normal f hf b k hn h1 h2

example : f32.isNormal 0x3F800001 = true ∧ f32.expo 0x3F800001 = 127 ∧
    f32.ofDy ((f32.toDy 0x3F800001).mul ⟨false, 1, -31⟩) = 0x30000001 := by decide

/-- float → double conversion is exact for every finite pattern -/
theorem f32to64_exact (b : Nat) (hfin : f32.isFinite b = true) :
    (f64.toDy (f32to64 b)).val = (f32.toDy b).val ∧ f64.isFinite (f32to64 b) = true :=
  Sf.Float.f32to64_exact b hfin

/-- double → float undoes float → double on every finite binary32 pattern (finite excludes Inf and NaN) -/
theorem f64to32_f32to64 (b : Nat) (hb : b < 2 ^ 32) (hfin : f32.isFinite b = true) : f64to32 (f32to64 b) = b :=
  Sf.Float.f64to32_f32to64 b hb hfin

example : f32.isFinite 0x00000001 = true ∧ f32to64 0x00000001 = 0x36A0000000000000 ∧
    f64to32 0x36A0000000000000 = 1 := by decide


/-! ## 3. float / double reads of integer PCM -/

/-- **float_read_exact**: reading code c of a w-bit sample as double (any w) or as float (w ≤ 24) gives exactly
    c / 2^(w−1) with normalisation on and exactly c with normalisation off (24-bit included: the kernel's
    (c·256)/2^31 resp. (c·256)/256 is the same number); the result is finite -/
theorem float_read_exact (p : PcmFmt) (hp : PcmFmt.valid p) (f : Fmt) (hf : f.Std) (hfit : p.w = 32 → f = f64)
    (norm : Bool) (c : Int) (hc : inRange p.w c) :
    (f.toDy (p.toFloat f norm c)).val = (if norm then (c : ℚ) / 2 ^ (p.w - 1) else c) ∧
    f.isFinite (p.toFloat f norm c) = true :=
  toFloat_exact p f hf norm c hp.1 hc hfit

example : PcmFmt.valid ⟨24, false, false⟩ ∧ inRange 24 (-8388607) ∧
    (⟨24, false, false⟩ : PcmFmt).toFloat f32 true (-8388607) = 0xBF7FFFFE ∧
    (⟨24, false, false⟩ : PcmFmt).toFloat f32 false (-8388607) = 0xCAFFFFFE :=
  ⟨by unfold PcmFmt.valid; decide, by unfold inRange; decide, by decide, by decide⟩

/-- every normalised read, 32-bit into float included, is ONE correctly rounded (nearest, ties to even) conversion
    of c / 2^(w−1) to the caller's format; for w = 32 and float this is where rounding really happens -/
theorem float_read_single_rounding (p : PcmFmt) (hp : PcmFmt.valid p) (f : Fmt) (hf : f.Std) (c : Int)
    (hc : inRange p.w c) :
    p.toFloat f true c = f.ofDy ⟨decide (c < 0), c.natAbs, -((p.w : ℤ) - 1)⟩ :=
  toFloat_norm_pattern p f hf c hp.1 hc

/-- 32-bit PCM read as float without normalisation is `(float) c` -/
theorem float_read_w32_raw (p : PcmFmt) (hw : p.w = 32) (c : Int) (hc : inRange 32 c) :
    p.toFloat f32 false c = f32.ofInt c :=
  toFloat_f32_w32_raw p hw c hc

/-- the rounding is visible: 2^31 − 1 reads as 1.0f, 2^24 + 1 as 2^-7 exactly -/
example : (⟨32, false, false⟩ : PcmFmt).toFloat f32 true 2147483647 = 0x3F800000 ∧
    (⟨32, false, false⟩ : PcmFmt).toFloat f32 true 16777217 = 0x3C000000 ∧
    (⟨32, false, false⟩ : PcmFmt).toFloat f32 false 16777219 = 0x4B800002 := by decide

/-- **cross_type_agree_float**: the double read is exactly (the int read) / 2^31 -/
theorem cross_type_agree_float (p : PcmFmt) (hp : PcmFmt.valid p) (c : Int) (hc : inRange p.w c) :
    (f64.toDy (p.toFloat f64 true c)).val = (p.toS32 c : ℚ) / 2 ^ 31 := by
  rw [(float_read_exact p hp f64 (Or.inr rfl) (fun _ => rfl) true c hc).1, int_msb_rule_read_s32 p hp c hc]
  rcases hp.1 with h | h | h | h <;> simp only [h, if_true] <;> push_cast <;> norm_num <;> ring

/-- … and the float read is the int read / 2^31 rounded once to binary32 -/
theorem cross_type_agree_float32 (p : PcmFmt) (hp : PcmFmt.valid p) (c : Int) (hc : inRange p.w c) :
    p.toFloat f32 true c = f32.ofDy ⟨decide (p.toS32 c < 0), (p.toS32 c).natAbs, -31⟩ := by
  rw [float_read_single_rounding p hp f32 (Or.inl rfl) c hc, int_msb_rule_read_s32 p hp c hc]
  apply ofDy_congr
  · rcases hp.1 with h | h | h | h <;> simp only [h, decide_eq_decide] <;> omega
  · unfold Dy.mag; simp only
    rw [Int.natAbs_mul, Int.natAbs_pow]; push_cast
    rw [mul_assoc, ← zpow_natCast, ← zpow2_add]
    congr 2
    rcases hp.1 with h | h | h | h <;> simp [h]

example : (⟨16, false, true⟩ : PcmFmt).toS32 (-12345) = -809041920 ∧
    (⟨16, false, true⟩ : PcmFmt).toFloat f64 true (-12345) = 0xBFD81C8000000000 := by decide


/-! ## 4. writes with clipping (SFC_SET_CLIPPING on)

These hold for EVERY bit pattern x.  For a finite pattern `(f.toDy x).val` is its real value.  For an Inf/NaN pattern
`toDy` yields ±(2^mbits + frac)·2^(emax−1+qmin), a magnitude ≥ `f.huge` (2^128 / 2^1024, see `nonfinite_is_huge`), so in
the model such patterns saturate according to their sign bit; that is what the C code does for ±Inf, while NaN is
outside the property's quantifier ("finite values") and the model makes no claim of fidelity there. -/

theorem nonfinite_is_huge (f : Fmt) (hf : f.Std) (x : Nat) : f.isFinite x = true ↔ |(f.toDy x).val| < f.huge := by
  rw [Dy.abs_val]; exact finite_iff_mag_lt f hf x

/-- **clip_saturates (range)**: the stored code is always within [−2^(w−1), 2^(w−1)−1]: no wrap, for every pattern,
    both build variants, normalisation on or off -/
theorem clip_in_range (p : PcmFmt) (hp : PcmFmt.valid p) (f : Fmt) (hf : f.Std) (v : Variant) (norm : Bool) (x : Nat) :
    inRange p.w (p.ofFloat f v norm true x) := by
  have := ofFloat_clip_range p hp.1 f hf v norm x
  unfold inRange; omega

/-- **clip_saturates (extremes)**: scaled value x·2^(w−1) (norm on) or x (norm off) ≥ 2^(w−1)−1 ⇒ MAX;  ≤ −2^(w−1) ⇒ MIN -/
theorem clip_saturates (p : PcmFmt) (hp : PcmFmt.valid p) (f : Fmt) (hf : f.Std) (v : Variant) (norm : Bool) (x : Nat) :
    ((((2 ^ (p.w - 1) - 1 : ℤ) : ℚ) ≤ (f.toDy x).val * 2 ^ (if norm then p.w - 1 else 0)) →
        p.ofFloat f v norm true x = 2 ^ (p.w - 1) - 1) ∧
    (((f.toDy x).val * 2 ^ (if norm then p.w - 1 else 0) ≤ ((-2 ^ (p.w - 1) : ℤ) : ℚ)) →
        p.ofFloat f v norm true x = -2 ^ (p.w - 1)) :=
  ⟨ofFloat_clip_sat_hi p hp.1 f hf v norm x, ofFloat_clip_sat_lo p hp.1 f hf v norm x⟩

/-- **clip_saturates (monotone)**: a larger input never gives a smaller code -/
theorem clip_monotone (p : PcmFmt) (hp : PcmFmt.valid p) (f : Fmt) (hf : f.Std) (v : Variant) (norm : Bool)
    (x₁ x₂ : Nat) (h : (f.toDy x₁).val ≤ (f.toDy x₂).val) :
    p.ofFloat f v norm true x₁ ≤ p.ofFloat f v norm true x₂ :=
  ofFloat_clip_mono p hp.1 f hf v norm x₁ x₂ h

/-- 1.0f, −1.0f, 1.5f, 0.999…f, +Inf, −Inf, and 0.3f into 16-bit with clipping -/
example : (⟨16, false, false⟩ : PcmFmt).ofFloat f32 .sse2 true true 0x3F800000 = 32767 ∧
    (⟨16, false, false⟩ : PcmFmt).ofFloat f32 .lrint true true 0xBF800000 = -32768 ∧
    (⟨16, false, false⟩ : PcmFmt).ofFloat f32 .sse2 true true 0x3FC00000 = 32767 ∧
    (⟨16, false, false⟩ : PcmFmt).ofFloat f32 .sse2 true true 0x3F7FFFFF = 32767 ∧
    (⟨16, false, false⟩ : PcmFmt).ofFloat f32 .sse2 true true 0x7F800000 = 32767 ∧
    (⟨16, false, false⟩ : PcmFmt).ofFloat f32 .sse2 true true 0xFF800000 = -32768 ∧
    (⟨16, false, false⟩ : PcmFmt).ofFloat f32 .sse2 true true 0x3E99999A = 9830 := by decide


/-! ## 5. writes without clipping, normalisation on: |x| ≤ 1

`c = lrint (x ·ₜ normfact)` where `·ₜ` is the product rounded in the caller's type T and normfact is
2^(w−1) − 1 converted to T (`PcmFmt.ofFloat`, which is this formula by definition).  `IsRNE v n` says: n is the integer
nearest to v, ties to even (|n − v| ≤ 1/2, and n even when |n − v| = 1/2). -/

/-- **float_write_inrange**: finite |x| ≤ 1, w ≤ 24 from float or any w from double:
    * no wrap: |c| ≤ 2^(w−1) − 1;
    * |c − x·(2^(w−1)−1)| ≤ 1/2 + 2^(w−3−mbits) (half a unit of the integer rounding plus half an ulp of the product,
      mbits = 23 / 52);
    * whenever the product x·(2^(w−1)−1) is representable in the caller's type, c is exactly the nearest integer,
      ties to even (`halves_to_even`) -/
theorem float_write_inrange (p : PcmFmt) (hp : PcmFmt.valid p) (f : Fmt) (hf : f.Std) (hfit : p.w = 32 → f = f64)
    (v : Variant) (x : Nat) (hx : |(f.toDy x).val| ≤ 1) :
    (p.ofFloat f v true false x).natAbs ≤ 2 ^ (p.w - 1) - 1 ∧
    |((p.ofFloat f v true false x : ℤ) : ℚ) - (f.toDy x).val * ((2 ^ (p.w - 1) - 1 : ℤ) : ℚ)|
        ≤ 1 / 2 + 2 ^ ((p.w : ℤ) - 3 - f.mbits) ∧
    (f.RepMag ((f.toDy x).mag * ((2 ^ (p.w - 1) - 1 : ℤ) : ℚ)) →
        IsRNE ((f.toDy x).val * ((2 ^ (p.w - 1) - 1 : ℤ) : ℚ)) (p.ofFloat f v true false x)) := by
  obtain ⟨a, b, c, d⟩ := ofFloat_write_inrange p hp.1 f hf hfit v x hx
  have hP := pow_w_cases p hp.1
  refine ⟨?_, c, d⟩
  have : (2 : ℕ) ^ (p.w - 1) = ((2 : ℤ) ^ (p.w - 1)).toNat := by
    rcases hp.1 with h | h | h | h <;> simp [h]
  omega

/-- non-vacuity and `halves_to_even`: 0.5f → 16383.5 → 16384 (up to even); 0x38A00140 → float product exactly 2.5 → 2
    (down to even); 1.0f → 32767; −1.0f → −32767 -/
example : |(f32.toDy 0x3F000000).val| ≤ 1 ∧
    (⟨16, false, false⟩ : PcmFmt).ofFloat f32 .sse2 true false 0x3F000000 = 16384 ∧
    (⟨16, false, false⟩ : PcmFmt).ofFloat f32 .lrint true false 0x3F800000 = 32767 ∧
    (⟨16, false, false⟩ : PcmFmt).ofFloat f32 .sse2 true false 0xBF800000 = -32767 ∧
    f32.toDy (f32.ofDy ((f32.toDy 0x38A00140).mul (f32.toDy (f32.ofInt 32767)))) = ⟨false, 10485760, -22⟩ ∧
    (⟨16, false, false⟩ : PcmFmt).ofFloat f32 .sse2 true false 0x38A00140 = 2 := by
  refine ⟨?_, by decide, by decide, by decide, by decide, by decide⟩
  have : f32.toDy 0x3F000000 = ⟨false, 8388608, -24⟩ := by decide
  rw [this, Dy.abs_val]; norm_num [Dy.mag]

/-- **the double-rounding gap, explicit**: for x = 0x38400180 the real product x·32767 is below 1.5 (nearest integer 1)
    but the float product is exactly 1.5, which `lrint` takes to the even neighbour 2; so "nearest integer to
    x·(2^(w−1)−1)" holds only up to the product's own rounding, as bounded in `float_write_inrange` -/
theorem double_rounding_witness :
    (f32.toDy 0x38400180).val * 32767 < 3 / 2 ∧
    (⟨16, false, false⟩ : PcmFmt).ofFloat f32 .sse2 true false 0x38400180 = 2 := by
  refine ⟨?_, by decide⟩
  have : f32.toDy 0x38400180 = ⟨false, 12583296, -38⟩ := by decide
  rw [this]; norm_num [Dy.val]

/-- the same statement for EVERY width and type, on the closed interval [−1, 1] — false, see below -/
def float_write_inrange_full : Prop :=
  ∀ (p : PcmFmt), PcmFmt.valid p → ∀ (f : Fmt), f.Std → ∀ (v : Variant) (x : Nat), |(f.toDy x).val| ≤ 1 →
    (p.ofFloat f v true false x).natAbs ≤ 2 ^ (p.w - 1) - 1

/-- **the examined case w = 32 from float**: `(float) 0x7FFFFFFF` is 2^31, so x = 1.0f gives the product 2^31, which is
    outside `int`; both build variants return INT_MIN (0x80000000).  (x = 1.0 is the closed end of the interval; the
    documented input range of the property statement is [−1, 1), which `float_write_w32_from_float` covers.) -/
theorem float_write_inrange_full_fails : ¬ float_write_inrange_full := by
  intro h
  have := h ⟨32, false, false⟩ (by unfold PcmFmt.valid; decide) f32 (Or.inl rfl) .sse2 0x3F800000 (by
    have : f32.toDy 0x3F800000 = ⟨false, 8388608, -23⟩ := by decide
    rw [this, Dy.abs_val]; norm_num [Dy.mag])
  revert this; decide

theorem float_write_w32_one_wraps (v : Variant) :
    (⟨32, false, false⟩ : PcmFmt).ofFloat f32 v true false 0x3F800000 = -2147483648 := by cases v <;> decide

/-- w = 32 from float, −1 ≤ x < 1 (the documented range): no wrap, and the code is exactly the integer nearest to
    x·2^31 (ties to even) — the scale is 2^31, not 2^31 − 1, because the normfact is rounded to float;
    for |x| ≤ 1 in general the only exception is the value 2^31 itself, stored as INT_MIN -/
theorem float_write_w32_from_float (p : PcmFmt) (hw : p.w = 32) (v : Variant) (x : Nat) :
    ((-1 ≤ (f32.toDy x).val ∧ (f32.toDy x).val < 1) →
      IsRNE ((f32.toDy x).val * 2 ^ 31) (p.ofFloat f32 v true false x) ∧ inRange 32 (p.ofFloat f32 v true false x)) ∧
    (|(f32.toDy x).val| ≤ 1 → ∃ r : ℤ, IsRNE ((f32.toDy x).val * 2 ^ 31) r ∧
      p.ofFloat f32 v true false x = if r = 2147483648 then -2147483648 else r) := by
  constructor
  · rintro ⟨h1, h2⟩
    obtain ⟨a, b, c⟩ := ofFloat_w32_f32_lt_one p hw v x h1 h2
    refine ⟨a, ?_⟩
    unfold inRange; omega
  · intro h
    obtain ⟨r, hr, _, _, hc⟩ := ofFloat_w32_f32 p hw v x h
    exact ⟨r, hr, hc⟩

example : (⟨32, false, true⟩ : PcmFmt).ofFloat f32 .sse2 true false 0x3F7FFFFF = 2147483520 ∧
    (⟨32, false, true⟩ : PcmFmt).ofFloat f32 .sse2 true false 0xBF800000 = -2147483648 := by decide

/-- **norm_off_passthrough**: normalisation off, clipping off: a finite integer-valued input inside the `int` range is
    stored as that integer (the byte store then keeps its low w bits; inside the sample range that is the integer) -/
theorem norm_off_passthrough (p : PcmFmt) (f : Fmt) (hf : f.Std) (v : Variant) (x : Nat) (hfin : f.isFinite x = true)
    (z : ℤ) (hz : (f.toDy x).val = z) (hr : inRange 32 z) : p.ofFloat f v false false x = z :=
  ofFloat_passthrough p f hf v x hfin z hz (by unfold inRange at hr; omega) (by unfold inRange at hr; omega)

example : f32.isFinite 0xC6FFFE00 = true ∧ (⟨16, false, false⟩ : PcmFmt).ofFloat f32 .sse2 false false 0xC6FFFE00 = -32767 := by
  decide

/-! ## 6. G.711 float entry: the table index stays inside the encode table -/

/-- `Law.encFloat` reads the encode table at `g711Index` (and nowhere else) -/
theorem g711_float_reads_index (l : G711.Law) (f : Fmt) (v : Variant) (norm : Bool) (x : Nat) :
    l.encFloat f v norm x =
      if (f.toDy x).nonneg then l.encTab (g711Index l f v norm x) else l.encTab (g711Index l f v norm x) % 128 :=
  encFloat_eq_index l f v norm x

/-- finite |x| ≤ 1, normalisation on: the index `|lrint (normfact·x)|` is within 0 … 8192 (µ-law, 8193-entry table)
    resp. 0 … 2048 (A-law, 2049-entry table): no out-of-bounds table read inside the documented input range -/
theorem g711_float_index_in_table (f : Fmt) (hf : f.Std) (v : Variant) (x : Nat) (hx : |(f.toDy x).val| ≤ 1) :
    g711Index G711.ulaw f v true x ≤ 8192 ∧ g711Index G711.alaw f v true x ≤ 2048 := by
  have h1 := g711_index_le G711.ulaw f hf v x hx 8192 (by decide) (by norm_num) (by norm_num)
    (by simp only [G711.ulaw]; norm_num)
  have h2 := g711_index_le G711.alaw f hf v x hx 2048 (by decide) (by norm_num) (by norm_num)
    (by simp only [G711.alaw]; norm_num)
  omega

example : g711Index G711.ulaw f32 .sse2 true 0x3F800000 = 8192 ∧ g711Index G711.alaw f64 .lrint true 0xBFF0000000000000 = 2048 ∧
    G711.ulaw.encFloat f32 .sse2 true 0x3F800000 = 0x80 := by decide


/-! ## 7. float / double files (float32.c, double64.c host paths) -/

/-- **scale_int_float_write_rule**: a short written to float or double data, and an int written to double data, is
    stored exactly as x (SFC_SET_SCALE_INT_FLOAT_WRITE off) or x / 2^15 resp. x / 2^31 (on) -/
theorem scale_int_float_write_rule (f : Fmt) (hf : f.Std) (scaleIF : Bool) (x : Int) :
    (inRange 16 x → (f.toDy (floatOfInt f scaleIF .s16 x)).val = (if scaleIF then (x : ℚ) / 2 ^ 15 else (x : ℚ))) ∧
    (inRange 32 x → (f64.toDy (floatOfInt f64 scaleIF .s32 x)).val = (if scaleIF then (x : ℚ) / 2 ^ 31 else (x : ℚ))) := by
  obtain ⟨r1, r2, r3, r4⟩ := std_ranges f hf
  have hpow : 2 ^ 24 ≤ 2 ^ (f.mbits + 1) := Nat.pow_le_pow_right (by omega) (by omega)
  constructor
  · intro hx
    unfold inRange at hx
    rw [(floatOfInt_exact f hf scaleIF .s16 x (by omega)).1]
    cases scaleIF <;> simp; norm_num [zpow_neg, div_eq_mul_inv]
  · intro hx
    unfold inRange at hx
    rw [(floatOfInt_exact f64 (Or.inr rfl) scaleIF .s32 x (by simp [f64]; omega)).1]
    cases scaleIF <;> simp; norm_num [zpow_neg, div_eq_mul_inv]

example : floatOfInt f32 true .s16 (-32768) = 0xBF800000 ∧ floatOfInt f64 true .s32 2147483647 = 0x3FEFFFFFFFC00000 ∧
    floatOfInt f32 false .s16 12345 = 0x4640E400 := by decide

/-- **float_int_read_rule**: float/double data read as short/int with scaling and clipping off is `lrint` of the stored
    value, truncated to the caller's type -/
theorem float_int_read_rule (f : Fmt) (hf : f.Std) (c : Conv) (ty : Ty) (x : Nat) (hx : x < 2 ^ f.width)
    (hfin : f.isFinite x = true) (hm : c.fiMult = false) (hc : c.clip = false) :
    intOfFloat f c ty x = wrapS (if ty = .s16 then 16 else 32) (lrintInt c.variant (f.toDy x)) :=
  intOfFloat_plain f hf c ty x hx hfin hm hc

example : intOfFloat f32 {} .s16 0x40200000 = 2 ∧ intOfFloat f32 {} .s16 0x40600000 = 4 ∧
    intOfFloat f64 {} .s32 0xC0F86A0000000000 = -100000 := by decide

end Sf.C02
