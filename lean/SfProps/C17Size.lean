/-
  SfProps.C17Size — the size guards of SFC_SET_CART_INFO / SFC_SET_BROADCAST_INFO cannot wrap (model: SfModel/CmdSize.lean), and the
  guard of the command model Sf.Command.varSet (unbounded Nat) IS the C guard.

  * `minSize_no_wrap` / `guard64_exact`: a `size_t` (64-bit) sum of an offset below 2^32 and a 32-bit field is the mathematical sum,
    so "accepted" means `offsetof + text_size ≤ datasize` for EVERY field value.
  * `safe_as_written`, `safe_field_bound_64`, `safe_site_a_alone`: three of the four (width, copy bound) combinations keep the copy
    inside datasize for every field value and every datasize.
  * `seeded_rule_reads_outside` (C17-cart-minsize-wrap: 32-bit sum AND the field as the copy bound): refuted by
    tag_text_size = 2^32 - 16, datasize = sizeof (SF_CART_INFO).
  * `varSet_guard_is_c_guard`: on every block the test of `Sf.Command.varSet` (`fixed + n > size`, n = the little-endian field) refuses
    exactly when the 64-bit C guard does.
-/
import SfModel.Command
import SfModel.CmdSize
namespace Sf.C17Size
open Sf Sf.CmdSize

theorem minSize_no_wrap (fixed n : Nat) (hf : fixed < 2 ^ 32) (hn : n < 2 ^ 32) : minSize 64 fixed n = fixed + n := by
  unfold minSize
  apply Nat.mod_eq_of_lt
  have : (2 : Nat) ^ 64 = 2 ^ 32 * 2 ^ 32 := by decide
  omega

theorem guard64_exact (fixed n size : Nat) (hf : fixed < 2 ^ 32) (hn : n < 2 ^ 32) :
    accepts 64 fixed n size = decide (fixed + n ≤ size) := by
  unfold accepts
  rw [minSize_no_wrap fixed n hf hn]
  by_cases h : fixed + n ≤ size
  · have : fixed ≤ size := by omega
    simp [h, this]
  · simp [h]

/-- the code as it is: 64-bit sum, copy bounded by datasize -/
theorem safe_as_written (fixed : Nat) : Safe 64 .byDatasize fixed := by
  intro n size _ h
  simp only [accepts, Bool.and_eq_true, decide_eq_true_eq] at h
  show decide (fixed + (size - fixed) ≤ size) = true
  exact decide_eq_true (by omega)

/-- site B alone (the field as the copy bound) is safe as long as the sum cannot wrap -/
theorem safe_field_bound_64 (fixed : Nat) (hf : fixed < 2 ^ 32) : Safe 64 .byField fixed := by
  intro n size hn h
  rw [guard64_exact fixed n size hf hn] at h
  exact h

/-- site A alone (32-bit sum) lets wrong structs through, but the copy stays inside datasize -/
theorem safe_site_a_alone (fixed : Nat) : Safe 32 .byDatasize fixed := by
  intro n size _ h
  simp only [accepts, Bool.and_eq_true, decide_eq_true_eq] at h
  show decide (fixed + (size - fixed) ≤ size) = true
  exact decide_eq_true (by omega)

/-- both sites together: the guard accepts tag_text_size = 2^32 - 16 at datasize = sizeof (SF_CART_INFO) and the copy is bounded by
    4 GiB of source (in fact by the 16 KiB destination): it reads past datasize -/
theorem seeded_rule_reads_outside : ¬ Safe 32 .byField Command.cartFixed := by
  intro h
  have := h (2 ^ 32 - 16) Command.szCart (by decide) (by decide)
  revert this
  decide

-- non-vacuity: an honest struct is accepted (and copied inside), a lying one is refused, under the rule as written
example : accepts 64 Command.cartFixed 10 Command.szCart = true ∧ copyInside .byDatasize Command.cartFixed 10 Command.szCart = true ∧
    accepts 64 Command.cartFixed (2 ^ 32 - 16) Command.szCart = false ∧ accepts 32 Command.cartFixed (2 ^ 32 - 16) Command.szCart = true := by
  decide

theorem rd32_lt (m : Nat → Nat) (o : Nat) : Command.rd32 m o < 2 ^ 32 := by
  unfold Command.rd32
  have h0 := Nat.mod_lt (m o) (by decide : 256 > 0)
  have h1 := Nat.mod_lt (m (o + 1)) (by decide : 256 > 0)
  have h2 := Nat.mod_lt (m (o + 2)) (by decide : 256 > 0)
  have h3 := Nat.mod_lt (m (o + 3)) (by decide : 256 > 0)
  have : (2 : Nat) ^ 32 = 4294967296 := by decide
  omega

/-- the command model's test `fixed + n > size` (Nat) refuses exactly the structs the C guard (64-bit) refuses, for every block
    content: the model quantifies over memory, and no field value makes the two differ -/
theorem varSet_guard_is_c_guard (m : Nat → Nat) (sizeOff fixed size : Nat) (hf : fixed < 2 ^ 32) :
    (fixed + Command.rd32 m sizeOff > size) ↔ accepts 64 fixed (Command.rd32 m sizeOff) size = false := by
  rw [guard64_exact fixed _ size hf (rd32_lt m sizeOff)]
  simp only [decide_eq_false_iff_not]
  omega

end Sf.C17Size
