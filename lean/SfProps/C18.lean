/-
  C18 — PEAK chunk data and the signal-max commands equal the true maxima.  Property theorems only.

  The PEAK bookkeeping is `Sf.peakUpdate` / `Sf.peakChunkUpdate` of SfModel.Handle (what float32.c / double64.c do);
  `Sf.Peak.run` iterates it over a list of write calls; `Sf.Peak.stepCalc` is psf_calc_signal_max /
  psf_calc_max_all_channels on the handle model.  Since the repairs of KF-C18-DOUBLE-NARROW (running maximum kept in a
  `double`) and KF-C18-STAGING-MISALIGN (staging buffer cut at whole frames) the PEAK half holds at full strength; the
  rules before the repairs are kept (`Sf.peakUpdateOld`, `Sf.Peak.runOld`) with their refutations as `…_old_rule` theorems.

  PEAK
  * `peak_is_max_first`             : for every FLOAT/DOUBLE file, channel count and sequence of well-formed calls (any caller
                                      types, any sizes, any split) the stored (value, position) of every channel is
                                      (max |x|, first frame attaining it) — value as exact rational and as bit pattern.
  * `peak_is_max_first_full_holds`  : the statement as given, now a theorem.
  * `peak_partition_independent`    : two call sequences writing the same samples end in the same PEAK state (list equality).
  * `peak_is_max_first_old_rule_fails`, `narrow_witness_old_rule`, `staging_misaligned_old_rule`,
    `peak_partition_old_rule_fails` : what the rules before the repairs did on the witnesses;
    `narrow_witness_run`, `staging_witness_run` : the repaired rule on the same inputs.
  * `peak_chunk_value_is_binary32`  : the chunk holds a binary32: a DOUBLE maximum re-opens as its rounding (format limit).
  * `chunk_roundtrip_wav`, `chunk_roundtrip_aiff` : chunk bytes parse back to (binary32 value, 32-bit position) for every PEAK list;
    CAF (64-bit positions): concrete instance only.
  CALC
  * `calc_scan_is_max`, `calc_scan_buffering`, `calc_scan_all_is_max` : the scans return the maximum magnitude (per channel).
  * `calc_restores_state`           : SFC_CALC_* on a read-only handle leave read position, conversion settings and bytes alone.
  * `calc_loop_keeps_file`, `calc_seek_back`, `calc_restores_state_witness`.
-/
import SfProofs.Peak
import SfProofs.PeakCalc
import SfProofs.PeakChunk
namespace Sf.C18
open Sf Sf.Float Sf.Peak

/-! ## PEAK: the statement as given -/

/-- magnitude (exact value) of the sample of channel `c` in frame `j` of everything written by `calls` -/
def mag (enc : Enc) (conv : Conv) (ch c : Nat) (calls : List (Ty × List Int)) (j : Nat) : ℚ :=
  colK (fileFmt enc) ch c (fileVals enc conv calls) j

/-- the same sample as the bit pattern of a double (|x| widened exactly) -/
def magBits (enc : Enc) (conv : Conv) (ch c : Nat) (calls : List (Ty × List Int)) (j : Nat) : Nat :=
  colW (fileFmt enc) ch c (fileVals enc conv calls) j

/-- total frames written -/
def framesOf (enc : Enc) (conv : Conv) (ch : Nat) (calls : List (Ty × List Int)) : Nat :=
  (fileVals enc conv calls).length / ch

/-- `ps` holds, for every channel, the maximum magnitude and the first frame where it occurs -/
def IsTruePeak (enc : Enc) (conv : Conv) (ch : Nat) (calls : List (Ty × List Int)) (ps : List Peak) : Prop :=
  ps.length = ch ∧ ∀ c < ch, ∃ q < framesOf enc conv ch calls,
    (ps.getD c {}).position = (q : Int) ∧ V64 (ps.getD c {}).value = mag enc conv ch c calls q ∧
    (∀ j < framesOf enc conv ch calls, mag enc conv ch c calls j ≤ mag enc conv ch c calls q) ∧
    (∀ j < q, mag enc conv ch c calls j < mag enc conv ch c calls q) ∧
    ((ps.getD c {}).value = magBits enc conv ch c calls q ∨ ((ps.getD c {}).value = 0 ∧ mag enc conv ch c calls q = 0))

/-- C18 (PEAK half) as stated: for every floating-point file, channel count and sequence of well-formed calls
    (`Sf.Peak.WellFormed`: a positive whole number of frames of finite samples) the stored per-channel (value, position)
    is (max |x|, first frame attaining it). -/
def peak_is_max_first_full : Prop :=
  ∀ (enc : Enc), enc.isFloatData = true → ∀ (conv : Conv) (ch : Nat), 0 < ch →
    ∀ calls : List (Ty × List Int), calls ≠ [] → (∀ call ∈ calls, WellFormed enc conv ch call) →
      ∃ ps, run enc conv ch (some (mkPeaks ch)) 0 calls = some ps ∧ IsTruePeak enc conv ch calls ps

theorem run_allInv (enc : Enc) (hfl : enc.isFloatData = true) (conv : Conv) (ch : Nat) (hch : 0 < ch)
    (calls : List (Ty × List Int)) (hgood : ∀ call ∈ calls, WellFormed enc conv ch call) :
    ∃ ps, run enc conv ch (some (mkPeaks ch)) 0 calls = some ps ∧
      AllInv (fileFmt enc) ch (fileVals enc conv calls) (framesOf enc conv ch calls) ps := by
  have h0 := run_inv enc hfl conv ch hch calls [] 0 [] (mkPeaks ch) hgood (by simp)
    (by simpa using allInv_init (fileFmt enc) ch (fileVals enc conv calls))
  obtain ⟨ps, hrun, hinv⟩ := h0
  simp only [List.nil_append, List.append_nil, Nat.zero_add] at hinv
  exact ⟨ps, by simpa using hrun, hinv⟩

/-- **The PEAK state after ANY sequence of well-formed calls is, per channel, the maximum magnitude written and the first
    frame where it occurs** — every caller type (conversion through the staging buffer included), every split, every
    channel count; no bound on sizes. -/
theorem peak_is_max_first (enc : Enc) (hfl : enc.isFloatData = true) (conv : Conv) (ch : Nat) (hch : 0 < ch)
    (calls : List (Ty × List Int)) (hne : calls ≠ []) (hgood : ∀ call ∈ calls, WellFormed enc conv ch call) :
    ∃ ps, run enc conv ch (some (mkPeaks ch)) 0 calls = some ps ∧ IsTruePeak enc conv ch calls ps := by
  obtain ⟨ps, hrun, hinv⟩ := run_allInv enc hfl conv ch hch calls hgood
  refine ⟨ps, hrun, hinv.1, ?_⟩
  intro c hc
  have hN : 0 < framesOf enc conv ch calls := by
    obtain ⟨call, cs, rfl⟩ := List.exists_cons_of_ne_nil hne
    obtain ⟨hpos, hmod, _⟩ := hgood call List.mem_cons_self
    unfold framesOf
    apply Nat.div_pos _ hch
    have : call.2.length ≤ (fileVals enc conv (call :: cs)).length := by simp [fileVals]
    exact le_trans (Nat.le_of_dvd hpos (Nat.dvd_of_mod_eq_zero hmod)) this
  obtain ⟨q, hq, hp, hv, hmax, hfirst, hb⟩ := PInv.final _ _ (colK_nonneg _ ch c _) _ hN _ _ _ (hinv.2 c hc)
  refine ⟨q, hq, hp, hv, hmax, hfirst, ?_⟩
  rcases hb with hb | ⟨hb, hv0⟩
  · exact Or.inl hb
  · exact Or.inr ⟨hb, hv.symm.trans hv0⟩

theorem peak_is_max_first_full_holds : peak_is_max_first_full :=
  fun enc hfl conv ch hch calls hne hgood => peak_is_max_first enc hfl conv ch hch calls hne hgood

/-- non-vacuity: stereo FLOAT file, three calls of different kinds (float frames, shorts, doubles), ties across calls and
    a negative maximum — and the concrete state the theorem describes -/
example : run (.flt false) {} 2 (some (mkPeaks 2)) 0
      [(.f32, [0x3F800000, 0xBF000000, 0x3F000000, 0xC0000000]), (.s16, [1, 2]), (.f64, [0xBFF0000000000000, 0x4000000000000000])] =
    some [{ value := 0x3FF0000000000000, position := 0 }, { value := 0x4000000000000000, position := 1 }] := by decide +kernel

example : WellFormed (.flt false) {} 2 (.s16, [1, 2]) := by
  refine ⟨by decide, by decide, ?_⟩
  intro x hx
  simp only [List.mem_cons, List.mem_nil_iff, or_false] at hx
  rcases hx with rfl | rfl <;> decide

/-! ## the witnesses of the two repaired defects, under the repaired rule and under the old one -/

def wa : Int := 0x3FF0000000400000   -- 1 + 2^-30
def wb : Int := 0x3FF0000000200000   -- 1 + 2^-31  (both narrow to 1.0f)

/-- one call [a, b] with a > b on a mono DOUBLE file: position 0 and the exact double (repaired rule) -/
theorem narrow_witness_run :
    run (.dbl false) {} 1 (some (mkPeaks 1)) 0 [(.f64, [wa, wb])] = some [{ value := 0x3FF0000000400000, position := 0 }] := by
  decide +kernel

/-- `float fmaxval` (before the repair): after a, the running maximum 1.0f < b, so the position moved to frame 1 -/
theorem narrow_witness_old_rule :
    runOld (.dbl false) {} 1 (some (mkPeaks 1)) 0 [(.f64, [wa, wb])] = some [{ value := 0x3FF0000000000000, position := 1 }] := by
  decide +kernel

/-- the full statement about the old rule -/
def peak_is_max_first_old_rule : Prop :=
  ∀ (enc : Enc), enc.isFloatData = true → ∀ (conv : Conv) (ch : Nat), 0 < ch →
    ∀ calls : List (Ty × List Int), calls ≠ [] → (∀ call ∈ calls, WellFormed enc conv ch call) →
      ∃ ps, runOld enc conv ch (some (mkPeaks ch)) 0 calls = some ps ∧ IsTruePeak enc conv ch calls ps

theorem peak_is_max_first_old_rule_fails : ¬ peak_is_max_first_old_rule := by
  intro hf
  obtain ⟨ps, hrun, _, hp⟩ := hf (.dbl false) rfl {} 1 (by decide) [(.f64, [wa, wb])] (by simp)
    (by
      intro call hc
      simp only [List.mem_singleton] at hc
      subst hc
      refine ⟨by decide, by decide, ?_⟩
      intro x hx
      simp only [List.mem_cons, List.mem_nil_iff, or_false] at hx
      rcases hx with rfl | rfl <;> decide)
  rw [narrow_witness_old_rule] at hrun
  obtain ⟨q, _, hpos, _, _, hfirst, _⟩ := hp 0 (by decide)
  have hps : ps = [{ value := 0x3FF0000000000000, position := 1 }] := (Option.some.inj hrun).symm
  subst hps
  have hq : q = 1 := by
    have : ((1 : Int)) = (q : Int) := hpos
    omega
  subst hq
  have h01 := hfirst 0 (by decide)
  have hgt : mag (.dbl false) {} 1 0 [(.f64, [wa, wb])] 1 < mag (.dbl false) {} 1 0 [(.f64, [wa, wb])] 0 := by
    unfold mag colK
    rw [← Dy.lt_iff]
    decide +kernel
  exact absurd h01 (not_lt.mpr (le_of_lt hgt))

/-- 3-channel DOUBLE file, one sf_write_short call of 1026 items (342 frames), the only non-zero sample (5.0) in channel 2 of
    the last frame.  Old rule: the staging buffer held 1024 doubles whatever the channel count, so the second PEAK update was
    made with `indx = 1024 / 3 = 341` on the buffer [0.0, 5.0], whose item 0 is channel 1 of frame 341: the maximum of
    channel 2 was credited to channel 1.  (Whole-call witness on the real library: findings/kf_c18_staging_misalign.txt.) -/
theorem staging_misaligned_old_rule :
    peakChunkUpdateOld Float.f64 3 0 ((1024 / 3 : Nat) : Int) [0, 0x4014000000000000] (mkPeaks 3) =
      [{ value := 0, position := 0 }, { value := 0x4014000000000000, position := 341 }, { value := 0, position := 0 }] := by
  decide +kernel

/-- repaired rule: the buffer holds `stagingLen f64 3 = 1023` items = 341 whole frames; the second buffer is the whole last
    frame [0.0, 0.0, 5.0] with `indx = 341`: channel 2 gets its maximum at frame 341 -/
theorem staging_witness_run :
    stagingLen Float.f64 3 = 1023 ∧
    peakChunkUpdate Float.f64 3 0 ((1023 / 3 : Nat) : Int) [0, 0, 0x4014000000000000] (mkPeaks 3) =
      [{ value := 0, position := 0 }, { value := 0, position := 0 }, { value := 0x4014000000000000, position := 341 }] := by
  decide +kernel

/-! ## partition independence -/

/-- the written samples, as the file-typed patterns, are all that matters: two sequences of well-formed calls (different
    splits, different caller types, items or frames calls) that put the same patterns into the file end in the same PEAK
    state — the same list of (value bits, position) -/
theorem peak_partition_independent (enc : Enc) (hfl : enc.isFloatData = true) (conv : Conv) (ch : Nat) (hch : 0 < ch)
    (calls1 calls2 : List (Ty × List Int))
    (hsame : fileVals enc conv calls1 = fileVals enc conv calls2)
    (hg1 : ∀ call ∈ calls1, WellFormed enc conv ch call) (hg2 : ∀ call ∈ calls2, WellFormed enc conv ch call) :
    run enc conv ch (some (mkPeaks ch)) 0 calls1 = run enc conv ch (some (mkPeaks ch)) 0 calls2 := by
  obtain ⟨ps1, hr1, hi1⟩ := run_allInv enc hfl conv ch hch calls1 hg1
  obtain ⟨ps2, hr2, hi2⟩ := run_allInv enc hfl conv ch hch calls2 hg2
  unfold framesOf at hi1 hi2
  rw [hsame] at hi1
  rw [hr1, hr2, allInv_unique _ _ _ _ _ _ hi1 hi2]

example : run (.dbl false) {} 1 (some (mkPeaks 1)) 0 [(.f64, [wa, wb])] =
    run (.dbl false) {} 1 (some (mkPeaks 1)) 0 [(.f64, [wa]), (.f64, [wb])] := by decide +kernel

/-- under the old rule the PEAK position depended on the split (the witness of C07.peak_position_depends_on_partition) -/
theorem peak_partition_old_rule_fails :
    runOld (.dbl false) {} 1 (some (mkPeaks 1)) 0 [(.f64, [wa, wb])] ≠
    runOld (.dbl false) {} 1 (some (mkPeaks 1)) 0 [(.f64, [wa]), (.f64, [wb])] := by decide +kernel

/-- the chunk field is a binary32 (by the PEAK chunk's definition, in every container): the handle keeps the exact double
    1 + 2^-30, the file holds 1.0f, which is what SFC_GET_SIGNAL_MAX reports after re-open -/
theorem peak_chunk_value_is_binary32 :
    parseChunk .wavLE 1 (chunkBytes .wavLE 1 [{ value := wa.toNat, position := 0 }]) =
      some [{ value := 0x3FF0000000000000, position := 0 }] := by decide +kernel

/-! ## the chunk parses back -/

/-- WAV / WAVEX / RF64 (little-endian) and RIFX (big-endian): for every PEAK list of the right length the chunk written by
    `chunkBytes` is accepted by `parseChunk` and yields, per channel, the binary32 the writer stored (widened) and the
    low 32 bits of the position -/
theorem chunk_roundtrip_wav (big : Bool) (ch : Nat) (ps : List Peak) (hl : ps.length = ch) (hch : ch ≤ 1024) :
    parseChunk (if big then .wavBE else .wavLE) ch (chunkBytes (if big then .wavBE else .wavLE) ch ps) = some (ps.map held32) := by
  obtain ⟨h1, h2⟩ := chunk_parse_32 big ch ps hl hch
  cases big
  · have h1' : rd32 false (chunkBytes .wavLE ch ps) 4 = 8 + 8 * ch := h1
    have h2' : parsePeaks false (chunkBytes .wavLE ch ps) 16 ch = ps.map held32 := h2
    simp only [Bool.false_eq_true, if_false, parseChunk, h1', h2', bne_self_eq_false]
  · have h1' : rd32 true (chunkBytes .wavBE ch ps) 4 = 8 + 8 * ch := h1
    have h2' : parsePeaks true (chunkBytes .wavBE ch ps) 16 ch = ps.map held32 := h2
    simp only [if_true, parseChunk, h1', h2', bne_self_eq_false, Bool.false_eq_true, if_false]

/-- AIFF: the same layout, big-endian -/
theorem chunk_roundtrip_aiff (ch : Nat) (ps : List Peak) (hl : ps.length = ch) (hch : ch ≤ 1024) :
    parseChunk .aiff ch (chunkBytes .aiff ch ps) = some (ps.map held32) := by
  obtain ⟨h1, h2⟩ := chunk_parse_32 true ch ps hl hch
  have h1' : rd32 true (chunkBytes .aiff ch ps) 4 = 8 + 8 * ch := h1
  have h2' : parsePeaks true (chunkBytes .aiff ch ps) 16 ch = ps.map held32 := h2
  simp only [parseChunk, h1', h2', bne_self_eq_false, Bool.false_eq_true, if_false]

/-- CAF ('peak', 64-bit size and positions): a concrete instance -/
example : parseChunk .caf 2 (chunkBytes .caf 2 [{ value := 0x3FF0000000000000, position := 7 }, { value := 0x4000000000000000, position := 4294967301 }]) =
    some [{ value := 0x3FF0000000000000, position := 7 }, { value := 0x4000000000000000, position := 4294967301 }] := by decide +kernel

/-! ## CALC -/

/-- SFC_CALC_SIGNAL_MAX: for ANY sequence of buffers the read loop delivers, the result `r` of the scan satisfies
    |x| ≤ r for every decoded sample x, and r is the magnitude of one of them (or 0 for an empty / all-zero stream):
    r is the true maximum absolute value. -/
theorem calc_scan_is_max (bufs : List (List Nat)) :
    (∀ x ∈ bufs.flatten, V64 (absD x) ≤ V64 (bufs.foldl foldMax 0)) ∧
    (bufs.foldl foldMax 0 = 0 ∨ ∃ x ∈ bufs.flatten, bufs.foldl foldMax 0 = absD x) := by
  rw [foldMax_flatten]
  obtain ⟨_, h2, h3⟩ := foldMax_spec bufs.flatten 0
  exact ⟨h2, h3⟩

/-- the result does not depend on how the stream is cut into buffers (1024 − 1024 % channels items in the library) -/
theorem calc_scan_buffering (bufs1 bufs2 : List (List Nat)) (h : bufs1.flatten = bufs2.flatten) :
    bufs1.foldl foldMax 0 = bufs2.foldl foldMax 0 := by
  rw [foldMax_flatten, foldMax_flatten, h]

example : calcSignalMax 2 [0x3FF0000000000000, 0xC000000000000000, 0xBFF8000000000000, 0x3FE0000000000000] = 0x4000000000000000 := by
  decide +kernel
example : calcMaxAll 2 [0x3FF0000000000000, 0xC000000000000000, 0xBFF8000000000000, 0x3FE0000000000000] =
    [0x3FF8000000000000, 0x4000000000000000] := by decide +kernel

/-- the read loop of the four CALC commands on a read-only handle: the handle still describes the same file (encoding,
    conversion settings incl. both normalisation flags, channels, frames, data offset, mode), no file byte changed, the
    handle invariant holds -/
theorem calc_loop_keeps_file (fuel : Nat) (h : H) (s : Store) (a : Acc) (hi : HInv h s) (hm : h.mode = .r) :
    SameFile h (calcLoop fuel h s a).1 ∧ (calcLoop fuel h s a).2.1.bytes = s.bytes ∧
    HInv (calcLoop fuel h s a).1 (calcLoop fuel h s a).2.1 :=
  calcLoop_keeps fuel h s a hi hm

/-- the seek that ends the command puts the read position back to any frame 0 … frames it was at -/
theorem calc_seek_back (h : H) (s : Store) (k : Int) (hi : HInv h s) (hm : h.mode = .r) (hk0 : 0 ≤ k) (hk : k ≤ h.frames) :
    (stepSeek h s k 0).1.rpos = k ∧ SameFile h (stepSeek h s k 0).1 ∧ (stepSeek h s k 0).2.1.bytes = s.bytes :=
  let ⟨a, b, c, _⟩ := seek_set_r h s k hi hm hk0 hk
  ⟨a, b, c⟩

/-- a 2-channel 16-bit RAW file of 3 frames, read position 2, norm_double off: SFC_CALC_NORM_MAX_ALL_CHANNELS returns the
    per-channel maxima and leaves position, flags and bytes as they were -/
def cS : Store := { bytes := [1, 0, 0xFE, 0xFF, 3, 0, 4, 0, 0xFB, 0xFF, 6, 0], pos := 0 }

theorem calc_restores_state_witness :
    (match openHandle 0 cS .r 0x040002 2 8000 with
     | .ok h s =>
        let h := (stepCmdFlag h s 0x1012 0).1
        let r0 := stepSeek h s 2 0
        let r := stepCalc r0.1 r0.2.1 true
        decide (r.1.rpos = 2 ∧ r.1.conv.normD = false ∧ r.1.conv.normF = true ∧ r.2.1.bytes = cS.bytes ∧
                r.2.2.all.1 = [0x3F24000000000000, 0x3F28000000000000] ∧ r.2.2.sig = 0x3F28000000000000)
     | _ => false) = true := by decide +kernel


/-- SFC_CALC_MAX_ALL_CHANNELS: for ANY sequence of buffers, entry `c` of the result dominates the magnitude of every sample
    the scan credits to channel `c` — the samples at offsets `i` with `i % channels = c` of the stream — and is one of them
    (or 0): the true per-channel maximum. -/
theorem calc_scan_all_is_max (ch : Nat) (hch : 0 < ch) (bufs : List (List Nat)) (c : Nat) (hc : c < ch) :
    let r := ((bufs.foldl (foldMaxAll ch) (List.replicate ch 0, 0)).1).getD c 0
    (∀ i, ∀ h : i < bufs.flatten.length, i % ch = c → V64 (absD bufs.flatten[i]) ≤ V64 r) ∧
    (r = 0 ∨ ∃ i, ∃ h : i < bufs.flatten.length, i % ch = c ∧ r = absD bufs.flatten[i]) := by
  intro r
  have hr : r = foldMax 0 (chanSub ch c 0 bufs.flatten) := by
    show ((bufs.foldl (foldMaxAll ch) (List.replicate ch 0, 0)).1).getD c 0 = _
    rw [foldMaxAll_flatten, (foldMaxAll_spec ch c hch bufs.flatten (List.replicate ch 0) 0 (by simp) hch).1]
    simp [List.getD, hc]
  obtain ⟨_, h2, h3⟩ := foldMax_spec (chanSub ch c 0 bufs.flatten) 0
  rw [← hr] at h2 h3
  constructor
  · intro i hi hm
    apply h2
    exact (mem_chanSub ch c hch hc bufs.flatten 0 hch _).mpr ⟨i, hi, rfl, by simpa using hm⟩
  · rcases h3 with h | ⟨x, hx, h⟩
    · exact Or.inl h
    · obtain ⟨i, hi, hxi, hm⟩ := (mem_chanSub ch c hch hc bufs.flatten 0 hch x).mp hx
      exact Or.inr ⟨i, hi, by simpa using hm, by rw [h, hxi]⟩

/-- **SFC_CALC_SIGNAL_MAX, SFC_CALC_NORM_SIGNAL_MAX, SFC_CALC_MAX_ALL_CHANNELS and SFC_CALC_NORM_MAX_ALL_CHANNELS on a
    read-only handle leave the read position, every conversion setting (norm_double, norm_float, clipping, scale flags),
    the frame count and the file bytes as they were, and report no error** — for every handle state satisfying the
    handle invariant (any position 0 … frames, any flags), RAW / AU / WAV sample-granular encodings. -/
theorem calc_restores_state (h : H) (s : Store) (normalize : Bool) (hi : HInv h s) (hm : h.mode = .r) :
    (stepCalc h s normalize).1.rpos = h.rpos ∧ (stepCalc h s normalize).1.conv = h.conv ∧
    (stepCalc h s normalize).2.1.bytes = s.bytes ∧ (stepCalc h s normalize).1.frames = h.frames ∧
    (stepCalc h s normalize).1.error = 0 :=
  stepCalc_restores_r h s normalize hi hm

end Sf.C18
