/-
  C18 — PEAK chunk data and the signal-max commands equal the true maxima.  Property theorems only.

  The PEAK bookkeeping is `Sf.peakUpdate` / `Sf.peakChunkUpdate` of SfModel.Handle (what float32.c / double64.c do,
  bug for bug); `Sf.Peak.run` iterates it over a list of write calls; `Sf.Peak.stepCalc` is psf_calc_signal_max /
  psf_calc_max_all_channels on the handle model.

  PEAK
  * `peak_is_max_first_full`        : the statement as given (any FLOAT/DOUBLE file, any channel count, any calls).
  * `peak_is_max_first_full_fails`  : refuted — DOUBLE data whose magnitude needs more than 24 bits (defect KF-C18-DOUBLE-NARROW);
    `staging_misaligned_witness`    : a converted call longer than the staging buffer with channels ∤ chunk size credits
                                      the wrong channel (defect KF-C18-STAGING-MISALIGN).
  * `peak_is_max_first`             : the partial theorem — outside those two classes (`Sf.Peak.GoodCall`) the stored
                                      (value, position) of every channel is (max |x|, first frame attaining it), for every
                                      split of the samples into calls.
  * `peak_partition_independent`    : two call sequences writing the same samples (both outside the classes) end in the same
                                      PEAK values and positions;  `peak_partition_full_fails` : refuted in general.
  * `peak_value_not_exact_double`   : what goes into the chunk is a binary32; for DOUBLE data this is not the double written.
  CALC
  * `calc_scan_is_max`              : the scan of psf_calc_signal_max returns the maximum magnitude of the decoded stream
                                      (dominates every sample, is one of them or 0), whatever the buffering (`calc_scan_buffering`);
  * `calc_loop_keeps_file`          : the read loop of the CALC commands changes no file byte, no conversion setting, nothing a
                                      read depends on except the read position; `calc_seek_back` : the final seek restores it;
  * `calc_restores_state_witness`   : the assembled command on a concrete handle (position, norm flags, bytes as before).
    The assembled universal statement for `stepCalc` is not proved yet (see the report); it is covered by correspondence.
-/
import SfProofs.Peak
import SfProofs.PeakCalc
namespace Sf.C18
open Sf Sf.Float Sf.Peak

/-! ## PEAK: the statement as given -/

/-- magnitude (exact value) of the sample of channel `c` in frame `j` of everything written by `calls` -/
def mag (enc : Enc) (conv : Conv) (ch c : Nat) (calls : List (Ty × List Int)) (j : Nat) : ℚ :=
  colK (fileFmt enc) ch c (fileVals enc conv calls) j

/-- total frames written -/
def framesOf (enc : Enc) (conv : Conv) (ch : Nat) (calls : List (Ty × List Int)) : Nat :=
  (fileVals enc conv calls).length / ch

/-- `ps` holds, for every channel, the maximum magnitude and the first frame where it occurs -/
def IsTruePeak (enc : Enc) (conv : Conv) (ch : Nat) (calls : List (Ty × List Int)) (ps : List Peak) : Prop :=
  ps.length = ch ∧ ∀ c < ch, ∃ q < framesOf enc conv ch calls,
    (ps.getD c {}).position = (q : Int) ∧ V64 (ps.getD c {}).value = mag enc conv ch c calls q ∧
    (∀ j < framesOf enc conv ch calls, mag enc conv ch c calls j ≤ mag enc conv ch c calls q) ∧
    (∀ j < q, mag enc conv ch c calls j < mag enc conv ch c calls q)

/-- a well-formed call: a positive whole number of frames of finite samples -/
def WellFormed (enc : Enc) (conv : Conv) (ch : Nat) (call : Ty × List Int) : Prop :=
  0 < call.2.length ∧ call.2.length % ch = 0 ∧
  ∀ x ∈ call.2, (fileFmt enc).isFinite (convVal enc conv call.1 x) = true

/-- C18 (PEAK half) as stated: for every floating-point file, channel count and sequence of well-formed calls the
    stored per-channel (value, position) is (max |x|, first frame attaining it). -/
def peak_is_max_first_full : Prop :=
  ∀ (enc : Enc), enc.isFloatData = true → ∀ (conv : Conv) (ch : Nat), 0 < ch →
    ∀ calls : List (Ty × List Int), calls ≠ [] → (∀ call ∈ calls, WellFormed enc conv ch call) →
      ∃ ps, run enc conv ch (some (mkPeaks ch)) 0 calls = some ps ∧ IsTruePeak enc conv ch calls ps

/-! ## … fails: `float fmaxval` in double64_peak_update (KF-C18-DOUBLE-NARROW) -/

def wa : Int := 0x3FF0000000400000   -- 1 + 2^-30
def wb : Int := 0x3FF0000000200000   -- 1 + 2^-31  (both narrow to 1.0f)

/-- one call [a, b] with a > b on a mono DOUBLE file: the model (and the library) store position 1 -/
theorem narrow_witness_run :
    run (.dbl false) {} 1 (some (mkPeaks 1)) 0 [(.f64, [wa, wb])] = some [{ value := 0x3FF0000000000000, position := 1 }] := by
  decide +kernel

theorem peak_is_max_first_full_fails : ¬ peak_is_max_first_full := by
  intro hf
  obtain ⟨ps, hrun, _, hp⟩ := hf (.dbl false) rfl {} 1 (by decide) [(.f64, [wa, wb])] (by simp)
    (by
      intro call hc
      simp only [List.mem_singleton] at hc
      subst hc
      refine ⟨by decide, by decide, ?_⟩
      intro x hx
      simp only [List.mem_cons, List.mem_nil_iff, or_false] at hx
      rcases hx with rfl | rfl <;> decide)
  rw [narrow_witness_run] at hrun
  obtain ⟨q, _, hpos, _, _, hfirst⟩ := hp 0 (by decide)
  have hps : ps = [{ value := 0x3FF0000000000000, position := 1 }] := (Option.some.inj hrun).symm
  subst hps
  have hq : q = 1 := by
    have : ((1 : Int)) = (q : Int) := hpos
    omega
  subst hq
  have h01 := hfirst 0 (by decide)
  -- but |a| > |b|
  have hgt : mag (.dbl false) {} 1 0 [(.f64, [wa, wb])] 1 < mag (.dbl false) {} 1 0 [(.f64, [wa, wb])] 0 := by
    unfold mag colK
    rw [← Dy.lt_iff]
    decide +kernel
  exact absurd h01 (not_lt.mpr (le_of_lt hgt))

/-- the stored value is not the double that was written: 1 + 2^-30 is stored as 1.0 -/
theorem peak_value_not_exact_double :
    ∃ ps, run (.dbl false) {} 1 (some (mkPeaks 1)) 0 [(.f64, [wa])] = some ps ∧
      (ps.getD 0 {}).value ≠ wa.toNat := by
  refine ⟨[{ value := 0x3FF0000000000000, position := 0 }], by decide +kernel, by decide⟩

/-! ## … and: one PEAK update per staging-buffer chunk restarts channel counting (KF-C18-STAGING-MISALIGN) -/

/-- 3-channel DOUBLE file, one sf_write_short call of 1026 items (342 frames), the only non-zero sample (5.0) in
    channel 2 of the last frame.  The staging buffer holds 1024 doubles, so the call is processed as the chunks
    items 0…1023 and items 1024, 1025; the second PEAK update is made with `indx = 1024 / 3 = 341` on the buffer
    [0.0, 5.0], whose item 0 is channel 1 of frame 341 and item 1 is channel 2.  `peakChunkUpdate` (like the C code)
    takes item k of the chunk for channel k: the maximum of channel 2 is credited to channel 1, channel 2 stays at zero.
    (The whole-call witness on the real library is findings/kf_c18_staging_misalign.txt.) -/
theorem staging_misaligned_witness :
    peakChunkUpdate Float.f64 3 0 ((1024 / 3 : Nat) : Int) [0, 0x4014000000000000] (mkPeaks 3) =
      [{ value := 0, position := 0 }, { value := 0x4014000000000000, position := 341 }, { value := 0, position := 0 }] := by
  decide +kernel

/-! ## the partial theorem -/

/-- Outside the two defect classes — every call is handed to the PEAK update in one piece (caller type = file type, or
    it fits the staging buffer) and every magnitude is exactly representable in binary32 (always so for FLOAT files) —
    the PEAK state after ANY sequence of calls is, per channel, the maximum magnitude written and the first frame where
    it occurs.  No bound on the number of calls, their sizes or the channel count. -/
theorem peak_is_max_first (enc : Enc) (hfl : enc.isFloatData = true) (conv : Conv) (ch : Nat) (hch : 0 < ch)
    (calls : List (Ty × List Int)) (hne : calls ≠ []) (hgood : ∀ call ∈ calls, GoodCall enc conv ch call) :
    ∃ ps, run enc conv ch (some (mkPeaks ch)) 0 calls = some ps ∧ IsTruePeak enc conv ch calls ps := by
  have h0 := run_inv enc hfl conv ch hch calls [] 0 [] (mkPeaks ch) hgood (by simp)
    (by simpa using allInv_init (fileFmt enc) ch (fileVals enc conv calls))
  obtain ⟨ps, hrun, hinv⟩ := h0
  simp only [List.nil_append, List.append_nil, Nat.zero_add] at hinv
  refine ⟨ps, by simpa using hrun, hinv.1, ?_⟩
  intro c hc
  have hN : 0 < framesOf enc conv ch calls := by
    obtain ⟨call, cs, rfl⟩ := List.exists_cons_of_ne_nil hne
    obtain ⟨hpos, hmod, _, _⟩ := hgood call List.mem_cons_self
    unfold framesOf
    apply Nat.div_pos _ hch
    have : call.2.length ≤ (fileVals enc conv (call :: cs)).length := by simp [fileVals]
    exact le_trans (Nat.le_of_dvd hpos (Nat.dvd_of_mod_eq_zero hmod)) this
  exact PInv.final _ (colK_nonneg _ ch c _) _ hN _ _ (hinv.2 c hc)

/-- non-vacuity: stereo FLOAT file, three calls of different kinds (float frames, shorts, doubles), ties across calls and
    a negative maximum — and the concrete state the theorem describes -/
example : ∀ call ∈ [((.f32 : Ty), [0x3F800000, 0xBF000000, 0x3F000000, 0xC0000000]), (.s16, [1, 2]), (.f64, [0xBFF0000000000000, 0x4000000000000000])],
    SingleChunk (.flt false) call.1 call.2.length := by
  intro call hc
  simp only [List.mem_cons, List.mem_nil_iff, or_false] at hc
  rcases hc with rfl | rfl | rfl
  · left; rfl
  · right; decide
  · right; decide

example : run (.flt false) {} 2 (some (mkPeaks 2)) 0
      [(.f32, [0x3F800000, 0xBF000000, 0x3F000000, 0xC0000000]), (.s16, [1, 2]), (.f64, [0xBFF0000000000000, 0x4000000000000000])] =
    some [{ value := 0x3FF0000000000000, position := 0 }, { value := 0x4000000000000000, position := 1 }] := by decide +kernel

/-! ## partition independence -/

/-- the written samples, as the file-typed patterns, are all that matters: two call sequences (different splits, different
    caller types, items or frames calls) that put the same patterns into the file and stay outside the defect classes end
    with the same peak value and the same peak position in every channel -/
theorem peak_partition_independent (enc : Enc) (hfl : enc.isFloatData = true) (conv : Conv) (ch : Nat) (hch : 0 < ch)
    (calls1 calls2 : List (Ty × List Int)) (hne1 : calls1 ≠ []) (hne2 : calls2 ≠ [])
    (hsame : fileVals enc conv calls1 = fileVals enc conv calls2)
    (hg1 : ∀ call ∈ calls1, GoodCall enc conv ch call) (hg2 : ∀ call ∈ calls2, GoodCall enc conv ch call) :
    ∃ ps1 ps2, run enc conv ch (some (mkPeaks ch)) 0 calls1 = some ps1 ∧ run enc conv ch (some (mkPeaks ch)) 0 calls2 = some ps2 ∧
      ∀ c < ch, (ps1.getD c {}).position = (ps2.getD c {}).position ∧ V64 (ps1.getD c {}).value = V64 (ps2.getD c {}).value := by
  obtain ⟨ps1, hr1, _, hp1⟩ := peak_is_max_first enc hfl conv ch hch calls1 hne1 hg1
  obtain ⟨ps2, hr2, _, hp2⟩ := peak_is_max_first enc hfl conv ch hch calls2 hne2 hg2
  refine ⟨ps1, ps2, hr1, hr2, ?_⟩
  intro c hc
  obtain ⟨q1, hq1, hpos1, hv1, hmax1, hfirst1⟩ := hp1 c hc
  obtain ⟨q2, hq2, hpos2, hv2, hmax2, hfirst2⟩ := hp2 c hc
  unfold mag framesOf at *
  rw [hsame] at hq1 hv1 hmax1 hfirst1
  have hqq : q1 = q2 := by
    rcases Nat.lt_trichotomy q1 q2 with h | h | h
    · have := hfirst2 q1 h; have := hmax1 q2 hq2; linarith
    · exact h
    · have := hfirst1 q2 h; have := hmax2 q1 hq1; linarith
  subst hqq
  exact ⟨by rw [hpos1, hpos2], by rw [hv1, hv2]⟩

/-- in general the PEAK position does depend on the split (same witness as C07.peak_position_depends_on_partition) -/
theorem peak_partition_full_fails :
    run (.dbl false) {} 1 (some (mkPeaks 1)) 0 [(.f64, [wa, wb])] ≠
    run (.dbl false) {} 1 (some (mkPeaks 1)) 0 [(.f64, [wa]), (.f64, [wb])] := by decide +kernel


/-! ## CALC -/

/-- SFC_CALC_SIGNAL_MAX: for ANY sequence of buffers the read loop delivers, the result `r` of the scan satisfies
    |x| ≤ r for every decoded sample x, and r is the magnitude of one of them (or 0 for an empty / all-zero stream):
    r is the true maximum absolute value. -/
theorem calc_scan_is_max (bufs : List (List Nat)) :
    (∀ x ∈ bufs.flatten, V64 (absD x) ≤ V64 (bufs.foldl foldMax 0)) ∧
    (bufs.foldl foldMax 0 = 0 ∨ ∃ x ∈ bufs.flatten, bufs.foldl foldMax 0 = absD x) := by
  rw [foldMax_flatten]
  obtain ⟨_, h2, h3⟩ := foldMax_spec bufs.flatten 0
  exact ⟨h2, h3⟩

/-- the result does not depend on how the stream is cut into buffers (1024 − 1024 % channels items in the library) -/
theorem calc_scan_buffering (bufs1 bufs2 : List (List Nat)) (h : bufs1.flatten = bufs2.flatten) :
    bufs1.foldl foldMax 0 = bufs2.foldl foldMax 0 := by
  rw [foldMax_flatten, foldMax_flatten, h]

example : calcSignalMax 2 [0x3FF0000000000000, 0xC000000000000000, 0xBFF8000000000000, 0x3FE0000000000000] = 0x4000000000000000 := by
  decide +kernel
example : calcMaxAll 2 [0x3FF0000000000000, 0xC000000000000000, 0xBFF8000000000000, 0x3FE0000000000000] =
    [0x3FF8000000000000, 0x4000000000000000] := by decide +kernel

/-- the read loop of the four CALC commands on a read-only handle: the handle still describes the same file (encoding,
    conversion settings incl. both normalisation flags, channels, frames, data offset, mode), no file byte changed, the
    handle invariant holds -/
theorem calc_loop_keeps_file (fuel : Nat) (h : H) (s : Store) (a : Acc) (hi : HInv h s) (hm : h.mode = .r) :
    SameFile h (calcLoop fuel h s a).1 ∧ (calcLoop fuel h s a).2.1.bytes = s.bytes ∧
    HInv (calcLoop fuel h s a).1 (calcLoop fuel h s a).2.1 :=
  calcLoop_keeps fuel h s a hi hm

/-- the seek that ends the command puts the read position back to any frame 0 … frames it was at -/
theorem calc_seek_back (h : H) (s : Store) (k : Int) (hi : HInv h s) (hm : h.mode = .r) (hk0 : 0 ≤ k) (hk : k ≤ h.frames) :
    (stepSeek h s k 0).1.rpos = k ∧ SameFile h (stepSeek h s k 0).1 ∧ (stepSeek h s k 0).2.1.bytes = s.bytes :=
  let ⟨a, b, c, _⟩ := seek_set_r h s k hi hm hk0 hk
  ⟨a, b, c⟩

/-- a 2-channel 16-bit RAW file of 3 frames, read position 2, norm_double off: SFC_CALC_NORM_MAX_ALL_CHANNELS returns the
    per-channel maxima and leaves position, flags and bytes as they were -/
def cS : Store := { bytes := [1, 0, 0xFE, 0xFF, 3, 0, 4, 0, 0xFB, 0xFF, 6, 0], pos := 0 }

theorem calc_restores_state_witness :
    (match openHandle 0 cS .r 0x040002 2 8000 with
     | .ok h s =>
        let h := (stepCmdFlag h s 0x1012 0).1
        let r0 := stepSeek h s 2 0
        let r := stepCalc r0.1 r0.2.1 true
        decide (r.1.rpos = 2 ∧ r.1.conv.normD = false ∧ r.1.conv.normF = true ∧ r.2.1.bytes = cS.bytes ∧
                r.2.2.all.1 = [0x3F24000000000000, 0x3F28000000000000] ∧ r.2.2.sig = 0x3F28000000000000)
     | _ => false) = true := by decide +kernel

end Sf.C18
