/-
  C20 — G.711 decoding and encoding do not depend on what the process did before (round 8, class "process-wide kernel state").

  The model's G.711 kernels take the normalisation flag as an ARGUMENT (`Sf.Enc.decode e conv ty`, `Sf.G711.Law.decFloat f norm`):
  there is no table built on first use and no cached scale.  Stated over histories: a process is a list of requests
  (law, conversion settings of the handle, caller type, codes); `answers` serves them one after the other.

  * `g711_decode_own_flag_only`          : a read of caller type `ty` looks at `conv.norm ty` only (the float switch does not reach the
                                           double reader and vice versa, neither reaches the int readers);
  * `g711_float_read_order_independent`  : the answer to a request inside ANY history is its answer in a fresh process;
  * `g711_history_permutation`           : permuting a history permutes the answers;
  * `g711_encode_order_independent`      : the same for the encoders;
  * `cached_table_rule_fails`            : a kernel that builds its float table with the FIRST caller's flag (the shape of the class the
                                           campaign vlib/g711order.py looks for) answers a later request wrongly — the property bites.
-/
import SfModel.Pcm
import Mathlib.Data.List.Perm.Basic
namespace Sf.C20Order
open Sf

/-- one read request: law (`Enc.ulaw` / `Enc.alaw`), the handle's settings, caller type, the stored codes -/
structure Req where
  e : Enc
  conv : Conv
  ty : Ty
  codes : List Byte

def answer (r : Req) : List Int := r.e.decodeAll r.conv r.ty r.codes

/-- the process: requests served one after the other (no state is carried) -/
def answers (hist : List Req) : List (List Int) := hist.map answer

theorem g711_decode_own_flag_only (e : Enc) (he : e = .ulaw ∨ e = .alaw) (c c' : Conv) (ty : Ty)
    (h : c.norm ty = c'.norm ty) (bs : List Byte) : e.decode c ty bs = e.decode c' ty bs := by
  rcases he with rfl | rfl <;> cases ty <;> simp_all [Enc.decode, Conv.norm]

/-- the answer to request `i` of any history is the answer of that request alone in a fresh process -/
theorem g711_float_read_order_independent (before after : List Req) (r : Req) :
    (answers (before ++ r :: after))[before.length]? = some (answers [r]).head! := by
  simp [answers]

theorem g711_history_permutation (h1 h2 : List Req) (hp : h1.Perm h2) : (answers h1).Perm (answers h2) :=
  hp.map answer

/-- write requests: the closed data region of one handle -/
structure WReq where
  e : Enc
  conv : Conv
  ty : Ty
  items : List Int

def wanswer (r : WReq) : List Byte := r.e.encodeAll r.conv r.ty r.items
def wanswers (hist : List WReq) : List (List Byte) := hist.map wanswer

theorem g711_encode_order_independent (before after : List WReq) (r : WReq) :
    (wanswers (before ++ r :: after))[before.length]? = some (wanswers [r]).head! := by
  simp [wanswers]

/-- non-vacuity: µ-law code 0x00 read as float, normalisation on and then off on another handle: −32124 / 32768 and −32124.0 -/
example : answers [⟨.ulaw, {}, .f32, [0]⟩, ⟨.ulaw, { normF := false }, .f32, [0]⟩] = [[0xBF7AF800], [0xC6FAF800]] := by decide +kernel

/-! ### the class the campaign looks for: a float table cached with the first caller's flag -/

/-- process-wide state: the flag the table was built with (none yet) -/
def cachedStep (st : Option Bool) (r : Req) : Option Bool × List Int :=
  if r.ty = .f32 then
    let flag := st.getD r.conv.normF
    (some flag, r.e.decodeAll { r.conv with normF := flag } r.ty r.codes)
  else (st, answer r)

def cachedAnswers : Option Bool → List Req → List (List Int)
  | _, [] => []
  | st, r :: rs => (cachedStep st r).2 :: cachedAnswers (cachedStep st r).1 rs

/-- with such a kernel the second request of the history above is answered with the first one's scale -/
theorem cached_table_rule_fails :
    cachedAnswers none [⟨.ulaw, {}, .f32, [0]⟩, ⟨.ulaw, { normF := false }, .f32, [0]⟩] ≠
      answers [⟨.ulaw, {}, .f32, [0]⟩, ⟨.ulaw, { normF := false }, .f32, [0]⟩] := by decide +kernel

end Sf.C20Order
