-- properties: C05
/-
  C07 / C05 (GSM 06.10 ENCODER) — the `int32_t` (`longword`) accumulations of the encoder never overflow, for EVERY input
  block: signed overflow would be undefined behaviour in C, and the model's `w32` at those sites would wrap where the C
  might do anything.  Proved here: at each site the wrapping fold equals the exact integer sum.

    `gsm_autocorr_scaled_range`     after the dynamic scaling of `Autocorrelation` every sample lies in [−2048, 2048]
                                    (whatever the 160 int16 samples are: scalauto = 4 − norm (smax << 16) is exactly
                                    what brings the block maximum below 2^11)
    `gsm_autocorr_no_overflow`      hence for every lag k = 0 … 8 the nine L_ACF sums — products taken through the `float`
                                    multiplication of the USE_FLOAT_MUL build, exactly (|product| ≤ 2^22 < 2^24) — are the
                                    exact sums, at most 160 · 2^22, and the final `<<= 1` is an exact doubling
    `gsm_ltp_power_no_overflow`     `L_power` of `Calculation_of_the_LTP_parameters`: 40 squares of `dp >> 3`, then `<<= 1`
    `gsm_weighting_no_overflow`     the 11-tap `Weighting_filter` accumulation from the rounding constant 4096, any e
    `gsm_grid_energy_no_overflow`   `RPE_grid_selection`: 13 squares of `x >> 2`, then `<<= 1`
  (The cross-correlation of the LTP search is accumulated in a `float` register in this build, not in an `int32_t`.)
-/
import SfProofs.GsmEncSums
import SfProps.C20Gsm
namespace Sf.C07GsmEncSums
open Sf Sf.Gsm Sf.Gsm.Proofs Sf.Gsm.Spec Sf.Gsm.EncSums

/-- the block after the dynamic scaling of `Autocorrelation` (what the nine sums are taken over) -/
def scaledOf (s : List Int) : List Int :=
  let smax := maxAbs s
  let scalauto : Int := if smax = 0 then 0 else w16 (4 - gsmNorm (shl32 smax 16))
  if scalauto > 0 then s.map fun x => w16 (multR x (asr 16384 (scalauto - 1).toNat)) else s

theorem autocorr_uses_scaled (s : List Int) : (autocorr s).1 = (List.range 9).map fun k => sasl32 (acfK (scaledOf s) k) 1 := rfl

/-- **dynamic scaling**: every sample of the scaled block is within ±2048 -/
theorem gsm_autocorr_scaled_range (s : List Int) (hw : AllW16 s) : ∀ x ∈ scaledOf s, -2048 ≤ x ∧ x ≤ 2048 := by
  obtain ⟨m0, m1, m2⟩ := maxAbs_spec s hw
  have hx0 : ∀ x ∈ s, -(maxAbs s + 1) ≤ x ∧ x ≤ maxAbs s := fun x hx => of_gabs_le x _ (hw x hx) (m2 x hx)
  unfold scaledOf
  simp only
  generalize maxAbs s = smax at m0 m1 hx0
  by_cases hz : smax = 0
  · subst hz
    simp only [if_true]
    intro x hx
    have := hx0 x (by simpa using hx)
    have hnot : ¬ ((0 : Int) > 0) := by omega
    simp only [hnot, if_false] at hx
    have := hx0 x hx
    omega
  · simp only [hz, if_false]
    have hL : shl32 smax 16 = smax * 65536 := by
      unfold shl32
      rw [w32_id _ (by omega)]
      norm_num
    rw [hL]
    obtain ⟨n0, n1, n2⟩ := C20Gsm.gsm_norm_conforms_pos (smax * 65536) (by omega) (by norm_num; omega)
    generalize gsmNorm (smax * 65536) = k at n0 n1 n2
    obtain ⟨k', rfl⟩ : ∃ k' : Nat, k = (k' : Int) := ⟨k.toNat, by omega⟩
    unfold Rec.normalises at n2
    have hpos : smax * 65536 > 0 := by omega
    simp only [hpos, if_true, Int.toNat_natCast] at n2
    have hsc : w16 (4 - (k' : Int)) = 4 - (k' : Int) := w16_id _ (by unfold W16; omega)
    rw [hsc]
    by_cases hs : (4 : Int) - (k' : Int) > 0
    · simp only [hs, if_true]
      have hk : k' = 0 ∨ k' = 1 ∨ k' = 2 ∨ k' = 3 := by omega
      intro x hx
      obtain ⟨y, hy, rfl⟩ := List.mem_map.mp hx
      have hyb := hx0 y hy
      rcases hk with rfl | rfl | rfl | rfl
      · norm_num at n2
        have e : asr 16384 ((4 : Int) - ((0 : Nat) : Int) - 1).toNat = 2048 := by decide
        rw [e]; unfold multR; rw [asr15]
        rw [w16_id _ (by unfold W16; omega)]; omega
      · norm_num at n2
        have e : asr 16384 ((4 : Int) - ((1 : Nat) : Int) - 1).toNat = 4096 := by decide
        rw [e]; unfold multR; rw [asr15]
        rw [w16_id _ (by unfold W16; omega)]; omega
      · norm_num at n2
        have e : asr 16384 ((4 : Int) - ((2 : Nat) : Int) - 1).toNat = 8192 := by decide
        rw [e]; unfold multR; rw [asr15]
        rw [w16_id _ (by unfold W16; omega)]; omega
      · norm_num at n2
        have e : asr 16384 ((4 : Int) - ((3 : Nat) : Int) - 1).toNat = 16384 := by decide
        rw [e]; unfold multR; rw [asr15]
        rw [w16_id _ (by unfold W16; omega)]; omega
    · simp only [hs, if_false]
      have hk4 : 4 ≤ k' := by omega
      have hp : (16 : Int) ≤ 2 ^ k' := by
        have : (2 : Int) ^ 4 ≤ 2 ^ k' := pow_le_pow_right₀ (by norm_num) hk4
        norm_num at this; exact this
      have hlt : smax * 65536 * 16 < 2 ^ 31 := lt_of_le_of_lt (by nlinarith) n2.2
      norm_num at hlt
      intro x hx
      have := hx0 x hx
      omega

/-- the autocorrelation products of two scaled samples go through `float` unchanged, and the sums do not overflow -/
theorem gsm_autocorr_no_overflow (s : List Int) (hw : AllW16 s) (hl : s.length ≤ 160) (k : Nat) :
    acfK (scaledOf s) k = (List.zipWith (· * ·) ((scaledOf s).drop k) (scaledOf s)).foldl (· + ·) 0 ∧
    -671088640 ≤ acfK (scaledOf s) k ∧ acfK (scaledOf s) k ≤ 671088640 ∧
    sasl32 (acfK (scaledOf s) k) 1 = 2 * acfK (scaledOf s) k := by
  have hb := gsm_autocorr_scaled_range s hw
  have hlen : (scaledOf s).length ≤ 160 := by
    have e : (scaledOf s).length = s.length := by
      unfold scaledOf
      simp only
      by_cases h : (if maxAbs s = 0 then (0 : Int) else w16 (4 - gsmNorm (shl32 (maxAbs s) 16))) > 0
      · rw [if_pos h, List.length_map]
      · rw [if_neg h]
    rw [e]; exact hl
  generalize scaledOf s = sc at hb hlen
  have hz : List.zipWith (fun a b => f32r (a * b)) (sc.drop k) sc = List.zipWith (· * ·) (sc.drop k) sc := by
    apply Twin.zipWith_congr_mem
    intro a ha b hbm
    have hp := prod_2048 a b (hb a (List.mem_of_mem_drop ha)) (hb b hbm)
    exact f32r_exact _ (by
      have : (a * b).natAbs ≤ 4194304 := by omega
      omega)
  have hterm : ∀ p ∈ List.zipWith (· * ·) (sc.drop k) sc, (-4194304 : Int) ≤ p ∧ p ≤ 4194304 := by
    intro p hp
    obtain ⟨a, ha, b, hbm, rfl⟩ := mem_zipWith _ _ _ p hp
    exact prod_2048 a b (hb a (List.mem_of_mem_drop ha)) (hb b hbm)
  have hzl : ((List.zipWith (· * ·) (sc.drop k) sc).length : Int) ≤ 160 := by
    rw [List.length_zipWith]
    have : min (sc.drop k).length sc.length ≤ 160 := Nat.le_trans (Nat.min_le_right _ _) hlen
    exact_mod_cast this
  obtain ⟨e1, e2, e3⟩ := foldl_w32_exact 4194304 (by norm_num) _ 0 0 hterm (by omega) (by nlinarith)
  unfold acfK
  rw [hz, e1]
  have b1 : -671088640 ≤ (List.zipWith (· * ·) (sc.drop k) sc).foldl (· + ·) 0 := by nlinarith
  have b2 : (List.zipWith (· * ·) (sc.drop k) sc).foldl (· + ·) 0 ≤ 671088640 := by nlinarith
  refine ⟨rfl, b1, b2, ?_⟩
  unfold sasl32
  rw [w32_id _ (by norm_num; omega)]
  ring

/-- `L_power` of the LTP parameter calculation, for any history of int16 values and any lag -/
theorem gsm_ltp_power_no_overflow (hist : List Int) (hw : AllW16 hist) (off : Nat) :
    w32 (2 * (((hist.drop off).take 40).map fun x => sasr x 3).foldl (fun acc t => w32 (acc + t * t)) 0) =
      2 * ((((hist.drop off).take 40).map fun x => sasr x 3).map fun t => t * t).foldl (· + ·) 0 ∧
    0 ≤ 2 * ((((hist.drop off).take 40).map fun x => sasr x 3).map fun t => t * t).foldl (· + ·) 0 + 1342177280 ∧
    2 * ((((hist.drop off).take 40).map fun x => sasr x 3).map fun t => t * t).foldl (· + ·) 0 ≤ 1342177280 := by
  generalize hl : ((hist.drop off).take 40).map (fun x => sasr x 3) = l
  have hlen : (l.length : Int) ≤ 40 := by
    rw [← hl, List.length_map, List.length_take]
    have : min 40 (hist.drop off).length ≤ 40 := Nat.min_le_left _ _
    exact_mod_cast this
  have hb : ∀ t ∈ l, -4096 ≤ t ∧ t ≤ 4096 := by
    intro t ht
    rw [← hl] at ht
    obtain ⟨x, hx, rfl⟩ := List.mem_map.mp ht
    have := hw x (List.mem_of_mem_drop (List.mem_of_mem_take hx))
    unfold W16 at this
    simp only [sasr, asr]
    norm_num
    omega
  have hterm : ∀ p ∈ l.map (fun t => t * t), (-16777216 : Int) ≤ p ∧ p ≤ 16777216 := by
    intro p hp
    obtain ⟨t, ht, rfl⟩ := List.mem_map.mp hp
    have := sq_bound t 4096 (hb t ht)
    omega
  have hfm : l.foldl (fun acc t => w32 (acc + t * t)) 0 = (l.map fun t => t * t).foldl (fun a p => w32 (a + p)) 0 := by
    rw [List.foldl_map]
  obtain ⟨e1, e2, e3⟩ := foldl_w32_exact 16777216 (by norm_num) (l.map fun t => t * t) 0 0 hterm (by omega)
    (by rw [List.length_map]; nlinarith)
  rw [List.length_map] at e2 e3
  rw [hfm, e1, w32_id _ (by constructor <;> nlinarith)]
  exact ⟨rfl, by nlinarith, by nlinarith⟩

/-- the `Weighting_filter` accumulation `L_result = 4096 + Σ e [k + i] · H [i]`, any 16-bit (even 17-bit) e -/
theorem gsm_weighting_no_overflow (wt : List Int) (hb : ∀ a ∈ wt, -32768 ≤ a ∧ a ≤ 32768) (k : Nat) :
    (List.zipWith (fun a h => a * h) (wt.drop k) tabH).foldl (fun s p => w32 (s + p)) 4096 =
      (List.zipWith (fun a h => a * h) (wt.drop k) tabH).foldl (· + ·) 4096 ∧
    -812584960 ≤ (List.zipWith (fun a h => a * h) (wt.drop k) tabH).foldl (· + ·) 4096 ∧
    (List.zipWith (fun a h => a * h) (wt.drop k) tabH).foldl (· + ·) 4096 ≤ 812584960 := by
  have hs : ((tabH.map fun h => (h.natAbs : Int)).sum) = 24798 := by decide
  obtain ⟨e1, e2, e3⟩ := foldl_w32_weighted tabH (wt.drop k) 4096 4096 (fun a ha => hb a (List.mem_of_mem_drop ha)) (by omega)
    (by rw [hs]; norm_num)
  rw [hs] at e2 e3
  exact ⟨e1, by omega, by omega⟩

/-- the energy of a candidate grid: 13 squares of `x >> 2`, doubled -/
theorem gsm_grid_energy_no_overflow (x : List Int) (hw : AllW16 x) (m : Nat) :
    gridEnergy x m = 2 * (((List.range 13).map fun (i : Nat) => sasr (x.getD (m + 3 * i) 0) 2).map fun t => t * t).foldl (· + ·) 0 ∧
    0 ≤ gridEnergy x m ∧ gridEnergy x m ≤ 1744830464 := by
  generalize hl : ((List.range 13).map fun (i : Nat) => sasr (x.getD (m + 3 * i) 0) 2) = l
  have hlen : (l.length : Int) = 13 := by rw [← hl]; simp
  have hb : ∀ t ∈ l, -8192 ≤ t ∧ t ≤ 8192 := by
    intro t ht
    rw [← hl] at ht
    obtain ⟨i, _, rfl⟩ := List.mem_map.mp ht
    have hx : W16 (x.getD (m + 3 * i) 0) := by
      rw [List.getD_eq_getElem?_getD]
      cases h : x[m + 3 * i]? with
      | none => exact W16_zero
      | some v => exact hw v (List.mem_of_getElem? h)
    unfold W16 at hx
    generalize x.getD (m + 3 * i) 0 = v at hx ⊢
    simp only [sasr, asr]
    norm_num
    omega
  have hterm : ∀ p ∈ l.map (fun t => t * t), (-67108864 : Int) ≤ p ∧ p ≤ 67108864 := by
    intro p hp
    obtain ⟨t, ht, rfl⟩ := List.mem_map.mp hp
    have := sq_bound t 8192 (hb t ht)
    omega
  have hnn : ∀ (q : List Int) (a : Int), 0 ≤ a → (∀ p ∈ q, 0 ≤ p) → 0 ≤ q.foldl (· + ·) a := by
    intro q
    induction q with
    | nil => intro a ha _; exact ha
    | cons p ps ih => intro a ha hq; exact ih (a + p) (by have := hq p (by simp); omega) (fun r hr => hq r (by simp [hr]))
  have hpos : 0 ≤ (l.map fun t => t * t).foldl (· + ·) 0 := hnn _ 0 (by omega) (by
    intro p hp; obtain ⟨t, _, rfl⟩ := List.mem_map.mp hp; exact mul_self_nonneg t)
  have hfm : l.foldl (fun acc t => w32 (acc + t * t)) 0 = (l.map fun t => t * t).foldl (fun a p => w32 (a + p)) 0 := by
    rw [List.foldl_map]
  obtain ⟨e1, e2, e3⟩ := foldl_w32_exact 67108864 (by norm_num) (l.map fun t => t * t) 0 0 hterm (by omega)
    (by rw [List.length_map, hlen]; norm_num)
  rw [List.length_map, hlen] at e2 e3
  unfold gridEnergy
  rw [hl, hfm, e1, w32_id _ (by constructor <;> nlinarith)]
  exact ⟨rfl, by nlinarith, by nlinarith⟩

/-- non-vacuity: a full-scale block (160 × ±32767, −32768) is scaled into ±2048 and its energy sum is what the exact sum is -/
example : ∀ x ∈ scaledOf ((List.range 160).map fun (i : Nat) => if i % 2 = 0 then (32767 : Int) else -32768), -2048 ≤ x ∧ x ≤ 2048 := by
  decide +kernel
example : acfK (scaledOf (List.replicate 160 (-32768))) 0 = 160 * 2048 * 2048 := by decide +kernel

end Sf.C07GsmEncSums
