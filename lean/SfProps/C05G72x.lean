-- properties: C05 C06 C07
/-
  Codec-level facts about the G.721 / G.723 core (src/G72x/*.c) on the bit-exact model SfModel/G72x.lean — what makes
  the block-level theorems of C06G72x / C07G72x meaningful, and the C03-style memory safety of the codec core proved
  rather than observed.  Property theorems only; helpers in SfProofs/G72x.lean, G72xInv.lean, G72xPack.lean.

  * `g72x_tables_extracted`  the transcribed tables and the block geometry equal the arrays extracted by execution
  * `g72x_state_inv`         every state reachable from `private_init_state` by encoding any samples / decoding any codes:
                             544 ≤ yu ≤ 5120, 34816 ≤ yl ≤ 327680 (the C `long` never overflows), 0 ≤ ap ≤ 512,
                             |a[1]| ≤ 12288 and |a[0]| ≤ 15360 − a[1] (LIMC / LIMD: the stable region of the pole predictor), six b / dq
  * `g72x_step_size_range`   544 ≤ y ≤ 5120 in every reachable state
  * `g72x_encode_safe`, `g72x_decode_safe`   in every reachable state, for every input sample / every code byte: the index into
                             `_dqlntab`, `_witab`, `_fitab` is inside the table, the ANTILOG shift count 14 − dex is in [0, 14],
                             the TRANS shift count `ylint` is in [1, 10]
  * `g72x_fmult_shifts`, `g72x_quantize_shift`, `g72x_float_shifts`   the other variable shift counts are in [0, 31] for ANY arguments
  * `g72x_code_range`        encoder output code < 2^bits (so `pack_bytes` ORs disjoint fields)
  * `g72x_decoder_short`     every decoded value is a C `short` (the decoder never leaves the 16-bit range: the `<< 2` of the
                             14-bit reconstruction is stored into a `short`, the model's `s16`)
  * `g72x_pack_unpack`       `unpack (pack codes) = codes` for whole blocks, ∀ rate
  * `g72x_block_roundtrip`   decoding an encoded block runs the per-sample decoder over exactly the encoder's codes
  * `g72x_decoder_tracks_encoder`   (G.723 rates) fed the encoder's code, the decoder lands in the encoder's state
-/
import SfProofs.G72xInv
import SfProofs.G72xPack
import SfModel.Generated.G72xTables
namespace Sf.C05G72x
open Sf Sf.G72x Sf.G72x.Proofs

/-- **tables by execution**: the model's transcribed tables (quantizer levels, log-domain reconstruction levels, scale
    factor multipliers, speed-control weights of the four rates, `power2`) and block geometry are the static arrays of the
    tree under test, as printed by a program that #includes its sources (lean/SfModel/Generated/G72xTables.lean is
    regenerated on every run) -/
theorem g72x_tables_extracted :
    g721.qtab = Generated.G72x.g721_qtab ∧ g721.dqlntab = Generated.G72x.g721_dqlntab ∧
    g721.witab = Generated.G72x.g721_witab ∧ g721.fitab = Generated.G72x.g721_fitab ∧
    g723_16.qtab = Generated.G72x.g723_16_qtab ∧ g723_16.dqlntab = Generated.G72x.g723_16_dqlntab ∧
    g723_16.witab = Generated.G72x.g723_16_witab ∧ g723_16.fitab = Generated.G72x.g723_16_fitab ∧
    g723_24.qtab = Generated.G72x.g723_24_qtab ∧ g723_24.dqlntab = Generated.G72x.g723_24_dqlntab ∧
    g723_24.witab = Generated.G72x.g723_24_witab ∧ g723_24.fitab = Generated.G72x.g723_24_fitab ∧
    g723_40.qtab = Generated.G72x.g723_40_qtab ∧ g723_40.dqlntab = Generated.G72x.g723_40_dqlntab ∧
    g723_40.witab = Generated.G72x.g723_40_witab ∧ g723_40.fitab = Generated.G72x.g723_40_fitab ∧
    power2 = Generated.G72x.power2 ∧
    [(blockSamples : Int), g723_16.blockBytes, g723_24.blockBytes, g721.blockBytes, g723_40.blockBytes] = Generated.G72x.geometry := by
  decide

/-- the states the C can be in: `private_init_state`, then any mix of encoder and decoder steps on any inputs -/
inductive Reachable (r : Rate) : St → Prop
  | init : Reachable r St.init
  | enc (st : St) (x : Int) : Reachable r st → Reachable r (encode r st x).1
  | dec (st : St) (c : Int) : Reachable r st → Reachable r (decode r st c).1

/-- **state invariant**, ∀ rates (any tables), ∀ histories -/
theorem g72x_state_inv (r : Rate) (st : St) (h : Reachable r st) : Inv st := by
  induction h with
  | init => exact init_inv_st
  | enc st x _ ih => exact update_inv _ _ _ _ _ _ _ st ih
  | dec st c _ ih => exact update_inv _ _ _ _ _ _ _ st ih

theorem g72x_step_size_range (r : Rate) (st : St) (h : Reachable r st) : 544 ≤ stepSize st ∧ stepSize st ≤ 5120 :=
  stepSize_range st (g72x_state_inv r st h)

/-- everything state-dependent that one encoder / decoder step indexes or shifts by, for the code `i` -/
structure StepSafe (r : Rate) (st : St) (i : Int) : Prop where
  idx   : 0 ≤ i ∧ i < r.dqlntab.length ∧ i < r.witab.length ∧ i < r.fitab.length
  dex   : 0 ≤ s16 (tabAt r.dqlntab i + shr (s16 (stepSize st)) 2) →
            0 ≤ 14 - s16 ((shr (s16 (tabAt r.dqlntab i + shr (s16 (stepSize st)) 2)) 7) % 16) ∧
            14 - s16 ((shr (s16 (tabAt r.dqlntab i + shr (s16 (stepSize st)) 2)) 7) % 16) ≤ 14
  ylint : 1 ≤ s16 (shr st.yl 15) ∧ s16 (shr st.yl 15) ≤ 10

theorem step_safe (r : Rate) (v : ValidRate r) (st : St) (h : Reachable r st) (i : Int) (h0 : 0 ≤ i) (h1 : i < 2 ^ r.bits) :
    StepSafe r st i := by
  have inv := g72x_state_inv r st h
  have hy := stepSize_range st inv
  have hpow : ((2 : Int) ^ r.bits) = ((2 ^ r.bits : Nat) : Int) := by norm_cast
  rw [hpow] at h1
  have hl : i < r.dqlntab.length := by rw [v.dqln]; exact h1
  refine ⟨⟨h0, hl, by rw [v.wi]; exact h1, by rw [v.fi]; exact h1⟩, ?_, trans_shift_count st inv⟩
  rw [s16_id (stepSize st) (by omega) (by omega)]
  exact reconstruct_shift_count _ _ hy (v.rng _ (tabAt_mem _ i h0 hl))

/-- **encoder step**: for every reachable state and EVERY input sample -/
theorem g72x_encode_safe (r : Rate) (v : ValidRate r) (st : St) (h : Reachable r st) (x : Int) : StepSafe r st (encode r st x).2 := by
  have hc := encode_code_range r v st x
  exact step_safe r v st h _ hc.1 hc.2

/-- **decoder step**: for every reachable state and EVERY code word (`i &= mask`) -/
theorem g72x_decode_safe (r : Rate) (v : ValidRate r) (st : St) (h : Reachable r st) (c : Int) : StepSafe r st (c % 2 ^ r.bits) := by
  have hp : (0 : Int) < 2 ^ r.bits := Int.pow_pos (by omega)
  exact step_safe r v st h _ (Int.emod_nonneg _ (by omega)) (Int.emod_lt_of_pos _ hp)

/-- the four rates of the codec directory are valid (tables of 2^bits entries, quantizer of 2^(bits−1) − 1 levels) -/
theorem g72x_rates_valid : ValidRate g721 ∧ ValidRate g723_16 ∧ ValidRate g723_24 ∧ ValidRate g723_40 :=
  ⟨valid_g721, valid_g723_16, valid_g723_24, valid_g723_40⟩

theorem g72x_fmult_shifts (an srn : Int) :
    let anmag := s16 (if an > 0 then an else (-an) % 8192)
    let anexp := s16 (quan anmag power2 - 6)
    let wanexp := s16 (anexp + (shr srn 6) % 16 - 13)
    (if anexp ≥ 0 then okShift anexp else okShift (-anexp)) ∧ (if wanexp ≥ 0 then okShift wanexp else okShift (-wanexp)) :=
  fmult_shift_counts an srn

theorem g72x_quantize_shift (d : Int) : okShift (s16 (quan (shr (s16 (d.natAbs : Int)) 1) power2)) := quantize_shift_count d

theorem g72x_float_shifts (mag : Int) : okShift (quan mag power2) := expMant_shift_count mag

/-- **encoder output code < 2^bits** -/
theorem g72x_code_range (r : Rate) (v : ValidRate r) (st : St) (x : Int) :
    0 ≤ (encode r st x).2 ∧ (encode r st x).2 < 2 ^ r.bits := encode_code_range r v st x

theorem g72x_codes_range (r : Rate) (v : ValidRate r) : ∀ (xs : List Int) (st : St), ∀ c ∈ (encodeList r st xs).2, c < 2 ^ r.bits := by
  intro xs
  induction xs with
  | nil => intro st c hc; simp [encodeList] at hc
  | cons x xs ih =>
    intro st c hc
    simp only [encodeList] at hc
    rcases List.mem_cons.mp hc with h | h
    · have := encode_code_range r v st x
      rw [h]
      have hpow : ((2 : Int) ^ r.bits) = ((2 ^ r.bits : Nat) : Int) := by norm_cast
      rw [hpow] at this
      omega
    · exact ih _ c h

/-- **the decoder never leaves the 16-bit output range** -/
theorem g72x_decoder_short (r : Rate) (st : St) (c : Int) : -32768 ≤ (decode r st c).2 ∧ (decode r st c).2 ≤ 32767 :=
  decode_range r st c

/-- **pack / unpack round trip**, whole blocks, every code width the packer is used with -/
theorem g72x_pack_unpack (bits : Nat) (hb1 : 1 ≤ bits) (hb : bits ≤ 8) (codes : List Nat) (hl : codes.length = blockSamples)
    (hc : ∀ c ∈ codes, c < 2 ^ bits) : unpack bits (pack bits codes) = codes := by
  unfold unpack pack
  obtain ⟨p1, p2, p3⟩ := pack_value bits hb codes 0 0 (by decide) (by decide) hc
  have hlen := packLoop_length bits hb codes 0 0 (by decide)
  rw [hl] at p3 hlen
  have hz : (0 + bits * blockSamples) % 8 = 0 := by simp only [blockSamples]; omega
  rw [hz] at p3
  rw [p3] at p2
  have he : (packEnd bits 0 0 codes).1 = 0 := by omega
  rw [he] at p1
  simp only [Nat.mul_zero, Nat.add_zero, Nat.zero_add, Nat.pow_zero, Nat.one_mul] at p1
  rw [unpack_value bits hb1 hb blockSamples 0 0 _ (by decide) (packLoop_bytes bits codes 0 0)
    (by rw [hlen]; simp only [blockSamples]; omega)]
  simp only [Nat.zero_add, Nat.pow_zero, Nat.one_mul]
  rw [p1, ← hl]
  exact digits_valC bits codes hc

/-- decoding an encoded block is the per-sample decoder run over exactly the encoder's codes -/
theorem g72x_block_roundtrip (r : Rate) (v : ValidRate r) (se sd : St) (xs : List Int) (hl : xs.length = blockSamples) :
    decodeBlock r sd (encodeBlock r se xs).2 = decodeList r sd (encodeList r se xs).2 := by
  simp only [decodeBlock, encodeBlock]
  rw [g72x_pack_unpack r.bits (by have := v.bits; omega) (by have := v.bits; omega) _ (by rw [encodeList_length, hl])
    (g72x_codes_range r v xs se)]

/-- G.723 rates (`short sei` in the encoder as in the decoder): fed the code the encoder just produced, the decoder
    makes the very same state transition — encoder and decoder states stay equal sample by sample -/
theorem g72x_decoder_tracks_encoder (r : Rate) (v : ValidRate r) (hs : r.seInt = false) (st : St) (x : Int) :
    (decode r st (encode r st x).2).1 = (encode r st x).1 := by
  have hc := encode_code_range r v st x
  have hm : (encode r st x).2 % 2 ^ r.bits = (encode r st x).2 := Int.emod_eq_of_lt hc.1 hc.2
  simp only [decode, hm]
  simp only [encode, hs]
  rfl

/-- non-vacuity: a full-scale square wave through G.721, 240 samples; the state after it satisfies the invariant and the
    step is safe; one block packs to 60 bytes and unpacks to itself -/
example : Reachable g721 (encode g721 (encode g721 St.init 32767).1 (-32768)).1 := .enc _ _ (.enc _ _ .init)
example : (encodeBlock g721 St.init ((List.range 120).map fun i => if i % 2 = 0 then (32767 : Int) else -32768)).2.length = 60 ∧
    unpack 4 (pack 4 ((List.range 120).map fun i => i % 16)) = (List.range 120).map fun i => i % 16 := by decide +kernel
example : (decode g723_24 St.init (encode g723_24 St.init 12345).2).1 = (encode g723_24 St.init 12345).1 := by decide +kernel

end Sf.C05G72x
