/-
  C19 — handles are isolated from each other and from earlier library use.

  Model: SfModel/World.lean (`Sf.World.wstep`: slot table, stores, process-wide state written where the C writes it).
  Property theorems only (lemmas: SfProofs/World.lean).  All statements are universal: any number of slots, any
  operations, histories of any length, arbitrary store contents.

  Vocabulary.  `owner : Nat → Nat` assigns every store to the one slot that may use it ("each handle on its own
  backing store"); `Scoped owner ev` says an open names a store of the calling slot; `Owned owner w` says every live
  handle of `w` is bound to a store of its slot.  `mask` replaces what a call made with a NULL handle shows of the
  process-wide state (`sf_error (NULL)`, `sf_strerror (NULL)`, `sf_command (NULL, SFC_GET_LOG_INFO)`) by a fixed token:
  these are the outputs the property statement does not speak about (they are not results of a handle).
-/
import SfProofs.World
namespace Sf.C19
open Sf Sf.World

/-! ## step_frame -/

/-- a call on slot `i` changes no field of any other slot's handle (nor its unique id), and no byte or position of
    any store other than the one it is bound to / opens -/
theorem step_frame (w : W) (i : Nat) (op : WOp) :
    (∀ j, j ≠ i → (wstep w (i, op)).1.handles j = w.handles j ∧ (wstep w (i, op)).1.uids j = w.uids j) ∧
    (∀ k, touched (w.handles i) op ≠ some k → (wstep w (i, op)).1.stores k = w.stores k) :=
  ⟨fun j hj => ⟨wstep_handles_frame w i op j hj, wstep_uids_frame w i op j hj⟩,
   fun k hk => wstep_stores_frame w i op k hk⟩

/-- … and reads nothing of them: in two worlds that agree on slot `i` and on the store the call reaches — and on
    nothing else: other slots, other stores and the process-wide state are arbitrary — the call returns the same
    (masked) output and leaves the same handle and the same store; with equal process-wide state the outputs are equal
    without the mask and the new process-wide state is equal too -/
theorem step_local (w w' : W) (i : Nat) (op : WOp)
    (hh : w.handles i = w'.handles i)
    (hs : ∀ k, touched (w.handles i) op = some k → w.stores k = w'.stores k) :
    (wstep w (i, op)).1.handles i = (wstep w' (i, op)).1.handles i ∧
    (∀ k, touched (w.handles i) op = some k → (wstep w (i, op)).1.stores k = (wstep w' (i, op)).1.stores k) ∧
    mask (wstep w (i, op)).2 = mask (wstep w' (i, op)).2 ∧
    (w.g = w'.g → (wstep w (i, op)).2 = (wstep w' (i, op)).2 ∧ (wstep w (i, op)).1.g = (wstep w' (i, op)).1.g) :=
  wstep_local w w' i op hh hs

/-- the error state of a handle is not changed by a call on another handle: `sf_error (h_j)` asked after any call on
    slot `i ≠ j` answers what it would have answered before -/
theorem error_state_isolated (w : W) (i j : Nat) (op : WOp) (hj : j ≠ i) (h : H) (hl : w.handles j = some h) :
    (wstep (wstep w (i, op)).1 (j, .herror)).2 = .err h.error ∧ (wstep w (j, .herror)).2 = .err h.error := by
  have e : (wstep w (i, op)).1.handles j = some h := by rw [wstep_handles_frame w i op j hj, hl]
  exact ⟨wstep_herror_live _ j h e, wstep_herror_live w j h hl⟩

/-! ## globals_only_null -/

def isNullOut : WOut → Bool
  | .nullCall _ | .nullErr _ | .nullLog _ => true
  | _ => false

/-- the mask hides nothing else: two outputs that agree under the mask are equal, or both are results of a call made
    with a NULL handle -/
theorem mask_only_null (o o' : WOut) (h : mask o = mask o') : o = o' ∨ (isNullOut o = true ∧ isNullOut o' = true) := by
  cases o <;> cases o' <;> simp_all [mask, isNullOut]

/-- the process-wide state (sf_errno, sf_parselog, sf_syserr, the random seed, the float capability statics) influences
    nothing per-handle: run the same history — any history — from two worlds that differ only in that state; every
    slot ends with the same handle, every store with the same bytes and position, and the transcripts are equal line
    by line except inside the results of NULL-handle calls -/
theorem globals_only_null (evs : List Ev) (w w' : W) (hh : ∀ i, w.handles i = w'.handles i) (hs : ∀ k, w.stores k = w'.stores k) :
    (∀ i, (run w evs).1.handles i = (run w' evs).1.handles i) ∧
    (∀ k, (run w evs).1.stores k = (run w' evs).1.stores k) ∧
    (run w evs).2.map (fun x => (x.1, mask x.2)) = (run w' evs).2.map (fun x => (x.1, mask x.2)) := by
  obtain ⟨⟨a, b⟩, c⟩ := SameLocal_run evs w w' ⟨hh, hs⟩
  exact ⟨a, b, c⟩

/-! ## interleaving_irrelevant -/

/-- for EVERY history `evs` of calls by any number of slots, each on stores of its own (that is: for every merge of
    per-handle scripts), slot `i` gets the transcript, the final handle and the final store bytes of the run in which
    only its own calls `proj i evs` are made.  (The solo run starts from the same world `w`; `history_irrelevant`
    below removes even that.) -/
theorem interleaving_irrelevant (owner : Nat → Nat) (evs : List Ev) (w : W) (ho : Owned owner w)
    (hsc : ∀ ev ∈ evs, Scoped owner ev) (i : Nat) :
    view i (run w evs).2 = view i (run w (proj i evs)).2 ∧
    (run w evs).1.handles i = (run w (proj i evs)).1.handles i ∧
    (∀ k, owner k = i → (run w evs).1.stores k = (run w (proj i evs)).1.stores k) := by
  obtain ⟨⟨a, b⟩, c⟩ := run_project owner i evs w w ho ho hsc (Agree.refl owner i w)
  exact ⟨c, a, b⟩

/-- `evs` is a merge of the per-slot scripts `parts` -/
def IsMerge (parts : Nat → List WOp) (evs : List Ev) : Prop := ∀ i, (proj i evs).map (·.2) = parts i

/-- the slot's own script, tagged -/
def tag (i : Nat) (ops : List WOp) : List Ev := ops.map (fun op => (i, op))

theorem proj_eq_tag (i : Nat) (evs : List Ev) : proj i evs = tag i ((proj i evs).map (·.2)) := by
  induction evs with
  | nil => rfl
  | cons ev evs ih =>
    obtain ⟨j, op⟩ := ev
    by_cases hj : j = i
    · subst hj
      simp only [proj, List.filter_cons, beq_self_eq_true, if_true, List.map_cons, tag]
      simp only [proj, tag] at ih
      rw [← ih]
    · have : ((j == i) = true) = False := by simp [hj]
      simp only [proj, List.filter_cons, this, if_false]
      exact ih

/-- the same, phrased with scripts: whatever the merge, slot `i` sees what it sees when its script runs alone -/
theorem every_merge_equals_solo (owner : Nat → Nat) (parts : Nat → List WOp) (evs : List Ev) (hm : IsMerge parts evs)
    (w : W) (ho : Owned owner w) (hsc : ∀ ev ∈ evs, Scoped owner ev) (i : Nat) :
    view i (run w evs).2 = view i (run w (tag i (parts i))).2 ∧
    (run w evs).1.handles i = (run w (tag i (parts i))).1.handles i ∧
    (∀ k, owner k = i → (run w evs).1.stores k = (run w (tag i (parts i))).1.stores k) := by
  have e : proj i evs = tag i (parts i) := by rw [proj_eq_tag, hm i]
  rw [← e]
  exact interleaving_irrelevant owner evs w ho hsc i

/-! ## history_irrelevant -/

theorem proj_tag (i : Nat) (script : List WOp) : proj i (tag i script) = tag i script := by
  induction script with
  | nil => rfl
  | cons op ops ih =>
    simp only [tag, List.map_cons, proj, List.filter_cons, beq_self_eq_true, if_true]
    simp only [tag, proj] at ih
    rw [ih]

theorem proj_none (i : Nat) (evs : List Ev) (h : ∀ ev ∈ evs, ev.1 ≠ i) : proj i evs = [] := by
  induction evs with
  | nil => rfl
  | cons ev evs ih =>
    have h0 := h ev (List.mem_cons_self ..)
    have : ((ev.1 == i) = true) = False := by simp [h0]
    simp only [proj, List.filter_cons, this, if_false]
    exact ih (fun e he => h e (List.mem_cons_of_mem _ he))

/-- a slot's behaviour does not depend on the world's earlier history: take two worlds produced by any two histories —
    other handles open or not, process-wide state arbitrary — that agree only on slot `i` itself (e.g. it is empty in
    both) and on the bytes of slot `i`'s stores.  Any script of slot `i` then produces the same transcript (up to the
    NULL-handle outputs), the same final handle and the same final store bytes in both. -/
theorem history_irrelevant (owner : Nat → Nat) (i : Nat) (script : List WOp) (w w' : W) (ho : Owned owner w) (ho' : Owned owner w')
    (hsc : ∀ op ∈ script, Scoped owner (i, op)) (ha : Agree owner i w w') :
    view i (run w (tag i script)).2 = view i (run w' (tag i script)).2 ∧
    Agree owner i (run w (tag i script)).1 (run w' (tag i script)).1 := by
  have hp : proj i (tag i script) = tag i script := proj_tag i script
  have hs : ∀ ev ∈ tag i script, Scoped owner ev := by
    intro ev he
    simp only [tag, List.mem_map] at he
    obtain ⟨op, hop, rfl⟩ := he
    exact hsc op hop
  obtain ⟨a, c⟩ := run_project owner i (tag i script) w w' ho ho' hs ha
  rw [hp] at a c
  exact ⟨c, a⟩

/-- in particular a prelude of any length made by other slots (opens, failing opens, every codec, closes) changes
    nothing for a script that follows it -/
theorem prelude_irrelevant (owner : Nat → Nat) (i : Nat) (prelude : List Ev) (script : List WOp) (w : W) (ho : Owned owner w)
    (hpre : ∀ ev ∈ prelude, Scoped owner ev ∧ ev.1 ≠ i) (hsc : ∀ op ∈ script, Scoped owner (i, op)) :
    view i (run (run w prelude).1 (tag i script)).2 = view i (run w (tag i script)).2 ∧
    Agree owner i (run (run w prelude).1 (tag i script)).1 (run w (tag i script)).1 := by
  have ho1 : Owned owner (run w prelude).1 := Owned_run owner prelude w ho (fun ev he => (hpre ev he).1)
  have hpn : proj i prelude = [] := proj_none i prelude (fun ev he => (hpre ev he).2)
  have ha : Agree owner i (run w prelude).1 w := by
    have := (run_project owner i prelude w w ho ho (fun ev he => (hpre ev he).1) (Agree.refl owner i w)).1
    rw [hpn] at this
    exact this
  exact history_irrelevant owner i script _ w ho1 ho hsc ha

/-! ## non-vacuity: concrete worlds on which the hypotheses hold and the conclusions say something -/

/-- what a transcript line shows: (return value, error number) -/
def shown : WOut → Int × Int
  | .call o => (o.ret, o.err)
  | .nullCall o => (o.ret, o.err)
  | .opened h => (1, h.error)
  | .openFailed => (0, 1)
  | .info h => (0, h.frames)
  | .closed => (0, 0)
  | .err e => (0, e)
  | .nullErr e => (0, e)
  | .nullInfo => (0, 0)
  | .nullLog _ => (0, 0)
  | .unmodelled => (-99, -99)

def lines (tr : List (Nat × WOut)) : List (Nat × Int × Int) := tr.map (fun x => (x.1, shown x.2))

/-- slot 0 writes a RAW 16-bit file on store 0 (and tries to read from the write-only handle) -/
def a0 : WOp := .open 0 .w 0x040002 1 8000 false
def a1 : WOp := .call (.write 0 .s16 false 2 [1, 2])
def a2 : WOp := .call (.read 0 .s16 false 1)
def a3 : WOp := .herror
def a4 : WOp := .call (.close 0)
def scriptA : List WOp := [a0, a1, a2, a3, a4]
/-- slot 1: an open that fails (0 channels) on store 1, then sf_error (NULL), then a write to the NULL handle -/
def b0 : WOp := .open 1 .w 0x040002 0 8000 false
def b1 : WOp := .nullError
def b2 : WOp := .call (.write 0 .s16 false 1 [7])
def scriptB : List WOp := [b0, b1, b2, b1]

/-- one merge of the two -/
def merged : List Ev := [(1, b0), (0, a0), (1, b1), (0, a1), (0, a2), (1, b2), (0, a3), (1, b1), (0, a4)]

example : IsMerge (fun i => match i with | 0 => scriptA | 1 => scriptB | _ => []) merged := by
  intro i
  match i with
  | 0 => rfl
  | 1 => rfl
  | n + 2 => rfl

example : Owned id ({} : W) := by intro i h hh; cases hh
example : ∀ ev ∈ merged, Scoped id ev := by
  intro ev he
  simp only [merged, List.mem_cons, List.mem_singleton, List.not_mem_nil, or_false] at he
  rcases he with rfl | rfl | rfl | rfl | rfl | rfl | rfl | rfl | rfl <;> simp [Scoped, a0, a1, a2, a3, a4, b0, b1, b2]

/-- the merged run: slot 1's failed open sets sf_errno, slot 0's successful open clears it again, so slot 1's
    `sf_error (NULL)` shows 0 where its solo run shows the open failure — the one place where the transcripts
    differ, and exactly what `mask` covers.  Slot 0's invalid read (write-only handle) leaves its error in
    slot 0 only; the NULL write of slot 1 sets sf_errno to SFE_BAD_SNDFILE_PTR. -/
example : lines (run {} merged).2 =
    [(1, 0, 1), (0, 1, 0), (1, 0, 0), (0, 2, 0), (0, 0, E_NOT_READMODE), (1, 0, E_BAD_SNDFILE_PTR), (0, 0, E_NOT_READMODE),
     (1, 0, E_BAD_SNDFILE_PTR), (0, 0, 0)] := by decide
example : lines (run {} (tag 1 scriptB)).2 = [(1, 0, 1), (1, 0, E_OPEN_FAILED), (1, 0, E_BAD_SNDFILE_PTR), (1, 0, E_BAD_SNDFILE_PTR)] := by decide
example : lines (run {} (tag 0 scriptA)).2 = [(0, 1, 0), (0, 2, 0), (0, 0, E_NOT_READMODE), (0, 0, E_NOT_READMODE), (0, 0, 0)] := by decide
/-- final bytes of slot 0's store, merged = solo -/
example : ((run {} merged).1.stores 0).bytes = [1, 0, 2, 0] ∧ ((run {} (tag 0 scriptA)).1.stores 0).bytes = [1, 0, 2, 0] := by decide
/-- the process-wide state after the merged run, and the unique ids drawn (slot 0 first in the solo run, second in the merge) -/
example : (run {} merged).1.g.errno = E_BAD_SNDFILE_PTR ∧ (run {} merged).1.g.rand ≠ 0 ∧
    (run {} merged).1.uids 0 ≠ (run {} (tag 0 scriptA)).1.uids 0 := by decide
/-- globals_only_null is not vacuous: the process-wide state does show in a NULL-handle output -/
example : shown (wstep { g := { errno := 5 } } (0, .nullError)).2 = (0, 5) ∧ shown (wstep {} (0, .nullError)).2 = (0, 0) := by decide
/-- error_state_isolated: slot 0 holds a write-only handle whose last call failed; a failing call on slot 1 leaves it -/
example : ∃ h, (run {} (tag 0 (scriptA.take 3))).1.handles 0 = some h ∧ h.error = E_NOT_READMODE := ⟨_, rfl, by decide⟩

end Sf.C19
