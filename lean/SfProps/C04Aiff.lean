-- properties: C04 C11
/-
  C04 / C11 — the AIFF / AIFF-C container (stand-alone L1 model SfModel/Aiff.lean; helpers SfProofs/Aiff*.lean).
  Property theorems only.

  A *session* is `openW` (sf_open SFM_WRITE; the caller's frames value is a parameter that is thrown away), any list
  of `WOp`s (write calls storing whole frames of encoded audio, with or without SFC_SET_UPDATE_HEADER_AUTO;
  SFC_UPDATE_HEADER_NOW), then `close`.  `parse` is sf_open (SFM_READ) of the produced bytes.
-/
import SfModel.Aiff
import SfProofs.AiffSession
namespace Sf.C04Aiff
open Sf Sf.Aiff

/-! ### the 80-bit sample rate -/

/-- what C04 asks of AIFF: every rate a caller may pass is reported back -/
def aiff_rate_full : Prop := ∀ r : Nat, 1 ≤ r → r ≤ 0x7FFFFFFF → ten2int (int2ten r) = r

/-- **aiff_rate_roundtrip** (full strength since the repair of KF-AIFF-RATE-2P30): every rate in [1, 2^31 − 1]
    survives `uint2tenbytefloat` followed by `tenbytefloat2int` -/
theorem aiff_rate_roundtrip (r : Nat) (h1 : 1 ≤ r) (h2 : r ≤ 0x7FFFFFFF) : ten2int (int2ten r) = r :=
  ten2int_int2ten_exact r h1 (by omega)

theorem aiff_rate_full_holds : aiff_rate_full := aiff_rate_roundtrip

example : ten2int (int2ten 44100) = 44100 ∧ ten2int (int2ten 1) = 1 ∧ ten2int (int2ten (2 ^ 30)) = 2 ^ 30 ∧
    ten2int (int2ten (2 ^ 31 - 1)) = 2 ^ 31 - 1 ∧ int2ten (2 ^ 30) = [0x40, 0x1D, 0x80, 0, 0, 0, 0, 0, 0, 0] := by decide

/-- the class of the repaired finding KF-AIFF-RATE-2P30 -/
def KF.rateTooBig (r : Nat) : Prop := 2 ^ 30 ≤ r
instance (r : Nat) : Decidable (KF.rateTooBig r) := by unfold KF.rateTooBig; infer_instance

/-- the old rule (`int2tenOld`, `ten2intOld`): the statement over the whole range -/
def aiff_rate_full_old : Prop := ∀ r : Nat, 1 ≤ r → r ≤ 0x7FFFFFFF → ten2intOld (int2tenOld r) = r

/-- old rule: from 2^30 on the writer gave up and every rate re-opened as 800000000 -/
theorem aiff_rate_collapse_old_rule (r : Nat) (h : KF.rateTooBig r) : ten2intOld (int2tenOld r) = 800000000 :=
  ten2intOld_int2tenOld_big r h

/-- old rule: the full statement failed, 2^30 Hz is the witness -/
theorem aiff_rate_full_fails_old_rule : ¬ aiff_rate_full_old := by
  intro h
  have := h (2 ^ 30) (by decide) (by decide)
  revert this; decide

/-- old rule: it held outside exactly that class -/
theorem aiff_rate_partial_old_rule (r : Nat) (h1 : 1 ≤ r) (_h2 : r ≤ 0x7FFFFFFF) (hk : ¬ KF.rateTooBig r) :
    ten2intOld (int2tenOld r) = r :=
  ten2intOld_int2tenOld_small r h1 (by unfold KF.rateTooBig at hk; omega)

/-- files of the old writer under the new reader: the rate was never stored (zero mantissa), it now reads as 0
    and such a file is refused instead of being reported as 800000000 Hz -/
theorem aiff_old_files_new_reader (r : Nat) (h : KF.rateTooBig r) : ten2int (int2tenOld r) = 0 := by
  unfold int2tenOld
  have h1 : ¬ r ≤ 1 := by unfold KF.rateTooBig at h; omega
  have h2 : r ≥ 0x40000000 := by unfold KF.rateTooBig at h; omega
  simp only [h1, h2, if_false, if_true]
  decide

example : KF.rateTooBig (2 ^ 30) ∧ ¬ KF.rateTooBig (2 ^ 30 - 1) ∧ ten2intOld (int2tenOld (2 ^ 31 - 1)) = 800000000 := by decide

/-! ### closed files -/

/-- the closed bytes of a session: header of the final lengths, the audio, one pad byte after an odd byte count -/
def closedBytes (c : Cfg) (k : Kind) (stale : Nat) (ops : List WOp) : List Byte :=
  (close c k (run c k (openW c k stale) ops)).bytes

/-- the PEAK table the header holds at the end (none unless FLOAT / DOUBLE) -/
def finalPeaks (c : Cfg) (k : Kind) (stale : Nat) (ops : List WOp) : Option (List Peak) := (run c k (openW c k stale) ops).peaks

theorem closedBytes_eq (c : Cfg) (k : Kind) (hwf : c.wf) (hk : kindOf c = some k) (stale : Nat) (ops : List WOp) :
    closedBytes c k stale ops =
      closedHdr c k (opsData ops).length (finalPeaks c k stale ops) ++ opsData ops ++ tailBytes (opsData ops).length := by
  obtain ⟨_, _, _, fbw, _⟩ := cfg_facts c k hwf.1 hk
  have hbw : 0 < c.bw := Nat.mul_pos fbw hwf.2.1
  obtain ⟨i, d⟩ := run_inv c k hwf.1 hk ops _ (inv_open c k hwf.1 hk stale)
  have d' : (run c k (openW c k stale) ops).data = opsData ops := by rw [d]; simp [openW, writeHeader]
  unfold closedBytes finalPeaks
  rw [close_bytes c k hbw _ i, d']

/-- **aiff_reopen_info.**  For every accepted configuration and every session, under the FORM-size guard (the file
    is shorter than 2^32 bytes) the closed file re-opens with the requested channels, the format word of the
    requested encoding and byte order, the requested rate, and frames = audio bytes / block width (the pad byte
    after an odd byte count lies outside the SSND chunk and is not counted). -/
theorem aiff_reopen_info (c : Cfg) (k : Kind) (hwf : c.wf) (hk : kindOf c = some k) (stale : Nat) (ops : List WOp)
    (hguard : (closedBytes c k stale ops).length < 2 ^ 32) :
    parse (closedBytes c k stale ops) =
      .ok { ch := c.ch, fmt := c.fmtWord, sr := c.sr, frames := (opsData ops).length / c.bw } := by
  obtain ⟨i, _⟩ := run_inv c k hwf.1 hk ops _ (inv_open c k hwf.1 hk stale)
  have hb := closedBytes_eq c k hwf hk stale ops
  rw [hb] at hguard ⊢
  have hpad : (tailBytes (opsData ops).length).length ≤ 8 := by unfold tailBytes; split <;> simp
  have hB : (opsData ops).length + 8 < 2 ^ 32 := by
    simp only [List.length_append] at hguard
    have h1 : (closedHdr c k (opsData ops).length (finalPeaks c k stale ops)).length = hdrLen c k := by
      unfold closedHdr finalPeaks; exact hdrRaw_length c k hwf.1 hk _ _ _ _ i.pk
    have : 54 ≤ hdrLen c k := by unfold hdrLen; split <;> omega
    omega
  have := parse_hdrRaw c k hwf hk ((opsData ops).length / c.bw)
    ((hdrLen c k + (opsData ops).length + padLen (opsData ops).length : Nat) : Int) (finalPeaks c k stale ops) i.pk
    (opsData ops) (tailBytes (opsData ops).length) hpad hB
  rw [List.append_assoc]
  have hsr : (ten2int (int2ten c.sr)).toNat = c.sr := by rw [aiff_rate_roundtrip c.sr hwf.2.2.2.1 hwf.2.2.2.2]; simp
  rw [hsr] at this
  exact this

/-- **aiff_frames_exact.**  A session that stored N whole frames re-opens with exactly N frames, for every
    encoding, channel count and N (one-byte mono encodings with an odd N included). -/
theorem aiff_frames_exact (c : Cfg) (k : Kind) (hwf : c.wf) (hk : kindOf c = some k) (stale : Nat) (ops : List WOp) (N : Nat)
    (hN : (opsData ops).length = N * c.bw) (hguard : (closedBytes c k stale ops).length < 2 ^ 32) :
    parse (closedBytes c k stale ops) = .ok { ch := c.ch, fmt := c.fmtWord, sr := c.sr, frames := N } := by
  obtain ⟨_, _, _, fbw, _⟩ := cfg_facts c k hwf.1 hk
  have hbw : 0 < c.bw := Nat.mul_pos fbw hwf.2.1
  rw [aiff_reopen_info c k hwf hk stale ops hguard, hN, Nat.mul_div_cancel _ hbw]

/-! #### the tailer before the repair of KF-AIFF-ODD-PAD -/

def closedBytesOld (c : Cfg) (k : Kind) (stale : Nat) (ops : List WOp) : List Byte :=
  (closeOld c k (run c k (openW c k stale) ops)).bytes

theorem closedBytesOld_eq (c : Cfg) (k : Kind) (hwf : c.wf) (hk : kindOf c = some k) (stale : Nat) (ops : List WOp) :
    closedBytesOld c k stale ops =
      closedHdrOld c k (opsData ops).length (finalPeaks c k stale ops) ++ opsData ops ++ tailBytes (opsData ops).length := by
  obtain ⟨_, _, _, fbw, _⟩ := cfg_facts c k hwf.1 hk
  have hbw : 0 < c.bw := Nat.mul_pos fbw hwf.2.1
  obtain ⟨i, d⟩ := run_inv c k hwf.1 hk ops _ (inv_open c k hwf.1 hk stale)
  have d' : (run c k (openW c k stale) ops).data = opsData ops := by rw [d]; simp [openW, writeHeader]
  unfold closedBytesOld finalPeaks
  rw [close_bytes_old c k hbw _ i, d']

/-- old rule: the pad byte was inside the SSND chunk and counted: frames = (audio bytes + pad byte) / block width -/
theorem aiff_reopen_info_old_rule (c : Cfg) (k : Kind) (hwf : c.wf) (hk : kindOf c = some k) (stale : Nat) (ops : List WOp)
    (hguard : (closedBytesOld c k stale ops).length < 2 ^ 32) :
    parse (closedBytesOld c k stale ops) =
      .ok { ch := c.ch, fmt := c.fmtWord, sr := c.sr,
            frames := ((opsData ops).length + padLen (opsData ops).length) / c.bw } := by
  obtain ⟨i, _⟩ := run_inv c k hwf.1 hk ops _ (inv_open c k hwf.1 hk stale)
  have hb := closedBytesOld_eq c k hwf hk stale ops
  rw [hb] at hguard ⊢
  have hpad : (tailBytes (opsData ops).length).length = padLen (opsData ops).length := by
    unfold tailBytes padLen; split <;> simp <;> omega
  have hbody : (opsData ops ++ tailBytes (opsData ops).length).length = (opsData ops).length + padLen (opsData ops).length := by
    rw [List.length_append, hpad]
  have hB : (opsData ops ++ tailBytes (opsData ops).length).length + 8 < 2 ^ 32 := by
    simp only [List.length_append] at hguard hbody ⊢
    have h1 : (closedHdrOld c k (opsData ops).length (finalPeaks c k stale ops)).length = hdrLen c k := by
      unfold closedHdrOld finalPeaks; exact hdrRaw_length c k hwf.1 hk _ _ _ _ i.pk
    have : 54 ≤ hdrLen c k := by unfold hdrLen; split <;> omega
    omega
  have := parse_hdrRaw c k hwf hk (((opsData ops).length + padLen (opsData ops).length) / c.bw)
    ((hdrLen c k + (opsData ops).length + padLen (opsData ops).length : Nat) : Int) (finalPeaks c k stale ops) i.pk
    (opsData ops ++ tailBytes (opsData ops).length) [] (by simp) hB
  rw [hbody] at this
  rw [List.append_assoc]
  have hsr : (ten2int (int2ten c.sr)).toNat = c.sr := by rw [aiff_rate_roundtrip c.sr hwf.2.2.2.1 hwf.2.2.2.2]; simp
  rw [hsr, List.append_nil] at this
  unfold closedHdrOld
  exact this

/-- old rule: the frame count against the number N of frames written: F = N, except that one-byte mono encodings
    with an odd N got the pad byte counted as one more frame -/
theorem aiff_frames_bound_old_rule (bw N : Nat) (hbw : 0 < bw) :
    let F := (N * bw + padLen (N * bw)) / bw
    N ≤ F ∧ F ≤ N + 1 ∧ (bw ≠ 1 → F = N) ∧ (N % 2 = 0 → F = N) := by
  intro F
  have hp : padLen (N * bw) ≤ 1 := by unfold padLen; omega
  have hlo : N ≤ F := by
    show N ≤ (N * bw + padLen (N * bw)) / bw
    rw [Nat.le_div_iff_mul_le hbw]; omega
  have hhi : F ≤ N + 1 := by
    show (N * bw + padLen (N * bw)) / bw ≤ N + 1
    have : N * bw + padLen (N * bw) < (N + 1 + 1) * bw := by
      have : (N + 1 + 1) * bw = N * bw + bw + bw := by rw [Nat.add_mul, Nat.add_mul]; omega
      omega
    have := (Nat.div_lt_iff_lt_mul hbw).2 this
    omega
  refine ⟨hlo, hhi, ?_, ?_⟩
  · intro h1
    show (N * bw + padLen (N * bw)) / bw = N
    have : N * bw + padLen (N * bw) < (N + 1) * bw := by rw [Nat.add_mul]; omega
    have := (Nat.div_lt_iff_lt_mul hbw).2 this
    omega
  · intro he
    have : padLen (N * bw) = 0 := by
      unfold padLen
      rw [Nat.mul_mod, he]; simp
    show (N * bw + padLen (N * bw)) / bw = N
    rw [this, Nat.add_zero, Nat.mul_div_cancel _ hbw]

/-- a 16-bit stereo big-endian AIFF-C session (one write, a header update, a second write): 3 frames -/
def exCfg : Cfg := ⟨0x02, 2, 2, 44100⟩
def exKind : Kind := ⟨true, mk4 "twos", false⟩
def exOps : List WOp := [.write [0, 1, 0, 2] [] false, .update, .write [0, 3, 0, 4, 0, 5, 0, 6] [] true]
/-- an odd-length µ-law mono session: 3 bytes of audio, a pad byte, 3 frames reported -/
def exU : Cfg := ⟨0x10, 0, 1, 8000⟩
def exUKind : Kind := ⟨true, mk4 "ulaw", false⟩
example : exCfg.wf ∧ kindOf exCfg = some exKind ∧ (closedBytes exCfg exKind 99 exOps).length = 84 ∧
    parse (closedBytes exCfg exKind 99 exOps) = .ok ⟨2, 0x20020002, 44100, 3⟩ := by decide +kernel
example : exU.wf ∧ kindOf exU = some exUKind ∧ (closedBytes exU exUKind 0 [.write [1, 2, 3] [] false]).length = 76 ∧
    parse (closedBytes exU exUKind 0 [.write [1, 2, 3] [] false]) = .ok ⟨1, 0x020010, 8000, 3⟩ := by decide +kernel
/-- old rule: the same session re-opened with 4 frames (3 written): `aiff_frames_exact` failed -/
theorem aiff_frames_exact_fails_old_rule :
    parse (closedBytesOld exU exUKind 0 [.write [1, 2, 3] [] false]) = .ok ⟨1, 0x020010, 8000, 4⟩ := by decide +kernel

/-- **aiff_size_fields.**  For every N (no guard): the file length is header + audio + pad and even; the FORM size
    field holds the low 32 bits of (length − 8) and the SSND size field the low 32 bits of (audio + 8): the pad byte
    follows the chunk, as IFF prescribes. -/
theorem aiff_size_fields (c : Cfg) (k : Kind) (hwf : c.wf) (hk : kindOf c = some k) (stale : Nat) (ops : List WOp)
    (bytes : List Byte) (D : Nat) (hbytes : bytes = closedBytes c k stale ops) (hD : D = (opsData ops).length) :
    bytes.length = hdrLen c k + D + padLen D ∧ bytes.length % 2 = 0 ∧
    ofBE ((bytes.drop 4).take 4) = (bytes.length - 8) % 2 ^ 32 ∧
    ofBE ((bytes.drop (hdrLen c k - 12)).take 4) = (D + 8) % 2 ^ 32 := by
  obtain ⟨i, _⟩ := run_inv c k hwf.1 hk ops _ (inv_open c k hwf.1 hk stale)
  have hb : bytes = closedHdr c k D (finalPeaks c k stale ops) ++ opsData ops ++ tailBytes D := by
    rw [hbytes, hD]; exact closedBytes_eq c k hwf hk stale ops
  have hpad : (tailBytes D).length = padLen D := by unfold tailBytes padLen; split <;> simp <;> omega
  have hhl : (closedHdr c k D (finalPeaks c k stale ops)).length = hdrLen c k := by
    unfold closedHdr finalPeaks; exact hdrRaw_length c k hwf.1 hk _ _ _ _ i.pk
  have hlen : bytes.length = hdrLen c k + D + padLen D := by rw [hb, List.length_append, List.length_append, hhl, hpad, ← hD]
  have hev := hdrLen_even c k
  have h54 : 54 ≤ hdrLen c k := by unfold hdrLen; split <;> omega
  refine ⟨hlen, by rw [hlen]; unfold padLen; omega, ?_, ?_⟩
  · obtain ⟨rest, hrest⟩ := hdrRaw_head c k (D / c.bw) ((hdrLen c k + D + padLen D : Nat) : Int) ((D : Nat) : Int) (finalPeaks c k stale ops)
    have hd : bytes.drop 0 = mk4 "FORM" ++ (be32 (((hdrLen c k + D + padLen D : Nat) : Int) - 8) ++ (rest ++ (opsData ops ++ tailBytes D))) := by
      rw [List.drop_zero, hb]; unfold closedHdr; rw [hrest]; simp only [List.append_assoc]
    have d1 := drop_at hd mk4_length_FORM
    have : bytes.drop 4 = _ := d1
    rw [this, List.take_left' (be32_length _), ofBE_be32, hlen]
    unfold wrapU
    omega
  · obtain ⟨pre, hpre⟩ := hdrRaw_split c k (D / c.bw) ((hdrLen c k + D + padLen D : Nat) : Int) ((D : Nat) : Int) (finalPeaks c k stale ops)
    have hprel : pre.length = hdrLen c k - 16 := by
      have h1 := congrArg List.length hpre
      have h2 : (hdrRaw c k (D / c.bw) ((hdrLen c k + D + padLen D : Nat) : Int) ((D : Nat) : Int) (finalPeaks c k stale ops)).length = hdrLen c k := hhl
      rw [h2] at h1
      simp only [List.length_append, mk4_length_SSND, be32_length] at h1
      omega
    have hd : bytes.drop (hdrLen c k - 16) = mk4 "SSND" ++ (be32 (((D : Nat) : Int) + 8) ++
        (be32 0 ++ (be32 0 ++ (opsData ops ++ tailBytes D)))) := by
      rw [hb]; unfold closedHdr; rw [hpre, ← hprel]
      simp only [List.append_assoc]
      exact List.drop_left' rfl
    have d1 := drop_at hd mk4_length_SSND
    have e12 : hdrLen c k - 16 + 4 = hdrLen c k - 12 := by omega
    rw [e12] at d1
    rw [d1, List.take_left' (be32_length _), ofBE_be32]
    unfold wrapU
    omega

example : ofBE (((closedBytes exCfg exKind 99 exOps).drop 4).take 4) = 76 ∧
    ofBE (((closedBytes exCfg exKind 99 exOps).drop (hdrLen exCfg exKind - 12)).take 4) = 20 ∧
    ofBE (((closedBytes exU exUKind 0 [.write [1, 2, 3] [] false]).drop (hdrLen exU exUKind - 12)).take 4) = 11 := by decide +kernel

/-! ### the caller's frames field -/

/-- **stale_frames_ignored_aiff.**  `aiff_open` zeroes sf.frames in SFM_WRITE: the closed bytes (and every
    intermediate store image) do not depend on the frames value the caller left in SF_INFO. -/
theorem stale_frames_ignored_aiff (c : Cfg) (k : Kind) (a b : Nat) (ops : List WOp) :
    closedBytes c k a ops = closedBytes c k b ops ∧ openW c k a = openW c k b := ⟨rfl, rfl⟩

example : closedBytes exCfg exKind 0 exOps = closedBytes exCfg exKind 123456 exOps := by decide +kernel

/-! ### C11: header updates -/

/-- the store right after SFC_UPDATE_HEADER_NOW (or after a write call in auto mode) at the end of `ops` -/
def snapshotBytes (c : Cfg) (k : Kind) (stale : Nat) (ops : List WOp) : List Byte :=
  (update c k (run c k (openW c k stale) ops)).bytes

/-- a write call with SFC_SET_UPDATE_HEADER_AUTO on is the plain write call followed by a header update -/
theorem auto_write_is_update (c : Cfg) (k : Kind) (s : St) (enc : List Byte) (pk : Option (List Peak)) :
    write c k s enc pk true = update c k (write c k s enc pk false) := by
  simp [write, update]

/-- **aiff_snapshot_valid.**  After any session prefix, the image a header update leaves in the store parses — as
    a crashed writer would leave it — with the same parameters and frames = audio bytes written so far / block
    width, i.e. exactly the frames written (no pad byte exists yet). -/
theorem aiff_snapshot_valid (c : Cfg) (k : Kind) (hwf : c.wf) (hk : kindOf c = some k) (stale : Nat) (ops : List WOp)
    (hguard : (snapshotBytes c k stale ops).length < 2 ^ 32) :
    parse (snapshotBytes c k stale ops) =
      .ok { ch := c.ch, fmt := c.fmtWord, sr := c.sr, frames := (opsData ops).length / c.bw } ∧
    ∃ hdr, hdr.length = hdrLen c k ∧ snapshotBytes c k stale ops = hdr ++ opsData ops := by
  obtain ⟨_, _, _, fbw, _⟩ := cfg_facts c k hwf.1 hk
  have hbw : 0 < c.bw := Nat.mul_pos fbw hwf.2.1
  obtain ⟨i, d⟩ := run_inv c k hwf.1 hk ops _ (inv_open c k hwf.1 hk stale)
  have d' : (run c k (openW c k stale) ops).data = opsData ops := by rw [d]; simp [openW, writeHeader]
  have hb : snapshotBytes c k stale ops = snapHdr c k (opsData ops).length (run c k (openW c k stale) ops).peaks ++ opsData ops := by
    unfold snapshotBytes; rw [update_bytes c k hbw _ i, d']
  have hhl : (snapHdr c k (opsData ops).length (run c k (openW c k stale) ops).peaks).length = hdrLen c k := by
    unfold snapHdr; exact hdrRaw_length c k hwf.1 hk _ _ _ _ i.pk
  refine ⟨?_, _, hhl, hb⟩
  rw [hb] at hguard ⊢
  have hB : (opsData ops).length + 8 < 2 ^ 32 := by
    simp only [List.length_append, hhl] at hguard
    have : 54 ≤ hdrLen c k := by unfold hdrLen; split <;> omega
    omega
  have := parse_hdrRaw c k hwf hk ((opsData ops).length / c.bw) ((hdrLen c k + (opsData ops).length : Nat) : Int) _ i.pk (opsData ops) [] (by simp) hB
  have hsr : (ten2int (int2ten c.sr)).toNat = c.sr := by rw [aiff_rate_roundtrip c.sr hwf.2.2.2.1 hwf.2.2.2.2]; simp
  rw [hsr, List.append_nil] at this
  unfold snapHdr
  exact this

example : (snapshotBytes exU exUKind 0 [.write [1, 2, 3] [] false]).length = 75 ∧
    parse (snapshotBytes exU exUKind 0 [.write [1, 2, 3] [] false]) = .ok ⟨1, 0x020010, 8000, 3⟩ := by decide +kernel

end Sf.C04Aiff
