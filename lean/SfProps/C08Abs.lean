/-
  C08 on the ABSTRACT model (SfModel/Abs.lean): what the predicate `Sf.Abs.holdsOn` accepts about read/write histories —
  the abstract file of the statement (frames, read position, write position) evolving under ACCEPTED lines, whatever
  container produced them.  Property theorems only; lemmas in SfProofs/AbsWriteLemmas.lean.
-/
import SfProofs.AbsWriteLemmas
import SfProofs.AbsRun
namespace Sf.C08Abs
open Sf Sf.Abs

/-- write_contract: an accepted answer to a valid write request has `0 ≤ w ≤ requested`, whole frames, `w = requested`
    unless the geometry says I/O may fail, leaves the read position alone, advances the write position by exactly `w / ch`
    frames; writing inside existing data keeps the length, writing at or past the end extends the frame count to the new
    write position -/
theorem write_contract_abs (g : Geom) (st : St) (ty : Ty) (fc : Bool) (n : Int) (data : Array Item) (o : Out) (st' : St)
    (hr : WriteReq g st fc n) (h : writeOk g st ty fc n data o = .ok st') :
    0 ≤ o.ret ∧ o.ret ≤ n ∧ retItems g fc o.ret % g.ch = 0 ∧ (g.ioMayFail = false → o.ret = n) ∧
    st'.rpos = st.rpos ∧ st'.wpos = st.wpos + retItems g fc o.ret / g.ch ∧
    (st'.wpos ≤ st.frames → st'.frames = st.frames) ∧
    (st.frames ≤ st'.wpos → 0 < retItems g fc o.ret / g.ch → st'.frames = st'.wpos) := by
  obtain ⟨a, b, c, _, e, _, f1, _, f3, f4, f5⟩ := writeOk_valid g st ty fc n data o st' hr h
  refine ⟨a, b, c, e, f1, f3, fun hle => ?_, fun hge hk => ?_⟩
  · by_cases hk : retItems g fc o.ret / g.ch = 0
    · exact (f4 hk).1
    · rw [(f5 (Nat.pos_of_ne_zero hk)).1]; omega
  · rw [(f5 hk).1]; omega

/-- write_then_read: the frames an accepted (complete) write of a lossless type stored at frame `p` are what an accepted
    read of as many items at read position `p` returns — in ANY later state that still holds that stream (`hsame`) -/
theorem write_then_read_abs (g : Geom) (st st1 st2 st3 : St) (ty : Ty) (fc fc' : Bool) (n n' : Int) (data : Array Item) (o o' : Out)
    (hr : WriteReq g st fc n) (hw : writeOk g st ty fc n data o = .ok st1) (hfull : o.ret = n)
    (hsame : st2.ref ty = st1.ref ty ∧ st2.valid ty = true ∧ st2.rpos = st.wpos ∧ st2.rpos < st2.frames)
    (hr' : ReadReq g st2 fc' n') (hrd : readOk g st2 ty fc' n' o' = .ok st3)
    (hcount : retItems g fc' o'.ret = reqItems g fc n) (hpos : 0 < reqItems g fc n / g.ch) :
    o'.data.extract 0 (reqItems g fc n * cells ty) = data.extract 0 (reqItems g fc n * cells ty) := by
  obtain ⟨_, _, _, hsz, _, _, _, _, _, _, f5⟩ := writeOk_valid g st ty fc n data o st1 hr hw
  have hitems : retItems g fc o.ret = reqItems g fc n := by
    rw [hfull]; unfold retItems reqItems; rfl
  rw [hitems] at f5
  obtain ⟨_, href, _⟩ := f5 hpos
  obtain ⟨_, _, _, _, _, _, hmain⟩ := readOk_valid g st2 ty fc' n' o' st3 hr' hrd
  obtain ⟨_, _, hdat, _⟩ := hmain hsame.2.2.2
  have hx := (sliceEq_extract _ _ _ _ _ (hdat hsame.2.1)).1
  rw [hcount, Nat.zero_add, hsame.1, href, hsame.2.2.1] at hx
  have hd : (data.extract 0 (reqItems g fc n * cells ty)).size = reqItems g fc n * cells ty := by
    rw [Array.size_extract]; omega
  have := writeAt_mid 0 (st.ref ty) (st.wpos * g.cpf ty) (data.extract 0 (reqItems g fc n * cells ty))
  rw [hd] at this
  rw [hx, this]

/-- untouched_preserved: an accepted write changes nothing in front of the write position (of the written type's stream;
    the streams of the other caller types become unknown, never wrong) -/
theorem untouched_preserved_abs (g : Geom) (st : St) (ty : Ty) (fc : Bool) (n : Int) (data : Array Item) (o : Out) (st' : St)
    (hr : WriteReq g st fc n) (h : writeOk g st ty fc n data o = .ok st')
    (hin : st.wpos * g.cpf ty ≤ (st.ref ty).size) :
    (st'.ref ty).extract 0 (st.wpos * g.cpf ty) = (st.ref ty).extract 0 (st.wpos * g.cpf ty) := by
  obtain ⟨_, _, _, _, _, _, _, _, _, f4, f5⟩ := writeOk_valid g st ty fc n data o st' hr h
  by_cases hk : retItems g fc o.ret / g.ch = 0
  · rw [(f4 hk).2]
  · rw [(f5 (Nat.pos_of_ne_zero hk)).2.1]; exact writeAt_prefix 0 _ _ _ hin

/-- whence_moves_only_that_pointer / plain_whence_moves_both: on a read/write handle an accepted seek that is not a
    refusal puts the read pointer (SFM_READ), the write pointer (SFM_WRITE) or both (plain) at the frame it reports, and
    leaves the other pointer, the frame count and the data alone -/
theorem whence_pointers_abs (g : Geom) (st : St) (off whence : Int) (o : Out) (st' : St) (hm : st.mode = .rw)
    (h : seekOk g st off whence o = .ok st') (hk : o.ret ≠ -1) :
    (seekQual whence = 0x10 → (st'.rpos : Int) = o.ret ∧ st'.wpos = st.wpos) ∧
    (seekQual whence = 0x20 → (st'.wpos : Int) = o.ret ∧ st'.rpos = st.rpos) ∧
    (seekQual whence = 0 → (st'.rpos : Int) = o.ret ∧ (st'.wpos : Int) = o.ret) ∧
    st'.frames = st.frames ∧ st'.ref = st.ref :=
  seek_accepted_pointers g st off whence o st' hm h hk

/-- truncate_shortens (and its refusal): see `Sf.Abs.truncOk_ok` -/
theorem truncate_abs (g : Geom) (st : St) (n : Int) (o : Out) (st' : St) (h : truncOk g st n o = .ok st') :
    ((st.mode = .r ∨ g.canTrunc = false ∨ n < 0) → o.ret ≠ 0 ∧ st'.frames = st.frames ∧ st'.rpos = st.rpos ∧
      st'.wpos = st.wpos ∧ st'.ref = st.ref) ∧
    (st.mode ≠ .r → g.canTrunc = true → 0 ≤ n → o.ret = 0 ∧ o.err = false ∧ st'.frames = n.toNat ∧ st'.rpos = n.toNat ∧
      st'.wpos = n.toNat ∧ ∀ t, st'.ref t = upTo 0 ((st.ref t).extract 0 (n.toNat * g.cpf t)) (n.toNat * g.cpf t)) :=
  truncOk_ok g st n o st' h

/-! ## non-vacuity: a new stereo file opened read/write on a descriptor route -/

def exG : Geom := { ch := 2, frames0 := 0, mode0 := .w, canTrunc := true, strictSeek := true, lossless := fun ty => ty = .s16 }
def exRef : Ty → Array Item := fun _ => #[]
def exValid : Ty → Bool := fun _ => true

/-- open rw; write 2 frames; read pointer to 0 (write pointer stays 2); read 3 frames: 2 delivered; write 1 more frame at
    the end (3 frames); overwrite frame 0; SEEK_END|SFM_READ −1; truncate to 1; close; a fresh open sees 1 frame -/
def exTr : List (Op × Out) :=
  [(.reopen .rw, { frames := 0 }),
   (.write .s16 true 2 #[1, 2, 3, 4], { ret := 2 }),
   (.seek 0 0x10, { ret := 0 }), (.seek 0 0x21, { ret := 2 }),
   (.read .s16 true 3, { ret := 2, data := #[1, 2, 3, 4, 0xA5A5, 0xA5A5] }),
   (.write .s16 false 2 #[5, 6], { ret := 2 }), (.info, { frames := 3 }),
   (.seek 0 0x20, { ret := 0 }), (.write .s16 true 1 #[7, 8], { ret := 1 }), (.info, { frames := 3 }),
   (.seek (-1) 0x12, { ret := 2 }), (.read .s16 true 1, { ret := 1, data := #[5, 6] }),
   (.trunc 1, { ret := 0 }), (.info, { frames := 1 }), (.seek 0 0x11, { ret := 1 }),
   (.close, { ret := 0 }), (.reopen .r, { frames := 1 }), (.read .s16 false 8, { ret := 2, data := #[7, 8, 0, 0, 0, 0, 0, 0] })]

example : holdsOn exG exRef exValid exTr = .ok 18 := by decide +kernel
/-- stale data after an overwrite, a frame count that did not grow, a pointer dragged along: refused with their clauses -/
example : holdsOn exG exRef exValid (exTr.take 4 ++ [(.read .s16 true 1, { ret := 1, data := #[9, 2] })]) = .bad 4 "data" := by decide
example : holdsOn exG exRef exValid (exTr.take 6 ++ [(.info, { frames := 2 })]) = .bad 6 "frames" := by decide +kernel
example : holdsOn exG exRef exValid (exTr.take 3 ++ [(.seek 0 0x21, { ret := 0 })]) = .bad 3 "position" := by decide
example : holdsOn exG exRef exValid (exTr.take 13 ++ [(.seek 0 0x11, { ret := 3 })]) = .bad 13 "position" := by decide +kernel
example : WriteReq exG { (St.init exG exRef exValid) with mode := .rw } true 2 := by unfold WriteReq; decide

end Sf.C08Abs
