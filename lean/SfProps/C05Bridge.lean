/-
  C05 / C06 / C08 — THE MECHANICAL BRIDGE: soundness of the predicate `Sf.Abs.holdsOn` (SfModel/Abs.lean, what `sfmodel abs`
  evaluates on the implementation's transcripts) against the CONCRETE handle model (SfModel/Handle.lean):

      a library that behaves as the concrete model does can never be flagged.

  -- properties: C05 C06 C08

  `transcript h s ops` is the transcript the concrete model produces for the operation list `ops` from the handle `h` on the
  store `s`: one (script line, transcript line) pair per operation, caller buffers (`List Int`) encoded as the cell arrays
  of the abstract model (`encBuf`: the bit pattern of each item as the harness prints it, a double as two 32-bit cells).
  `absSt h s` is the abstraction map (mode, frame count, positions; reference stream := `absRef h s ty`, the DECODED DATA
  REGION of the store).  `handle_run_accepted`: for RAW / AU / WAV, every sample-granular codec, every mode, every operation
  list, the predicate answers `ok` with every line accepted — proved by induction over `runOps` (SfProofs/AbsBridge*.lean)
  from the contract theorems of the concrete model (C05.read_contract_rmode, write_contract; C06.seek_result; C08Refine
  rdwr_refines) and the completeness lemmas of the predicate (readOk_complete, writeOk_complete, seekOk_complete_*,
  truncOk_complete).  Property theorems only.

  What the hypotheses say.  `BInv h s`: the handle invariant `HInv` of C05 (holds for every opened handle, kept by every
  operation), a non-negative frame count, and for read/write handles the RDWR invariant `RwInv` of C08 (holds for new files,
  whole-frame RAW files, tight and padded WAV / AU files, files written by write-only sessions, and is kept by every call).
  `Judged h op`: a write line supplies the whole requested region (the harness always does); the operation is not one of
  the four conversion-setting commands (they REPLACE the reference stream; the statements are about one stream); not
  SFC_FILE_TRUNCATE(−1) on a descriptor route (C09: `sf_seek`'s −1 is taken for success).  `CloseLast`: nothing follows a
  `close`.  The geometry: `geomOf h strict loss` — channels and `ftruncate` support of the handle, seekable, no I/O failures
  (the model has none), `strictSeek` either way, ANY claim `loss` of lossless caller types (where a type is claimed, `Judged`
  asks of a write line what C01 asks: values of that type, lossless for the encoding — then the stream after the write is
  still compared, against `writeAt` of the cells written: SfProofs/AbsBridgeLossless.lean), no hole / tail claims.
-/
import SfProofs.AbsBridgeRun
import SfProofs.AbsBridgeOpen
import SfProofs.AbsRun
import SfProps.C05
import SfProps.C01
namespace Sf.C05Bridge
open Sf Sf.AbsBridge

/-- the geometry the predicate runs with for a handle of the concrete model -/
def geomOf (h : H) (strict : Bool) (loss : Ty → Bool := fun _ => false) : Abs.Geom :=
  { ch := h.ch, canTrunc := h.canTruncate, strictSeek := strict, lossless := loss, frames0 := h.frames.toNat,
    mode0 := absMode h.mode }

theorem geomOf_for (h : H) (strict : Bool) (loss : Ty → Bool) : GeomFor (geomOf h strict loss) h :=
  ⟨rfl, rfl, rfl, rfl, rfl, fun _ => rfl⟩

/-! ## the invariant covers every opened handle -/

/-- read-only handles: `HInv` is enough (it holds after every successful open, `C05.HInv_initial`) -/
theorem BInv_read_only (h : H) (s : Store) (hi : HInv h s) (hm : h.mode = .r) : BInv h s :=
  ⟨hi, hi.frames_nn hm, fun hx => by rw [hm] at hx; cases hx⟩

/-- write-only handles: `HInv` and a non-negative frame count -/
theorem BInv_write_only (h : H) (s : Store) (hi : HInv h s) (hm : h.mode = .w) (hf : 0 ≤ h.frames) : BInv h s :=
  ⟨hi, hf, fun hx => by rw [hm] at hx; cases hx⟩

/-- read/write handles: the RDWR invariant of C08 (`C08Refine.RwInv_initial_*`, `RwInv_reachable`) -/
theorem BInv_read_write (h : H) (s : Store) (inv : RwInv h s) : BInv h s :=
  ⟨inv.toHInv, inv.gives.2.2.2.2.2.1, fun _ => inv⟩

/-- every judged operation keeps it (and the abstraction commutes: the state the predicate reaches stands for the new
    handle) -/
theorem BInv_preserved (g : Abs.Geom) (h : H) (s : Store) (st : Abs.St) (op : Sf.Op) (gf : GeomFor g h) (bi : BInv h s)
    (sim : Sim h s st) (hj : Judged g h op) (hc : isClose op = false) :
    ∃ st', Abs.check g st (absOp op) (absOut op (stepAny h s op).2.2) = .ok st' ∧
      Sim (stepAny h s op).1 (stepAny h s op).2.1 st' ∧ BInv (stepAny h s op).1 (stepAny h s op).2.1 :=
  step_bridge C01.widenExact g h s st op gf bi sim hj hc

theorem transcript_length : ∀ (ops : List Sf.Op) (h : H) (s : Store), (transcript h s ops).length = ops.length := by
  intro ops
  induction ops with
  | nil => intro _ _; rfl
  | cons op ops ih => intro h s; simp only [transcript, List.length_cons, ih]

/-! ## handle_run_accepted -/

/-- FROM ANY STATE.  For every handle and store satisfying the invariant, every abstract state that stands for them
    (`Sim`; `absSt h s` is one), every geometry that describes the handle, and every judged operation list: the predicate
    accepts every line of the transcript the concrete model produces. -/
theorem handle_run_accepted_from (g : Abs.Geom) (h : H) (s : Store) (st : Abs.St) (ops : List Sf.Op)
    (gf : GeomFor g h) (bi : BInv h s) (sim : Sim h s st) (hj : ∀ op ∈ ops, Judged g h op) (hcl : CloseLast ops) :
    Abs.holdsFrom g 0 st (transcript h s ops) = .ok ops.length := by
  rw [Abs.holdsFrom_ok_iff]
  exact ⟨run_bridge C01.widenExact g ops h s st gf bi sim hj hcl, by rw [transcript_length]; omega⟩

/-- the abstraction map gives such a state -/
theorem absSt_stands_for (h : H) (s : Store) (bi : BInv h s) : Sim h s (absSt h s) := absSt_sim h s bi

/-- THE BRIDGE.  A handle as an open leaves it (read position 0; write position 0, or the frame count on a read/write
    handle): `holdsOn`, started as the check starts it — `St.init` with the geometry of the handle and ref := the decoded
    data region — answers `ok` on the transcript of EVERY judged operation list. -/
theorem handle_run_accepted (h : H) (s : Store) (strict : Bool) (loss : Ty → Bool) (ops : List Sf.Op) (bi : BInv h s)
    (hr0 : h.mode ≠ .w → h.rpos = 0) (hw0 : h.mode = .w → h.wpos = 0) (hw1 : h.mode = .rw → h.wpos = h.frames)
    (hj : ∀ op ∈ ops, Judged (geomOf h strict loss) h op) (hcl : CloseLast ops) :
    Abs.holdsOn (geomOf h strict loss) (absRef h s) (fun _ => true) (transcript h s ops) = .ok ops.length := by
  unfold Abs.holdsOn
  apply handle_run_accepted_from _ h s _ ops (geomOf_for h strict loss) bi _ hj hcl
  have hf := bi.frames_nn
  refine ⟨rfl, by simp only [Abs.St.init, geomOf]; omega, fun hm => ?_, fun hm => ?_, fun _ _ _ => rfl⟩
  · simp only [Abs.St.init]; rw [hr0 hm]; rfl
  · simp only [Abs.St.init, geomOf]
    rcases mode_cases h.mode with hx | hx | hx
    · exact absurd hx hm
    · simp only [hx, absMode, reduceCtorEq, if_false]; rw [hw0 hx]; rfl
    · simp only [hx, absMode, if_true]; rw [hw1 hx]; omega

/-- EVERY OPENED HANDLE.  No hypothesis on the state but the successful open (`openHandle … = .ok h s`, any mode, RAW / AU /
    WAV, any encoding the container offers) — and, for SFM_RDWR, that the opened file is one the RDWR invariant covers
    (`C08Refine.RwInv_initial_new / _raw / _tight / _padded`, `prepopulated_opens_rdwr`): the positions an open leaves are the
    ones `St.init` assumes (`open_facts`), the invariant holds (`C05.HInv_initial`), so every judged operation list is accepted. -/
theorem opened_run_accepted (ix : Nat) (s0 : Store) (mode : Sf.Mode) (fmt : Nat) (ch sr : Int) (h : H) (s : Store)
    (ho : openHandle ix s0 mode fmt ch sr = .ok h s) (hrw : mode = .rw → RwInv h s) (strict : Bool) (loss : Ty → Bool)
    (ops : List Sf.Op) (hj : ∀ op ∈ ops, Judged (geomOf h strict loss) h op) (hcl : CloseLast ops) :
    Abs.holdsOn (geomOf h strict loss) (absRef h s) (fun _ => true) (transcript h s ops) = .ok ops.length := by
  obtain ⟨hm, hr, hf, hw⟩ := open_facts ix s0 mode fmt ch sr h s ho
  refine handle_run_accepted h s strict loss ops
    ⟨HInv_openHandle ix s0 mode fmt ch sr h s ho, hf, fun hx => hrw (by rw [← hm]; exact hx)⟩ (fun _ => hr) (fun hx => ?_) (fun hx => ?_) hj hcl
  · rw [hw, ← hm, hx]; rfl
  · rw [hw, ← hm, hx]; rfl

/-- … in the words of the task: a model-conformant library is never flagged, at no line, with no clause -/
theorem model_never_flagged (h : H) (s : Store) (strict : Bool) (loss : Ty → Bool) (ops : List Sf.Op) (bi : BInv h s)
    (hr0 : h.mode ≠ .w → h.rpos = 0) (hw0 : h.mode = .w → h.wpos = 0) (hw1 : h.mode = .rw → h.wpos = h.frames)
    (hj : ∀ op ∈ ops, Judged (geomOf h strict loss) h op) (hcl : CloseLast ops) (k : Nat) (tag : String) :
    Abs.holdsOn (geomOf h strict loss) (absRef h s) (fun _ => true) (transcript h s ops) ≠ .bad k tag ∧
    Abs.holdsOn (geomOf h strict loss) (absRef h s) (fun _ => true) (transcript h s ops) ≠ .skip k := by
  rw [handle_run_accepted h s strict loss ops bi hr0 hw0 hw1 hj hcl]
  exact ⟨fun hx => Abs.Verdict.noConfusion hx, fun hx => Abs.Verdict.noConfusion hx⟩

/-! ## where the side conditions are needed -/

/-- SFC_SET_NORM_FLOAT replaces the stream a float read delivers: the 16-bit samples 1, 2 read as 1/32768, 2/32768 with
    normalisation (the default) and as 1.0, 2.0 without — a transcript across the command is not a history of ONE stream.  (The campaigns issue
    no conversion-setting command; the predicate maps every command but SFC_FILE_TRUNCATE to `Op.other`.) -/
theorem conv_command_replaces_stream :
    convCmd 0x1013 ∧
    (stepRead C05.exH C05.exStore .f32 true 1).2.2.data = [0x38000000, 0x38800000] ∧
    (stepRead (stepCmdFlag C05.exH C05.exStore 0x1013 0).1 (stepCmdFlag C05.exH C05.exStore 0x1013 0).2.1 .f32 true 1).2.2.data
      = [0x3F800000, 0x40000000] := by
  refine ⟨by decide, by decide, by decide⟩

/-! ## non-vacuity: the 3-frame stereo 16-bit RAW file of C05, read-only; a new file, write-only -/

def exOps : List Sf.Op :=
  [.read 0 .s16 false 4, .seek 0 1 0, .read 0 .s16 true 5, .seek 0 0 1, .read 0 .s16 false 3, .seek 0 9 0, .truncate 0 1,
   .read 0 .f32 true 1, .cmdFlag 0 0x1060 0, .close 0]

example : BInv C05.exH C05.exStore :=
  BInv_read_only _ _ (HInv_openHandle 0 C05.exStore .r 0x040002 2 8000 C05.exH C05.exStore (by rfl)) rfl
example : (∀ op ∈ exOps, Judged (geomOf C05.exH true) C05.exH op) ∧ CloseLast exOps := by
  refine ⟨?_, by simp [exOps, CloseLast, isClose]⟩
  intro op hop
  simp only [exOps, List.mem_cons, List.mem_nil_iff, or_false] at hop
  rcases hop with h | h | h | h | h | h | h | h | h | h <;> subst h <;> simp [Judged, convCmd]
/-- the ten lines are accepted … -/
example : Abs.holdsOn (geomOf C05.exH true) (absRef C05.exH C05.exStore) (fun _ => true) (transcript C05.exH C05.exStore exOps)
    = .ok 10 :=
  handle_run_accepted C05.exH C05.exStore true (fun _ => false) exOps
    (BInv_read_only _ _ (HInv_openHandle 0 C05.exStore .r 0x040002 2 8000 C05.exH C05.exStore (by rfl)) rfl)
    (fun _ => rfl) (fun h => by cases h) (fun h => by cases h)
    (by
      intro op hop
      simp only [exOps, List.mem_cons, List.mem_nil_iff, or_false] at hop
      rcases hop with h | h | h | h | h | h | h | h | h | h <;> subst h <;> simp [Judged, convCmd])
    (by simp [exOps, CloseLast, isClose])
/-- … and they are these: 4 items, seek to 1, 2 of 5 frames (the data ends), position query, a misaligned request
    (0 + error), a refused seek (−1 + error), a refused truncate, end of data, a command, close -/
example : (transcript C05.exH C05.exStore exOps).map (fun l => (l.2.ret, l.2.err)) =
    [(4, false), (1, false), (2, false), (3, false), (0, true), (-1, true), (1, false), (0, false), (0, false), (0, false)] := by
  decide
example : absRef C05.exH C05.exStore .s16 = #[1, 2, 3, 4, 5, 6] ∧
    ((transcript C05.exH C05.exStore exOps).map (fun l => l.2.data)).take 3 = [#[1, 2, 3, 4], #[], #[3, 4, 5, 6, 0xA5A5, 0xA5A5, 0xA5A5, 0xA5A5, 0xA5A5, 0xA5A5]] := by
  decide

/-- the same through `opened_run_accepted`: nothing is assumed but the open -/
example : Abs.holdsOn (geomOf C05.exH true) (absRef C05.exH C05.exStore) (fun _ => true) (transcript C05.exH C05.exStore exOps)
    = .ok 10 :=
  opened_run_accepted 0 C05.exStore .r 0x040002 2 8000 C05.exH C05.exStore (by rfl) (fun h => by cases h) true _ exOps
    (by
      intro op hop
      simp only [exOps, List.mem_cons, List.mem_nil_iff, or_false] at hop
      rcases hop with h | h | h | h | h | h | h | h | h | h <;> subst h <;> simp [Judged, convCmd])
    (by simp [exOps, CloseLast, isClose])

def exWOps : List Sf.Op := [.write 0 .s16 true 2 [1, 2, 3, 4, 99], .seek 0 0 1, .write 0 .s16 false 3 [5, 6, 7], .seek 0 0 0, .close 0]
example : Abs.holdsOn (geomOf C05.exW false) (absRef C05.exW {}) (fun _ => true) (transcript C05.exW {} exWOps) = .ok 5 :=
  handle_run_accepted C05.exW {} false (fun _ => false) exWOps
    (BInv_write_only _ _ (HInv_openHandle 0 {} .w 0x040002 2 8000 C05.exW {} (by rfl)) rfl (by decide))
    (fun h => absurd rfl h) (fun _ => rfl) (fun h => by cases h)
    (by
      intro op hop
      simp only [exWOps, List.mem_cons, List.mem_nil_iff, or_false] at hop
      rcases hop with h | h | h | h | h <;> subst h <;> simp [Judged, geomOf] <;> decide)
    (by simp [exWOps, CloseLast, isClose])
example : (transcript C05.exW {} exWOps).map (fun l => (l.2.ret, l.2.err)) = [(2, false), (2, false), (0, true), (0, false), (0, false)] := by
  decide

end Sf.C05Bridge
