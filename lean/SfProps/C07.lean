/-
  C07 — output bytes are independent of how writes are split.  Property theorems only
  (sample-granular encodings in the containers whose header bytes are modelled: RAW, AU, WAV).

  Main results
  * `kernel_append`            : encoding distributes over concatenation (all encodings, all settings).
  * `write_partition_store`    : two consecutive write calls = one call with the concatenated buffer,
                                 handle and store, on every state satisfying the writer invariant `WInv`.
  * `file_bytes_fn`            : the closed file is a function of (open parameters, concatenated encoded bytes,
                                 PEAK state) — item / frame call variants and interleaved SFC_UPDATE_HEADER_NOW included.
  * `file_bytes_partition_partial` : for every format without a PEAK chunk the file depends only on the concatenation.
  * `file_bytes_partition_finite` : since the repairs of KF-C18-DOUBLE-NARROW / KF-C18-STAGING-MISALIGN the full statement
                                 holds for PEAK-carrying files too, for every history of finite samples (the old
                                 rule's dependence on the split: `Sf.C18.peak_partition_old_rule_fails`); the audio
                                 data never depended on it (`file_data_partition`).
-/
import SfProofs.CodecFile
import SfProofs.PeakFile
namespace Sf.C07
open Sf

/-! ## kernels -/

/-- `enc (xs ++ ys) = enc xs ++ enc ys`, every encoding, every caller type, every conversion setting -/
theorem kernel_append (e : Enc) (c : Conv) (ty : Ty) (xs ys : List Int) :
    e.encodeAll c ty (xs ++ ys) = e.encodeAll c ty xs ++ e.encodeAll c ty ys :=
  Enc.encodeAll_append e c ty xs ys

theorem kernel_flatten (e : Enc) (c : Conv) (ty : Ty) (xss : List (List Int)) :
    e.encodeAll c ty xss.flatten = (xss.map (e.encodeAll c ty)).flatten :=
  Enc.encodeAll_flatten e c ty xss

example : (Enc.pcm ⟨24, false, true⟩).encodeAll {} .s16 ([1, -2] ++ [3]) = [0, 1, 0, 0xFF, 0xFE, 0, 0, 3, 0] := by decide

/-! ## the writer invariant is reachable and preserved -/

/-- it holds right after a successful open for write on an empty store (RAW, AU, WAV) -/
theorem winv_initial (si : Nat) (fmt : Nat) (ch sr : Int) (h : H) (s : Store)
    (ho : openHandle si {} .w fmt ch sr = .ok h s) : WInv h s s.bytes [] :=
  (open_winv si {} rfl fmt ch sr h s ho).1

/-- every well-formed write call (items or frames variant, zero count included) and every
    SFC_UPDATE_HEADER_NOW preserves it, appending exactly the encoded samples to the data -/
theorem winv_step (h : H) (s : Store) (hdr dat : List Byte) (inv : WInv h s hdr dat) (op : WOp) (o : op.ok h) :
    ∃ hdr', WInv (stepW (h, s) op).1 (stepW (h, s) op).2 hdr' (dat ++ op.bytes h.enc h.conv) :=
  let ⟨hdr', i, _⟩ := stepW_spec h s hdr dat inv op o
  ⟨hdr', i⟩

/-! ## two calls = one call -/

/-- For a handle in write mode satisfying the invariant, two consecutive valid calls (any mix of item and frame
    variants) with `xs` then `ys` leave exactly the same handle (all fields: wpos, frames, lengths, PEAK …) and the same
    store (all bytes, position) as one items call with `xs ++ ys` — automatic header updates
    (SFC_SET_UPDATE_HEADER_AUTO) included — provided the PEAK bookkeeping agrees (`PeakAgree`). -/
theorem write_partition_store (h : H) (s : Store) (hdr dat : List Byte) (inv : WInv h s hdr dat) (ty : Ty)
    (fc1 : Bool) (n1 : Int) (xs : List Int) (fc2 : Bool) (n2 : Int) (ys : List Int)
    (v1 : ValidW h fc1 n1 xs) (v2 : ValidW h fc2 n2 ys) (hpk : PeakAgree h ty xs ys) :
    let r1 := stepWrite h s ty fc1 n1 xs
    let r2 := stepWrite r1.1 r1.2.1 ty fc2 n2 ys
    let r := stepWrite h s ty false (callLen h fc1 n1 + callLen h fc2 n2) (xs ++ ys)
    r2.1 = r.1 ∧ r2.2.1 = r.2.1 :=
  stepWrite_two_calls h s hdr dat inv ty fc1 n1 xs fc2 n2 ys v1 v2 hpk

/-- unconditional for RAW, AU and WAV without PEAK chunk (integer PCM, µ-law, A-law): `h.peak = none` -/
theorem write_partition_store_nopeak (h : H) (s : Store) (hdr dat : List Byte) (inv : WInv h s hdr dat) (ty : Ty)
    (fc1 : Bool) (n1 : Int) (xs : List Int) (fc2 : Bool) (n2 : Int) (ys : List Int)
    (v1 : ValidW h fc1 n1 xs) (v2 : ValidW h fc2 n2 ys) (hp : h.peak = none) :
    let r1 := stepWrite h s ty fc1 n1 xs
    let r2 := stepWrite r1.1 r1.2.1 ty fc2 n2 ys
    let r := stepWrite h s ty false (callLen h fc1 n1 + callLen h fc2 n2) (xs ++ ys)
    r2.1 = r.1 ∧ r2.2.1 = r.2.1 :=
  stepWrite_two_calls h s hdr dat inv ty fc1 n1 xs fc2 n2 ys v1 v2 (PeakAgree_of_none h ty xs ys hp)

/-- non-vacuity: a stereo 16-bit AU file, one frames call then one items call vs. one items call -/
example :
    (match openHandle 0 {} .w 0x030002 2 44100 with
     | .ok h s =>
        let r1 := stepWrite h s .s16 true 1 [1, 2]
        let r2 := stepWrite r1.1 r1.2.1 .s16 false 4 [3, 4, 5, 6]
        let r := stepWrite h s .s16 false 6 [1, 2, 3, 4, 5, 6]
        decide (r2.2.1.bytes = r.2.1.bytes ∧ r.2.1.bytes.length = 36 ∧ r2.1.wpos = 3)
     | _ => false) = true := by decide +kernel

/-! ## the whole file -/

/-- The closed file is `closeForm` of: the handle as opened, the frame count implied by the byte count, the
    PEAK state (`peakRun`) and the concatenation of the encoded bytes of the calls.  Nothing else of the call
    sequence enters: not the split, not the item/frame variant, not zero-count calls, not header updates. -/
theorem file_bytes_fn (fmt : Nat) (ch sr : Int) (h : H) (s : Store) (ho : openHandle 0 {} .w fmt ch sr = .ok h s)
    (ops : List WOp) (hok : ∀ op ∈ ops, op.ok h) :
    closeBytes fmt ch sr ops =
      some (closeForm { h with frames := ((ops.flatMap (WOp.bytes h.enc h.conv)).length : Int) / ((h.enc.nbytes * h.ch : Nat) : Int),
                               peak := peakRun h.enc h.conv h.ch h.peak 0 ops }
              (ops.flatMap (WOp.bytes h.enc h.conv))) :=
  closeBytes_eq fmt ch sr h s ho ops hok

/-- two call sequences with the same encoded byte stream and the same PEAK state give the same file -/
theorem file_bytes_partition_peak (fmt : Nat) (ch sr : Int) (h : H) (s : Store)
    (ho : openHandle 0 {} .w fmt ch sr = .ok h s) (ops1 ops2 : List WOp)
    (hok1 : ∀ op ∈ ops1, op.ok h) (hok2 : ∀ op ∈ ops2, op.ok h)
    (hb : ops1.flatMap (WOp.bytes h.enc h.conv) = ops2.flatMap (WOp.bytes h.enc h.conv))
    (hp : peakRun h.enc h.conv h.ch h.peak 0 ops1 = peakRun h.enc h.conv h.ch h.peak 0 ops2) :
    closeBytes fmt ch sr ops1 = closeBytes fmt ch sr ops2 := by
  rw [closeBytes_eq fmt ch sr h s ho ops1 hok1, closeBytes_eq fmt ch sr h s ho ops2 hok2, hb, hp]

/-- the single items call that hands over all samples of `ops` at once -/
def oneCall (ty : Ty) (ops : List WOp) : WOp :=
  .write ty false (ops.flatMap WOp.samples).length (ops.flatMap WOp.samples)

/-- C07 as stated, for one caller type `ty`: any list of well-formed calls (items and frames variants, any split,
    SFC_UPDATE_HEADER_NOW anywhere in between) closes to the same bytes as one call with the concatenation. -/
def file_bytes_partition_full : Prop :=
  ∀ (fmt : Nat) (ch sr : Int) (h : H) (s : Store), openHandle 0 {} .w fmt ch sr = .ok h s →
    ∀ (ty : Ty) (ops : List WOp), (∀ op ∈ ops, op.ok h) → (∀ op ∈ ops, op.hasTy ty) →
      closeBytes fmt ch sr ops = closeBytes fmt ch sr [oneCall ty ops]

/-- it holds for every format that does not carry a PEAK chunk (RAW, AU, WAV integer PCM / µ-law / A-law) -/
theorem file_bytes_partition_partial (fmt : Nat) (ch sr : Int) (h : H) (s : Store)
    (ho : openHandle 0 {} .w fmt ch sr = .ok h s) (hnp : carriesPeak fmt = false)
    (ty : Ty) (ops : List WOp) (hok : ∀ op ∈ ops, op.ok h) (ht : ∀ op ∈ ops, op.hasTy ty) :
    closeBytes fmt ch sr ops = closeBytes fmt ch sr [oneCall ty ops] := by
  have hp := open_peak_none 0 {} fmt ch sr h s ho hnp
  have hok1 : ∀ op ∈ [oneCall ty ops], op.ok h := by
    intro op hop; simp only [List.mem_singleton] at hop; subst hop; exact single_ok h ty ops hok
  apply file_bytes_partition_peak fmt ch sr h s ho ops _ hok hok1
  · rw [ops_bytes_eq _ _ ty ops ht, ops_bytes_eq _ _ ty [oneCall ty ops] (by simp [oneCall, WOp.hasTy])]
    congr 1
    simp only [oneCall, List.flatMap_cons, List.flatMap_nil, List.append_nil, WOp.samples]
    split
    · rename_i h0; exact List.eq_nil_of_length_eq_zero (by omega)
    · rfl
  · rw [hp, peakRun_none, peakRun_none]

/-- the splits form used in DESIGN §7: a list of buffers, each written with an items call -/
theorem file_bytes_partition_splits (fmt : Nat) (ch sr : Int) (h : H) (s : Store)
    (ho : openHandle 0 {} .w fmt ch sr = .ok h s) (hnp : carriesPeak fmt = false) (ty : Ty)
    (splits : List (List Int)) (hs : ∀ xs ∈ splits, (xs.length : Int) % h.ch = 0) :
    closeBytes fmt ch sr (splits.map fun xs => .write ty false xs.length xs) =
      closeBytes fmt ch sr [.write ty false splits.flatten.length splits.flatten] := by
  have hok : ∀ op ∈ splits.map (fun xs => WOp.write ty false xs.length xs), op.ok h := by
    intro op hop
    simp only [List.mem_map] at hop
    obtain ⟨xs, hx, rfl⟩ := hop
    by_cases h0 : (xs.length : Int) = 0
    · exact Or.inl h0
    · exact Or.inr ⟨by omega, fun _ => hs xs hx, rfl⟩
  have ht : ∀ op ∈ splits.map (fun xs => WOp.write ty false xs.length xs), op.hasTy ty := by
    intro op hop
    simp only [List.mem_map] at hop
    obtain ⟨xs, _, rfl⟩ := hop
    rfl
  have hsm : (splits.map fun xs => WOp.write ty false xs.length xs).flatMap WOp.samples = splits.flatten := by
    clear hok ht hs
    induction splits with
    | nil => rfl
    | cons x xs ih =>
      simp only [List.map_cons, List.flatMap_cons, List.flatten_cons, ih]
      congr 1
      simp only [WOp.samples]
      split
      · rename_i h0; exact (List.eq_nil_of_length_eq_zero (by omega)).symm
      · rfl
  have := file_bytes_partition_partial fmt ch sr h s ho hnp ty _ hok ht
  rw [this, oneCall, hsm]

/-- non-vacuity / concrete instance: 3 splits (frames call, header update, items calls) of a mono 24-bit WAV -/
example : closeBytes 0x010003 1 8000 [.write .s32 true 1 [256], .updHeader 0, .write .s32 false 2 [512, -256], .write .s32 false 0 []]
    = closeBytes 0x010003 1 8000 [.write .s32 false 3 [256, 512, -256]] := by decide +kernel

/-! ## PEAK-carrying files (WAV float / double)

Before the repairs of KF-C18-DOUBLE-NARROW and KF-C18-STAGING-MISALIGN the PEAK *position* depended on the split
(`Sf.C18.peak_partition_old_rule_fails`: a = 1 + 2⁻³⁰ then b = 1 + 2⁻³¹ in one call gave position 1, in two calls position 0;
`Sf.C18.staging_misaligned_old_rule`).  With the running maximum kept in the sample's type and staging buffers of whole
frames the PEAK state is a function of the samples (`Sf.Peak.run_partition`), so the full statement holds for every
history of finite samples.  Non-finite samples (NaN / ±Inf, also a finite double that overflows a FLOAT file) are outside
the quantifier of every property: the C comparisons with NaN are all false, which *is* partition dependent, and the model's
order on such patterns is not the C one. -/

/-- every sample handed over is finite in the file's sample type -/
def FiniteOps (h : H) (ty : Ty) (ops : List WOp) : Prop :=
  ∀ x ∈ ops.flatMap WOp.samples, (Peak.fileFmt h.enc).isFinite (Peak.convVal h.enc h.conv ty x) = true

/-- **C07 at full strength, PEAK-carrying files included**: any list of well-formed calls of finite samples (items and
    frames variants, any split, SFC_UPDATE_HEADER_NOW anywhere in between) closes to the same bytes as one call with the
    concatenation. -/
theorem file_bytes_partition_finite (fmt : Nat) (ch sr : Int) (h : H) (s : Store)
    (ho : openHandle 0 {} .w fmt ch sr = .ok h s)
    (ty : Ty) (ops : List WOp) (hok : ∀ op ∈ ops, op.ok h) (ht : ∀ op ∈ ops, op.hasTy ty) (hfin : FiniteOps h ty ops) :
    closeBytes fmt ch sr ops = closeBytes fmt ch sr [oneCall ty ops] := by
  have hok1 : ∀ op ∈ [oneCall ty ops], op.ok h := by
    intro op hop; simp only [List.mem_singleton] at hop; subst hop; exact single_ok h ty ops hok
  have ht1 : ∀ op ∈ [oneCall ty ops], op.hasTy ty := by simp [oneCall, WOp.hasTy]
  have hs1 : [oneCall ty ops].flatMap WOp.samples = ops.flatMap WOp.samples := by
    simp only [oneCall, List.flatMap_cons, List.flatMap_nil, List.append_nil, WOp.samples]
    split
    · rename_i h0; exact (List.eq_nil_of_length_eq_zero (by omega)).symm
    · rfl
  apply file_bytes_partition_peak fmt ch sr h s ho ops _ hok hok1
  · rw [ops_bytes_eq _ _ ty ops ht, ops_bytes_eq _ _ ty [oneCall ty ops] ht1, hs1]
  · obtain ⟨inv, _⟩ := open_winv 0 {} rfl fmt ch sr h s ho
    have hpk := (open_props 0 {} fmt ch sr h s ho).2.2.2.2.2.2.2.2.2
    rw [hpk]
    split
    · rename_i hx
      rw [Peak.peakRun_eq_run, Peak.peakRun_eq_run]
      apply Peak.run_partition h.enc hx.2 h.conv h.ch inv.ch_pos
      · rw [Peak.toCalls_fileVals _ _ ty ops ht, Peak.toCalls_fileVals _ _ ty _ ht1, hs1]
      · exact Peak.toCalls_wellFormed h inv.ch_pos ty ops hok ht hfin
      · exact Peak.toCalls_wellFormed h inv.ch_pos ty _ hok1 ht1 (by rw [hs1]; exact hfin)
    · rw [peakRun_none, peakRun_none]

/-- the witness that used to separate the two splits: now the same file -/
def wa : Int := 0x3FF0000000400000   -- 1 + 2^-30
def wb : Int := 0x3FF0000000200000   -- 1 + 2^-31

example : closeBytes 0x010007 1 8000 [.write .f64 false 2 [wa, wb]] =
    closeBytes 0x010007 1 8000 [.write .f64 false 1 [wa], .write .f64 false 1 [wb]] := by decide +kernel

/-- … but the audio data and the file length never depend on the partition, PEAK or not:
    the closed file is  header ++ (concatenated encoded bytes) ++ trailer  with a header of fixed length -/
theorem file_data_partition (fmt : Nat) (ch sr : Int) (h : H) (s : Store)
    (ho : openHandle 0 {} .w fmt ch sr = .ok h s) (ops : List WOp) (hok : ∀ op ∈ ops, op.ok h) :
    ∃ file, closeBytes fmt ch sr ops = some file ∧
      (file.drop (hdrLenOf h)).take (ops.flatMap (WOp.bytes h.enc h.conv)).length = ops.flatMap (WOp.bytes h.enc h.conv) := by
  refine ⟨_, closeBytes_eq fmt ch sr h s ho ops hok, ?_⟩
  have hl : hdrLenOf h = hdrLenOf ({ h with
      frames := ((ops.flatMap (WOp.bytes h.enc h.conv)).length : Int) / ((h.enc.nbytes * h.ch : Nat) : Int),
      peak := peakRun h.enc h.conv h.ch h.peak 0 ops } : H) := by
    obtain ⟨inv, _⟩ := open_winv 0 {} rfl fmt ch sr h s ho
    exact (hdrLenOf_congr h ({ h with
      frames := ((ops.flatMap (WOp.bytes h.enc h.conv)).length : Int) / ((h.enc.nbytes * h.ch : Nat) : Int),
      peak := peakRun h.enc h.conv h.ch h.peak 0 ops } : H) rfl rfl rfl (peakRun_maplen _ _ _ ops h.peak 0 inv.peak_len)).symm
  rw [hl]
  exact closeForm_data _ _

end Sf.C07
