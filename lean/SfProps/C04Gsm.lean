/-
  C04 / C11 (GSM 06.10 geometry) — frames reported at open by `gsm610_init` (SfModel/GsmFile.lean `blocksOf`,
  `framesAtOpen`) as a function of the data length the container's parser hands over.
  -- properties: C04 C11

  A writer always emits whole blocks (N of them for n frames, N = ⌈n / samplesperblock⌉), so the data length is
  `blocksize * N` plus whatever the container adds: nothing (RAW, W64), one pad byte when odd (AIFF: dropped again by
  the 33-byte rule; WAV: `psf->datalength += chunk_size & 1` in wav.c, NOT dropped — known finding KF-WAV-GSM-PAD).
-/
import SfModel.GsmFile
namespace Sf.C04Gsm
open Sf Sf.Gsm

/-- whole blocks: the frame count is exact in both geometries -/
theorem gsm_frames_exact (c : Cfg) (n : Nat) : framesAtOpen c (c.blocksize * n) none = c.spb * n := by
  have hb : 0 < c.blocksize := by unfold Cfg.blocksize; split <;> decide
  unfold framesAtOpen blocksOf
  simp [Nat.mul_mod_right, Nat.mul_div_cancel_left n hb]

/-- in general the count is within one block of the data: ⌊dlen / blocksize⌋ ≤ blocks ≤ ⌊dlen / blocksize⌋ + 1, and the
    frames never exceed the header's numSampleFrames when the container (AIFF) supplies one -/
theorem gsm_frames_bound (c : Cfg) (dlen : Nat) (hdr : Option Nat) :
    framesAtOpen c dlen hdr ≤ c.spb * (dlen / c.blocksize + 1) ∧ c.spb * (dlen / c.blocksize) ≤ framesAtOpen c dlen none ∧
    (∀ h, hdr = some h → framesAtOpen c dlen hdr ≤ h) := by
  have hblk : dlen / c.blocksize ≤ blocksOf c dlen ∧ blocksOf c dlen ≤ dlen / c.blocksize + 1 := by
    unfold blocksOf; split
    · omega
    · split <;> omega
  refine ⟨?_, ?_, ?_⟩
  · have h1 : c.spb * blocksOf c dlen ≤ c.spb * (dlen / c.blocksize + 1) := Nat.mul_le_mul_left _ hblk.2
    unfold framesAtOpen
    cases hdr with
    | none => exact h1
    | some h => simp only; split <;> omega
  · exact Nat.mul_le_mul_left _ hblk.1
  · intro h hh; subst hh
    unfold framesAtOpen; simp only; split <;> omega

/-- AIFF: an odd number N of 33-byte frames makes an odd SSND payload; the pad byte raises the data length to
    33 N + 1 and the "weird AIFF specific case" of gsm610_init drops it again: the count is exact -/
theorem gsm_aiff_pad_dropped (n : Nat) : framesAtOpen ⟨false⟩ (33 * n + 1) none = 160 * n := by
  have h1 : (33 * n + 1) % 33 = 1 := by omega
  have h2 : (33 * n + 1) / 33 = n := by omega
  unfold framesAtOpen blocksOf
  simp [Cfg.blocksize, Cfg.spb, h1, h2]

/-- the full statement for WAV: N whole blocks written re-open with 320 N frames — for the data length wav.c hands
    over, `65 N + (65 N mod 2)` -/
def wav_gsm_frames_exact_full : Prop := ∀ n : Nat, framesAtOpen ⟨true⟩ (65 * n + (65 * n) % 2) none = 320 * n

/-- KF-WAV-GSM-PAD, proved witness: one block written, the RIFF pad byte is counted and a second, phantom block is
    reported (640 frames) -/
theorem wav_gsm_pad_counts_extra_block : framesAtOpen ⟨true⟩ (65 * 1 + (65 * 1) % 2) none = 640 := by decide

theorem wav_gsm_frames_exact_full_fails : ¬ wav_gsm_frames_exact_full := by
  intro h
  have := h 1
  rw [wav_gsm_pad_counts_extra_block] at this
  omega

/-- every odd number of blocks shows the defect: exactly one block too many -/
theorem wav_gsm_odd_blocks_one_extra (n : Nat) (h : n % 2 = 1) :
    framesAtOpen ⟨true⟩ (65 * n + (65 * n) % 2) none = 320 * (n + 1) := by
  have h0 : (65 * n) % 2 = 1 := by omega
  have h1 : (65 * n + 1) % 65 = 1 := by omega
  have h2 : (65 * n + 1) / 65 = n := by omega
  unfold framesAtOpen blocksOf
  simp [Cfg.blocksize, Cfg.spb, h0, h1, h2]

/-- the partial statement, excluded region = exactly the class of KF-WAV-GSM-PAD (an odd number of 65-byte blocks) -/
theorem wav_gsm_frames_exact_partial (n : Nat) (h : n % 2 = 0) :
    framesAtOpen ⟨true⟩ (65 * n + (65 * n) % 2) none = 320 * n := by
  have h0 : (65 * n) % 2 = 0 := by omega
  have h1 : (65 * n) % 65 = 0 := by omega
  have h2 : (65 * n) / 65 = n := by omega
  unfold framesAtOpen blocksOf
  simp [Cfg.blocksize, Cfg.spb, h0, h1, h2]

example : (2 : Nat) % 2 = 0 ∧ (3 : Nat) % 2 = 1 ∧ framesAtOpen ⟨false⟩ (33 * 3 + 1) none = 480 ∧
    framesAtOpen ⟨true⟩ 130 none = 640 ∧ framesAtOpen ⟨false⟩ 40 (some 7) = 7 := by decide

end Sf.C04Gsm
