/-
  C04 / C11 (GSM 06.10 geometry) — frames reported at open by `gsm610_init` (SfModel/GsmFile.lean `blocksOfWith`,
  `framesWith`) as a function of the data length the container's parser hands over.
  -- properties: C04 C11

  A writer always emits whole blocks (N of them for n frames, N = ⌈n / samplesperblock⌉), so the data length is
  `blocksize * N` plus whatever the container adds: nothing (RAW, W64), one pad byte when odd (AIFF: dropped again by
  the 33-byte rule; WAV: `psf->datalength += chunk_size & 1` in wav.c, dropped only by the repaired rule — known
  finding KF-WAV-GSM-PAD).  Theorems are stated for an explicit rule (`both = false`: /repo f178350, `both = true`:
  after the repair) or for both; `Sf.Gsm.padRuleBoth` says which one the model run by the campaign uses.
-/
import SfModel.GsmFile
namespace Sf.C04Gsm
open Sf Sf.Gsm

/-- whole blocks: the frame count is exact in both geometries, under either rule -/
theorem gsm_frames_exact (both : Bool) (c : Cfg) (n : Nat) : framesWith both c (c.blocksize * n) none = c.spb * n := by
  have hb : 0 < c.blocksize := by unfold Cfg.blocksize; split <;> decide
  unfold framesWith blocksOfWith
  simp [Nat.mul_mod_right, Nat.mul_div_cancel_left n hb]

/-- in general the count is within one block of the data: ⌊dlen / blocksize⌋ ≤ blocks ≤ ⌊dlen / blocksize⌋ + 1, and the
    frames never exceed the header's numSampleFrames when the container (AIFF) supplies one -/
theorem gsm_frames_bound (both : Bool) (c : Cfg) (dlen : Nat) (hdr : Option Nat) :
    framesWith both c dlen hdr ≤ c.spb * (dlen / c.blocksize + 1) ∧ c.spb * (dlen / c.blocksize) ≤ framesWith both c dlen none ∧
    (∀ h, hdr = some h → framesWith both c dlen hdr ≤ h) := by
  have hblk : dlen / c.blocksize ≤ blocksOfWith both c dlen ∧ blocksOfWith both c dlen ≤ dlen / c.blocksize + 1 := by
    unfold blocksOfWith; split
    · omega
    · split <;> omega
  refine ⟨?_, ?_, ?_⟩
  · have h1 : c.spb * blocksOfWith both c dlen ≤ c.spb * (dlen / c.blocksize + 1) := Nat.mul_le_mul_left _ hblk.2
    unfold framesWith
    cases hdr with
    | none => exact h1
    | some h => simp only; split <;> omega
  · exact Nat.mul_le_mul_left _ hblk.1
  · intro h hh; subst hh
    unfold framesWith; simp only; split <;> omega

/-- the model the campaign runs uses the rule `padRuleBoth` -/
theorem gsm_frames_at_open_rule (c : Cfg) (dlen : Nat) (hdr : Option Nat) :
    framesAtOpen c dlen hdr = framesWith padRuleBoth c dlen hdr := rfl

/-- AIFF: an odd number N of 33-byte frames makes an odd SSND payload; the pad byte raises the data length to
    33 N + 1 and the "weird AIFF specific case" of gsm610_init drops it again: the count is exact (either rule) -/
theorem gsm_aiff_pad_dropped (both : Bool) (n : Nat) : framesWith both ⟨false⟩ (33 * n + 1) none = 160 * n := by
  have h1 : (33 * n + 1) % 33 = 1 := by omega
  have h2 : (33 * n + 1) / 33 = n := by omega
  unfold framesWith blocksOfWith
  simp [Cfg.blocksize, Cfg.spb, h1, h2]

/-- the full statement for WAV under a given rule: N whole blocks written re-open with 320 N frames — for the data
    length wav.c hands over, `65 N + (65 N mod 2)` -/
def wav_gsm_frames_exact_full (both : Bool) : Prop := ∀ n : Nat, framesWith both ⟨true⟩ (65 * n + (65 * n) % 2) none = 320 * n

/-- KF-WAV-GSM-PAD, proved witness (old rule): one block written, the RIFF pad byte is counted and a second, phantom
    block is reported (640 frames) -/
theorem wav_gsm_pad_counts_extra_block : framesWith false ⟨true⟩ (65 * 1 + (65 * 1) % 2) none = 640 := by decide

theorem wav_gsm_frames_exact_full_fails : ¬ wav_gsm_frames_exact_full false := by
  intro h
  have := h 1
  rw [wav_gsm_pad_counts_extra_block] at this
  omega

/-- old rule: every odd number of blocks shows the defect, exactly one block too many -/
theorem wav_gsm_odd_blocks_one_extra (n : Nat) (h : n % 2 = 1) :
    framesWith false ⟨true⟩ (65 * n + (65 * n) % 2) none = 320 * (n + 1) := by
  have h0 : (65 * n) % 2 = 1 := by omega
  have h1 : (65 * n + 1) % 65 = 1 := by omega
  have h2 : (65 * n + 1) / 65 = n := by omega
  unfold framesWith blocksOfWith
  simp [Cfg.blocksize, Cfg.spb, h0, h1, h2]

/-- old rule, partial statement: excluded region = exactly the class of KF-WAV-GSM-PAD (an odd number of 65-byte blocks) -/
theorem wav_gsm_frames_exact_partial (n : Nat) (h : n % 2 = 0) :
    framesWith false ⟨true⟩ (65 * n + (65 * n) % 2) none = 320 * n := by
  have h0 : (65 * n) % 2 = 0 := by omega
  have h1 : (65 * n) % 65 = 0 := by omega
  have h2 : (65 * n) / 65 = n := by omega
  unfold framesWith blocksOfWith
  simp [Cfg.blocksize, Cfg.spb, h0, h1, h2]

/-- repaired rule (one stray byte forgiven for both block sizes): the full statement holds -/
theorem wav_gsm_frames_exact_new_rule : wav_gsm_frames_exact_full true := by
  intro n
  have h3 : (65 * n) / 65 = n := by omega
  have h4 : (65 * n + 1) / 65 = n := by omega
  unfold framesWith blocksOfWith
  rcases Nat.mod_two_eq_zero_or_one (65 * n) with h0 | h0
  · have h1 : (65 * n) % 65 = 0 := by omega
    simp [Cfg.blocksize, Cfg.spb, h0, h1, h3]
  · have h1 : (65 * n + 1) % 65 = 1 := by omega
    simp [Cfg.blocksize, Cfg.spb, h0, h1, h4]

example : (2 : Nat) % 2 = 0 ∧ (3 : Nat) % 2 = 1 ∧ framesWith false ⟨false⟩ (33 * 3 + 1) none = 480 ∧
    framesWith false ⟨true⟩ 130 none = 640 ∧ framesWith false ⟨false⟩ 40 (some 7) = 7 ∧ framesWith true ⟨true⟩ 66 none = 320 := by decide

end Sf.C04Gsm
