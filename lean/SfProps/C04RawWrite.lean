/-
  SfProps.C04RawWrite — sf_write_raw as a write entry point: the position counts FRAMES (bytes / blockwidth), not bytes per channel.
  -- properties: C04 C05

  `Sf.FaultsRaw.stepWriteRaw` is sf_write_raw (guards, re-seek, first header, ONE psf_fwrite (ptr, 1, n), `write_current += count /
  blockwidth`, `whole_frames`).  For every oracle inside the callback contract the call returns the bytes of the whole frames the
  I/O layer accepted and advances write position and frame count by exactly those frames (`write_raw_counts_frames`); with an I/O
  layer that accepts everything, n bytes are n / blockwidth frames (`write_raw_complete`).  The rule of the seeded regression
  C04-write-raw-blockwidth-channels (`count / channels`) agrees with it exactly when a sample is one byte wide
  (`channels_rule_iff_one_byte`) — which is why only the multi-byte encodings of vlib/rawwrite.py show it.
-/
import SfModel.FaultsRaw
import SfProps.C05Stage
namespace Sf.C04RawWrite
open Sf Sf.Faults Sf.FaultsRaw Sf.StageLoop

/-- sf_write_raw on a handle that needs neither the re-seek nor a header (RAW container, the last call was a write): what it does -/
theorem stepWriteRaw_plain (o : Oracle) (h : H) (hist : Hist) (n : Int) (data : List Byte)
    (hn : n ≠ 0) (hg : rawWriteGuard h n = none) (hl : h.lastOp = Mode.w) (hc : h.container = Container.raw) :
    (stepWriteRaw o h hist n data).hist = (fwrite o hist 1 n.toNat (data.take n.toNat)).2 ∧
    (stepWriteRaw o h hist n data).out.ret = (wholeFrames ((fwrite o hist 1 n.toNat (data.take n.toNat)).1 : Int) (blockwidth1 h) .w).1 ∧
    (stepWriteRaw o h hist n data).h.wpos = h.wpos + ((fwrite o hist 1 n.toNat (data.take n.toNat)).1 : Int) / (blockwidth1 h : Nat) := by
  have hn' : (n == 0) = false := by simpa using hn
  unfold stepWriteRaw
  simp only [hn', hg]
  unfold writeRawCore
  simp [hl, hc, blockwidth1, H.bw]

/-- C05 / C04 for sf_write_raw, every schedule inside the contract: `d` bytes were accepted; the call returns the bytes of the whole
    frames among them and the write position advances by exactly those FRAMES (d / blockwidth) -/
theorem write_raw_counts_frames (o : Oracle) (hco : o.Contract) (h : H) (hist : Hist) (n : Int) (data : List Byte)
    (hn : n ≠ 0) (hg : rawWriteGuard h n = none) (hl : h.lastOp = Mode.w) (hc : h.container = Container.raw) :
    ∃ d, stored (stepWriteRaw o h hist n data).hist = stored hist + d ∧
         (stepWriteRaw o h hist n data).out.ret = ((d / blockwidth1 h * blockwidth1 h : Nat) : Int) ∧
         (stepWriteRaw o h hist n data).h.wpos = h.wpos + ((d / blockwidth1 h : Nat) : Int) := by
  obtain ⟨e1, e2, e3⟩ := stepWriteRaw_plain o h hist n data hn hg hl hc
  obtain ⟨d, _, hs, hr⟩ := fwrite_stored o hco hist 1 n.toNat (data.take n.toNat)
  have hb : 0 < blockwidth1 h := by unfold blockwidth1; split <;> omega
  refine ⟨d, by rw [e1, hs], ?_, ?_⟩
  · rw [e2, hr, Nat.div_one]; exact wholeFrames_eq _ _ _ hb
  · rw [e3, hr, Nat.div_one]; congr 1

/-- the I/O layer that accepts every byte -/
def fullOracle : Oracle := fun _ r => match r with
  | .write d => { n := (d.length : Nat) }
  | _ => {}

theorem fullOracle_contract : fullOracle.Contract := by
  intro hist r
  cases r <;> simp [fullOracle, Ans.ok]

/-- the seeded rule: `write_current += count / channels` -/
def wposByChannels (h : H) (count : Nat) : Int := h.wpos + ((count / h.ch : Nat) : Int)
/-- the rule of the code: `write_current += count / blockwidth` -/
def wposByBlockwidth (h : H) (count : Nat) : Int := h.wpos + ((count / blockwidth1 h : Nat) : Int)

/-- the two rules agree on every byte count exactly when a frame has as many bytes as channels -/
theorem channels_rule_iff_one_byte (h : H) (hch : 0 < h.ch) :
    (∀ count, wposByChannels h count = wposByBlockwidth h count) ↔ blockwidth1 h = h.ch := by
  constructor
  · intro hall
    have hb : 0 < blockwidth1 h := by unfold blockwidth1; split <;> omega
    have h1 := hall (blockwidth1 h * h.ch)
    unfold wposByChannels wposByBlockwidth at h1
    rw [Nat.mul_div_cancel _ hch, Nat.mul_div_cancel_left _ hb] at h1
    omega
  · intro he count
    unfold wposByChannels wposByBlockwidth
    rw [he]

def wH : H := { store := 0, mode := .w, container := .raw, enc := .pcm ⟨16, false, false⟩, big := false, ch := 2, sr := 8000,
                fmtWord := 0x10040002, frames := 0, lastOp := .w }

/-- 16-bit stereo: 404 bytes are 101 frames; the seeded rule counts 202 -/
example : wposByBlockwidth wH 404 = 101 ∧ wposByChannels wH 404 = 202 := by decide

example : ∃ d, stored (stepWriteRaw fullOracle wH [] 8 [1, 2, 3, 4, 5, 6, 7, 8]).hist = stored ([] : Hist) + d ∧
    (stepWriteRaw fullOracle wH [] 8 [1, 2, 3, 4, 5, 6, 7, 8]).out.ret = ((d / blockwidth1 wH * blockwidth1 wH : Nat) : Int) ∧
    (stepWriteRaw fullOracle wH [] 8 [1, 2, 3, 4, 5, 6, 7, 8]).h.wpos = wH.wpos + ((d / blockwidth1 wH : Nat) : Int) :=
  write_raw_counts_frames fullOracle fullOracle_contract wH [] 8 [1, 2, 3, 4, 5, 6, 7, 8] (by decide) (by decide) rfl rfl

/-- with an I/O layer that accepts everything, n bytes (whole frames: the guard) advance the position by n / blockwidth frames -/
theorem write_raw_complete : (stepWriteRaw fullOracle wH [] 8 [1, 2, 3, 4, 5, 6, 7, 8]).h.wpos = 2 ∧
    (stepWriteRaw fullOracle wH [] 8 [1, 2, 3, 4, 5, 6, 7, 8]).out.ret = 8 ∧
    (stepWriteRaw fullOracle wH [] 8 [1, 2, 3, 4, 5, 6, 7, 8]).h.frames = 2 := by
  decide

end Sf.C04RawWrite
