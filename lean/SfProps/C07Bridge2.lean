/-
  C01 / C04 / C07 — THE WRITE-SIDE BRIDGE for the REMAINING BLOCK CODECS (round 8): IMA ADPCM (WAV / W64 and AIFF `ima4`
  layouts) and MS ADPCM on the bit-exact encoder model (`adpcm_*`, SfProps/C07Adpcm.lean), OKI / VOX ADPCM (C05Vox / C07Block),
  and the LOSSLESS ones — 16- and 8-bit DPCM (XI), DWVW, … — whose `roundtrip` fact also covers the C01 clause of
  `Sf.AbsWrite.judge` (`BlockFacts.c01`, right disjunct).  Each `<x>_session_accepted` says: the record the all-format write
  campaign would write down of ANY job (any caller type, any split into item / frame calls) on that codec's model passes every
  clause of the predicate `sfmodel abs-write` evaluates on the implementation's records.

  -- properties: C01 C04 C07
-/
import SfProps.C07Bridge
import SfProps.C07Adpcm
import SfProps.C05Vox
import SfProps.C01Dwvw
import SfProps.C01AbsW
namespace Sf.C07Bridge2
open Sf Sf.AbsWrite Sf.AbsWriteBridge Sf.C07Bridge

/-- frames of whole-frame calls from the sample count -/
theorem framesOf_eq (ch : Nat) (hch : 0 < ch) (cs : List LCall) (h : ∀ c ∈ cs, c.good ch) :
    framesOf ch cs = (samples cs).length / ch := by
  rw [samples_length ch cs h, Nat.mul_div_cancel _ hch]

/-! ## IMA ADPCM (WAV / W64: `imaWav`; AIFF: `imaAiff`) and MS ADPCM -/

section Adpcm
open Sf.Adpcm Sf.AdpcmEnc Sf.C07Adpcm

/-- the (container major, codec) pairs of a layout -/
def kindWord (k : Kind) (major codec : Nat) : Prop :=
  match k with
  | .imaWav => codec = 0x12 ∧ major ≠ 0x02
  | .imaAiff => codec = 0x12 ∧ major = 0x02
  | .ms => codec = 0x13

/-- THE GEOMETRY TABLE OF THE PREDICATE AGREES WITH THE OPEN FUNCTIONS OF THE MODEL: `Geometry.blockFrames` (Int arithmetic, as
    vlib/geometry.py) is `samplesperblock` of `geoOf` for every rate, 1 or 2 channels, all three layouts -/
theorem adpcm_block_agrees (k : Kind) (major codec sr ch : Nat) (hk : kindWord k major codec) (hch : ch = 1 ∨ ch = 2) :
    Geometry.blockFrames major codec ch sr = (geoOf k sr ch).spb := by
  unfold Geometry.blockFrames geoOf
  cases k with
  | imaWav =>
    obtain ⟨hc, hm⟩ := hk
    have hm' : (major == 0x02) = false := by simpa using hm
    subst hc
    simp only [Geometry.IMA, beq_self_eq_true, if_true, hm', Bool.false_eq_true, if_false]
    rcases Sf.AdpcmEnc.Proofs.srate2blocksize_cases (sr * ch) with h | h | h | h <;> rcases hch with rfl | rfl <;> rw [h] <;> decide
  | imaAiff =>
    obtain ⟨hc, hm⟩ := hk
    subst hc; subst hm
    simp only [Geometry.IMA, beq_self_eq_true, if_true]
    rcases hch with rfl | rfl <;> decide
  | ms =>
    have hc : codec = 0x13 := hk
    subst hc
    simp only [Geometry.IMA, Geometry.MS, beq_self_eq_true, if_true, show ((0x13 : Nat) == 0x12) = false from rfl, Bool.false_eq_true, if_false]
    rcases Sf.AdpcmEnc.Proofs.srate2blocksize_cases (sr * ch) with h | h | h | h <;> rcases hch with rfl | rfl <;> rw [h] <;> decide

def adpcmJob (k : Kind) (cv : Conv) (g : AbsWrite.Geom) (ty : Ty) (one split : List LCall) (hdr tail : Nat → List Byte)
    (back : List Byte → Nat → List Int) : BlockJob :=
  { g := g, ty := ty, one := one, split := split,
    data := fun cs => closedBytes (geoOf k g.sr g.ch) cv (typed ty cs), hdr := hdr, tail := tail,
    framesAt := framesAtOpen (geoOf k g.sr g.ch), back := back }

theorem whole_typed (G : Geo) (ty : Ty) (cs : List LCall) (h : ∀ c ∈ cs, c.good G.ch) : Whole G (typed ty cs) := by
  intro c hc
  obtain ⟨d, hd, rfl⟩ := List.mem_map.1 hc
  exact (h d hd).1

/-- IMA / MS ADPCM, every layout, 1 or 2 channels, EVERY sample rate (the block size follows `wavlike_srate2blocksize`, wrap of
    the C int product included), any caller type, any conversion settings: every job is accepted.  The reader is any function
    that fills the requested region (SfModel/AdpcmReader.lean / C06Block describe it); the pair is lossy. -/
theorem adpcm_session_accepted (k : Kind) (cv : Conv) (g : AbsWrite.Geom) (ty : Ty) (one split : List LCall)
    (hdr tail : Nat → List Byte) (back : List Byte → Nat → List Int) (hback : ∀ d n, (back d n).length = n)
    (hch : g.ch = 1 ∨ g.ch = 2) (hk : kindWord k g.major g.codec)
    (hrate : rateOk g.major g.sr (g.sr : Int) = true)
    (h1 : ∀ c ∈ one, c.good g.ch) (h2 : ∀ c ∈ split, c.good g.ch) (hs : samples split = samples one) :
    accepted (adpcmJob k cv g ty one split hdr tail back).pred.record = true := by
  apply block_session_accepted
  have hG : Sf.AdpcmEnc.Proofs.WGeo (geoOf k g.sr g.ch) := adpcm_geometry k g.sr g.ch hch
  have hgch : (geoOf k g.sr g.ch).ch = g.ch := by cases k <;> rfl
  obtain ⟨hspb, hchp, _, _⟩ := Sf.AdpcmEnc.Proofs.wgeo_pos _ hG
  rw [hgch] at hchp
  have hB : g.block = (geoOf k g.sr g.ch).spb := adpcm_block_agrees k g.major g.codec g.sr g.ch hk hch
  have hsh : ∀ cs, shorts cv (typed ty cs) = (samples cs).map (toCodec cv ty) := fun cs => flatMap_typed ty (toCodec cv) cs
  have hw1 : Whole (geoOf k g.sr g.ch) (typed ty one) := whole_typed _ ty one (by rw [hgch]; exact h1)
  have hw2 : Whole (geoOf k g.sr g.ch) (typed ty split) := whole_typed _ ty split (by rw [hgch]; exact h2)
  obtain ⟨f1, f2, _⟩ := adpcm_frames_at_reopen _ hG cv (typed ty one) hw1
  have hn : nframes (geoOf k g.sr g.ch) cv (typed ty one) = framesOf g.ch one := by
    unfold nframes; rw [hsh, List.length_map, hgch, framesOf_eq g.ch hchp one h1]
  rw [hn] at f1 f2
  refine { chpos := hchp, block := by show 1 ≤ g.block; rw [hB]; exact hspb,
           calls1 := h1, calls2 := h2, same := hs,
           partition := fun h => adpcm_write_partition _ hG cv (typed ty split) (typed ty one) hw2 hw1 (by
             rw [hsh, hsh]; exact congrArg _ h),
           framesLo := f1,
           framesHi := by show _ < framesOf g.ch one + g.block; rw [hB]; exact f2,
           backLen := hback, rate := hrate,
           c01 := Or.inl <| by
             show losslessLow g.codec ty = none
             have : g.codec = 0x12 ∨ g.codec = 0x13 := by
               cases k
               · exact Or.inl hk.1
               · exact Or.inl hk.1
               · exact Or.inr hk
             rcases this with h | h <;> rw [h] <;> cases ty <;> rfl }

end Adpcm

/-! ## OKI / VOX ADPCM (RAW: two samples per byte, B = 2) -/

section Vox
open Sf.Block Sf.Block.Proofs Sf.VoxCarry Sf.C05Vox Sf.C07Block

/-- the calls of a job as the lists of codec shorts `voxFile` takes (`f`: the caller-to-short conversion of `vox_write_*`) -/
def voxCalls (f : Int → Int) (cs : List LCall) : List (List Int) := cs.map fun c => c.xs.map f

theorem voxCalls_flatten (f : Int → Int) (cs : List LCall) : (voxCalls f cs).flatten = (samples cs).map f := by
  induction cs with
  | nil => rfl
  | cons c cs ih =>
    simp only [voxCalls, List.map_cons, List.flatten_cons, samples, List.flatMap_cons, List.map_append] at ih ⊢
    rw [ih]

def voxJob (f : Int → Int) (g : AbsWrite.Geom) (ty : Ty) (one split : List LCall) (hdr tail : Nat → List Byte)
    (back : List Byte → Nat → List Int) : BlockJob :=
  { g := g, ty := ty, one := one, split := split,
    data := fun cs => voxFile {} none (voxCalls f cs), hdr := hdr, tail := tail,
    framesAt := fun n => 2 * n, back := back }

/-- OKI / VOX ADPCM after the repair of KF-VOX-ODD: every job — calls of ANY parity — is accepted (N ≤ F = 2 ⌈N / 2⌉ < N + 2) -/
theorem vox_session_accepted (f : Int → Int) (g : AbsWrite.Geom) (ty : Ty) (one split : List LCall)
    (hdr tail : Nat → List Byte) (back : List Byte → Nat → List Int) (hback : ∀ d n, (back d n).length = n)
    (hch : g.ch = 1) (hcodec : g.codec = 0x21) (hrate : rateOk g.major g.sr (g.sr : Int) = true)
    (h1 : ∀ c ∈ one, c.good 1) (h2 : ∀ c ∈ split, c.good 1) (hs : samples split = samples one) :
    accepted (voxJob f g ty one split hdr tail back).pred.record = true := by
  apply block_session_accepted
  have hB : g.block = 2 := by
    unfold Geom.block Geometry.blockFrames
    rw [hcodec]; simp [Geometry.IMA, Geometry.MS, Geometry.GSM, Geometry.VOX]
  obtain ⟨f0, f1, f2⟩ := vox_frames_bound (voxCalls f one)
  rw [voxCalls_flatten, List.length_map] at f1 f2
  have hfr : (VoxR.open (voxFile {} none (voxCalls f one))).frames = 2 * (voxFile {} none (voxCalls f one)).length := rfl
  rw [hfr] at f1 f2
  refine { chpos := by show 0 < g.ch; rw [hch]; decide, block := by show 1 ≤ g.block; rw [hB]; decide,
           calls1 := by show ∀ c ∈ one, c.good g.ch; rw [hch]; exact h1,
           calls2 := by show ∀ c ∈ split, c.good g.ch; rw [hch]; exact h2,
           same := hs,
           partition := fun h => vox_file_bytes_depend_on_samples_only _ _ (by rw [voxCalls_flatten, voxCalls_flatten, h]),
           framesLo := by show framesOf g.ch one ≤ _; rw [hch, framesOf_one]; exact f1,
           framesHi := by show _ < framesOf g.ch one + g.block; rw [hch, framesOf_one, hB]; exact f2,
           backLen := hback, rate := hrate,
           c01 := Or.inl <| by
             show losslessLow g.codec ty = none
             rw [hcodec]; cases ty <;> rfl }

end Vox

/-! ## DWVW (AIFF; 12 / 16 / 24 bit; one channel) — a LOSSLESS block codec: the `roundtrip` disjunct of `BlockFacts.c01` -/

section Dwvw
open Sf.Dwvw Sf.C01Dwvw

/-- the closed data region of a run: `dwvw_write_T` call by call, then `dwvw_close` (the twelve flush samples) -/
def dwvwData (c : Dwvw.Cfg) (cv : Conv) (ty : Ty) (cs : List LCall) : List Byte :=
  Dwvw.closeBytes c (cs.foldl (fun e k => Dwvw.writeCall c cv ty e k.xs) ({} : Dwvw.ESt))

/-- C07 for DWVW: the data region is the one-call encoding of the concatenated converted samples -/
theorem dwvwData_eq (c : Dwvw.Cfg) (cv : Conv) (ty : Ty) (cs : List LCall) :
    dwvwData c cv ty cs = Dwvw.encodeAll c ((samples cs).map (Dwvw.toCodec cv ty)) := by
  have h : cs.foldl (fun e k => Dwvw.writeCall c cv ty e k.xs) ({} : Dwvw.ESt) = (voxCalls (Dwvw.toCodec cv ty) cs).foldl (Dwvw.encodeData c) {} := by
    unfold voxCalls; rw [List.foldl_map]; rfl
  unfold dwvwData
  rw [h, dwvw_partition_file, voxCalls_flatten]

attribute [local irreducible] dwvwData

/-- the job: the re-open count is what `dwvw_init` computes on the reference file (decode scan capped by the COMM chunk's count of
    the frames written); the read-back is ONE decode call of that many frames (C06 `dwvw_read_calls`: any partition delivers the
    same), the rest of the requested region keeps a fill value; `extra`: what follows the data region in the SSND chunk (pad byte) -/
def dwvwJob (c : Dwvw.Cfg) (cv : Conv) (g : AbsWrite.Geom) (ty : Ty) (one split : List LCall) (hdr tail : Nat → List Byte)
    (extra : List Byte) : BlockJob :=
  { g := g, ty := ty, one := one, split := split, data := dwvwData c cv ty, hdr := hdr, tail := tail,
    framesAt := fun _ => Dwvw.framesAtOpen c (dwvwData c cv ty one ++ extra) (some (samples one).length),
    back := fun d n =>
      (((Dwvw.decodeAll c (d ++ extra) (Dwvw.framesAtOpen c (d ++ extra) (some (samples one).length))).map (Dwvw.toCaller cv ty)) ++
        List.replicate n 0).take n }

/-- the codec code of a bit width -/
def dwvwCode (c : Dwvw.Cfg) (codec : Nat) : Prop := (c.w = 12 ∧ codec = 0x40) ∨ (c.w = 16 ∧ codec = 0x41) ∨ (c.w = 24 ∧ codec = 0x42)

/-- per sample: under the side condition of C01 (`sampleOk`: the low 16 − w / 32 − w bits zero) a short / int comes back bit-identical -/
theorem dwvw_sample_exact (c : Dwvw.Cfg) (codec : Nat) (hc : dwvwCode c codec) (cv : Conv) (ty : Ty) (hty : ty = .s16 ∨ ty = .s32) (v : Int)
    (hr : ty.inRange v) (hok : sampleOk codec ty v) :
    Dwvw.toCaller cv ty (asr (Dwvw.toCodec cv ty v) c.shift * 2 ^ c.shift) = v := by
  have hw : c.ok := by rcases hc with h | h | h <;> simp [Dwvw.Cfg.ok, h.1]
  have hiw : intWidth codec = some c.w := by rcases hc with ⟨h1, h2⟩ | ⟨h1, h2⟩ | ⟨h1, h2⟩ <;> rw [h1, h2] <;> rfl
  obtain ⟨lz, hlz, hcell⟩ := hok
  rcases hty with rfl | rfl
  · simp only [losslessLow, hiw, Option.map_some, Option.some.injEq] at hlz
    subst hlz
    have h1 := hcell (wrapU 16 v) (by simp [cellOf])
    have h2 := (C01AbsW.side_condition_matches_model ⟨c.w, false, false⟩ codec v).1.1 h1
    apply dwvw_short_exact c hw cv v hr
    intro h12
    rcases h2 with h2 | h2
    · simp only at h2; omega
    · simp only [h12] at h2; exact h2
  · simp only [losslessLow, hiw, Option.map_some, Option.some.injEq] at hlz
    subst hlz
    have h1 := hcell (wrapU 32 v) (by simp [cellOf])
    have h2 := (C01AbsW.side_condition_matches_model ⟨c.w, false, false⟩ codec v).2.1 h1
    have hs : (32 - c.w) = c.shift := rfl
    have hmod : v % 2 ^ c.shift = 0 := by
      rcases h2 with h2 | h2
      · simp only at h2; rcases hw with h | h | h <;> omega
      · simpa [hs] using h2
    show asr v c.shift * 2 ^ c.shift = v
    have hv : v = v / 2 ^ c.shift * 2 ^ c.shift := (Int.ediv_mul_cancel (Int.dvd_of_emod_eq_zero hmod)).symm
    have := Sf.Dwvw.Proofs.quant_exact c.shift (v / 2 ^ c.shift)
    rw [← hv] at this
    exact this

/-- DWVW in AIFF: every job is accepted — C07 (`dwvw_partition_file`), C04 (F = N exactly: `dwvw_aiff_frames_exact`), and the C01
    clause through the ROUNDTRIP fact for short / int callers (`dwvw_roundtrip`: all wrap-around cases of the delta arithmetic).
    `hx`: the converted samples are 32-bit values (always true for short / int callers: `dwvw_range_int`). -/
theorem dwvw_session_accepted (c : Dwvw.Cfg) (cv : Conv) (g : AbsWrite.Geom) (ty : Ty) (one split : List LCall)
    (hdr tail : Nat → List Byte) (extra : List Byte)
    (hch : g.ch = 1) (hcode : dwvwCode c g.codec) (hrate : rateOk g.major g.sr (g.sr : Int) = true)
    (h1 : ∀ c ∈ one, c.good 1) (h2 : ∀ c ∈ split, c.good 1) (hs : samples split = samples one)
    (hr : ∀ v ∈ samples one, ty.inRange v)
    (hx : ∀ v ∈ samples one, -2 ^ 31 ≤ Dwvw.toCodec cv ty v ∧ Dwvw.toCodec cv ty v < 2 ^ 31) :
    accepted (dwvwJob c cv g ty one split hdr tail extra).pred.record = true := by
  apply block_session_accepted
  have hw : c.ok := by rcases hcode with h | h | h <;> simp [Dwvw.Cfg.ok, h.1]
  have hB : g.block = 1 := by
    unfold Geom.block Geometry.blockFrames
    rcases hcode with ⟨_, h⟩ | ⟨_, h⟩ | ⟨_, h⟩ <;> simp [h, Geometry.IMA, Geometry.MS, Geometry.GSM, Geometry.VOX, Geometry.NMS, Geometry.G72X]
  have hxs : ∀ x ∈ (samples one).map (Dwvw.toCodec cv ty), -2 ^ 31 ≤ x ∧ x < 2 ^ 31 := by
    intro x hxm; obtain ⟨v, hv, rfl⟩ := List.mem_map.1 hxm; exact hx v hv
  have hF : Dwvw.framesAtOpen c (dwvwData c cv ty one ++ extra) (some (samples one).length) = (samples one).length := by
    have := dwvw_aiff_frames_exact c hw _ hxs extra
    rw [List.length_map] at this
    rw [dwvwData_eq]; exact this
  refine { chpos := by show 0 < g.ch; rw [hch]; decide, block := by show 1 ≤ g.block; rw [hB],
           calls1 := by show ∀ c ∈ one, c.good g.ch; rw [hch]; exact h1,
           calls2 := by show ∀ c ∈ split, c.good g.ch; rw [hch]; exact h2,
           same := hs,
           partition := fun _ => by show dwvwData c cv ty split = dwvwData c cv ty one; rw [dwvwData_eq, dwvwData_eq, hs],
           framesLo := by
             show framesOf g.ch one ≤ Dwvw.framesAtOpen c (dwvwData c cv ty one ++ extra) (some (samples one).length)
             rw [hch, framesOf_one, hF],
           framesHi := by
             show Dwvw.framesAtOpen c (dwvwData c cv ty one ++ extra) (some (samples one).length) < framesOf g.ch one + g.block
             rw [hch, framesOf_one, hF, hB]; omega,
           backLen := fun d n => by
             show (List.take n _).length = n
             rw [List.length_take, List.length_append, List.length_replicate]; omega,
           rate := hrate, c01 := ?_ }
  by_cases hty : ty = .s16 ∨ ty = .s32
  · right
    intro hok
    show (List.take _ (List.map (Dwvw.toCaller cv ty) (Dwvw.decodeAll c (dwvwData c cv ty one ++ extra)
      (Dwvw.framesAtOpen c (dwvwData c cv ty one ++ extra) (some (samples one).length))) ++ List.replicate _ 0)).take (samples one).length = samples one
    rw [hF]
    have hdec := dwvw_roundtrip c hw _ hxs extra
    rw [List.length_map, ← dwvwData_eq] at hdec
    rw [hdec, List.map_map]
    have hid : List.map (Dwvw.toCaller cv ty ∘ fun p => asr p c.shift * 2 ^ c.shift) (List.map (Dwvw.toCodec cv ty) (samples one)) = samples one := by
      rw [List.map_map]
      conv => rhs; rw [← List.map_id (samples one)]
      apply List.map_congr_left
      intro v hv
      exact dwvw_sample_exact c g.codec hcode cv ty hty v (hr v hv) (hok v hv)
    rw [hid, List.take_take, List.take_append_of_le_length (by omega)]
    rw [Nat.min_eq_left (by
      have := samples_length g.ch one (by rw [hch]; exact h1)
      rw [hch] at this; rw [this]
      show framesOf 1 one * 1 ≤ (framesOf g.ch one + g.block + g.pad + 8) * g.ch
      rw [hch]; omega)]
    exact List.take_length
  · left
    show losslessLow g.codec ty = none
    rcases hcode with ⟨_, h⟩ | ⟨_, h⟩ | ⟨_, h⟩ <;> rw [h] <;> cases ty <;> simp_all [losslessLow]

/-- `hx` for the integer caller types: a short is shifted into the top half and wraps into 32 bits by construction, an int is itself -/
theorem dwvw_range_int (cv : Conv) (ty : Ty) (hty : ty = .s16 ∨ ty = .s32) (v : Int) (hr : ty.inRange v) :
    -2 ^ 31 ≤ Dwvw.toCodec cv ty v ∧ Dwvw.toCodec cv ty v < 2 ^ 31 := by
  rcases hty with rfl | rfl
  · obtain ⟨a, b⟩ := hr
    simp only [Dwvw.toCodec, wrapS]
    norm_num
    omega
  · obtain ⟨a, b⟩ := hr
    simp only [Dwvw.toCodec]
    omega

end Dwvw

/-! ## non-vacuity -/

def exOne : List LCall := [⟨true, [1000, -2000, 30000, 4, 5, -6], 3⟩]
def exSplit : List LCall := [⟨true, [1000, -2000], 1⟩, ⟨false, [30000, 4, 5, -6], 4⟩]
def exGms : AbsWrite.Geom := { word := 0x00010013, ch := 2, sr := 8000 }
def exGima : AbsWrite.Geom := { word := 0x00020012, ch := 2, sr := 2 ^ 30 }

instance (k : AdpcmEnc.Kind) (major codec : Nat) : Decidable (kindWord k major codec) := by unfold kindWord; cases k <;> infer_instance

/-- the hypotheses of `adpcm_session_accepted` hold for a stereo MS ADPCM WAV job (B = 500 at 8 kHz stereo … the table and `geoOf` agree)
    and for a stereo IMA AIFF job at 2^30 Hz (the C int product wraps; B = 64) -/
example : (exGms.ch = 1 ∨ exGms.ch = 2) ∧ kindWord .ms exGms.major exGms.codec ∧ rateOk exGms.major exGms.sr (exGms.sr : Int) = true ∧
    (∀ c ∈ exOne, c.good exGms.ch) ∧ (∀ c ∈ exSplit, c.good exGms.ch) ∧ samples exSplit = samples exOne ∧
    exGms.block = (AdpcmEnc.geoOf .ms exGms.sr exGms.ch).spb ∧ exGms.block = 500 ∧
    kindWord .imaAiff exGima.major exGima.codec ∧ exGima.block = 64 := by decide

def exOneV : List LCall := [⟨true, [256, 512, 768], 3⟩]
def exSplitV : List LCall := [⟨true, [256], 1⟩, ⟨false, [512, 768], 2⟩]
def exGv : AbsWrite.Geom := { word := 0x00040021, ch := 1, sr := 8000 }
def exJobV : BlockJob := voxJob id exGv .s16 exOneV exSplitV (fun _ => []) (fun _ => []) (fun _ n => List.replicate n 0)

/-- VOX: an odd job (3 samples as 1 + 2): hypotheses, and the record evaluated — 2 bytes, F = 4 = N + 1, accepted -/
example : exGv.ch = 1 ∧ exGv.codec = 0x21 ∧ rateOk exGv.major exGv.sr (exGv.sr : Int) = true ∧
    (∀ c ∈ exOneV, c.good 1) ∧ (∀ c ∈ exSplitV, c.good 1) ∧ samples exSplitV = samples exOneV ∧
    exJobV.pred.record.info.frames = 4 ∧ exJobV.pred.record.one.bytes.size = 2 ∧ accepted exJobV.pred.record = true := by decide +kernel

def exGd : AbsWrite.Geom := { word := 0x00020040, ch := 1, sr := 44100 }
def exOneD : List LCall := [⟨true, [16, -32, 32752], 3⟩]
def exSplitD : List LCall := [⟨true, [16], 1⟩, ⟨false, [-32, 32752], 2⟩]
def exJobD : BlockJob := dwvwJob ⟨12⟩ {} exGd .s16 exOneD exSplitD (fun _ => []) (fun _ => []) []

instance (c : Dwvw.Cfg) (codec : Nat) : Decidable (dwvwCode c codec) := by unfold dwvwCode; infer_instance

/-- DWVW_12 in AIFF, shorts whose low four bits are zero (the side condition of C01 holds: the record is LOSSLESS and the round trip is
    judged): hypotheses, and the record evaluated — F = N = 3, the read-back begins with the samples written, accepted -/
example : exGd.ch = 1 ∧ dwvwCode ⟨12⟩ exGd.codec ∧ rateOk exGd.major exGd.sr (exGd.sr : Int) = true ∧
    (∀ c ∈ exOneD, c.good 1) ∧ (∀ c ∈ exSplitD, c.good 1) ∧ samples exSplitD = samples exOneD ∧
    (∀ v ∈ samples exOneD, Ty.s16.inRange v) ∧
    losslessFor exGd .s16 (written exGd.ch exJobD.pred.record.one.calls) = true ∧
    exJobD.pred.record.info.frames = 3 ∧ exJobD.pred.rbData.take 3 = [16, -32, 32752] ∧ accepted exJobD.pred.record = true := by decide +kernel

end Sf.C07Bridge2
