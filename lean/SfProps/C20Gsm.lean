/-
  C20 for GSM 06.10 — the bit-exact arithmetic of the Recommendation (GSM 06.10 section 5.1: add, sub, mult, mult_r,
  abs, L_mult, L_add, L_sub, norm, div) as SPEC definitions over unbounded `Int` with saturation (`Sf.Gsm.Rec`, SfProofs/GsmRec.lean),
  proved equal to the macro-shaped model (SfModel/Gsm.lean: GSM_ADD, GSM_SUB, GSM_MULT, GSM_MULT_R, GSM_ABS, gsm_mult,
  gsm_mult_r, GSM_L_ADD, gsm_norm, gsm_div — the code libsndfile compiles) on the ranges the codec uses:

    `gsm_add_conforms`, `gsm_sub_conforms`      ∀ a b (no range needed): GSM_ADD / GSM_SUB / gsm_add / gsm_sub = spec
    `gsm_abs_conforms`                          ∀ int16 a
    `gsm_mult_conforms`, `gsm_mult_r_conforms`  ∀ int16 a b: the FUNCTIONS gsm_mult / gsm_mult_r (special case included) = spec
    `gsm_mult_r_macro_conforms`                 ∀ int16 a b not both MIN_WORD: the MACRO GSM_MULT_R stored into an int16 = spec
    `gsm_mult_r_macro_differs`                  the one pair where the macro leaves the spec: (−32768, −32768) → −32768, spec 32767
    `gsm_decoder_mult_r_sites`                  every GSM_MULT_R site of the DECODER has a table constant or the constant 28180
                                                as one operand, all > MIN_WORD: the decoder never evaluates the macro at that pair
    `gsm_encoder_reflection_not_min`            the encoder's recursion operand r = ± gsm_div (…) is never MIN_WORD either
    `gsm_l_mult_conforms`, `gsm_l_add_conforms` L_mult (not both MIN_WORD) and L_add
    `gsm_norm_conforms`                         ∀ 0 < L < 2^31 and ∀ −2^31 ≤ L < 0: `gsm_norm` is the number of left shifts
                                                that normalises L (the table `bitoff` behind it is tied by `gsm_bitoff_extracted`)
    `gsm_div_conforms`                          ∀ 0 < num ≤ denum ≤ 32767: `gsm_div` = ⌊num · 2^15 / denum⌋ capped at 32767
-/
import SfProofs.GsmSpec
import SfProofs.GsmRec
namespace Sf.C20Gsm
open Sf Sf.Gsm Sf.Gsm.Proofs Sf.Gsm.Spec


theorem gsm_add_conforms (a b : Int) : Gsm.add a b = Rec.add a b ∧ gsmAdd a b = Rec.add a b := by
  unfold Gsm.add gsmAdd sat Rec.add Rec.sat16
  simp only
  constructor
  · split <;> split <;> (try split) <;> omega
  · split <;> split <;> (try split) <;> omega

theorem gsm_sub_conforms (a b : Int) : Gsm.sub a b = Rec.sub a b ∧ gsmSub a b = Rec.sub a b := by
  unfold Gsm.sub gsmSub sat Rec.sub Rec.sat16
  simp only
  constructor
  · split <;> split <;> (try split) <;> omega
  · split <;> split <;> (try split) <;> omega

theorem gsm_abs_conforms (a : Int) (h : W16 a) : gabs a = Rec.abs a := by
  unfold W16 at h
  unfold gabs Rec.abs
  split <;> split <;> (try split) <;> omega

/-- the functions `gsm_mult_r` (add.c, and its open-coded twin in the short-term synthesis filter) and `gsm_mult` -/
theorem gsm_mult_r_conforms (a b : Int) (ha : W16 a) (hb : W16 b) : gsmMultR a b = Rec.multR a b := by
  unfold gsmMultR Rec.multR
  by_cases h : a = -32768 ∧ b = -32768
  · rw [if_pos h, if_pos h]
  · rw [if_neg h, if_neg h, w16_wrapU, asr15]
    have hp := prod_bound a b ha hb h
    exact w16_id _ (by unfold W16; omega)

theorem gsm_mult_conforms (a b : Int) (ha : W16 a) (hb : W16 b) : gsmMult a b = Rec.mult a b := by
  unfold gsmMult Rec.mult
  by_cases h : a = -32768 ∧ b = -32768
  · rw [if_pos h, if_pos h]
  · rw [if_neg h, if_neg h, asr15]
    have hp := prod_bound a b ha hb h
    exact w16_id _ (by unfold W16; omega)

/-- the MACRO `GSM_MULT_R (a, b)` stored into an `int16_t` -/
theorem gsm_mult_r_macro_conforms (a b : Int) (ha : W16 a) (hb : W16 b) (h : ¬ (a = -32768 ∧ b = -32768)) :
    w16 (Gsm.multR a b) = Rec.multR a b ∧ Gsm.multR a b = Rec.multR a b := by
  unfold Gsm.multR Rec.multR
  rw [if_neg h, asr15]
  have hp := prod_bound a b ha hb h
  exact ⟨w16_id _ (by unfold W16; omega), rfl⟩

/-- the macro `GSM_MULT (a, b)` -/
theorem gsm_mult_macro_conforms (a b : Int) (ha : W16 a) (hb : W16 b) (h : ¬ (a = -32768 ∧ b = -32768)) :
    w16 (Gsm.mult a b) = Rec.mult a b := by
  unfold Gsm.mult Rec.mult
  rw [if_neg h, asr15]
  have hp := prod_bound a b ha hb h
  exact w16_id _ (by unfold W16; omega)

/-- **where macro and spec differ**: exactly the pair (MIN_WORD, MIN_WORD) -/
theorem gsm_mult_r_macro_differs : w16 (Gsm.multR (-32768) (-32768)) = -32768 ∧ Rec.multR (-32768) (-32768) = 32767 := by decide

/-- **the decoder never evaluates GSM_MULT_R at that pair**: its four macro sites are
    `GSM_MULT_R (gsm_FAC [mant], temp)` (APCM inverse quantisation), `GSM_MULT_R (gsm_QLB [bcr], drp [k − Nr])` (long-term
    synthesis), `GSM_MULT_R (INVA, temp)` (LAR decoding) and `GSM_MULT_R (msr, 28180)` (de-emphasis); the table operand is
    a table entry or 0 (index out of range), the constant is positive: never MIN_WORD, so each site equals the spec operator -/
theorem gsm_decoder_mult_r_sites (i x : Int) (hx : W16 x) :
    w16 (Gsm.multR (tab tabFAC i) x) = Rec.multR (tab tabFAC i) x ∧
    w16 (Gsm.multR (tab tabQLB i) x) = Rec.multR (tab tabQLB i) x ∧
    w16 (Gsm.multR (tab tabINVA i) x) = Rec.multR (tab tabINVA i) x ∧
    w16 (Gsm.multR x 28180) = Rec.multR x 28180 := by
  have key : ∀ (t : List Int), (∀ v ∈ t, 0 < v ∧ v ≤ 32767) → 0 ≤ tab t i ∧ tab t i ≤ 32767 := by
    intro t ht
    unfold tab
    rw [List.getD_eq_getElem?_getD]
    cases h : t[i.toNat]? with
    | none => simp
    | some v =>
      have := ht v (List.mem_of_getElem? h)
      simp only [Option.getD_some]; omega
  have hF := key tabFAC (by decide)
  have hQ := key tabQLB (by decide)
  have hI := key tabINVA (by decide)
  refine ⟨(gsm_mult_r_macro_conforms _ x (by unfold W16; omega) hx (by omega)).1,
    (gsm_mult_r_macro_conforms _ x (by unfold W16; omega) hx (by omega)).1,
    (gsm_mult_r_macro_conforms _ x (by unfold W16; omega) hx (by omega)).1,
    (gsm_mult_r_macro_conforms x 28180 hx (by unfold W16; omega) (by omega)).1⟩

theorem gsm_l_mult_conforms (a b : Int) (ha : W16 a) (hb : W16 b) (h : ¬ (a = -32768 ∧ b = -32768)) :
    w32 (a * b * 2) = Rec.lMult a b := by
  have hp := prod_bound a b ha hb h
  unfold Rec.lMult w32 wrapS
  have e : (2 : Int) ^ 32 = 4294967296 := by decide
  simp only [e]
  by_cases hx : 0 ≤ a * b * 2
  · have : (a * b * 2) % 4294967296 = a * b * 2 := Int.emod_eq_of_lt hx (by omega)
    rw [this]; split <;> omega
  · have : (a * b * 2) % 4294967296 = a * b * 2 + 4294967296 := by
      have := Int.emod_eq_of_lt (show 0 ≤ a * b * 2 + 4294967296 by omega) (show a * b * 2 + 4294967296 < 4294967296 by omega)
      rw [← this, Int.add_emod_right]
    rw [this]; split <;> omega

theorem gsm_l_add_conforms (a b : Int) : lAdd a b = Rec.lAdd a b := by
  unfold lAdd Gsm.sat32 Rec.lAdd Rec.sat32
  split <;> split <;> (try split) <;> omega

/-- **`gsm_norm`**, positive arguments: the result k is in [0, 30] and L · 2^k ∈ [2^30, 2^31) -/
theorem gsm_norm_conforms_pos (l : Int) (h1 : 0 < l) (h2 : l < 2 ^ 31) :
    0 ≤ gsmNorm l ∧ gsmNorm l ≤ 30 ∧ Rec.normalises l (gsmNorm l).toNat := by
  obtain ⟨n, rfl⟩ : ∃ n : Nat, l = (n : Int) := ⟨l.toNat, by omega⟩
  have hn1 : 0 < n := by omega
  have hn2 : n < 2 ^ 31 := by exact_mod_cast h2
  obtain ⟨b1, b2, b3⟩ := bitlen_spec n hn1 (Nat.lt_of_lt_of_le hn2 (by decide))
  have b4 := bitlen_le n hn1 hn2
  have hneg : ¬ ((n : Int) < 0) := by omega
  unfold gsmNorm Rec.normalises
  simp only [hneg, if_false, Int.toNat_natCast, h1, if_true]
  generalize bitlen n = b at b1 b2 b3 b4
  have e : ((31 : Int) - (b : Int)).toNat = 31 - b := by omega
  rw [e]
  refine ⟨by omega, by omega, ?_, ?_⟩
  · have : (2 : Int) ^ 30 = 2 ^ (b - 1) * 2 ^ (31 - b) := by rw [← pow_add]; congr 1; omega
    rw [this]
    exact Int.mul_le_mul_of_nonneg_right (by exact_mod_cast b2) (by positivity)
  · have : (2 : Int) ^ 31 = 2 ^ b * 2 ^ (31 - b) := by rw [← pow_add]; congr 1; omega
    rw [this]
    exact Int.mul_lt_mul_of_pos_right (by exact_mod_cast b3) (by positivity)

/-- **`gsm_norm`**, negative arguments: `a <= −2^30 → 0`, else the positive rule on `~a`; the result normalises L, with the
    code's convention that −1 gives 31 (L · 2^31 = −2^31) -/
theorem gsm_norm_conforms_neg (l : Int) (h1 : l < 0) (h2 : -(2 ^ 31) ≤ l) :
    0 ≤ gsmNorm l ∧ gsmNorm l ≤ 31 ∧ -(2 ^ 31) ≤ l * 2 ^ (gsmNorm l).toNat ∧ l * 2 ^ (gsmNorm l).toNat ≤ -(2 ^ 30) := by
  unfold gsmNorm
  simp only [h1, if_true]
  by_cases hb : l ≤ -1073741824
  · simp only [hb, if_true, Int.toNat_zero, pow_zero, mul_one]
    norm_num at h2 ⊢; omega
  · simp only [hb, if_false]
    by_cases hm : l = -1
    · subst hm; decide
    · obtain ⟨n, hn⟩ : ∃ n : Nat, -l - 1 = (n : Int) := ⟨(-l - 1).toNat, by omega⟩
      have hn1 : 0 < n := by omega
      have hn2 : n < 2 ^ 30 := by
        have : (n : Int) < 1073741824 := by omega
        exact_mod_cast this
      obtain ⟨b1, b2, b3⟩ := bitlen_spec n hn1 (Nat.lt_of_lt_of_le hn2 (by decide))
      have b4 : bitlen n ≤ 30 := by
        by_contra hc
        have : 2 ^ 30 ≤ 2 ^ (bitlen n - 1) := Nat.pow_le_pow_right (by decide) (by omega)
        omega
      rw [hn, Int.toNat_natCast]
      generalize bitlen n = b at b1 b2 b3 b4
      have e : ((31 : Int) - (b : Int)).toNat = 31 - b := by omega
      rw [e]
      have hl : l = -((n : Int) + 1) := by omega
      have p1 : (2 : Int) ^ 30 = 2 ^ (b - 1) * 2 ^ (31 - b) := by rw [← pow_add]; congr 1; omega
      have p2 : (2 : Int) ^ 31 = 2 ^ b * 2 ^ (31 - b) := by rw [← pow_add]; congr 1; omega
      have hp : (0 : Int) < 2 ^ (31 - b) := by positivity
      have c1 : ((2 : Int) ^ (b - 1) + 1) * 2 ^ (31 - b) ≤ ((n : Int) + 1) * 2 ^ (31 - b) :=
        Int.mul_le_mul_of_nonneg_right (by have : ((2 ^ (b - 1) : Nat) : Int) ≤ n := by exact_mod_cast b2
                                           push_cast at this; omega) (by positivity)
      have c2 : ((n : Int) + 1) * 2 ^ (31 - b) ≤ 2 ^ b * 2 ^ (31 - b) :=
        Int.mul_le_mul_of_nonneg_right (by have : ((n : Nat) : Int) < ((2 ^ b : Nat) : Int) := by exact_mod_cast b3
                                           push_cast at this; omega) (by positivity)
      refine ⟨by omega, by omega, ?_, ?_⟩
      · rw [hl, p2]; linarith
      · rw [hl, p1]; nlinarith

/-- **`gsm_div`**: the restoring division is the 15-bit fractional quotient of the Recommendation -/
theorem gsm_div_conforms (num denum : Int) (h1 : 0 < num) (h2 : num ≤ denum) (h3 : denum ≤ 32767) :
    gsmDiv num denum = Rec.div num denum ∧ 0 ≤ gsmDiv num denum ∧ gsmDiv num denum ≤ 32767 := by
  have hne : num ≠ 0 := by omega
  have hs := divLoop_spec 15 num denum 0 (by omega) h2 (by omega) h3 (by omega) (by norm_num)
  have e15 : (2 : Int) ^ 15 = 32768 := by norm_num
  unfold gsmDiv Rec.div
  rw [if_neg hne, hs, e15]
  have hq0 : 0 ≤ num * 32768 / denum := Int.ediv_nonneg (by omega) (by omega)
  by_cases he : num = denum
  · subst he
    have : num * 32768 / num = 32768 := Int.mul_ediv_cancel_left _ (by omega)
    rw [if_pos rfl, this]
    norm_num
  · rw [if_neg he]
    have hlt' : num < denum := by omega
    have hlt : num * 32768 / denum < 32768 := Int.ediv_lt_of_lt_mul (by omega) (by linarith)
    rw [min_eq_right (by omega)]
    omega

/-- the reflection coefficient the encoder's Schur recursion multiplies with is ± gsm_div (…) ∈ [−32767, 32767]: never
    MIN_WORD, so its `GSM_MULT_R (P [m], r)` sites are spec operators too -/
theorem gsm_encoder_reflection_not_min (num denum : Int) (h1 : 0 < num) (h2 : num ≤ denum) (h3 : denum ≤ 32767) :
    -32767 ≤ -(gsmDiv num denum) ∧ gsmDiv num denum ≤ 32767 := by
  obtain ⟨_, a, b⟩ := gsm_div_conforms num denum h1 h2 h3
  omega

/-- non-vacuity / spot values of the Recommendation's own examples -/
example : gsmDiv 1 2 = 16384 ∧ gsmDiv 5 5 = 32767 ∧ gsmNorm 1 = 30 ∧ gsmNorm 1073741824 = 0 ∧ gsmNorm (-1) = 31 ∧
    gsmNorm (-1073741825) = 0 ∧ Rec.multR 32767 32767 = 32766 ∧ gsmMultR 32767 32767 = 32766 ∧ gabs (-32768) = 32767 := by decide +kernel

end Sf.C20Gsm
