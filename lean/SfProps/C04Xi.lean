-- properties: C04 C07 C11
/-
  C04 / C07 / C11 — the FastTracker 2 Extended Instrument container (stand-alone L1 model SfModel/Xi.lean; helpers
  SfProofs/XiImage.lean).  Property theorems only.  The DPCM codec is Sf.Dpcm (SfProps/C01Block.lean); here a frame
  is `bytewidth` bytes of delta-coded audio.

  `fmt c` is the rule after the repair of KF-XI-HEADER (xi_close rewrites the header): every statement below holds
  at full strength.  `fmtOld c` is the rule before it; `xi_close_old_rule` keeps its failure.
-/
import SfModel.Xi
import SfProofs.XiImage
namespace Sf.C04Xi
open Sf Sf.Small2 Sf.Xi

/-- the rate is fixed: XI has no rate field, xi_open and the reader both say 44100 -/
theorem xi_rate_fixed (sr : Nat) : quant sr = 44100 := rfl
example : quant 8000 = 44100 ∧ quant 2147483647 = 44100 := by decide

def sw : List Byte := asc "libsndfile-1.2.2    "
def ex8 : Cfg := ⟨0x50, sw⟩
def ex16 : Cfg := ⟨0x51, sw⟩
def exOps : List WOp := [.write [1, 2, 3, 4] false, .update, .write [5, 6] true]

/-- **xi_reopen_info.**  For both encodings and every session the closed file re-opens as mono, XI / the requested
    encoding, 44100 Hz and exactly the frames written (audio bytes / bytewidth). -/
theorem xi_reopen_info (c : Cfg) (hwf : c.wf) (stale : Nat) (ops : List WOp) :
    parse (closedBytes (fmt c) stale ops) = .ok { ch := 1, fmt := c.fmtWord, sr := quant 0, frames := (opsData ops).length / c.bw } := by
  rw [(closed_eq c hwf stale ops).1]; exact parse_image c hwf _ _

example : ex16.wf ∧ parse (closedBytes (fmt ex16) 9 exOps) = .ok ⟨1, 0x0F0051, 44100, 3⟩ := by decide +kernel
example : ex8.wf ∧ parse (closedBytes (fmt ex8) 0 exOps) = .ok ⟨1, 0x0F0050, 44100, 6⟩ := by decide +kernel

/-- **xi_size_fields.**  The closed file is the 338 bytes of the two headers plus the audio; the sample length field
    (offset 298, 32 bits little-endian) holds the frames written — audio bytes / bytewidth —, nothing is padded. -/
theorem xi_size_fields (c : Cfg) (hwf : c.wf) (stale : Nat) (ops : List WOp) (bytes : List Byte) (D : Nat)
    (hbytes : bytes = closedBytes (fmt c) stale ops) (hD : D = (opsData ops).length) :
    bytes.length = 338 + D ∧ bytes.drop 338 = opsData ops ∧ leAt bytes 298 4 = (D / c.bw) % 2 ^ 32 := by
  obtain ⟨hA, hB, _⟩ := part_lengths
  rw [(closed_eq c hwf stale ops).1, ← hD] at hbytes
  have hl := hdr_length c hwf { frames := ((D / c.bw : Nat) : Int) }
  refine ⟨by rw [hbytes, List.length_append, hl, hD], by rw [hbytes]; exact drop_append_len _ _ 338 hl, ?_⟩
  rw [hbytes]
  unfold hdr
  rw [List.append_assoc, leAt_right _ _ 298 4 (by omega), hA, List.append_assoc, leAt_right _ _ _ 4 (by rw [hwf.2]; decide), hwf.2,
    List.append_assoc, leAt_right _ _ _ 4 (by omega), hB, List.append_assoc]
  show ofLE (((le32 ((D / c.bw : Nat) : Int) ++ (partC c.codec ++ opsData ops)).drop 0).take 4) = _
  rw [List.drop_zero, take_append_len _ _ 4 (le32_length _), ofLE_le32, wrapU_nat_mod]

example : leAt (closedBytes (fmt ex16) 9 exOps) 298 4 = 3 ∧ (closedBytes (fmt ex16) 9 exOps).length = 344 := by decide +kernel

/-- **xi_frames_bound.**  DPCM is sample-granular and nothing is padded: `N` frames re-open as `N`. -/
theorem xi_frames_bound (bw N : Nat) (hbw : 0 < bw) : (N * bw) / bw = N ∧ N ≤ (N * bw) / bw ∧ (N * bw) / bw < N + 1 := by
  have : (N * bw) / bw = N := Nat.mul_div_cancel _ hbw
  omega
example : (3 * 2) / 2 = 3 := by decide

/-- **stale_frames_ignored_xi.**  Closed bytes and update images do not depend on the caller's frames value. -/
theorem stale_frames_ignored_xi (c : Cfg) (hwf : c.wf) (a b : Nat) (ops : List WOp) :
    closedBytes (fmt c) a ops = closedBytes (fmt c) b ops ∧ snapshotBytes (fmt c) a ops = snapshotBytes (fmt c) b ops := by
  rw [(closed_eq c hwf a ops).1, (closed_eq c hwf b ops).1, (closed_eq c hwf a ops).2, (closed_eq c hwf b ops).2]
  exact ⟨rfl, rfl⟩

example : closedBytes (fmt ex16) 0 [] = closedBytes (fmt ex16) 54321 [] := by decide +kernel

/-- **xi_snapshot_valid.**  After any session prefix the image a header update leaves parses with the same
    parameters and exactly the frames written so far, and is the 338 header bytes followed by the audio. -/
theorem xi_snapshot_valid (c : Cfg) (hwf : c.wf) (stale : Nat) (ops : List WOp) :
    parse (snapshotBytes (fmt c) stale ops) = .ok { ch := 1, fmt := c.fmtWord, sr := quant 0, frames := (opsData ops).length / c.bw } ∧
    ∃ h, h.length = 338 ∧ snapshotBytes (fmt c) stale ops = h ++ opsData ops := by
  rw [(closed_eq c hwf stale ops).2]
  exact ⟨parse_image c hwf _ _, _, hdr_length c hwf _, rfl⟩

example : parse (snapshotBytes (fmt ex16) 5 [.write [1, 2, 3, 4] false]) = .ok ⟨1, 0x0F0051, 44100, 2⟩ := by decide +kernel

/-- **xi_updates_dont_change_file** (C07 / C11): the closed bytes depend on the audio only, not on how it was split
    over write calls nor on the header updates requested in between. -/
theorem xi_updates_dont_change_file (c : Cfg) (hwf : c.wf) (stale : Nat) (ops : List WOp) :
    closedBytes (fmt c) stale ops = closedBytes (fmt c) stale [.write (opsData ops) false] := by
  rw [(closed_eq c hwf stale ops).1, (closed_eq c hwf stale _).1]; simp [opsData]

example : closedBytes (fmt ex16) 0 exOps = closedBytes (fmt ex16) 0 [.write (opsData exOps) false] := by decide +kernel

/-- **xi_close_old_rule** (KF-XI-HEADER before the repair): with a close function that leaves the header alone, the
    same three 16-bit frames give different files with and without a header update (sample length 3 vs 0), and a
    session that writes nothing keeps the caller's stale frames value in the sample length field. -/
theorem xi_close_old_rule :
    closedBytes (fmtOld ex16) 0 [.write [1, 2, 3, 4, 5, 6] false] ≠ closedBytes (fmtOld ex16) 0 [.write [1, 2, 3, 4, 5, 6] false, .update] ∧
    leAt (closedBytes (fmtOld ex16) 0 [.write [1, 2, 3, 4, 5, 6] false]) 298 4 = 0 ∧
    leAt (closedBytes (fmtOld ex16) 0 [.write [1, 2, 3, 4, 5, 6] false, .update]) 298 4 = 3 ∧
    closedBytes (fmtOld ex16) 0 [] ≠ closedBytes (fmtOld ex16) 7 [] ∧
    parse (closedBytes (fmtOld ex16) 0 [.write [1, 2, 3, 4, 5, 6] false]) = .ok ⟨1, 0x0F0051, 44100, 3⟩ := by decide +kernel

end Sf.C04Xi
