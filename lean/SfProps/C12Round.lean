/-
  C12 — `meta_roundtrip`, one theorem per container: everything a handle holds when the audio starts comes back after close
  and re-open as `normalise` says, for EVERY handle state within the containers' limits, which are now explicit and the same
  for writer and reader (round 5: the string readers take their buffers from the chunk sizes, the header cache grows to its
  100 KiB limit).

  `normalise…` are explicit functions: what the container keeps of each item.  The documented normalisations of the SET calls
  (library suffix on the software string, CR/LF line ends, added line end, added coding-history line, even padding) are applied
  by `Sf.Meta.step` when the item is stored (`softwareText`, `normHistory`, `normTag`); the functions here add what the file
  format itself imposes: reserved fields zeroed, cue names as C strings of at most 255 bytes, the `smpl` fields (known findings
  KF.smplRanges / KF.smplDetune live in `normInst`), AIFF markers (16-bit id, position, name).

  Also here: bext / cart on RF64 from the SET call to the re-opened file, and the `chan` chunk for every layout tag of the table.
-/
import SfModel.Meta
import SfModel.MetaX
import SfModel.MetaFix
import SfProps.C12
import SfProps.C12X
import SfProps.C12Fix
namespace Sf.C12Round
open Sf Sf.Meta

/-! ## RIFF containers: WAV, WAVEX, RF64 -/

/-- what a re-opened file returns with the CURRENT writers and readers: `Sf.Meta.reopen`, the cue points through the
    `cue ` chunk plus the LIST/adtl labels of the repaired writer (this is what `sfmodel meta` prints) -/
def reopenNow (period : Nat) (h : MetaState) : Reopened :=
  { reopen period h with cues := if h.cont = .rf64 then none else h.cues.bind MetaFix.reopenCues }

/-- the value the re-opened RIFF file must return for a handle whose strings were all set before the audio -/
def normaliseRiff (h : MetaState) : Reopened :=
  { strings := entriesOf h.strings SF_STR_LOCATE_START,
    bext := h.bext.map Bext.reread,
    cart := h.cart.map Cart.reread,
    -- rf64.c writes no `cue ` chunk and rf64_read_header does not interpret `smpl`: the statement lists cue points and
    -- instruments for WAV and AIFF only
    cues := if h.cont = .rf64 then none else h.cues.map fun cs => cs.map MetaFix.Cue.normName,
    inst := if h.cont = .rf64 then none else h.inst.map normInst }

/-- the limits of a RIFF handle, all explicit: strings are C strings of types INFO has ids for whose LIST chunk the header
    cache holds; bext / cart blocks as the SET calls store them (at most 16 KiB of text); at most 2500 cue points with unique
    ids; at most 16 loops -/
structure WithinRiff (period : Nat) (h : MetaState) : Prop where
  someEarly : (h.strings.flags &&& SF_STR_LOCATE_START) ≠ 0 ∧ locationCount h.strings SF_STR_LOCATE_START ≠ 0
  noneLate : (h.strings.flags &&& SF_STR_LOCATE_END) = 0
  strings : ∀ e ∈ entriesOf h.strings SF_STR_LOCATE_START, infoOk e
  listFits : (infoBody (entriesOf h.strings SF_STR_LOCATE_START)).length ≤ HEADER_CAP
  bext : ∀ b, h.bext = some b → b.wf ∧ b.history.length ≤ 16384
  cart : ∀ c, h.cart = some c → c.wf ∧ c.tag.length ≤ 16384
  cues : ∀ cs, h.cues = some cs → cs.length ≤ MAX_CUES ∧ (∀ c ∈ cs, c.wf) ∧ (cs.map (·.indx)).Nodup
  inst : ∀ i, h.inst = some i → period < 2 ^ 32 ∧ i.loops.length ≤ 16 ∧ ∀ l ∈ i.loops, l.start < 2 ^ 32 ∧ l.stop < 2 ^ 32 ∧ l.count < 2 ^ 32

/-- **meta_roundtrip** for WAV, WAVEX and RF64 (the container is a field of the handle): get after re-open = normalise (set),
    for every handle within the limits -/
theorem meta_roundtrip_riff (period : Nat) (h : MetaState) (w : WithinRiff period h) : reopenNow period h = normaliseRiff h := by
  obtain ⟨⟨hA1, hA2⟩, hB, hstr, hfit, hbext, hcart, hcues, hinst⟩ := w
  unfold reopenNow normaliseRiff reopen
  have hs : (if (h.strings.flags &&& SF_STR_LOCATE_START) ≠ 0 ∧ locationCount h.strings SF_STR_LOCATE_START ≠ 0
                then parseInfo (writeStrings h.strings SF_STR_LOCATE_START) else []) ++
            (if (h.strings.flags &&& SF_STR_LOCATE_END) ≠ 0 ∧ locationCount h.strings SF_STR_LOCATE_END ≠ 0
                then parseInfo (writeStrings h.strings SF_STR_LOCATE_END) else [])
            = entriesOf h.strings SF_STR_LOCATE_START := by
    rw [if_pos ⟨hA1, hA2⟩, if_neg (by simp [hB])]
    unfold writeStrings
    rw [if_neg hA2, info_roundtrip _ hstr hfit]
    simp
  have hb : (h.bext.bind fun b => readBext (writeBext b)) = h.bext.map Bext.reread := by
    cases hbe : h.bext with
    | none => rfl
    | some b => simp [bext_chunk_roundtrip b (hbext b hbe).1 (hbext b hbe).2]
  have hc : (h.cart.bind fun c => readCart (writeCart c)) = h.cart.map Cart.reread := by
    cases hca : h.cart with
    | none => rfl
    | some c => simp [cart_chunk_roundtrip c (hcart c hca).1 (hcart c hca).2]
  have hq : (h.cues.bind MetaFix.reopenCues) = h.cues.map fun cs => cs.map MetaFix.Cue.normName := by
    cases hcu : h.cues with
    | none => rfl
    | some cs =>
      obtain ⟨a, b, c⟩ := hcues cs hcu
      simp [C12Fix.cue_names_roundtrip cs a b c]
  have hi : (h.inst.bind fun i => readSmpl (writeSmpl period i)) = h.inst.map normInst := by
    cases hin : h.inst with
    | none => rfl
    | some i =>
      obtain ⟨a, b, c⟩ := hinst i hin
      simp [inst_roundtrip period i a b c]
  simp only [hs, hb, hc, hq, hi]

theorem meta_roundtrip_wav (period : Nat) (h : MetaState) (_hc : h.cont = .wav) (w : WithinRiff period h) :
    reopenNow period h = normaliseRiff h := meta_roundtrip_riff period h w
theorem meta_roundtrip_wavex (period : Nat) (h : MetaState) (_hc : h.cont = .wavex) (w : WithinRiff period h) :
    reopenNow period h = normaliseRiff h := meta_roundtrip_riff period h w
/-- RF64: strings, bext and cart come back; cue points and instrument are not stored by this container -/
theorem meta_roundtrip_rf64 (period : Nat) (h : MetaState) (hc : h.cont = .rf64) (w : WithinRiff period h) :
    reopenNow period h = normaliseRiff h ∧ (reopenNow period h).cues = none ∧ (reopenNow period h).inst = none := by
  refine ⟨meta_roundtrip_riff period h w, ?_, ?_⟩ <;> simp [reopenNow, reopen, hc]

/-- non-vacuity: a WAV handle with a title, a software string, a bext block, two cue points (one named) and an instrument -/
def sampleHandle (c : Container) : MetaState :=
  let pn := ascii "libsndfile"
  let pv := ascii "1.2.2"
  let h0 := MetaState.open c
  let h1 := (step pn pv h0 (.setString 1 (ascii "Title"))).2
  let h2 := (step pn pv h1 (.setString 3 (ascii "me"))).2
  let h3 := (step pn pv h2 (.setBext (ascii "T=x\r\n") bextSample 6 614)).2
  let h4 := (step pn pv h3 (.setCues [⟨1, 10, 0x61746164, 0, 0, 10, ascii "one"⟩, ⟨7, 20, 0x61746164, 1, 2, 3, []⟩])).2
  (step pn pv h4 (.setInst instSample)).2

example : (normaliseRiff (sampleHandle .wav)).strings = [(1, ascii "Title"), (3, ascii "me (libsndfile-1.2.2)")] ∧
    ((normaliseRiff (sampleHandle .wav)).bext.map (·.history)) = some (ascii "A=PCM\r\nT=x\r\n") ∧
    (reopenNow 22675 (sampleHandle .wav)).strings = (normaliseRiff (sampleHandle .wav)).strings ∧
    (reopenNow 22675 (sampleHandle .wav)).bext = (normaliseRiff (sampleHandle .wav)).bext ∧
    (reopenNow 22675 (sampleHandle .wav)).cues = some [⟨1, 10, 0x61746164, 0, 0, 10, ascii "one"⟩, ⟨7, 20, 0x61746164, 1, 2, 3, []⟩] ∧
    (reopenNow 22675 (sampleHandle .wav)).inst = some instSample ∧
    (reopenNow 22675 (sampleHandle .rf64)).cues = none := by decide +kernel

/-- … and that handle is within the limits: the hypothesis of the theorem is met -/
example : WithinRiff 22675 (sampleHandle .wav) := by
  refine ⟨by decide +kernel, by decide +kernel, ?_, by decide +kernel, ?_, ?_, ?_, ?_⟩
  · intro e he
    have : entriesOf (sampleHandle .wav).strings SF_STR_LOCATE_START = [(1, ascii "Title"), (3, ascii "me (libsndfile-1.2.2)")] := by decide +kernel
    rw [this] at he
    simp only [List.mem_cons, List.mem_nil_iff, or_false] at he
    rcases he with rfl | rfl <;> exact ⟨by decide, by decide⟩
  · intro b hb
    have : (sampleHandle .wav).bext = some (setBext .write (ascii "T=x\r\n") bextSample) := by decide +kernel
    rw [this] at hb; cases hb
    exact ⟨by decide +kernel, by decide +kernel⟩
  · intro c hc
    have : (sampleHandle .wav).cart = none := by decide +kernel
    rw [this] at hc; cases hc
  · intro cs hcs
    have : (sampleHandle .wav).cues = some [⟨1, 10, 0x61746164, 0, 0, 10, ascii "one"⟩, ⟨7, 20, 0x61746164, 1, 2, 3, []⟩] := by decide +kernel
    rw [this] at hcs; cases hcs
    exact ⟨by decide, by decide, by decide⟩
  · intro i hi
    have : (sampleHandle .wav).inst = some instSample := by decide +kernel
    rw [this] at hi; cases hi
    exact ⟨by decide, by decide, by decide⟩

/-! ## bext and cart on RF64 (and WAV / WAVEX), from the SET call to the re-opened file -/

/-- SFC_SET_BROADCAST_INFO before the audio on a WAV, WAVEX or RF64 handle with a well-formed block whose size fields are
    consistent is accepted, and the re-opened file returns exactly `normBext` of it -/
theorem bext_set_reopen (c : Container) (hc : c = .wav ∨ c = .wavex ∨ c = .rf64) (period : Nat) (pn pv line : List Byte) (info : Bext)
    (declared datasize : Nat) (hwf : info.wf) (h1 : 608 ≤ datasize) (h2 : 608 + declared ≤ datasize) (h3 : datasize < BEXT_STRUCT_16K) :
    (step pn pv (MetaState.open c) (.setBext line info declared datasize)).1 = 1 ∧
    (reopenNow period (step pn pv (MetaState.open c) (.setBext line info declared datasize)).2).bext = some (normBext .write line info) := by
  have hstep : step pn pv (MetaState.open c) (.setBext line info declared datasize)
      = (1, { MetaState.open c with bext := some (setBext .write line info) }) := by
    have e1 : ¬ (datasize < 608 ∨ 608 + declared > datasize) := by omega
    have e2 : ¬ (datasize ≥ BEXT_STRUCT_16K) := by omega
    rcases hc with rfl | rfl | rfl <;> simp [step, MetaState.open, Container.hasStrings, e1, e2]
  rw [hstep]
  refine ⟨rfl, ?_⟩
  simp only [reopenNow, reopen, Option.bind_some]
  exact bext_roundtrip .write line info hwf

example : (reopenNow 0 (step [] [] (MetaState.open .rf64) (.setBext (ascii "T=x\r\n") bextSample 6 614)).2).bext
    = some (normBext .write (ascii "T=x\r\n") bextSample) := by decide +kernel

/-- SFC_SET_CART_INFO before the audio on a WAV or RF64 handle: accepted, and the re-opened file returns `normCart` of it -/
theorem cart_set_reopen (c : Container) (hc : c = .wav ∨ c = .rf64) (period : Nat) (pn pv : List Byte) (junk : Byte) (info : Cart)
    (declared datasize : Nat) (hwf : info.wf) (h1 : 2052 ≤ datasize) (h2 : 2052 + declared ≤ datasize) (h3 : datasize < CART_STRUCT_16K) :
    (step pn pv (MetaState.open c) (.setCart junk info declared datasize)).1 = 1 ∧
    (reopenNow period (step pn pv (MetaState.open c) (.setCart junk info declared datasize)).2).cart = some (normCart junk info) := by
  have hstep : step pn pv (MetaState.open c) (.setCart junk info declared datasize)
      = (1, { MetaState.open c with cart := some (setCart junk info) }) := by
    have e1 : ¬ (datasize < 2052 ∨ 2052 + declared > datasize) := by omega
    have e2 : ¬ (datasize ≥ CART_STRUCT_16K) := by omega
    rcases hc with rfl | rfl <;> simp [step, MetaState.open, Container.hasStrings, e1, e2]
  rw [hstep]
  refine ⟨rfl, ?_⟩
  simp only [reopenNow, reopen, Option.bind_some]
  exact cart_roundtrip junk info hwf

example : (reopenNow 0 (step [] [] (MetaState.open .rf64) (.setCart 0 cartSample 8 2060)).2).cart = some (normCart 0 cartSample) := by
  decide +kernel

/-! ## AIFF and CAF -/
open Sf.MetaX

/-- what an AIFF handle holds when the audio starts: the (type, text) pairs of its string table in slot order, the cue points,
    whether an instrument was set, the channel map -/
structure XItems where
  strings : List (Nat × List Byte)
  cues : Option (List Cue)
  inst : Bool
  chmap : Option (List Nat)

/-- **meta_roundtrip** for AIFF: every text (NAME, (c), APPL, AUTH, ANNO) within `aiffOk`, up to 2500 markers (16-bit id, sample
    offset, name of at most 253 bytes) with or without an instrument, and every channel map a layout tag exists for -/
theorem meta_roundtrip_aiff (x : XItems) (hs : ∀ e ∈ x.strings, aiffOk e)
    (hq : ∀ cs, x.cues = some cs → cs.length ≤ 2500 ∧ ∀ c ∈ cs, (markOfCue c).ok)
    (hm : ∀ m, x.chmap = some m → findTag m ≠ 0) :
    aiffParse (x.strings.length + 1) (aiffStrings x.strings) = x.strings ∧
    MetaFix.aiffCues x.inst x.cues = x.cues.map (fun cs => (cs.map markOfCue).map cueOfMark) ∧
    (∀ m, x.chmap = some m → readChan false m.length (be4 (findTag m)) = some m) := by
  refine ⟨aiff_text_roundtrip x.strings hs _ (by omega), ?_, fun m hmm => chan_roundtrip false m (hm m hmm)⟩
  cases hc : x.cues with
  | none => simp [MetaFix.aiffCues, MetaFix.aiffCuesWith, MetaFix.aiffMarkWritten]
  | some cs =>
    obtain ⟨a, b⟩ := hq cs hc
    simpa using C12Fix.aiff_cues_with_inst x.inst cs a b

/-- **meta_roundtrip** for CAF: every table of strings (any of the ten types, C strings) whose `info` chunk the header cache
    holds, and every channel map a layout tag exists for -/
theorem meta_roundtrip_caf (used : Nat) (strings : List (Nat × List Byte)) (chmap : Option (List Nat))
    (hs : ∀ e ∈ strings, cafOk e) (h32 : strings.length ≤ SF_MAX_STRINGS) (hused : storedBytes strings ≤ used)
    (hcap : cafNeed strings ≤ HEADER_CAP) (hm : ∀ m, chmap = some m → findTag m ≠ 0) :
    readCafInfo (writeCafInfo used strings) = strings ∧
    (∀ m, chmap = some m → readChan true m.length (be4 (findTag m)) = some m) :=
  ⟨caf_info_roundtrip used strings hs h32 hused hcap, fun m hmm => chan_roundtrip true m (hm m hmm)⟩

example : aiffOk (1, ascii "Title") ∧ cafOk (8, ascii "a licence") ∧ findTag [2, 3] ≠ 0 ∧
    (markOfCue ⟨1, 0, 0, 0, 0, 10, ascii "one"⟩).ok := by
  refine ⟨⟨by decide, by decide, by decide⟩, ⟨by decide, by decide⟩, by decide +kernel, ⟨by decide, by decide, by decide, by decide⟩⟩

/-! ## the `chan` / `CHAN` chunk for ALL layout tags -/

/-- every entry of the layout table that carries a channel map: writing its tag and reading it back (AIFF and CAF) returns that
    very map — for all tags of src/chanmap.c (the table is regenerated from the tree under test on every run) -/
theorem chan_all_layout_tags :
    layoutTable.all (fun e => match e.2 with
      | some m => readChan false m.length (be4 e.1) == some m && readChan true m.length (be4 e.1) == some m
      | none => true) = true := by decide +kernel

/-- … and the tag found for a map always carries that map (so SET → tag → GET is the identity on every map that has a tag) -/
theorem chan_tag_of_map_all :
    layoutTable.all (fun e => match e.2 with
      | some m => findTag m != 0 && (ofTag (findTag m)).map (·.2) == some (some m)
      | none => true) = true := by decide +kernel

end Sf.C12Round
