-- properties: C04 C11
/-
  C04 / C11 — the AVR container (stand-alone L1 model SfModel/Avr.lean over SfModel/SmallSession.lean; helpers
  SfProofs/SmallSession.lean, SfProofs/Avr.lean).  Property theorems only.

  A *session* is `openW` (sf_open SFM_WRITE; the frames value the caller left in SF_INFO is a parameter), any list of
  `WOp`s (write calls storing encoded audio, with or without SFC_SET_UPDATE_HEADER_AUTO; SFC_UPDATE_HEADER_NOW), then
  `close`.  `parse` is sf_open (SFM_READ) of the produced bytes.
-/
import SfModel.Avr
import SfProofs.Avr
namespace Sf.C04Avr
open Sf Sf.Small Sf.Avr

/-- the closed bytes of a session: the 128-byte header of the final frame count, then the audio -/
theorem closedBytes_eq (c : Cfg) (stale : Nat) (ops : List WOp) :
    closedBytes (spec c) stale ops = hdr c ((opsData ops).length / c.bw) ++ opsData ops := by
  have h := closed_calc (spec c) (spec_lenOk c) rfl rfl stale ops
  simpa [spec] using h

/-- **avr_reopen_info.**  For every accepted configuration (PCM S8 / U8 / 16, one or two channels, any rate up to
    2^31 − 1: the rate field has 32 bits, nothing is quantised) and every session, the closed file re-opens with the
    requested channels, format word and rate, and frames = audio bytes / block width.  No size guard: the reader
    takes the frame count from the file length, not from the 32-bit field. -/
theorem avr_reopen_info (c : Cfg) (hwf : c.wf) (stale : Nat) (ops : List WOp) :
    parse (closedBytes (spec c) stale ops) =
      .ok { ch := c.ch, fmt := c.fmtWord, sr := c.sr, frames := (opsData ops).length / c.bw } := by
  rw [closedBytes_eq]; exact parse_hdr c hwf _ _

/-- **avr_frames_bound.**  N whole frames written: the re-opened count is exactly N (block length 1, no padding) -/
theorem avr_frames_bound (c : Cfg) (hwf : c.wf) (stale : Nat) (ops : List WOp) (N : Nat) (hN : (opsData ops).length = N * c.bw) :
    ∃ F, parse (closedBytes (spec c) stale ops) = .ok { ch := c.ch, fmt := c.fmtWord, sr := c.sr, frames := F } ∧ N ≤ F ∧ F < N + 1 := by
  refine ⟨N, ?_, Nat.le_refl _, Nat.lt_succ_self _⟩
  rw [avr_reopen_info c hwf, hN, Nat.mul_div_cancel _ (bw_pos c hwf)]

def exCfg : Cfg := ⟨0x02, 0, 2, 44100⟩
def exOps : List WOp := [.write [0, 1, 0, 2] false, .update, .write [0, 3, 0, 4, 0, 5, 0, 6] true]
def exU8 : Cfg := ⟨0x05, 2, 1, 2147483647⟩

example : exCfg.wf ∧ (closedBytes (spec exCfg) 99 exOps).length = 140 ∧
    parse (closedBytes (spec exCfg) 99 exOps) = .ok ⟨2, 0x120002, 44100, 3⟩ := by decide +kernel
example : exU8.wf ∧ parse (closedBytes (spec exU8) 0 [.write [1, 2, 3] false]) = .ok ⟨1, 0x120005, 2147483647, 3⟩ := by decide +kernel

/-- **avr_size_fields.**  For every session: the file is the 128-byte header plus the audio bytes, and the frames
    field (offset 26, big-endian) holds the low 32 bits of the frame count. -/
theorem avr_size_fields (c : Cfg) (stale : Nat) (ops : List WOp) (bytes : List Byte) (D : Nat)
    (hbytes : bytes = closedBytes (spec c) stale ops) (hD : D = (opsData ops).length) :
    bytes.length = 128 + D ∧ ofBE (slice bytes 26 4) = (D / c.bw) % 2 ^ 32 := by
  rw [hbytes, closedBytes_eq, ← hD]
  refine ⟨by rw [List.length_append, hdr_length, hD]; rfl, ?_⟩
  have e : hdr c (D / c.bw) ++ opsData ops = (mk4 "2BIT" ++ List.replicate 8 0 ++ be16 (if c.ch = 2 then 0xFFFF else 0) ++ be16 (c.bytewidth * 8) ++
      be16 (if c.codec = 0x05 then 0 else 0xFFFF) ++ be16 0 ++ be16 0xFFFF ++ be32 c.sr) ++
      (be32 ((D / c.bw : Nat) : Int) ++ (be32 0 ++ be32 0 ++ be16 0 ++ be16 0 ++ be16 0 ++ List.replicate 20 0 ++ List.replicate 64 0 ++ opsData ops)) := by
    unfold hdr; simp only [List.append_assoc]
  rw [e, slice_field _ _ _ 26 4 (by simp [List.length_append, be16_length, be32_length, mk4_2BIT_length]) (by rw [be32_length]),
    ofBE_be32, wrapU_mod]

example : ofBE (slice (closedBytes (spec exCfg) 99 exOps) 26 4) = 3 := by decide +kernel

/-- **stale_frames_ignored_avr.**  `avr_open` keeps the caller's frames value in the first header it writes, but
    every header update and `avr_close` recompute it from the file length: neither the closed bytes nor any
    header-update image depend on it. -/
theorem stale_frames_ignored_avr (c : Cfg) (a b : Nat) (ops : List WOp) :
    closedBytes (spec c) a ops = closedBytes (spec c) b ops ∧ snapshotBytes (spec c) a ops = snapshotBytes (spec c) b ops :=
  stale_ignored_calc (spec c) (spec_lenOk c) rfl rfl a b ops

example : closedBytes (spec exCfg) 0 exOps = closedBytes (spec exCfg) 123456 exOps ∧
    (openW (spec exCfg) 0).bytes ≠ (openW (spec exCfg) 123456).bytes := by decide +kernel

/-- **avr_snapshot_valid** (C11).  After any session prefix, the image a header update (SFC_UPDATE_HEADER_NOW, or a
    write call in auto mode) leaves in the store is a complete file: it parses with the requested parameters and
    frames = audio bytes written so far / block width, and it is the 128-byte header followed by exactly the audio. -/
theorem avr_snapshot_valid (c : Cfg) (hwf : c.wf) (stale : Nat) (ops : List WOp) :
    parse (snapshotBytes (spec c) stale ops) =
      .ok { ch := c.ch, fmt := c.fmtWord, sr := c.sr, frames := (opsData ops).length / c.bw } ∧
    ∃ h, h.length = 128 ∧ snapshotBytes (spec c) stale ops = h ++ opsData ops := by
  have h := snapshot_calc (spec c) (spec_lenOk c) rfl stale ops
  have e : snapshotBytes (spec c) stale ops = hdr c ((opsData ops).length / c.bw) ++ opsData ops := by simpa [spec] using h
  rw [e]
  exact ⟨parse_hdr c hwf _ _, _, hdr_length c _, rfl⟩

/-- a write call with SFC_SET_UPDATE_HEADER_AUTO on is the plain write call followed by a header update -/
theorem auto_write_is_update (c : Cfg) (s : St) (enc : List Byte) :
    write (spec c) s enc true = update (spec c) (write (spec c) s enc false) := by
  simp [write, update]

example : parse (snapshotBytes (spec exCfg) 7 [.write [0, 1, 0, 2] false]) = .ok ⟨2, 0x120002, 44100, 1⟩ := by decide +kernel

end Sf.C04Avr
