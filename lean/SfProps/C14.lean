/-
  C14 — path, descriptor, virtual I/O and embedded access agree; descriptor ownership; pipes.  Property theorems.

  The model is SfModel/Routes.lean (the POSIX half of src/file_io.c as written, plus sf_open_fd and the route
  related parts of psf_open_file).  `Rel sh w a` (SfProofs/Routes.lean) says that the concrete state — a shim `sh`
  over a world `w` — presents the logical file `a` (content, position):
      callbacks : the user's store is the content;
      descriptor: the bytes of the OS file from `fileoffset` on are the content, offset = fileoffset + position
                  (sf_open: fileoffset = 0; sf_open_fd: fileoffset = where the descriptor stood).
  `Op.ok` is the decidable set of operations covered; its complement is exactly the list of proved divergences below.
-/
import SfProofs.Routes
namespace Sf.C14
open Sf Sf.Routes

/-! ## routes_equivalent -/

/-- every operation of the sequence is covered when it is issued -/
def OpsOk (sh : Shim) : Abs → List Op → Prop
  | _, [] => True
  | a, op :: ops => Op.ok sh a op = true ∧ OpsOk sh (absStep a op).2 ops

instance decOpsOk (sh : Shim) : (a : Abs) → (ops : List Op) → Decidable (OpsOk sh a ops)
  | _, [] => isTrue trivial
  | a, op :: ops => @instDecidableAnd _ _ _ (decOpsOk sh (absStep a op).2 ops)

theorem OpsOk_frame {s s' : Shim} (h : Frame s s') : ∀ (ops : List Op) (a : Abs), OpsOk s a ops → OpsOk s' a ops
  | [], _, _ => trivial
  | op :: ops, a, ⟨h1, h2⟩ => ⟨by rw [Op.ok_frame h]; exact h1, OpsOk_frame h ops _ h2⟩

/-- **routes_equivalent** (simulation, by induction over the operation sequence — no bound on its length, on the
    sizes or on the offsets): whatever route presents the logical file `a`, the results (returned counts / positions
    and the bytes delivered) of every covered operation sequence are those of the logical file, and the route still
    presents the logical file afterwards. -/
theorem routes_equivalent_partial : ∀ (ops : List Op) (sh : Shim) (w : World) (a : Abs),
    Rel sh w a → OpsOk sh a ops →
    (run sh w ops).1 = (absRun a ops).1 ∧ Rel (run sh w ops).2.1 (run sh w ops).2.2 (absRun a ops).2 ∧
    Frame sh (run sh w ops).2.1
  | [], sh, w, a, h, _ => ⟨rfl, h, Frame.refl _⟩
  | op :: ops, sh, w, a, h, ⟨hok, hrest⟩ => by
    obtain ⟨h1, h2, h3⟩ := step_sim op h hok
    obtain ⟨i1, i2, i3⟩ := routes_equivalent_partial ops _ _ _ h2 (OpsOk_frame h3 ops _ hrest)
    refine ⟨?_, i2, Frame.trans h3 i3⟩
    simp only [run, absRun]
    rw [i1, ← h1]

/-- two routes over the same logical file give the same results: path vs descriptor vs callbacks vs a descriptor
    positioned at offset k of a larger file (any leading bytes, any bytes after) -/
theorem routes_equivalent (ops : List Op) (sh₁ sh₂ : Shim) (w₁ w₂ : World) (a : Abs)
    (h₁ : Rel sh₁ w₁ a) (h₂ : Rel sh₂ w₂ a) (ok₁ : OpsOk sh₁ a ops) (ok₂ : OpsOk sh₂ a ops) :
    (run sh₁ w₁ ops).1 = (run sh₂ w₂ ops).1 := by
  rw [(routes_equivalent_partial ops _ _ _ h₁ ok₁).1, (routes_equivalent_partial ops _ _ _ h₂ ok₂).1]

/-- the logical content a concrete state holds -/
def logical (sh : Shim) (w : World) : List Byte := if sh.virtualIo then w.mem else w.file.drop sh.fileoffset.toNat

theorem logical_of_rel {sh : Shim} {w : World} {a : Abs} (h : Rel sh w a) : logical sh w = a.content := by
  unfold logical
  cases hv : sh.virtualIo with
  | true => simp only [Rel, hv, if_true] at h; simp [h.1]
  | false =>
    rw [Rel_fd hv] at h
    obtain ⟨_, _, _, k, hk, _, hc, _, _⟩ := h
    simp [hk, hc]

/-- **written_bytes_route_independent**: after the same covered operation sequence (writes, seeks, …) the logical
    content is the same on every route — for a descriptor route that is the file from `fileoffset` on. -/
theorem written_bytes_route_independent (ops : List Op) (sh₁ sh₂ : Shim) (w₁ w₂ : World) (a : Abs)
    (h₁ : Rel sh₁ w₁ a) (h₂ : Rel sh₂ w₂ a) (ok₁ : OpsOk sh₁ a ops) (ok₂ : OpsOk sh₂ a ops) :
    logical (run sh₁ w₁ ops).2.1 (run sh₁ w₁ ops).2.2 = logical (run sh₂ w₂ ops).2.1 (run sh₂ w₂ ops).2.2 := by
  rw [logical_of_rel (routes_equivalent_partial ops _ _ _ h₁ ok₁).2.1,
      logical_of_rel (routes_equivalent_partial ops _ _ _ h₂ ok₂).2.1]

/-! ## how the three opens establish the relation -/

theorem rel_vio (mode : Mode) (w : World) : Rel (openVio mode) w ⟨w.mem, w.mpos⟩ := by
  simp [Rel, openVio]

theorem rel_path (mode : Mode) (w : World) (hp : w.isPipe = false) :
    Rel (openPath w mode).1 (openPath w mode).2 ⟨if mode = .w then [] else w.file, 0⟩ := by
  have hv : (openPath w mode).1.virtualIo = false := rfl
  rw [Rel_fd hv]
  refine ⟨rfl, hp, ?_, 0, rfl, by simp, by simp [openPath], by simp [openPath], fun _ => rfl⟩
  simp [openPath, World.valid]

/-! ## the full statement, its failure, and the witnesses of every excluded operation -/

/-- the statement at full strength: every operation, no side condition -/
def routes_equivalent_full : Prop :=
  ∀ (ops : List Op) (sh : Shim) (w : World) (a : Abs), Rel sh w a → (run sh w ops).1 = (absRun a ops).1

def wOpen (file : List Byte) (off : Nat) : World := { file := file, off := off, openFds := [3, 7] }
def shFd (mode : Mode) (k : Int) : Shim := { mode := mode, filedes := 3, fileoffset := k }

/-- psf_ftruncate through virtual I/O (repaired by 0001-fix-SFC_FILE_TRUNCATE…): SF_VIRTUAL_IO has no truncate callback, the
    call is refused with -1 and NOTHING is touched — not the store, not its position, not the handle's error -/
theorem truncate_vio_refused_cleanly (sh : Shim) (w : World) (n : Int) (hv : sh.virtualIo = true) :
    (ftruncate sh w n).ret = -1 ∧ (ftruncate sh w n).w = w ∧ (ftruncate sh w n).sh = sh := by
  unfold ftruncate; split <;> simp [hv]

/-- the rule before the repair (KF-C14-TRUNC-VIO): ftruncate (-1) — the handle is left with SFE_SYSTEM -/
theorem truncate_vio_old_rule :
    (ftruncateOld (openVio .w) { mem := [1, 2, 3, 4], mpos := 4 } 2).ret = -1 ∧
    (ftruncateOld (openVio .w) { mem := [1, 2, 3, 4], mpos := 4 } 2).sh.error = .system ∧
    (ftruncate (openVio .w) { mem := [1, 2, 3, 4], mpos := 4 } 2).sh.error = .none := by decide

/-- psf_ftruncate with fileoffset > 0 (repaired by 0002-fix-psf_ftruncate…): the cut lands at fileoffset + len, the bytes in
    front of the embedded file stay (in general: `routes_equivalent_partial` and `embedded_window_lead`, which now cover truncate) -/
theorem truncate_embedded_respects_offset :
    (step (shFd .w 3) (wOpen [9, 9, 9, 1, 2, 3, 4] 7) (.truncate 2)).ret = 0 ∧
    (step (shFd .w 3) (wOpen [9, 9, 9, 1, 2, 3, 4] 7) (.truncate 2)).w.file = [9, 9, 9, 1, 2] ∧
    (absStep ⟨[1, 2, 3, 4], 4⟩ (.truncate 2)).2.content = [1, 2] := by decide

/-- the rule before the repair (KF-C14-TRUNC-EMBED): the cut landed `fileoffset` bytes too early — here it removed the whole
    embedded file and a byte of the enclosing one -/
theorem truncate_embedded_old_rule :
    (ftruncateOld (shFd .w 3) (wOpen [9, 9, 9, 1, 2, 3, 4] 7) 2).ret = 0 ∧
    (ftruncateOld (shFd .w 3) (wOpen [9, 9, 9, 1, 2, 3, 4] 7) 2).w.file = [9, 9] := by decide

/-- what is still outside `Op.ok` (all by design or never issued): truncate through callbacks (refused), an unknown whence,
    a seek in front of the window, psf_get_filelen after a parser has set filelength to the header's own size -/
theorem routes_equivalent_full_fails : ¬ routes_equivalent_full := by
  intro h
  have := h [.truncate 2] (openVio .w) { mem := [1, 2, 3, 4], mpos := 4 } ⟨[1, 2, 3, 4], 4⟩ (by simp [Rel, openVio])
  revert this; decide

/-- repaired by 0003-fix-psf_get_filelen…: the first psf_get_filelen of an embedded READ handle (psf_open_file, before any
    container parser has set `filelength`) answers the length of the embedded part, like every other route -/
theorem filelen_fresh_embedded {sh : Shim} {w : World} {a : Abs} (hv : sh.virtualIo = false) (h : Rel sh w a)
    (hm : sh.mode = .r) (hl : sh.filelength ≤ 0) : (getFilelen sh w).ret = a.content.length := by
  have hok : Op.ok sh a .filelen = true := by simp [Op.ok, hm, hl]
  have := (step_sim .filelen h hok).1
  simp only [step, absStep] at this
  exact (Prod.mk.inj this).1

/-- the rule before the repair (KF-C14-EMBED-SHORT): the size of the whole descriptor, leading bytes included -/
theorem filelen_first_call_old_rule :
    (getFilelenOld (shFd .r 3) (wOpen [9, 9, 9, 1, 2, 3, 4] 3)).ret = 7 ∧
    (getFilelen (shFd .r 3) (wOpen [9, 9, 9, 1, 2, 3, 4] 3)).ret = 4 ∧
    (absStep ⟨[1, 2, 3, 4], 0⟩ .filelen).1.1 = 4 := by decide

/-- in general: the READ-mode answer of an embedded handle is `filelength` once it is set, else the size behind the offset -/
theorem filelen_read (sh : Shim) (w : World) (hv : sh.virtualIo = false) (hm : sh.mode = .r)
    (hval : w.valid sh.filedes = true) (hp : w.isPipe = false) :
    (getFilelen sh w).ret = if sh.fileoffset > 0 then (if sh.filelength > 0 then sh.filelength else (w.file.length : Int) - sh.fileoffset)
                            else (w.file.length : Int) := by
  have h1 : ¬ ((w.file.length : Int) = -1) := by omega
  simp [getFilelen, hv, fstatSize, hval, hp, h1, hm]

/-- not issued by the upper layer: a seek in front of the window moves an embedded descriptor into the enclosing
    file (the next read delivers its bytes), while a plain descriptor refuses the seek -/
theorem seek_before_window_diverges :
    (run (shFd .r 3) (wOpen [9, 8, 7, 1, 2, 3, 4] 3) [.seek (-1) 0, .read 1 1]).1 = [(-1, []), (1, [7])] ∧
    (run (shFd .r 0) (wOpen [1, 2, 3, 4] 0) [.seek (-1) 0, .read 1 1]).1 = [(-1, []), (1, [1])] := by decide

/-- not issued by the upper layer: an unknown whence is answered 0 by the descriptor route, -1 by the callbacks -/
theorem bad_whence_diverges :
    (step (shFd .r 0) (wOpen [1, 2] 0) (.seek 0 3)).ret = 0 ∧
    (step (openVio .r) { mem := [1, 2] } (.seek 0 3)).ret = -1 := by decide

/-! ## embedded_window -/

theorem lseek_file (w : World) (d : Int) (off : Int) (wh : Nat) : (lseek w d off wh).2.file = w.file := by
  unfold lseek; dsimp only; split; · rfl
  split; · rfl
  split <;> rfl

/-- one step never changes a byte in front of `fileoffset` (covered operations, truncate included since 0002-fix) -/
theorem step_lead {sh : Shim} {w : World} {a : Abs} (op : Op) (hv : sh.virtualIo = false) (h : Rel sh w a)
    (hok : Op.ok sh a op = true) :
    (step sh w op).w.file.take sh.fileoffset.toNat = w.file.take sh.fileoffset.toNat := by
  rw [Rel_fd hv] at h
  obtain ⟨hsp, hwp, hval, k, hk, hkl, hc, hoff, hrw⟩ := h
  cases op with
  | seek off wh =>
    simp only [Op.ok, Bool.and_eq_true, decide_eq_true_eq] at hok
    simp only [step, fseek_fd off hv hsp hok.1, lseek_file]
  | read b i =>
    simp only [step, fread, hv, Bool.false_eq_true, if_false, osRead]
    split; · rfl
    split; · rfl
    split <;> rfl
  | write b i d =>
    simp only [step, fwrite, hv, Bool.false_eq_true, if_false, osWrite, hwp]
    split; · rfl
    split; · rfl
    split; · rfl
    simp only [hoff, hk, Int.toNat_natCast]
    exact writeAt_take _ _ _ _ hkl
  | tell =>
    simp only [step, ftell, hv, hsp, Bool.false_eq_true, if_false]
    split <;> rfl
  | filelen =>
    simp only [step, getFilelen, hv, Bool.false_eq_true, if_false]
    split; · rfl
    split <;> rfl
  | truncate n =>
    simp only [step, ftruncate, hv, Bool.false_eq_true, if_false, osTruncate, hval, hwp, Bool.not_true, Bool.or_self]
    split; · rfl
    have hn : (n + sh.fileoffset).toNat = k + n.toNat := by rw [hk]; omega
    rw [hn]
    simp only [hk, Int.toNat_natCast]
    exact resize_take _ _ _ hkl

/-- **embedded_window, lower edge**: for every covered operation sequence the bytes of the enclosing file in front of
    `fileoffset` are never modified, in any mode -/
theorem embedded_window_lead : ∀ (ops : List Op) (sh : Shim) (w : World) (a : Abs), sh.virtualIo = false →
    Rel sh w a → OpsOk sh a ops →
    (run sh w ops).2.2.file.take sh.fileoffset.toNat = w.file.take sh.fileoffset.toNat
  | [], _, _, _, _, _, _ => rfl
  | op :: ops, sh, w, a, hv, h, ⟨hok, hrest⟩ => by
    obtain ⟨_, h2, h3⟩ := step_sim op h hok
    have hv' : (step sh w op).sh.virtualIo = false := by rw [h3.1]; exact hv
    have ih := embedded_window_lead ops _ _ _ hv' h2 (OpsOk_frame h3 ops _ hrest)
    simp only [run]
    rw [h3.2.2.2.1] at ih
    rw [ih, step_lead op hv h hok]

/-- reads that stay inside the first `L` bytes, seeks by SEEK_SET / SEEK_CUR, tell: what a reader confined to the
    window `[0, L)` issues -/
def inWindow (L : Nat) (a : Abs) : Op → Bool
  | .seek _ wh => decide (wh ≤ 1)
  | .read b i => decide (a.pos + (b * i).toNat ≤ L)
  | .tell => true
  | _ => false

def OpsWithin (L : Nat) : Abs → List Op → Prop
  | _, [] => True
  | a, op :: ops => inWindow L a op = true ∧ OpsWithin L (absStep a op).2 ops

instance decOpsWithin (L : Nat) : (a : Abs) → (ops : List Op) → Decidable (OpsWithin L a ops)
  | _, [] => isTrue trivial
  | a, op :: ops => @instDecidableAnd _ _ _ (decOpsWithin L (absStep a op).2 ops)

theorem readAt_append (c t : List Byte) (p n : Nat) (h : p + n ≤ c.length) : readAt (c ++ t) p n = readAt c p n := by
  unfold readAt
  rw [List.drop_append_of_le_length (by omega), List.take_append_of_le_length (by simp; omega)]

/-- **embedded_window, upper edge**: a reader that stays inside the window cannot tell what follows it — its results
    are the same for every trailing content (and therefore, with `routes_equivalent`, the same as on the bare file) -/
theorem trailing_bytes_invisible (c t t' : List Byte) : ∀ (ops : List Op) (p : Nat),
    OpsWithin c.length ⟨c ++ t, p⟩ ops →
    (absRun ⟨c ++ t, p⟩ ops).1 = (absRun ⟨c ++ t', p⟩ ops).1 ∧ OpsWithin c.length ⟨c ++ t', p⟩ ops
  | [], _, _ => ⟨rfl, trivial⟩
  | op :: ops, p, ⟨hin, hrest⟩ => by
    cases op with
    | seek off wh =>
      simp only [inWindow, decide_eq_true_eq] at hin
      have hwh : ¬ 2 < wh := by omega
      have hb : whBase wh p (c ++ t).length = whBase wh p (c ++ t').length := by
        unfold whBase; split; · rfl
        split; · rfl
        omega
      simp only [absRun, absStep, hwh, if_false, hb] at hrest ⊢
      by_cases hneg : whBase wh p (c ++ t').length + off < 0
      · simp only [hneg, if_true] at hrest ⊢
        obtain ⟨i1, i2⟩ := trailing_bytes_invisible c t t' ops p hrest
        refine ⟨by rw [i1], by simp [inWindow]; omega, ?_⟩
        simp only [absStep, hwh, if_false, hneg, if_true]; exact i2
      · simp only [hneg, if_false] at hrest ⊢
        obtain ⟨i1, i2⟩ := trailing_bytes_invisible c t t' ops _ hrest
        refine ⟨by rw [i1], by simp [inWindow]; omega, ?_⟩
        simp only [absStep, hwh, if_false, hneg]; exact i2
    | read b i =>
      simp only [inWindow, decide_eq_true_eq] at hin
      have hr : readAt (c ++ t) p (b * i).toNat = readAt c p (b * i).toNat := readAt_append _ _ _ _ hin
      have hr' : readAt (c ++ t') p (b * i).toNat = readAt c p (b * i).toNat := readAt_append _ _ _ _ hin
      simp only [absRun, absStep, hr, hr'] at hrest ⊢
      by_cases hz : b = 0 ∨ i = 0
      · simp only [hz, if_true] at hrest ⊢
        obtain ⟨i1, i2⟩ := trailing_bytes_invisible c t t' ops p hrest
        exact ⟨by rw [i1], by simp [OpsWithin, inWindow, absStep, hz]; exact ⟨hin, i2⟩⟩
      · simp only [hz, if_false] at hrest ⊢
        by_cases hneg : b * i ≤ 0
        · simp only [hneg, if_true] at hrest ⊢
          obtain ⟨i1, i2⟩ := trailing_bytes_invisible c t t' ops p hrest
          exact ⟨by rw [i1], by simp [OpsWithin, inWindow, absStep, hz, hneg]; exact ⟨hin, i2⟩⟩
        · simp only [hneg, if_false] at hrest ⊢
          obtain ⟨i1, i2⟩ := trailing_bytes_invisible c t t' ops _ hrest
          exact ⟨by rw [i1], by simp [OpsWithin, inWindow, absStep, hz, hneg, hr']; exact ⟨hin, i2⟩⟩
    | tell =>
      simp only [absRun, absStep] at hrest ⊢
      obtain ⟨i1, i2⟩ := trailing_bytes_invisible c t t' ops p hrest
      exact ⟨by rw [i1], by simp [OpsWithin, inWindow, absStep]; exact i2⟩
    | write b i d => simp [inWindow] at hin
    | filelen => simp [inWindow] at hin
    | truncate n => simp [inWindow] at hin

/-- SEEK_END is outside that set for a reason: psf_fseek hands it to lseek unchanged, so on an embedded file it is
    relative to the real end of the enclosing file — trailing bytes are counted -/
theorem seek_end_sees_trailing_bytes :
    (step (shFd .r 2) (wOpen [9, 9, 1, 2, 3, 8, 8, 8] 2) (.seek 0 2)).ret = 6 ∧
    (step (shFd .r 0) (wOpen [1, 2, 3] 0) (.seek 0 2)).ret = 3 := by decide

/-! ## close_desc_iff -/

/-- **close_desc_iff**: after psf_fclose a descriptor `d` is open exactly when it was open before and it is not the
    handle's own descriptor being closed — which happens iff the route is a descriptor route and
    do_not_close_descriptor = 0.  No other descriptor is ever touched, and nothing else in the world changes. -/
theorem close_desc_iff (sh : Shim) (w : World) (d : Nat) (hnd : w.openFds.Nodup) :
    d ∈ (fclose sh w).w.openFds ↔
      d ∈ w.openFds ∧ ¬ (sh.virtualIo = false ∧ sh.doNotClose = false ∧ sh.filedes = (d : Int)) := by
  unfold fclose
  cases hv : sh.virtualIo <;> cases hd : sh.doNotClose <;> simp
  by_cases hneg : sh.filedes < 0
  · simp [hneg]; intro _; omega
  · simp only [hneg, if_false, osClose]
    by_cases hc : w.openFds.contains sh.filedes.toNat
    · simp only [hc, if_true]
      rw [hnd.mem_erase_iff]
      constructor
      · rintro ⟨h1, h2⟩; exact ⟨h2, by omega⟩
      · rintro ⟨h1, h2⟩; exact ⟨by omega, h1⟩
    · simp only [hc]
      simp only [List.contains_iff_mem, Bool.not_eq_true] at hc
      simp
      intro hm he
      have : sh.filedes.toNat = d := by omega
      simp [this, hm] at hc

theorem fclose_world (sh : Shim) (w : World) : (fclose sh w).w = { w with openFds := (fclose sh w).w.openFds } := by
  unfold fclose osClose
  split; · rfl
  split; · rfl
  split; · rfl
  split <;> rfl

theorem logSyserr_dnc (s : Shim) : (logSyserr s).doNotClose = s.doNotClose := by unfold logSyserr; split <;> rfl

theorem ftell_dnc (sh : Shim) (w : World) : (ftell sh w).sh.doNotClose = sh.doNotClose := by
  unfold ftell; split; · rfl
  split; · rfl
  dsimp only; split
  · exact logSyserr_dnc _
  · rfl

theorem fseek_dnc (sh : Shim) (w : World) (o : Int) (wh : Nat) : (fseek sh w o wh).sh.doNotClose = sh.doNotClose := by
  unfold fseek; split; · rfl
  split; · rfl
  split; · rfl
  dsimp only; split <;> (split; · exact logSyserr_dnc _
                         · rfl)

theorem openFileLen_dnc (sh : Shim) (w : World) : (openFileLen sh w).doNotClose = sh.doNotClose := by
  unfold openFileLen; split <;> rfl

/-- psf_open_file's route-related head never changes the ownership flag -/
theorem openFileEmbed_dnc (sh : Shim) (w : World) (hok : (openFileEmbed sh w).err = .none) :
    (openFileEmbed sh w).sh.doNotClose = sh.doNotClose := by
  unfold openFileEmbed at hok ⊢
  by_cases hpos : sh.fileoffset > 0
  · simp only [hpos, if_true] at hok ⊢
    cases hm : sh.mode with
    | r =>
      simp only [hm] at hok ⊢
      by_cases h44 : sh.filelength < minEmbedded
      · simp [h44, failOpen] at hok
      · simp [h44]
    | w => simp only [ftell_dnc, fseek_dnc]
    | rw => simp [hm, failOpen] at hok
  · simp [hpos]

/-- sf_open_fd records ownership as given: do_not_close_descriptor = !close_desc -/
theorem open_fd_ownership (w : World) (fd : Int) (mode : Mode) (cd : Bool) (major : Nat) (hm : major ≠ SD2)
    (hok : (openFd w fd mode cd major).err = .none) : (openFd w fd mode cd major).sh.doNotClose = !cd := by
  unfold openFd at hok ⊢
  simp only [hm, if_false] at hok ⊢
  unfold openFileHead at hok ⊢
  rw [openFileEmbed_dnc _ _ hok, openFileLen_dnc]
  simp [ftell_dnc]

/-! ## the open gate -/

/-- sf_open_fd refuses SD2 before anything else and closes the descriptor iff close_desc -/
theorem sd2_fd_refused (w : World) (fd : Nat) (mode : Mode) (cd : Bool) (hnd : w.openFds.Nodup) (ho : fd ∈ w.openFds) :
    (openFd w fd mode cd SD2).err = .sd2Fd ∧ (fd ∈ (openFd w fd mode cd SD2).w.openFds ↔ cd = false) := by
  cases cd
  · simp [openFd, ho]
  · simp [openFd, osClose, ho, hnd.mem_erase_iff]

/-- an embedded file (fileoffset > 0) cannot be opened read/write: SFE_NO_EMBEDDED_RDWR, whatever the container -/
theorem embedded_rdwr_refused (sh : Shim) (w : World) (hk : sh.fileoffset > 0) (hm : sh.mode = .rw) :
    (openFileEmbed sh w).err = .noEmbeddedRdwr := by
  simp [openFileEmbed, hk, hm, failOpen]

/-- an embedded read is refused when the part behind the offset is shorter than the smallest header that can be embedded
    (AU, 24 bytes) — "supplied offset beyond end of file" -/
theorem embedded_short_descriptor_refused (sh : Shim) (w : World) (hk : sh.fileoffset > 0) (hm : sh.mode = .r)
    (hl : sh.filelength < 24) : (openFileEmbed sh w).err = .badOffset := by
  have : sh.filelength < minEmbedded := hl
  simp [openFileEmbed, hk, hm, this, failOpen]

/-- … and is let through from 24 bytes on (KF-C14-EMBED-MIN44, repaired by 0004-fix: the bound was 44, a WAV header, applied to
    the whole descriptor, so that AU files below it were refused) -/
theorem embedded_min_header_passes (sh : Shim) (w : World) (hk : sh.fileoffset > 0) (hm : sh.mode = .r)
    (hl : 24 ≤ sh.filelength) : (openFileEmbed sh w).err = .none := by
  have : ¬ sh.filelength < minEmbedded := by unfold minEmbedded; omega
  simp [openFileEmbed, hk, hm, this]

theorem min_embedded_old_rule : minEmbeddedOld = 44 ∧ minEmbedded = 24 := by decide

/-- the embedding whitelist: with fileoffset > 0 the open survives iff the container is WAV, WAVEX, AIFF, AU (MPEG, FLAC) -/
theorem embedded_whitelist (sh : Shim) (w : World) (major : Nat) (hk : sh.fileoffset > 0) :
    (openFileTail sh w major).err = .none ↔ major ∈ embedWhitelist := by
  unfold openFileTail
  by_cases h : embedWhitelist.contains major
  · simp [h, List.contains_iff_mem.mp h]
  · have : major ∉ embedWhitelist := fun hm => h (List.contains_iff_mem.mpr hm)
    simp [hk, h, this, failOpen]

/-- without an offset the whitelist plays no role -/
theorem plain_not_gated (sh : Shim) (w : World) (major : Nat) (hk : sh.fileoffset = 0) :
    (openFileTail sh w major).err = .none := by
  simp [openFileTail, hk]

/-- a refused open runs psf_fclose: the descriptor is closed iff close_desc -/
theorem failed_open_closes_iff (e : Err) (sh : Shim) (w : World) (d : Nat) (hnd : w.openFds.Nodup) :
    d ∈ (failOpen e sh w).w.openFds ↔
      d ∈ w.openFds ∧ ¬ (sh.virtualIo = false ∧ sh.doNotClose = false ∧ sh.filedes = (d : Int)) :=
  close_desc_iff sh w d hnd

/-! ## pipes -/

/-- a non-seekable descriptor presents the logical stream `a`: everything consumed so far is counted in pipeoffset -/
def RelPipe (sh : Shim) (w : World) (a : Abs) : Prop :=
  sh.virtualIo = false ∧ sh.isPipe = true ∧ w.valid sh.filedes = true ∧ w.file = a.content ∧ w.off = a.pos ∧
  sh.pipeoffset = (a.pos : Int)

/-- what a sequential reader issues: reads, tell, and the "seek to where we already are" psf_fseek lets through -/
def pipeOk (a : Abs) : Op → Bool
  | .read _ _ => true
  | .tell => true
  | .seek off wh => decide (wh = 0) && decide (off = (a.pos : Int))
  | _ => false

def OpsPipe : Abs → List Op → Prop
  | _, [] => True
  | a, op :: ops => pipeOk a op = true ∧ OpsPipe (absStep a op).2 ops

instance decOpsPipe : (a : Abs) → (ops : List Op) → Decidable (OpsPipe a ops)
  | _, [] => isTrue trivial
  | a, op :: ops => @instDecidableAnd _ _ _ (decOpsPipe (absStep a op).2 ops)

theorem pipe_step {sh : Shim} {w : World} {a : Abs} (op : Op) (h : RelPipe sh w a) (hok : pipeOk a op = true) :
    ((step sh w op).ret, (step sh w op).data) = (absStep a op).1 ∧
    RelPipe (step sh w op).sh (step sh w op).w (absStep a op).2 := by
  obtain ⟨hv, hp, hval, hc, hoff, hpo⟩ := h
  cases op with
  | seek off wh =>
    simp only [pipeOk, Bool.and_eq_true, decide_eq_true_eq] at hok
    obtain ⟨h0, h1⟩ := hok
    subst h0
    have h2 : ¬ ((0 : Int) + off < 0) := by omega
    simp only [step, fseek, hv, hp, Bool.false_eq_true, if_false, if_true, absStep, whBase, h2]
    have h3 : ¬ (2 < 0) := by omega
    simp only [h3, if_false, Int.zero_add]
    refine ⟨by trivial, hv, hp, hval, hc, ?_, ?_⟩ <;> simp [h1, hoff, hpo]
  | read b i =>
    simp only [step, fread, absStep]
    by_cases hz : b = 0 ∨ i = 0
    · simp only [hz, if_true]; exact ⟨by trivial, hv, hp, hval, hc, hoff, hpo⟩
    · simp only [hz, if_false, hv, Bool.false_eq_true, Int.mul_comm i b]
      by_cases hneg : b * i ≤ 0
      · simp only [hneg, if_true]; exact ⟨by trivial, hv, hp, hval, hc, hoff, hpo⟩
      · simp only [hneg, if_false, osRead, hval, Bool.not_true, hp, Bool.false_eq_true, if_true, hc, hoff]
        refine ⟨by trivial, by simpa using hv, by simp, by simpa [World.valid] using hval, by simp, by simp, by simp [hpo]⟩
  | tell =>
    simp only [step, ftell, hv, hp, Bool.false_eq_true, if_false, if_true, absStep]
    exact ⟨by simp [hpo], hv, hp, hval, hc, hoff, hpo⟩
  | write b i d => simp [pipeOk] at hok
  | filelen => simp [pipeOk] at hok
  | truncate n => simp [pipeOk] at hok

/-- **pipe_equivalent**: a sequential reader gets from a pipe exactly what it gets from the logical file -/
theorem pipe_equivalent : ∀ (ops : List Op) (sh : Shim) (w : World) (a : Abs),
    RelPipe sh w a → OpsPipe a ops → (run sh w ops).1 = (absRun a ops).1
  | [], _, _, _, _, _ => rfl
  | op :: ops, sh, w, a, h, ⟨hok, hrest⟩ => by
    obtain ⟨h1, h2⟩ := pipe_step op h hok
    have ih := pipe_equivalent ops _ _ _ h2 hrest
    simp only [run, absRun]
    rw [ih, ← h1]

/-- on a pipe every seek "succeeds" and does nothing -/
theorem pipe_seek_is_noop (sh : Shim) (w : World) (off : Int) (wh : Nat) (hv : sh.virtualIo = false) (hp : sh.isPipe = true) :
    (fseek sh w off wh).ret = off ∧ (fseek sh w off wh).w = w ∧ (fseek sh w off wh).sh = sh := by
  simp [fseek, hv, hp]

/-! ## non-vacuity -/

def demoFile : List Byte := [9, 8, 7, 1, 2, 3, 4, 5, 6]      -- three leading bytes, then the sound file [1..6]
def demoOps : List Op := [.read 2 1, .tell, .seek 1 0, .read 1 3, .seek (-2) 1, .write 1 2 [50, 51], .seek 0 2, .tell, .filelen]

-- the relation holds for the four routes over the same logical file [1..6] …
example : Rel (shFd .w 3) (wOpen demoFile 3) ⟨[1, 2, 3, 4, 5, 6], 0⟩ := by
  rw [Rel_fd rfl]; exact ⟨rfl, rfl, by decide, 3, rfl, by decide, by decide, by decide, by decide⟩
example : Rel (shFd .w 0) (wOpen [1, 2, 3, 4, 5, 6] 0) ⟨[1, 2, 3, 4, 5, 6], 0⟩ := by
  rw [Rel_fd rfl]; exact ⟨rfl, rfl, by decide, 0, rfl, by decide, by decide, by decide, by decide⟩
example : Rel (openVio .w) { mem := [1, 2, 3, 4, 5, 6] } ⟨[1, 2, 3, 4, 5, 6], 0⟩ := rel_vio _ _
-- … the demo sequence is covered on each of them, and the results are what the theorem says
example : OpsOk (shFd .w 3) ⟨[1, 2, 3, 4, 5, 6], 0⟩ demoOps := by decide
example : OpsOk (openVio .w) ⟨[1, 2, 3, 4, 5, 6], 0⟩ demoOps := by decide
example : (run (shFd .w 3) (wOpen demoFile 3) demoOps).1 = (run (openVio .w) { mem := [1, 2, 3, 4, 5, 6] } demoOps).1 := by decide
example : (run (shFd .w 3) (wOpen demoFile 3) demoOps).1 =
    [(1, [1, 2]), (2, []), (1, []), (3, [2, 3, 4]), (2, []), (2, []), (6, []), (6, []), (6, [])] := by decide
example : (run (shFd .w 3) (wOpen demoFile 3) demoOps).2.2.file = [9, 8, 7, 1, 2, 50, 51, 5, 6] := by decide
example : logical (run (openVio .w) { mem := [1, 2, 3, 4, 5, 6] } demoOps).2.1 (run (openVio .w) { mem := [1, 2, 3, 4, 5, 6] } demoOps).2.2
    = [1, 2, 50, 51, 5, 6] := by decide
-- window: a reader confined to [0, 4) of [1,2,3,4] ++ trail
example : OpsWithin 4 ⟨[1, 2, 3, 4] ++ [8, 8], 0⟩ [.read 1 2, .seek 1 1, .read 1 1, .tell] := by decide
-- ownership
example : 3 ∈ (fclose { filedes := 3, doNotClose := true } (wOpen [] 0)).w.openFds := by decide
example : 3 ∉ (fclose { filedes := 3, doNotClose := false } (wOpen [] 0)).w.openFds := by decide
example : 7 ∈ (fclose { filedes := 3, doNotClose := false } (wOpen [] 0)).w.openFds := by decide
example : (openFd (wOpen demoFile 3) 3 .r false 0x01).err = .badOffset := by decide      -- 6 bytes behind the offset < 24
example : (openFd (wOpen (List.replicate 50 0) 3) 3 .r false 0x01).err = .none ∧
          (openFd (wOpen (List.replicate 50 0) 3) 3 .r false 0x01).sh.fileoffset = 3 ∧
          (openFd (wOpen (List.replicate 50 0) 3) 3 .r false 0x01).sh.filelength = 47 := by decide
example : (openFd (wOpen demoFile 3) 3 .w true 0x01).sh.fileoffset = 9 := by decide        -- write: appended at the end
example : (openFd (wOpen demoFile 3) 3 .rw true 0x01).err = .noEmbeddedRdwr ∧
          3 ∉ (openFd (wOpen demoFile 3) 3 .rw true 0x01).w.openFds := by decide
example : (openFileTail (shFd .r 3) (wOpen demoFile 3) 0x05).err = .noEmbedSupport := by decide   -- PAF
-- pipe
example : RelPipe { filedes := 3, isPipe := true } { (wOpen [1, 2, 3] 0) with isPipe := true } ⟨[1, 2, 3], 0⟩ := by
  exact ⟨rfl, rfl, by decide, rfl, rfl, rfl⟩
example : OpsPipe ⟨[1, 2, 3], 0⟩ [.read 1 2, .tell, .seek 2 0, .read 1 5] := by decide
example : (run { filedes := 3, isPipe := true } { (wOpen [1, 2, 3] 0) with isPipe := true } [.read 1 2, .tell, .seek 2 0, .read 1 5]).1
    = [(2, [1, 2]), (2, []), (2, []), (1, [3])] := by decide

end Sf.C14
