/-
  C02 (cross-type part) — the cross-type agreement contract `Sf.CrossType` (lean/SfModel/CrossType.lean), which `sfmodel crosstype`
  evaluates on the implementation's files and transcripts, holds of every codec MODEL, for all samples:

  (R) `pcm_read_agree`: any PCM layout, normalisation on or off; the block / stream codecs present their decoded sample exactly as
      the PCM layout of their width does (`*_view` lemmas), hence `cross_type_read_agree_<codec>`; G.711 by its tables' range.
  (W) `cross_type_write_agree_<codec>`: the int x and the short `narrowOf x` become the same codec sample (narrowing), the short s
      and the int `widenOf s` likewise (widening); G.711 by sign and magnitude, with the rule before the repair of
      KF-G711-INTMIN-SIGN as `g711_int_min_sign_old_rule`.
  (S) meaning of an accepted plan, and the type-independence of the XI DPCM reader state.
  Property theorems only.
-/
import SfModel.CrossType
import SfModel.G72xFile
import SfModel.NmsFile
import SfModel.GsmFile
import SfModel.BlockFile
import SfModel.DwvwFile
import SfProps.C02Float
import SfProps.C06G72x
namespace Sf.C02Cross
open Sf Sf.Float Sf.Block Sf.CrossType Sf.C02

/-! ## the codec descriptors the campaign uses (vlib/crosstype.py `CODEC`) -/

def cdPcm (p : PcmFmt) : Codec := { kind := .int, w := p.w, fw := p.w, noff := 32 - p.w, scale := 2 ^ (p.w - 1) - 1 }
def cd16 : Codec := {}                                                   -- IMA, MS, GSM, VOX, DPCM_16 (scale 0x7FFF)
def cd16p : Codec := { scale := 0x8000 }                                 -- G.72x, NMS
def cd8 : Codec := { w := 8, fw := 8, noff := 24, scale := 0x7F }        -- DPCM_8
def cdWide (w : Nat) : Codec := { w := w, fw := 32, noff := 0, scale := 0x7FFFFFFF }   -- DWVW
def cdPaf24 : Codec := { w := 24, fw := 32, noff := 8, scale := 0x7FFFFFFF, woff := 8 }
def cdG711 : Codec := { kind := .g711 }

def pcm8 : PcmFmt := ⟨8, false, false⟩
def pcm16 : PcmFmt := ⟨16, false, false⟩
def pcm24 : PcmFmt := ⟨24, false, false⟩
def pcm32 : PcmFmt := ⟨32, false, false⟩

/-- one stored PCM code through the four API types (the `Enc.decode` arms of SfModel/Pcm.lean) -/
def pcmView (p : PcmFmt) (cv : Conv) (ty : Ty) (c : Int) : Int :=
  match ty with
  | .s16 => p.toS16 c
  | .s32 => p.toS32 c
  | .f32 => p.toFloat f32 cv.normF c
  | .f64 => p.toFloat f64 cv.normD c

/-! ## (R) read side -/

/-- norm-off float read of a PCM code: `c` as it is = the int read / 2^(32−w), rounded once -/
theorem toFloat_raw_pattern (p : PcmFmt) (hp : PcmFmt.valid p) (f : Fmt) (hf : f.Std) (c : Int) (hc : inRange p.w c) :
    p.toFloat f false c = fltOfInt f (p.toS32 c) (32 - p.w) := by
  obtain ⟨r1, r2, r3, r4⟩ := std_ranges f hf
  have hpow : 2 ^ 24 ≤ 2 ^ (f.mbits + 1) := Nat.pow_le_pow_right (by omega) (by omega)
  rw [int_msb_rule_read_s32 p hp c hc]
  unfold fltOfInt inRange at *
  rcases hp.1 with h | h | h | h
  · rw [toFloat_eq]
    simp only [h, Nat.reduceEqDiff, if_false, Bool.false_eq_true] at hc ⊢
    rw [int_scale_pattern f hf c c.natAbs 0 _ (by simp) (by omega) (by omega)]
    apply ofDy_congr
    · simp only [decide_eq_decide]; omega
    · unfold Dy.mag; simp only
      rw [Int.natAbs_mul]; push_cast
      norm_num; ring
  · rw [toFloat_eq]
    simp only [h, Nat.reduceEqDiff, if_false, Bool.false_eq_true] at hc ⊢
    rw [int_scale_pattern f hf c c.natAbs 0 _ (by simp) (by omega) (by omega)]
    apply ofDy_congr
    · simp only [decide_eq_decide]; omega
    · unfold Dy.mag; simp only
      rw [Int.natAbs_mul]; push_cast
      norm_num; ring
  · rw [toFloat_eq]
    simp only [h, if_true, Bool.false_eq_true, if_false] at hc ⊢
    rw [int_scale_pattern f hf (c * 256) c.natAbs 8 _ (by rw [Int.natAbs_mul]; rfl) (by omega) (by omega)]
    norm_num
  · rcases hf with rfl | rfl
    · rw [toFloat_f32_w32_raw p h c (by simpa [h] using hc), h]
      simp [Fmt.ofInt, Dy.ofInt]
    · rw [toFloat_eq]
      simp only [h, Nat.reduceEqDiff, if_false, Bool.false_eq_true] at hc ⊢
      rw [int_scale_pattern f64 (Or.inr rfl) c c.natAbs 0 _ (by simp) (by simp [f64]; omega) (by omega)]
      norm_num

/-- norm-on float read of a PCM code = the int read / 2^31, rounded once (both formats) -/
theorem toFloat_norm_int (p : PcmFmt) (hp : PcmFmt.valid p) (f : Fmt) (hf : f.Std) (c : Int) (hc : inRange p.w c) :
    p.toFloat f true c = fltOfInt f (p.toS32 c) 31 := by
  rw [float_read_single_rounding p hp f hf c hc, int_msb_rule_read_s32 p hp c hc]
  unfold fltOfInt
  apply ofDy_congr
  · rcases hp.1 with h | h | h | h <;> simp only [h, decide_eq_decide] <;> omega
  · unfold Dy.mag; simp only
    rw [Int.natAbs_mul, Int.natAbs_pow]; push_cast
    rw [mul_assoc, ← zpow_natCast, ← zpow2_add]
    congr 2
    rcases hp.1 with h | h | h | h <;> simp [h]

/-- **(R) for every PCM layout**: "Reading the same stored sample through different API types gives results that agree under these
    rules" — the checker `readAgree` accepts the four reads of ANY in-range code, normalisation on or off (independently for float and
    double), every width, both byte orders, signed and unsigned -/
theorem pcm_read_agree (p : PcmFmt) (hp : PcmFmt.valid p) (cv : Conv) (c : Int) (hc : inRange p.w c) :
    readAgree (cdPcm p) cv (pcmView p cv .s16 c) (pcmView p cv .s32 c) (pcmView p cv .f32 c) (pcmView p cv .f64 c) = true := by
  have h16 := cross_type_agree_int p hp c hc
  have hn32 := toFloat_norm_int p hp f32 (Or.inl rfl) c hc
  have hn64 := toFloat_norm_int p hp f64 (Or.inr rfl) c hc
  have hr32 := toFloat_raw_pattern p hp f32 (Or.inl rfl) c hc
  have hr64 := toFloat_raw_pattern p hp f64 (Or.inr rfl) c hc
  unfold readAgree cdPcm pcmView
  simp only [h16, beq_self_eq_true, Bool.true_and, Bool.and_eq_true, beq_iff_eq]
  constructor
  · cases cv.normF <;> simp [hn32, hr32]
  · cases cv.normD <;> simp [hn64, hr64]

example : PcmFmt.valid ⟨24, false, true⟩ ∧ inRange 24 (-8388607) ∧
    readAgree (cdPcm ⟨24, false, true⟩) { normF := false } (-32768) (-2147483392) 0xCAFFFFFE 0xBFEFFFFFC0000000 = true :=
  ⟨by unfold PcmFmt.valid; decide, by unfold inRange; decide, by decide⟩

/-! ### the block / stream codecs present their decoded sample as the PCM layout of their width does -/

theorem wrapS32_shl16 (v : Int) (hv : inRange 16 v) : wrapS 32 (v * 65536) = v * 65536 := by
  unfold wrapS inRange at *; simp at *; omega

/-- VOX / GSM / IMA / MS (all use the expressions of vox_adpcm.c) -/
theorem oki_view (cv : Conv) (ty : Ty) (v : Int) (hv : inRange 16 v) : Oki.toCaller cv ty v = pcmView pcm16 cv ty v := by
  cases ty
  · simp [Oki.toCaller, pcmView, pcm16, PcmFmt.toS16, asr]
  · simp only [Oki.toCaller, pcmView, pcm16, PcmFmt.toS32]; rw [show (2 : Int) ^ (32 - 16) = 65536 by norm_num, wrapS32_shl16 v hv]
  · cases h : cv.normF <;> simp [Oki.toCaller, pcmView, pcm16, PcmFmt.toFloat, intTimes, pow2, h]
  · cases h : cv.normD <;> simp [Oki.toCaller, pcmView, pcm16, PcmFmt.toFloat, intTimes, pow2, h]

theorem gsm_view (cv : Conv) (ty : Ty) (v : Int) (hv : inRange 16 v) : Gsm.toCaller cv ty v = pcmView pcm16 cv ty v :=
  oki_view cv ty v hv

theorem nms_view (cv : Conv) (ty : Ty) (v : Int) (hv : inRange 16 v) : Nms.toCaller cv ty v = pcmView pcm16 cv ty v := by
  cases ty
  · simp [Nms.toCaller, pcmView, pcm16, PcmFmt.toS16, asr]
  · simp only [Nms.toCaller, pcmView, pcm16, PcmFmt.toS32]; rw [show (2 : Int) ^ (32 - 16) = 65536 by norm_num, wrapS32_shl16 v hv]
  · cases h : cv.normF <;> simp [Nms.toCaller, pcmView, pcm16, PcmFmt.toFloat, intTimes, pow2, h]
  · cases h : cv.normD <;> simp [Nms.toCaller, pcmView, pcm16, PcmFmt.toFloat, intTimes, pow2, h]

theorem g72x_view (cv : Conv) (ty : Ty) (v : Int) (_hv : inRange 16 v) : G72x.toCaller cv ty v = pcmView pcm16 cv ty v := by
  cases ty
  · simp [G72x.toCaller, pcmView, pcm16, PcmFmt.toS16, asr]
  · simp only [G72x.toCaller, pcmView, pcm16, PcmFmt.toS32]; rw [show (2 : Int) ^ (32 - 16) = 65536 by norm_num]
  · cases h : cv.normF <;> simp [G72x.toCaller, pcmView, pcm16, PcmFmt.toFloat, intTimes, pow2, h]
  · cases h : cv.normD <;> simp [G72x.toCaller, pcmView, pcm16, PcmFmt.toFloat, intTimes, pow2, h]

theorem dpcm16_view (cv : Conv) (ty : Ty) (v : Int) (hv : inRange 16 v) : Dpcm.out16 cv ty v = pcmView pcm16 cv ty v := by
  cases ty
  · simp [Dpcm.out16, pcmView, pcm16, PcmFmt.toS16, asr]
  · simp only [Dpcm.out16, pcmView, pcm16, PcmFmt.toS32]; rw [show (2 : Int) ^ (32 - 16) = 65536 by norm_num, wrapS32_shl16 v hv]
  · cases h : cv.normF <;> simp [Dpcm.out16, pcmView, pcm16, PcmFmt.toFloat, intTimes, pow2, h]
  · cases h : cv.normD <;> simp [Dpcm.out16, pcmView, pcm16, PcmFmt.toFloat, intTimes, pow2, h]

theorem dpcm8_view (cv : Conv) (ty : Ty) (v : Int) (hv : inRange 8 v) : Dpcm.out8 cv ty v = pcmView pcm8 cv ty v := by
  unfold inRange at hv
  cases ty
  · simp only [Dpcm.out8, pcmView, pcm8, PcmFmt.toS16, if_true]; unfold wrapS; simp at *; omega
  · simp only [Dpcm.out8, pcmView, pcm8, PcmFmt.toS32]; unfold wrapS; simp at *; omega
  · cases h : cv.normF <;> simp [Dpcm.out8, pcmView, pcm8, PcmFmt.toFloat, intTimes, pow2, h]
  · cases h : cv.normD <;> simp [Dpcm.out8, pcmView, pcm8, PcmFmt.toFloat, intTimes, pow2, h]

/-- DWVW hands out left-justified 32-bit ints: the 32-bit PCM view of the cell -/
theorem dwvw_view (cv : Conv) (ty : Ty) (v : Int) (hv : inRange 32 v) : Dwvw.toCaller cv ty v = pcmView pcm32 cv ty v := by
  unfold inRange at hv
  cases ty
  · simp [Dwvw.toCaller, pcmView, pcm32, PcmFmt.toS16]
  · simp only [Dwvw.toCaller, pcmView, pcm32, PcmFmt.toS32]; unfold wrapS; simp at *; omega
  · cases h : cv.normF <;> simp [Dwvw.toCaller, pcmView, pcm32, PcmFmt.toFloat, intTimes, pow2, h]
  · cases h : cv.normD <;> simp [Dwvw.toCaller, pcmView, pcm32, PcmFmt.toFloat, intTimes, pow2, h]

/-- PAF 24-bit hands out the 24-bit code in the top of an int (`c · 256`): the 24-bit PCM view of the code -/
theorem paf24_view (cv : Conv) (ty : Ty) (c : Int) (hc : inRange 24 c) : Paf24.toCaller cv ty (c * 256) = pcmView pcm24 cv ty c := by
  unfold inRange at hc
  cases ty
  · simp only [Paf24.toCaller, pcmView, pcm24, PcmFmt.toS16]; unfold asr; simp; omega
  · simp only [Paf24.toCaller, pcmView, pcm24, PcmFmt.toS32]; unfold wrapS; simp at *; omega
  · cases h : cv.normF <;> simp [Paf24.toCaller, pcmView, pcm24, PcmFmt.toFloat, intTimes, pow2, h]
  · cases h : cv.normD <;> simp [Paf24.toCaller, pcmView, pcm24, PcmFmt.toFloat, intTimes, pow2, h]

theorem pcm16_valid : PcmFmt.valid pcm16 := by unfold PcmFmt.valid pcm16; decide
theorem pcm8_valid : PcmFmt.valid pcm8 := by unfold PcmFmt.valid pcm8; decide
theorem pcm24_valid : PcmFmt.valid pcm24 := by unfold PcmFmt.valid pcm24; decide
theorem pcm32_valid : PcmFmt.valid pcm32 := by unfold PcmFmt.valid pcm32; decide

/-- the descriptor only matters through `kind` and `noff` on the read side -/
theorem readAgree_congr (a b : Codec) (hk : a.kind = b.kind) (hn : a.noff = b.noff) (cv : Conv) (s16 s32 f32 f64 : Int) :
    readAgree a cv s16 s32 f32 f64 = readAgree b cv s16 s32 f32 f64 := by
  unfold readAgree; rw [hk, hn]

/-- **(R)** VOX, and with the same expressions GSM 06.10, IMA and MS ADPCM: every decoded short, all four API types, norm on/off -/
theorem cross_type_read_agree_vox (cv : Conv) (v : Int) (hv : inRange 16 v) :
    readAgree cd16 cv (Oki.toCaller cv .s16 v) (Oki.toCaller cv .s32 v) (Oki.toCaller cv .f32 v) (Oki.toCaller cv .f64 v) = true := by
  simp only [oki_view cv _ v hv]
  rw [readAgree_congr cd16 (cdPcm pcm16) rfl rfl]
  exact pcm_read_agree pcm16 pcm16_valid cv v hv

theorem cross_type_read_agree_gsm (cv : Conv) (v : Int) (hv : inRange 16 v) :
    readAgree cd16 cv (Gsm.toCaller cv .s16 v) (Gsm.toCaller cv .s32 v) (Gsm.toCaller cv .f32 v) (Gsm.toCaller cv .f64 v) = true :=
  cross_type_read_agree_vox cv v hv

theorem cross_type_read_agree_nms (cv : Conv) (v : Int) (hv : inRange 16 v) :
    readAgree cd16p cv (Nms.toCaller cv .s16 v) (Nms.toCaller cv .s32 v) (Nms.toCaller cv .f32 v) (Nms.toCaller cv .f64 v) = true := by
  simp only [nms_view cv _ v hv]
  rw [readAgree_congr cd16p (cdPcm pcm16) rfl rfl]
  exact pcm_read_agree pcm16 pcm16_valid cv v hv

theorem cross_type_read_agree_g72x (cv : Conv) (v : Int) (hv : inRange 16 v) :
    readAgree cd16p cv (G72x.toCaller cv .s16 v) (G72x.toCaller cv .s32 v) (G72x.toCaller cv .f32 v) (G72x.toCaller cv .f64 v) = true := by
  simp only [g72x_view cv _ v hv]
  rw [readAgree_congr cd16p (cdPcm pcm16) rfl rfl]
  exact pcm_read_agree pcm16 pcm16_valid cv v hv

theorem cross_type_read_agree_dpcm16 (cv : Conv) (v : Int) (hv : inRange 16 v) :
    readAgree cd16 cv (Dpcm.out16 cv .s16 v) (Dpcm.out16 cv .s32 v) (Dpcm.out16 cv .f32 v) (Dpcm.out16 cv .f64 v) = true := by
  simp only [dpcm16_view cv _ v hv]
  rw [readAgree_congr cd16 (cdPcm pcm16) rfl rfl]
  exact pcm_read_agree pcm16 pcm16_valid cv v hv

theorem cross_type_read_agree_dpcm8 (cv : Conv) (v : Int) (hv : inRange 8 v) :
    readAgree cd8 cv (Dpcm.out8 cv .s16 v) (Dpcm.out8 cv .s32 v) (Dpcm.out8 cv .f32 v) (Dpcm.out8 cv .f64 v) = true := by
  simp only [dpcm8_view cv _ v hv]
  rw [readAgree_congr cd8 (cdPcm pcm8) rfl rfl]
  exact pcm_read_agree pcm8 pcm8_valid cv v hv

theorem cross_type_read_agree_dwvw (w : Nat) (cv : Conv) (v : Int) (hv : inRange 32 v) :
    readAgree (cdWide w) cv (Dwvw.toCaller cv .s16 v) (Dwvw.toCaller cv .s32 v) (Dwvw.toCaller cv .f32 v) (Dwvw.toCaller cv .f64 v) = true := by
  simp only [dwvw_view cv _ v hv]
  rw [readAgree_congr (cdWide w) (cdPcm pcm32) rfl rfl]
  exact pcm_read_agree pcm32 pcm32_valid cv v hv

theorem cross_type_read_agree_paf24 (cv : Conv) (c : Int) (hc : inRange 24 c) :
    readAgree cdPaf24 cv (Paf24.toCaller cv .s16 (c * 256)) (Paf24.toCaller cv .s32 (c * 256)) (Paf24.toCaller cv .f32 (c * 256))
      (Paf24.toCaller cv .f64 (c * 256)) = true := by
  simp only [paf24_view cv _ c hc]
  rw [readAgree_congr cdPaf24 (cdPcm pcm24) rfl rfl]
  exact pcm_read_agree pcm24 pcm24_valid cv c hc

/-- SDS hands out 32-bit ints too; with normalisation on its four reads are the 32-bit PCM view (off: `1 / 2^bitwidth`, the
    campaign's `noff`, checked by the run only) -/
theorem cross_type_read_agree_sds (bw : Nat) (cv : Conv) (hF : cv.normF = true) (hD : cv.normD = true) (v : Int) (hv : inRange 32 v) :
    readAgree { w := 28, fw := 32, noff := bw, scale := 0x80000000, trunc := true } cv
      (Sds.toCaller bw cv .s16 v) (Sds.toCaller bw cv .s32 v) (Sds.toCaller bw cv .f32 v) (Sds.toCaller bw cv .f64 v) = true := by
  have h := pcm_read_agree pcm32 pcm32_valid cv v hv
  unfold readAgree cdPcm pcmView at h
  unfold readAgree
  simp only [hF, hD, if_true] at h ⊢
  have e16 : Sds.toCaller bw cv .s16 v = pcm32.toS16 v := by simp [Sds.toCaller, pcm32, PcmFmt.toS16]
  have e32 : Sds.toCaller bw cv .s32 v = pcm32.toS32 v := by
    unfold inRange at hv; simp only [Sds.toCaller, pcm32, PcmFmt.toS32]; unfold wrapS; simp at *; omega
  have ef : Sds.toCaller bw cv .f32 v = pcm32.toFloat f32 true v := by simp [Sds.toCaller, pcm32, PcmFmt.toFloat, intTimes, pow2, hF]
  have ed : Sds.toCaller bw cv .f64 v = pcm32.toFloat f64 true v := by simp [Sds.toCaller, pcm32, PcmFmt.toFloat, intTimes, pow2, hD]
  rw [e16, e32, ef, ed]
  exact h

/-- G.711: the table value (a 16-bit number) as short, in the top of the int, and scaled by 1/2^15 (or not) as float / double -/
theorem cross_type_read_agree_g711 (l : G711.Law) (cv : Conv) (c : Nat) (hd : inRange 16 (l.dec c)) :
    readAgree cdG711 cv (l.decS16 c) (l.decS32 c) (l.decFloat f32 cv.normF c) (l.decFloat f64 cv.normD c) = true := by
  have h32 : l.decS32 c = l.dec c * 65536 := by unfold G711.Law.decS32; exact wrapS32_shl16 _ hd
  have key : ∀ (f : Fmt) (norm : Bool), (l.decFloat f norm c : Int) = (fltOfInt f (l.dec c * 65536) (if norm then 31 else 16) : Int) := by
    intro f norm
    unfold G711.Law.decFloat fltOfInt Dy.ofInt
    congr 1
    apply ofDy_congr
    · cases norm <;> simp only [decide_eq_decide] <;> simp <;> omega
    · cases norm <;> simp only [Dy.mag, Bool.false_eq_true, if_false, if_true] <;> rw [Int.natAbs_mul] <;> push_cast <;> norm_num
      · rw [mul_assoc]; norm_num
      · rw [mul_assoc]; norm_num
  unfold readAgree cdG711
  simp only [h32, key, G711.Law.decS16, Bool.and_eq_true, beq_iff_eq, and_true]
  unfold asr; omega

example : inRange 16 (G711.ulaw.dec 0) ∧ G711.ulaw.decS16 0 = -32124 ∧ G711.ulaw.decS32 0 = -2105278464 ∧
    G711.ulaw.decFloat f32 true 0 = 0xBF7AF800 := ⟨by unfold inRange; decide, by decide, by decide, by decide⟩

/-! ## (W) write side, per sample -/

theorem narrowOf_int (cd : Codec) (h : cd.kind = .int) (x : Int) : narrowOf cd x = asr x 16 := by
  unfold narrowOf; simp [h]

/-- **(W) narrowing**, G.72x: "narrowing truncates" — the int and its top 16 bits become the same codec sample, for every int -/
theorem cross_type_write_agree_g72x (cv : Conv) (x : Int) : G72x.toCodec cv .s32 x = G72x.toCodec cv .s16 (narrowOf cd16p x) := by
  rw [narrowOf_int _ rfl]; rfl

theorem cross_type_write_agree_nms (cv : Conv) (x : Int) : Nms.ofCaller cv .s32 x = Nms.ofCaller cv .s16 (narrowOf cd16p x) := by
  rw [narrowOf_int _ rfl]; rfl

/-- VOX, and with the same expressions GSM 06.10 (`Gsm.ofCaller` is `Oki.ofCaller`), IMA and MS ADPCM -/
theorem cross_type_write_agree_vox (cv : Conv) (x : Int) : Oki.ofCaller cv .s32 x = Oki.ofCaller cv .s16 (narrowOf cd16 x) := by
  rw [narrowOf_int _ rfl]; rfl

theorem cross_type_write_agree_gsm (cv : Conv) (x : Int) : Gsm.ofCaller cv .s32 x = Gsm.ofCaller cv .s16 (narrowOf cd16 x) :=
  cross_type_write_agree_vox cv x

theorem cross_type_write_agree_dpcm16 (cv : Conv) (x : Int) : Dpcm.cur16 cv .s32 x = Dpcm.cur16 cv .s16 (narrowOf cd16 x) := by
  rw [narrowOf_int _ rfl]; rfl

theorem cross_type_write_agree_dpcm8 (cv : Conv) (x : Int) : Dpcm.cur8 cv .s32 x = Dpcm.cur8 cv .s16 (narrowOf cd8 x) := by
  rw [narrowOf_int _ rfl]
  simp only [Dpcm.cur8, asr]
  congr 1
  omega

/-- 8- and 16-bit PCM, signed or not, either byte order -/
theorem cross_type_write_agree_pcm (p : PcmFmt) (hw : p.w = 8 ∨ p.w = 16) (x : Int) : p.ofS32 x = p.ofS16 (narrowOf (cdPcm p) x) := by
  rw [narrowOf_int _ rfl]
  unfold PcmFmt.ofS32 PcmFmt.ofS16 asr
  rcases hw with h | h <;> simp [h] <;> omega

/-- the stored code is then the same, hence the same bytes -/
theorem cross_type_write_agree_pcm_bytes (p : PcmFmt) (hw : p.w = 8 ∨ p.w = 16) (cv : Conv) (x : Int) :
    (Enc.pcm p).encode cv .s32 x = (Enc.pcm p).encode cv .s16 (narrowOf (cdPcm p) x) := by
  simp only [Enc.encode, cross_type_write_agree_pcm p hw x]

/-- **(W) widening**: "widening zero-pads" — the short and the short in the top of an int become the same sample -/
theorem cross_type_widen_agree_pcm (p : PcmFmt) (hp : PcmFmt.valid p) (s : Int) : p.ofS16 s = p.ofS32 (widenOf s) := by
  unfold PcmFmt.ofS32 PcmFmt.ofS16 widenOf asr
  rcases hp.1 with h | h | h | h <;> simp [h] <;> omega

theorem cross_type_widen_agree_16bit (cv : Conv) (s : Int) :
    G72x.toCodec cv .s16 s = G72x.toCodec cv .s32 (widenOf s) ∧ Nms.ofCaller cv .s16 s = Nms.ofCaller cv .s32 (widenOf s) ∧
    Oki.ofCaller cv .s16 s = Oki.ofCaller cv .s32 (widenOf s) ∧ Dpcm.cur16 cv .s16 s = Dpcm.cur16 cv .s32 (widenOf s) := by
  simp only [G72x.toCodec, Nms.ofCaller, Oki.ofCaller, Dpcm.cur16, widenOf, asr]
  omega

theorem cross_type_widen_agree_wide (bw : Nat) (cv : Conv) (s : Int) (hs : inRange 16 s) :
    Sds.ofCaller bw cv .s16 s = Sds.ofCaller bw cv .s32 (widenOf s) ∧ Paf24.ofCaller cv .s16 s = Paf24.ofCaller cv .s32 (widenOf s) ∧
    Dwvw.toCodec cv .s16 s = Dwvw.toCodec cv .s32 (widenOf s) := by
  refine ⟨rfl, rfl, ?_⟩
  simp only [Dwvw.toCodec, widenOf]
  exact wrapS32_shl16 s hs

example : Dwvw.toCodec {} .s16 (-32768) = -2147483648 ∧ widenOf (-32768) = -2147483648 := by decide


/-! ### (W) floats / doubles vs the int twin -/

/-- the product `normfact * x` rounded to the caller's type depends on the factor's value only -/
theorem mulNf_congr (f : Fmt) (a b : Dy) (hn : a.neg = b.neg) (hm : a.mag = b.mag) (x : Nat) : mulNf f a x = mulNf f b x := by
  unfold mulNf
  congr 1
  apply ofDy_congr
  · simp [Dy.mul, hn]
  · rw [Dy.mul_mag, Dy.mul_mag, hm]

/-- the rounded product placed in the top 16 bits of an int, narrowed again, is its low 16 bits -/
theorem top16_of_twin (r : Int) : asr (wrapS 32 (r * 2 ^ (32 - 16))) 16 = wrapS 16 r := by
  unfold asr wrapS
  simp only [show (2 : Int) ^ (32 - 16) = 65536 by norm_num, show (2 : Int) ^ 32 = 4294967296 by norm_num,
    show (2 : Int) ^ 16 = 65536 by norm_num]
  omega

theorem top8_of_twin (r : Int) : wrapS 8 (asr (wrapS 32 (r * 2 ^ (32 - 8))) 24) = wrapS 8 r := by
  unfold asr wrapS
  simp only [show (2 : Int) ^ (32 - 8) = 16777216 by norm_num, show (2 : Int) ^ 32 = 4294967296 by norm_num,
    show (2 : Int) ^ 24 = 16777216 by norm_num, show (2 : Int) ^ 8 = 256 by norm_num]
  omega

/-- the campaign's factors as the caller's type holds them: 0x8000, 0x7FFF and 0x7F are exact in both formats -/
theorem scale_consts :
    (f32.toDy (f32.ofInt 0x8000)).neg = false ∧ (f32.toDy (f32.ofInt 0x8000)).mag = 32768 ∧
    (f64.toDy (f64.ofInt 0x8000)).neg = false ∧ (f64.toDy (f64.ofInt 0x8000)).mag = 32768 ∧
    (f32.toDy (f32.ofInt 0x7FFF)).neg = false ∧ (f32.toDy (f32.ofInt 0x7FFF)).mag = 32767 ∧
    (f64.toDy (f64.ofInt 0x7FFF)).neg = false ∧ (f64.toDy (f64.ofInt 0x7FFF)).mag = 32767 ∧
    (f32.toDy (f32.ofInt 0x7F)).neg = false ∧ (f32.toDy (f32.ofInt 0x7F)).mag = 127 ∧
    (f64.toDy (f64.ofInt 0x7F)).neg = false ∧ (f64.toDy (f64.ofInt 0x7F)).mag = 127 := by
  have a1 : f32.toDy (f32.ofInt 0x8000) = ⟨false, 8388608, -8⟩ := by decide
  have a2 : f64.toDy (f64.ofInt 0x8000) = ⟨false, 4503599627370496, -37⟩ := by decide
  have a3 : f32.toDy (f32.ofInt 0x7FFF) = ⟨false, 16776704, -9⟩ := by decide
  have a4 : f64.toDy (f64.ofInt 0x7FFF) = ⟨false, 9006924376834048, -38⟩ := by decide
  have a5 : f32.toDy (f32.ofInt 0x7F) = ⟨false, 16646144, -17⟩ := by decide
  have a6 : f64.toDy (f64.ofInt 0x7F) = ⟨false, 8936830510563328, -46⟩ := by decide
  rw [a1, a2, a3, a4, a5, a6]
  unfold Dy.mag
  norm_num

/-- **(W) float / double writes**, G.72x (factor 0x8000, no clipping): the float x and the int `floatTwin x` become the same codec
    sample — for EVERY bit pattern, normalisation on or off, both build variants -/
theorem cross_type_write_float_g72x (cv : Conv) (x : Nat) :
    G72x.toCodec cv .f32 x = G72x.toCodec cv .s32 (floatTwin cd16p cv .f32 x) ∧
    G72x.toCodec cv .f64 x = G72x.toCodec cv .s32 (floatTwin cd16p cv .f64 x) := by
  obtain ⟨n1, m1, n2, m2, -⟩ := scale_consts
  constructor
  · simp only [G72x.toCodec, floatTwin, cd16p, fmtOf, Conv.norm, G72x.s16, Bool.false_eq_true, if_false, Int.toNat_natCast, top16_of_twin, reduceCtorEq, ↓reduceIte]
    by_cases h : cv.normF = true
    · simp only [h, ↓reduceIte]
      rw [mulNf_congr f32 (pow2 15) (f32.toDy (f32.ofInt 0x8000)) (by rw [n1]; rfl) (by rw [m1]; simp [pow2, Dy.ofInt, Dy.mag] <;> norm_num)]
    · simp only [h, Bool.false_eq_true, ↓reduceIte, Nat.cast_zero]
  · simp only [G72x.toCodec, floatTwin, cd16p, fmtOf, Conv.norm, G72x.s16, Bool.false_eq_true, if_false, Int.toNat_natCast, top16_of_twin, reduceCtorEq, ↓reduceIte]
    by_cases h : cv.normD = true
    · simp only [h, ↓reduceIte]
      rw [mulNf_congr f64 (pow2 15) (f64.toDy (f64.ofInt 0x8000)) (by rw [n2]; rfl) (by rw [m2]; simp [pow2, Dy.ofInt, Dy.mag] <;> norm_num)]
    · simp only [h, Bool.false_eq_true, ↓reduceIte, Nat.cast_zero]

/-- NMS ADPCM: the same expressions as G.72x -/
theorem cross_type_write_float_nms (cv : Conv) (x : Nat) :
    Nms.ofCaller cv .f32 x = Nms.ofCaller cv .s32 (floatTwin cd16p cv .f32 x) ∧
    Nms.ofCaller cv .f64 x = Nms.ofCaller cv .s32 (floatTwin cd16p cv .f64 x) := by
  obtain ⟨n1, m1, n2, m2, -⟩ := scale_consts
  constructor
  · simp only [Nms.ofCaller, floatTwin, cd16p, fmtOf, Conv.norm, Bool.false_eq_true, if_false, Int.toNat_natCast, top16_of_twin, reduceCtorEq, ↓reduceIte]
    by_cases h : cv.normF = true
    · simp only [h, ↓reduceIte]
      rw [mulNf_congr f32 (pow2 15) (f32.toDy (f32.ofInt 0x8000)) (by rw [n1]; rfl) (by rw [m1]; simp [pow2, Dy.ofInt, Dy.mag] <;> norm_num)]
    · simp only [h, Bool.false_eq_true, ↓reduceIte, Nat.cast_zero]
  · simp only [Nms.ofCaller, floatTwin, cd16p, fmtOf, Conv.norm, Bool.false_eq_true, if_false, Int.toNat_natCast, top16_of_twin, reduceCtorEq, ↓reduceIte]
    by_cases h : cv.normD = true
    · simp only [h, ↓reduceIte]
      rw [mulNf_congr f64 (pow2 15) (f64.toDy (f64.ofInt 0x8000)) (by rw [n2]; rfl) (by rw [m2]; simp [pow2, Dy.ofInt, Dy.mag] <;> norm_num)]
    · simp only [h, Bool.false_eq_true, ↓reduceIte, Nat.cast_zero]

/-- VOX (and GSM 06.10, IMA, MS ADPCM: the same expressions), factor 0x7FFF -/
theorem cross_type_write_float_vox (cv : Conv) (x : Nat) :
    Oki.ofCaller cv .f32 x = Oki.ofCaller cv .s32 (floatTwin cd16 cv .f32 x) ∧
    Oki.ofCaller cv .f64 x = Oki.ofCaller cv .s32 (floatTwin cd16 cv .f64 x) := by
  obtain ⟨-, -, -, -, n1, m1, n2, m2, -⟩ := scale_consts
  constructor
  · simp only [Oki.ofCaller, floatTwin, cd16, fmtOf, Conv.norm, Bool.false_eq_true, if_false, Int.toNat_natCast, top16_of_twin, reduceCtorEq, ↓reduceIte]
    by_cases h : cv.normF = true
    · simp only [h, ↓reduceIte]
      rw [mulNf_congr f32 (Dy.ofInt 0x7FFF) (f32.toDy (f32.ofInt 0x7FFF)) (by rw [n1]; rfl) (by rw [m1]; simp [pow2, Dy.ofInt, Dy.mag] <;> norm_num)]
    · simp only [h, Bool.false_eq_true, ↓reduceIte, Nat.cast_zero]
  · simp only [Oki.ofCaller, floatTwin, cd16, fmtOf, Conv.norm, Bool.false_eq_true, if_false, Int.toNat_natCast, top16_of_twin, reduceCtorEq, ↓reduceIte]
    by_cases h : cv.normD = true
    · simp only [h, ↓reduceIte]
      rw [mulNf_congr f64 (Dy.ofInt 0x7FFF) (f64.toDy (f64.ofInt 0x7FFF)) (by rw [n2]; rfl) (by rw [m2]; simp [pow2, Dy.ofInt, Dy.mag] <;> norm_num)]
    · simp only [h, Bool.false_eq_true, ↓reduceIte, Nat.cast_zero]

theorem cross_type_write_float_gsm (cv : Conv) (x : Nat) :
    Gsm.ofCaller cv .f32 x = Gsm.ofCaller cv .s32 (floatTwin cd16 cv .f32 x) ∧
    Gsm.ofCaller cv .f64 x = Gsm.ofCaller cv .s32 (floatTwin cd16 cv .f64 x) := cross_type_write_float_vox cv x

/-- XI DPCM_16 -/
theorem cross_type_write_float_dpcm16 (cv : Conv) (x : Nat) :
    Dpcm.cur16 cv .f32 x = Dpcm.cur16 cv .s32 (floatTwin cd16 cv .f32 x) ∧
    Dpcm.cur16 cv .f64 x = Dpcm.cur16 cv .s32 (floatTwin cd16 cv .f64 x) := by
  obtain ⟨-, -, -, -, n1, m1, n2, m2, -⟩ := scale_consts
  constructor
  · simp only [Dpcm.cur16, floatTwin, cd16, fmtOf, Conv.norm, Bool.false_eq_true, if_false, Int.toNat_natCast, top16_of_twin, reduceCtorEq, ↓reduceIte]
    by_cases h : cv.normF = true
    · simp only [h, ↓reduceIte]
      rw [mulNf_congr f32 (Dy.ofInt 0x7FFF) (f32.toDy (f32.ofInt 0x7FFF)) (by rw [n1]; rfl) (by rw [m1]; simp [pow2, Dy.ofInt, Dy.mag] <;> norm_num)]
    · simp only [h, Bool.false_eq_true, ↓reduceIte, Nat.cast_zero]
  · simp only [Dpcm.cur16, floatTwin, cd16, fmtOf, Conv.norm, Bool.false_eq_true, if_false, Int.toNat_natCast, top16_of_twin, reduceCtorEq, ↓reduceIte]
    by_cases h : cv.normD = true
    · simp only [h, ↓reduceIte]
      rw [mulNf_congr f64 (Dy.ofInt 0x7FFF) (f64.toDy (f64.ofInt 0x7FFF)) (by rw [n2]; rfl) (by rw [m2]; simp [pow2, Dy.ofInt, Dy.mag] <;> norm_num)]
    · simp only [h, Bool.false_eq_true, ↓reduceIte, Nat.cast_zero]

/-- XI DPCM_8, factor 0x7F -/
theorem cross_type_write_float_dpcm8 (cv : Conv) (x : Nat) :
    Dpcm.cur8 cv .f32 x = Dpcm.cur8 cv .s32 (floatTwin cd8 cv .f32 x) ∧
    Dpcm.cur8 cv .f64 x = Dpcm.cur8 cv .s32 (floatTwin cd8 cv .f64 x) := by
  obtain ⟨-, -, -, -, -, -, -, -, n1, m1, n2, m2⟩ := scale_consts
  constructor
  · simp only [Dpcm.cur8, floatTwin, cd8, fmtOf, Conv.norm, Bool.false_eq_true, if_false, Int.toNat_natCast, top8_of_twin, reduceCtorEq, ↓reduceIte]
    by_cases h : cv.normF = true
    · simp only [h, ↓reduceIte]
      rw [mulNf_congr f32 (Dy.ofInt 0x7F) (f32.toDy (f32.ofInt 0x7F)) (by rw [n1]; rfl) (by rw [m1]; simp [pow2, Dy.ofInt, Dy.mag] <;> norm_num)]
    · simp only [h, Bool.false_eq_true, ↓reduceIte, Nat.cast_zero]
  · simp only [Dpcm.cur8, floatTwin, cd8, fmtOf, Conv.norm, Bool.false_eq_true, if_false, Int.toNat_natCast, top8_of_twin, reduceCtorEq, ↓reduceIte]
    by_cases h : cv.normD = true
    · simp only [h, ↓reduceIte]
      rw [mulNf_congr f64 (Dy.ofInt 0x7F) (f64.toDy (f64.ofInt 0x7F)) (by rw [n2]; rfl) (by rw [m2]; simp [pow2, Dy.ofInt, Dy.mag] <;> norm_num)]
    · simp only [h, Bool.false_eq_true, ↓reduceIte, Nat.cast_zero]

/-- halves go to even, 1.0 wraps (no clipping), the twin carries the low 16 bits of the rounded product -/
example : floatTwin cd16p {} .f32 0x3F000000 = 0x40000000 ∧ floatTwin cd16p {} .f32 0x3F800000 = -2147483648 ∧
    floatTwin cd16 {} .f32 0x3F000000 = 0x40000000 ∧ floatTwin cd16 {} .f64 0x3FE0000000000000 = 0x40000000 ∧
    floatTwin cd16 {} .f32 0xBF800000 = -2147418112 ∧ G72x.toCodec {} .f32 0x3F800000 = -32768 := by decide


/-! ### PAF 24-bit with normalisation off ("integers pass through unscaled") -/

/-- the repaired writers: an unnormalised float / double and the int `floatTwin` (the value shifted into the top 24 bits) become
    the same working sample — every bit pattern, both build variants -/
theorem cross_type_write_float_paf24_norm_off (cv : Conv) (hF : cv.normF = false) (hD : cv.normD = false) (x : Nat) :
    Paf24.ofCaller cv .f32 x = lrintInt cv.variant (mulNf f32 (pow2 8) x) ∧
    floatTwin cdPaf24 cv .f32 x = wrapS 32 (Paf24.ofCaller cv .f32 x) ∧
    floatTwin cdPaf24 cv .f64 x = wrapS 32 (Paf24.ofCaller cv .f64 x) := by
  refine ⟨by simp [Paf24.ofCaller, hF], ?_, ?_⟩
  · simp [Paf24.ofCaller, floatTwin, cdPaf24, fmtOf, Conv.norm, hF]
  · simp [Paf24.ofCaller, floatTwin, cdPaf24, fmtOf, Conv.norm, hD]

/-- the rule before the repair of KF-PAF24-NORMOFF-WRITE (`Paf24.ofCallerOld`, factor 1/0x100): the unnormalised 1000.0 became the
    working sample 4, i.e. the stored code 0 — read back (norm off) as 0.0; the repaired rule stores 1000 and reads back 1000.0 -/
theorem paf24_norm_off_write_old_rule :
    Paf24.ofCallerOld { normF := false } .f32 0x447A0000 = 4 ∧ Paf24.toCaller { normF := false } .f32 (asr 4 8 * 256) = 0 ∧
    Paf24.ofCaller { normF := false } .f32 0x447A0000 = 256000 ∧ Paf24.toCaller { normF := false } .f32 (asr 256000 8 * 256) = 0x447A0000 ∧
    floatTwin cdPaf24 { normF := false } .f32 0x447A0000 = 256000 := by decide

/-! ### G.711: sign and magnitude -/

/-- the two companders look at the sign and at `|x| / 2^shift` only -/
theorem g711_narrow_nonneg (l : G711.Law) (hs : l.shift = 2 ∨ l.shift = 4) (x : Int) (h0 : 0 ≤ x) (h1 : x < 2147483648) :
    l.encS32 x = l.encS16 (narrowOf cdG711 x) := by
  have hn : narrowOf cdG711 x = x / 65536 := by
    unfold narrowOf cdG711
    simp only [beq_self_eq_true, if_true]
    rw [Int.tdiv_eq_ediv_of_nonneg h0]
    have : ¬ (x < 0 ∧ x / 65536 = 0) := by omega
    simp [this]
  rw [hn]
  unfold G711.Law.encS32 G711.Law.encS16 asr
  have hx : ¬ x = -2147483648 := by omega
  have hq : x / 65536 ≥ 0 := by omega
  simp only [hx, if_false, h0, ge_iff_le, if_true, hq]
  rw [Int.tdiv_eq_ediv_of_nonneg hq]
  rcases hs with h | h <;> simp only [h] <;> congr 2 <;> omega

/-- **(W) G.711, its own rule**: the int x and the short of the same sign whose magnitude is `|x| / 2^16` (−1 for a negative x of
    smaller magnitude) get the same code — for EVERY int, INT_MIN included since the repair of KF-G711-INTMIN-SIGN -/
theorem cross_type_write_agree_g711 (l : G711.Law) (hs : l.shift = 2 ∨ l.shift = 4)
    (htop : l.encTab (2 ^ (15 - l.shift) - 1) = l.encTab (2 ^ (15 - l.shift))) (x : Int) (hx : inRange 32 x) :
    l.encS32 x = l.encS16 (narrowOf cdG711 x) := by
  unfold inRange at hx
  by_cases h0 : 0 ≤ x
  · exact g711_narrow_nonneg l hs x h0 (by simpa using hx.2)
  · have hneg : x < 0 := by omega
    by_cases hmin : x = -2147483648
    · subst hmin
      have hn : narrowOf cdG711 (-2147483648) = -32768 := by decide
      rw [hn]
      unfold G711.Law.encS32 G711.Law.encS16 asr
      simp only [if_true]
      rcases hs with h | h
      · simp only [h] at htop ⊢
        have : ¬ ((-32768 : Int) ≥ 0) := by decide
        simp only [this, if_false]
        rw [show (2147483647 : Int) / 2 ^ (16 + 2) = 8191 by decide, show Int.tdiv (-32768) (-(2 ^ 2)) = 8192 by decide]
        simpa using congrArg (· % 128) htop
      · simp only [h] at htop ⊢
        have : ¬ ((-32768 : Int) ≥ 0) := by decide
        simp only [this, if_false]
        rw [show (2147483647 : Int) / 2 ^ (16 + 4) = 2047 by decide, show Int.tdiv (-32768) (-(2 ^ 4)) = 2048 by decide]
        simpa using congrArg (· % 128) htop
    · -- −2^31 < x < 0
      have hpos : 0 < -x := by omega
      have ht : Int.tdiv x 65536 = -((-x) / 65536) := by
        have := Int.neg_tdiv (-x) 65536
        rw [Int.neg_neg] at this
        rw [this, Int.tdiv_eq_ediv_of_nonneg (by omega)]
      unfold G711.Law.encS32
      have hx0 : ¬ x ≥ 0 := by omega
      simp only [hmin, if_false, hx0]
      unfold narrowOf cdG711
      simp only [beq_self_eq_true, if_true, ht]
      by_cases hz : (-x) / 65536 = 0
      · have c1 : x < 0 ∧ -((-x) / 65536) = 0 := ⟨hneg, by omega⟩
        simp only [c1, and_self, if_true]
        unfold G711.Law.encS16 asr
        have : ¬ ((-1 : Int) ≥ 0) := by decide
        simp only [this, if_false]
        rcases hs with h | h <;> simp only [h] <;> congr 3
        · rw [show Int.tdiv (-1) (-(2 ^ 2)) = 0 by decide]; omega
        · rw [show Int.tdiv (-1) (-(2 ^ 4)) = 0 by decide]; omega
      · have c1 : ¬ (x < 0 ∧ -((-x) / 65536) = 0) := by omega
        simp only [c1, if_false]
        unfold G711.Law.encS16 asr
        have hq : ¬ (-((-x) / 65536) ≥ 0) := by omega
        simp only [hq, if_false]
        have e : ∀ k : Int, 0 < k → Int.tdiv (-((-x) / 65536)) (-k) = ((-x) / 65536) / k := by
          intro k hk
          rw [Int.tdiv_neg, Int.neg_tdiv, Int.neg_neg, Int.tdiv_eq_ediv_of_nonneg (by omega)]
        rcases hs with h | h <;> simp only [h] <;> congr 3
        · rw [e _ (by decide)]; omega
        · rw [e _ (by decide)]; omega

/-- both laws meet the table hypothesis: the top magnitude index and the one above it share a code -/
theorem g711_tables_top : G711.ulaw.encTab (2 ^ (15 - 2) - 1) = G711.ulaw.encTab (2 ^ (15 - 2)) ∧
    G711.alaw.encTab (2 ^ (15 - 4) - 1) = G711.alaw.encTab (2 ^ (15 - 4)) := by decide

/-- the rule before the repair (`Law.encS32Old`): INT_MIN got the code of the most POSITIVE sample, its short twin −32768 the most
    negative one — the full-strength statement failed exactly there -/
theorem g711_int_min_sign_old_rule :
    G711.ulaw.encS32Old (-2147483648) = 0x80 ∧ G711.ulaw.encS16 (narrowOf cdG711 (-2147483648)) = 0x00 ∧
    G711.ulaw.encS32 (-2147483648) = 0x00 ∧
    G711.alaw.encS32Old (-2147483648) = 0xAA ∧ G711.alaw.encS16 (narrowOf cdG711 (-2147483648)) = 0x2A ∧
    G711.alaw.encS32 (-2147483648) = 0x2A ∧
    (∀ x : Int, x ≠ -2147483648 → G711.ulaw.encS32Old x = G711.ulaw.encS32 x ∧ G711.alaw.encS32Old x = G711.alaw.encS32 x) := by
  refine ⟨by decide, by decide, by decide, by decide, by decide, by decide, ?_⟩
  intro x hx
  unfold G711.Law.encS32Old G711.Law.encS32
  simp [hx]

/-! ## (W) meaning of an accepted twin record -/

theorem relAll_iff (p : Int → Int → Bool) : ∀ (xs ys : List Int), relAll p xs ys = true →
    xs.length = ys.length ∧ ∀ i (h1 : i < xs.length) (h2 : i < ys.length), p xs[i] ys[i] = true
  | [], [], _ => ⟨rfl, fun i h => absurd h (Nat.not_lt_zero i)⟩
  | x :: xs, y :: ys, h => by
    simp only [relAll, Bool.and_eq_true] at h
    obtain ⟨hl, hi⟩ := relAll_iff p xs ys h.2
    refine ⟨by simp [hl], ?_⟩
    intro i h1 h2
    cases i with
    | zero => exact h.1
    | succ k => exact hi k (by simpa using h1) (by simpa using h2)
  | [], _ :: _, h => by simp [relAll] at h
  | _ :: _, [], h => by simp [relAll] at h

/-- an accepted narrowing record IS the C02 clause on that input: the codec stores no more than 16 bits, every short is the
    narrowed int, and the two closed files are the same file -/
theorem narrow_accept_meaning (cd : Codec) (t : Twin String) (h : narrowOk cd t = true) :
    cd.narrows = true ∧ t.xs.length = t.ys.length ∧
    (∀ i (h1 : i < t.xs.length) (h2 : i < t.ys.length), t.ys[i] = narrowOf cd t.xs[i]) ∧ t.fileX = t.fileY := by
  unfold narrowOk at h
  simp only [Bool.and_eq_true, beq_iff_eq] at h
  obtain ⟨hl, hi⟩ := relAll_iff _ _ _ h.1.2
  exact ⟨h.1.1, hl, fun i h1 h2 => by simpa using hi i h1 h2, h.2⟩

theorem widen_accept_meaning (cd : Codec) (t : Twin String) (h : widenOk cd t = true) :
    t.xs.length = t.ys.length ∧ (∀ i (h1 : i < t.xs.length) (h2 : i < t.ys.length), t.xs[i] = widenOf t.ys[i]) ∧ t.fileX = t.fileY := by
  unfold widenOk at h
  simp only [Bool.and_eq_true, beq_iff_eq] at h
  obtain ⟨hl, hi⟩ := relAll_iff _ _ _ h.1.2
  exact ⟨hl, fun i h1 h2 => by simpa using hi i h1 h2, h.2⟩

theorem float_accept_meaning (cd : Codec) (cv : Conv) (ty : Ty) (t : Twin String) (h : floatOk cd cv ty t = true) :
    t.xs.length = t.ys.length ∧ (∀ i (h1 : i < t.xs.length) (h2 : i < t.ys.length), t.ys[i] = floatTwin cd cv ty t.xs[i].toNat) ∧
    t.fileX = t.fileY := by
  unfold floatOk at h
  simp only [Bool.and_eq_true, beq_iff_eq] at h
  obtain ⟨hl, hi⟩ := relAll_iff _ _ _ h.1.2
  exact ⟨hl, fun i h1 h2 => by simpa using hi i h1 h2, h.2⟩

example : narrowOk cd16 ({ xs := [-32767, 65535, -2147483648], ys := [-1, 0, -32768], fileX := "00", fileY := "00" } : Twin String) = true ∧
    narrowOk cdG711 ({ xs := [-32767, -65537, -2147483648], ys := [-1, -1, -32768], fileX := "7f", fileY := "7f" } : Twin String) = true ∧
    narrowOk cd16 ({ xs := [-32767], ys := [0], fileX := "00", fileY := "00" } : Twin String) = false := by decide

/-! ## (R) / (S) meaning of accepted records -/

theorem firstDisagree_none (cd : Codec) (cv : Conv) (r : Refs) : ∀ (fuel i : Nat), firstDisagree cd cv r fuel i = none →
    ∀ j, i ≤ j → j < i + fuel → readAgree cd cv (r.s16.getD j 0) (r.s32.getD j 0) (r.f32.getD j 0) (r.f64.getD j 0) = true
  | 0, _, _, j, h1, h2 => by omega
  | fuel + 1, i, h, j, h1, h2 => by
    unfold firstDisagree at h
    split at h
    · rename_i hi
      by_cases e : j = i
      · subst e; exact hi
      · exact firstDisagree_none cd cv r fuel (i + 1) h j (by omega) (by omega)
    · cases h

/-- accepted reference streams: one length, and EVERY item agrees across the four API types -/
theorem refs_accept_meaning (cd : Codec) (cv : Conv) (r : Refs) (h : refsAgree cd cv r = true) :
    r.s32.size = r.s16.size ∧ r.f32.size = r.s16.size ∧ r.f64.size = r.s16.size ∧
    ∀ j, j < r.s16.size → readAgree cd cv (r.s16.getD j 0) (r.s32.getD j 0) (r.f32.getD j 0) (r.f64.getD j 0) = true := by
  unfold refsAgree at h
  simp only [Bool.and_eq_true, beq_iff_eq, Option.isNone_iff_eq_none] at h
  exact ⟨h.1.1.1, h.1.1.2, h.1.2, fun j hj => firstDisagree_none cd cv r _ 0 h.2 j (Nat.zero_le _) (by omega)⟩

/-- an accepted read call of ANY type delivered the slice of THAT type's reference stream at the handle's position, whole frames,
    and moved the position by the frames delivered — whatever the types of the calls before it -/
theorem switch_step_meaning (ch : Nat) (refs : Refs) (pos : Nat) (ty : Ty) (n : Nat) (ret : Int) (data : Array Int) (p : Nat)
    (h : stepOk ch refs pos (.read ty n ret data) = some p) :
    0 ≤ ret ∧ ret.toNat ≤ n ∧ ret.toNat % ch = 0 ∧
    data.extract 0 ret.toNat = (refs.get ty).extract (pos * ch) (pos * ch + ret.toNat) ∧ p = pos + ret.toNat / ch := by
  unfold stepOk at h
  simp only at h
  split at h
  · cases h
  · rename_i hc
    split at h
    · rename_i he
      simp only [Option.some.injEq] at h
      refine ⟨by omega, by omega, by omega, by simpa using he, h.symm⟩
    · cases h

/-- a plan is accepted iff its first call is and the rest is accepted from the position that call leaves -/
theorem switch_accept_cons (ch : Nat) (refs : Refs) (pos k : Nat) (c : Call) (cs : List Call) :
    switchFrom ch refs pos k (c :: cs) = none ↔ ∃ p, stepOk ch refs pos c = some p ∧ switchFrom ch refs p (k + 1) cs = none := by
  rw [switchFrom]
  cases h : stepOk ch refs pos c with
  | none => simp
  | some p => simp

/-- the position after an accepted plan depends only on the return values (frames delivered, seek answers): never on the types -/
def posAfter (ch : Nat) : Nat → List Call → Nat
  | pos, [] => pos
  | pos, .read _ _ ret _ :: cs => posAfter ch (pos + ret.toNat / ch) cs
  | pos, .seek ret :: cs => posAfter ch (if ret < 0 then pos else ret.toNat) cs

theorem switch_accept_append (ch : Nat) (refs : Refs) : ∀ (cs : List Call) (pos k : Nat) (c : Call),
    switchFrom ch refs pos k (cs ++ [c]) = none →
    switchFrom ch refs pos k cs = none ∧ (stepOk ch refs (posAfter ch pos cs) c).isSome = true
  | [], pos, k, c, h => by
    rw [List.nil_append, switch_accept_cons] at h
    obtain ⟨p, hp, _⟩ := h
    exact ⟨rfl, by simp [posAfter, hp]⟩
  | d :: ds, pos, k, c, h => by
    rw [List.cons_append, switch_accept_cons] at h
    obtain ⟨p, hp, hr⟩ := h
    obtain ⟨a, b⟩ := switch_accept_append ch refs ds p (k + 1) c hr
    refine ⟨(switch_accept_cons ch refs pos k d ds).mpr ⟨p, hp, a⟩, ?_⟩
    have hpos : posAfter ch pos (d :: ds) = posAfter ch p ds := by
      cases d with
      | read ty n ret data =>
        obtain ⟨_, _, _, _, e⟩ := switch_step_meaning ch refs pos ty n ret data p hp
        simp [posAfter, e]
      | seek ret =>
        unfold stepOk at hp
        simp only [posAfter]
        by_cases hr0 : ret < 0
        · simp only [hr0, if_true, Option.some.injEq] at hp ⊢; rw [hp]
        · simp only [hr0, if_false, Option.some.injEq] at hp ⊢; rw [hp]
    rw [hpos]; exact b

example : switchOk 1 { s16 := #[1, 2, 3, 4], f32 := #[0x38000000, 0x38800000, 0x38C00000, 0x39000000] }
    [.read .f32 2 2 #[0x38000000, 0x38800000], .read .s16 1 1 #[3], .seek 1, .read .s16 5 3 #[2, 3, 4, 0xA5, 0xA5]] = true ∧
    switchOk 1 { s16 := #[1, 2, 3, 4], f32 := #[0x38000000, 0x38800000, 0x38C00000, 0x39000000] }
    [.read .f32 2 2 #[0x38000000, 0x38800000], .read .s16 1 1 #[768]] = false := by decide

/-! ## (S) at the model: the XI DPCM reader keeps ONE predictor for all caller types -/

/-- the state a read call leaves, and the number of items it delivers, do not depend on the caller's type: the next call — of any
    type — continues from the same predictor.  (The seeded regression C02-xi-dpcm8-float-last broke exactly this in xi.c.) -/
theorem dpcm_read_state_type_independent (h : DpcmR) (c : Conv) (ty ty2 : Ty) (n : Nat) :
    (h.read c ty n).1 = (h.read c ty2 n).1 ∧ (h.read c ty n).2.2 = (h.read c ty2 n).2.2 := by
  unfold DpcmR.read
  by_cases h0 : n = 0
  · simp [h0]
  · by_cases h1 : h.pos ≥ h.frames
    · simp [h0, h1]
    · simp only [h0, h1, if_false]
      unfold Dpcm.read
      cases h.wide <;> simp

/-- what a call of type `ty` delivers is the conversion of the SAME decoded integers any other type would have got -/
theorem dpcm_read_values (h : DpcmR) (c : Conv) (ty : Ty) (n : Nat) (hn : n ≠ 0) (hp : h.pos < h.frames) :
    (h.read c ty n).2.1 = some (
      if h.wide then ((Dpcm.undelta16 h.last16 ((groups 2 (h.rest.take (min n (h.rest.length / 2) * 2))).map fun g => sext 16 (ofLE g))).2).map (Dpcm.out16 c ty)
      else ((Dpcm.undelta8 (wrapS 8 (asr h.last16 8)) ((h.rest.take (min n (h.rest.length / 1) * 1)).map fun b => sext 8 b)).2).map (Dpcm.out8 c ty)) := by
  unfold DpcmR.read
  have h1 : ¬ h.pos ≥ h.frames := by omega
  simp only [hn, h1, if_false]
  unfold Dpcm.read
  cases h.wide <;> simp

example : ((DpcmR.open false [0x10, 0x20, 0xF0]).read {} .f32 2).2.1 = some [0x3E000000, 0x3EC00000] ∧
    (((DpcmR.open false [0x10, 0x20, 0xF0]).read {} .f32 2).1.read {} .s16 1).2.1 = some [0x2000] := by decide


/-! ## (S) at the model: G.721 / G.723 -/

/-- run read requests of any types on one handle; every call's delivery is converted by ITS type:
    (type, position before the call, delivered items) -/
def g72xRun (cv : Conv) : G72x.RHandle → List (Ty × Nat) → List (Ty × Nat × List Int)
  | _, [] => []
  | h, (ty, n) :: rest =>
    (ty, h.pos, (((h.read ty n).2.1).take (h.read ty n).2.2).map (G72x.toCaller cv ty)) :: g72xRun cv (h.read ty n).1 rest

/-- **(S) for G.72x**: whatever the types and sizes of the calls before it, every call delivers the conversion, by its own type, of
    the decoded stream items at the handle's position — the slice of its type's reference stream `stream.map (toCaller cv ty)` -/
theorem cross_type_switch_g72x (cv : Conv) : ∀ (reqs : List (Ty × Nat)) (h : G72x.RHandle), Sf.G72x.Proofs.HInv h →
    ∀ e ∈ g72xRun cv h reqs, e.2.2 = (h.r.slice e.2.1 e.2.2.length).map (G72x.toCaller cv e.1) := by
  intro reqs
  induction reqs with
  | nil => intro h _ e he; simp [g72xRun] at he
  | cons q qs ih =>
    intro h hi e he
    obtain ⟨ty, n⟩ := q
    obtain ⟨h1, h2, _, h4, _, h6⟩ := Sf.G72x.Proofs.read_spec h hi ty n
    simp only [g72xRun, List.mem_cons] at he
    rcases he with rfl | he
    · simp only [List.length_map]
      rw [h1, h2, List.take_left' (Sf.Block.Proofs.slice_length _ _ _), Sf.Block.Proofs.slice_length]
    · have := ih (h.read ty n).1 h6 e he
      rw [h4] at this
      exact this

example : Sf.G72x.Proofs.HInv (G72x.RHandle.open G72x.g721 [0x12, 0x34]) := Sf.C06G72x.g72x_open_inv _ _

end Sf.C02Cross
