/-
  C14, the descriptor clause at sf_close ("closes a descriptor passed to sf_open_fd exactly when close_desc was true and never touches
  descriptors it did not open"), for EVERY result of the close handlers (SfModel/CloseOwn.lean).
-/
import SfModel.CloseOwn
namespace Sf.C14CloseOwn
open Sf.CloseOwn

/-- the descriptor is closed exactly when the handle owns it -- whatever codec_close / container_close returned -/
theorem close_releases_iff_owned (h : H) : (psfClose h).fdClosed = h.owns := by
  unfold psfClose psfFclose H.owns
  cases h.virtualIo <;> cases h.doNotClose <;> simp

/-- the handlers' results do not reach the descriptor: two handles that differ only in what their handlers report are closed alike -/
theorem close_blind_to_handlers (h : H) (c k : Option Int) :
    psfClose { h with codecClose := c, containerClose := k } = psfClose h := by
  unfold psfClose psfFclose; rfl

/-- sf_close returns what psf_fclose returned (0 on virtual I/O and on a descriptor the caller keeps) -/
theorem close_result_is_fclose (h : H) : (psfClose h).ret = if h.owns then h.osClose else 0 := by
  unfold psfClose psfFclose H.owns
  cases h.virtualIo <;> cases h.doNotClose <;> simp

/-- all routes agree on the result when close (2) succeeds -/
theorem close_routes_agree (h1 h2 : H) (o1 : h1.osClose = 0) (o2 : h2.osClose = 0) : (psfClose h1).ret = (psfClose h2).ret := by
  rw [close_result_is_fclose, close_result_is_fclose, o1, o2]; simp

/-- the "first error wins" rule leaks: an owned descriptor stays open as soon as a handler reports anything -/
theorem first_error_rule_leaks (h : H) (e : Int) (he : e ≠ 0) (ho : h.owns = true) :
    (psfCloseFirstError { h with codecClose := some e }).fdClosed = false ∧ (psfClose { h with codecClose := some e }).fdClosed = true := by
  constructor
  · unfold psfCloseFirstError; simp [he]
  · rw [close_releases_iff_owned]; simpa [H.owns] using ho

/-! non-vacuity: a VOX handle whose decoder clipped 83 times, opened by sf_open_fd with close_desc = 1 / 0 -/
example : psfClose { codecClose := some 83 } = { ret := 0, fdClosed := true } := by decide
example : psfClose { codecClose := some 83, doNotClose := true } = { ret := 0, fdClosed := false } := by decide
example : psfCloseFirstError { codecClose := some 83 } = { ret := 83, fdClosed := false } := by decide

end Sf.C14CloseOwn
