-- properties: C06 C20
/-
  C06 / C20 — `sf_seek` on the IMA ADPCM readers AS WRITTEN (lean/SfModel/ImaSeek.lean: block counter in the C code's own unit,
  one per block for the WAV / W64 layout, `channels` per block for the AIFF layout).

  * `seek_forgets` / `seek_after_history`: the state a successful or failed seek leaves does not depend on the state it found —
    whatever block was loaded, whatever was read before.  Hence "whenever sf_seek reports success for target frame k the following
    reads deliver exactly frames k, k+1, …": the reads after the seek are the reads a fresh handle makes after the same seek.
  * `seek_lands`: for every channel count, every unit, every target inside the data it is block k / spb with k % spb frames consumed.
  * `read_within`, `read_across`: what the reads after it deliver — the rest of the target block, then the block behind it (the
    file position moved with the seek).
  * `seek_then_read`: the three composed, for every history, target and channel count;
    `read_slice` / `read_partition` / `seek_then_read_stream` (helpers lean/SfProofs/ImaSeek.lean): the same for reads of ANY length — the items
    delivered are the slice of the decoded stream at the position, two calls deliver what one call delivers.
  * `fast_path_unit_one`: the fast path "target block = blockcount − 1" is sound where the counter counts blocks (`unit = 1`);
    `fast_path_aiff_stereo_wrong`: in the AIFF unit it hands out block c for a seek into block 2c + 1 (concrete 2-channel witness) —
    the regression of seeded/C20-aiff-ima-seek-fastpath-stereo is outside what these theorems allow.
-/
import SfModel.ImaSeek
import SfProofs.ImaSeek
namespace Sf.ImaSeek

theorem seek_forgets (c : Cfg) (s s' : St) (k : Nat) : seek c s k = seek c s' k := by
  unfold seek decodeBlock
  simp

theorem seek_after_history (c : Cfg) (s : St) (ops : List Op) (k : Nat) : seek c (run c s ops) k = seek c (init c) k :=
  seek_forgets c _ _ k

theorem seek_lands (c : Cfg) (nb : Nat) (h : c.Wf nb) (s : St) (k : Nat) (hk : k / c.spb < nb) :
    seek c s k = some (atBlock c (k / c.spb) (k % c.spb)) := by
  have hu := h.unit_pos
  have hs := h.spb_pos
  have hb := h.blocks
  have h1 : (k / c.spb + 1) * c.unit ≤ nb * c.unit := Nat.mul_le_mul_right _ hk
  by_cases h0 : k = 0
  · subst h0
    simp [seek, decodeBlock, atBlock, hb] at *
    have : ¬ nb * c.unit < c.unit := by
      have : 1 * c.unit ≤ nb * c.unit := Nat.mul_le_mul_right _ hk
      omega
    simp [this]
  · have hkb : ¬ k > c.blocks * c.spb := by
      rw [hb]
      have e := Nat.div_add_mod k c.spb
      have m := Nat.mod_lt k hs
      have h2 : c.spb * (k / c.spb + 1) ≤ c.spb * nb := Nat.mul_le_mul_left _ hk
      have h3 : nb * c.spb ≤ nb * c.unit * c.spb := by
        have : nb * 1 ≤ nb * c.unit := Nat.mul_le_mul_left _ hu
        simpa using Nat.mul_le_mul_right c.spb this
      have h4 : c.spb * nb = nb * c.spb := Nat.mul_comm _ _
      have h5 : c.spb * (k / c.spb + 1) = c.spb * (k / c.spb) + c.spb := by rw [Nat.mul_add, Nat.mul_one]
      omega
    have hd : ¬ (k / c.spb * c.unit + c.unit > c.blocks) := by
      rw [hb]
      have : (k / c.spb + 1) * c.unit = k / c.spb * c.unit + c.unit := by rw [Nat.add_mul, Nat.one_mul]
      omega
    simp [seek, h0, hkb, decodeBlock, hd, atBlock, Nat.add_mul]


/-- a read that stays inside the loaded block: the next `n` items of it -/
theorem read_within (c : Cfg) (b cnt n : Nat) (hc : cnt < c.spb) (hn : 0 < n) (hle : n ≤ (c.spb - cnt) * c.ch) :
    (read c (atBlock c b cnt) n).2 = (((c.src (b * c.unit)).drop (cnt * c.ch)).take n, n) := by
  obtain ⟨m, rfl⟩ : ∃ m, n = m + 1 := ⟨n - 1, by omega⟩
  have hc' : ¬ c.spb ≤ cnt := by omega
  simp [read, readLoop, atBlock, hc', Nat.min_eq_right hle]

/-- a read that crosses the end of the loaded block: its rest, then the head of the NEXT block of the file -/
theorem read_across (c : Cfg) (nb : Nat) (h : c.Wf nb) (b cnt m : Nat) (hc : cnt < c.spb) (hb : b + 2 ≤ nb)
    (hm : 0 < m) (hle : m ≤ c.spb * c.ch) :
    (read c (atBlock c b cnt) ((c.spb - cnt) * c.ch + m)).2 =
      ((c.src (b * c.unit)).drop (cnt * c.ch) ++ (c.src ((b + 1) * c.unit)).take m, (c.spb - cnt) * c.ch + m) := by
  have hch := h.ch_pos
  have hu := h.unit_pos
  have hbl := h.blocks
  have hc' : ¬ c.spb ≤ cnt := by omega
  have hk : 0 < (c.spb - cnt) * c.ch := Nat.mul_pos (by omega) hch
  obtain ⟨f, hf⟩ : ∃ f, (c.spb - cnt) * c.ch + m + 1 = f + 3 := ⟨(c.spb - cnt) * c.ch + m - 2, by omega⟩
  have hlen := h.len (b * c.unit)
  have hdrop : ((c.src (b * c.unit)).drop (cnt * c.ch)).length = (c.spb - cnt) * c.ch := by
    rw [List.length_drop, hlen, Nat.sub_mul]
  have hnb : ¬ (nb * c.unit ≤ (b + 1) * c.unit) := by
    have : (b + 2) * c.unit ≤ nb * c.unit := Nat.mul_le_mul_right _ hb
    have : (b + 2) * c.unit = (b + 1) * c.unit + c.unit := by rw [show b + 2 = (b + 1) + 1 from rfl, Nat.add_mul (b + 1) 1, Nat.one_mul]
    omega
  have hdec : ¬ ((b + 1) * c.unit + c.unit > nb * c.unit) := by
    have : (b + 2) * c.unit ≤ nb * c.unit := Nat.mul_le_mul_right _ hb
    have : (b + 2) * c.unit = (b + 1) * c.unit + c.unit := by rw [show b + 2 = (b + 1) + 1 from rfl, Nat.add_mul (b + 1) 1, Nat.one_mul]
    omega
  have hdiv : (c.spb - cnt) * c.ch / c.ch = c.spb - cnt := Nat.mul_div_cancel _ hch
  have hsum : cnt + (c.spb - cnt) = c.spb := by omega
  have hne : (c.spb - cnt) * c.ch + m ≠ 0 := by omega
  have hmin1 : min ((c.spb - cnt) * c.ch) ((c.spb - cnt) * c.ch + m) = (c.spb - cnt) * c.ch := Nat.min_eq_left (by omega)
  have hmne : m ≠ 0 := by omega
  unfold read
  rw [hf]
  simp only [readLoop, atBlock, hne, hc', hbl, if_false, ge_iff_le, and_false, false_and, hmin1, hdiv, hsum,
    Nat.add_sub_cancel_left, hmne, hnb, Nat.le_refl, if_true, decodeBlock, hdec, Nat.sub_self, Nat.zero_mul, List.drop_zero,
    Nat.sub_zero, Nat.min_eq_right hle, Nat.zero_add]
  have ht : List.take ((c.spb - cnt) * c.ch) (List.drop (cnt * c.ch) (c.src (b * c.unit))) = List.drop (cnt * c.ch) (c.src (b * c.unit)) := by
    apply List.take_of_length_le; omega
  simp [ht]


theorem pos_atBlock (c : Cfg) (hu : 0 < c.unit) (b cnt : Nat) : pos c (atBlock c b cnt) = b * c.spb + cnt := by
  simp [pos, atBlock, Nat.mul_div_cancel _ hu]

/-- C06 for the IMA readers as written: after ANY history of reads and seeks on the handle (any loaded block, any channel count, either
    block-counter unit) a seek to frame `k` succeeds, leaves the position `k`, and the read behind it delivers the rest of block `k / spb`
    from frame `k` on followed by the head of the block that follows it IN THE FILE -/
theorem seek_then_read (c : Cfg) (nb : Nat) (h : c.Wf nb) (s : St) (ops : List Op) (k m : Nat)
    (hk : k / c.spb + 2 ≤ nb) (hm : 0 < m) (hle : m ≤ c.spb * c.ch) :
    ∃ s', seek c (run c s ops) k = some s' ∧ pos c s' = k ∧
      (read c s' ((c.spb - k % c.spb) * c.ch + m)).2 =
        ((c.src (k / c.spb * c.unit)).drop (k % c.spb * c.ch) ++ (c.src ((k / c.spb + 1) * c.unit)).take m, (c.spb - k % c.spb) * c.ch + m) := by
  refine ⟨atBlock c (k / c.spb) (k % c.spb), seek_lands c nb h _ k (by omega), ?_, ?_⟩
  · rw [pos_atBlock c h.unit_pos, Nat.mul_comm]; exact Nat.div_add_mod k c.spb
  · exact read_across c nb h _ _ m (Nat.mod_lt _ h.spb_pos) hk hm hle

/-- the fast path "the target block is `blockcount − 1`" is sound where the counter counts whole blocks (WAV / W64 layout) -/
theorem fast_path_unit_one (c : Cfg) (nb : Nat) (h : c.Wf nb) (hu : c.unit = 1) (b cnt k : Nat) (hk : k / c.spb < nb) :
    seekFast c (atBlock c b cnt) k = seek c (atBlock c b cnt) k := by
  unfold seekFast
  by_cases h0 : k = 0
  · simp [h0]
  · by_cases hkb : k > c.blocks * c.spb
    · simp [h0, hkb, seek]
    · simp only [h0, hkb, if_false]
      by_cases hf : k / c.spb + 1 = (atBlock c b cnt).blockcount
      · rw [if_pos hf, seek_lands c nb h _ k hk]
        have : k / c.spb = b := by simp [atBlock, hu] at hf; omega
        simp [atBlock, this]
      · rw [if_neg hf]

/-- a 2-channel AIFF-layout configuration: 4 blocks of 2 frames, block at packet p decodes to [p, p, p, p] -/
def aiffStereo : Cfg := { ch := 2, spb := 2, unit := 2, blocks := 8, src := fun p => [(p : Int), p, p, p] }

theorem aiffStereo_wf : aiffStereo.Wf 4 := ⟨by decide, by decide, by decide, by decide, fun _ => rfl⟩

/-- … and in the AIFF unit (`channels` per block) the same fast path is WRONG: straight after the open (block 0 loaded,
    `blockcount = 2`) a seek to frame 2 = block 1 = 2·0 + 1 keeps block 0's samples (seeded/C20-aiff-ima-seek-fastpath-stereo) -/
theorem fast_path_aiff_stereo_wrong :
    (seekFast aiffStereo (init aiffStereo) 2).map (·.samples) = some [0, 0, 0, 0] ∧
    (seek aiffStereo (init aiffStereo) 2).map (·.samples) = some [2, 2, 2, 2] := by decide

/-- non-vacuity: `seek_then_read` on the stereo AIFF-layout configuration, after a history that read into block 0 and sought around:
    seek to frame 3 (block 1, second frame), read 2 + 3 items -/
example : ∃ s', seek aiffStereo (run aiffStereo (init aiffStereo) [.read 3, .seek 5, .read 1]) 3 = some s' ∧ pos aiffStereo s' = 3 ∧
    (read aiffStereo s' 5).2 = ([2, 2, 4, 4, 4], 5) := by
  have := seek_then_read aiffStereo 4 aiffStereo_wf (init aiffStereo) [.read 3, .seek 5, .read 1] 3 3 (by decide) (by decide) (by decide)
  simpa [aiffStereo] using this

example : seek aiffStereo (run aiffStereo (init aiffStereo) [.read 3]) 2 = seek aiffStereo (init aiffStereo) 2 := seek_after_history _ _ _ _
example : (read aiffStereo (atBlock aiffStereo 1 0) 3).2 = ([2, 2, 2], 3) := by
  have := read_within aiffStereo 1 0 3 (by decide) (by decide) (by decide)
  simpa [aiffStereo] using this

/-- `sf_read_*` for `f` frames at position `p = b·spb + cnt`: the items [p·ch, (p + f)·ch) of the stream -/
theorem read_slice (c : Cfg) (nb : Nat) (h : c.Wf nb) (b cnt f : Nat) (hc : cnt ≤ c.spb) (hb : b < nb) (hle : b * c.spb + cnt + f ≤ nb * c.spb) :
    ∃ b2 cnt2, cnt2 ≤ c.spb ∧ b2 < nb ∧ b2 * c.spb + cnt2 = b * c.spb + cnt + f ∧
      read c (atBlock c b cnt) (f * c.ch) = (atBlock c b2 cnt2, slice c ((b * c.spb + cnt) * c.ch) (f * c.ch), f * c.ch) := by
  have : f < f * c.ch + 1 := by
    have := Nat.le_mul_of_pos_right f h.ch_pos
    omega
  exact readLoop_slice c nb h _ b cnt f hc hb hle this

/-- C06, partition: two calls of `f1` and `f2` frames deliver what one call of `f1 + f2` frames delivers (and, by `read_slice`, whatever
    follows depends on the position reached only) -/
theorem read_partition (c : Cfg) (nb : Nat) (h : c.Wf nb) (b cnt f1 f2 : Nat) (hc : cnt ≤ c.spb) (hb : b < nb)
    (hle : b * c.spb + cnt + (f1 + f2) ≤ nb * c.spb) :
    (read c (atBlock c b cnt) (f1 * c.ch)).2.1 ++ (read c (read c (atBlock c b cnt) (f1 * c.ch)).1 (f2 * c.ch)).2.1 =
      (read c (atBlock c b cnt) ((f1 + f2) * c.ch)).2.1 := by
  obtain ⟨b1, c1, h1, h2, h3, hr1⟩ := read_slice c nb h b cnt f1 hc hb (by omega)
  obtain ⟨b2, c2, _, _, _, hr2⟩ := read_slice c nb h b1 c1 f2 h1 h2 (by omega)
  obtain ⟨b3, c3, _, _, _, hr3⟩ := read_slice c nb h b cnt (f1 + f2) hc hb hle
  simp only [hr1, hr2, hr3]
  have e : (b1 * c.spb + c1) * c.ch = (b * c.spb + cnt) * c.ch + f1 * c.ch := by rw [h3, Nat.add_mul]
  rw [e, ← slice_append, ← Nat.add_mul]

/-- C06 for the IMA readers as written, any length: after ANY history of reads and seeks on the handle, a seek to frame `k` followed by a read of
    `f` frames delivers exactly the frames k, k+1, …, k+f−1 of the stream — for every channel count, either block-counter unit, every target -/
theorem seek_then_read_stream (c : Cfg) (nb : Nat) (h : c.Wf nb) (s : St) (ops : List Op) (k f : Nat)
    (hk : k / c.spb < nb) (hle : k + f ≤ nb * c.spb) :
    ∃ s', seek c (run c s ops) k = some s' ∧ pos c s' = k ∧ (read c s' (f * c.ch)).2 = (slice c (k * c.ch) (f * c.ch), f * c.ch) := by
  have hkm : k / c.spb * c.spb + k % c.spb = k := by rw [Nat.mul_comm]; exact Nat.div_add_mod k c.spb
  refine ⟨atBlock c (k / c.spb) (k % c.spb), seek_lands c nb h _ k hk, ?_, ?_⟩
  · rw [pos_atBlock c h.unit_pos]; exact hkm
  · obtain ⟨b2, c2, _, _, _, hr⟩ := read_slice c nb h (k / c.spb) (k % c.spb) f (Nat.le_of_lt (Nat.mod_lt _ h.spb_pos)) hk (by omega)
    rw [hr, hkm]


/-- non-vacuity of `seek_then_read_stream` / `read_partition`: the stereo AIFF-layout configuration, a read of 5 frames across two block ends -/
example : ∃ s', seek aiffStereo (run aiffStereo (init aiffStereo) [.read 3, .seek 5]) 1 = some s' ∧ pos aiffStereo s' = 1 ∧
    (read aiffStereo s' (5 * 2)).2 = ([0, 0, 2, 2, 2, 2, 4, 4, 4, 4], 10) := by
  obtain ⟨s', h1, h2, h3⟩ := seek_then_read_stream aiffStereo 4 aiffStereo_wf (init aiffStereo) [.read 3, .seek 5] 1 5 (by decide) (by decide)
  exact ⟨s', h1, h2, by rw [show aiffStereo.ch = 2 from rfl] at h3; rw [h3]; decide⟩

/-- a mono WAV-layout configuration: 4 blocks of 3 frames, counter in whole blocks -/
def wavMono : Cfg := { ch := 1, spb := 3, unit := 1, blocks := 4, src := fun p => [(10 * p : Int), 10 * p + 1, 10 * p + 2] }

theorem wavMono_wf : wavMono.Wf 4 := ⟨by decide, by decide, by decide, by decide, fun _ => rfl⟩

/-- non-vacuity of `fast_path_unit_one`: block 1 loaded, a seek to frame 5 (block 1) takes the fast path, a seek to frame 7 (block 2) does not -/
example : seekFast wavMono (atBlock wavMono 1 1) 5 = seek wavMono (atBlock wavMono 1 1) 5 ∧
    (seekFast wavMono (atBlock wavMono 1 1) 5).map (·.samples) = some [10, 11, 12] ∧
    seekFast wavMono (atBlock wavMono 1 1) 7 = seek wavMono (atBlock wavMono 1 1) 7 :=
  ⟨fast_path_unit_one wavMono 4 wavMono_wf rfl 1 1 5 (by decide), by decide, fast_path_unit_one wavMono 4 wavMono_wf rfl 1 1 7 (by decide)⟩

/-- non-vacuity of `read_slice` / `read_partition`: from the lazy state at the end of block 0 (3 of 3 frames consumed), 2 + 5 frames -/
example : (read wavMono (atBlock wavMono 0 3) (2 * wavMono.ch)).2.1 ++
      (read wavMono (read wavMono (atBlock wavMono 0 3) (2 * wavMono.ch)).1 (5 * wavMono.ch)).2.1 = [10, 11, 12, 20, 21, 22, 30] := by
  rw [read_partition wavMono 4 wavMono_wf 0 3 2 5 (by decide) (by decide) (by decide)]
  obtain ⟨b2, c2, _, _, _, hr⟩ := read_slice wavMono 4 wavMono_wf 0 3 (2 + 5) (by decide) (by decide) (by decide)
  rw [hr]; show slice wavMono ((0 * wavMono.spb + 3) * wavMono.ch) ((2 + 5) * wavMono.ch) = _; decide

end Sf.ImaSeek
