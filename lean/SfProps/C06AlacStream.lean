-- properties: C01 C06
/-
  C06 / C01 (CAF/ALAC) — the read side of src/alac.c ACROSS packet boundaries, for EVERY codec core (round 7; closes the gap
  "`read_partition_within` is inside one decoded packet only" of SfProps/C06Alac.lean).  A good file is any list of packets of
  1 … maxPacket bytes stored back to back, with the packet table the 'pakt' chunk decodes to (the extra zero entry of a padded
  chunk included); `streamOf cd pkts` is the concatenation of what the codec makes of the packets.  Helpers:
  SfProofs/AlacStream.lean (`At` = where a reader state stands in the stream, `readLoop_stream` by induction on the fuel).
  Property theorems only.
-/
import SfProofs.AlacStream
namespace Sf.C06AlacStream
open Sf Sf.Alac Sf.AlacStream

variable {σ α : Type}

/-- the state `alac_reader_init` / a rewind leaves (`alac_seek (psf, SFM_READ, 0)`: table position 0, data offset 0, no frames
    of a decoded packet; partial_block_frames is left as it was) stands at stream position 0 -/
theorem fresh_at_zero (cd : Codec σ α) (pkts : List (List Byte)) (r : R α) (hc : r.cur = 0) (hi : r.inPos = 0) (hf : r.ftb = 0) :
    At cd pkts r 0 :=
  Or.inl ⟨[], pkts, rfl, hc, hi, by omega, rfl⟩

/-- C06, the read-stream theorem across packets: one `alac_read_*` call of `len` frames from a reader that stands at stream
    position `pos` delivers exactly `stream[pos .. pos+len)` (fewer only at the end of the stream), whatever the packet
    boundaries are, keeps the packet table, and leaves the reader at position pos + (frames delivered) -/
theorem read_stream_cross_packet (cd : Codec σ α) (pkts : List (List Byte)) (extra : List Nat) (hg : Good pkts extra)
    (r : R α) (len pos : Nat) (hs : r.sizes = sizesOf pkts extra) (hat : At cd pkts r pos) :
    (readCall cd (fileIO pkts.flatten) r len).2 = ((streamOf cd pkts).drop pos).take len ∧
    (readCall cd (fileIO pkts.flatten) r len).1.sizes = r.sizes ∧
    At cd pkts (readCall cd (fileIO pkts.flatten) r len).1 (pos + (readCall cd (fileIO pkts.flatten) r len).2.length) := by
  unfold readCall
  exact readLoop_stream cd pkts extra hg _ r len pos hs hat (by unfold readFuel; omega)

/-- the count: min (len, frames left in the stream) -/
theorem read_count_cross_packet (cd : Codec σ α) (pkts : List (List Byte)) (extra : List Nat) (hg : Good pkts extra)
    (r : R α) (len pos : Nat) (hs : r.sizes = sizesOf pkts extra) (hat : At cd pkts r pos) :
    (readCall cd (fileIO pkts.flatten) r len).2.length = min len ((streamOf cd pkts).length - pos) := by
  rw [(read_stream_cross_packet cd pkts extra hg r len pos hs hat).1, List.length_take, List.length_drop]

/-- C06, partition independence ACROSS packets: two calls of a and b frames deliver what one call of a + b frames delivers,
    for every position, every a and b (packet boundaries and the end of the stream inside either call included) -/
theorem read_partition_cross_packet (cd : Codec σ α) (pkts : List (List Byte)) (extra : List Nat) (hg : Good pkts extra)
    (r : R α) (a b pos : Nat) (hs : r.sizes = sizesOf pkts extra) (hat : At cd pkts r pos) :
    let io := fileIO pkts.flatten
    (readCall cd io r a).2 ++ (readCall cd io (readCall cd io r a).1 b).2 = (readCall cd io r (a + b)).2 := by
  intro io
  obtain ⟨e1, s1, a1⟩ := read_stream_cross_packet cd pkts extra hg r a pos hs hat
  obtain ⟨e2, _, _⟩ := read_stream_cross_packet cd pkts extra hg _ b _ (s1.trans hs) a1
  obtain ⟨e3, _, _⟩ := read_stream_cross_packet cd pkts extra hg r (a + b) pos hs hat
  show (readCall cd (fileIO pkts.flatten) r a).2 ++ (readCall cd (fileIO pkts.flatten) (readCall cd (fileIO pkts.flatten) r a).1 b).2 = _
  rw [e3, e2, e1]
  generalize streamOf cd pkts = st
  rw [List.length_take, List.length_drop]
  by_cases h : a ≤ st.length - pos
  · rw [Nat.min_eq_left h, List.take_add, List.drop_drop]
  · have h1 : min a (st.length - pos) = st.length - pos := Nat.min_eq_right (by omega)
    rw [h1, List.drop_of_length_le (l := st) (i := pos + (st.length - pos)) (by omega)]
    rw [List.take_of_length_le (by rw [List.length_drop]; omega), List.take_of_length_le (l := st.drop pos) (by rw [List.length_drop]; omega)]
    simp

/-- a whole sequence of calls from the fresh handle: the k-th call delivers the k-th piece of the stream -/
theorem read_sequence_cross_packet (cd : Codec σ α) (pkts : List (List Byte)) (extra : List Nat) (hg : Good pkts extra) :
    ∀ (lens : List Nat) (r : R α) (pos : Nat), r.sizes = sizesOf pkts extra → At cd pkts r pos →
      ((lens.foldl (fun (acc : R α × List α) len => ((readCall cd (fileIO pkts.flatten) acc.1 len).1, acc.2 ++ (readCall cd (fileIO pkts.flatten) acc.1 len).2))
          (r, [])).2) = ((streamOf cd pkts).drop pos).take lens.sum := by
  intro lens
  suffices H : ∀ (lens : List Nat) (r : R α) (pos : Nat) (pre : List α), r.sizes = sizesOf pkts extra → At cd pkts r pos →
      ((lens.foldl (fun (acc : R α × List α) len => ((readCall cd (fileIO pkts.flatten) acc.1 len).1, acc.2 ++ (readCall cd (fileIO pkts.flatten) acc.1 len).2))
          (r, pre)).2) = pre ++ ((streamOf cd pkts).drop pos).take lens.sum by
    intro r pos hs hat
    simpa using H lens r pos [] hs hat
  intro lens
  induction lens with
  | nil => intro r pos pre _ _; simp
  | cons len rest ih =>
    intro r pos pre hs hat
    obtain ⟨e1, s1, a1⟩ := read_stream_cross_packet cd pkts extra hg r len pos hs hat
    rw [List.foldl_cons, ih _ _ _ (s1.trans hs) a1, e1, List.append_assoc]
    congr 1
    generalize streamOf cd pkts = st
    rw [List.length_take, List.length_drop, List.sum_cons]
    by_cases h : len ≤ st.length - pos
    · rw [Nat.min_eq_left h, List.take_add, List.drop_drop]
    · have h1 : min len (st.length - pos) = st.length - pos := Nat.min_eq_right (by omega)
      rw [h1, List.drop_of_length_le (l := st) (i := pos + (st.length - pos)) (by omega)]
      rw [List.take_of_length_le (by rw [List.length_drop]; omega), List.take_of_length_le (l := st.drop pos) (by rw [List.length_drop]; omega)]
      simp

/-- non-vacuity: three packets of 3, 2 and 4 bytes behind a byte-per-frame codec, a padded table (extra zero entry); reads of
    2 + 4 + 9 frames cross both boundaries and the end of the stream -/
example :
    let cd : Codec Unit Nat := { init := (), enc := fun _ st => ((), st), dec := fun p => p }
    let pkts : List (List Byte) := [[10, 11, 12], [20, 21], [30, 31, 32, 33]]
    let r0 : R Nat := { sizes := sizesOf pkts [0] }
    Good pkts [0] ∧ At cd pkts r0 0 ∧
    (readCall cd (fileIO pkts.flatten) r0 2).2 = [10, 11] ∧
    (readCall cd (fileIO pkts.flatten) (readCall cd (fileIO pkts.flatten) r0 2).1 4).2 = [12, 20, 21, 30] ∧
    (readCall cd (fileIO pkts.flatten) r0 15).2 = [10, 11, 12, 20, 21, 30, 31, 32, 33] := by
  refine ⟨⟨by decide, Or.inr rfl⟩, fresh_at_zero _ _ _ rfl rfl rfl, by decide, by decide, by decide⟩

end Sf.C06AlacStream
