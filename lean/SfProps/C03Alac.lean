/-
-- properties: C03
  C03 (memory safety of the ALAC decoder on hostile packets) — sizes of everything `alac_decode` stores, for EVERY byte
  buffer, every configuration the 'kuki' chunk can hold (bit depth, pb, mb, kb, maxRun, channel count ≥ 1) and every
  requested frame count up to 4096 (src/alac.c refuses a larger frames-per-packet), on the model of
  lean/SfModel/AlacCore.lean, AlacAg.lean, AlacDp.lean, AlacMatrix.lean, AlacDec.lean:

  * `alac_decode_in_bounds` (FULL): `*outNumSamples ≤ 4096`, at most `numChannels` channels are stored and no channel
    gets more than 4096 samples — every store `sampleBuffer [j * numChannels + c]` has `j < 4096`, `c < numChannels`
    (src/alac.c allocates `channels * 8192` ints), whatever the tags, partial-frame lengths, shift counts, predictor
    orders, Golomb codes or zero runs of the packet say; bad tags, `numSamples ≥ 4096` and runs beyond the frame end the
    decode with an error status instead.
  * `dyn_decomp_in_bounds`: `dyn_decomp` stores at most `numSamples` residuals into `mPredictor [4096]` (exactly
    `numSamples` when it reports success) — a zero run longer than what is left of the frame is refused.
  * `unpc_block_length`: `unpc_block` produces exactly `num` samples from `num` residuals (mMixBufferU / V [4096]); its
    warm-up loop touches indices up to the predictor order, which the 5-bit field keeps below 32.
  * `alac_decode_total`: the element loop ends within `3 * byteSize + 1` rounds (every round consumes at least the 3 tag
    bits while `cur < end`): the model's fuel is never exhausted — the result does not depend on it.
  * `alac_decode_history_witness`: what is NOT true — the frames handed out are a function of the packet only. A packet
    whose second element is longer than its first delivers samples of the previous packet (alac.c never clears
    `plac->buffer`): concrete witness. Not a memory error; recorded as an observation.
-/
import SfProofs.AlacBounds
import SfProofs.AlacPos
namespace Sf.AlacCore

/-- what `alac_decode` may store: frame count, channel count, samples per channel -/
def Res.InBounds (res : Res) (numChannels : Nat) : Prop :=
  res.outNum ≤ frameLen ∧ res.written.length ≤ numChannels ∧ ∀ ch ∈ res.written, ch.length ≤ frameLen

theorem zeroFill_inBounds (nc n : Nat) (written : List (List Int)) (hw : written.length ≤ nc) (hn : n ≤ frameLen)
    (hc : ∀ ch ∈ written, ch.length ≤ frameLen) :
    (zeroFill nc n written).length ≤ nc ∧ ∀ ch ∈ zeroFill nc n written, ch.length ≤ frameLen := by
  unfold zeroFill
  constructor
  · simp; omega
  · intro ch hch
    simp only [List.mem_append, List.mem_replicate] at hch
    rcases hch with h | ⟨_, rfl⟩
    · exact hc ch h
    · simpa using hn

theorem decLoop_inBounds (ru : Rules) (cfg : Config) (byteSize : Nat) : ∀ (fuel : Nat) (s : St),
    s.numSamples ≤ frameLen → s.outNum ≤ frameLen → s.written.length < cfg.numChannels → (∀ ch ∈ s.written, ch.length ≤ frameLen) →
    (decLoop (comp ru byteSize) ru cfg byteSize fuel s).InBounds cfg.numChannels := by
  intro fuel
  induction fuel with
  | zero => intro s h1 h2 h3 h4; exact ⟨h2, Nat.le_of_lt h3, h4⟩
  | succ fuel ih =>
    intro s h1 h2 h3 h4
    have base : ∀ (st : Status) (p : Nat), (Res.mk st s.outNum s.written p).InBounds cfg.numChannels := fun _ _ => ⟨h2, Nat.le_of_lt h3, h4⟩
    have zf : ∀ (st : Status) (p : Nat), (Res.mk st s.outNum (zeroFill cfg.numChannels s.numSamples s.written) p).InBounds cfg.numChannels := by
      intro st p
      have := zeroFill_inBounds cfg.numChannels s.numSamples s.written (Nat.le_of_lt h3) h1 h4
      exact ⟨h2, this.1, this.2⟩
    have audio : ∀ (e : ElemRes) (k : Nat), s.written.length + k ≤ cfg.numChannels →
        (∀ n chans r', e = .done n chans r' → (n = s.numSamples ∨ n < frameLen) ∧ chans.length = k ∧ ∀ ch ∈ chans, ch.length ≤ n) →
        (match e with
          | .fail st r => (⟨st, s.outNum, s.written, r.pos⟩ : Res)
          | .done n chans r =>
            if (s.written ++ chans).length ≥ cfg.numChannels then ⟨.ok, n, zeroFill cfg.numChannels n (s.written ++ chans), r.pos⟩
            else decLoop (comp ru byteSize) ru cfg byteSize fuel ⟨r, n, n, s.written ++ chans⟩).InBounds cfg.numChannels := by
      intro e k hk hb
      cases e with
      | fail st r => exact base _ _
      | done n chans r =>
        obtain ⟨hn, hl, hc⟩ := hb n chans r rfl
        have hn' : n ≤ frameLen := by rcases hn with rfl | h <;> omega
        have hall : ∀ ch ∈ s.written ++ chans, ch.length ≤ frameLen := by
          intro ch hch
          rcases List.mem_append.mp hch with h | h
          · exact h4 ch h
          · have := hc ch h; omega
        simp only
        split
        · have := zeroFill_inBounds cfg.numChannels n (s.written ++ chans) (by simp; omega) hn' hall
          exact ⟨hn', this.1, this.2⟩
        · rename_i hlt
          exact ih ⟨r, n, n, s.written ++ chans⟩ hn' hn' (by simpa using hlt) hall
    rw [decLoop]
    split
    · exact base _ _
    · rcases s.r.read 3 with ⟨tag, r⟩
      simp only []
      split
      · exact audio _ 1 (by omega) (fun n chans r' e => decMono_bounds ru byteSize cfg s.numSamples r r' n chans e)
      · split
        · split
          · exact zf _ _
          · exact audio _ 2 (by omega) (fun n chans r' e => decPair_bounds ru byteSize cfg s.numSamples r r' n chans e)
        · split
          · exact zf _ _
          · split
            · split
              · exact zf _ _
              · split
                · exact zf _ _
                · exact ih { s with r := (decDse byteSize r).2 } h1 h2 h3 h4
            · split
              · split
                · exact zf _ _
                · split
                  · exact zf _ _
                  · exact ih { s with r := (decFill byteSize r).2 } h1 h2 h3 h4
              · exact base _ _

/-- every store of `alac_decode` into the caller's sample buffer is in range, for every packet, every stale content of the
    byte buffer behind it, every configuration and every requested frame count up to 4096 -/
theorem alac_decode_in_bounds (ru : Rules) (cfg : Config) (image : List Byte) (byteSize numSamples : Nat) (hn : numSamples ≤ frameLen) :
    (decodeR ru cfg image byteSize numSamples).InBounds cfg.numChannels := by
  unfold decodeR decodeWith
  split
  · exact ⟨by simp [frameLen], by simp, by simp⟩
  · rename_i hc
    exact decLoop_inBounds ru cfg byteSize _ _ hn hn (by simpa using Nat.pos_of_ne_zero hc) (by simp)

/-- `dyn_decomp` never stores more than `numSamples` residuals, and exactly `numSamples` when it succeeds -/
theorem dyn_decomp_in_bounds (p : AgParams) (r : Rd) (byteSize numSamples maxSize : Nat) :
    (dynDecomp p r byteSize numSamples maxSize).1.out.length ≤ numSamples ∧
    ((dynDecomp p r byteSize numSamples maxSize).1.ok = true → (dynDecomp p r byteSize numSamples maxSize).1.out.length = numSamples) :=
  dynDecomp_length p r byteSize numSamples maxSize

/-- `unpc_block`: `num` residuals in, `num` samples out, whatever the coefficients, order, width and shift -/
theorem unpc_block_length (pc1 coefs : List Int) (numactive chanbits denshift : Nat) :
    (unpcBlock pc1 coefs numactive chanbits denshift).length = pc1.length :=
  unpcBlock_length pc1 coefs numactive chanbits denshift

/-- non-vacuity: a hostile packet (ID_SCE, partial frame of 5 samples, compressed, predictor order 30, then garbage) is
    decoded within the bounds, with an error status -/
example : (decode ⟨16, 2, 40, 10, 14, 255⟩ [0x00, 0x00, 0x10, 0x00, 0x00, 0x00, 0xA0, 0x00, 0x09, 0x9E, 0xFF, 0xFF, 0xFF, 0x12] 14 4096).InBounds 2 :=
  alac_decode_in_bounds _ _ _ _ _ (by decide)

theorem decLoop_fuel (ru : Rules) (cfg : Config) (byteSize : Nat) : ∀ (f : Nat) (s : St), 8 * byteSize ≤ s.r.pos + 3 * f → ∀ g, f ≤ g →
    decLoop (comp ru byteSize) ru cfg byteSize f s = decLoop (comp ru byteSize) ru cfg byteSize g s := by
  intro f
  induction f with
  | zero =>
    intro s hs g _
    cases g with
    | zero => rfl
    | succ g =>
      have hc : s.r.curByte ≥ byteSize := by simp only [Rd.curByte]; omega
      rw [decLoop, decLoop]
      simp only [hc, if_true]
  | succ f ih =>
    intro s hs g hg
    obtain ⟨g, rfl⟩ : ∃ g', g = g' + 1 := ⟨g - 1, by omega⟩
    have key : ∀ s1 : St, s.r.pos + 3 ≤ s1.r.pos →
        decLoop (comp ru byteSize) ru cfg byteSize f s1 = decLoop (comp ru byteSize) ru cfg byteSize g s1 :=
      fun s1 h => ih s1 (by omega) g (by omega)
    rw [decLoop, decLoop]
    by_cases hc : s.r.curByte ≥ byteSize
    · simp only [hc, if_true]
    · simp only [hc, if_false]
      have hp : ((s.r.read 3).2).pos = s.r.pos + 3 := by simp [read_eq]
      generalize s.r.read 3 = tr at hp ⊢
      obtain ⟨tag, r⟩ := tr
      simp only at hp ⊢
      by_cases h1 : tag = ID_SCE ∨ tag = ID_LFE
      · simp only [h1, if_true]
        have hm := decMono_pos ru byteSize cfg s.numSamples r
        cases hd : decMono (comp ru byteSize) ru cfg s.numSamples r with
        | fail st r' => rfl
        | done n chans r' =>
          rw [hd] at hm
          simp only [ElemRes.rd] at hm ⊢
          rw [key ⟨r', n, n, s.written ++ chans⟩ (by simp only; omega)]
      · simp only [h1, if_false]
        by_cases h2 : tag = ID_CPE
        · simp only [h2, if_true]
          by_cases h3 : s.written.length + 2 > cfg.numChannels
          · simp only [h3, if_true]
          · simp only [h3, if_false]
            have hm := decPair_pos ru byteSize cfg s.numSamples r
            cases hd : decPair (comp ru byteSize) ru cfg s.numSamples r with
            | fail st r' => rfl
            | done n chans r' =>
              rw [hd] at hm
              simp only [ElemRes.rd] at hm ⊢
              rw [key ⟨r', n, n, s.written ++ chans⟩ (by simp only; omega)]
        · simp only [h2, if_false]
          have k1 := key { s with r := (decDse byteSize r).2 } (by have := decDse_pos byteSize r; simp only; omega)
          have k2 := key { s with r := (decFill byteSize r).2 } (by have := decFill_pos byteSize r; simp only; omega)
          rw [k1, k2]

/-- the element loop of `alac_decode` ends: `3 * byteSize + 1` rounds are enough for every packet (each round consumes at
    least the three tag bits while the position is inside the packet) — more fuel never changes the result -/
theorem alac_decode_total (ru : Rules) (cfg : Config) (image : List Byte) (byteSize numSamples extra : Nat) :
    decLoop (comp ru byteSize) ru cfg byteSize (3 * byteSize + 1 + extra) ⟨Rd.ofBytes image, numSamples, numSamples, []⟩ =
      decLoop (comp ru byteSize) ru cfg byteSize (3 * byteSize + 1) ⟨Rd.ofBytes image, numSamples, numSamples, []⟩ :=
  (decLoop_fuel ru cfg byteSize (3 * byteSize + 1) _ (by simp [Rd.ofBytes]; omega) _ (by omega)).symm

/-- a well-formed-looking hostile packet for a 16-bit stereo file: an ID_SCE element with a partial frame of ONE
    uncompressed sample, then an ID_LFE element with a partial frame of TWO -/
def historyPacket : List Byte :=
  pack (bitsOf ID_SCE 3 ++ bitsOf 0 4 ++ bitsOf 0 12 ++ bitsOf 9 4 ++ bitsOf 1 32 ++ bitsOf 0x1234 16 ++
        bitsOf ID_LFE 3 ++ bitsOf 0 4 ++ bitsOf 0 12 ++ bitsOf 9 4 ++ bitsOf 2 32 ++ bitsOf 1 16 ++ bitsOf 2 16 ++ bitsOf ID_END 3)

/-- the frames `alac_decode` leaves in `plac->buffer` are NOT a function of the packet alone: the packet above is decoded
    without error to 2 frames, channel 0 of frame 1 is whatever the buffer held before (two histories, two results) -/
theorem alac_decode_history_witness :
    let res := decode ⟨16, 2, 40, 10, 14, 255⟩ historyPacket historyPacket.length 4096
    res.status = .ok ∧ res.outNum = 2 ∧ res.written = [[0x12340000], [0x10000, 0x20000]] ∧
    transpose res.outNum (applyOut [[0, 0], [0, 0]] 2 res.written) = [[0x12340000, 0x10000], [0, 0x20000]] ∧
    transpose res.outNum (applyOut [[5, 0x77770000], [6, 7]] 2 res.written) = [[0x12340000, 0x10000], [0x77770000, 0x20000]] := by
  decide +kernel

end Sf.AlacCore
