/-
-- properties: C01
  C01 (ALAC, compressed path) — the decoder's stages invert the encoder's, whatever the encoder's search picks:

  * `alac_unpc_pc_inverse` (FULL for orders 0 … 30): `unpc_block (pc_block (x)) = x` for every predictor order except the
    first-order mode 31 (never written by the encoder), every starting coefficient row, every denominator shift, every
    channel width up to 32 bits and every block of samples that fit the width — the sign-driven coefficient adaptation
    runs identically on both sides, int32 wrap-around included (lean/SfModel/AlacDp.lean, AlacEnc.lean; dp_dec.c, dp_enc.c).
  * `alac_unmix_mix_inverse` (FULL under the stated no-overflow conditions): `unmix (mix (l, r)) = (l, r)` for every
    mixbits and mixres as long as `l - r`, `mixres * l + (2^mixbits - mixres) * r` and `mixres * (l - r)` are int32
    values; `alac_unmix_mix_encoder`: the conditions hold for everything the encoder does (mixbits 2, mixres 0 … 4,
    inputs of at most 25 bits: 16 / 20-bit samples, 24 / 32-bit samples with the low bytes shifted off).
  The adaptive Golomb coder is lean/SfProps/C01AlacGolomb.lean (`dyn_decomp (dyn_comp (r)) = r`); the packet-level statements
  (parameter block + shift bytes + the three inverses put together, the encoder's searches included) are C01AlacLossless.lean (mono)
  and C01AlacLosslessAll.lean (`alac_lossless`, 1 … 8 channels).
-/
import SfProofs.AlacMix
namespace Sf.AlacCore

theorem alac_unpc_pc_inverse (inp coefs : List Int) (numactive chanbits denshift : Nat) (hcb : chanbits ≤ 32) (hna : numactive ≠ 31)
    (hfit : ∀ x ∈ inp, sx chanbits x = x) :
    unpcBlock (pcBlock inp coefs numactive chanbits denshift).1 coefs numactive chanbits denshift = inp :=
  unpcBlock_pcBlock inp coefs numactive chanbits denshift hcb hna hfit

/-- non-vacuity: a 17-bit block (the side channel of a 16-bit pair), order 4, the encoder's initial coefficients -/
example : unpcBlock (pcBlock [65535, -65536, 3, 40000, -7, 12, 13, 14, -30000, 1] initCoefs 4 17 9).1 initCoefs 4 17 9 =
    [65535, -65536, 3, 40000, -7, 12, 13, 14, -30000, 1] :=
  alac_unpc_pc_inverse _ _ 4 17 9 (by decide) (by decide) (by decide)

theorem alac_unmix_mix_inverse (mixbits : Nat) (mixres l r : Int)
    (hl : w32 l = l) (hr : w32 r = r) (hv : w32 (l - r) = l - r)
    (hs : w32 (mixres * l + ((2 : Int) ^ mixbits - mixres) * r) = mixres * l + ((2 : Int) ^ mixbits - mixres) * r)
    (hq : w32 (mixres * (l - r)) = mixres * (l - r)) :
    unmixLR mixbits mixres (mixUV mixbits mixres l r).1 (mixUV mixbits mixres l r).2 = (l, r) :=
  unmixLR_mixUV mixbits mixres l r hl hr hv hs hq

/-- what the encoder does: mixbits 2, mixres 0 … 4, inputs of at most 25 bits -/
theorem alac_unmix_mix_encoder (mixres l r : Int) (hm : 0 ≤ mixres ∧ mixres ≤ 4)
    (hl : -16777216 ≤ l ∧ l < 16777216) (hr : -16777216 ≤ r ∧ r < 16777216) :
    unmixLR 2 mixres (mixUV 2 mixres l r).1 (mixUV 2 mixres l r).2 = (l, r) := by
  obtain ⟨m0, m4⟩ := hm
  have hmr : mixres = 0 ∨ mixres = 1 ∨ mixres = 2 ∨ mixres = 3 ∨ mixres = 4 := by omega
  apply alac_unmix_mix_inverse
  · exact w32_of_fits (by omega) (by omega)
  · exact w32_of_fits (by omega) (by omega)
  · exact w32_of_fits (by omega) (by omega)
  · rcases hmr with rfl | rfl | rfl | rfl | rfl <;> exact w32_of_fits (by norm_num; omega) (by norm_num; omega)
  · rcases hmr with rfl | rfl | rfl | rfl | rfl <;> exact w32_of_fits (by omega) (by omega)

example : unmixLR 2 3 (mixUV 2 3 (-8388608) 8388607).1 (mixUV 2 3 (-8388608) 8388607).2 = (-8388608, 8388607) :=
  alac_unmix_mix_encoder 3 _ _ (by decide) (by decide) (by decide)

end Sf.AlacCore
