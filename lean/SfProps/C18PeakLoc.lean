/-
  C18 — "the per-channel peak value and position stored at close … SFC_GET_SIGNAL_MAX / SFC_GET_MAX_ALL_CHANNELS return those values
  after re-open": the chunk must still be THERE after the close, wherever the file carried it.  Property theorems only; model
  lean/SfModel/PeakLoc.lean; campaign vlib/c18foreign.py (foreign-but-valid placements x SFM_RDWR sessions).
-/
import SfModel.PeakLoc
namespace Sf.C18PeakLoc
open Sf.PeakLoc

/-- FULL STRENGTH: a writer whose tailer has the PEAK clause closes to a file with exactly ONE PEAK chunk, which the parser reads back
    with the values the handle held and at the location it had — for both locations, with or without strings behind the audio -/
theorem close_keeps_peak (loc : Loc) (p : Peaks) (s : Bool) :
    peakCount (closeFile ⟨true⟩ (some (loc, p)) s) = 1 ∧ parse (closeFile ⟨true⟩ (some (loc, p)) s) = some (loc, p) := by
  cases loc <;> cases s <;> simp [closeFile, header, tailer, peakCount, parse, parseGo]

/-- a handle without PEAK data closes to a file without a PEAK chunk -/
theorem close_without_peak (w : Writer) (s : Bool) :
    peakCount (closeFile w none s) = 0 ∧ parse (closeFile w none s) = none := by
  cases s <;> simp [closeFile, header, tailer, peakCount, parse, parseGo]

/-- the location is stable: closing what was parsed from a closed file gives the same chunk list -/
theorem close_parse_close (loc : Loc) (p : Peaks) (s : Bool) :
    closeFile ⟨true⟩ (parse (closeFile ⟨true⟩ (some (loc, p)) s)) s = closeFile ⟨true⟩ (some (loc, p)) s := by
  rw [(close_keeps_peak loc p s).2]

/-- a tailer WITHOUT the PEAK clause (the shared tailer of seed C18-wavlike-tailer-peak-end-lost; rf64_write_tailer) is
    indistinguishable on every file the library laid out itself (PEAK in front) … -/
theorem tailer_without_peak_same_at_start (p : Peaks) (s : Bool) :
    closeFile ⟨false⟩ (some (.start, p)) s = closeFile ⟨true⟩ (some (.start, p)) s := by
  cases s <;> simp [closeFile, header, tailer]

/-- … and silently loses the chunk of a file that carries it behind the audio: no PEAK chunk, the parser finds no PEAK data -/
theorem tailer_without_peak_loses_end_peak (p : Peaks) (s : Bool) :
    peakCount (closeFile ⟨false⟩ (some (.atEnd, p)) s) = 0 ∧ parse (closeFile ⟨false⟩ (some (.atEnd, p)) s) = none := by
  cases s <;> simp [closeFile, header, tailer, peakCount, parse, parseGo]

/-- the parser's location rule on foreign layouts: PEAK anywhere in front of `data` is `start`, anywhere behind it `atEnd`,
    whatever other chunks stand around it -/
theorem parse_foreign_layouts (p : Peaks) (a b : Nat) :
    parse [.fmt, .other a, .peak p, .data] = some (.start, p) ∧ parse [.fmt, .data, .peak p] = some (.atEnd, p) ∧
    parse [.fmt, .data, .other a, .peak p, .other b] = some (.atEnd, p) ∧ parse [.fmt, .data, .peak p, .list] = some (.atEnd, p) := by
  simp [parse, parseGo]

-- non-vacuity
example : closeFile ⟨true⟩ (some (.atEnd, [(0x3F000000, 8)])) true = [.fmt, .data, .peak [(0x3F000000, 8)], .list] := by decide
example : closeFile ⟨false⟩ (some (.atEnd, [(0x3F000000, 8)])) true = [.fmt, .data, .list] := by decide

end Sf.C18PeakLoc
