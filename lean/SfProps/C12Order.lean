/-
  C12 — `meta_order_independent`: what the GET calls return does not depend on the order in which the items were set.

  Two layers.  (1) A general fact about state machines whose steps only touch "their own" component (`foldl_perm_of_keyed`).
  (2) The string table: after any sequence of accepted sf_set_string calls with pairwise different types, `get` returns for each
  type the text set for it (`get_run`), whatever slots the calls ended up in; the other items (bext, cart, cue points,
  instrument) are separate fields of the handle and "the last accepted call wins".  The placement that does depend on the order
  — which slot a string occupies, hence the order of the items inside LIST/INFO — is not visible through the GET calls.
-/
import SfModel.Meta
import SfProofs.MetaBytes
import SfProofs.MetaStrings
import SfProps.C12
namespace Sf.Meta

/-! ## 1. keyed folds -/

/-- in a list with pairwise different keys, the element with a given key is found wherever it stands -/
theorem find_key_of_nodup {α κ} [DecidableEq κ] (key : α → κ) (l : List α) (hn : (l.map key).Nodup) (a : α) (ha : a ∈ l) :
    l.find? (fun x => decide (key x = key a)) = some a := by
  induction l with
  | nil => simp at ha
  | cons b t ih =>
    simp only [List.map_cons, List.nodup_cons] at hn
    rcases List.mem_cons.mp ha with rfl | ha'
    · simp [List.find?_cons]
    · have hne : ¬ key b = key a := by
        intro h; apply hn.1; rw [h]; exact List.mem_map_of_mem ha'
      simp [List.find?_cons, hne, ih hn.2 ha']

/-- … so `find?` by key does not depend on the order -/
theorem find_key_perm {α κ} [DecidableEq κ] (key : α → κ) (l l' : List α) (hp : l.Perm l') (hn : (l.map key).Nodup) (k : κ) :
    l.find? (fun x => decide (key x = k)) = l'.find? (fun x => decide (key x = k)) := by
  have hn' : (l'.map key).Nodup := (hp.map key).nodup_iff.mp hn
  cases h : l.find? (fun x => decide (key x = k)) with
  | some a =>
    have ha := List.mem_of_find?_eq_some h
    have hk : key a = k := by simpa using List.find?_some h
    have := find_key_of_nodup key l' hn' a (hp.mem_iff.mp ha)
    rw [hk] at this; exact this.symm
  | none =>
    symm
    rw [List.find?_eq_none] at h ⊢
    intro x hx; exact h x (hp.mem_iff.mpr hx)

/-- a fold in which only the element with key `k` can change the state: the result is determined by that element -/
theorem foldl_keyed {σ α κ} [DecidableEq κ] (f : σ → α → σ) (key : α → κ) (k : κ) (hid : ∀ x a, key a ≠ k → f x a = x)
    (l : List α) (hn : (l.map key).Nodup) (x : σ) :
    l.foldl f x = match l.find? (fun a => decide (key a = k)) with | some a => f x a | none => x := by
  induction l generalizing x with
  | nil => simp
  | cons b t ih =>
    simp only [List.map_cons, List.nodup_cons] at hn
    simp only [List.foldl_cons, List.find?_cons]
    by_cases hb : key b = k
    · simp only [hb, decide_true]
      -- nothing behind `b` has key `k`
      have hnone : t.find? (fun a => decide (key a = k)) = none := by
        rw [List.find?_eq_none]; intro a ha; simp only [decide_eq_true_eq]
        intro hak; apply hn.1; rw [hb, ← hak]; exact List.mem_map_of_mem ha
      rw [ih hn.2, hnone]
    · simp only [hb, decide_false]
      rw [hid x b hb, ih hn.2]

/-- order independence of such a fold -/
theorem foldl_perm_of_keyed {σ α κ} [DecidableEq κ] (f : σ → α → σ) (key : α → κ) (k : κ) (hid : ∀ x a, key a ≠ k → f x a = x)
    (l l' : List α) (hp : l.Perm l') (hn : (l.map key).Nodup) (x : σ) : l.foldl f x = l'.foldl f x := by
  rw [foldl_keyed f key k hid l hn, foldl_keyed f key k hid l' ((hp.map key).nodup_iff.mp hn), find_key_perm key l l' hp hn k]

/-! ## 2. the string table -/

theorem cstr_append_zero_gen (s r : List Byte) : cstr (s ++ 0 :: r) = cstr s := by
  induction s with
  | nil => simp [cstr]
  | cons a t ih =>
    simp only [cstr, List.cons_append, List.takeWhile_cons] at ih ⊢
    split
    · rw [ih]
    · rfl

theorem firstFree_type (l : List Slot) (h : firstFree l < l.length) : (l[firstFree l]'h).type = 0 := by
  induction l with
  | nil => simp at h
  | cons s t ih =>
    simp only [firstFree] at h ⊢
    split
    · rename_i h0; simpa using h0
    · rename_i h0
      simp only [h0, if_false, List.length_cons] at h
      simp only [List.getElem_cons_succ]
      exact ih (by omega)

theorem markBefore_getElem (ty : Int) (k : Nat) (l : List Slot) (h : k < l.length) :
    ((markBefore ty k l)[k]'(by rw [markBefore_length]; exact h)) = l[k] := by
  induction l generalizing k with
  | nil => simp at h
  | cons s t ih =>
    cases k with
    | zero => simp [markBefore]
    | succ k => simp only [markBefore, List.getElem_cons_succ]; exact ih k (by simpa using h)

/-- after the marks and the store, the lookup of the stored type finds the new slot -/
theorem find_set_marked (ty : Int) (hty : ty ≠ -1) (l : List Slot) (k : Nat) (x : Slot) (hk : k < l.length) (hx : x.type = ty) :
    ((markBefore ty k l).set k x).find? (fun s => decide (s.type = ty)) = some x := by
  induction l generalizing k with
  | nil => simp at hk
  | cons a t ih =>
    cases k with
    | zero => simp [markBefore, List.find?_cons, hx]
    | succ k =>
      simp only [markBefore, List.set_cons_succ, List.find?_cons]
      have : ¬ (if a.type = ty then ({ a with type := -1 } : Slot) else a).type = ty := by
        split
        · simpa using fun h => hty h.symm
        · assumption
      simp only [this, decide_false]
      exact ih k (by simpa using hk)

/-- … and the lookup of any other type is not affected by writing a slot that was free -/
theorem find_set_other (ty' : Int) (l : List Slot) (k : Nat) (x : Slot) (hk : k < l.length) (h0 : l[k].type ≠ ty') (hx : x.type ≠ ty') :
    (l.set k x).find? (fun s => decide (s.type = ty')) = l.find? (fun s => decide (s.type = ty')) := by
  induction l generalizing k with
  | nil => simp at hk
  | cons a t ih =>
    cases k with
    | zero =>
      simp only [List.getElem_cons_zero] at h0
      simp [List.find?_cons, h0, hx]
    | succ k =>
      simp only [List.set_cons_succ, List.find?_cons]
      split
      · rfl
      · exact ih k (by simpa using hk) (by simpa using h0)

/-- the text a successful call stores -/
def storedText (e : Env) (ty : Int) (str : List Byte) : List Byte :=
  if ty = 3 && isWriteMode e.mode then softwareText e.pkgName e.pkgVersion str else str

/-- what a successful psf_store_string did to the table -/
theorem store_ok (e : Env) (t : Strings) (ty : Int) (str : List Byte) (hok : (store e t ty str).1 = 0) :
    firstFree t.slots < t.slots.length ∧ validType ty = true ∧
    (∃ fl, (store e t ty str).2.slots = (markBefore ty (firstFree t.slots) t.slots).set (firstFree t.slots) ⟨ty, fl, t.storage.length⟩) ∧
    (store e t ty str).2.storage = t.storage ++ storedText e ty str ++ [0] := by
  have key : ∀ r, store e t ty str = r → r.1 = 0 →
      firstFree t.slots < t.slots.length ∧ validType ty = true ∧
      (∃ fl, r.2.slots = (markBefore ty (firstFree t.slots) t.slots).set (firstFree t.slots) ⟨ty, fl, t.storage.length⟩) ∧
      r.2.storage = t.storage ++ storedText e ty str ++ [0] := by
    intro r hr
    unfold store at hr
    split at hr; · subst hr; intro h; dsimp only at h; exact absurd h (by decide)
    split at hr; · subst hr; intro h; dsimp only at h; exact absurd h (by decide)
    split at hr; · subst hr; intro h; dsimp only at h; exact absurd h (by decide)
    dsimp only at hr
    split at hr; · subst hr; intro h; dsimp only at h; exact absurd h (by decide)
    split at hr; · subst hr; intro h; dsimp only at h; exact absurd h (by decide)
    split at hr; · subst hr; intro h; dsimp only at h; exact absurd h (by decide)
    split at hr; · subst hr; intro h; dsimp only at h; exact absurd h (by decide)
    split at hr; · subst hr; intro h; dsimp only at h; exact absurd h (by decide)
    rename_i hk _ _ hvalid
    subst hr
    intro _
    refine ⟨by omega, by simpa using hvalid, ⟨_, rfl⟩, ?_⟩
    simp [storedText]
  exact key _ rfl hok

/-- a successful psf_store_string: `get` returns the new text for its type and what it returned before for every other type -/
theorem store_get (e : Env) (t : Strings) (ty : Int) (str : List Byte) (hinv : t.Inv) (hok : (store e t ty str).1 = 0) :
    get (store e t ty str).2 ty = some (cstr (storedText e ty str)) ∧
    ∀ ty' : Int, ty' > 0 → ty' ≠ ty → get (store e t ty str).2 ty' = get t ty' := by
  obtain ⟨hkl, hvalid, ⟨fl, hslots⟩, hstorage⟩ := store_ok e t ty str hok
  have htyv : ty ≠ -1 ∧ ty ≠ 0 := by
    unfold validType at hvalid
    constructor <;> (intro h; subst h; simp at hvalid)
  obtain ⟨h1, h2, h3⟩ := hinv
  simp only [Strings.used] at h2 h3
  generalize storedText e ty str = text at hstorage ⊢
  constructor
  · simp only [get, hslots, hstorage]
    rw [find_set_marked ty htyv.1 t.slots _ _ hkl rfl]
    simp only [Option.map_some]
    rw [List.append_assoc, List.drop_left]
    simp [cstr_append_zero_gen]
  · intro ty' hpos hne
    simp only [get, hslots, hstorage]
    have hmk : (firstFree t.slots) < (markBefore ty (firstFree t.slots) t.slots).length := by rw [markBefore_length]; exact hkl
    rw [find_set_other ty' _ _ _ hmk (by rw [markBefore_getElem ty _ _ hkl, firstFree_type _ hkl]; omega) (by simpa using fun h => hne h.symm)]
    rw [markBefore_find_other ty ty' _ _ hne (by omega)]
    cases hf : t.slots.find? (fun s => decide (s.type = ty')) with
    | none => rfl
    | some s =>
      have hs := List.mem_of_find?_eq_some hf
      have hst : s.type = ty' := by simpa using List.find?_some hf
      obtain ⟨a, b⟩ := h3 s hs (by omega)
      simp only [Option.map_some]
      rw [List.append_assoc, List.drop_append_of_le_length (by omega), cstr_append_of_lt _ _ (by simp only [List.length_drop]; omega)]

/-- sf_set_string calls: (type, text) -/
abbrev Call := Int × List Byte

def runStr (e : Env) (t : Strings) (calls : List Call) : Strings := calls.foldl (fun t c => (store e t c.1 c.2).2) t

/-- every call of the sequence is accepted -/
def allOk (e : Env) : Strings → List Call → Prop
  | _, [] => True
  | t, c :: rest => (store e t c.1 c.2).1 = 0 ∧ allOk e (store e t c.1 c.2).2 rest

/-- what `get` returns after a sequence of accepted calls, one step at a time -/
theorem get_run (e : Env) (calls : List Call) : ∀ (t : Strings), t.Inv → allOk e t calls → ∀ ty : Int, ty > 0 →
    get (runStr e t calls) ty = calls.foldl (fun x c => if c.1 = ty then some (cstr (storedText e c.1 c.2)) else x) (get t ty) := by
  induction calls with
  | nil => intro t _ _ ty _; rfl
  | cons c rest ih =>
    intro t hinv hok ty hty
    obtain ⟨h0, hrest⟩ := hok
    have hinv' := store_inv e t c.1 c.2 hinv
    obtain ⟨hsame, hother⟩ := store_get e t c.1 c.2 hinv h0
    simp only [runStr, List.foldl_cons] at ih ⊢
    rw [ih _ hinv' hrest ty hty]
    by_cases hc : c.1 = ty
    · subst hc; simp [hsame]
    · simp only [hc, if_false]; rw [hother ty hty (fun h => hc h.symm)]

/-- `meta_order_independent`, strings: two accepted orders of the same sf_set_string calls (pairwise different types) on the same
    handle give tables from which sf_get_string returns the same text for every type -/
theorem strings_order_independent (e : Env) (t : Strings) (hinv : t.Inv) (calls calls' : List Call) (hp : calls.Perm calls')
    (hn : (calls.map (·.1)).Nodup) (hok : allOk e t calls) (hok' : allOk e t calls') (ty : Int) (hty : ty > 0) :
    get (runStr e t calls) ty = get (runStr e t calls') ty := by
  rw [get_run e calls t hinv hok ty hty, get_run e calls' t hinv hok' ty hty]
  exact foldl_perm_of_keyed _ (fun c : Call => c.1) ty (by intro x a h; simp [h]) calls calls' hp hn _

/-! ## 3. the other items: separate fields of the handle -/

def runOps (pn pv : List Byte) (h : MetaState) (ops : List Op) : MetaState := ops.foldl (fun h op => (step pn pv h op).2) h

/-- which item a call sets: (kind, string type) -/
def itemKey : Op → Nat × Int
  | .setString ty _ => (0, ty)
  | .setBext .. => (1, 0)
  | .setCart .. => (2, 0)
  | .setCues _ => (3, 0)
  | .setInst _ => (4, 0)
  | .writeAudio _ => (5, 0)

/-! ### the field `bext` of the handle -/

def VB (h : MetaState) : Container × Mode × Bool × Option Bext := (h.cont, h.mode, h.haveWritten, h.bext)
def injB (x : Container × Mode × Bool × Option Bext) : MetaState :=
  { MetaState.open x.1 with mode := x.2.1, haveWritten := x.2.2.1, bext := x.2.2.2 }
def gB (pn pv : List Byte) (x : Container × Mode × Bool × Option Bext) (op : Op) : Container × Mode × Bool × Option Bext :=
  if op.isAudio then x else VB (step pn pv (injB x) op).2

/-- what a call does to this field depends on this field (and the container, the mode, have_written) only -/
theorem VB_congr (pn pv : List Byte) (h1 h2 : MetaState) (op : Op) (hv : VB h1 = VB h2) :
    VB (step pn pv h1 op).2 = VB (step pn pv h2 op).2 := by
  obtain ⟨c1, m1, w1, s1, b1, ca1, q1, i1, a1⟩ := h1
  obtain ⟨c2, m2, w2, s2, b2, ca2, q2, i2, a2⟩ := h2
  simp only [VB, Prod.mk.injEq] at hv
  obtain ⟨rfl, rfl, rfl, rfl⟩ := hv
  cases op <;> simp only [step, VB] <;> (repeat' split) <;> rfl

theorem VB_step (pn pv : List Byte) (h : MetaState) (op : Op) (ha : op.isAudio = false) :
    VB (step pn pv h op).2 = gB pn pv (VB h) op := by
  simp only [gB, ha, Bool.false_eq_true, if_false]
  exact VB_congr pn pv h (injB (VB h)) op rfl

theorem VB_other (pn pv : List Byte) (h : MetaState) (op : Op) (hk : itemKey op ≠ (1, 0)) (ha : op.isAudio = false) :
    VB (step pn pv h op).2 = VB h := by
  obtain ⟨c, m, w, s, b, ca, q, i, a⟩ := h
  cases op <;> simp only [step, VB] <;> (repeat' split) <;> first | rfl | exact absurd rfl hk | exact absurd ha (by simp [Op.isAudio])

theorem gB_other (pn pv : List Byte) (x : Container × Mode × Bool × _) (op : Op) (hk : itemKey op ≠ (1, 0)) : gB pn pv x op = x := by
  unfold gB
  by_cases ha : op.isAudio = true
  · simp [ha]
  · simp only [ha, Bool.false_eq_true, if_false]
    rw [VB_other pn pv _ op hk (by simpa using ha)]
    obtain ⟨c, m, w, f⟩ := x
    rfl

theorem runB (pn pv : List Byte) (ops : List Op) (hna : ∀ op ∈ ops, op.isAudio = false) :
    ∀ h, VB (runOps pn pv h ops) = ops.foldl (gB pn pv) (VB h) := by
  induction ops with
  | nil => intro h; rfl
  | cons op rest ih =>
    intro h
    simp only [runOps, List.foldl_cons] at ih ⊢
    rw [ih (fun o ho => hna o (by simp [ho])), VB_step pn pv h op (hna op (by simp))]

/-! ### the field `cart` of the handle -/

def VC (h : MetaState) : Container × Mode × Bool × Option Cart := (h.cont, h.mode, h.haveWritten, h.cart)
def injC (x : Container × Mode × Bool × Option Cart) : MetaState :=
  { MetaState.open x.1 with mode := x.2.1, haveWritten := x.2.2.1, cart := x.2.2.2 }
def gC (pn pv : List Byte) (x : Container × Mode × Bool × Option Cart) (op : Op) : Container × Mode × Bool × Option Cart :=
  if op.isAudio then x else VC (step pn pv (injC x) op).2

/-- what a call does to this field depends on this field (and the container, the mode, have_written) only -/
theorem VC_congr (pn pv : List Byte) (h1 h2 : MetaState) (op : Op) (hv : VC h1 = VC h2) :
    VC (step pn pv h1 op).2 = VC (step pn pv h2 op).2 := by
  obtain ⟨c1, m1, w1, s1, b1, ca1, q1, i1, a1⟩ := h1
  obtain ⟨c2, m2, w2, s2, b2, ca2, q2, i2, a2⟩ := h2
  simp only [VC, Prod.mk.injEq] at hv
  obtain ⟨rfl, rfl, rfl, rfl⟩ := hv
  cases op <;> simp only [step, VC] <;> (repeat' split) <;> rfl

theorem VC_step (pn pv : List Byte) (h : MetaState) (op : Op) (ha : op.isAudio = false) :
    VC (step pn pv h op).2 = gC pn pv (VC h) op := by
  simp only [gC, ha, Bool.false_eq_true, if_false]
  exact VC_congr pn pv h (injC (VC h)) op rfl

theorem VC_other (pn pv : List Byte) (h : MetaState) (op : Op) (hk : itemKey op ≠ (2, 0)) (ha : op.isAudio = false) :
    VC (step pn pv h op).2 = VC h := by
  obtain ⟨c, m, w, s, b, ca, q, i, a⟩ := h
  cases op <;> simp only [step, VC] <;> (repeat' split) <;> first | rfl | exact absurd rfl hk | exact absurd ha (by simp [Op.isAudio])

theorem gC_other (pn pv : List Byte) (x : Container × Mode × Bool × _) (op : Op) (hk : itemKey op ≠ (2, 0)) : gC pn pv x op = x := by
  unfold gC
  by_cases ha : op.isAudio = true
  · simp [ha]
  · simp only [ha, Bool.false_eq_true, if_false]
    rw [VC_other pn pv _ op hk (by simpa using ha)]
    obtain ⟨c, m, w, f⟩ := x
    rfl

theorem runC (pn pv : List Byte) (ops : List Op) (hna : ∀ op ∈ ops, op.isAudio = false) :
    ∀ h, VC (runOps pn pv h ops) = ops.foldl (gC pn pv) (VC h) := by
  induction ops with
  | nil => intro h; rfl
  | cons op rest ih =>
    intro h
    simp only [runOps, List.foldl_cons] at ih ⊢
    rw [ih (fun o ho => hna o (by simp [ho])), VC_step pn pv h op (hna op (by simp))]

/-! ### the field `cues` of the handle -/

def VQ (h : MetaState) : Container × Mode × Bool × Option (List Cue) := (h.cont, h.mode, h.haveWritten, h.cues)
def injQ (x : Container × Mode × Bool × Option (List Cue)) : MetaState :=
  { MetaState.open x.1 with mode := x.2.1, haveWritten := x.2.2.1, cues := x.2.2.2 }
def gQ (pn pv : List Byte) (x : Container × Mode × Bool × Option (List Cue)) (op : Op) : Container × Mode × Bool × Option (List Cue) :=
  if op.isAudio then x else VQ (step pn pv (injQ x) op).2

/-- what a call does to this field depends on this field (and the container, the mode, have_written) only -/
theorem VQ_congr (pn pv : List Byte) (h1 h2 : MetaState) (op : Op) (hv : VQ h1 = VQ h2) :
    VQ (step pn pv h1 op).2 = VQ (step pn pv h2 op).2 := by
  obtain ⟨c1, m1, w1, s1, b1, ca1, q1, i1, a1⟩ := h1
  obtain ⟨c2, m2, w2, s2, b2, ca2, q2, i2, a2⟩ := h2
  simp only [VQ, Prod.mk.injEq] at hv
  obtain ⟨rfl, rfl, rfl, rfl⟩ := hv
  cases op <;> simp only [step, VQ] <;> (repeat' split) <;> rfl

theorem VQ_step (pn pv : List Byte) (h : MetaState) (op : Op) (ha : op.isAudio = false) :
    VQ (step pn pv h op).2 = gQ pn pv (VQ h) op := by
  simp only [gQ, ha, Bool.false_eq_true, if_false]
  exact VQ_congr pn pv h (injQ (VQ h)) op rfl

theorem VQ_other (pn pv : List Byte) (h : MetaState) (op : Op) (hk : itemKey op ≠ (3, 0)) (ha : op.isAudio = false) :
    VQ (step pn pv h op).2 = VQ h := by
  obtain ⟨c, m, w, s, b, ca, q, i, a⟩ := h
  cases op <;> simp only [step, VQ] <;> (repeat' split) <;> first | rfl | exact absurd rfl hk | exact absurd ha (by simp [Op.isAudio])

theorem gQ_other (pn pv : List Byte) (x : Container × Mode × Bool × _) (op : Op) (hk : itemKey op ≠ (3, 0)) : gQ pn pv x op = x := by
  unfold gQ
  by_cases ha : op.isAudio = true
  · simp [ha]
  · simp only [ha, Bool.false_eq_true, if_false]
    rw [VQ_other pn pv _ op hk (by simpa using ha)]
    obtain ⟨c, m, w, f⟩ := x
    rfl

theorem runQ (pn pv : List Byte) (ops : List Op) (hna : ∀ op ∈ ops, op.isAudio = false) :
    ∀ h, VQ (runOps pn pv h ops) = ops.foldl (gQ pn pv) (VQ h) := by
  induction ops with
  | nil => intro h; rfl
  | cons op rest ih =>
    intro h
    simp only [runOps, List.foldl_cons] at ih ⊢
    rw [ih (fun o ho => hna o (by simp [ho])), VQ_step pn pv h op (hna op (by simp))]

/-! ### the field `inst` of the handle -/

def VI (h : MetaState) : Container × Mode × Bool × Option Inst := (h.cont, h.mode, h.haveWritten, h.inst)
def injI (x : Container × Mode × Bool × Option Inst) : MetaState :=
  { MetaState.open x.1 with mode := x.2.1, haveWritten := x.2.2.1, inst := x.2.2.2 }
def gI (pn pv : List Byte) (x : Container × Mode × Bool × Option Inst) (op : Op) : Container × Mode × Bool × Option Inst :=
  if op.isAudio then x else VI (step pn pv (injI x) op).2

/-- what a call does to this field depends on this field (and the container, the mode, have_written) only -/
theorem VI_congr (pn pv : List Byte) (h1 h2 : MetaState) (op : Op) (hv : VI h1 = VI h2) :
    VI (step pn pv h1 op).2 = VI (step pn pv h2 op).2 := by
  obtain ⟨c1, m1, w1, s1, b1, ca1, q1, i1, a1⟩ := h1
  obtain ⟨c2, m2, w2, s2, b2, ca2, q2, i2, a2⟩ := h2
  simp only [VI, Prod.mk.injEq] at hv
  obtain ⟨rfl, rfl, rfl, rfl⟩ := hv
  cases op <;> simp only [step, VI] <;> (repeat' split) <;> rfl

theorem VI_step (pn pv : List Byte) (h : MetaState) (op : Op) (ha : op.isAudio = false) :
    VI (step pn pv h op).2 = gI pn pv (VI h) op := by
  simp only [gI, ha, Bool.false_eq_true, if_false]
  exact VI_congr pn pv h (injI (VI h)) op rfl

theorem VI_other (pn pv : List Byte) (h : MetaState) (op : Op) (hk : itemKey op ≠ (4, 0)) (ha : op.isAudio = false) :
    VI (step pn pv h op).2 = VI h := by
  obtain ⟨c, m, w, s, b, ca, q, i, a⟩ := h
  cases op <;> simp only [step, VI] <;> (repeat' split) <;> first | rfl | exact absurd rfl hk | exact absurd ha (by simp [Op.isAudio])

theorem gI_other (pn pv : List Byte) (x : Container × Mode × Bool × _) (op : Op) (hk : itemKey op ≠ (4, 0)) : gI pn pv x op = x := by
  unfold gI
  by_cases ha : op.isAudio = true
  · simp [ha]
  · simp only [ha, Bool.false_eq_true, if_false]
    rw [VI_other pn pv _ op hk (by simpa using ha)]
    obtain ⟨c, m, w, f⟩ := x
    rfl

theorem runI (pn pv : List Byte) (ops : List Op) (hna : ∀ op ∈ ops, op.isAudio = false) :
    ∀ h, VI (runOps pn pv h ops) = ops.foldl (gI pn pv) (VI h) := by
  induction ops with
  | nil => intro h; rfl
  | cons op rest ih =>
    intro h
    simp only [runOps, List.foldl_cons] at ih ⊢
    rw [ih (fun o ho => hna o (by simp [ho])), VI_step pn pv h op (hna op (by simp))]

/-- `meta_order_independent`: two orders of the same SET calls made before the audio (pairwise different items: at most one
    bext, one cart, one cue list, one instrument, one string per type) leave the handle with the same broadcast info, cart
    info, cue points and instrument — whatever was accepted or refused on the way — and the same audio -/
theorem meta_order_independent (pn pv : List Byte) (h : MetaState) (ops ops' : List Op) (hp : ops.Perm ops')
    (hn : (ops.map itemKey).Nodup) (hna : ∀ op ∈ ops, op.isAudio = false) :
    (runOps pn pv h ops).bext = (runOps pn pv h ops').bext ∧ (runOps pn pv h ops).cart = (runOps pn pv h ops').cart ∧
    (runOps pn pv h ops).cues = (runOps pn pv h ops').cues ∧ (runOps pn pv h ops).inst = (runOps pn pv h ops').inst := by
  have hna' : ∀ op ∈ ops', op.isAudio = false := fun op ho => hna op (hp.mem_iff.mpr ho)
  have hB := foldl_perm_of_keyed (gB pn pv) itemKey (1, 0) (gB_other pn pv) ops ops' hp hn (VB h)
  have hC := foldl_perm_of_keyed (gC pn pv) itemKey (2, 0) (gC_other pn pv) ops ops' hp hn (VC h)
  have hQ := foldl_perm_of_keyed (gQ pn pv) itemKey (3, 0) (gQ_other pn pv) ops ops' hp hn (VQ h)
  have hI := foldl_perm_of_keyed (gI pn pv) itemKey (4, 0) (gI_other pn pv) ops ops' hp hn (VI h)
  rw [← runB pn pv ops hna h, ← runB pn pv ops' hna' h] at hB
  rw [← runC pn pv ops hna h, ← runC pn pv ops' hna' h] at hC
  rw [← runQ pn pv ops hna h, ← runQ pn pv ops' hna' h] at hQ
  rw [← runI pn pv ops hna h, ← runI pn pv ops' hna' h] at hI
  exact ⟨congrArg (·.2.2.2) hB, congrArg (·.2.2.2) hC, congrArg (·.2.2.2) hQ, congrArg (·.2.2.2) hI⟩

/-- non-vacuity: cue points, a string, bext and an instrument set in two different orders -/
example :
    let ops : List Op := [.setCues [⟨1, 10, 0, 0, 0, 10, []⟩], .setString 1 [84], .setBext [] bextSample 6 614, .setInst instSample]
    (runOps [] [] (MetaState.open .wav) ops).bext = (runOps [] [] (MetaState.open .wav) ops.reverse).bext ∧
    (runOps [] [] (MetaState.open .wav) ops).cues = some [⟨1, 10, 0, 0, 0, 10, []⟩] ∧
    get (runOps [] [] (MetaState.open .wav) ops).strings 1 = get (runOps [] [] (MetaState.open .wav) ops.reverse).strings 1 := by decide +kernel

end Sf.Meta
