/-
  C07 (CAF/ALAC, every caller type) — the closed file does not depend on how the samples were split over write calls, for
  short, int, float and double callers, item and frame variants, types mixed freely: the bytes are a function of the
  CONVERTED item stream alone (`Sf.AlacTyped.codecItems`).  Lifts `Sf.C07Alac.closed_bytes_partition_independent` (frames of an
  abstract type) through the per-type conversions of `alac_write_s / _i / _f / _d`.  Model: SfModel/AlacTyped.lean.
-/
import SfModel.AlacTyped
import SfProps.C07Alac
import SfProofs.HandleGroups
namespace Sf.C07AlacTyped
open Sf Sf.Alac Sf.AlacTyped Sf.C07Alac

variable {σ : Type}

/-- cutting into frames commutes with appending after a whole number of frames -/
theorem framesOf_append (ch : Nat) (a b : List Int) (k : Nat) (h : a.length = k * ch) :
    framesOf ch (a ++ b) = framesOf ch a ++ framesOf ch b := by
  unfold framesOf
  by_cases hc : ch = 0
  · simp [hc]
  · rw [if_neg hc, if_neg hc, if_neg hc]
    exact groups_append ch (Nat.pos_of_ne_zero hc) k a b h

/-- the frames a history hands the codec, call by call, are the frames of the converted stream -/
theorem frames_of_history (cv : Conv) (ch : Nat) : ∀ (calls : List (Ty × List Int)),
    (∀ c ∈ calls, ch ∣ c.2.length) →
    (calls.map fun c => framesOf ch (c.2.map (toCodec cv c.1))).flatten = framesOf ch (codecItems cv calls) := by
  intro calls
  induction calls with
  | nil =>
    intro _
    unfold codecItems framesOf
    by_cases hc : ch = 0
    · simp [hc]
    · simp [hc, groups, groupsAux]
  | cons c cs ih =>
    intro hw
    have hc : ch ∣ c.2.length := hw c (by simp)
    obtain ⟨k, hk⟩ := hc
    have hcs : ∀ c ∈ cs, ch ∣ c.2.length := fun x hx => hw x (by simp [hx])
    have e : codecItems cv (c :: cs) = c.2.map (toCodec cv c.1) ++ codecItems cv cs := by
      simp [codecItems]
    rw [e, framesOf_append ch _ _ k (by rw [List.length_map, hk, Nat.mul_comm]), ← ih hcs]
    simp

theorem writeTypedCalls_eq (cv : Conv) (ch : Nat) (cd : Codec σ Frame) : ∀ (calls : List (Ty × List Int)) (w : W σ Frame),
    writeTypedCalls cv ch cd w calls = writeCalls cd w (calls.map fun c => framesOf ch (c.2.map (toCodec cv c.1))) := by
  intro calls
  induction calls with
  | nil => intro w; rfl
  | cons c cs ih =>
    intro w
    have h1 : writeTypedCalls cv ch cd w (c :: cs) = writeTypedCalls cv ch cd (writeTyped cv ch cd w c.1 c.2) cs := by
      simp [writeTypedCalls]
    rw [h1, ih]
    simp [writeCalls, writeTyped]

/-- C07 for CAF/ALAC at the public API: two histories of typed write calls (whole frames each; short / int / float / double
    callers mixed in any way, `sf_write_T` or `sf_writef_T`) whose converted item streams agree close to the same bytes, for
    every codec core -/
theorem typed_partition_independent (c : Cfg) (cv : Conv) (ch : Nat) (cd : Codec σ Frame)
    (calls1 calls2 : List (Ty × List Int))
    (hw1 : ∀ x ∈ calls1, ch ∣ x.2.length) (hw2 : ∀ x ∈ calls2, ch ∣ x.2.length)
    (h : codecItems cv calls1 = codecItems cv calls2) :
    closedBytes c cd (writeTypedCalls cv ch cd (W.init cd) calls1) = closedBytes c cd (writeTypedCalls cv ch cd (W.init cd) calls2) := by
  rw [writeTypedCalls_eq, writeTypedCalls_eq]
  apply closed_bytes_partition_independent
  rw [frames_of_history cv ch calls1 hw1, frames_of_history cv ch calls2 hw2, h]

/-- the statement as the property words it: ONE caller type, the same samples, any two splits into calls -/
theorem same_type_partition_independent (c : Cfg) (cv : Conv) (ch : Nat) (cd : Codec σ Frame) (ty : Ty)
    (split1 split2 : List (List Int))
    (hw1 : ∀ x ∈ split1, ch ∣ x.length) (hw2 : ∀ x ∈ split2, ch ∣ x.length)
    (h : split1.flatten = split2.flatten) :
    closedBytes c cd (writeTypedCalls cv ch cd (W.init cd) (split1.map fun x => (ty, x))) =
      closedBytes c cd (writeTypedCalls cv ch cd (W.init cd) (split2.map fun x => (ty, x))) := by
  apply typed_partition_independent
  · intro x hx; simp only [List.mem_map] at hx; obtain ⟨y, hy, rfl⟩ := hx; exact hw1 y hy
  · intro x hx; simp only [List.mem_map] at hx; obtain ⟨y, hy, rfl⟩ := hx; exact hw2 y hy
  · have e : ∀ (s : List (List Int)), codecItems cv (s.map fun x => (ty, x)) = s.flatten.map (toCodec cv ty) := by
      intro s
      induction s with
      | nil => simp [codecItems]
      | cons a s ih =>
        have : codecItems cv ((a :: s).map fun x => (ty, x)) = a.map (toCodec cv ty) ++ codecItems cv (s.map fun x => (ty, x)) := by
          simp [codecItems]
        rw [this, ih]; simp
    rw [e, e, h]

/-- non-vacuity: three stereo frames of a short (and of an int) caller written as 1 + 2 frames and in one call, through a codec whose packets
    list the low byte of every staged sample: the same 6 items reach the codec -/
example :
    let cd : Codec Unit Frame := { init := (), enc := fun _ st => ((), st.flatten.map fun v => (v % 256).toNat), dec := fun _ => [] }
    let c : Cfg := ⟨16, 2, 8000⟩
    closedBytes c cd (writeTypedCalls {} 2 cd (W.init cd) [(.s16, [1, 2]), (.s16, [3, 4, 5, 6])]) =
      closedBytes c cd (writeTypedCalls {} 2 cd (W.init cd) [(.s16, [1, 2, 3, 4, 5, 6])]) ∧
    (finish cd (writeTypedCalls {} 2 cd (W.init cd) [(.s32, [1, 2]), (.s32, [3, 4, 5, 6])])).sizes = [6] := by
  refine ⟨?_, ?_⟩ <;> decide +kernel

end Sf.C07AlacTyped
