/-
  C07 (NMS ADPCM) — whole-list `unpack24 ∘ pack24` (any number of groups of sixteen 3-bit codewords; the per-group fact
  is `group24_unpack`, SfProps/C07NmsPack.lean), and the block round trip for all three rates: the words
  `nms_adpcm_encode_block` stores are unpacked by `nms_adpcm_decode_block` into exactly the encoder's 160 codewords, so
  decoding a written block runs the per-sample decoder over the encoder's codes (the twin of `g72x_block_roundtrip`).
  Property theorems only.
-/
import SfProps.C07Nms
import SfProps.C07NmsPack
import SfProofs.NmsBlocks
namespace Sf.C07NmsBlock
open Sf Sf.Nms Sf.C07Nms Sf.C07NmsPack Sf.Nms.Proofs

theorem unpack24_append3 (a b d : Nat) (rest : List Nat) : unpack24 ([a, b, d] ++ rest) = ungroup24 a b d ++ unpack24 rest := rfl
theorem unpack24_three (a b d : Nat) : unpack24 [a, b, d] = ungroup24 a b d := by simp [unpack24]

/-- **24 kbit/s, any number of groups**: `unpack24 (pack24 cs) = cs` for codeword lists of 16 n even values below 16 -/
theorem unpack24_pack24 : ∀ (n fuel : Nat) (cs : List Nat), cs.length = 16 * n → n < fuel →
    (∀ c ∈ cs, c < 16 ∧ c % 2 = 0) → unpack24 (pack24 fuel cs) = cs := by
  intro n
  induction n with
  | zero =>
    intro fuel cs h _ _
    have : cs = [] := List.eq_nil_of_length_eq_zero (by omega)
    subst this
    cases fuel <;> simp [pack24, unpack24]
  | succ n ih =>
    intro fuel cs h hf hc
    obtain ⟨fuel, rfl⟩ : ∃ k, fuel = k + 1 := ⟨fuel - 1, by omega⟩
    match cs, h with
    | c0 :: c1 :: c2 :: c3 :: c4 :: c5 :: c6 :: c7 :: c8 :: c9 :: c10 :: c11 :: c12 :: c13 :: c14 :: c15 :: rest, h =>
      have hr : rest.length = 16 * n := by simp only [List.length_cons] at h; omega
      have ih' := ih fuel rest hr (by omega) (fun c hc' => hc c (by simp [hc']))
      obtain ⟨e0, l0⟩ := code2 c0 (hc c0 (by simp))
      obtain ⟨e1, l1⟩ := code2 c1 (hc c1 (by simp))
      obtain ⟨e2, l2⟩ := code2 c2 (hc c2 (by simp))
      obtain ⟨e3, l3⟩ := code2 c3 (hc c3 (by simp))
      obtain ⟨e4, l4⟩ := code2 c4 (hc c4 (by simp))
      obtain ⟨e5, l5⟩ := code2 c5 (hc c5 (by simp))
      obtain ⟨e6, l6⟩ := code2 c6 (hc c6 (by simp))
      obtain ⟨e7, l7⟩ := code2 c7 (hc c7 (by simp))
      obtain ⟨e8, l8⟩ := code2 c8 (hc c8 (by simp))
      obtain ⟨e9, l9⟩ := code2 c9 (hc c9 (by simp))
      obtain ⟨e10, l10⟩ := code2 c10 (hc c10 (by simp))
      obtain ⟨e11, l11⟩ := code2 c11 (hc c11 (by simp))
      obtain ⟨e12, l12⟩ := code2 c12 (hc c12 (by simp))
      obtain ⟨e13, l13⟩ := code2 c13 (hc c13 (by simp))
      obtain ⟨e14, l14⟩ := code2 c14 (hc c14 (by simp))
      obtain ⟨e15, l15⟩ := code2 c15 (hc c15 (by simp))
      have hg := group24_unpack (c0 / 2) (c1 / 2) (c2 / 2) (c3 / 2) (c4 / 2) (c5 / 2) (c6 / 2) (c7 / 2) (c8 / 2) (c9 / 2)
        (c10 / 2) (c11 / 2) (c12 / 2) (c13 / 2) (c14 / 2) (c15 / 2) l0 l1 l2 l3 l4 l5 l6 l7 l8 l9 l10 l11 l12 l13 l14 l15
      rw [← e0, ← e1, ← e2, ← e3, ← e4, ← e5, ← e6, ← e7, ← e8, ← e9, ← e10, ← e11, ← e12, ← e13, ← e14, ← e15] at hg
      unfold pack24
      have hlt : ¬ (c0 :: c1 :: c2 :: c3 :: c4 :: c5 :: c6 :: c7 :: c8 :: c9 :: c10 :: c11 :: c12 :: c13 :: c14 :: c15 :: rest).length < 16 := by
        simp only [List.length_cons]; omega
      simp only [hlt, if_false]
      have ht : (c0 :: c1 :: c2 :: c3 :: c4 :: c5 :: c6 :: c7 :: c8 :: c9 :: c10 :: c11 :: c12 :: c13 :: c14 :: c15 :: rest).take 16 =
          [c0, c1, c2, c3, c4, c5, c6, c7, c8, c9, c10, c11, c12, c13, c14, c15] := by simp
      have hd : (c0 :: c1 :: c2 :: c3 :: c4 :: c5 :: c6 :: c7 :: c8 :: c9 :: c10 :: c11 :: c12 :: c13 :: c14 :: c15 :: rest).drop 16 = rest := by
        simp
      rw [ht, hd]
      obtain ⟨a, b, d, hgr⟩ := group24_three [c0, c1, c2, c3, c4, c5, c6, c7, c8, c9, c10, c11, c12, c13, c14, c15]
      rw [hgr] at hg ⊢
      rw [unpack24_append3, ih', ← unpack24_three, hg]
      rfl

example : unpack24 (pack24 3 ([2, 14, 0, 8, 6, 6, 0, 12, 10, 4, 2, 0, 14, 14, 2, 8] ++ [0, 2, 4, 6, 8, 10, 12, 14, 14, 12, 10, 8, 6, 4, 2, 0])) =
    [2, 14, 0, 8, 6, 6, 0, 12, 10, 4, 2, 0, 14, 14, 2, 8] ++ [0, 2, 4, 6, 8, 10, 12, 14, 14, 12, 10, 8, 6, 4, 2, 0] := by decide +kernel

/-! ## the codewords of a block and the block round trip -/

/-- every codeword of `encodeSamples` is below 16 and carries only the bits of the state's rate -/
theorem encodeSamples_codes : ∀ (xs : List Int) (s : St) (rms : Nat),
    ∀ c ∈ (encodeSamples s xs rms).2.1, c < 16 ∧ c &&& maskOf s.tOff = c := by
  intro xs
  induction xs with
  | nil => intro s rms c hc; simp [encodeSamples] at hc
  | cons x xs ih =>
    intro s rms c hc
    simp only [encodeSamples, List.mem_cons] at hc
    rcases hc with rfl | hc
    · exact encode_sample_code s x
    · have h := ih (encodeSample s x).1 _ c hc
      have ht : (encodeSample s x).1.tOff = s.tOff := by
        obtain ⟨i, hi⟩ := encodeSample_state s x
        rw [hi]; rfl
      rw [ht] at h
      exact h

theorem mask_r16 : maskOf (Rate.tOff .r16) = 0xc := rfl
theorem mask_r24 : maskOf (Rate.tOff .r24) = 0xe := rfl

/-- **the packers are inverted by the unpackers on the encoder's codewords, whole blocks, all three rates** -/
theorem nms_pack_unpack (r : Rate) (s : St) (hs : s.tOff = r.tOff) (samples : List Int) (h : samples.length = spb) :
    unpack r (pack r (encodeSamples s samples 0).2.1) = (encodeSamples s samples 0).2.1 := by
  have hlen : (encodeSamples s samples 0).2.1.length = 160 := by rw [encodeSamples_length]; exact h
  have hc := encodeSamples_codes samples s 0
  rw [hs] at hc
  cases r
  · exact unpack16_pack16 20 _ (by omega) (fun c hcm => by
      obtain ⟨h1, h2⟩ := hc c hcm
      exact ⟨h1, (masked_code_shape c h1).1 h2⟩)
  · show unpack24 (pack24 ((encodeSamples s samples 0).2.1.length / 16 + 1) _) = _
    rw [hlen]
    exact unpack24_pack24 10 11 _ (by omega) (by omega) (fun c hcm => by
      obtain ⟨h1, h2⟩ := hc c hcm
      exact ⟨h1, (masked_code_shape c h1).2 h2⟩)
  · exact unpack32_pack32 40 _ (by omega) (fun c hcm => (hc c hcm).1)

theorem wordsOfLE_wordsLE : ∀ (ws : List Nat), (∀ w ∈ ws, w < 65536) → wordsOfLE (wordsLE ws) = ws := by
  intro ws
  induction ws with
  | nil => intro _; rfl
  | cons w ws ih =>
    intro h
    have hw := h w (by simp)
    simp only [wordsLE, List.flatMap_cons, List.cons_append, List.nil_append, wordsOfLE]
    have := ih (fun x hx => h x (by simp [hx]))
    unfold wordsLE at this
    rw [this]
    congr 1
    omega

theorem u16_lt (x : Nat) : u16 x < 65536 := Nat.mod_lt _ (by decide)

theorem pack32_lt : ∀ (n : Nat) (cs : List Nat), cs.length = n → ∀ w ∈ pack32 cs, w < 65536 := by
  intro n
  induction n using Nat.strongRecOn with
  | _ n ih =>
    intro cs h w hw
    match cs, h with
    | [], _ => simp [pack32] at hw
    | [_], _ => simp [pack32] at hw
    | [_, _], _ => simp [pack32] at hw
    | [_, _, _], _ => simp [pack32] at hw
    | c0 :: c1 :: c2 :: c3 :: rest, h =>
      simp only [pack32, List.mem_cons] at hw
      rcases hw with rfl | hw
      · exact u16_lt _
      · exact ih rest.length (by simp only [List.length_cons] at h; omega) rest rfl w hw

theorem pack16_lt : ∀ (n : Nat) (cs : List Nat), cs.length = 8 * n → ∀ w ∈ pack16 cs, w < 65536 := by
  intro n
  induction n with
  | zero => intro cs h w hw; have : cs = [] := List.eq_nil_of_length_eq_zero (by omega); subst this; simp [pack16] at hw
  | succ n ih =>
    intro cs h w hw
    match cs, h with
    | c0 :: c1 :: c2 :: c3 :: c4 :: c5 :: c6 :: c7 :: rest, h =>
      simp only [pack16, List.mem_cons] at hw
      rcases hw with rfl | hw
      · exact u16_lt _
      · exact ih rest (by simp only [List.length_cons] at h; omega) w hw

theorem group24_lt (c : List Nat) : ∀ w ∈ group24 c, w < 65536 := by
  intro w hw
  unfold group24 at hw
  simp only [List.mem_cons, List.not_mem_nil, or_false] at hw
  rcases hw with rfl | rfl | rfl <;> exact u16_lt _

theorem pack24_lt : ∀ (fuel : Nat) (cs : List Nat), ∀ w ∈ pack24 fuel cs, w < 65536 := by
  intro fuel
  induction fuel with
  | zero => intro cs w hw; simp [pack24] at hw
  | succ fuel ih =>
    intro cs w hw
    unfold pack24 at hw
    split at hw
    · simp at hw
    · rcases List.mem_append.mp hw with hw | hw
      · exact group24_lt _ w hw
      · exact ih _ w hw

theorem pack_lt (r : Rate) (codes : List Nat) (h : codes.length = 160) : ∀ w ∈ pack r codes, w < 65536 := by
  cases r
  · exact pack16_lt 20 codes (by omega)
  · exact pack24_lt _ codes
  · exact pack32_lt 160 codes h

/-- **block round trip, all three rates**: the `shortsperblock` words read back from the bytes of an encoded block are
    unpacked into exactly the encoder's 160 codewords — decoding a written block is the per-sample decoder run over
    the encoder's codes (from whatever decoder state) -/
theorem nms_block_roundtrip (r : Rate) (s : St) (hs : s.tOff = r.tOff) (samples : List Int) (h : samples.length = spb)
    (sd : St) (prev : List Nat) :
    decodeBlock r sd (blockWords r prev (encodeBlock r s samples).2) = decodeCodes sd (encodeSamples s samples 0).2.1 := by
  have hlen : (encodeSamples s samples 0).2.1.length = 160 := by rw [encodeSamples_length]; exact h
  have hpl := pack_length r _ hlen
  unfold encodeBlock
  simp only
  generalize hrms : (wrapU 16 (wrapU 32 (((encodeSamples s samples 0).2.2 : Int) * 4096)) : Nat) = rmsw
  have hrl : rmsw < 65536 := by
    rw [← hrms]; unfold wrapU; exact Int.toNat_lt (Int.emod_nonneg _ (by decide)) |>.mpr (Int.emod_lt_of_pos _ (by decide))
  have hw : wordsOfLE (wordsLE (pack r (encodeSamples s samples 0).2.1 ++ [rmsw])) = pack r (encodeSamples s samples 0).2.1 ++ [rmsw] :=
    wordsOfLE_wordsLE _ (by
      intro w hw
      rcases List.mem_append.mp hw with hw | hw
      · exact pack_lt r _ hlen w hw
      · simp only [List.mem_singleton] at hw; rw [hw]; exact hrl)
  have hsh : (pack r (encodeSamples s samples 0).2.1 ++ [rmsw]).length = r.shorts := by
    rw [List.length_append, hpl]; cases r <;> rfl
  unfold blockWords decodeBlock
  simp only [hw, hsh, Nat.sub_self, List.replicate_zero, List.append_nil]
  rw [List.take_of_length_le (Nat.le_of_eq hsh), List.take_left' hpl, nms_pack_unpack r s hs samples h]

/-- non-vacuity: one block of a ramp at 24 kbit/s through encoder, packer, byte store, word load, unpacker, decoder -/
example : (decodeBlock .r24 (St.init .r24) (blockWords .r24 [] (encodeBlock .r24 (St.init .r24) ((List.range 160).map fun (i : Nat) => (i : Int) * 100 - 8000)).2)).2.length = 160 := by
  decide +kernel

end Sf.C07NmsBlock
