-- properties: C05 C07
/-
  C20 (G.721 / G.723) — the decoder tracks the encoder: fed the code the encoder just produced, the decoder makes the
  very same state transition, so the encoder's local reconstruction IS what every conforming decoder computes (the
  premise of ADPCM, and what the Recommendation's common ACCUM block guarantees).

    `g72x_decoder_tracks_encoder_all`   current rule, ALL FOUR rates, every state, every sample (full strength)
    `g72x_tracks_over_blocks`           hence over any sample list: encoder state = decoder state after every prefix
    `g721_old_rule_sum_leaves_int16`    the rule before the repair of KF-G721-ENC-SE: after 130 samples of a
                                        ±32700 square wave of period 32 the ACCUM sum is −33908: outside 16 bits
    `g721_old_rule_decoder_diverges`    … and from that state the old encoder and the decoder take different transitions
                                        (the witness that under the old rule the decoder did NOT track the encoder)
    `g721_old_rule_bytes_differ`        … visible in the file: the data region the old encoder wrote for 140 such samples
                                        differs from the current one
-/
import SfProps.C05G72x
import SfModel.G72xFile
namespace Sf.C20G72xTrack
open Sf Sf.G72x Sf.G72x.Proofs

/-- **full strength, current rule**: every rate of the codec directory -/
theorem g72x_decoder_tracks_encoder_all (r : Rate) (hr : r = g721 ∨ r = g723_16 ∨ r = g723_24 ∨ r = g723_40) (st : St) (x : Int) :
    (decode r st (encode r st x).2).1 = (encode r st x).1 := by
  rcases hr with rfl | rfl | rfl | rfl
  · exact C05G72x.g72x_decoder_tracks_encoder _ valid_g721 rfl st x
  · exact C05G72x.g72x_decoder_tracks_encoder _ valid_g723_16 rfl st x
  · exact C05G72x.g72x_decoder_tracks_encoder _ valid_g723_24 rfl st x
  · exact C05G72x.g72x_decoder_tracks_encoder _ valid_g723_40 rfl st x

/-- over any list of samples: decoding the encoder's codes from the same start state ends in the encoder's state -/
theorem g72x_tracks_over_blocks (r : Rate) (hr : r = g721 ∨ r = g723_16 ∨ r = g723_24 ∨ r = g723_40) :
    ∀ (xs : List Int) (st : St), (decodeList r st (encodeList r st xs).2).1 = (encodeList r st xs).1 := by
  intro xs
  induction xs with
  | nil => intro st; rfl
  | cons x xs ih =>
    intro st
    have hc : ((encode r st x).2.toNat : Int) = (encode r st x).2 := by
      have v : ValidRate r := by
        rcases hr with rfl | rfl | rfl | rfl
        · exact valid_g721
        · exact valid_g723_16
        · exact valid_g723_24
        · exact valid_g723_40
      exact Int.toNat_of_nonneg (encode_code_range r v st x).1
    simp only [encodeList, decodeList]
    rw [hc, g72x_decoder_tracks_encoder_all r hr st x, ih]

example : (decodeList g721 St.init (encodeList g721 St.init [1000, -2000, 30000, -32768]).2).1 =
    (encodeList g721 St.init [1000, -2000, 30000, -32768]).1 := by decide +kernel

/-! ## the rule before the repair (KF-G721-ENC-SE) -/

/-- the witness input: a ±32700 square wave of period 32, starting low -/
def square (n : Nat) : List Int := (List.range n).map fun k => if (k / 16) % 2 = 1 then (32700 : Int) else -32700

/-- the old encoder's state after 130 samples of it -/
def stOld130 : St := (encodeList g721Old St.init (square 130)).1

/-- there the ACCUM sum SEZI + (WA1 + WA2) is −33908: it does not fit 16 bits -/
theorem g721_old_rule_sum_leaves_int16 : s16 (predictorZero stOld130) + predictorPole stOld130 = -33908 := by decide +kernel

/-- **old rule: the decoder does not track the encoder** — from that (reachable) state, for the next sample of the wave,
    the old encoder (`int` sum) and the decoder (16-bit `sei`) land in different states -/
theorem g721_old_rule_decoder_diverges :
    (decode g721Old stOld130 (encode g721Old stOld130 (-32700)).2).1 ≠ (encode g721Old stOld130 (-32700)).1 := by decide +kernel

/-- the same from the freshly opened file, in bytes: the data region the old encoder left for 140 samples of the wave (two
    blocks, 120 bytes) is not the one the current encoder leaves -/
theorem g721_old_rule_bytes_differ :
    closedBytes g721Old {} [(.s16, square 140)] ≠ closedBytes g721 {} [(.s16, square 140)] ∧
    (closedBytes g721 {} [(.s16, square 140)]).length = 120 := by
  decide +kernel

end Sf.C20G72xTrack
