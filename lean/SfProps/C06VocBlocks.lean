/-
  VOC files whose sound block is not the first block (SfModel/VocBlocks.lean): where the audio starts depends on the LENGTH of the
  chain of text / repeat blocks only -- for every text length below 2^24, in particular on both sides of the 255-byte log buffer --,
  and the general reader is the reader of SfModel/Voc.lean when the chain is empty.
-- properties: C05 C06 C15
-/
import SfModel.VocBlocks
import SfProofs.VocImage
namespace Sf.C06VocBlocks
open Sf Sf.Small2 Sf.Voc Sf.VocBlocks

/-- a block that is neither text nor repeat ends the loop at once -/
theorem skipLen_sound (fuel : Nat) (ty : Byte) (rest : List Byte) (h5 : ty ≠ 5) (h6 : ty ≠ 6) :
    skipLen (fuel + 1) (ty :: rest) = some 0 := by
  unfold skipLen
  match rest with
  | [] => simp [h5, h6]
  | [_] => simp [h5, h6]
  | [_, _] => simp [h5, h6]
  | _ :: _ :: _ :: _ => simp [h5, h6]

/-- the end of the file ends the loop (`block_type = 0` stays) -/
theorem skipLen_end (fuel : Nat) : skipLen (fuel + 1) [] = some 0 := by unfold skipLen; rfl

/-- a text block of ANY length below 2^24 is stepped over by exactly 4 + length bytes (the copy into `header [256]` for lengths
    below 255 and the "j" skip for the longer ones advance `offset` alike) -/
theorem skipLen_text (fuel : Nat) (txt rest : List Byte) (hn : txt.length < 2 ^ 24) :
    skipLen (fuel + 1) (textBlock txt ++ rest) = (skipLen fuel rest).map (· + (4 + txt.length)) := by
  unfold textBlock
  rw [le3_explicit]
  show skipLen (fuel + 1) (5 :: (txt.length % 256) :: (txt.length / 256 % 256) :: (txt.length / 256 / 256 % 256) :: (txt ++ rest)) = _
  conv => lhs; unfold skipLen
  simp only [if_true]
  rw [ofLE3_bytes _ hn]
  have hlen : ¬ (txt ++ rest).length < txt.length := by simp
  rw [if_neg hlen]
  simp

/-- a repeat block is stepped over by 6 bytes (its length field is not looked at) -/
theorem skipLen_repeat (fuel : Nat) (count : Nat) (rest : List Byte) :
    skipLen (fuel + 1) (repeatBlock count ++ rest) = (skipLen fuel rest).map (· + 6) := by
  unfold repeatBlock
  rw [le3_explicit, le2_explicit]
  show skipLen (fuel + 1) (6 :: (2 % 256) :: (2 / 256 % 256) :: (2 / 256 / 256 % 256) :: (count % 256) :: (count / 256 % 256) :: rest) = _
  conv => lhs; unfold skipLen
  simp

/-- THE OFFSET RULE: with one text block in front, the sound block is found exactly 4 + length bytes further on -- whatever the
    text and whatever its length (1, 254, 255, 256, 70000 ...) -/
theorem text_then_sound (fuel : Nat) (txt : List Byte) (ty : Byte) (rest : List Byte) (hn : txt.length < 2 ^ 24)
    (h5 : ty ≠ 5) (h6 : ty ≠ 6) :
    skipLen (fuel + 2) (textBlock txt ++ ty :: rest) = some (4 + txt.length) := by
  rw [skipLen_text _ _ _ hn, skipLen_sound _ _ _ h5 h6]; simp

/-- two text blocks, or a repeat block and a text block: the lengths add up -/
theorem text_text_then_sound (fuel : Nat) (t1 t2 : List Byte) (ty : Byte) (rest : List Byte) (h1 : t1.length < 2 ^ 24)
    (h2 : t2.length < 2 ^ 24) (h5 : ty ≠ 5) (h6 : ty ≠ 6) :
    skipLen (fuel + 3) (textBlock t1 ++ (textBlock t2 ++ ty :: rest)) = some (4 + t2.length + (4 + t1.length)) := by
  rw [skipLen_text _ _ _ h1, text_then_sound _ _ _ _ h2 h5 h6]; simp

theorem repeat_text_then_sound (fuel : Nat) (count : Nat) (txt : List Byte) (ty : Byte) (rest : List Byte)
    (hn : txt.length < 2 ^ 24) (h5 : ty ≠ 5) (h6 : ty ≠ 6) :
    skipLen (fuel + 3) (repeatBlock count ++ (textBlock txt ++ ty :: rest)) = some (4 + txt.length + 6) := by
  rw [skipLen_repeat, text_then_sound _ _ _ _ hn h5 h6]; simp

/-- the rule the seeded regression `C06-voc-ascii-offset` installs (the text is logged up to 255 bytes and `offset` is advanced by
    what was LOGGED): it agrees with the code's rule below 255 bytes and falls short by length − 255 from there on -/
def advanceLogged (n : Nat) : Nat := 4 + min n 255
theorem logged_rule_differs (n : Nat) (h : 255 < n) : advanceLogged n + (n - 255) = 4 + n ∧ advanceLogged n ≠ 4 + n := by
  unfold advanceLogged; omega
theorem logged_rule_agrees_below (n : Nat) (h : n ≤ 255) : advanceLogged n = 4 + n := by unfold advanceLogged; omega

/-- the reader of SfModel/Voc.lean is the general reader at offset 26 behind its "first block is a sound block" guard -/
theorem readBlock_eq (bs : List Byte) :
    Voc.readBlock bs = if byteAt bs 26 = 5 ∨ byteAt bs 26 = 6 then .unmodelled else readBlockAt bs 26 := rfl

/-- with no text / repeat block in front, the general reader IS the reader of SfModel/Voc.lean -/
theorem readBlockAt_first (bs : List Byte) (h5 : byteAt bs 26 ≠ 5) (h6 : byteAt bs 26 ≠ 6) :
    readBlockAt bs 26 = Voc.readBlock bs := by
  have h : ¬ (byteAt bs 26 = 5 ∨ byteAt bs 26 = 6) := by simp [h5, h6]
  rw [readBlock_eq, if_neg h]

/-! non-vacuity: a 16-bit stereo file of two frames behind a 3-byte text block and a repeat block -/
def exFile : List Byte :=
  asc "Creative Voice File" ++ [0x1A, 0x1A, 0x00, 0x14, 0x01, 0x1F, 0x11] ++ textBlock [0x61, 0x62, 0x00] ++ repeatBlock 3 ++
  [9, 20, 0, 0, 0x40, 0x1F, 0, 0, 16, 2, 4, 0, 0, 0, 0, 0, 1, 0, 2, 0, 3, 0, 4, 0, 0]

example : soundAt exFile = some (26 + 7 + 6) := by decide
example : dataOffsetF exFile = some (26 + 7 + 6 + 16) := by decide
example : readHeaderF exFile = .ok { ch := 2, fmt := 0x080002, sr := 8000, frames := 2 } := by decide
example (txt : List Byte) (h : txt.length = 300) : skipLen 3 (textBlock txt ++ 9 :: []) = some 304 := by
  rw [text_then_sound 1 txt 9 [] (by omega) (by decide) (by decide), h]

end Sf.C06VocBlocks
