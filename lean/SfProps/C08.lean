/-
  C08 — read/write mode keeps independent, correct read and write positions.  Property theorems.
  (Seek-pointer theorems over the handle model; the data side — written bytes are what a later read decodes —
   rests on SfProps.C01 `file_roundtrip_bytes` and SfProps.C05 `read_data_any_mode`.)
-/
import SfModel.Handle
import SfProps.C05
namespace Sf.C08
open Sf

/-- SEEK_SET | SFM_READ on a read/write handle moves only the read position -/
theorem seek_read_moves_only_read (h : H) (s : Store) (k : Int) (hm : h.mode = .rw) (hk : 0 ≤ k) :
    (stepSeek h s k 0x10).1.rpos = k ∧ (stepSeek h s k 0x10).1.wpos = h.wpos ∧ (stepSeek h s k 0x10).1.frames = h.frames ∧
    (stepSeek h s k 0x10).2.2.ret = k ∧ (stepSeek h s k 0x10).2.1.bytes = s.bytes := by
  have : ¬ k < 0 := by omega
  simp [stepSeek, hm, this, modeBits, defaultSeek, Store.seekSet]

/-- SEEK_SET | SFM_WRITE on a read/write handle moves only the write position -/
theorem seek_write_moves_only_write (h : H) (s : Store) (k : Int) (hm : h.mode = .rw) (hk : 0 ≤ k) :
    (stepSeek h s k 0x20).1.wpos = k ∧ (stepSeek h s k 0x20).1.rpos = h.rpos ∧ (stepSeek h s k 0x20).1.frames = h.frames ∧
    (stepSeek h s k 0x20).2.2.ret = k ∧ (stepSeek h s k 0x20).2.1.bytes = s.bytes := by
  have : ¬ k < 0 := by omega
  simp [stepSeek, hm, this, modeBits, defaultSeek, Store.seekSet]

/-- a plain SEEK_SET on a read/write handle moves both positions -/
theorem seek_plain_moves_both (h : H) (s : Store) (k : Int) (hm : h.mode = .rw) (hk : 0 ≤ k) :
    (stepSeek h s k 0).1.rpos = k ∧ (stepSeek h s k 0).1.wpos = k ∧ (stepSeek h s k 0).1.frames = h.frames ∧
    (stepSeek h s k 0).2.1.bytes = s.bytes := by
  have : ¬ k < 0 := by omega
  simp [stepSeek, hm, this, modeBits, defaultSeek, Store.seekSet]

/-- SEEK_CUR | SFM_READ with offset 0 is a pure query of the read position on a read/write handle -/
theorem read_position_query (h : H) (s : Store) (hm : h.mode = .rw) :
    (stepSeek h s 0 0x11).2.2.ret = h.rpos ∧ (stepSeek h s 0 0x11).1.rpos = h.rpos ∧ (stepSeek h s 0 0x11).1.wpos = h.wpos ∧
    (stepSeek h s 0 0x11).2.1 = s := by
  simp [stepSeek, hm]

/-- SEEK_CUR | SFM_WRITE with offset 0 is a pure query of the write position -/
theorem write_position_query (h : H) (s : Store) (hm : h.mode = .rw) :
    (stepSeek h s 0 0x21).2.2.ret = h.wpos ∧ (stepSeek h s 0 0x21).1.rpos = h.rpos ∧ (stepSeek h s 0 0x21).1.wpos = h.wpos ∧
    (stepSeek h s 0 0x21).2.1 = s := by
  simp [stepSeek, hm]

/-- writing inside existing data keeps the length, writing at or past the end extends it to the new write position;
    the read position is untouched (C05 `write_contract`, restated for the read/write reading of C08) -/
theorem write_extends_or_keeps (h : H) (s : Store) (ty : Ty) (fc : Bool) (n : Int) (d : List Int)
    (hi : HInv h s) (hv : WriteValid h fc n) :
    (stepWrite h s ty fc n d).1.frames = max h.frames (stepWrite h s ty fc n d).1.wpos ∧
    (stepWrite h s ty fc n d).1.rpos = h.rpos :=
  let w := Sf.C05.write_contract h s ty fc n d hi hv
  ⟨w.2.2.2.2.1, w.2.2.2.2.2.1⟩

/-- SFC_FILE_TRUNCATE (descriptor routes) shortens the file to the requested frame count and moves both positions there -/
theorem truncate_shortens (h : H) (s : Store) (k : Int) (hm : h.mode = .rw) (hk : 0 ≤ k) (hc : h.canTruncate = true) :
    (stepTruncate h s k).1.frames = k ∧ (stepTruncate h s k).1.rpos = k ∧ (stepTruncate h s k).1.wpos = k ∧
    (stepTruncate h s k).2.2.ret = 0 := by
  have : ¬ k < 0 := by omega
  simp [stepTruncate, stepSeek, hm, this, hc, modeBits, defaultSeek, Store.seekSet]

example : (stepSeek { store := 0, mode := .rw, container := .raw, enc := .pcm ⟨16, false, false⟩, big := false, ch := 1, sr := 8000,
                      fmtWord := 0x040002, frames := 5, wpos := 5, lastOp := .rw } { bytes := List.replicate 10 0 } 2 0x10).1.rpos = 2 := by decide

end Sf.C08
