-- properties: C04 C11
/-
  C04 / C11 — GSM 6.10 in WAV / WAVEX: the frame count a re-open reports (model SfModel/GsmGeom.lean; the correspondence
  is vlib/gsmgeom.py).  Property theorems only.

  KF-WAV-GSM-PAD (repaired): wav_read_header adds the RIFF pad byte to `datalength`, and gsm610_init forgave
  `datalength % blocksize == 1` for the 33-byte block only, so a file of an odd number of 65-byte blocks re-opened with
  one block (320 frames) too many.
-/
import SfModel.GsmGeom
namespace Sf.C04GsmPad
open Sf.GsmGeom

theorem wavSeen_closed (W : Nat) : wavSeen (wavChunk W) (wavAvail W) = 65 * blocksWritten 320 W + (65 * blocksWritten 320 W) % 2 := by
  unfold wavSeen wavAvail wavChunk
  rw [Nat.min_eq_left (by omega)]

/-- the block count of the current rule on what the WAV reader hands over: exactly the blocks written -/
theorem wav_blocks_exact (n : Nat) : blocks true 65 (65 * n + (65 * n) % 2) = n := by
  unfold blocks
  rcases Nat.mod_two_eq_zero_or_one (65 * n) with h | h
  · rw [h, Nat.add_zero, if_pos (Nat.mul_mod_right 65 n), Nat.mul_div_cancel_left n (by decide)]
  · rw [h]
    have h1 : (65 * n + 1) % 65 = 1 := by omega
    have h2 : (65 * n + 1) / 65 = n := by omega
    rw [if_neg (by omega), if_pos ⟨h1, Or.inl rfl⟩, h2]

/-- **wav_gsm_reopen_frames** (C04, full strength since the repair of KF-WAV-GSM-PAD).  For every number `W` of written
    frames the closed WAV / WAVEX file re-opens with F = 320 · ⌈W / 320⌉ frames: W ≤ F < W + 320 (F = 0 for W = 0). -/
theorem wav_gsm_reopen_frames (W : Nat) :
    wavReopenFrames true W = 320 * blocksWritten 320 W ∧ W ≤ wavReopenFrames true W ∧ wavReopenFrames true W < W + 320 := by
  have e : wavReopenFrames true W = 320 * blocksWritten 320 W := by
    unfold wavReopenFrames framesAtOpen
    rw [wavSeen_closed, wav_blocks_exact]; rfl
  rw [e]
  unfold blocksWritten
  refine ⟨rfl, ?_, ?_⟩ <;> omega

example : wavReopenFrames true 1 = 320 ∧ wavReopenFrames true 320 = 320 ∧ wavReopenFrames true 321 = 640 ∧ wavReopenFrames true 0 = 0 := by decide

/-- the class of the repaired defect: an odd number of blocks in the closed file -/
def KF.oddBlocks (W : Nat) : Prop := blocksWritten 320 W % 2 = 1
instance (W : Nat) : Decidable (KF.oddBlocks W) := by unfold KF.oddBlocks; infer_instance

/-- **wav_gsm_reopen_old_rule.**  Under the rule before the repair, inside the class the re-open reported one block
    (320 frames) more than the file holds — outside the bound C04 allows — and outside the class the same as now. -/
theorem wav_gsm_reopen_old_rule (W : Nat) :
    (KF.oddBlocks W → wavReopenFrames false W = 320 * blocksWritten 320 W + 320 ∧ ¬ wavReopenFrames false W < W + 320) ∧
    (¬ KF.oddBlocks W → wavReopenFrames false W = wavReopenFrames true W) := by
  unfold KF.oddBlocks
  have hs := wavSeen_closed W
  constructor
  · intro hk
    have hodd : (65 * blocksWritten 320 W) % 2 = 1 := by omega
    have e : wavReopenFrames false W = 320 * blocksWritten 320 W + 320 := by
      unfold wavReopenFrames framesAtOpen blocks
      rw [hs, hodd]
      have h1 : (65 * blocksWritten 320 W + 1) % 65 = 1 := by omega
      have h2 : (65 * blocksWritten 320 W + 1) / 65 = blocksWritten 320 W := by omega
      rw [if_neg (by omega), if_neg (by simp), h2]
      unfold samplesPerBlock; simp; omega
    refine ⟨e, ?_⟩
    rw [e]; unfold blocksWritten; omega
  · intro hk
    have hev : (65 * blocksWritten 320 W) % 2 = 0 := by omega
    unfold wavReopenFrames framesAtOpen blocks
    rw [hs, hev, Nat.add_zero, if_pos (Nat.mul_mod_right 65 _), if_pos (Nat.mul_mod_right 65 _)]

/-- the recorded witness (findings/kf_wav_gsm_pad.txt): one frame written = one block; 640 frames before, 320 now -/
theorem wav_gsm_pad_witness : KF.oddBlocks 1 ∧ wavReopenFrames false 1 = 640 ∧ wavReopenFrames true 1 = 320 := by decide

/-- a truncated file is still rounded up: k whole blocks and 2 … 64 further bytes count as k + 1 blocks (both rules) -/
theorem truncated_rounds_up (fx : Bool) (k r : Nat) (h2 : 2 ≤ r) (h65 : r < 65) : blocks fx 65 (65 * k + r) = k + 1 := by
  unfold blocks
  have h1 : (65 * k + r) % 65 = r := by omega
  have h3 : (65 * k + r) / 65 = k := by omega
  rw [h1, h3, if_neg (by omega), if_neg (by omega)]

example : blocks true 65 (65 * 3 + 40) = 4 ∧ blocks true 33 (33 * 3 + 1) = 3 ∧ blocks false 33 (33 * 3 + 1) = 3 := by decide

end Sf.C04GsmPad
