/-
  C18 — the PEAK position inside ONE call that is longer than the staging buffer (round 8, gap class "late unique maximum").

  A converting writer (`host_write_s2f / i2f / d2f`, `s2d / i2d / f2d` and the `replace_*` twins) hands the caller's data to
  `float32_peak_update` / `double64_peak_update` one staging buffer ("pass") at a time, together with the offset of the
  pass inside the call.  `Sf.peakUpdate` passes that offset in FRAMES (`acc.2 / h.ch`) and `Sf.peakChunkUpdate` adds the frame
  of the item inside the buffer (`pos / ch`).  What makes the sum the frame of the item inside the CALL is that every pass is
  a whole number of frames (`stagingLen`, the repair of KF-C18-STAGING-MISALIGN):

  * `staging_whole_frames`          : the channel count divides the pass length, and the offset of every pass;
  * `pass_offset_is_item_frame`     : offset in frames + frame inside the buffer = frame of item (offset + k) of the call;
  * `pass_offset_units`             : … = the ONE division `(offset in items + k) / channels` (the two ways of writing it);
  * `mixed_units_differ`            : an offset in frames added to an item index before the division is wrong from the second
                                      pass on with two or more channels (the witness is a 2-channel call, item 3 of pass 2);
  * `mixed_units_agree_mono`, `mixed_units_agree_first_pass` : … and invisible for one channel and inside the first pass —
                                      which is why only a maximum that is UNIQUE and LATE in a long multi-channel call shows it
                                      (campaign vlib/c18long.py);
  * `long_call_second_pass`         : the model's update for the second pass of a 2-channel FLOAT call (`indx = 2048 / 2`):
                                      the maxima of the buffer's frames 0 and 1 are recorded at frames 1024 and 1025.
  The whole-call statement for every call length is `Sf.C18.peak_is_max_first` / `peak_partition_independent`.
-/
import SfProofs.Peak
namespace Sf.C18Long
open Sf Sf.Float Sf.Peak

/-- frame offset the model adds for item `k` of a pass that starts `total` items into the call -/
def posFrames (total k ch : Nat) : Nat := total / ch + k / ch
/-- frame of item `total + k` of the call -/
def posItems (total k ch : Nat) : Nat := (total + k) / ch
/-- a frame offset added to an item index (the two units mixed) -/
def posMixed (total k ch : Nat) : Nat := (total / ch + k) / ch

/-- the staging buffer holds whole frames, hence so does every pass offset `j * stagingLen` -/
theorem staging_whole_frames (f : Float.Fmt) (ch j : Nat) : ch ∣ j * stagingLen f ch := by
  apply Dvd.dvd.mul_left
  unfold stagingLen
  exact (Nat.dvd_sub_mod _)

/-- offset in frames + frame inside the buffer = the frame of the item inside the call -/
theorem pass_offset_is_item_frame (total k ch : Nat) (hch : 0 < ch) (hdiv : ch ∣ total) :
    posFrames total k ch = posItems total k ch := by
  obtain ⟨q, rfl⟩ := hdiv
  unfold posFrames posItems
  rw [Nat.mul_div_cancel_left q hch, Nat.mul_add_div hch]

/-- for the passes of a converting writer (pass `j`, item `k` of its buffer): the recorded frame is the item's frame -/
theorem pass_offset_units (f : Float.Fmt) (ch j k : Nat) (hch : 0 < ch) :
    posFrames (j * stagingLen f ch) k ch = posItems (j * stagingLen f ch) k ch :=
  pass_offset_is_item_frame _ _ _ hch (staging_whole_frames f ch j)

/-- mixing the units is wrong: 2 channels, second pass (2048 items in), item 3 of the buffer is frame 1025, not 513 -/
theorem mixed_units_differ : posMixed 2048 3 2 ≠ posItems 2048 3 2 ∧ posItems 2048 3 2 = 1025 ∧ posMixed 2048 3 2 = 513 := by decide

/-- … and cannot be seen with one channel … -/
theorem mixed_units_agree_mono (total k : Nat) : posMixed total k 1 = posItems total k 1 := by
  simp [posMixed, posItems]

/-- … nor inside the first pass -/
theorem mixed_units_agree_first_pass (k ch : Nat) : posMixed 0 k ch = posItems 0 k ch := by
  simp [posMixed, posItems]

/-- non-vacuity of `pass_offset_units`: FLOAT file, 3 channels: a pass is 2046 items; item 5 of the third pass is frame 1365 -/
example : stagingLen Float.f32 3 = 2046 ∧ posFrames (2 * stagingLen Float.f32 3) 5 3 = 1365 ∧ posItems (2 * 2046) 5 3 = 1365 := by decide

/-- the second pass of a 2-channel FLOAT call: buffer [0.25f, 0.5f, 0.125f, 0.75f] handed over with `indx = 2048 / 2`:
    channel 0 has its maximum in frame 1024, channel 1 in frame 1025 -/
theorem long_call_second_pass :
    peakChunkUpdate Float.f32 2 0 ((2048 / 2 : Nat) : Int) [0x3E800000, 0x3F000000, 0x3E000000, 0x3F400000] (mkPeaks 2) =
      [{ value := 0x3FD0000000000000, position := 1024 }, { value := 0x3FE8000000000000, position := 1025 }] := by
  decide +kernel

end Sf.C18Long
