-- properties: C05 C06
/-
  C05 / C06 for G.721 / G.723 read handles (src/g72x.c) on the bit-exact model of SfModel/G72x.lean, G72xFile.lean: the
  reader is an instance of the generic block reader whose block source is the REAL decoder run over the data region
  (decoder state carried from block to block, the stale tail of the block buffer after a short last read included).
  Property theorems only; helpers in SfProofs/G72x.lean, G72xRead.lean, BlockReader.lean.

  * `g72x_reader_wf`, `g72x_open_inv`       the reader over ANY data bytes is well formed; the handle invariant holds after open
  * `g72x_read_contract`  (C05)              ∀ request size, ∀ position, ∀ caller type: returns c = min (n, F − pos), delivers
                                             stream [pos, pos + c), zero-fills the rest of the requested region, advances by c
  * `g72x_read_eof`       (C05)              at the end of the data: 0, the region zero-filled
  * `g72x_read_partition` (C06)              ∀ sequences of requests of any sizes and types from any reachable handle: the
                                             concatenated deliveries are one slice of the stream — a function of the data
                                             bytes and of the frame position only
  * `g72x_two_handles`    (C06)              two handles on the same bytes deliver the same items at the same positions
  * `g72x_seek_refused`   (C06)              the handle is not seekable: every sf_seek fails and moves nothing, so
                                             "seek succeeded ⇒ the following reads start at the target" holds vacuously
  * `g72x_samples_are_shorts`                every delivered cell is a C `short` (the decoder never leaves the 16-bit range)
-/
import SfProofs.G72xRead
import SfProps.C06Block
namespace Sf.C06G72x
open Sf Sf.G72x Sf.G72x.Proofs Sf.Block Sf.Block.Proofs

theorem g72x_reader_wf (r : Rate) (data : List Byte) : WF (reader r data) :=
  ⟨by show 0 < 120; omega, by show 0 < 1; omega, reader_src_length r data⟩

/-- the frame count at open is computed from the data length alone -/
theorem g72x_reader_frames (r : Rate) (data : List Byte) :
    (G72x.RHandle.open r data).frames = framesAtOpen r data.length ∧ (G72x.RHandle.open r data).pos = 0 := ⟨rfl, rfl⟩

theorem g72x_open_inv (r : Rate) (data : List Byte) : HInv (G72x.RHandle.open r data) := open_inv r data

/-- **read contract (C05), full strength** -/
theorem g72x_read_contract (h : G72x.RHandle) (hi : HInv h) (ty : Ty) (n : Nat) :
    (h.read ty n).2.2 = min n (h.frames - h.pos) ∧
    (h.read ty n).2.1 = h.r.slice h.pos (h.read ty n).2.2 ++ zeros (n - (h.read ty n).2.2) ∧
    (h.read ty n).2.1.length = n ∧
    (h.read ty n).1.pos = h.pos + (h.read ty n).2.2 ∧
    ((h.read ty n).2.2 < n → (h.read ty n).1.pos = h.frames) ∧
    HInv (h.read ty n).1 := by
  obtain ⟨h1, h2, h3, _, _, h6⟩ := read_spec h hi ty n
  rw [h2]
  refine ⟨rfl, h1, ?_, h3, ?_, h6⟩
  · rw [h1, List.length_append, slice_length, zeros, List.length_replicate]; omega
  · intro hlt
    rw [h3]
    have := hi.le
    omega

/-- at the end of the data a read returns 0 and zero-fills the whole requested region -/
theorem g72x_read_eof (h : G72x.RHandle) (hi : HInv h) (ty : Ty) (n : Nat) (he : h.pos = h.frames) :
    (h.read ty n).2 = (zeros n, 0) := by
  obtain ⟨h1, h2, _⟩ := read_spec h hi ty n
  have hz : min n (h.frames - h.pos) = 0 := by omega
  rw [hz] at h1 h2
  rw [Prod.ext_iff]
  exact ⟨by rw [h1]; simp [slice_zero], h2⟩

/-- run a list of read requests; collect what each call delivered (its first `ret` cells) -/
def deliveries : G72x.RHandle → List (Ty × Nat) → G72x.RHandle × List Int
  | h, [] => (h, [])
  | h, (ty, n) :: rest =>
    let (h1, d, ret) := h.read ty n
    let (h2, ds) := deliveries h1 rest
    (h2, d.take ret ++ ds)

def total (reqs : List (Ty × Nat)) : Nat := (reqs.map (·.2)).sum

/-- **partition invariance (C06), full strength**: any sequence of requests — any sizes, any caller types, running
    past the end or not — delivers, concatenated, exactly the stream items from the starting position on: what one
    request of the summed size delivers -/
theorem g72x_read_partition : ∀ (reqs : List (Ty × Nat)) (h : G72x.RHandle), HInv h →
    (deliveries h reqs).2 = h.r.slice h.pos (min (total reqs) (h.frames - h.pos)) ∧
    (deliveries h reqs).1.pos = h.pos + min (total reqs) (h.frames - h.pos) := by
  intro reqs
  induction reqs with
  | nil => intro h _; simp [deliveries, total, slice_zero]
  | cons q qs ih =>
    intro h hi
    obtain ⟨ty, n⟩ := q
    obtain ⟨h1, h2, h3, h4, h5, h6⟩ := read_spec h hi ty n
    obtain ⟨i1, i2⟩ := ih (h.read ty n).1 h6
    simp only [deliveries]
    rw [i1, i2, h1, h2, h3, h4, h5]
    have hle := hi.le
    have htot : total ((ty, n) :: qs) = n + total qs := by simp [total]
    rw [htot]
    generalize total qs = m
    generalize hc : min n (h.frames - h.pos) = c
    have hsl : (h.r.slice h.pos c ++ zeros (n - c)).take c = h.r.slice h.pos c := by
      rw [List.take_left' (slice_length _ _ _)]
    rw [hsl, ← slice_append]
    constructor
    · congr 1; omega
    · omega

/-- one request of the summed size delivers the same items -/
theorem g72x_read_partition_one (reqs : List (Ty × Nat)) (h : G72x.RHandle) (hi : HInv h) (ty : Ty) :
    (deliveries h reqs).2 = (h.read ty (total reqs)).2.1.take (h.read ty (total reqs)).2.2 := by
  obtain ⟨h1, h2, _⟩ := read_spec h hi ty (total reqs)
  rw [(g72x_read_partition reqs h hi).1, h1, h2, List.take_left' (slice_length _ _ _)]

/-- the stream is a function of the data bytes: two handles opened on the same bytes, each after its own history of
    reads, deliver the same items wherever their positions meet -/
theorem g72x_two_handles (r : Rate) (data : List Byte) (reqs1 reqs2 : List (Ty × Nat)) (ty1 ty2 : Ty) (n : Nat)
    (hp : total reqs1 = total reqs2) :
    ((deliveries (G72x.RHandle.open r data) reqs1).1.read ty1 n).2 = ((deliveries (G72x.RHandle.open r data) reqs2).1.read ty2 n).2 := by
  have key : ∀ (reqs : List (Ty × Nat)) (h : G72x.RHandle), HInv h →
      HInv (deliveries h reqs).1 ∧ (deliveries h reqs).1.r = h.r ∧ (deliveries h reqs).1.frames = h.frames := by
    intro reqs
    induction reqs with
    | nil => intro h hi; exact ⟨hi, rfl, rfl⟩
    | cons q qs ih =>
      intro h hi
      obtain ⟨ty, m⟩ := q
      obtain ⟨_, _, _, h4, h5, h6⟩ := read_spec h hi ty m
      obtain ⟨a, b, c⟩ := ih _ h6
      simp only [deliveries]
      exact ⟨a, by rw [b, h4], by rw [c, h5]⟩
  obtain ⟨a1, b1, c1⟩ := key reqs1 _ (open_inv r data)
  obtain ⟨a2, b2, c2⟩ := key reqs2 _ (open_inv r data)
  have p1 := (g72x_read_partition reqs1 _ (open_inv r data)).2
  have p2 := (g72x_read_partition reqs2 _ (open_inv r data)).2
  obtain ⟨x1, x2, _⟩ := read_spec _ a1 ty1 n
  obtain ⟨y1, y2, _⟩ := read_spec _ a2 ty2 n
  rw [Prod.ext_iff, x1, x2, y1, y2, b1, b2, c1, c2, p1, p2, hp]
  exact ⟨rfl, rfl⟩

/-- `sf.seekable = 0`: every seek (any offset, any whence) is refused and the handle is left as it was -/
theorem g72x_seek_refused (h : G72x.RHandle) (offset : Int) (whence : Nat) : h.seek offset whence = none := rfl

/-- every cell a read hands to the conversion is a C `short` -/
theorem g72x_samples_are_shorts (r : Rate) (data : List Byte) (p n : Nat) :
    ∀ v ∈ (reader r data).slice p n, -32768 ≤ v ∧ v ≤ 32767 := by
  intro v hv
  simp only [Reader.slice, List.mem_map, List.mem_range] at hv
  obtain ⟨i, _, rfl⟩ := hv
  unfold Reader.itemAt
  generalize hl : List.drop _ ((reader r data).src _) = l
  cases l with
  | nil => simp
  | cons a t =>
    have hm : a ∈ (reader r data).src ((p + i) / ((reader r data).spb * (reader r data).ch)) := by
      have : a ∈ List.drop ((p + i) % ((reader r data).spb * (reader r data).ch))
          ((reader r data).src ((p + i) / ((reader r data).spb * (reader r data).ch))) := by rw [hl]; simp
      exact List.mem_of_mem_drop this
    exact reader_src_range r data _ a hm

/-- non-vacuity: 61 bytes of G.721 data (one block and one byte: two blocks, 240 frames); 100 + 30 + 200 items asked,
    240 delivered, the same as one request of 330 -/
example : (deliveries (G72x.RHandle.open g721 (List.replicate 61 0x7A)) [(.s16, 100), (.f32, 30), (.s32, 200)]).2 =
    ((G72x.RHandle.open g721 (List.replicate 61 0x7A)).read .s16 330).2.1.take 240 ∧
    ((G72x.RHandle.open g721 (List.replicate 61 0x7A)).read .s16 330).2.2 = 240 := by decide +kernel

end Sf.C06G72x
