/-
  C14 / C15 — the seek latch (psf->file.seek_failed) on the three routes: `Sf.RoutesLatch` over `Sf.Routes`.
  -- properties: C14 C15

  * `fseekL_obs`            psf_fseek returns and does what it did before the latch existed, on every route (only the flag is new)
  * `fseekL_vio_latch`, `fseekL_fd_latch`, `fseekL_pipe_keeps`, `fseekL_bad_whence_keeps`   where the flag is set / cleared / left alone
  * `fwriteL_latched`       with the flag set psf_fwrite transfers nothing and touches neither the file, the store nor the shim — the
                            SAME answer on the descriptor, path, pipe and callback routes
  * `fwriteL_clear`         with the flag clear psf_fwrite is the psf_fwrite of `Sf.Routes`
  * `runL_eq_run_of_clear`  a run in which the flag is never set is observation for observation, state for state, a run of `Sf.Routes`:
                            every C14 theorem about `Sf.Routes.run` (routes_equivalent, …) is a theorem about the repaired code on such
                            runs; the runs it does not cover are exactly those with a failed seek followed by further operations, where
                            the only difference is `fwriteL_latched`.
-/
import SfModel.RoutesLatch
namespace Sf.C14Latch
open Sf Sf.Routes Sf.RoutesLatch

theorem fseekL_obs (ls : LShim) (w : World) (off : Int) (wh : Nat) : (fseekL ls w off wh).r = fseek ls.sh w off wh := by
  unfold fseekL; simp only []; (repeat' split) <;> rfl

theorem fseekL_vio_latch (ls : LShim) (w : World) (off : Int) (wh : Nat) (hv : ls.sh.virtualIo = true) :
    (fseekL ls w off wh).seekFailed = decide ((fseek ls.sh w off wh).ret < 0) := by
  unfold fseekL; simp [hv]

theorem fseekL_pipe_keeps (ls : LShim) (w : World) (off : Int) (wh : Nat) (hv : ls.sh.virtualIo = false) (hp : ls.sh.isPipe = true) :
    (fseekL ls w off wh).seekFailed = ls.seekFailed := by
  unfold fseekL; simp [hv, hp]

theorem fseekL_bad_whence_keeps (ls : LShim) (w : World) (off : Int) (wh : Nat) (hv : ls.sh.virtualIo = false) (hwh : 2 < wh) :
    (fseekL ls w off wh).seekFailed = ls.seekFailed := by
  unfold fseekL; simp only [hv, Bool.false_eq_true, if_false]
  split
  · rfl
  · simp [hwh]

/-- descriptor route: the flag is the sign of lseek's own result -/
theorem fseekL_fd_latch (ls : LShim) (w : World) (off : Int) (wh : Nat) (hv : ls.sh.virtualIo = false) (hp : ls.sh.isPipe = false)
    (hwh : ¬ 2 < wh) :
    (fseekL ls w off wh).seekFailed = decide ((lseek w ls.sh.filedes (if wh = 0 then off + ls.sh.fileoffset else off) wh).1 < 0) := by
  unfold fseekL fseek
  simp only [hv, hp, hwh, Bool.false_eq_true, if_false]
  congr 1
  apply propext
  constructor <;> intro h <;> omega

/-- FULL STATEMENT, every route: while the flag is set psf_fwrite transfers nothing, returns 0 and leaves the operating-system file, the
    callback store and the shim exactly as they were -/
theorem fwriteL_latched (ls : LShim) (w : World) (b i : Int) (d : List Byte) (hl : ls.seekFailed = true) :
    (fwriteL ls w b i d).r.ret = 0 ∧ (fwriteL ls w b i d).r.w = w ∧ (fwriteL ls w b i d).r.sh = ls.sh ∧
    (fwriteL ls w b i d).seekFailed = true := by
  unfold fwriteL
  by_cases hz : b = 0 ∨ i = 0
  · simp only [hz, if_true, fwrite, hl]; exact ⟨trivial, trivial, trivial, trivial⟩
  · simp only [hz, if_false, hl, if_true]; exact ⟨trivial, trivial, trivial, trivial⟩

theorem fwriteL_clear (ls : LShim) (w : World) (b i : Int) (d : List Byte) (hl : ls.seekFailed = false) :
    (fwriteL ls w b i d).r = fwrite ls.sh w b i d ∧ (fwriteL ls w b i d).seekFailed = false := by
  unfold fwriteL
  by_cases hz : b = 0 ∨ i = 0
  · simp only [hz, if_true, hl]; exact ⟨trivial, trivial⟩
  · simp only [hz, if_false, hl, Bool.false_eq_true]; exact ⟨trivial, trivial⟩

theorem stepL_clear (ls : LShim) (w : World) (op : Op) (hl : ls.seekFailed = false) : (stepL ls w op).r = step ls.sh w op := by
  cases op with
  | seek off wh => exact fseekL_obs ls w off wh
  | write b i d => exact (fwriteL_clear ls w b i d hl).1
  | read b i => rfl
  | tell => rfl
  | filelen => rfl
  | truncate n => rfl

/-- the flag is clear before every operation of the run (and after the last) -/
def clearRun : LShim → World → List Op → Bool
  | ls, _, [] => !ls.seekFailed
  | ls, w, op :: ops => !ls.seekFailed && clearRun (stepL ls w op).ls (stepL ls w op).r.w ops

/-- a run in which no psf_fseek fails is a run of `Sf.Routes`: same observations, same final shim, same final world -/
theorem runL_eq_run_of_clear : ∀ (ops : List Op) (ls : LShim) (w : World), clearRun ls w ops = true →
    (runL ls w ops).1 = (run ls.sh w ops).1 ∧ (runL ls w ops).2.1.sh = (run ls.sh w ops).2.1 ∧ (runL ls w ops).2.2 = (run ls.sh w ops).2.2 := by
  intro ops
  induction ops with
  | nil => intro ls w _; exact ⟨rfl, rfl, rfl⟩
  | cons op ops ih =>
    intro ls w hc
    simp only [clearRun, Bool.and_eq_true, Bool.not_eq_true'] at hc
    have hs := stepL_clear ls w op hc.1
    have := ih (stepL ls w op).ls (stepL ls w op).r.w hc.2
    simp only [runL, run]
    have hsh : (stepL ls w op).ls.sh = (step ls.sh w op).sh := by simp [LR.ls, hs]
    rw [hsh, hs] at this
    rw [hs]
    exact ⟨by rw [this.1], this.2.1, this.2.2⟩

/-! non-vacuity: a callback-route shim whose seek to −5 fails, then a write of four bytes: refused, the store unchanged; the same
    schedule without the failing seek writes -/
def wShim : LShim := { sh := openVio .rw }
def wWorld : World := { mem := [1, 2, 3, 4, 5, 6], mpos := 2 }

example : (fseekL wShim wWorld (-5) 0).seekFailed = true := by decide
example : (runL wShim wWorld [.seek (-5) 0, .write 1 4 [9, 9, 9, 9], .tell]).1 = [(-1, []), (0, []), (2, [])] := by decide
example : (runL wShim wWorld [.seek (-5) 0, .write 1 4 [9, 9, 9, 9]]).2.2.mem = [1, 2, 3, 4, 5, 6] := by decide
example : (run wShim.sh wWorld [.seek (-5) 0, .write 1 4 [9, 9, 9, 9]]).2.2.mem = [1, 2, 9, 9, 9, 9] := by decide   -- the rule before the repair
example : clearRun wShim wWorld [.seek 1 0, .write 1 2 [9, 9], .tell] = true := by decide
example : (runL wShim wWorld [.seek 1 0, .write 1 2 [9, 9], .tell]).1 = (run wShim.sh wWorld [.seek 1 0, .write 1 2 [9, 9], .tell]).1 :=
  (runL_eq_run_of_clear _ _ _ (by decide)).1
example : (fwriteL { wShim with seekFailed := true } wWorld 1 4 [9, 9, 9, 9]).r.w = wWorld :=
  (fwriteL_latched _ _ _ _ _ rfl).2.1

end Sf.C14Latch
