-- properties: C04 C11
/-
  C04 / C11 — the HTK container (stand-alone L1 model SfModel/Htk.lean; helpers SfProofs/HtkImage.lean,
  SfProofs/Small2Session.lean).  Property theorems only.

  A *session* is `openW` (sf_open SFM_WRITE; the caller's frames value is a parameter), any list of `WOp`s (write
  calls storing whole frames, with or without SFC_SET_UPDATE_HEADER_AUTO; SFC_UPDATE_HEADER_NOW), then `close`.
  `parse` is sf_open (SFM_READ) of the produced bytes.
-/
import SfModel.Htk
import SfProofs.HtkImage
namespace Sf.C04Htk
open Sf Sf.Small2 Sf.Htk

/-! ### the sample period -/

/-- a rate that divides 10 000 000 (the number of 100 ns units in a second) is reported back exactly -/
theorem htk_rate_exact (sr : Nat) (h1 : 1 ≤ sr) (hd : 10000000 % sr = 0) : quant sr = sr := by
  have hle : sr ≤ 10000000 := Nat.le_of_dvd (by decide) (Nat.dvd_of_mod_eq_zero hd)
  have hp : period sr > 0 := Nat.div_pos hle h1
  have hmul : sr * period sr = 10000000 := Nat.mul_div_cancel' (Nat.dvd_of_mod_eq_zero hd)
  simp only [quant, hp, if_true]
  exact Nat.div_eq_of_eq_mul_left hp hmul.symm

/-- up to 10 MHz the reported rate is never below the requested one, and it is itself exactly representable:
    writing again at the reported rate stores the same period -/
theorem htk_rate_quantised (sr : Nat) (h1 : 1 ≤ sr) (hle : sr ≤ 10000000) :
    sr ≤ quant sr ∧ period (quant sr) = period sr := by
  have hp : period sr > 0 := Nat.div_pos hle h1
  have hq : quant sr = 10000000 / period sr := by simp [quant, hp]
  have hps : period sr * sr ≤ 10000000 := Nat.div_mul_le_self _ _
  have h1' : sr ≤ 10000000 / period sr := (Nat.le_div_iff_mul_le hp).2 (by rw [Nat.mul_comm]; exact hps)
  refine ⟨by rw [hq]; exact h1', ?_⟩
  rw [hq]
  apply Nat.le_antisymm
  · exact Nat.div_le_div_left h1' h1
  · have hqpos : 0 < 10000000 / period sr := Nat.lt_of_lt_of_le h1 h1'
    exact (Nat.le_div_iff_mul_le hqpos).2 (by rw [Nat.mul_comm]; exact Nat.div_mul_le_self _ _)

/-- above 10 MHz the period is 0 and every reader falls back to 16 kHz -/
theorem htk_rate_fallback (sr : Nat) (h : 10000000 < sr) : quant sr = 16000 := by
  have : period sr = 0 := Nat.div_eq_of_lt h
  simp [quant, this]

example : quant 16000 = 16000 ∧ quant 8000 = 8000 ∧ quant 44100 = 44247 ∧ quant 10000001 = 16000 := by decide

/-! ### closed files -/

/-- the class of the known finding KF-HTK-MAGIC-CLASH: HTK files carry no magic number; the sample count in bytes
    0…3 (and the period in 4…7) of a file of `N` frames is read as the marker of another container by one of the
    tests that `guess_file_type` runs before the HTK test -/
def KF.magicClash (sr N : Nat) : Prop := preHtk (be32 (N : Nat)) (be32 (period sr)) [0, 2, 0, 0] ≠ none
instance (sr N : Nat) : Decidable (KF.magicClash sr N) := by unfold KF.magicClash; infer_instance

/-- what C04 asks of HTK -/
def htk_reopen_full : Prop :=
  ∀ (sr : Nat), wf sr → ∀ (stale : Nat) (ops : List WOp), WholeFrames 2 ops →
    (closedBytes (fmt sr) stale ops).length < 2 ^ 31 →
    parse (closedBytes (fmt sr) stale ops) =
      .ok { ch := 1, fmt := 0x100002, sr := quant sr, frames := (opsData ops).length / 2 }

theorem closedBytes_eq (sr stale : Nat) (ops : List WOp) :
    closedBytes (fmt sr) stale ops =
      be32 ((opsData ops).length / 2 : Nat) ++ be32 (period sr) ++ be32 0x20000 ++ opsData ops := by
  rw [Small2.closedBytes_eq (fmt sr) (lawful sr) rfl stale ops]
  show calcHdr (fmt sr) (12 + _) ++ _ = _
  rw [calcHdr_eq]

/-- **htk_reopen_info** (`…_partial`: everything outside the class KF.magicClash).  For every rate and every
    session of whole frames, under the guard of the 32-bit `2 * sample_count` arithmetic (file shorter than 2^31
    bytes), the closed file re-opens as one channel of HTK / PCM_16 at the rate `quant sr` with exactly the frames
    written. -/
theorem htk_reopen_info (sr : Nat) (_hwf : wf sr) (stale : Nat) (ops : List WOp) (hw : WholeFrames 2 ops)
    (hguard : (closedBytes (fmt sr) stale ops).length < 2 ^ 31)
    (hk : ¬ KF.magicClash sr ((opsData ops).length / 2)) :
    parse (closedBytes (fmt sr) stale ops) =
      .ok { ch := 1, fmt := 0x100002, sr := quant sr, frames := (opsData ops).length / 2 } := by
  have he := opsData_whole 2 ops hw
  rw [closedBytes_eq] at hguard ⊢
  have hlen : (be32 ((opsData ops).length / 2 : Nat) ++ be32 (period sr) ++ be32 0x20000 ++ opsData ops).length
      = 12 + (opsData ops).length := by simp; omega
  rw [hlen] at hguard
  have hnone : preHtk (be32 ((opsData ops).length / 2 : Nat)) (be32 (period sr)) [0, 2, 0, 0] = none := by
    unfold KF.magicClash at hk; exact Classical.not_not.mp hk
  unfold parse
  rw [hlen, if_neg (by omega), if_neg (by omega), guess_image sr _ he hguard, hnone]
  exact readHeader_image sr _ he hguard

/-- inside the class the file is taken for another container: the HTK reader is never reached -/
theorem htk_clash_not_reopened (sr stale : Nat) (ops : List WOp) (hw : WholeFrames 2 ops)
    (hguard : (closedBytes (fmt sr) stale ops).length < 2 ^ 31)
    (hk : KF.magicClash sr ((opsData ops).length / 2)) :
    parse (closedBytes (fmt sr) stale ops) = .unmodelled := by
  have he := opsData_whole 2 ops hw
  rw [closedBytes_eq] at hguard ⊢
  have hlen : (be32 ((opsData ops).length / 2 : Nat) ++ be32 (period sr) ++ be32 0x20000 ++ opsData ops).length
      = 12 + (opsData ops).length := by simp; omega
  rw [hlen] at hguard
  unfold parse
  rw [hlen, if_neg (by omega), if_neg (by omega), guess_image sr _ he hguard]
  unfold KF.magicClash at hk
  cases hp : preHtk (be32 ((opsData ops).length / 2 : Nat)) (be32 (period sr)) [0, 2, 0, 0] with
  | none => exact absurd hp hk
  | some g =>
    have hne : g ≠ .fmt 0x100000 := by
      intro hg; rw [hg] at hp; exact preHtk_ne_htk _ _ _ hp
    cases g with
    | zero => rfl
    | fmt m =>
      have : m ≠ 0x100000 := fun h => hne (by rw [h])
      simp only []
      split
      · rename_i heq; cases heq; exact absurd rfl this
      · rfl

/-- 41 828 frames: the sample count 0x0000A364 is the (byte-swapped) IRCAM marker -/
def clashOps : List WOp := [.write (List.replicate 83656 0) false]

theorem clash_witness : KF.magicClash 16000 41828 ∧ preHtk (be32 41828) (be32 (period 16000)) [0, 2, 0, 0] = some (.fmt 0x0A0000) := by
  decide

/-- the full statement fails: a 16 kHz mono file of 41 828 frames is not re-opened as HTK -/
theorem htk_reopen_full_fails : ¬ htk_reopen_full := by
  intro h
  have hw : WholeFrames 2 clashOps := by
    intro op hop
    simp only [clashOps, List.mem_singleton] at hop
    subst hop
    show (List.replicate 83656 (0 : Byte)).length % 2 = 0
    rw [List.length_replicate]
  have hD : (opsData clashOps).length = 83656 := by
    show (List.replicate 83656 (0 : Byte) ++ []).length = 83656
    rw [List.append_nil, List.length_replicate]
  have hl : (closedBytes (fmt 16000) 0 clashOps).length < 2 ^ 31 := by
    rw [closedBytes_eq]; simp [hD]
  have h1 := h 16000 (by decide) 0 clashOps hw hl
  have hk : KF.magicClash 16000 ((opsData clashOps).length / 2) := by rw [hD]; exact clash_witness.1
  rw [htk_clash_not_reopened 16000 0 clashOps hw hl hk] at h1
  cases h1

/-- a two-call session with a header update in between: 3 frames at 8 kHz -/
def exOps : List WOp := [.write [0, 1, 0, 2] false, .update, .write [0, 3] true]
example : wf 8000 ∧ WholeFrames 2 exOps ∧ ¬ KF.magicClash 8000 3 ∧ (closedBytes (fmt 8000) 77 exOps).length = 18 ∧
    parse (closedBytes (fmt 8000) 77 exOps) = .ok ⟨1, 0x100002, 8000, 3⟩ := by decide +kernel

/-- **htk_size_fields.**  For every session of whole frames: the file is header + audio, and the sample-count
    field holds the low 32 bits of (file length − 12) / 2 = the number of frames written. -/
theorem htk_size_fields (sr stale : Nat) (ops : List WOp) (bytes : List Byte) (D : Nat)
    (hbytes : bytes = closedBytes (fmt sr) stale ops) (hD : D = (opsData ops).length) :
    bytes.length = 12 + D ∧ ofBE (bytes.take 4) = ((bytes.length - 12) / 2) % 2 ^ 32 ∧
    ofBE ((bytes.drop 4).take 4) = period sr ∧ bytes.drop 12 = opsData ops := by
  rw [closedBytes_eq] at hbytes
  have hlen : bytes.length = 12 + D := by rw [hbytes, hD]; simp; omega
  have e : bytes = be32 ((opsData ops).length / 2 : Nat) ++ (be32 (period sr) ++ (be32 0x20000 ++ opsData ops)) := by
    rw [hbytes]; simp
  refine ⟨hlen, ?_, ?_, ?_⟩
  · rw [hlen, e, take_append_len _ _ 4 (be32_length _), ofBE_be32, wrapU_nat_mod, hD]
    have : 12 + (opsData ops).length - 12 = (opsData ops).length := by omega
    rw [this]
  · rw [e, drop_append_len _ _ 4 (be32_length _), take_append_len _ _ 4 (be32_length _), ofBE_be32]
    exact wrapU_nat 32 _ (by have := period_le sr; omega)
  · have : (12 : Nat) = 4 + (4 + 4) := rfl
    rw [e, this, ← List.drop_drop, drop_append_len _ _ 4 (be32_length _), ← List.drop_drop,
      drop_append_len _ _ 4 (be32_length _), drop_append_len _ _ 4 (be32_length _)]

example : ofBE ((closedBytes (fmt 8000) 77 exOps).take 4) = 3 ∧ ofBE (((closedBytes (fmt 8000) 77 exOps).drop 4).take 4) = 1250 := by
  decide +kernel

/-- **htk_frames_bound.**  HTK is sample-granular and never pads: `N` frames of 2 bytes re-open as exactly `N`. -/
theorem htk_frames_bound (N : Nat) : (N * 2) / 2 = N ∧ N ≤ (N * 2) / 2 ∧ (N * 2) / 2 < N + 1 := by omega

example : (3 * 2) / 2 = 3 := by decide

/-! ### the caller's frames field -/

/-- **stale_frames_ignored_htk.**  The closed bytes and every image left by a header update do not depend on the
    frames value the caller left in SF_INFO (the HTK header never holds sf.frames: the count comes from the file
    length). -/
theorem stale_frames_ignored_htk (sr a b : Nat) (ops : List WOp) :
    closedBytes (fmt sr) a ops = closedBytes (fmt sr) b ops ∧ snapshotBytes (fmt sr) a ops = snapshotBytes (fmt sr) b ops :=
  ⟨stale_ignored (fmt sr) (lawful sr) rfl a b ops, stale_ignored_snapshot (fmt sr) (lawful sr) a b ops⟩

example : closedBytes (fmt 8000) 0 exOps = closedBytes (fmt 8000) 123456 exOps := by decide +kernel

/-! ### C11: header updates -/

/-- **htk_snapshot_valid.**  After any session prefix, the image a header update (SFC_UPDATE_HEADER_NOW, or a write
    call in auto mode) leaves in the store is the file a close at that instant would have produced: outside the
    class KF.magicClash it parses with the same parameters and exactly the frames written so far, and it is the
    12-byte header followed by the audio written so far. -/
theorem htk_snapshot_valid (sr : Nat) (hwf : wf sr) (stale : Nat) (ops : List WOp) (hw : WholeFrames 2 ops)
    (hguard : (snapshotBytes (fmt sr) stale ops).length < 2 ^ 31)
    (hk : ¬ KF.magicClash sr ((opsData ops).length / 2)) :
    parse (snapshotBytes (fmt sr) stale ops) =
      .ok { ch := 1, fmt := 0x100002, sr := quant sr, frames := (opsData ops).length / 2 } ∧
    ∃ hdr, hdr.length = 12 ∧ snapshotBytes (fmt sr) stale ops = hdr ++ opsData ops := by
  have hcs := closed_is_snapshot (fmt sr) rfl stale ops
  rw [← hcs] at hguard ⊢
  refine ⟨htk_reopen_info sr hwf stale ops hw hguard hk, calcHdr (fmt sr) (12 + (opsData ops).length), ?_, ?_⟩
  · rw [calcHdr_eq]; simp
  · exact Small2.closedBytes_eq (fmt sr) (lawful sr) rfl stale ops

example : parse (snapshotBytes (fmt 8000) 5 [.write [0, 1, 0, 2] false]) = .ok ⟨1, 0x100002, 8000, 2⟩ := by decide +kernel

end Sf.C04Htk
