/-
  C04 / C07 — THE WRITE-SIDE BRIDGE for BLOCK CODECS: the record the all-format write campaign would write down of a job on a
  block-coded file, if the library behaved like the codec's model, passes the C07 (`partition`, `stale`), C04 (`info`,
  `frames`, `eof`) and call clauses of `Sf.AbsWrite.judge` — `block_session_accepted`, instantiated for G.721 / G.723 (3 rates),
  NMS ADPCM (3 rates) and GSM 06.10 (both layouts) from their `*_write_partition`, `*_frames_at_reopen` and read-contract
  theorems.  The codec models describe the data region; the container around it is any function of the data length
  (`hdr` / `tail`) that re-opens with the requested parameters (`rate`).  These pairs are lossy: the C01 clause is outside its
  side condition (`losslessLow = none`), and crash points (C11) belong to the container models.

  -- properties: C04 C07
-/
import SfProofs.AbsWriteBridgeBlock
import SfProps.C07CodecsClosed
import SfProps.C06G72x
namespace Sf.C07Bridge
open Sf Sf.AbsWrite Sf.AbsWriteBridge

/-- THE GENERIC STEP: a block-codec job with the four facts is accepted -/
theorem block_session_accepted (J : BlockJob) (X : BlockFacts J) : accepted J.pred.record = true :=
  Pred.accepted_of_good _ (block_pred_good J X)

/-- the calls of a job as the (type, samples) pairs the codec models take -/
def typed (ty : Ty) (cs : List LCall) : List (Ty × List Int) := cs.map fun c => (ty, c.xs)

theorem flatMap_typed (ty : Ty) (f : Ty → Int → Int) (cs : List LCall) :
    (typed ty cs).flatMap (fun c => c.2.map (f c.1)) = (samples cs).map (f ty) := by
  induction cs with
  | nil => rfl
  | cons c cs ih =>
    simp only [typed, List.map_cons, List.flatMap_cons, samples, List.map_append] at ih ⊢
    rw [ih]

theorem framesOf_one (cs : List LCall) : framesOf 1 cs = (samples cs).length := by
  induction cs with
  | nil => rfl
  | cons c cs ih => simp [framesOf, samples] at *; omega

/-! ## G.721 / G.723 -/

section G72x
open Sf.G72x Sf.C07G72x

/-- a G.72x job: mono, any container word whose codec is one of the three rates -/
def g72xJob (r : Rate) (cv : Conv) (g : AbsWrite.Geom) (ty : Ty) (one split : List LCall) (hdr tail : Nat → List Byte) : BlockJob :=
  { g := g, ty := ty, one := one, split := split,
    data := fun cs => closedBytes r cv (typed ty cs), hdr := hdr, tail := tail,
    framesAt := framesAtOpen r,
    back := fun d n => ((G72x.RHandle.open r d).read ty n).2.1 }

theorem g72x_session_accepted (r : Rate) (hr : r.bits = 3 ∨ r.bits = 4 ∨ r.bits = 5) (cv : Conv) (g : AbsWrite.Geom) (ty : Ty)
    (one split : List LCall) (hdr tail : Nat → List Byte)
    (hch : g.ch = 1) (hcodec : g.codec = 0x30 ∨ g.codec = 0x31 ∨ g.codec = 0x32)
    (hrate : rateOk g.major g.sr (g.sr : Int) = true)
    (h1 : ∀ c ∈ one, c.good 1) (h2 : ∀ c ∈ split, c.good 1) (hs : samples split = samples one) :
    accepted (g72xJob r cv g ty one split hdr tail).pred.record = true := by
  apply block_session_accepted
  have hB : g.block = 120 := by
    unfold Geom.block Geometry.blockFrames
    rcases hcodec with h | h | h <;> rw [h] <;> simp [Geometry.IMA, Geometry.MS, Geometry.GSM, Geometry.VOX, Geometry.NMS, Geometry.G72X]
  have hsh : ∀ cs, shorts cv (typed ty cs) = (samples cs).map (toCodec cv ty) := fun cs => flatMap_typed ty (toCodec cv) cs
  obtain ⟨f1, f2⟩ := g72x_frames_at_reopen r hr cv (typed ty one)
  rw [hsh, List.length_map] at f1 f2
  refine { chpos := by show 0 < g.ch; rw [hch]; decide, block := by show 1 ≤ g.block; rw [hB]; decide,
           calls1 := by show ∀ c ∈ one, c.good g.ch; rw [hch]; exact h1,
           calls2 := by show ∀ c ∈ split, c.good g.ch; rw [hch]; exact h2,
           same := hs,
           partition := fun h => g72x_write_partition r cv (typed ty split) (typed ty one) (by
             rw [hsh, hsh]; exact congrArg _ h),
           framesLo := by show framesOf g.ch one ≤ _; rw [hch, framesOf_one]; exact f1,
           framesHi := by show _ < framesOf g.ch one + g.block; rw [hch, framesOf_one, hB]; exact f2,
           backLen := fun d n => (C06G72x.g72x_read_contract _ (C06G72x.g72x_open_inv r d) ty n).2.2.1,
           rate := hrate,
           c01 := Or.inl <| by
             show losslessLow g.codec ty = none
             rcases hcodec with h | h | h <;> rw [h] <;> cases ty <;> rfl }

end G72x

/-! ## NMS ADPCM -/

section Nms
open Sf.Nms Sf.C07Nms Sf.C07CodecsClosed

def nmsJob (r : Nms.Rate) (cv : Conv) (g : AbsWrite.Geom) (ty : Ty) (one split : List LCall) (hdr tail : Nat → List Byte)
    (back : List Byte → Nat → List Int) : BlockJob :=
  { g := g, ty := ty, one := one, split := split,
    data := fun cs => closedData r cv (typed ty cs), hdr := hdr, tail := tail,
    framesAt := Nms.framesAtOpen r, back := back }

/-- NMS ADPCM (16 / 24 / 32 kbit/s): the reader is any function that fills the requested region (C06Nms describes it) -/
theorem nms_session_accepted (r : Nms.Rate) (cv : Conv) (g : AbsWrite.Geom) (ty : Ty) (one split : List LCall)
    (hdr tail : Nat → List Byte) (back : List Byte → Nat → List Int) (hback : ∀ d n, (back d n).length = n)
    (hch : g.ch = 1) (hcodec : g.codec = 0x22 ∨ g.codec = 0x23 ∨ g.codec = 0x24)
    (hrate : rateOk g.major g.sr (g.sr : Int) = true)
    (h1 : ∀ c ∈ one, c.good 1) (h2 : ∀ c ∈ split, c.good 1) (hs : samples split = samples one) :
    accepted (nmsJob r cv g ty one split hdr tail back).pred.record = true := by
  apply block_session_accepted
  have hB : g.block = 160 := by
    unfold Geom.block Geometry.blockFrames
    rcases hcodec with h | h | h <;> rw [h] <;> simp [Geometry.IMA, Geometry.MS, Geometry.GSM, Geometry.VOX, Geometry.NMS]
  have hsh : ∀ cs, shortsOf cv (typed ty cs) = (samples cs).map (ofCaller cv ty) := fun cs => flatMap_typed ty (ofCaller cv) cs
  obtain ⟨_, f1, f2⟩ := nms_frames_at_reopen_closed r cv (typed ty one)
  rw [hsh, List.length_map] at f1 f2
  refine { chpos := by show 0 < g.ch; rw [hch]; decide, block := by show 1 ≤ g.block; rw [hB]; decide,
           calls1 := by show ∀ c ∈ one, c.good g.ch; rw [hch]; exact h1,
           calls2 := by show ∀ c ∈ split, c.good g.ch; rw [hch]; exact h2,
           same := hs,
           partition := fun h => (nms_write_partition r cv (typed ty split) (typed ty one) (by
             rw [hsh, hsh]; exact congrArg _ h)).2,
           framesLo := by show framesOf g.ch one ≤ _; rw [hch, framesOf_one]; exact f1,
           framesHi := by show _ < framesOf g.ch one + g.block; rw [hch, framesOf_one, hB]; exact f2,
           backLen := hback, rate := hrate,
           c01 := Or.inl <| by
             show losslessLow g.codec ty = none
             rcases hcodec with h | h | h <;> rw [h] <;> cases ty <;> rfl }

end Nms

/-! ## GSM 06.10 -/

section Gsm
open Sf.Gsm Sf.C07Gsm Sf.C07CodecsClosed

/-- the closed data region of a GSM run -/
def gsmData (c : Gsm.Cfg) (cv : Conv) (calls : List (Ty × List Int)) : List Byte :=
  closeBytes c (calls.foldl (fun st k => writeCall c cv k.1 st k.2) (writeInit c))

def gsmJob (c : Gsm.Cfg) (cv : Conv) (g : AbsWrite.Geom) (ty : Ty) (one split : List LCall) (hdr tail : Nat → List Byte)
    (back : List Byte → Nat → List Int) : BlockJob :=
  { g := g, ty := ty, one := one, split := split,
    data := fun cs => gsmData c cv (typed ty cs), hdr := hdr, tail := tail,
    framesAt := fun n => Gsm.framesAtOpen c n none, back := back }

/-- GSM 06.10, 33-byte frames (RAW / AIFF: B = 160) and WAV49 65-byte blocks (WAV / WAVEX / W64: B = 320); `hB` ties the
    geometry table of the predicate to the layout of the model -/
theorem gsm_session_accepted (c : Gsm.Cfg) (cv : Conv) (g : AbsWrite.Geom) (ty : Ty) (one split : List LCall)
    (hdr tail : Nat → List Byte) (back : List Byte → Nat → List Int) (hback : ∀ d n, (back d n).length = n)
    (hch : g.ch = 1) (hcodec : g.codec = 0x20) (hB : g.block = c.spb)
    (hrate : rateOk g.major g.sr (g.sr : Int) = true)
    (h1 : ∀ c ∈ one, c.good 1) (h2 : ∀ c ∈ split, c.good 1) (hs : samples split = samples one) :
    accepted (gsmJob c cv g ty one split hdr tail back).pred.record = true := by
  apply block_session_accepted
  have hsh : ∀ cs, samplesOf cv (typed ty cs) = (samples cs).map (ofCaller cv ty) := fun cs => flatMap_typed ty (ofCaller cv) cs
  obtain ⟨f0, f1, f2⟩ := gsm_frames_at_reopen_closed c cv (typed ty one) 0 (by decide)
  rw [hsh, List.length_map] at f0 f1 f2
  rw [Nat.add_zero] at f0
  have hpos : 0 < c.spb := Sf.Gsm.Proofs.spb_pos c
  refine { chpos := by show 0 < g.ch; rw [hch]; decide, block := by show 1 ≤ g.block; rw [hB]; exact hpos,
           calls1 := by show ∀ c ∈ one, c.good g.ch; rw [hch]; exact h1,
           calls2 := by show ∀ c ∈ split, c.good g.ch; rw [hch]; exact h2,
           same := hs,
           partition := fun h => gsm_file_bytes_partition c cv (typed ty split) (typed ty one) (by
             rw [hsh, hsh]; exact congrArg _ h),
           framesLo := by
             show framesOf g.ch one ≤ Gsm.framesAtOpen c (gsmData c cv (typed ty one)).length none
             rw [hch, framesOf_one]; unfold gsmData; rw [f0]; exact f1,
           framesHi := by
             show Gsm.framesAtOpen c (gsmData c cv (typed ty one)).length none < framesOf g.ch one + g.block
             rw [hch, framesOf_one, hB]; unfold gsmData; rw [f0]; exact f2,
           backLen := hback, rate := hrate,
           c01 := Or.inl <| by
             show losslessLow g.codec ty = none
             rw [hcodec]; cases ty <;> rfl }

end Gsm

/-! ## non-vacuity: a G.721 job in an AU file (three shorts in one frames call vs a frames call and an items call) -/

def exOne : List LCall := [⟨true, [1000, -2000, 30000], 3⟩]
def exSplit : List LCall := [⟨true, [1000], 1⟩, ⟨false, [-2000, 30000], 2⟩]
def exG : AbsWrite.Geom := { word := 0x00030030, ch := 1, sr := 8000 }
def exJob : BlockJob := g72xJob G72x.g721 {} exG .s16 exOne exSplit (fun _ => []) (fun _ => [])

instance (ch : Nat) (c : LCall) : Decidable (c.good ch) := by unfold LCall.good; infer_instance

/-- the hypotheses of `g72x_session_accepted` hold; the record has N = 3, F = 120 (one padded block of 60 bytes) and is accepted
    by evaluation too -/
example : G72x.g721.bits = 4 ∧ exG.ch = 1 ∧ exG.codec = 0x30 ∧ rateOk exG.major exG.sr (exG.sr : Int) = true ∧
    (∀ c ∈ exOne, c.good 1) ∧ (∀ c ∈ exSplit, c.good 1) ∧ samples exSplit = samples exOne := by decide
example : exJob.pred.record.info.frames = 120 ∧ exJob.pred.record.one.bytes.size = 60 ∧ exJob.pred.record.rb.ret = 120 ∧
    accepted exJob.pred.record = true := by decide +kernel

end Sf.C07Bridge
