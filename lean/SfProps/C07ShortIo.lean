/-
  C07 / C14 under SHORT TRANSFERS on a real descriptor (SfModel/ShortIo.lean): however the operating system splits a transfer --
  any number of interrupted calls, any positive amount per call -- psf_fwrite hands the descriptor exactly the caller's buffer and
  psf_fread delivers exactly the next bytes of the file; what reaches the descriptor is always a PREFIX of the buffer (nothing is sent
  twice, nothing is skipped).  The closed file therefore does not depend on the split (the clause `partition` vlib/shortio.py checks).
-- properties: C07 C14 C15
-/
import SfModel.ShortIo
namespace Sf.C07ShortIo
open Sf Sf.ShortIo

/-- answers that transfer something or ask to try again -/
def Good : Ans → Prop
  | .took n => 0 < n
  | .eintr => True
  | .fail => False

/-- calls that transfer something -/
def tooks : List Ans → Nat
  | [] => 0
  | .took _ :: os => tooks os + 1
  | _ :: os => tooks os

/-- what reaches the descriptor is a prefix of the caller's buffer, for EVERY oracle (short, failing, interrupted, exhausted) -/
theorem fwrite_prefix : ∀ (os : List Ans) (buf : List Byte), (fwriteLoop os buf).1 <+: buf
  | _, [] => by simp [fwriteLoop]
  | [], _ :: _ => by simp [fwriteLoop]
  | .eintr :: os, b :: bs => by
    have := fwrite_prefix os (b :: bs)
    simpa [fwriteLoop] using this
  | .fail :: _, _ :: _ => by simp [fwriteLoop]
  | .took n :: os, b :: bs => by
    simp only [fwriteLoop]
    split
    · simp
    · have ih := fwrite_prefix os ((b :: bs).drop (min n (min (b :: bs).length SENSIBLE)))
      obtain ⟨t, ht⟩ := ih
      refine ⟨t, ?_⟩
      rw [List.append_assoc, ht, List.take_append_drop]

/-- THE RETRY LOOP IS COMPLETE: when every answer transfers something or asks to try again, and the oracle does not run dry, the
    descriptor receives exactly the caller's buffer -/
theorem fwrite_complete : ∀ (os : List Ans) (buf : List Byte), (∀ a ∈ os, Good a) → buf.length ≤ tooks os →
    (fwriteLoop os buf).1 = buf
  | _, [], _, _ => by simp [fwriteLoop]
  | [], _ :: _, _, h => by simp [tooks] at h
  | .eintr :: os, b :: bs, hg, h => by
    have := fwrite_complete os (b :: bs) (fun a ha => hg a (List.mem_cons_of_mem _ ha)) (by simpa [tooks] using h)
    simpa [fwriteLoop] using this
  | .fail :: _, _ :: _, hg, _ => by
    have := hg .fail (List.mem_cons_self ..)
    exact absurd this (by simp [Good])
  | .took n :: os, b :: bs, hg, h => by
    have hn : 0 < n := hg (.took n) (List.mem_cons_self ..)
    have hS : 0 < SENSIBLE := by decide
    have hk : ¬ min n (min (b :: bs).length SENSIBLE) = 0 := by
      simp only [List.length_cons]; omega
    simp only [fwriteLoop, if_neg hk]
    have hlen : ((b :: bs).drop (min n (min (b :: bs).length SENSIBLE))).length ≤ tooks os := by
      simp only [List.length_drop, List.length_cons, tooks] at h ⊢
      omega
    rw [fwrite_complete os _ (fun a ha => hg a (List.mem_cons_of_mem _ ha)) hlen, List.take_append_drop]

/-- C07 for the operating system's split: two runs whose oracles both keep transferring deliver the same bytes -/
theorem fwrite_split_independent (os1 os2 : List Ans) (buf : List Byte) (h1 : ∀ a ∈ os1, Good a) (h2 : ∀ a ∈ os2, Good a)
    (l1 : buf.length ≤ tooks os1) (l2 : buf.length ≤ tooks os2) :
    (fwriteLoop os1 buf).1 = (fwriteLoop os2 buf).1 := by
  rw [fwrite_complete os1 buf h1 l1, fwrite_complete os2 buf h2 l2]

/-- psf_fread: what is delivered is a prefix of what the descriptor holds -/
theorem fread_prefix : ∀ (os : List Ans) (src : List Byte) (want : Nat), (freadLoop os src want).1 <+: src
  | _, _, 0 => by simp [freadLoop]
  | [], _, _ + 1 => by simp [freadLoop]
  | .eintr :: os, src, want + 1 => by
    have := fread_prefix os src (want + 1)
    simpa [freadLoop] using this
  | .fail :: _, _, _ + 1 => by simp [freadLoop]
  | .took n :: os, src, want + 1 => by
    simp only [freadLoop]
    split
    · simp
    · have ih := fread_prefix os (src.drop (min (min n (min (want + 1) SENSIBLE)) src.length)) (want + 1 - min (min n (min (want + 1) SENSIBLE)) src.length)
      obtain ⟨t, ht⟩ := ih
      refine ⟨t, ?_⟩
      rw [List.append_assoc, ht, List.take_append_drop]

/-- psf_fread is complete: with the file holding at least `want` more bytes, exactly the next `want` bytes are delivered -/
theorem fread_complete : ∀ (os : List Ans) (src : List Byte) (want : Nat), (∀ a ∈ os, Good a) → want ≤ tooks os → want ≤ src.length →
    (freadLoop os src want).1 = src.take want
  | _, _, 0, _, _, _ => by simp [freadLoop]
  | [], _, _ + 1, _, h, _ => by simp [tooks] at h
  | .eintr :: os, src, want + 1, hg, h, hs => by
    have := fread_complete os src (want + 1) (fun a ha => hg a (List.mem_cons_of_mem _ ha)) (by simpa [tooks] using h) hs
    simpa [freadLoop] using this
  | .fail :: _, _, _ + 1, hg, _, _ => by
    have := hg .fail (List.mem_cons_self ..)
    exact absurd this (by simp [Good])
  | .took n :: os, src, want + 1, hg, h, hs => by
    have hn : 0 < n := hg (.took n) (List.mem_cons_self ..)
    have hS : 0 < SENSIBLE := by decide
    have hk : ¬ min (min n (min (want + 1) SENSIBLE)) src.length = 0 := by omega
    simp only [freadLoop, if_neg hk]
    have hkle : min (min n (min (want + 1) SENSIBLE)) src.length ≤ want + 1 := by omega
    rw [fread_complete os _ _ (fun a ha => hg a (List.mem_cons_of_mem _ ha))
          (by simp only [tooks] at h; omega) (by simp only [List.length_drop]; omega)]
    generalize min (min n (min (want + 1) SENSIBLE)) src.length = k at hkle hk ⊢
    have : want + 1 = k + (want + 1 - k) := by omega
    conv => rhs; rw [this, List.take_add]

/-- the schedules of harness/shortio.c keep transferring (a positive cap) and do not run dry on a buffer of `horizon` bytes -/
theorem schedule_good (skip eintr cap : Nat) (n : Option Nat) (horizon : Nat) (hc : 0 < cap) :
    (∀ a ∈ schedule skip eintr cap n horizon, Good a) ∧ horizon ≤ tooks (schedule skip eintr cap n horizon) := by
  have hS : 0 < SENSIBLE := by decide
  have tooks_app : ∀ xs ys : List Ans, tooks (xs ++ ys) = tooks xs + tooks ys := by
    intro xs ys
    induction xs with
    | nil => simp [tooks]
    | cons x xs ih => cases x <;> simp [tooks, ih] <;> omega
  have tooks_rep : ∀ k c, tooks (List.replicate k (.took c)) = k := by
    intro k c; induction k with
    | zero => rfl
    | succ k ih => simp [List.replicate_succ, tooks, ih]
  have gT : ∀ k c, 0 < c → ∀ a ∈ List.replicate k (Ans.took c), Good a := by
    intro k c hc a ha; rw [List.eq_of_mem_replicate ha]; exact hc
  have gE : ∀ k, ∀ a ∈ List.replicate k Ans.eintr, Good a := by
    intro k a ha; rw [List.eq_of_mem_replicate ha]; trivial
  constructor
  · intro a ha
    unfold schedule at ha
    rcases List.mem_append.1 ha with h | h
    · rcases List.mem_append.1 h with h | h
      · exact gT _ _ hS a h
      · exact gE _ a h
    · cases n with
      | none => exact gT _ _ hc a h
      | some k =>
        rcases List.mem_append.1 h with h | h
        · exact gT _ _ hc a h
        · exact gT _ _ hS a h
  · unfold schedule
    cases n <;> simp only [tooks_app, tooks_rep] <;> omega

/-- every schedule the campaign arms leaves the closed bytes alone -/
theorem fwrite_schedule_complete (skip eintr cap : Nat) (n : Option Nat) (buf : List Byte) (hc : 0 < cap) :
    (fwriteLoop (schedule skip eintr cap n buf.length) buf).1 = buf :=
  fwrite_complete _ _ (schedule_good skip eintr cap n buf.length hc).1 (schedule_good skip eintr cap n buf.length hc).2

theorem good_replicate_took (k c : Nat) (hc : 0 < c) : ∀ a ∈ List.replicate k (Ans.took c), Good a := by
  intro a ha; rw [List.eq_of_mem_replicate ha]; exact hc

theorem tooks_append (xs ys : List Ans) : tooks (xs ++ ys) = tooks xs + tooks ys := by
  induction xs with
  | nil => simp [tooks]
  | cons x xs ih => cases x <;> simp [tooks, ih] <;> omega

/-- ... and with the interruptions in the MIDDLE of the transfer (`scheduleAfter`): an EINTR after part of the buffer has gone out is
    answered by trying again with the rest, not by giving up -/
theorem fwrite_scheduleAfter_complete (skip after eintr cap : Nat) (n : Option Nat) (buf : List Byte) (hc : 0 < cap) :
    (fwriteLoop (scheduleAfter skip after eintr cap n buf.length) buf).1 = buf := by
  have hS : 0 < SENSIBLE := by decide
  obtain ⟨g, l⟩ := schedule_good 0 eintr cap (n.map (· - after)) buf.length hc
  apply fwrite_complete
  · intro a ha
    unfold scheduleAfter at ha
    rcases List.mem_append.1 ha with h | h
    · rcases List.mem_append.1 h with h | h
      · exact good_replicate_took _ _ hS a h
      · rcases List.mem_append.1 h with h | h
        · exact good_replicate_took _ _ hc a h
        · exact good_replicate_took _ _ hS a h
    · exact g a h
  · unfold scheduleAfter
    rw [tooks_append]
    omega

/-- the rule "an interrupted call is tried again only while nothing has been transferred yet" (own mutation c2) gives up in the middle -/
def fwriteEintrFirstOnly : List Ans → List Byte → Bool → List Byte × Nat
  | _, [], _ => ([], 0)
  | [], _ :: _, _ => ([], 1)
  | .eintr :: os, buf, started => if started then ([], 1) else ((fwriteEintrFirstOnly os buf started).1, (fwriteEintrFirstOnly os buf started).2 + 1)
  | .fail :: _, _ :: _, _ => ([], 1)
  | .took n :: os, b :: bs, _ =>
    let k := min n (min (b :: bs).length SENSIBLE)
    if k = 0 then ([], 1)
    else ((b :: bs).take k ++ (fwriteEintrFirstOnly os ((b :: bs).drop k) true).1, (fwriteEintrFirstOnly os ((b :: bs).drop k) true).2 + 1)

theorem eintr_first_only_rule_differs :
    (fwriteEintrFirstOnly (scheduleAfter 0 1 1 2 none 5) [1, 2, 3, 4, 5] false).1 = [1, 2] ∧
    (fwriteLoop (scheduleAfter 0 1 1 2 none 5) [1, 2, 3, 4, 5]).1 = [1, 2, 3, 4, 5] := by decide

/-- the loop of the seeded regression (every pass re-sends the head of the buffer) is told apart by the very first short transfer -/
theorem restart_rule_differs :
    (fwriteRestart [.took 1, .took 8] [1, 2, 3] 3).1 = [1, 1, 2] ∧ (fwriteLoop [.took 1, .took 8] [1, 2, 3]).1 = [1, 2, 3] := by decide

/-! non-vacuity -/
example : fwriteLoop [.took 2, .eintr, .took 1, .took 9] [10, 20, 30, 40, 50] = ([10, 20, 30, 40, 50], 4) := by decide
example : fwriteLoop (schedule 0 2 3 (some 2) 8) [1, 2, 3, 4, 5, 6, 7, 8] = ([1, 2, 3, 4, 5, 6, 7, 8], 5) := by decide
example : freadLoop [.took 2, .took 2, .took 2] [1, 2, 3] 5 = ([1, 2, 3], 3) := by decide
example : (∀ a ∈ [Ans.took 2, .eintr, .took 1], Good a) := by simp [Good]
example : fwriteLoop (scheduleAfter 0 2 2 3 (some 3) 20) (List.range 20) = (List.range 20, 6) := by decide

end Sf.C07ShortIo
