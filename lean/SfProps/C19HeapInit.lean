/-
  C19 / C07 — a handle's first block and first samples do not depend on what the heap held, PROVIDED the private state is obtained
  with calloc or cleared entirely; a partial clear leaks the heap exactly where the tests do not look (a first block that is never
  completed, the held sample of a fresh handle).  Model: SfModel/HeapInit.lean; campaign vlib/heapcodec.py.
-/
-- properties: C19 C07
import SfModel.HeapInit
namespace Sf.C19HeapInit
open Sf.HeapInit

theorem fresh_calloc_independent (j j' : Junk) (size : Nat) : fresh .calloc j size = fresh .calloc j' size := rfl

/-- malloc + memset of the whole block is as good as calloc -/
theorem fresh_clear_all_independent (j j' : Junk) (n size : Nat) (h : size ≤ n) :
    fresh (.mallocClear n) j size = fresh (.mallocClear n) j' size := by
  simp only [fresh]
  apply List.map_congr_left
  intro k hk
  have : k < n := by have := List.mem_range.mp hk; omega
  simp [this]

/-- **first block, any encoder**: with calloc (or a full clear) the bytes of the only block are a function of the caller's samples -/
theorem first_block_independent {β : Type} (enc : List Int → β) (j j' : Junk) (size : Nat) (xs : List Int) :
    enc (firstBlock .calloc j size xs) = enc (firstBlock .calloc j' size xs) := rfl

theorem first_block_independent_clear_all {β : Type} (enc : List Int → β) (j j' : Junk) (n size : Nat) (xs : List Int) (h : size ≤ n) :
    enc (firstBlock (.mallocClear n) j size xs) = enc (firstBlock (.mallocClear n) j' size xs) := by
  simp only [firstBlock, fresh_clear_all_independent j j' n size h]

/-- why the test-suite cannot see a partial clear: a COMPLETE block overwrites every cell, whatever the block held -/
theorem full_block_hides_init (i : Init) (j j' : Junk) (size : Nat) (xs : List Int) (h : size ≤ xs.length) :
    firstBlock i j size xs = firstBlock i j' size xs := by
  have hl : ∀ jj, (fresh i jj size).length = size := by
    intro jj; cases i <;> simp [fresh]
  have hd : ∀ jj, (fresh i jj size).drop (min xs.length size) = [] := by
    intro jj; apply List.drop_eq_nil_of_le; rw [hl]; omega
  simp [firstBlock, hd]

/-- **a partial clear leaks the heap into a first block that is not completed** (state cells cleared, sample buffer left as found):
    one sample written, block of 4 cells of which 2 were cleared -/
theorem partial_clear_leaks_into_first_block :
    firstBlock (.mallocClear 2) (fun _ => 0) 4 [5] = [5, 0, 0, 0] ∧
    firstBlock (.mallocClear 2) (fun _ => 0x4b4b) 4 [5] = [5, 0, 0x4b4b, 0x4b4b] ∧
    firstBlock .calloc (fun _ => 0x4b4b) 4 [5] = [5, 0, 0, 0] := by
  refine ⟨by decide, by decide, by decide⟩

/-- held sample of a fresh handle: with a cleared struct nothing is prepended -/
theorem carry_in_fresh_calloc (j : Junk) (size flagAt carryAt : Nat) (xs : List Int) :
    carryIn (fresh .calloc j size) flagAt carryAt xs = xs := by
  have : (fresh .calloc j size).getD flagAt 0 = 0 := by
    simp only [fresh, List.getD_eq_getElem?_getD]
    by_cases h : flagAt < size <;> simp [List.getElem?_replicate, h]
  simp only [carryIn, this]
  simp

theorem carry_in_fresh_clear_all (j : Junk) (n size flagAt carryAt : Nat) (xs : List Int) (h : size ≤ n) :
    carryIn (fresh (.mallocClear n) j size) flagAt carryAt xs = xs := by
  rw [fresh_clear_all_independent j (fun _ => 0) n size h]
  have : fresh (.mallocClear n) (fun _ => 0) size = fresh .calloc (fun _ => 0) size := by
    simp only [fresh]
    apply List.ext_getElem <;> simp
  rw [this, carry_in_fresh_calloc]

/-- a struct of 4 cells whose first 2 (the embedded coder state) are cleared, flag in cell 2, held sample in cell 3: recycled heap
    makes the first call start with a sample nobody wrote -/
theorem partial_clear_bogus_carry :
    carryIn (fresh (.mallocClear 2) (fun _ => 0) 4) 2 3 [7, 8] = [7, 8] ∧
    carryIn (fresh (.mallocClear 2) (fun _ => -16706) 4) 2 3 [7, 8] = [-16706, 7, 8] := by
  refine ⟨by decide, by decide⟩

/-- non-vacuity of the independence statements: a partial first block, two different heaps -/
example : firstBlock .calloc (fun k => (k : Int) + 1) 4 [5] = firstBlock .calloc (fun _ => 0x4b4b) 4 [5] ∧
    firstBlock .calloc (fun _ => 0x4b4b) 4 [5] = [5, 0, 0, 0] := ⟨rfl, by decide⟩

end Sf.C19HeapInit
