/-
  SfProps.C05Stage — the staging loops of the write kernels under short transfers (C04 / C05 / C15).
  -- properties: C04 C05 C15

  `Sf.Faults.writeLoop` is the loop every write kernel of pcm.c / float32.c / double64.c / ulaw.c / alaw.c runs
  (`total += writecount ; if (writecount < bufferlen) break ; len -= writecount`).  For EVERY oracle inside the callback
  contract — every schedule of short transfers, not only the single one the campaign injects — what the loop returns is
  the number of whole items among the bytes the I/O layer accepted (`writeLoop_counts_stored`), so sf_write_* returns
  the whole frames among them and advances the position by exactly that (`write_call_counts_stored`).  The two shapes
  the seeded regressions have (a short round counted in full; a short round not counted) are refuted by concrete
  schedules (`countedFull_overcounts`, `notCounted_undercounts`).  `judge_meaning` says what an accepted record of the
  staging-loop matrix (vlib/stagecamp.py, `sfmodel stage judge`) means; `kernels_*` tie the kernel table to `stageLen`.
  KF-C15-TORN-ITEM: `no_fragment_full` (a call that will not be followed by a seek left no fragment) is refuted by `no_fragment_full_fails`
  (7 of 8 bytes, 16-bit mono) and holds outside the class `KF.tornItem` (`no_fragment_partial`).
-/
import SfModel.StageLoop
import SfProofs.Faults
namespace Sf.StageLoop
open Sf Sf.Faults

/-! ## bytes accepted by one psf_fwrite -/

theorem stored_call_write (o : Oracle) (hist : Hist) (d : List Byte) :
    stored (call o hist (.write d)).2 = (o hist (.write d)).n.toNat + stored hist := by
  simp [call, stored]

/-- one psf_fwrite: it accepts `d` bytes (at most the bytes handed over) and reports `d / width` items -/
theorem fwrite_stored (o : Oracle) (hc : o.Contract) (hist : Hist) (w items : Nat) (data : List Byte) :
    ∃ d, d ≤ data.length ∧ stored (fwrite o hist w items data).2 = stored hist + d ∧ (fwrite o hist w items data).1 = d / w := by
  unfold fwrite
  split
  · exact ⟨0, Nat.zero_le _, by simp, by simp⟩
  · split
    · exact ⟨0, Nat.zero_le _, by simp, by simp⟩
    · refine ⟨(o hist (.write data)).n.toNat, ?_, ?_, rfl⟩
      · have h := hc hist (.write data)
        simp only [Ans.ok] at h
        omega
      · rw [stored_call_write]; omega

theorem take_drop_length_le (bytes : List Byte) (a b : Nat) : ((bytes.drop a).take b).length ≤ b := by
  simp [List.length_take]; exact Nat.min_le_left _ _

/-- THE LOOP COUNTS WHAT WAS STORED: for every oracle inside the contract (every schedule of short transfers), every
    staging length and every call length, the loop's result is `total` plus the whole items among the bytes accepted
    during the loop. -/
theorem writeLoop_counts_stored (o : Oracle) (hc : o.Contract) (w B : Nat) (hw : 0 < w) (bytes : List Byte) :
    ∀ (len : Nat) (hist : Hist) (total attempted : Nat),
      ∃ d, stored (writeLoop o w B bytes len hist total attempted).2.2 = stored hist + d ∧
           (writeLoop o w B bytes len hist total attempted).1 = total + d / w := by
  intro len
  induction len using Nat.strongRecOn with
  | _ len ih =>
    intro hist total attempted
    rw [writeLoop]
    by_cases hl : len = 0
    · subst hl; exact ⟨0, by simp, by simp⟩
    · simp only [hl, dite_false]
      have hp := roundLen_pos (B := B) hl
      obtain ⟨d1, hd1, hs1, hr1⟩ := fwrite_stored o hc hist w (roundLen B len) ((bytes.drop (total * w)).take (roundLen B len * w))
      have hlen := take_drop_length_le bytes (total * w) (roundLen B len * w)
      split
      · exact ⟨d1, hs1, by show total + _ = _; rw [hr1]⟩
      · rename_i hb
        -- a round that is not short accepted exactly roundLen * w bytes
        have hge : roundLen B len ≤ d1 / w := by rw [← hr1]; omega
        have hd1w : d1 = roundLen B len * w := by
          have h1 : roundLen B len * w ≤ d1 := by
            calc roundLen B len * w ≤ d1 / w * w := Nat.mul_le_mul_right w hge
              _ ≤ d1 := Nat.div_mul_le_self d1 w
          omega
        have hr1' : (fwrite o hist w (roundLen B len) ((bytes.drop (total * w)).take (roundLen B len * w))).1 = roundLen B len := by
          rw [hr1, hd1w, Nat.mul_div_cancel _ hw]
        obtain ⟨d2, hs2, hr2⟩ := ih (len - (fwrite o hist w (roundLen B len) ((bytes.drop (total * w)).take (roundLen B len * w))).1) (by omega)
          (fwrite o hist w (roundLen B len) ((bytes.drop (total * w)).take (roundLen B len * w))).2
          (total + (fwrite o hist w (roundLen B len) ((bytes.drop (total * w)).take (roundLen B len * w))).1)
          (attempted + roundLen B len)
        refine ⟨d1 + d2, by rw [hs2, hs1]; omega, ?_⟩
        rw [hr2, hr1', hd1w, Nat.add_comm (roundLen B len * w) d2, Nat.add_mul_div_right _ _ hw]
        omega

/-- `whole_frames`: the count rounded down to whole frames -/
theorem wholeFrames_eq (c : Nat) (ch : Nat) (op : Mode) (hch : 0 < ch) :
    (wholeFrames (c : Int) ch op).1 = ((c / ch * ch : Nat) : Int) := by
  unfold wholeFrames
  have hm : ((c : Int) % (ch : Int)) = ((c % ch : Nat) : Int) := by simp
  have hd := Nat.div_add_mod c ch
  have hmul : ch * (c / ch) = c / ch * ch := Nat.mul_comm _ _
  split
  · rename_i h
    rcases h with h | h
    · have : ch = 1 := by omega
      subst this; simp
    · rw [hm] at h
      have : c % ch = 0 := by exact_mod_cast h
      have e : c / ch * ch = c := by omega
      rw [e]
  · rw [hm]
    have e : c / ch * ch + c % ch = c := by omega
    omega

/-- C05 / C15 for sf_write_<type> on every sample-granular encoding, every caller type, every schedule inside the
    contract: the call returns the WHOLE FRAMES among the bytes the I/O layer accepted during it, and the write
    position advances by exactly the frames returned. -/
theorem write_call_counts_stored (o : Oracle) (hc : o.Contract) (h : H) (hist : Hist) (ty : Ty) (len : Int) (data : List Int)
    (hnb : 0 < h.nb) (hch : 0 < h.ch) :
    ∃ d, stored (writeTail o h hist ty false len data).hist = stored hist + d ∧
         (writeTail o h hist ty false len data).out.ret = ((d / h.nb / h.ch * h.ch : Nat) : Int) ∧
         (writeTail o h hist ty false len data).h.wpos = h.wpos + ((d / h.nb / h.ch : Nat) : Int) := by
  obtain ⟨d, hs, hr⟩ := writeLoop_counts_stored o hc h.nb (stageLen h.enc ty true) hnb
    (h.enc.encodeAll h.conv ty (data.take len.toNat)) len.toNat hist 0 0
  refine ⟨d, hs, ?_, ?_⟩
  · show (wholeFrames _ h.ch .w).1 = _
    rw [hr, Nat.zero_add]
    exact wholeFrames_eq _ _ _ hch
  · show h.wpos + _ / (h.ch : Int) = _
    rw [hr, Nat.zero_add]
    congr 1

/-! ## the two shapes of the seeded regressions, refuted -/

/-- `total += bufferlen ; len -= bufferlen ; if (writecount < bufferlen) break ;` — a short round counted in full -/
def loopCountedFull (o : Oracle) (w B : Nat) (bytes : List Byte) : Nat → Nat → Hist → Nat → Nat × Hist
  | 0, _, hist, total => (total, hist)
  | fuel + 1, len, hist, total =>
    if len = 0 then (total, hist) else
    let r := fwrite o hist w (roundLen B len) ((bytes.drop (total * w)).take (roundLen B len * w))
    if r.1 < roundLen B len then (total + roundLen B len, r.2)
    else loopCountedFull o w B bytes fuel (len - roundLen B len) r.2 (total + roundLen B len)

/-- `if (writecount < bufferlen) break ; total += writecount ;` — the part of a short round that reached the file is not counted -/
def loopNotCounted (o : Oracle) (w B : Nat) (bytes : List Byte) : Nat → Nat → Hist → Nat → Nat × Hist
  | 0, _, hist, total => (total, hist)
  | fuel + 1, len, hist, total =>
    if len = 0 then (total, hist) else
    let r := fwrite o hist w (roundLen B len) ((bytes.drop (total * w)).take (roundLen B len * w))
    if r.1 < roundLen B len then (total, r.2)
    else loopNotCounted o w B bytes fuel (len - r.1) r.2 (total + r.1)

/-- the oracle that accepts half of every write (fault kind 2 of the harness, persistent) -/
def halfOracle : Oracle := fun _ r => match r with
  | .write d => { n := (d.length / 2 : Nat) }
  | _ => {}

theorem halfOracle_contract : halfOracle.Contract := by
  intro hist r
  cases r <;> simp [halfOracle, Ans.ok]
  omega

def wBytes : List Byte := List.replicate 12 7

theorem countedFull_overcounts :
    (loopCountedFull halfOracle 1 8 wBytes 4 12 [] 0).1 = 8 ∧ stored (loopCountedFull halfOracle 1 8 wBytes 4 12 [] 0).2 = 4 := by
  decide

theorem notCounted_undercounts :
    (loopNotCounted halfOracle 1 8 wBytes 4 12 [] 0).1 = 0 ∧ stored (loopNotCounted halfOracle 1 8 wBytes 4 12 [] 0).2 = 4 := by
  decide

/-- the loop as written, on the same schedule: 4 bytes accepted, 4 items counted -/
theorem asWritten_counts :
    (writeLoop halfOracle 1 8 wBytes 12 [] 0 0).1 = 4 ∧ stored (writeLoop halfOracle 1 8 wBytes 12 [] 0 0).2.2 = 4 := by
  obtain ⟨d, hs, hr⟩ := writeLoop_counts_stored halfOracle halfOracle_contract 1 8 (by decide) wBytes 12 [] 0 0
  have h1 : (writeLoop halfOracle 1 8 wBytes 12 [] 0 0).1 = 4 := by
    rw [writeLoop]; simp [roundLen, fwrite, seekFailed, call, halfOracle, wBytes]
  simp only [stored, Nat.zero_add, Nat.div_one] at hs hr
  omega

example : ∃ d, stored (writeLoop halfOracle 1 8 wBytes 12 [] 0 0).2.2 = stored ([] : Hist) + d ∧
    (writeLoop halfOracle 1 8 wBytes 12 [] 0 0).1 = 0 + d / 1 :=
  writeLoop_counts_stored halfOracle halfOracle_contract 1 8 (by decide) wBytes 12 [] 0 0

/-! ## KF-C15-TORN-ITEM: a transfer that ends inside an ITEM (full statement, its refutation, the partial theorem) -/

/-- FULL STRENGTH: a write call that keeps `last_op` (so that the next call will not seek) left no fragment behind — the bytes
    the I/O layer accepted are exactly the items the call returned -/
def no_fragment_full : Prop :=
  ∀ (o : Oracle), o.Contract → ∀ (h : H) (hist : Hist) (ty : Ty) (len : Int) (data : List Int), 0 < h.nb → 0 < h.ch →
    (writeTail o h hist ty false len data).h.lastOp = .w →
    ∃ d, stored (writeTail o h hist ty false len data).hist = stored hist + d ∧
         ((d : Nat) : Int) = (writeTail o h hist ty false len data).out.ret * (h.nb : Int)

/-- the class of the known finding: the bytes accepted end inside an item while the complete items are whole frames -/
def KF.tornItem (d nb ch : Nat) : Prop := d % nb ≠ 0 ∧ (d / nb) % ch = 0

/-- PARTIAL: outside the class the statement holds, for every oracle inside the contract -/
theorem no_fragment_partial (o : Oracle) (hc : o.Contract) (h : H) (hist : Hist) (ty : Ty) (len : Int) (data : List Int)
    (hnb : 0 < h.nb) (hch : 0 < h.ch) (hl : (writeTail o h hist ty false len data).h.lastOp = .w) :
    ∃ d, stored (writeTail o h hist ty false len data).hist = stored hist + d ∧
         (¬ KF.tornItem d h.nb h.ch → ((d : Nat) : Int) = (writeTail o h hist ty false len data).out.ret * (h.nb : Int)) := by
  obtain ⟨d, hs, hr⟩ := writeLoop_counts_stored o hc h.nb (stageLen h.enc ty true) hnb
    (h.enc.encodeAll h.conv ty (data.take len.toNat)) len.toNat hist 0 0
  refine ⟨d, hs, ?_⟩
  intro hk
  have hl' : (wholeFrames ((writeLoop o h.nb (stageLen h.enc ty true) (h.enc.encodeAll h.conv ty (data.take len.toNat)) len.toNat hist 0 0).1 : Int) h.ch .w).2 = .w := hl
  have hret : (writeTail o h hist ty false len data).out.ret =
      (wholeFrames ((writeLoop o h.nb (stageLen h.enc ty true) (h.enc.encodeAll h.conv ty (data.take len.toNat)) len.toNat hist 0 0).1 : Int) h.ch .w).1 := rfl
  rw [hret]
  rw [hr, Nat.zero_add] at hl' ⊢
  -- last_op kept: the item count is a whole number of frames, the call returns it unchanged
  have hm : ((d / h.nb : Nat) : Int) % (h.ch : Int) = (((d / h.nb) % h.ch : Nat) : Int) := by simp
  unfold wholeFrames at hl' ⊢
  by_cases hcase : h.ch ≤ 1 ∨ ((d / h.nb : Nat) : Int) % (h.ch : Int) = 0
  · simp only [hcase, if_true] at hl' ⊢
    have hframes : (d / h.nb) % h.ch = 0 := by
      rcases hcase with h1 | h1
      · have : h.ch = 1 := by omega
        rw [this]; exact Nat.mod_one _
      · rw [hm] at h1; exact_mod_cast h1
    have hno : d % h.nb = 0 := by
      by_cases h0 : d % h.nb = 0
      · exact h0
      · exact absurd ⟨h0, hframes⟩ hk
    have hd := Nat.div_add_mod d h.nb
    have hmul : h.nb * (d / h.nb) = d / h.nb * h.nb := Nat.mul_comm _ _
    have e : d / h.nb * h.nb = d := by omega
    exact_mod_cast e.symm
  · rw [if_neg hcase] at hl'
    exact absurd hl' (by simp)

/-- 16-bit mono, four items, the write callback accepts 7 of the 8 bytes -/
def tH : H := { store := 0, mode := .w, container := .raw, enc := .pcm ⟨16, false, false⟩, big := false, ch := 1, sr := 8000,
                fmtWord := 0x10040002, frames := 0, lastOp := .w }
def tO : Oracle := fun _ r => match r with
  | .write d => { n := ((d.length - 1 : Nat) : Int) }
  | _ => {}

theorem tO_contract : tO.Contract := by
  intro hist r
  cases r <;> simp [tO, Ans.ok]

theorem torn_item_witness :
    (writeTail tO tH [] .s16 false 4 [1, 2, 3, 4]).out.ret = 3 ∧ (writeTail tO tH [] .s16 false 4 [1, 2, 3, 4]).h.lastOp = .w ∧
    stored (writeTail tO tH [] .s16 false 4 [1, 2, 3, 4]).hist = 7 := by
  unfold writeTail
  have hnb : tH.nb = 2 := by decide
  have hst : stageLen tH.enc .s16 true = 0 := by decide
  have h4 : (4 : Int).toNat = 4 := by decide
  simp only [hnb, hst, h4]
  rw [writeLoop]
  simp [roundLen, fwrite, call, seekFailed, tH, tO, wholeFrames, stored, Enc.encodeAll]
  decide

/-- THE CODE VIOLATES THE FULL STATEMENT (KF-C15-TORN-ITEM): 3 items returned, 7 bytes stored, no re-seek ahead -/
theorem no_fragment_full_fails : ¬ no_fragment_full := by
  intro hfull
  obtain ⟨r, l, st⟩ := torn_item_witness
  obtain ⟨d, hs, he⟩ := hfull tO tO_contract tH [] .s16 4 [1, 2, 3, 4] (by decide) (by decide) l
  rw [st] at hs
  rw [r] at he
  have hnb : (tH.nb : Int) = 2 := by decide
  rw [hnb] at he
  simp only [stored, Nat.zero_add] at hs
  omega

/-- non-vacuity of `write_call_counts_stored` and `no_fragment_partial` (the witness of the finding meets their hypotheses) -/
example : ∃ d, stored (writeTail tO tH [] .s16 false 4 [1, 2, 3, 4]).hist = stored ([] : Hist) + d ∧
    (writeTail tO tH [] .s16 false 4 [1, 2, 3, 4]).out.ret = ((d / tH.nb / tH.ch * tH.ch : Nat) : Int) ∧
    (writeTail tO tH [] .s16 false 4 [1, 2, 3, 4]).h.wpos = tH.wpos + ((d / tH.nb / tH.ch : Nat) : Int) :=
  write_call_counts_stored tO tO_contract tH [] .s16 4 [1, 2, 3, 4] (by decide) (by decide)
example : ∃ d, stored (writeTail tO tH [] .s16 false 4 [1, 2, 3, 4]).hist = stored ([] : Hist) + d ∧
    (¬ KF.tornItem d tH.nb tH.ch → ((d : Nat) : Int) = (writeTail tO tH [] .s16 false 4 [1, 2, 3, 4]).out.ret * (tH.nb : Int)) :=
  no_fragment_partial tO tO_contract tH [] .s16 4 [1, 2, 3, 4] (by decide) (by decide) torn_item_witness.2.1
example : KF.tornItem 7 2 1 := by unfold KF.tornItem; decide
example : ¬ KF.tornItem 8191 2 2 := by unfold KF.tornItem; decide      -- 4095 items, two channels: the item count is rounded and the next call seeks
example : KF.tornItem 8191 2 3 := by unfold KF.tornItem; decide        -- 4095 items = 1365 frames of three channels: nothing re-aligns

/-! ## the predicate of the campaign -/

/-- what an accepted record says -/
theorem judge_meaning (r : Rec) :
    accepted r = true ↔
      (r.ret1 = ((r.framesStored * r.ch : Nat) : Int) ∧
       (r.probe = true → r.pos1 * (r.ch : Int) = r.ret1) ∧
       r.ret2 = r.asked2 ∧ (r.probe = true → (r.pos2 - r.pos1) * (r.ch : Int) = r.ret2) ∧
       (if r.exact then r.closed = r.ref.take (r.hdr + r.accepted * r.w) else r.closed.length = r.hdr + r.accepted * r.w)) := by
  unfold accepted judge countOk posOk resumeOk fileOk
  cases hp : r.probe <;> cases he : r.exact <;>
    by_cases h1 : r.ret1 = ((r.framesStored * r.ch : Nat) : Int) <;>
    by_cases h2 : r.pos1 * (r.ch : Int) = r.ret1 <;>
    by_cases h3 : r.ret2 = r.asked2 <;>
    by_cases h4 : (r.pos2 - r.pos1) * (r.ch : Int) = r.ret2 <;>
    by_cases h5 : r.closed = r.ref.take (r.hdr + r.accepted * r.w) <;>
    by_cases h6 : r.closed.length = r.hdr + r.accepted * r.w <;>
    simp [h1, h2, h3, h4, h5, h6]

/-- an accepted record of a handle that answers the probe: N accepted = frames on the device after the short call -/
theorem accepted_count (r : Rec) (h : accepted r = true) : r.ret1 = ((r.stored1 / (r.w * r.ch) * r.ch : Nat) : Int) :=
  ((judge_meaning r).1 h).1

def wRec : Rec := { w := 2, ch := 2, n := 8, ret1 := 2, pos1 := 1, stored1 := 7, asked2 := 6, ret2 := 6, pos2 := 4,
                    closed := List.replicate 16 1, ref := List.replicate 16 1 }

example : accepted wRec = true := by decide
/-- the seeded shape "counted in full": 8 items returned although 7 bytes (one whole frame) were stored -/
example : judge { wRec with ret1 := 8, pos1 := 4, asked2 := 0, ret2 := 0, pos2 := 4, closed := List.replicate 7 1 } = ["count", "file"] := by decide
/-- the seeded shape "not counted": 0 items returned although a whole frame was stored -/
example : judge { wRec with ret1 := 0, pos1 := 0, asked2 := 8, ret2 := 8, pos2 := 4 } = ["count"] := by decide

/-! ## the kernel table -/

theorem kernels_length : kernels.length = 56 := by decide
theorem kernels_stage (k : Kernel) (hk : k ∈ kernels) : k.stage = stageLen k.enc k.ty true ∧ k.w = k.enc.nbytes ∧ k.name = cName k.enc k.ty := by
  simp only [kernels, List.mem_flatMap, List.mem_map] at hk
  obtain ⟨e, _, ty, _, rfl⟩ := hk
  exact ⟨rfl, rfl, rfl⟩
/-- a kernel that hands the caller's buffer to psf_fwrite in one piece exists only where no conversion is needed -/
theorem direct_kernels : (kernels.filter (fun k => k.stage == 0)).map (·.name) =
    ["pcm_write_s2les", "pcm_write_i2lei", "host_write_f", "host_write_d"] := by decide
example : (kernelOf (.dbl true) .f64).stage = 1024 ∧ (kernelOf .alaw .f32).name = "alaw_write_f2alaw" := by decide

end Sf.StageLoop
