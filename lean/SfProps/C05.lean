/- C05 — placeholder until the handle theorems are merged (see SfProofs/Handle*.lean) -/
import SfModel.Handle
namespace Sf.C05
/-- a zero-length read returns 0 and changes neither handle nor store (the wrapper returns before looking at the handle) -/
theorem read_zero (h : H) (s : Store) (ty : Ty) (fc : Bool) : stepRead h s ty fc 0 = (h, s, { ret := 0, err := h.error }) := by
  simp [stepRead]
end Sf.C05
