/-
  C05 — read and write calls honour their count, bounds and position contract.
  Property theorems only (model: SfModel/Handle.lean `stepRead` / `stepWrite`; lemmas: SfProofs/Handle*.lean).

  `HInv` (SfProofs/HandleInv.lean) is the handle invariant; it holds for every handle `openHandle` returns and is
  preserved by every operation (`HInv_preserved`, `HInv_reachable` below), so the hypotheses `HInv h s` quantify
  over exactly the reachable states and more.
-/
import SfProofs.HandleContract
namespace Sf.C05
open Sf

/-! ## the invariant reaches every state -/

/-- every handle a successful open returns satisfies the invariant -/
theorem HInv_initial (ix : Nat) (s0 : Store) (mode : Mode) (fmt : Nat) (ch sr : Int) (h : H) (s : Store)
    (ho : openHandle ix s0 mode fmt ch sr = .ok h s) : HInv h s :=
  HInv_openHandle ix s0 mode fmt ch sr h s ho

/-- every operation (read, write, seek, flag command, truncate, close) preserves it -/
theorem HInv_preserved (h : H) (s : Store) (op : Op) (hi : HInv h s) :
    HInv (stepAny h s op).1 (stepAny h s op).2.1 :=
  HInv_stepAny h s op hi

/-- hence it holds after every operation sequence on every opened handle -/
theorem HInv_reachable (ix : Nat) (s0 : Store) (mode : Mode) (fmt : Nat) (ch sr : Int) (h : H) (s : Store)
    (ho : openHandle ix s0 mode fmt ch sr = .ok h s) (ops : List Op) :
    HInv (runOps h s ops).1 (runOps h s ops).2 :=
  Sf.HInv_reachable ix s0 mode fmt ch sr h s ho ops

/-- the invariant gives what the task names: positive channel count and sample size, non-negative positions and
    data offset, and for a read-only handle `rpos ≤ frames` with the announced data present in the store -/
theorem HInv_gives (h : H) (s : Store) (hi : HInv h s) :
    0 < h.ch ∧ 0 < h.enc.nbytes ∧ 0 ≤ h.rpos ∧ 0 ≤ h.wpos ∧ 0 ≤ h.dataoffset ∧
    (h.mode = .r → h.rpos ≤ h.frames ∧ 0 ≤ h.frames ∧
      h.dataoffset + h.frames * (h.bw : Int) ≤ (s.bytes.length : Int)) :=
  ⟨hi.ch_pos, hi.nb_pos, hi.rpos_nn, hi.wpos_nn, hi.off_nn,
   fun hm => ⟨(hi.rd hm).rpos_le, hi.frames_nn hm, (hi.rd hm).covers⟩⟩

def wS0 : Store := { bytes := [1,0, 2,0, 3,0], pos := 0 }
def wH0 : H := { store := 0, mode := .rw, container := .raw, enc := .pcm ⟨16, false, false⟩, big := false, ch := 2,
                 sr := 8000, fmtWord := 0x040002, frames := 1, wpos := 1, lastOp := .rw, haveWritten := true,
                 datalength := 6, filelength := 6 }

/-- `rpos ≤ frames` and `0 ≤ frames` are invariants of read-only handles only.  On a RDWR handle `sf_seek` accepts any
    non-negative target (here: frame 5 of a 1-frame file), and on a route where `ftruncate` works (`canTruncate`, the
    flag the harness records after the open) SFC_FILE_TRUNCATE with −1 stores −1 as the frame count (see C09).
    Both states are reachable, so `HInv` cannot promise more for writable handles. -/
theorem rdwr_positions_unbounded :
    (runOps wH0 wS0 [.seek 0 5 0]).1.rpos = 5 ∧ (runOps wH0 wS0 [.seek 0 5 0]).1.frames = 1 ∧
    (runOps { wH0 with canTruncate := true } wS0 [.truncate 0 (-1)]).1.frames = -1 ∧
    openHandle 0 wS0 .rw 0x040002 2 8000 = .ok wH0 wS0 := by
  refine ⟨by decide, by decide, by decide, by rfl⟩

/-! ## requests

`ReadValid h fc n` / `WriteValid h fc n` (SfProofs/HandleContract.lean): `0 < n`, the mode allows the call, and an
items call (`fc = false`) asks for a multiple of the channel count.  `framesOf` / `itemsOf` convert a return value
of either call variant to frames / items.  `reqLen h fc n` is the number of buffer cells the request covers. -/

/-! ## read_contract — clauses that hold in every mode, for every request (valid or not) -/

/-- `0 ≤ r ≤ requested`; the buffer returned has exactly the requested number of cells (the call never touches a
    cell outside the requested region); the read position advances by exactly the frames returned; the store is
    not modified -/
theorem read_contract (h : H) (s : Store) (ty : Ty) (fc : Bool) (n : Int) (hi : HInv h s) :
    let r := stepRead h s ty fc n
    0 ≤ r.2.2.ret ∧ (0 ≤ n → r.2.2.ret ≤ n) ∧ (n ≤ 0 → r.2.2.ret = 0) ∧
    r.2.2.data.length = (reqLen h fc n).toNat ∧
    r.1.rpos = h.rpos + framesOf h fc r.2.2.ret ∧
    r.2.1.bytes = s.bytes :=
  read_contract_any h s ty fc n hi

/-- at (or, in RDWR mode, beyond) the end of the data a valid request returns 0, zero-fills the whole requested
    region, reports no error and changes nothing but the error field -/
theorem read_at_end (h : H) (s : Store) (ty : Ty) (fc : Bool) (n : Int) (hv : ReadValid h fc n)
    (he : h.frames ≤ h.rpos) :
    stepRead h s ty fc n = ({ h with error := 0 }, s,
      { ret := 0, err := 0, data := List.replicate (reqLen h fc n).toNat 0, hasData := true }) :=
  stepRead_eof h s ty fc n hv.1 hv.2.1 hv.2.2 he

/-- a valid request never reports an error, whatever the error field was before -/
theorem read_valid_no_error (h : H) (s : Store) (ty : Ty) (fc : Bool) (n : Int) (hi : HInv h s)
    (hv : ReadValid h fc n) :
    (stepRead h s ty fc n).2.2.err = 0 ∧ (stepRead h s ty fc n).1.error = 0 :=
  read_valid_err h s ty fc n hi hv.1 hv.2.1 hv.2.2

/-- in every mode the items returned are the decoded bytes the codec read at the current byte position
    (`readPos`: the store position, or the position of frame `rpos` when the last operation was not a read) -/
theorem read_data_any_mode (h : H) (s : Store) (ty : Ty) (fc : Bool) (n : Int) (hi : HInv h s)
    (hv : ReadValid h fc n) (he : h.rpos < h.frames) :
    let r := stepRead h s ty fc n
    r.2.2.data.take (itemsOf h fc r.2.2.ret).toNat =
      (h.enc.decodeAll h.conv ty ((s.bytes.drop (readPos h s)).take ((reqLen h fc n).toNat * h.enc.nbytes))).take
        (itemsOf h fc r.2.2.ret).toNat :=
  read_data_any h s ty fc n hi hv.1 hv.2.1 hv.2.2 he

/-- … and on a read-only handle that byte position is the one of frame `rpos`: the items returned are the decoded
    bytes `dataoffset + rpos·bw …` of the store -/
theorem read_data_read_mode (h : H) (s : Store) (ty : Ty) (fc : Bool) (n : Int) (hi : HInv h s) (hm : h.mode = .r)
    (hv : ReadValid h fc n) (he : h.rpos < h.frames) :
    let r := stepRead h s ty fc n
    r.2.2.data.take (itemsOf h fc r.2.2.ret).toNat =
      (h.enc.decodeAll h.conv ty ((s.bytes.drop (h.dataoffset + h.rpos * (h.bw : Int)).toNat).take
        ((reqLen h fc n).toNat * h.enc.nbytes))).take (itemsOf h fc r.2.2.ret).toNat := by
  have := read_data_any h s ty fc n hi hv.1 hv.2.1 hv.2.2 he
  rw [readPos_rmode h s hi hm he] at this
  exact this

/-! ## read_contract — read-only handles: the full statement -/

/-- On a read-only handle a valid request for `m` frames (`n = m` frames or `n = m·ch` items) delivers exactly
    `d = min m (frames − rpos)` frames:
    the return value is `d` (frames call) or `d·ch` (items call: always a whole number of frames);
    the first `d·ch` buffer cells are items `rpos·ch …` of the file's decoded item stream;
    the read position becomes `rpos + d`; no error. -/
theorem read_contract_rmode (h : H) (s : Store) (ty : Ty) (fc : Bool) (n : Int) (hi : HInv h s) (hm : h.mode = .r)
    (hv : ReadValid h fc n) :
    ∃ m d : Nat, reqLen h fc n = (m : Int) * (h.ch : Int) ∧ (d : Int) = min (m : Int) (h.frames - h.rpos) ∧
      let r := stepRead h s ty fc n
      r.2.2.ret = (if fc then (d : Int) else (d : Int) * (h.ch : Int)) ∧
      r.1.rpos = h.rpos + d ∧
      r.2.2.err = 0 ∧
      r.2.2.data.length = m * h.ch ∧
      r.2.2.data.take (d * h.ch) = ((itemStream h s.bytes ty).drop (h.rpos.toNat * h.ch)).take (d * h.ch) :=
  read_rmode_full h s ty fc n hi hm hv.1 hv.2.2

/-- an items call on a read-only handle returns a whole number of frames -/
theorem read_whole_frames (h : H) (s : Store) (ty : Ty) (n : Int) (hi : HInv h s) (hm : h.mode = .r)
    (hv : ReadValid h false n) : (stepRead h s ty false n).2.2.ret % (h.ch : Int) = 0 := by
  obtain ⟨m, d, _, _, hret, _⟩ := read_rmode_full h s ty false n hi hm hv.1 hv.2.2
  simp only [Bool.false_eq_true, if_false] at hret
  rw [hret]; exact Int.mul_emod_left _ _

/-- less than requested is returned only when the data ends: afterwards the read position is the frame count -/
theorem read_short_only_at_end (h : H) (s : Store) (ty : Ty) (fc : Bool) (n : Int) (hi : HInv h s) (hm : h.mode = .r)
    (hv : ReadValid h fc n) (hshort : (stepRead h s ty fc n).2.2.ret < n) :
    (stepRead h s ty fc n).1.rpos = (stepRead h s ty fc n).1.frames :=
  read_short_rmode h s ty fc n hi hm hv.1 hv.2.2 hshort

/-! ### where the read-only hypothesis is needed

`HInv` does not say, for a writable handle, that the store holds `frames` whole frames.  Before the TRUNC-VIO repair such
a state was reachable: SFC_FILE_TRUNCATE set `sf.frames` before `psf_ftruncate` failed on virtual I/O, and a valid items
read then returned a fraction of a frame and stopped short of the frame count (`read_whole_frames_old_rule`; the
unrepaired library, same script: `ret=3` for a 4-item request on a 2-channel file).  Since the repair the command is
refused on virtual I/O before anything changes and on descriptor routes the store is cut or extended to exactly
`frames`, so no modelled call sequence is known that reaches such a state; the full statement below still fails on
`HInv` alone, because `HInv` lacks the clause (the RDWR invariant `RwInv` of C08Refine has it). -/

/-- the read-only clauses stated for every mode -/
def read_whole_frames_full : Prop :=
  ∀ (h : H) (s : Store) (ty : Ty) (n : Int), HInv h s → ReadValid h false n →
    (stepRead h s ty false n).2.2.ret % (h.ch : Int) = 0 ∧
    ((stepRead h s ty false n).2.2.ret < n → (stepRead h s ty false n).1.rpos = (stepRead h s ty false n).1.frames)

def wS : Store := { bytes := [1,0, 2,0, 3,0], pos := 0 }
def wH : H := { store := 0, mode := .rw, container := .raw, enc := .pcm ⟨16, false, false⟩, big := false, ch := 2,
                sr := 8000, fmtWord := 0x040002, frames := 1, wpos := 1, lastOp := .rw, haveWritten := true,
                datalength := 6, filelength := 6 }
theorem wH_opened : openHandle 0 wS .rw 0x040002 2 8000 = .ok wH wS := by rfl

/-- the state the old rule reached: 2 frames announced, 6 bytes (1 frame + 1 sample) in the store -/
def wH2 : H := { wH with frames := 2, rpos := 0, wpos := 0, lastOp := .r }

/-- witness (a state allowed by `HInv`, not one a call sequence reaches since the repair): 4 items asked of the
    2-frame / 6-byte state: 3 items come back and the read position is 1 of 2 -/
theorem read_whole_frames_full_fails : ¬ read_whole_frames_full := by
  intro hfull
  have hi : HInv wH2 wS := ⟨by decide, by decide, by decide, by decide, by decide, fun hm => by cases hm⟩
  exact absurd (hfull _ _ .s16 4 hi (by unfold ReadValid; decide)).1 (by decide)

/-- OLD RULE (before the TRUNC-VIO repair, `stepTruncateOld`): open RDWR a 6-byte stereo 16-bit RAW file (1 frame + 1
    sample) through virtual I/O, SFC_FILE_TRUNCATE to 2 frames (failed with −1 / SFE_SYSTEM, `frames = 2` stayed), seek
    to 0 — exactly the state `wH2`, up to the error field; the current rule refuses the command and changes nothing -/
theorem read_whole_frames_old_rule :
    (stepSeek (stepTruncateOld wH wS 2).1 (stepTruncateOld wH wS 2).2.1 0 0).1 = { wH2 with error := 0 } ∧
    (stepSeek (stepTruncateOld wH wS 2).1 (stepTruncateOld wH wS 2).2.1 0 0).2.1 = wS ∧
    (stepTruncateOld wH wS 2).2.2.ret = -1 ∧
    (stepRead wH2 wS .s16 false 4).2.2.ret = 3 ∧ (stepRead wH2 wS .s16 false 4).1.rpos = 1 ∧
    stepTruncate wH wS 2 = ({ wH with error := 0 }, wS, { ret := 1 }) := by
  refine ⟨by rfl, by rfl, by decide, by decide, by decide, by rfl⟩

/-- what holds: read-only handles (`read_whole_frames`, `read_short_only_at_end` above) -/
theorem read_whole_frames_partial (h : H) (s : Store) (ty : Ty) (n : Int) (hi : HInv h s) (hm : h.mode = .r)
    (hv : ReadValid h false n) :
    (stepRead h s ty false n).2.2.ret % (h.ch : Int) = 0 ∧
    ((stepRead h s ty false n).2.2.ret < n → (stepRead h s ty false n).1.rpos = (stepRead h s ty false n).1.frames) :=
  ⟨read_whole_frames h s ty n hi hm hv, read_short_only_at_end h s ty false n hi hm hv⟩

/-! ## write_contract -/

/-- A valid write request is accepted in full (the model has no I/O failure): it returns `n`, reports no error,
    advances the write position by exactly the frames written and makes the frame count `max frames wpos'`.
    Every other field is unchanged except the header bookkeeping (`haveWritten`, `lastOp`, PEAK, `dataend`, and the
    three lengths a header rewrite recomputes). -/
theorem write_contract (h : H) (s : Store) (ty : Ty) (fc : Bool) (n : Int) (data : List Int) (hi : HInv h s)
    (hv : WriteValid h fc n) :
    let r := stepWrite h s ty fc n data
    r.2.2.ret = n ∧ r.2.2.err = 0 ∧ r.1.error = 0 ∧
    r.1.wpos = h.wpos + framesOf h fc n ∧
    r.1.frames = max h.frames r.1.wpos ∧
    r.1.rpos = h.rpos ∧ r.1.ch = h.ch ∧ r.1.mode = h.mode ∧ r.1.enc = h.enc :=
  write_contract_valid h s ty fc n data hi hv.1 hv.2.1 hv.2.2

/-- only the first `n·ch` (frames call) / `n` (items call) cells of the caller's buffer influence the result -/
theorem write_reads_only_request (h : H) (s : Store) (ty : Ty) (fc : Bool) (n : Int) (data data' : List Int)
    (hd : data.take (reqLen h fc n).toNat = data'.take (reqLen h fc n).toNat) :
    stepWrite h s ty fc n data = stepWrite h s ty fc n data' :=
  write_take_irrelevant h s ty fc n data data' hd

/-! ## non-vacuity: a 3-frame stereo 16-bit RAW file -/

def exStore : Store := { bytes := [1,0, 2,0, 3,0, 4,0, 5,0, 6,0], pos := 0 }
def exH : H := { store := 0, mode := .r, container := .raw, enc := .pcm ⟨16, false, false⟩, big := false, ch := 2,
                 sr := 8000, fmtWord := 0x040002, frames := 3, lastOp := .r, datalength := 12, filelength := 12 }

example : openHandle 0 exStore .r 0x040002 2 8000 = .ok exH exStore := by rfl
example : HInv exH exStore := HInv_openHandle 0 exStore .r 0x040002 2 8000 exH exStore (by rfl)
example : ReadValid exH false 4 ∧ ReadValid exH true 5 := by unfold ReadValid; decide
/-- 4 items are delivered in full; 5 frames are cut to the 3 available, the tail of the buffer stays untouched -/
example : (stepRead exH exStore .s16 false 4).2.2.ret = 4 ∧ (stepRead exH exStore .s16 false 4).2.2.data = [1, 2, 3, 4] ∧
    (stepRead exH exStore .s16 true 5).2.2.ret = 3 ∧ (stepRead exH exStore .s16 true 5).1.rpos = 3 ∧
    (stepRead exH exStore .s16 true 5).2.2.data = [1, 2, 3, 4, 5, 6, -23131, -23131, -23131, -23131] := by decide

def exW : H := { exH with mode := .w, lastOp := .w, frames := 0, datalength := 0, filelength := 0 }
example : openHandle 0 {} .w 0x040002 2 8000 = .ok exW {} := by rfl
example : HInv exW {} ∧ WriteValid exW true 2 :=
  ⟨HInv_openHandle 0 {} .w 0x040002 2 8000 exW {} (by rfl), by unfold WriteValid; decide⟩
example : (stepWrite exW {} .s16 true 2 [1, 2, 3, 4, 99]).2.2.ret = 2 ∧
    (stepWrite exW {} .s16 true 2 [1, 2, 3, 4, 99]).1.frames = 2 ∧
    (stepWrite exW {} .s16 true 2 [1, 2, 3, 4, 99]).2.1.bytes = [1,0, 2,0, 3,0, 4,0] := by decide

end Sf.C05
