/-
  C15 — I/O failures at any point are contained (DESIGN.md §7 C15).
  -- properties: C15 C05

  The theorems are about `Sf.Faults`: the sample-granular codec loops, the read/write/seek wrappers and the AU/WAV
  header writers running against an ORACLE I/O layer.  `∀ o : Oracle` is "every fault sequence, persistent or
  single-shot, inside or outside the callback contract"; `o.Contract` restricts to the SF_VIRTUAL_IO contract.
-/
import SfProofs.Faults
namespace Sf.C15
open Sf Sf.Faults

/-- a handle and an oracle used by the non-vacuity examples: mono u-law RAW opened for reading; every callback answers "nothing" -/
def wH0 : H := { store := 0, mode := .r, container := .raw, enc := .ulaw, big := false, ch := 1, sr := 8000,
                 fmtWord := 0x040010, frames := 10, lastOp := .r }
def wO0 : Oracle := fun _ _ => {}

/-- items requested by a call -/
def reqItems (h : H) (frameCall : Bool) (n : Int) : Int := if frameCall then n * h.ch else n

/-! ### psf_default_seek -/

theorem defaultSeek_hist_le (o : Oracle) (h : H) (hist : Hist) (f : Int) :
    (Faults.defaultSeek o h hist f).2.2.length ≤ hist.length + 1 := by
  unfold Faults.defaultSeek
  by_cases h1 : (h.bw = 0 ∨ h.dataoffset < 0)
  · simp [h1]
  · simp only [h1, if_false, ioSeek, call]
    by_cases h2 : (o hist (.seek (h.dataoffset + ↑h.bw * f) 0)).n ≠ h.dataoffset + ↑h.bw * f <;> simp [h2]

/-- psf_default_seek never touches the positions, the geometry or the mode: it can only latch an error -/
theorem defaultSeek_keeps (o : Oracle) (h : H) (hist : Hist) (f : Int) :
    (Faults.defaultSeek o h hist f).2.1.rpos = h.rpos ∧ (Faults.defaultSeek o h hist f).2.1.wpos = h.wpos ∧
    (Faults.defaultSeek o h hist f).2.1.ch = h.ch ∧ (Faults.defaultSeek o h hist f).2.1.frames = h.frames ∧
    (Faults.defaultSeek o h hist f).2.1.enc = h.enc := by
  unfold Faults.defaultSeek
  by_cases h1 : (h.bw = 0 ∨ h.dataoffset < 0)
  · simp [h1]
  · simp only [h1, if_false, ioSeek, call]
    by_cases h2 : (o hist (.seek (h.dataoffset + ↑h.bw * f) 0)).n ≠ h.dataoffset + ↑h.bw * f <;> simp [h2]

/-- the codec seek fails exactly when the I/O layer does not answer with the requested offset -/
theorem defaultSeek_fails_iff (o : Oracle) (h : H) (hist : Hist) (f : Int) (hg : ¬ (h.bw = 0 ∨ h.dataoffset < 0)) (hf : 0 ≤ f) :
    (Faults.defaultSeek o h hist f).1 < 0 ↔ (o hist (.seek (h.dataoffset + ↑h.bw * f) 0)).n ≠ h.dataoffset + ↑h.bw * f := by
  unfold Faults.defaultSeek
  simp only [hg, if_false, ioSeek, call]
  by_cases h2 : (o hist (.seek (h.dataoffset + ↑h.bw * f) 0)).n ≠ h.dataoffset + ↑h.bw * f
  · simp [h2]
  · simp only [h2, if_false]; constructor
    · intro h3; omega
    · intro h3; exact absurd h3 (by simpa using h2)

/-! ## calls_terminate
  Every function of `Sf.Faults` is a total definition accepted by Lean's termination checker WITHOUT fuel and for
  every oracle (`readLoop`, `writeLoop`: measure `len`; a round that does not break transferred `≥ bufferlen ≥ 1`
  items).  Covered: all pcm/float/double/ulaw/alaw read and write loops, the 16 wrappers, sf_seek, psf_default_seek,
  au/wav header writers, wav tailer, close.  The theorems make the bound explicit: a call makes at most
  `1 + requested items` callbacks, whatever the I/O layer answers. -/

theorem readTail_hist_le (o : Oracle) (h : H) (hist : Hist) (ty : Ty) (fc : Bool) (len : Int) :
    (readTail o h hist ty fc len).hist.length ≤ hist.length + len.toNat := by
  unfold readTail
  exact readLoop_hist_le o _ _ _ _ _ _

theorem readTail_hist_extends (o : Oracle) (h : H) (hist : Hist) (ty : Ty) (fc : Bool) (len : Int) :
    ∃ rest, (readTail o h hist ty fc len).hist = rest ++ hist := by
  unfold readTail
  exact readLoop_hist_extends o _ _ _ _ _ _

theorem readCore_hist_le (o : Oracle) (h : H) (hist : Hist) (ty : Ty) (fc : Bool) (len : Int) :
    (readCore o h hist ty fc len).hist.length ≤ hist.length + 1 + len.toNat := by
  unfold readCore
  have hs := defaultSeek_hist_le o h hist h.rpos
  by_cases h1 : (h.lastOp != Mode.r) = true
  · simp only [h1, if_true]
    by_cases h2 : (Faults.defaultSeek o h hist h.rpos).1 < 0
    · simp only [h2, if_true]; omega
    · simp only [h2, if_false]
      have := readTail_hist_le o (Faults.defaultSeek o h hist h.rpos).2.1 (Faults.defaultSeek o h hist h.rpos).2.2 ty fc len
      omega
  · simp only [h1]
    have := readTail_hist_le o h hist ty fc len
    simp only [Bool.false_eq_true, if_false]
    omega

theorem readGuard_none {h : H} {fc : Bool} {n : Int} (hg : readGuard h fc n = none) : 0 ≤ n ∧ h.rpos < h.frames := by
  unfold readGuard at hg
  split at hg
  · simp at hg
  · split at hg
    · simp at hg
    · split at hg
      · simp at hg
      · split at hg
        · simp at hg
        · omega

theorem calls_terminate (o : Oracle) (h : H) (hist : Hist) (ty : Ty) (fc : Bool) (n : Int) :
    (Faults.stepRead o h hist ty fc n).hist.length ≤ hist.length + 1 + (reqItems h fc n).toNat := by
  unfold Faults.stepRead reqItems
  split
  · exact Nat.le_trans (Nat.le_add_right _ 1) (Nat.le_add_right _ _)
  · split
    · exact Nat.le_trans (Nat.le_add_right _ 1) (Nat.le_add_right _ _)
    · exact readCore_hist_le o _ hist ty fc _

/-- the same bound for the write loops (the wrapper adds one seek and at most two header rewrites of ≤ 5 callbacks) -/
theorem calls_terminate_write (o : Oracle) (h : H) (hist : Hist) (ty : Ty) (fc : Bool) (len : Int) (data : List Int) :
    (writeTail o h hist ty fc len data).hist.length ≤ hist.length + len.toNat := by
  unfold writeTail
  exact writeLoop_hist_le o _ _ _ _ _ _ _

theorem calls_terminate_seek (o : Oracle) (h : H) (hist : Hist) (f : Int) :
    (Faults.defaultSeek o h hist f).2.2.length ≤ hist.length + 1 := defaultSeek_hist_le o h hist f

example : (Faults.stepRead wO0 wH0 [] .s16 false 4).hist.length ≤ ([] : Hist).length + 1 + (reqItems wH0 false 4).toNat :=
  calls_terminate _ _ _ _ _ _

/-! ## whole_frames (sndfile.c) -/

/-- what `whole_frames` returns: a whole number of frames, never more than the codec's count, less than one frame below it,
    and the same number of whole frames (so the position bookkeeping `count / channels` is unaffected) -/
theorem wholeFrames_spec (c : Int) (ch : Nat) (op : Mode) (hch : 0 < ch) (hc : 0 ≤ c) :
    0 ≤ (wholeFrames c ch op).1 ∧ (wholeFrames c ch op).1 ≤ c ∧ (wholeFrames c ch op).1 % ch = 0 ∧
    (wholeFrames c ch op).1 / ch = c / ch ∧ c - (wholeFrames c ch op).1 < ch := by
  have hchz : (0 : Int) < (ch : Int) := by exact_mod_cast hch
  have hm0 := Int.emod_nonneg c (show (ch : Int) ≠ 0 by omega)
  have hm1 := Int.emod_lt_of_pos c hchz
  have hdm := Int.mul_ediv_add_emod c ch
  unfold wholeFrames
  by_cases h1 : (ch ≤ 1 ∨ c % (ch : Int) = 0)
  · simp only [h1, if_true]
    have hz : c % (ch : Int) = 0 := by
      rcases h1 with h1 | h1
      · have : ch = 1 := by omega
        subst this; simp
      · exact h1
    refine ⟨hc, Int.le_refl _, hz, ?_, by omega⟩
    trivial
  · simp only [h1, if_false]
    have he : c - c % (ch : Int) = (ch : Int) * (c / ch) := by omega
    have hq : 0 ≤ (ch : Int) * (c / ch) := Int.mul_nonneg (by omega) (Int.ediv_nonneg hc (by omega))
    refine ⟨by omega, by omega, ?_, ?_, by omega⟩
    · rw [he]; exact Int.mul_emod_right _ _
    · rw [he]; exact Int.mul_ediv_cancel_left _ (by omega)

/-- `whole_frames` leaves psf->last_op alone exactly when the count is a whole number of frames -/
theorem wholeFrames_lastOp (c : Int) (ch : Nat) (op : Mode) :
    (wholeFrames c ch op).2 = if ch ≤ 1 ∨ c % ch = 0 then op else .rw := by
  unfold wholeFrames; split <;> rfl

/-! ## returns_in_range -/

/-- the count after the end clamp of sf_read_* -/
def clampCount (h : H) (c : Int) : Int := if c ≤ (h.frames - h.rpos) * h.ch then c else (h.frames - h.rpos) * h.ch

theorem readTail_ret_eq (o : Oracle) (h : H) (hist : Hist) (ty : Ty) (fc : Bool) (len : Int) :
    (readTail o h hist ty fc len).out.ret =
      (if fc then (wholeFrames (clampCount h (readLoop o h.nb (stageLen h.enc ty false) len.toNat hist [] 0).2.1) h.ch .r).1 / h.ch
       else (wholeFrames (clampCount h (readLoop o h.nb (stageLen h.enc ty false) len.toNat hist [] 0).2.1) h.ch .r).1) := by
  unfold readTail clampCount
  simp only []
  by_cases hcl : ((readLoop o h.nb (stageLen h.enc ty false) len.toNat hist [] 0).2.1 : Int) ≤ (h.frames - h.rpos) * h.ch
  · simp only [hcl, if_true]
  · simp only [hcl, if_false]

theorem readTail_ret_range (o : Oracle) (hc : o.Contract) (h : H) (hist : Hist) (ty : Ty) (fc : Bool) (len : Int)
    (hch : 0 < h.ch) (hpos : h.rpos < h.frames) (hlen : 0 ≤ len) :
    0 ≤ (readTail o h hist ty fc len).out.ret ∧
    (readTail o h hist ty fc len).out.ret ≤ (if fc then len / h.ch else len) := by
  have hl := readLoop_total_le o hc h.nb (stageLen h.enc ty false) len.toNat hist [] 0
  rw [readTail_ret_eq]
  generalize (readLoop o h.nb (stageLen h.enc ty false) len.toNat hist [] 0).2.1 = c at hl
  have hc0 : (0 : Int) ≤ (c : Int) := Int.natCast_nonneg c
  have hcl : (c : Int) ≤ len := by omega
  have hchz : (0 : Int) < (h.ch : Int) := by exact_mod_cast hch
  have hfr : 0 ≤ (h.frames - h.rpos) * (h.ch : Int) := Int.mul_nonneg (by omega) (by omega)
  have hcc : 0 ≤ clampCount h c ∧ clampCount h c ≤ len := by
    unfold clampCount; split <;> omega
  have hw := wholeFrames_spec (clampCount h c) h.ch .r hch hcc.1
  cases fc
  · simp only [Bool.false_eq_true, if_false]; omega
  · simp only [if_true]
    exact ⟨Int.ediv_nonneg hw.1 (by omega), Int.ediv_le_ediv hchz (by omega)⟩

theorem readCore_ret_range (o : Oracle) (hc : o.Contract) (h : H) (hist : Hist) (ty : Ty) (fc : Bool) (len : Int)
    (hch : 0 < h.ch) (hpos : h.rpos < h.frames) (hlen : 0 ≤ len) :
    0 ≤ (readCore o h hist ty fc len).out.ret ∧ (readCore o h hist ty fc len).out.ret ≤ (if fc then len / h.ch else len) := by
  have hchz : (0 : Int) < (h.ch : Int) := by exact_mod_cast hch
  unfold readCore
  have hk := defaultSeek_keeps o h hist h.rpos
  by_cases h5 : (h.lastOp != Mode.r) = true
  · simp only [h5, if_true]
    by_cases h6 : (Faults.defaultSeek o h hist h.rpos).1 < 0
    · simp only [h6, if_true]
      cases fc
      · simp; omega
      · simp only [if_true]; exact ⟨by omega, Int.ediv_nonneg hlen (by omega)⟩
    · simp only [h6, if_false]
      have := readTail_ret_range o hc (Faults.defaultSeek o h hist h.rpos).2.1
        (Faults.defaultSeek o h hist h.rpos).2.2 ty fc len
        (by rw [hk.2.2.1]; exact hch) (by rw [hk.1, hk.2.2.2.1]; exact hpos) hlen
      rw [hk.2.2.1] at this
      exact this
  · simp only [h5, Bool.false_eq_true, if_false]
    exact readTail_ret_range o hc h hist ty fc len hch hpos hlen

/-- sf_read_* / sf_readf_*: under every oracle inside the callback contract the returned count is within [0, requested] -/
theorem returns_in_range (o : Oracle) (hc : o.Contract) (h : H) (hist : Hist) (ty : Ty) (fc : Bool) (n : Int) (hch : 0 < h.ch) :
    0 ≤ (Faults.stepRead o h hist ty fc n).out.ret ∧ (Faults.stepRead o h hist ty fc n).out.ret ≤ max n 0 := by
  have hchz : (0 : Int) < (h.ch : Int) := by exact_mod_cast hch
  unfold Faults.stepRead
  split
  · simp; omega
  · split
    · simp; omega
    · rename_i hg
      have hn := readGuard_none hg
      have := readCore_ret_range o hc { h with error := 0 } hist ty fc (if fc = true then n * ↑h.ch else n) hch hn.2
        (by cases fc <;> simp <;> first | omega | exact Int.mul_nonneg hn.1 (by omega))
      cases fc
      · simp at this ⊢; omega
      · simp only [if_true] at this ⊢
        rw [Int.mul_ediv_cancel _ (by omega)] at this
        omega

example : 0 ≤ (Faults.stepRead wO0 wH0 [] .s16 false 4).out.ret ∧ (Faults.stepRead wO0 wH0 [] .s16 false 4).out.ret ≤ max 4 0 :=
  returns_in_range wO0 (by intro hist r; cases r <;> simp [Ans.ok, wO0]) wH0 [] .s16 false 4 (by decide)

theorem writeTail_ret_eq (o : Oracle) (h : H) (hist : Hist) (ty : Ty) (fc : Bool) (len : Int) (data : List Int) :
    (writeTail o h hist ty fc len data).out.ret =
      (if fc then (wholeFrames (writeLoop o h.nb (stageLen h.enc ty true) (h.enc.encodeAll h.conv ty (data.take len.toNat)) len.toNat hist 0 0).1 h.ch .w).1 / h.ch
       else (wholeFrames (writeLoop o h.nb (stageLen h.enc ty true) (h.enc.encodeAll h.conv ty (data.take len.toNat)) len.toNat hist 0 0).1 h.ch .w).1) := by
  unfold writeTail
  rfl

/-- the write side: the codec's count, hence what sf_write_* / sf_writef_* return, is within [0, requested] -/
theorem returns_in_range_write (o : Oracle) (hc : o.Contract) (h : H) (hist : Hist) (ty : Ty) (fc : Bool) (len : Int) (data : List Int)
    (hch : 0 < h.ch) (hlen : 0 ≤ len) :
    0 ≤ (writeTail o h hist ty fc len data).out.ret ∧
    (writeTail o h hist ty fc len data).out.ret ≤ (if fc then len / h.ch else len) := by
  have hchz : (0 : Int) < (h.ch : Int) := by exact_mod_cast hch
  rw [writeTail_ret_eq]
  have hl := writeLoop_total_le o hc h.nb (stageLen h.enc ty true)
    (h.enc.encodeAll h.conv ty (data.take len.toNat)) len.toNat hist 0 0
  generalize (writeLoop o h.nb (stageLen h.enc ty true) (h.enc.encodeAll h.conv ty (data.take len.toNat)) len.toNat hist 0 0).1 = c at hl ⊢
  have hc0 : (0 : Int) ≤ (c : Int) := Int.natCast_nonneg c
  have hcl : (c : Int) ≤ len := by omega
  have hw := wholeFrames_spec (c : Int) h.ch .w hch hc0
  cases fc
  · simp only [Bool.false_eq_true, if_false]; omega
  · simp only [if_true]
    exact ⟨Int.ediv_nonneg hw.1 (by omega), Int.ediv_le_ediv hchz (by omega)⟩

/-! ## position_matches_count  (KF-C15-PARTIAL-FRAME repaired: full strength, every oracle) -/

/-- the handle's read position after sf_read_*: the clamped codec count in whole frames -/
theorem readTail_rpos (o : Oracle) (h : H) (hist : Hist) (ty : Ty) (fc : Bool) (len : Int) (hch : 0 < h.ch) :
    (readTail o h hist ty fc len).h.rpos =
      h.rpos + clampCount h (readLoop o h.nb (stageLen h.enc ty false) len.toNat hist [] 0).2.1 / h.ch := by
  have hchz : (h.ch : Int) ≠ 0 := by omega
  unfold readTail clampCount
  simp only []
  split
  · rfl
  · rw [Int.mul_ediv_cancel _ hchz]; omega

/-- FULL STATEMENT, for EVERY oracle (inside or outside the callback contract, persistent or single-shot faults): an item call
    returns a whole number of frames and the read position advances by exactly that many frames; a frame call advances the
    position by exactly the frames it returns. -/
theorem position_matches_count (o : Oracle) (h : H) (hist : Hist) (ty : Ty) (len : Int) (hch : 0 < h.ch) (hpos : h.rpos ≤ h.frames) :
    (readTail o h hist ty false len).out.ret % h.ch = 0 ∧
    (readTail o h hist ty false len).h.rpos = h.rpos + (readTail o h hist ty false len).out.ret / h.ch ∧
    (readTail o h hist ty true len).h.rpos = h.rpos + (readTail o h hist ty true len).out.ret := by
  have hchz : (0 : Int) < (h.ch : Int) := by exact_mod_cast hch
  rw [readTail_rpos o h hist ty false len hch, readTail_rpos o h hist ty true len hch, readTail_ret_eq, readTail_ret_eq]
  generalize (readLoop o h.nb (stageLen h.enc ty false) len.toNat hist [] 0).2.1 = c
  have hcc : 0 ≤ clampCount h c := by
    unfold clampCount; split
    · exact Int.natCast_nonneg c
    · exact Int.mul_nonneg (by omega) (by omega)
  have hw := wholeFrames_spec (clampCount h c) h.ch .r hch hcc
  simp only [Bool.false_eq_true, if_false, if_true]
  exact ⟨hw.2.2.1, by rw [hw.2.2.2.1], by rw [hw.2.2.2.1]⟩

/-- the same statement as a proposition (what `position_matches_count` proves) -/
def position_matches_count_full : Prop :=
  ∀ (o : Oracle) (h : H) (hist : Hist) (ty : Ty) (len : Int), 0 < h.ch → h.rpos ≤ h.frames →
    (readTail o h hist ty false len).out.ret % h.ch = 0 ∧
    (readTail o h hist ty false len).h.rpos = h.rpos + (readTail o h hist ty false len).out.ret / h.ch

theorem position_matches_count_full_holds : position_matches_count_full :=
  fun o h hist ty len hch hpos => ⟨(position_matches_count o h hist ty len hch hpos).1, (position_matches_count o h hist ty len hch hpos).2.1⟩

/-- the class of the former KF-C15-PARTIAL-FRAME: the codec's item count (after the end clamp) is not a whole number of frames
    (a callback transferred a byte count that ends inside a frame) -/
def KF.partialFrame (o : Oracle) (h : H) (hist : Hist) (ty : Ty) (len : Int) : Prop :=
  clampCount h (readLoop o h.nb (stageLen h.enc ty false) len.toNat hist [] 0).2.1 % h.ch ≠ 0

instance (o : Oracle) (h : H) (hist : Hist) (ty : Ty) (len : Int) : Decidable (KF.partialFrame o h hist ty len) := by
  unfold KF.partialFrame; exact inferInstance

/-- exactly in that class psf->last_op is cleared, so that the NEXT call starts with psf->seek (psf, SFM_READ, read_current) -/
theorem partial_frame_clears_last_op (o : Oracle) (h : H) (hist : Hist) (ty : Ty) (fc : Bool) (len : Int) (hch : 0 < h.ch) :
    ((readTail o h hist ty fc len).h.lastOp = .r ↔ ¬ KF.partialFrame o h hist ty len) ∧
    (KF.partialFrame o h hist ty len → (readTail o h hist ty fc len).h.lastOp = .rw) := by
  unfold KF.partialFrame
  have hl : (readTail o h hist ty fc len).h.lastOp =
      (wholeFrames (clampCount h (readLoop o h.nb (stageLen h.enc ty false) len.toNat hist [] 0).2.1) h.ch .r).2 := by
    unfold readTail clampCount
    simp only []
    split <;> rfl
  rw [hl, wholeFrames_lastOp]
  generalize clampCount h (readLoop o h.nb (stageLen h.enc ty false) len.toNat hist [] 0).2.1 = c
  by_cases h1 : c % (h.ch : Int) = 0
  · simp [h1]
  · have h2 : ¬ h.ch ≤ 1 := by
      intro h2
      have : h.ch = 1 := by omega
      rw [this] at h1; simp at h1
    simp [h1, h2]

/-- … and the call after a partial frame re-seeks: its first callback is the seek to `dataoffset + blockwidth * read_current`
    (`readCore` is what sf_read_* does after its guards) -/
theorem next_read_seeks_after_partial_frame (o : Oracle) (h : H) (hist : Hist) (ty ty2 : Ty) (fc fc2 : Bool) (len len2 : Int) (hch : 0 < h.ch)
    (hk : KF.partialFrame o h hist ty len) (hg : ¬ ((readTail o h hist ty fc len).h.bw = 0 ∨ (readTail o h hist ty fc len).h.dataoffset < 0)) :
    ∃ rest, (readCore o (readTail o h hist ty fc len).h (readTail o h hist ty fc len).hist ty2 fc2 len2).hist =
      rest ++ [(Req.seek ((readTail o h hist ty fc len).h.dataoffset + (readTail o h hist ty fc len).h.bw * (readTail o h hist ty fc len).h.rpos) 0,
                o (readTail o h hist ty fc len).hist (Req.seek ((readTail o h hist ty fc len).h.dataoffset + (readTail o h hist ty fc len).h.bw * (readTail o h hist ty fc len).h.rpos) 0))]
              ++ (readTail o h hist ty fc len).hist := by
  have hl := (partial_frame_clears_last_op o h hist ty fc len hch).2 hk
  generalize (readTail o h hist ty fc len).h = h1 at hl hg ⊢
  generalize (readTail o h hist ty fc len).hist = hist1
  unfold readCore
  have hne : (h1.lastOp != Mode.r) = true := by rw [hl]; decide
  simp only [hne, if_true]
  have hds : (Faults.defaultSeek o h1 hist1 h1.rpos).2.2 =
      (Req.seek (h1.dataoffset + h1.bw * h1.rpos) 0, o hist1 (Req.seek (h1.dataoffset + h1.bw * h1.rpos) 0)) :: hist1 := by
    unfold Faults.defaultSeek
    simp only [hg, if_false, ioSeek, call]
    by_cases h3 : (o hist1 (Req.seek (h1.dataoffset + ↑h1.bw * h1.rpos) 0)).n ≠ h1.dataoffset + ↑h1.bw * h1.rpos <;> simp [h3]
  by_cases h2 : (Faults.defaultSeek o h1 hist1 h1.rpos).1 < 0
  · simp only [h2, if_true]
    exact ⟨[], by rw [hds]; rfl⟩
  · simp only [h2, if_false]
    obtain ⟨rest, hr⟩ := readTail_hist_extends o (Faults.defaultSeek o h1 hist1 h1.rpos).2.1 (Faults.defaultSeek o h1 hist1 h1.rpos).2.2 ty2 fc2 len2
    exact ⟨rest, by rw [hr, hds]; simp⟩

/-! ### the rule before the repair (`readTailOld`): the full statement failed, exactly in the class -/

/-- witness: 16-bit stereo, 4 items asked, the read callback delivers 7 of the 8 bytes (inside the contract) -/
def wH : H := { store := 0, mode := .r, container := .raw, enc := .pcm ⟨16, false, false⟩, big := false, ch := 2, sr := 8000,
                fmtWord := 0x10040002, frames := 10, lastOp := .r }
def wO : Oracle := fun _ r => match r with
  | .read _ => { n := 7, data := [1, 0, 2, 0, 3, 0, 4] }
  | _ => {}

theorem wO_contract_on_witness : Ans.ok (.read 8) (wO [] (.read 8)) := by simp [Ans.ok, wO]

theorem wO_loop : readLoop wO wH.nb (stageLen wH.enc .s16 false) (4 : Int).toNat [] [] 0 = ([1, 0, 2, 0, 3, 0], 3, [(.read 8, wO [] (.read 8))]) := by
  have hnb : wH.nb = 2 := by decide
  have hst : stageLen wH.enc .s16 false = 0 := by decide
  have h4 : (4 : Int).toNat = 4 := by decide
  rw [hnb, hst, h4, readLoop]
  simp [roundLen, fread, call, wO]

theorem witness_ret_old_rule : (readTailOld wO wH [] .s16 false 4).out.ret = 3 ∧ (readTailOld wO wH [] .s16 false 4).h.rpos = 1 ∧
    (readTailOld wO wH [] .s16 false 4).h.lastOp = .r := by
  unfold readTailOld
  rw [wO_loop]
  simp [wH]

/-- the same call on the repaired wrapper: 2 items (one frame), position 1, last_op cleared -/
theorem witness_ret : (readTail wO wH [] .s16 false 4).out.ret = 2 ∧ (readTail wO wH [] .s16 false 4).h.rpos = 1 ∧
    (readTail wO wH [] .s16 false 4).h.lastOp = .rw := by
  unfold readTail
  rw [wO_loop]
  simp [wH, wholeFrames]

/-- the code before the repair violated the full statement (DESIGN §8 #14) -/
theorem position_matches_count_fails_old_rule :
    ¬ (∀ (o : Oracle) (h : H) (hist : Hist) (ty : Ty) (len : Int), 0 < h.ch → h.rpos < h.frames → 0 ≤ len → len % h.ch = 0 →
        (∀ n, Ans.ok (.read n) (o hist (.read n)) ∨ n ≠ 8) →
        (readTailOld o h hist ty false len).out.ret % h.ch = 0) := by
  intro hall
  have := hall wO wH [] .s16 4 (by decide) (by decide) (by decide) (by decide)
    (by intro n; by_cases hn : n = 8
        · left; subst hn; exact wO_contract_on_witness
        · right; exact hn)
  rw [witness_ret_old_rule.1] at this
  revert this; decide

/-- the old wrapper: outside the class the conclusion held, inside the class it failed — the class was exact -/
theorem position_matches_count_exact_old_rule (o : Oracle) (h : H) (hist : Hist) (ty : Ty) (len : Int) :
    (readTailOld o h hist ty false len).out.ret % h.ch = 0 ↔ ¬ KF.partialFrame o h hist ty len := by
  unfold KF.partialFrame readTailOld clampCount
  simp only [Bool.false_eq_true, if_false]
  split <;> simp

/-- on whole-frame counts the repaired wrapper IS the old one: the repair changes nothing outside the class -/
theorem readTail_eq_old_outside_class (o : Oracle) (h : H) (hist : Hist) (ty : Ty) (fc : Bool) (len : Int)
    (hk : ¬ KF.partialFrame o h hist ty len) : readTail o h hist ty fc len = readTailOld o h hist ty fc len := by
  unfold KF.partialFrame clampCount at hk
  unfold readTail readTailOld wholeFrames
  simp only []
  split at hk <;> rename_i hcl
  · simp only [hcl, if_true]
    have : (h.ch ≤ 1 ∨ ((readLoop o h.nb (stageLen h.enc ty false) len.toNat hist [] 0).2.1 : Int) % (h.ch : Int) = 0) := Or.inr (by simpa using hk)
    simp only [this, if_true]
  · simp only [hcl, if_false]
    have : (h.ch ≤ 1 ∨ ((h.frames - h.rpos) * (h.ch : Int)) % (h.ch : Int) = 0) := Or.inr (Int.mul_emod_left _ _)
    simp only [this, if_true]

example : KF.partialFrame wO wH [] .s16 4 := by
  unfold KF.partialFrame clampCount
  rw [wO_loop]; decide

example : ¬ KF.partialFrame (fun _ _ => {}) wH [] .s16 4 := by
  unfold KF.partialFrame clampCount
  have : readLoop (fun _ _ => {}) wH.nb (stageLen wH.enc .s16 false) (4 : Int).toNat [] [] 0 = ([], 0, [(.read 8, {})]) := by
    have hnb : wH.nb = 2 := by decide
    have hst : stageLen wH.enc .s16 false = 0 := by decide
    have h4 : (4 : Int).toNat = 4 := by decide
    rw [hnb, hst, h4, readLoop]
    simp [roundLen, fread, call]
  rw [this]; decide

example : (readTail wO wH [] .s16 false 4).out.ret % wH.ch = 0 := (position_matches_count wO wH [] .s16 4 (by decide) (by decide)).1

/-- write side, FULL STATEMENT, every oracle: an item call reports whole frames, the write position advances by exactly that many
    frames, and a frame call advances it by exactly the frames it returns -/
theorem position_matches_count_write (o : Oracle) (h : H) (hist : Hist) (ty : Ty) (len : Int) (data : List Int) (hch : 0 < h.ch) :
    (writeTail o h hist ty false len data).out.ret % h.ch = 0 ∧
    (writeTail o h hist ty false len data).h.wpos = h.wpos + (writeTail o h hist ty false len data).out.ret / h.ch ∧
    (writeTail o h hist ty true len data).h.wpos = h.wpos + (writeTail o h hist ty true len data).out.ret := by
  rw [writeTail_ret_eq, writeTail_ret_eq]
  have hp : ∀ fc, (writeTail o h hist ty fc len data).h.wpos =
      h.wpos + ((writeLoop o h.nb (stageLen h.enc ty true) (h.enc.encodeAll h.conv ty (data.take len.toNat)) len.toNat hist 0 0).1 : Int) / h.ch := by
    intro fc; unfold writeTail; rfl
  rw [hp, hp]
  generalize (writeLoop o h.nb (stageLen h.enc ty true) (h.enc.encodeAll h.conv ty (data.take len.toNat)) len.toNat hist 0 0).1 = c
  have hw := wholeFrames_spec (c : Int) h.ch .w hch (Int.natCast_nonneg c)
  simp only [Bool.false_eq_true, if_false, if_true]
  exact ⟨hw.2.2.1, by rw [hw.2.2.2.1], by rw [hw.2.2.2.1]⟩

/-- the old write wrapper returned the codec's count as it was: a 3-item answer for 2 channels went to the caller -/
theorem write_partial_frame_old_rule :
    ∃ (o : Oracle) (h : H) (data : List Int), 0 < h.ch ∧ (writeTailOld o h [] .s16 false 4 data).out.ret % h.ch ≠ 0 := by
  refine ⟨fun _ r => match r with | .write _ => { n := 7 } | _ => {}, { wH with mode := .w, lastOp := .w }, [1, 2, 3, 4], by decide, ?_⟩
  unfold writeTailOld
  have hnb : ({ wH with mode := .w, lastOp := .w } : H).nb = 2 := by decide
  have hst : stageLen ({ wH with mode := .w, lastOp := .w } : H).enc .s16 true = 0 := by decide
  have h4 : (4 : Int).toNat = 4 := by decide
  simp only [hnb, hst, h4]
  rw [writeLoop]
  simp [roundLen, fwrite, call, seekFailed, wH]

/-! ## seek_failure_keeps_position -/

/-- whenever sf_seek's I/O request is not answered with the requested offset, the call returns −1 and both positions
    are what they were (repaired by 9b1ea83) -/
theorem seek_failure_keeps_position (o : Oracle) (h : H) (hist : Hist) (off : Int) (whence : Int) :
    (Faults.stepSeek o h hist off whence).out.ret = -1 →
    (Faults.stepSeek o h hist off whence).h.rpos = h.rpos ∧ (Faults.stepSeek o h hist off whence).h.wpos = h.wpos := by
  unfold Faults.stepSeek
  simp only []
  split
  · intro _; simp
  · split
    · intro _; simp
    · rename_i v _
      intro _; simp
    · rename_i target _
      split
      · intro _; simp
      · split
        · intro _; simp
        · rename_i hw hr
          split
          · intro _
            have hk := defaultSeek_keeps o { h with error := 0 } hist target
            exact ⟨hk.1, hk.2.1⟩
          · intro hret
            simp only at hret
            exfalso
            simp only [not_and, not_or, Int.not_lt] at hw hr
            by_cases hm : h.mode = Mode.r
            · have := hr (by simp [hm]); omega
            · have : (h.mode == Mode.rw ∨ h.mode == Mode.w) := by
                cases hmm : h.mode <;> simp_all
              have := hw this; omega

/-! ## accepted_prefix_preserved (memory store of the harness under any fault kind) -/

/-- one callback of the store, whatever the fault: bytes below the current position are never changed,
    and a failing seek does not move the position -/
theorem accepted_prefix_preserved (f : Fault) (m : Mem) (r : Req) (hp : m.pos ≤ m.bytes.length) :
    ((memStep f m r).2.bytes.take m.pos = m.bytes.take m.pos) ∧
    (∀ off wh, r = .seek off wh → (memStep f m r).1.n = -1 → (memStep f m r).2.pos = m.pos) := by
  constructor
  · cases r <;> simp only [memStep] <;> (repeat' split) <;> simp [writeAt_take _ _ _ hp]
  · intro off wh hr
    subst hr
    simp only [memStep]
    by_cases h1 : (f.now (m.calls + 1) = true ∧ ((f.kind == 3) = true ∨ (f.kind == 8) = true))
    · simp only [h1, and_self, if_true]; intro _; trivial
    · simp only [h1, if_false]
      generalize (if (wh == 0) = true then off else if (wh == 1) = true then (m.pos : Int) + off else (m.bytes.length : Int) + off) = np
      by_cases h2 : (wh > 2 ∨ np < 0)
      · simp [h2]
      · simp only [h2, if_false]
        intro hn
        simp only [not_or, Int.not_lt] at h2
        omega

end Sf.C15

namespace Sf.C15
open Sf Sf.Faults

/-! non-vacuity of the remaining statements (instances on the example handle) -/
example : (writeTail wO0 wH0 [] .s16 false 4 [1, 2, 3, 4]).hist.length ≤ ([] : Hist).length + (4 : Int).toNat :=
  calls_terminate_write _ _ _ _ _ _ _
example : 0 ≤ (writeTail wO0 wH0 [] .s16 false 4 [1, 2, 3, 4]).out.ret ∧ (writeTail wO0 wH0 [] .s16 false 4 [1, 2, 3, 4]).out.ret ≤ 4 :=
  returns_in_range_write wO0 (by intro hist r; cases r <;> simp [Ans.ok, wO0]) wH0 [] .s16 false 4 _ (by decide) (by decide)
example : (writeTail wO0 wH0 [] .s16 false 4 [1, 2, 3, 4]).h.wpos = wH0.wpos + (writeTail wO0 wH0 [] .s16 false 4 [1, 2, 3, 4]).out.ret / wH0.ch :=
  (position_matches_count_write _ _ _ _ _ _ (by decide)).2.1
/-- a seek whose I/O request is answered 0 instead of the offset fails: the hypothesis of `seek_failure_keeps_position` is satisfiable -/
example : (Faults.stepSeek wO0 wH0 [] 3 0).out.ret = -1 := by
  simp [Faults.stepSeek, Faults.defaultSeek, ioSeek, call, wO0, wH0, H.bw, Enc.nbytes, modeBits, E_SEEK_FAILED]
example : ((memStep {} { bytes := [1, 2, 3], pos := 2 } (.write [9, 9])).2.bytes.take 2 = [1, 2]) :=
  (accepted_prefix_preserved {} { bytes := [1, 2, 3], pos := 2 } (.write [9, 9]) (by decide)).1

end Sf.C15
