/-
  C17, the ROUTE in the state dimension of the grid.  `sf_command` decides what it does with `data` from SF_PRIVATE fields it
  reads BEFORE it touches the pointer; two of them depend on how the handle was opened and not on anything the commands can
  change: `psf->virtual_io` (SFC_FILE_TRUNCATE returns early on an SF_VIRTUAL_IO handle, so the `data == NULL` guard behind it
  is only reachable on path / descriptor handles) and `psf->sf.seekable` (the per-channel CALC scans refuse a pipe before they
  write).  `cmd_in_bounds` (C17.lean) quantifies over them like over every other field of `H`; the theorems here spell out the
  guard order of those two commands, which is what the round-5 grid handles `plain@path`, `used@fd`, `plain@pipe` exercise.
-/
import SfModel.Command
import SfProofs.Command
namespace Sf.C17Routes
open Sf.Command

/-- SFC_FILE_TRUNCATE, every route, every mode, every datasize, every data pointer: a NULL pointer is never dereferenced, the
    only bytes ever read are [0, 8) of a block of exactly 8 bytes, nothing is written, and the return value is defined.
    The guards in the order the code applies them: read-only handle, SF_VIRTUAL_IO handle, datasize ≠ sizeof (sf_count_t) —
    each returns SF_TRUE before `data` is looked at —, then `data == NULL` → SF_FALSE with SFE_BAD_COMMAND_PARAM. -/
theorem truncate_route_guards (g : G) (h : H) (size : Nat) (data : Option Mem) :
    let r := run g (some h) 0x1080 size data
    r.derefNull = false ∧ r.writes = [] ∧ (r.reads = [] ∨ (r.reads = [(0, szCount)] ∧ size = szCount ∧ data.isSome = true ∧
        writable h = true ∧ h.virtualIo = false)) ∧
    (writable h = false → r.ret = .exact 1 ∧ r.reads = []) ∧
    (h.virtualIo = true → r.ret = .exact 1 ∧ r.reads = []) ∧
    (writable h = true → h.virtualIo = false → size ≠ szCount → r.ret = .exact 1 ∧ r.reads = []) ∧
    (writable h = true → h.virtualIo = false → size = szCount → data = none → r.ret = .exact 0 ∧ r.err = some eBadParam ∧ r.reads = []) := by
  have hp : preHandle g (some h) 0x1080 size data = none := by simp [preHandle]
  have hcl : classify 0x1080 = Cls.k1080 := by decide
  simp only [run, hp, withHandle, hcl]
  by_cases hw : writable h = true
  · by_cases hv : h.virtualIo = true
    · simp [hw, hv]
    · have hv' : h.virtualIo = false := by simpa using hv
      by_cases hs : size = szCount
      · cases data with
        | none => simp [hw, hv', hs]
        | some m => simp [hw, hv', hs]
      · simp [hw, hv', hs]
  · have hw' : writable h = false := by simpa using hw
    simp [hw']

/-- a write-mode WAV handle on a real file (the `w plain@path` handle of the grid) -/
def wavWPath : H :=
  { mode := .w, container := cWAV, codec := 2, channels := 2, seekable := true, hasCommand := true, haveWritten := false,
    readCur := 0, writeCur := 0, normFloat := true, normDouble := true, clipping := false, floatIntMult := false,
    scaleIntFloat := false, autoHeader := false, ieeeReplace := false, endswap := false, ambisonic := 0x40,
    rf64Downgrade := false, bext := none, cart := none, cues := none, hasInstrument := false, hasLoop := false,
    hasChanMap := false, hasPeak := false, logLen := 48, metaEpoch := 0, fileEpoch := 0, virtualIo := false }

def g0 : G := { verLen := 16, gLogLen := 0, simpleCount := 13, majorCount := 23, subtypeCount := 28 }

/-- non-vacuity: on the path handle the command reaches `data` (8-byte block: read; NULL with datasize 8: refused with an error and
    no access; datasize 7: SF_TRUE), on the same handle opened through SF_VIRTUAL_IO nothing is looked at -/
example : (run g0 (some wavWPath) 0x1080 8 (some ⟨8, fun _ => 0⟩)).reads = [(0, 8)] ∧
          (run g0 (some wavWPath) 0x1080 8 none).ret = .exact 0 ∧ (run g0 (some wavWPath) 0x1080 8 none).err = some eBadParam ∧
          (run g0 (some wavWPath) 0x1080 8 none).derefNull = false ∧
          (run g0 (some wavWPath) 0x1080 7 none).ret = .exact 1 ∧
          (run g0 (some { wavWPath with virtualIo := true }) 0x1080 8 (some ⟨8, fun _ => 0⟩)).reads = [] := by decide

/-- SFC_CALC_MAX_ALL_CHANNELS / SFC_CALC_NORM_MAX_ALL_CHANNELS: the size guard comes first (NULL or a datasize other than
    channels · sizeof (double): SFE_BAD_COMMAND_PARAM, nothing touched); behind it a non-seekable handle (pipe) and a handle that
    cannot read are refused before anything is written; otherwise exactly the block is written.  NULL is never dereferenced. -/
theorem calc_all_route_guards (g : G) (h : H) (cmd : Int) (hc : cmd = 0x1042 ∨ cmd = 0x1043) (size : Nat) (data : Option Mem) :
    let r := run g (some h) cmd size data
    r.derefNull = false ∧ r.reads = [] ∧
    ((data = none ∨ size ≠ szDouble * h.channels) → r.writes = [] ∧ r.ret = .exact eBadParam) ∧
    (data.isSome = true → size = szDouble * h.channels → h.seekable = false → r.writes = [] ∧ r.ret = .exact eNotSeekable) ∧
    (data.isSome = true → size = szDouble * h.channels → h.seekable = true → canRead h = true → r.writes = [(0, size)] ∧ r.ret = .exact 0) := by
  have hp : preHandle g (some h) cmd size data = none := by rcases hc with rfl | rfl <;> simp [preHandle]
  have hcl : classify cmd = Cls.k1042 := by rcases hc with rfl | rfl <;> decide
  simp only [run, hp, withHandle, hcl, guardEq]
  cases data with
  | none => simp
  | some m =>
    by_cases hs : size = szDouble * h.channels
    · by_cases hk : h.seekable = true
      · by_cases hr : canRead h = true
        · simp [hs, hk, hr]
        · simp [hs, hk, hr]
      · simp [hs, hk]
    · simp [hs]

/-- non-vacuity: a read handle on a pipe (`r plain@pipe`) and the same file on a path -/
example : (run g0 (some { wavWPath with mode := .r, seekable := false }) 0x1042 16 (some ⟨16, fun _ => 0xA5⟩)).ret = .exact eNotSeekable ∧
          (run g0 (some { wavWPath with mode := .r, seekable := false }) 0x1042 16 (some ⟨16, fun _ => 0xA5⟩)).writes = [] ∧
          (run g0 (some { wavWPath with mode := .r }) 0x1042 16 (some ⟨16, fun _ => 0xA5⟩)).writes = [(0, 16)] ∧
          (run g0 (some { wavWPath with mode := .r }) 0x1042 16 none).ret = .exact eBadParam := by decide

/-- SFC_CALC_SIGNAL_MAX / SFC_CALC_NORM_SIGNAL_MAX (since the repair of KF-C09-CALC-SIGNAL-MAX-RET0: `return psf->error` behind
    psf_calc_signal_max): the size guard comes first (NULL or a datasize other than sizeof (double): SFE_BAD_COMMAND_PARAM, nothing
    touched); behind it a non-seekable handle (pipe, GSM) and a handle that cannot read (write-only) are answered with the error
    number — the 0.0 psf_calc_signal_max returns is stored in the block —, otherwise the double is written and 0 returned.  NULL is
    never dereferenced and the block is never read. -/
theorem calc_signal_max_route_guards (g : G) (h : H) (cmd : Int) (hc : cmd = 0x1040 ∨ cmd = 0x1041) (size : Nat) (data : Option Mem) :
    let r := run g (some h) cmd size data
    r.derefNull = false ∧ r.reads = [] ∧ r.h' = some h ∧
    ((data = none ∨ size ≠ szDouble) → r.writes = [] ∧ r.ret = .exact eBadParam) ∧
    (data.isSome = true → size = szDouble → h.seekable = false → r.writes = [(0, size)] ∧ r.ret = .exact eNotSeekable ∧ r.err = some eNotSeekable) ∧
    (data.isSome = true → size = szDouble → h.seekable = true → canRead h = false →
      r.writes = [(0, size)] ∧ r.ret = .exact eUnimplemented ∧ r.err = some eUnimplemented) ∧
    (data.isSome = true → size = szDouble → h.seekable = true → canRead h = true → r.writes = [(0, size)] ∧ r.ret = .exact 0) := by
  have hp : preHandle g (some h) cmd size data = none := by rcases hc with rfl | rfl <;> simp [preHandle]
  have hcl : classify cmd = Cls.k1040 := by rcases hc with rfl | rfl <;> decide
  simp only [run, hp, withHandle, hcl, guardEq]
  cases data with
  | none => simp
  | some m =>
    by_cases hs : size = szDouble
    · by_cases hk : h.seekable = true
      · by_cases hr : canRead h = true
        · simp [calcSignalMax, hs, hk, hr]
        · simp [calcSignalMax, hs, hk, hr]
      · simp [calcSignalMax, hs, hk]
    · simp [hs]

/-- non-vacuity: a write-only handle on a path, a read handle on a pipe, the same file readable; the rule before the repair -/
example : (run g0 (some wavWPath) 0x1040 8 (some ⟨8, fun _ => 0xA5⟩)).ret = .exact eUnimplemented ∧
          (run g0 (some { wavWPath with mode := .r, seekable := false }) 0x1041 8 (some ⟨8, fun _ => 0xA5⟩)).ret = .exact eNotSeekable ∧
          (run g0 (some { wavWPath with mode := .r }) 0x1040 8 (some ⟨8, fun _ => 0xA5⟩)).ret = .exact 0 ∧
          (run g0 (some { wavWPath with mode := .r }) 0x1040 8 none).ret = .exact eBadParam ∧
          (calcSignalMax true wavWPath).ret = .exact 0 ∧ (calcSignalMax true wavWPath).err = some eUnimplemented := by decide

end Sf.C17Routes
