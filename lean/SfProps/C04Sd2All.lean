-- properties: C04
/-
  C04 — SD2, the universally quantified re-open theorem (round 7).  SfProps/C04Sd2.lean has `sd2_reopen_info_instances`
  (six shapes, the parser run by the kernel); here the walk of sd2_parse_rsrc_fork / parse_str_rsrc over the writer's fork is
  carried out symbolically (helpers SfProofs/Sd2Eval.lean: the value-level evaluator `Prog.eval` and the piecewise byte
  function `G c` of `rsrc c`; SfProofs/Sd2Walk.lean: the six iterations of the string loop), so the statement holds for EVERY
  configuration sf_open accepts: sample size 1…4, 1 ≤ channels ≤ 1024, 1 ≤ rate ≤ 2^31 − 1, any file name of ≤ 200 bytes.
  Property theorems only.
-/
import SfProofs.Sd2Walk
import SfProps.C04Sd2
namespace Sf.C04Sd2All
open Sf Sf.Small2 Sf.Sd2 Sf.Sd2.Prog Sf.Sd2.Walk
open Sf.Pvf (digits)

/-- C04 for SD2, universally: the resource fork sd2_write_rsrc_fork writes for ANY accepted configuration is parsed back by
    sd2_parse_rsrc_fork / parse_str_rsrc to exactly that sample size, rate and channel count.  (The walk: header longs, map
    fields, the 'STR ' type, then six iterations of the string loop -- resources 1000 / 1001 / 1002, 'sdML' 1000 which finds
    the sample size set already, the fifth item nobody writes (zero background: id 0, data offset 0), and the start of the name
    area read as an item, whose data offset lies outside the fork and ends the loop.) -/
theorem sd2_reopen_info (c : Cfg) (hc : c.wf) : parseRsrc (rsrc c) = .ok { size := c.size, rate := c.rate, ch := c.ch } := by
  have htot := Sf.C04Sd2.total_le c hc
  have hn : c.name.length ≤ 200 := hc.2.2.2.2.2.2
  have hs : 1 ≤ c.size ∧ c.size ≤ 4 := ⟨hc.1, hc.2.1⟩
  have er := Sf.C04Sd2.sd2_rate_text_roundtrip c hc.2.2.2.2.2.1
  have es := Sf.C04Sd2.sd2_decimal_roundtrip c.size (by have := hc.2.1; omega)
  have ec := Sf.C04Sd2.sd2_decimal_roundtrip c.ch (by have := hc.2.2.2.1; omega)
  have htt : total c = mapOff c + 147 := rfl
  have hmo : mapOff c = 256 + dataLen c := rfl
  unfold parseRsrc parseRun
  rw [run_fst, rsrc_length c hn]
  change (parseFork ((total c : Nat) : Int)).eval (G c) = _
  generalize hL : ((total c : Nat) : Int) = len
  have hlen : len = (mapOff c : Int) + 147 := by clear er es ec; omega
  rw [stage1 c hn len hlen (by clear er es ec; omega)]
  obtain ⟨n, hfuel⟩ : ∃ n, loopFuel len = n + 6 := ⟨loopFuel len - 6, by clear er es ec; unfold loopFuel; omega⟩
  obtain ⟨so, dO, dL, e⟩ := loop_walk c hc htot er es ec len hlen n ((mapOff c : Int) + 106)
  unfold parseStr
  rw [eval_bind, hfuel, e]
  show finish _ = _
  exact finish_written c hs so dO dL

/-- the length of the fork is the closed form `total c` (≤ 452 bytes) for every accepted configuration -/
theorem sd2_rsrc_length (c : Cfg) (hc : c.wf) : (rsrc c).length = total c ∧ total c ≤ 452 :=
  ⟨rsrc_length c hc.2.2.2.2.2.2, Sf.C04Sd2.total_le c hc⟩

/-- end to end: re-opening the fork the writer made next to a data file of `n` bytes reports the channels, the format word of
    the sample size, the rate, and n / (size · channels) frames — for every accepted configuration and every n -/
theorem sd2_reopen_info_full (c : Cfg) (hc : c.wf) (n : Nat) :
    reopen (rsrc c) n = .ok { ch := c.ch, fmt := 0x160000 + c.size, sr := c.rate, frames := n / (c.size * c.ch) } := by
  have hl := (sd2_rsrc_length c hc).1
  have hne : rsrc c ≠ [] := by
    intro h
    rw [h] at hl
    have : total c = mapOff c + 147 := rfl
    simp at hl; omega
  unfold reopen
  rw [if_neg hne, sd2_reopen_info c hc]
  exact Sf.C04Sd2.sd2_frames_from_data_file c.size c.rate c.ch n ⟨hc.1, hc.2.1⟩ ⟨hc.2.2.1, hc.2.2.2.1⟩ hc.2.2.2.2.1

/-- the same through guess_file_type for a data file too short for the 12-byte probe (the repaired rule) -/
theorem sd2_reopen_file_short (c : Cfg) (hc : c.wf) (data : List Byte) (h : data.length < 12) :
    reopenFile data (rsrc c) = .ok { ch := c.ch, fmt := 0x160000 + c.size, sr := c.rate, frames := data.length / (c.size * c.ch) } := by
  rw [Sf.C04Sd2.sd2_short_data_reopens data _ h]
  exact sd2_reopen_info_full c hc data.length

/-- non-vacuity: a configuration outside the six instances of `sd2_reopen_info_instances` (24-bit, 7 channels, 96 kHz, a
    13-character name) is accepted, and the universal theorem answers for it; the kernel's own run of the parser agrees -/
example : ({ size := 3, rate := 96000, ch := 7, name := asc "take-0007.sd2" } : Cfg).wf ∧
    parseRsrc (rsrc { size := 3, rate := 96000, ch := 7, name := asc "take-0007.sd2" }) = .ok { size := 3, rate := 96000, ch := 7 } ∧
    reopen (rsrc { size := 3, rate := 96000, ch := 7, name := asc "take-0007.sd2" }) 2100
      = .ok { ch := 7, fmt := 0x160003, sr := 96000, frames := 100 } :=
  ⟨by decide, sd2_reopen_info _ (by decide), sd2_reopen_info_full _ (by decide) 2100⟩

example : parseRsrc (rsrc { size := 3, rate := 96000, ch := 7, name := asc "take-0007.sd2" }) = .ok { size := 3, rate := 96000, ch := 7 } := by
  decide +kernel

end Sf.C04Sd2All
