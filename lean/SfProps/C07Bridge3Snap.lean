/-
  C04 / C07 / C11 — CRASH POINTS OF BLOCK-CODEC WRITERS (round 9): the image SFC_UPDATE_HEADER_NOW / an auto-mode write leaves
  of a G.721 / G.723 file and of an IMA / MS ADPCM file (WAV / W64 / AIFF layouts, 1 or 2 channels, every rate) re-opens with
  the frames in the COMPLETE blocks flushed so far — `floorToBlock N_k B`, C11's "rounded down to whole blocks" — and reads back
  exactly that prefix of what the finished file reads back; with the facts of `<x>_session_accepted` the whole record (reference
  run, split run, stale run, every crash point) is accepted by the write-side predicate.

  The writers are instances of the generic block writer: a header update rewrites the header from the store length and leaves the
  partly filled block in the codec's buffer (`stored` = `WState.bytes` of the state between two calls).  `hstream` — the reader
  decodes the data region front to back: the frames it finds in a region `d` it delivers identically from any longer region
  `d ++ e` — is the one hypothesis on the read side (the readers of C06G72x / C06Block are block decoders with forward state).

  -- properties: C04 C07 C11
-/
import SfProps.C07Bridge2
import SfProofs.AbsWriteBridgeBlock3Codec
namespace Sf.C07Bridge3Snap
open Sf Sf.AbsWrite Sf.AbsWriteBridge Sf.C07Bridge Sf.Geometry Sf.Block Sf.Block.Proofs Sf.Block.Snap

/-- the hypothesis on the read side: front-to-back decoding -/
def Stream (J : SnapJob) : Prop :=
  ∀ (d e : List Byte) (n n' : Nat), J.framesAt d.length * J.g.ch ≤ n → J.framesAt d.length * J.g.ch ≤ n' →
    (J.back d n).take (J.framesAt d.length * J.g.ch) = (J.back (d ++ e) n').take (J.framesAt d.length * J.g.ch)

/-! ## G.721 / G.723 -/

section G72x
open Sf.G72x Sf.C07G72x

def g72xCodec (r : Rate) (cv : Conv) (ty : Ty) : WCodec G72x.St :=
  { w := writer r, s0 := St.init, bpb := r.blockBytes, frames := monoFrames (toCodec cv ty), closeSt := (writer r).close true }

def g72xSnapJob (r : Rate) (cv : Conv) (g : AbsWrite.Geom) (ty : Ty) (one split : List LCall) (hdr tail : Nat → List Byte)
    (marks : List Nat) : SnapJob :=
  { toBlockJob := g72xJob r cv g ty one split hdr tail, marks := marks,
    stored := fun cs => ((typed ty cs).foldl (fun st c => writeCall r cv c.1 st c.2) ((writer r).init St.init)).bytes }

theorem g72x_after (r : Rate) (cv : Conv) (ty : Ty) (cs : List LCall) :
    (typed ty cs).foldl (fun st c => writeCall r cv c.1 st c.2) ((writer r).init St.init) = (g72xCodec r cv ty).after cs := by
  rw [(g72x_write_is_fold r cv (typed ty cs) _ (g72x_init_inv r)).1]
  have : shorts cv (typed ty cs) = (samples cs).map (toCodec cv ty) := flatMap_typed ty (toCodec cv) cs
  rw [this]; rfl

/-- the four facts of `g72x_session_accepted` as a `BlockFacts` -/
theorem g72x_block_facts (r : Rate) (hr : r.bits = 3 ∨ r.bits = 4 ∨ r.bits = 5) (cv : Conv) (g : AbsWrite.Geom) (ty : Ty)
    (one split : List LCall) (hdr tail : Nat → List Byte)
    (hch : g.ch = 1) (hcodec : g.codec = 0x30 ∨ g.codec = 0x31 ∨ g.codec = 0x32)
    (hrate : rateOk g.major g.sr (g.sr : Int) = true)
    (h1 : ∀ c ∈ one, c.good 1) (h2 : ∀ c ∈ split, c.good 1) (hs : samples split = samples one) :
    BlockFacts (g72xJob r cv g ty one split hdr tail) := by
  have hB : g.block = 120 := by
    unfold Geom.block Geometry.blockFrames
    rcases hcodec with h | h | h <;> rw [h] <;> simp [Geometry.IMA, Geometry.MS, Geometry.GSM, Geometry.VOX, Geometry.NMS, Geometry.G72X]
  have hsh : ∀ cs, shorts cv (typed ty cs) = (samples cs).map (toCodec cv ty) := fun cs => flatMap_typed ty (toCodec cv) cs
  obtain ⟨f1, f2⟩ := g72x_frames_at_reopen r hr cv (typed ty one)
  rw [hsh, List.length_map] at f1 f2
  exact { chpos := by show 0 < g.ch; rw [hch]; decide, block := by show 1 ≤ g.block; rw [hB]; decide,
          calls1 := by show ∀ c ∈ one, c.good g.ch; rw [hch]; exact h1,
          calls2 := by show ∀ c ∈ split, c.good g.ch; rw [hch]; exact h2,
          same := hs,
          partition := fun h => g72x_write_partition r cv (typed ty split) (typed ty one) (by
            rw [hsh, hsh]; exact congrArg _ h),
          framesLo := by show framesOf g.ch one ≤ _; rw [hch, framesOf_one]; exact f1,
          framesHi := by show _ < framesOf g.ch one + g.block; rw [hch, framesOf_one, hB]; exact f2,
          backLen := fun d n => (C06G72x.g72x_read_contract _ (C06G72x.g72x_open_inv r d) ty n).2.2.1,
          rate := hrate,
          c01 := Or.inl <| by
            show losslessLow g.codec ty = none
            rcases hcodec with h | h | h <;> rw [h] <;> cases ty <;> rfl }

/-- **G.72x, crash points**: every job with crash points after any of its calls is accepted -/
theorem g72x_snap_session_accepted (r : Rate) (hr : r.bits = 3 ∨ r.bits = 4 ∨ r.bits = 5) (cv : Conv) (g : AbsWrite.Geom) (ty : Ty)
    (one split : List LCall) (hdr tail : Nat → List Byte) (marks : List Nat)
    (hch : g.ch = 1) (hcodec : g.codec = 0x30 ∨ g.codec = 0x31 ∨ g.codec = 0x32)
    (hrate : rateOk g.major g.sr (g.sr : Int) = true)
    (h1 : ∀ c ∈ one, c.good 1) (h2 : ∀ c ∈ split, c.good 1) (hs : samples split = samples one)
    (hstream : Stream (g72xSnapJob r cv g ty one split hdr tail marks)) :
    accepted (g72xSnapJob r cv g ty one split hdr tail marks).pred.record = true := by
  apply snap_session_accepted
  have base := g72x_block_facts r hr cv g ty one split hdr tail hch hcodec hrate h1 h2 hs
  have hB : g.block = 120 := by
    unfold Geom.block Geometry.blockFrames
    rcases hcodec with h | h | h <;> rw [h] <;> simp [Geometry.IMA, Geometry.MS, Geometry.GSM, Geometry.VOX, Geometry.NMS, Geometry.G72X]
  have hb : r.bits ≤ 8 := by omega
  have hpos : 0 < r.blockBytes := by
    unfold Rate.blockBytes blockSamples
    rcases hr with h | h | h <;> rw [h] <;> decide
  apply writer_snap_facts (g72xCodec r cv ty) _ ?_ base ?_ hstream
  · refine { wf := g72x_writer_wf r, bpbPos := hpos, chEq := hch.symm, blockEq := hB,
             framesLen := fun cs h => by
               show (monoFrames (toCodec cv ty) cs).length = framesOf g.ch cs
               rw [hch]; exact monoFrames_length _ cs (by rw [← hch]; exact h),
             framesApp := fun a b => monoFrames_append _ a b,
             storedLen := fun cs _ =>
               flushed_length (writer r) (g72x_writer_wf r) r.blockBytes (fun s b hl => encodeBlock_length r hb s b (by rw [hl]; rfl))
                 St.init _ (monoFrames_uniform _ cs),
             closePrefix := fun st => close_prefix _ true st,
             dataEq := fun cs _ => by
               show closedBytes r cv (typed ty cs) = _
               unfold closedBytes; rw [g72x_after]; rfl,
             storedEq := fun cs _ => by
               show ((typed ty cs).foldl (fun st c => writeCall r cv c.1 st c.2) ((writer r).init St.init)).bytes = _
               rw [g72x_after],
             framesAtBlocks := fun m => by
               show framesAtOpen r (m * r.blockBytes) = m * 120
               unfold framesAtOpen blocksTotal
               have h1 : m * r.blockBytes + r.blockBytes - 1 = (r.blockBytes - 1) + m * r.blockBytes := by omega
               rw [h1, Nat.add_mul_div_right _ _ hpos, Nat.div_eq_of_lt (by omega), Nat.zero_add]
               rfl }
  · show losslessLow g.codec ty = none
    rcases hcodec with h | h | h <;> rw [h] <;> cases ty <;> rfl

end G72x

/-! ## IMA ADPCM (WAV / W64 / AIFF) and MS ADPCM -/

section Adpcm
open Sf.Adpcm Sf.AdpcmEnc Sf.C07Adpcm Sf.C07Bridge2

def adpcmCodec (G : Geo) (cv : Conv) (ty : Ty) : WCodec ES :=
  { w := AdpcmEnc.writer G, s0 := ES.init G, bpb := G.blockBytes, frames := fun cs => frameList G cv (typed ty cs), closeSt := closeSt G }

def adpcmSnapJob (k : Kind) (cv : Conv) (g : AbsWrite.Geom) (ty : Ty) (one split : List LCall) (hdr tail : Nat → List Byte)
    (back : List Byte → Nat → List Int) (marks : List Nat) : SnapJob :=
  { toBlockJob := adpcmJob k cv g ty one split hdr tail back, marks := marks,
    stored := fun cs => (session (geoOf k g.sr g.ch) cv (typed ty cs)).bytes }

theorem typed_append (ty : Ty) (a b : List LCall) : typed ty (a ++ b) = typed ty a ++ typed ty b := by simp [typed]

theorem closeSt_prefix (G : Geo) (st : WState ES) : ∃ e, (closeSt G st).bytes = st.bytes ++ e := by
  unfold closeSt
  split
  · exact ⟨[], by simp⟩
  · exact ⟨_, emit_bytes _ _⟩

/-- the facts of `adpcm_session_accepted` as a `BlockFacts` -/
theorem adpcm_block_facts (k : Kind) (cv : Conv) (g : AbsWrite.Geom) (ty : Ty) (one split : List LCall)
    (hdr tail : Nat → List Byte) (back : List Byte → Nat → List Int) (hback : ∀ d n, (back d n).length = n)
    (hch : g.ch = 1 ∨ g.ch = 2) (hk : kindWord k g.major g.codec)
    (hrate : rateOk g.major g.sr (g.sr : Int) = true)
    (h1 : ∀ c ∈ one, c.good g.ch) (h2 : ∀ c ∈ split, c.good g.ch) (hs : samples split = samples one) :
    BlockFacts (adpcmJob k cv g ty one split hdr tail back) := by
  have hG : Sf.AdpcmEnc.Proofs.WGeo (geoOf k g.sr g.ch) := adpcm_geometry k g.sr g.ch hch
  have hgch : (geoOf k g.sr g.ch).ch = g.ch := by cases k <;> rfl
  obtain ⟨hspb, hchp, _, _⟩ := Sf.AdpcmEnc.Proofs.wgeo_pos _ hG
  rw [hgch] at hchp
  have hB : g.block = (geoOf k g.sr g.ch).spb := adpcm_block_agrees k g.major g.codec g.sr g.ch hk hch
  have hsh : ∀ cs, shorts cv (typed ty cs) = (samples cs).map (toCodec cv ty) := fun cs => flatMap_typed ty (toCodec cv) cs
  have hw1 : Whole (geoOf k g.sr g.ch) (typed ty one) := whole_typed _ ty one (by rw [hgch]; exact h1)
  have hw2 : Whole (geoOf k g.sr g.ch) (typed ty split) := whole_typed _ ty split (by rw [hgch]; exact h2)
  obtain ⟨f1, f2, _⟩ := adpcm_frames_at_reopen _ hG cv (typed ty one) hw1
  have hn : nframes (geoOf k g.sr g.ch) cv (typed ty one) = framesOf g.ch one := by
    unfold nframes; rw [hsh, List.length_map, hgch, framesOf_eq g.ch hchp one h1]
  rw [hn] at f1 f2
  exact { chpos := hchp, block := by show 1 ≤ g.block; rw [hB]; exact hspb,
          calls1 := h1, calls2 := h2, same := hs,
          partition := fun h => adpcm_write_partition _ hG cv (typed ty split) (typed ty one) hw2 hw1 (by
            rw [hsh, hsh]; exact congrArg _ h),
          framesLo := f1,
          framesHi := by show _ < framesOf g.ch one + g.block; rw [hB]; exact f2,
          backLen := hback, rate := hrate,
          c01 := Or.inl <| by
            show losslessLow g.codec ty = none
            have : g.codec = 0x12 ∨ g.codec = 0x13 := by
              cases k
              · exact Or.inl hk.1
              · exact Or.inl hk.1
              · exact Or.inr hk
            rcases this with h | h <;> rw [h] <;> cases ty <;> rfl }

/-- **IMA / MS ADPCM, crash points**: the store between two calls holds N_k / samplesperblock whole blocks; an MS ADPCM (or IMA)
    image taken after SFC_UPDATE_HEADER_NOW therefore re-opens with `floorToBlock N_k B` frames — NOT with the frames of the
    block still being filled — and reads back that prefix -/
theorem adpcm_snap_session_accepted (k : Kind) (cv : Conv) (g : AbsWrite.Geom) (ty : Ty) (one split : List LCall)
    (hdr tail : Nat → List Byte) (back : List Byte → Nat → List Int) (marks : List Nat) (hback : ∀ d n, (back d n).length = n)
    (hch : g.ch = 1 ∨ g.ch = 2) (hk : kindWord k g.major g.codec) (hrate : rateOk g.major g.sr (g.sr : Int) = true)
    (h1 : ∀ c ∈ one, c.good g.ch) (h2 : ∀ c ∈ split, c.good g.ch) (hs : samples split = samples one)
    (hstream : Stream (adpcmSnapJob k cv g ty one split hdr tail back marks)) :
    accepted (adpcmSnapJob k cv g ty one split hdr tail back marks).pred.record = true := by
  apply snap_session_accepted
  have base := adpcm_block_facts k cv g ty one split hdr tail back hback hch hk hrate h1 h2 hs
  have hG : Sf.AdpcmEnc.Proofs.WGeo (geoOf k g.sr g.ch) := adpcm_geometry k g.sr g.ch hch
  have hgch : (geoOf k g.sr g.ch).ch = g.ch := by cases k <;> rfl
  obtain ⟨hspb, hchp, _, hba⟩ := Sf.AdpcmEnc.Proofs.wgeo_pos _ hG
  have hB : g.block = (geoOf k g.sr g.ch).spb := adpcm_block_agrees k g.major g.codec g.sr g.ch hk hch
  have hwhole : ∀ cs, (∀ c ∈ cs, c.good g.ch) → Whole (geoOf k g.sr g.ch) (typed ty cs) :=
    fun cs h => whole_typed _ ty cs (by rw [hgch]; exact h)
  have hbpb : 0 < (geoOf k g.sr g.ch).blockBytes := by
    unfold Geo.blockBytes; split
    · exact Nat.mul_pos hchp hba
    · exact hba
  have hafter : ∀ cs, (∀ c ∈ cs, c.good g.ch) →
      session (geoOf k g.sr g.ch) cv (typed ty cs) = (adpcmCodec (geoOf k g.sr g.ch) cv ty).after cs := by
    intro cs h
    unfold session
    rw [(adpcm_write_is_fold _ hG cv (typed ty cs) _ (adpcm_init_inv _ hG) (hwhole cs h)).1]
    rfl
  apply writer_snap_facts (adpcmCodec (geoOf k g.sr g.ch) cv ty) _ ?_ base ?_ hstream
  · refine { wf := adpcm_writer_wf _ hG, bpbPos := hbpb, chEq := hgch, blockEq := hB,
             framesLen := fun cs h => by
               show (frameList (geoOf k g.sr g.ch) cv (typed ty cs)).length = framesOf g.ch cs
               rw [frameList_length _ hG cv _ (hwhole cs h)]
               have hsh : shorts cv (typed ty cs) = (samples cs).map (toCodec cv ty) := flatMap_typed ty (toCodec cv) cs
               unfold nframes; rw [hsh, List.length_map, hgch, framesOf_eq g.ch (by rw [← hgch]; exact hchp) cs h],
             framesApp := fun a b => by
               show frameList _ cv (typed ty (a ++ b)) = frameList _ cv (typed ty a) ++ frameList _ cv (typed ty b)
               rw [typed_append]; simp [frameList],
             storedLen := fun cs h => by
               rw [← hafter cs h]
               have sg := adpcm_session_state _ hG cv (typed ty cs) (hwhole cs h)
               unfold WState.bytes
               rw [flatten_length_const (geoOf k g.sr g.ch).blockBytes _ (by intro b hb; exact sg.len b (List.mem_reverse.mp hb)),
                 List.length_reverse, sg.out]
               show _ = (frameList (geoOf k g.sr g.ch) cv (typed ty cs)).length / _ * _
               rw [frameList_length _ hG cv _ (hwhole cs h)]; rfl,
             closePrefix := fun st => closeSt_prefix _ st,
             dataEq := fun cs h => by
               show closedBytes (geoOf k g.sr g.ch) cv (typed ty cs) = _
               unfold closedBytes; rw [hafter cs h]; rfl,
             storedEq := fun cs h => by
               show (session (geoOf k g.sr g.ch) cv (typed ty cs)).bytes = _
               rw [hafter cs h],
             framesAtBlocks := fun m => by
               show framesAtOpen (geoOf k g.sr g.ch) (m * (geoOf k g.sr g.ch).blockBytes) = m * (geoOf k g.sr g.ch).spb
               generalize geoOf k g.sr g.ch = G at hba hchp
               unfold framesAtOpen Geo.blockBytes
               cases hkk : G.kind with
               | imaWav =>
                 simp only [reduceCtorEq, if_false]
                 rw [Nat.mul_mod_left, Nat.mul_div_cancel _ hba]; simp [Nat.mul_comm]
               | imaAiff =>
                 simp only [if_true]
                 rw [← Nat.mul_assoc, Nat.mul_mod_left, Nat.mul_div_cancel _ hba]
                 simp only [ne_eq, not_true_eq_false, if_false]
                 rw [Nat.mul_comm G.spb, Nat.mul_assoc, Nat.mul_comm G.ch, ← Nat.mul_assoc, Nat.mul_div_cancel _ hchp]
               | ms =>
                 simp only [reduceCtorEq, if_false]
                 rw [Nat.mul_div_cancel _ hba] }
  · show losslessLow g.codec ty = none
    have : g.codec = 0x12 ∨ g.codec = 0x13 := by
      cases k
      · exact Or.inl hk.1
      · exact Or.inl hk.1
      · exact Or.inr hk
    rcases this with h | h <;> rw [h] <;> cases ty <;> rfl

end Adpcm

/-! ## non-vacuity -/

def exOne : List LCall := [⟨true, [1000, -2000, 30000], 3⟩]
def exSplit : List LCall := [⟨true, [1000], 1⟩, ⟨false, [-2000, 30000], 2⟩]
def exG : AbsWrite.Geom := { word := 0x00030030, ch := 1, sr := 8000 }
def exJ : SnapJob := g72xSnapJob G72x.g721 {} exG .s16 exOne exSplit (fun _ => []) (fun _ => []) [1, 2]

/-- G.721 in AU with the REAL reader of SfModel/G72xFile.lean: the record with two crash points evaluates — nothing is flushed
    before the close (0 frames at either crash point, `floorToBlock 1 120 = floorToBlock 3 120 = 0`), accepted -/
example : exJ.pred.snaps.map (·.info.frames) = [0, 0] ∧ exJ.pred.record.info.frames = 120 ∧ accepted exJ.pred.record = true := by
  decide +kernel

def zeroBack : List Byte → Nat → List Int := fun _ n => List.replicate n 0
def exGi : AbsWrite.Geom := { word := 0x00020012, ch := 1, sr := 8000 }
def exOneI : List LCall := [⟨true, (List.range 70).map fun (i : Nat) => (i : Int) * 100, 70⟩]
def exSplitI : List LCall := [⟨true, (List.range 65).map fun (i : Nat) => (i : Int) * 100, 65⟩,
  ⟨false, [6500, 6600, 6700, 6800, 6900], 5⟩]
def exJi : SnapJob := adpcmSnapJob .imaAiff {} exGi .s16 exOneI exSplitI (fun _ => []) (fun _ => []) zeroBack [1, 2]

theorem zeroBack_stream : Stream exJi := by
  intro d e n n' h1 h2
  show (List.replicate n 0).take _ = (List.replicate n' 0).take _
  rw [List.take_replicate, List.take_replicate, Nat.min_eq_left h1, Nat.min_eq_left h2]

/-- IMA ADPCM in AIFF (B = 64): 70 frames written as 65 + 5 with a crash point after either call: every hypothesis of
    `adpcm_snap_session_accepted` holds (a reader that fills zeros is front-to-back; `zeroBack_stream`); the crash points lie at
    65 and 70 frames: `floorToBlock 65 64 = floorToBlock 70 64 = 64` (kernel evaluation of the whole record: 5 minutes, left out) -/
example : (exGi.ch = 1 ∨ exGi.ch = 2) ∧ Sf.C07Bridge2.kindWord .imaAiff exGi.major exGi.codec ∧
    rateOk exGi.major exGi.sr (exGi.sr : Int) = true ∧
    (∀ c ∈ exOneI, c.good exGi.ch) ∧ (∀ c ∈ exSplitI, c.good exGi.ch) ∧ samples exSplitI = samples exOneI ∧
    [1, 2].map exJi.nk = [65, 70] ∧ exGi.block = 64 ∧ floorToBlock 65 64 = 64 ∧ floorToBlock 70 64 = 64 := by
  decide +kernel

end Sf.C07Bridge3Snap
