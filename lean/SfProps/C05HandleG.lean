/-
  C05 / C06 / C08 on the GENERIC handle machine `Sf.HandleG` (SfModel/HandleG.lean): what SfProps/C05.lean, C06.lean, C08.lean
  prove about `Sf.Handle` (RAW / AU / WAV) holds for EVERY container that satisfies the law record `ContLaws` — proved once,
  instantiated for AVR, IRCAM, PAF, HTK, AIFF, CAF, W64 (and RAW / AU / WAV again, where the generic machine IS `Sf.Handle`:
  `handleG_refines_handle`).  Property theorems only.
-/
-- properties: C05 C06 C08 C04 C01
import SfProofs.HandleGRefine
import SfProofs.HandleContract
import SfProofs.HandleSeek
namespace Sf.C05HandleG
open Sf Sf.HandleG

/-! ## the generic machine at RAW / AU / WAV is `Sf.Handle` -/

/-- every history: the generic machine instantiated with the RAW / AU / WAV container record computes exactly what
    `Sf.Handle`'s step functions compute (handle, store) -/
theorem handleG_refines_handle (k : Container) (ops : List Op) (h : H) (s : Store) (hc : h.container = k) :
    HandleG.runOps (classic k).toCont h s ops = Sf.runOps h s ops :=
  HandleG.handleG_refines_handle k ops h s hc

/-- one operation, including what the call returns -/
theorem handleG_step_refines (k : Container) (h : H) (s : Store) (op : Op) (hc : h.container = k) :
    HandleG.stepAny (classic k).toCont h s op = Sf.stepAny h s op :=
  stepAny_classic k h s op hc

example : (classic .au).toCont.name = "au" ∧ (classic .wav).toCont.hasHeader = true ∧ (classic .raw).toCont.hasHeader = false := by decide

/-! ## the handle invariant, every container -/

/-- the invariant of SfProps/C05.lean (0 ≤ rpos, 0 ≤ wpos, 0 ≤ dataoffset; in read mode rpos ≤ frames, the data region lies
    inside the store and the store position is the byte position of frame rpos) is preserved by every operation of every
    container satisfying the laws -/
theorem HInv_preserved_generic (c : Cont) (L : ContLaws c) (h : H) (s : Store) (op : Op) (hi : HInv h s) :
    HInv (HandleG.stepAny c h s op).1 (HandleG.stepAny c h s op).2.1 :=
  HandleG.HInv_stepAny L h s op hi

/-- … hence by every history -/
theorem HInv_history_generic (c : Cont) (L : ContLaws c) (ops : List Op) (h : H) (s : Store) (hi : HInv h s) :
    HInv (HandleG.runOps c h s ops).1 (HandleG.runOps c h s ops).2 :=
  HandleG.HInv_runOps L ops h s hi

/-- a container given by its header (`Spec`) satisfies the laws as soon as its `calc_length` block recomputes only the
    length fields -/
theorem spec_satisfies_laws (sp : Spec) (L : SpecLaws sp) : ContLaws sp.toCont := specLaws L

/-- the ten instances -/
theorem instances_lawful :
    ContLaws rawSpec.toCont ∧ ContLaws auSpec.toCont ∧ ContLaws wavSpec.toCont ∧ ContLaws avrSpec.toCont ∧
    ContLaws ircamSpec.toCont ∧ ContLaws pafSpec.toCont ∧ ContLaws htkSpec.toCont ∧ ContLaws aiffSpec.toCont ∧
    ContLaws cafSpec.toCont ∧ ContLaws w64Spec.toCont :=
  ⟨specLaws rawLaws, specLaws auLaws, specLaws wavLaws, specLaws avrLaws, specLaws ircamLaws, specLaws pafLaws,
   specLaws htkLaws, specLaws aiffLaws, specLaws cafLaws, specLaws w64Laws⟩

/-! ## the read contract, every container (C05 / C06) -/

/-- a read is the same function on every container: the generic machine's read step is `Sf.stepRead`, so the read contract
    of SfProps/C05.lean (`read_contract_rmode`: count = min (request, frames left), data = the next items of the decoded data
    region, zero fill at the end, position advance) applies verbatim to every instance -/
theorem read_is_container_independent (c c' : Cont) (h : H) (s : Store) (hn : Nat) (ty : Ty) (fc : Bool) (n : Int) :
    HandleG.stepAny c h s (.read hn ty fc n) = HandleG.stepAny c' h s (.read hn ty fc n) ∧
    HandleG.stepAny c h s (.read hn ty fc n) = Sf.stepRead h s ty fc n := ⟨rfl, rfl⟩

/-- seeks and SFC_FILE_TRUNCATE likewise -/
theorem seek_is_container_independent (c : Cont) (h : H) (s : Store) (hn : Nat) (off wh f : Int) :
    HandleG.stepAny c h s (.seek hn off wh) = Sf.stepSeek h s off wh ∧
    HandleG.stepAny c h s (.truncate hn f) = Sf.stepTruncate h s f := ⟨rfl, rfl⟩

/-- the write contract: a valid call (positive count, whole frames) on a handle that can write returns its count, clears the
    error, advances the write position by count / channels and touches nothing else but the length fields — every container -/
theorem write_contract_generic (c : Cont) (L : ContLaws c) (h : H) (s : Store) (ty : Ty) (fc : Bool) (n : Int) (data : List Int)
    (hn : 0 < n) (hm : h.mode ≠ .r) (ha : fc = true ∨ n % h.ch = 0) (hch : 0 < h.ch) :
    (HandleG.stepWrite c h s ty fc n data).2.2.ret = n ∧ (HandleG.stepWrite c h s ty fc n data).2.2.err = 0 ∧
    (HandleG.stepWrite c h s ty fc n data).1.wpos = h.wpos + reqLen h fc n / h.ch ∧
    (HandleG.stepWrite c h s ty fc n data).1.rpos = h.rpos ∧
    (HandleG.stepWrite c h s ty fc n data).1.mode = h.mode ∧ (HandleG.stepWrite c h s ty fc n data).1.ch = h.ch := by
  obtain ⟨fl, dl, off, de, pk, fr, e, _, eo⟩ := HandleG.stepWrite_fields L h s ty fc n data hn hm ha
  rw [e, eo]
  refine ⟨?_, rfl, rfl, rfl, rfl, rfl⟩
  cases fc
  · simp [reqLen]
  · simp only [reqLen, if_true]
    exact Int.mul_ediv_cancel n (by omega)

/-- non-vacuity: a two-channel AVR file opened for write; a frames call of 2 frames returns 2 and moves the write position -/
example :
    (match avrSpec.openH 0 {} .w 0x120002 2 8000 0 with
     | .ok h s =>
        let r := HandleG.stepWrite avrSpec.toCont h s .s16 true 2 [1, 2, 3, 4]
        decide (r.2.2.ret = 2 ∧ r.1.wpos = 2 ∧ r.2.1.bytes.length = 128 + 8 ∧ h.mode ≠ .r ∧ 0 < h.ch)
     | _ => false) = true := by decide +kernel

/-- non-vacuity of the invariant on a non-classic container: an IRCAM file re-opened for reading -/
example :
    (match ircamSpec.openH 0 {} .w 0x0A0002 1 8000 0 with
     | .ok h s =>
        let r := HandleG.stepWrite ircamSpec.toCont h s .s16 false 3 [1, 2, 3]
        let closed := ircamSpec.toCont.closeStore r.1 r.2.1
        match ircamSpec.openH 0 closed .r 0 0 0 0 with
        | .ok h2 s2 => decide (h2.frames = 3 ∧ h2.ch = 1 ∧ h2.sr = 8000 ∧ h2.dataoffset = 1024 ∧ s2.pos = 1024 ∧
                               (stepRead h2 s2 .s16 false 2).2.2.data = [1, 2])
        | _ => false
     | _ => false) = true := by decide +kernel

end Sf.C05HandleG
