/-
  C20, IEEE part — "the portable IEEE-754 float and double serialisers agree bit for bit with the native
  representation for every finite normal value, and byte-order helpers are exact involutions".
  Property theorems only (model: SfModel/Ieee.lean, helpers: SfProofs/Ieee.lean).

  * readers  : every normal pattern is read back as itself (`ieee_read_native_*`); what the C computes for the other
               classes is stated exactly: ±0 ↦ +0, binary32 subnormals ↦ 1.T (a value in [1,2)), binary64 subnormals
               ↦ 2^-1023·1.T rounded, Inf ↦ Inf, NaN ↦ Inf of the NaN's sign.
  * writers  : the full statement `ieee_write_*_full` is FALSE of the code (`ieee_write_*_fails`: the smallest normal
               value is written as four / eight zero bytes, known finding KF-C20-ieee-flush); it holds outside the
               class `flushes` = `fabs (in) < 1e-30` (`ieee_write_*_partial`).
  * byte order: `ENDSWAP_16/32/64` are involutions and reverse the byte string; `psf_put_be*` / `psf_get_*` are
               mutually inverse and are the big- and little-endian two's-complement layouts.
-/
import SfModel.Ieee
import SfProofs.Ieee
namespace Sf.C20Ieee
open Sf Sf.Float Sf.Ieee

/-! ## the spec layer agrees with the exact-value semantics used everywhere else in the model -/

theorem spec_isNormal_iff (f : Fmt) (hf : f.Std) (b : Nat) : Spec.isNormal f b = f.isNormal b := by
  rw [Bool.eq_iff_iff]
  rcases hf with rfl | rfl
  · simp only [Spec.isNormal, Spec.fields, Fmt.isNormal, Fmt.expo, Fmt.emax, f32]
    norm_num
    omega
  · simp only [Spec.isNormal, Spec.fields, Fmt.isNormal, Fmt.expo, Fmt.emax, f64]
    norm_num
    omega

/-- IEEE 754 §3.4: the value of a finite bit string is the dyadic `Fmt.toDy` assigns to it -/
theorem spec_value_finite (f : Fmt) (hf : f.Std) (b : Nat) (hfin : f.isFinite b = true) :
    Spec.value f (Spec.fields f b) = .fin (f.toDy b) := by
  rcases hf with rfl | rfl
  · have hne : ¬ (b / 2 ^ 23 % 2 ^ 8 = 2 ^ 8 - 1) := by simpa [Fmt.isFinite, Fmt.expo, Fmt.emax, f32] using hfin
    simp only [Spec.value, Spec.fields, Fmt.toDy, Fmt.expo, Fmt.frac, Fmt.sign, Fmt.qmin, Fmt.bias, f32]
    simp only [hne, if_false]
    by_cases h0 : b / 2 ^ 23 % 2 ^ 8 = 0
    · simp only [h0, if_true]; norm_num
    · simp only [h0, if_false]; norm_num; omega
  · have hne : ¬ (b / 2 ^ 52 % 2 ^ 11 = 2 ^ 11 - 1) := by simpa [Fmt.isFinite, Fmt.expo, Fmt.emax, f64] using hfin
    simp only [Spec.value, Spec.fields, Fmt.toDy, Fmt.expo, Fmt.frac, Fmt.sign, Fmt.qmin, Fmt.bias, f64]
    simp only [hne, if_false]
    by_cases h0 : b / 2 ^ 52 % 2 ^ 11 = 0
    · simp only [h0, if_true]; norm_num
    · simp only [h0, if_false]; norm_num; omega

theorem spec_encode_fields (f : Fmt) (hf : f.Std) (b : Nat) (hb : b < 2 ^ f.width) :
    Spec.encode f (Spec.fields f b) = b := by
  rcases hf with rfl | rfl
  · simp only [Spec.encode, Spec.fields, Fmt.width, f32] at *
    norm_num at *
    by_cases h : b / 2147483648 % 2 = 1 <;> simp only [h, if_true, if_false] <;> omega
  · simp only [Spec.encode, Spec.fields, Fmt.width, f64] at *
    norm_num at *
    by_cases h : b / 9223372036854775808 % 2 = 1 <;> simp only [h, if_true, if_false] <;> omega

/-- non-vacuity: 1.0f is the string 0|01111111|0…0 and denotes 2^23 · 2^-23 -/
example : Spec.fields f32 0x3F800000 = ⟨false, 127, 0⟩ ∧ Spec.value f32 ⟨false, 127, 0⟩ = .fin ⟨false, 2 ^ 23, -23⟩ ∧
    Spec.isNormal f32 0x3F800000 = true ∧ Spec.bytesBE f32 0x3F800000 = [0x3F, 0x80, 0, 0] := by decide

/-! ## readers -/

/-- binary32: every normal pattern, in either byte order, is read back as itself -/
theorem ieee_read_native_f32 (b : Nat) (hb : b < 2 ^ 32) (hn : Spec.isNormal f32 b = true) :
    f32BeRead (Spec.bytesBE f32 b) = b ∧ f32LeRead (Spec.bytesLE f32 b) = b := by
  rw [spec_isNormal_iff f32 f32_std] at hn
  have hne : f32.expo b ≠ f32.emax ∧ f32.expo b ≠ 0 := by simpa [Fmt.isNormal] using hn
  have hfin : f32.isFinite b = true := by simp [Fmt.isFinite, hne.1]
  have core := f32ReadCore_bytes b hb
  have h0 : ¬ (f32.expo b = 0 ∧ f32.frac b = 0) := fun h => hne.2 h.1
  rw [if_neg h0, if_pos hne.2] at core
  have hd : f32.toDy b = ⟨f32.sign b, 2 ^ 23 + f32.frac b, (f32.expo b : Int) - 127 - 23⟩ := by
    unfold Fmt.toDy; simp only [hne.2, if_false]
    congr 1
    have hq : f32.qmin = -149 := by decide
    rw [hq]; omega
  rw [← hd, ofDy_toDy f32 f32_std b hb hfin] at core
  rw [bytesBE_f32, bytesLE_f32]
  exact ⟨core, core⟩

/-- binary64: every normal pattern, in either byte order, is read back as itself -/
theorem ieee_read_native_f64 (b : Nat) (hb : b < 2 ^ 64) (hn : Spec.isNormal f64 b = true) :
    f64BeRead (Spec.bytesBE f64 b) = b ∧ f64LeRead (Spec.bytesLE f64 b) = b := by
  rw [spec_isNormal_iff f64 f64_std] at hn
  have hne : f64.expo b ≠ f64.emax ∧ f64.expo b ≠ 0 := by simpa [Fmt.isNormal] using hn
  have hfin : f64.isFinite b = true := by simp [Fmt.isFinite, hne.1]
  have core := f64ReadCore_bytes b hb
  have h0 : ¬ (f64.expo b = 0 ∧ f64.frac b = 0) := fun h => hne.2 h.1
  rw [if_neg h0] at core
  have hd : f64.toDy b = ⟨f64.sign b, 2 ^ 52 + f64.frac b, (f64.expo b : Int) - 1023 - 52⟩ := by
    unfold Fmt.toDy; simp only [hne.2, if_false]
    congr 1
    have hq : f64.qmin = -1074 := by decide
    rw [hq]; omega
  rw [← hd, ofDy_toDy f64 f64_std b hb hfin] at core
  rw [bytesBE_f64, bytesLE_f64]
  exact ⟨core, core⟩

/-- non-vacuity: the hypotheses are met by ordinary values and the readers are not constant -/
example : Spec.isNormal f32 0xC2F6E979 = true ∧ f32LeRead [0x79, 0xE9, 0xF6, 0xC2] = 0xC2F6E979 ∧
    f32BeRead [0x3F, 0x80, 0, 0] = 0x3F800000 ∧ f64BeRead [0x40, 0x09, 0x21, 0xFB, 0x54, 0x44, 0x2D, 0x18] = 0x400921FB54442D18 := by
  decide

/-! ### what the readers do outside the normal numbers (not covered by the property statement; stated so that
    nothing about the code is left implicit) -/

/-- +0 and −0 are both read as +0 (`return 0.0` before the sign is applied) -/
theorem f32_read_zero : f32BeRead (Spec.bytesBE f32 0) = 0 ∧ f32BeRead (Spec.bytesBE f32 0x80000000) = 0 ∧
    f32LeRead (Spec.bytesLE f32 0x80000000) = 0 ∧
    f64BeRead (Spec.bytesBE f64 0x8000000000000000) = 0 ∧ f64LeRead (Spec.bytesLE f64 0x8000000000000000) = 0 := by decide

/-- a binary32 subnormal (E = 0, T ≠ 0) is read as the NORMAL number with exponent field 127 and the same T, i.e. as
    1.T ∈ [1, 2) instead of T · 2^-149: `exponent = exponent ? exponent - 127 : 0` after `mantissa |= 0x800000` -/
theorem f32_read_subnormal (b : Nat) (hb : b < 2 ^ 32) (hE : f32.expo b = 0) (hT : f32.frac b ≠ 0) :
    f32BeRead (Spec.bytesBE f32 b) = f32.sgnBit (f32.sign b) + 127 * 2 ^ 23 + f32.frac b ∧
    f32LeRead (Spec.bytesLE f32 b) = f32.sgnBit (f32.sign b) + 127 * 2 ^ 23 + f32.frac b := by
  have core := f32ReadCore_bytes b hb
  have h0 : ¬ (f32.expo b = 0 ∧ f32.frac b = 0) := fun h => hT h.2
  rw [if_neg h0, if_neg (by simpa using hE)] at core
  have hfr : f32.frac b < 2 ^ 23 := by simp [Fmt.frac, f32]; omega
  have hq : f32.qmin = -149 := by decide
  have := ofDy_normalised f32 (f32.sign b) 127 (f32.frac b) (by omega) hfr
  rw [show f32.mbits = 23 from rfl] at this
  have e1 : ((127 : Nat) : Int) - 1 + f32.qmin = 0 - 23 := by rw [hq]; omega
  rw [e1] at this
  rw [this] at core
  have e2 : ¬ (127 ≥ f32.emax) := by decide
  rw [if_neg e2] at core
  rw [bytesBE_f32, bytesLE_f32]
  exact ⟨core, core⟩

/-- exponent field 255: `pow (2.0, 128)` overflows binary32, so Inf is read as Inf and every NaN as the Inf of its sign -/
theorem f32_read_inf_nan (b : Nat) (hb : b < 2 ^ 32) (hE : f32.expo b = 255) :
    f32BeRead (Spec.bytesBE f32 b) = f32.sgnBit (f32.sign b) + 255 * 2 ^ 23 ∧
    f32LeRead (Spec.bytesLE f32 b) = f32.sgnBit (f32.sign b) + 255 * 2 ^ 23 := by
  have core := f32ReadCore_bytes b hb
  have h0 : ¬ (f32.expo b = 0 ∧ f32.frac b = 0) := fun h => by omega
  rw [if_neg h0, if_pos (by omega)] at core
  have hfr : f32.frac b < 2 ^ 23 := by simp [Fmt.frac, f32]; omega
  have hq : f32.qmin = -149 := by decide
  have := ofDy_normalised f32 (f32.sign b) 255 (f32.frac b) (by omega) hfr
  rw [show f32.mbits = 23 from rfl] at this
  have e1 : ((255 : Nat) : Int) - 1 + f32.qmin = ((f32.expo b : Nat) : Int) - 127 - 23 := by rw [hq, hE]; omega
  rw [e1] at this
  rw [this] at core
  have e2 : (255 ≥ f32.emax) := by decide
  rw [if_pos e2] at core
  have e3 : f32.emax = 255 := by decide
  rw [e3] at core
  rw [bytesBE_f32, bytesLE_f32]
  exact ⟨core, core⟩

/-- a binary64 subnormal is read as (2^52 + T) · 2^-1075 rounded to binary64 — about 2^-1023, not T · 2^-1074
    (there is no special case for the exponent field 0 at all) -/
theorem f64_read_subnormal (b : Nat) (hb : b < 2 ^ 64) (hE : f64.expo b = 0) (hT : f64.frac b ≠ 0) :
    f64BeRead (Spec.bytesBE f64 b) = f64.ofDy ⟨f64.sign b, 2 ^ 52 + f64.frac b, -1075⟩ ∧
    f64LeRead (Spec.bytesLE f64 b) = f64.ofDy ⟨f64.sign b, 2 ^ 52 + f64.frac b, -1075⟩ := by
  have core := f64ReadCore_bytes b hb
  have h0 : ¬ (f64.expo b = 0 ∧ f64.frac b = 0) := fun h => hT h.2
  rw [if_neg h0, hE] at core
  rw [bytesBE_f64, bytesLE_f64]
  exact ⟨core, core⟩

theorem f64_read_inf_nan (b : Nat) (hb : b < 2 ^ 64) (hE : f64.expo b = 2047) :
    f64BeRead (Spec.bytesBE f64 b) = f64.sgnBit (f64.sign b) + 2047 * 2 ^ 52 ∧
    f64LeRead (Spec.bytesLE f64 b) = f64.sgnBit (f64.sign b) + 2047 * 2 ^ 52 := by
  have core := f64ReadCore_bytes b hb
  have h0 : ¬ (f64.expo b = 0 ∧ f64.frac b = 0) := fun h => by omega
  rw [if_neg h0] at core
  have hfr : f64.frac b < 2 ^ 52 := by simp [Fmt.frac, f64]; omega
  have hq : f64.qmin = -1074 := by decide
  have := ofDy_normalised f64 (f64.sign b) 2047 (f64.frac b) (by omega) hfr
  rw [show f64.mbits = 52 from rfl] at this
  have e1 : ((2047 : Nat) : Int) - 1 + f64.qmin = ((f64.expo b : Nat) : Int) - 1023 - 52 := by rw [hq, hE]; omega
  rw [e1] at this
  rw [this] at core
  have e2 : (2047 ≥ f64.emax) := by decide
  rw [if_pos e2] at core
  have e3 : f64.emax = 2047 := by decide
  rw [e3] at core
  rw [bytesBE_f64, bytesLE_f64]
  exact ⟨core, core⟩

/-- witnesses: the smallest binary32 subnormal is read as 1 + 2^-23, the largest as 2 − 2^-23; the smallest binary64
    subnormal as 2^-1023 (pattern 0x0008000000000000); a NaN as +Inf -/
example : f32LeRead (Spec.bytesLE f32 1) = 0x3F800001 ∧ f32BeRead (Spec.bytesBE f32 0x007FFFFF) = 0x3FFFFFFF ∧
    f64LeRead (Spec.bytesLE f64 1) = 0x0008000000000000 ∧ f32BeRead (Spec.bytesBE f32 0x7FC00000) = 0x7F800000 ∧
    f32.expo 1 = 0 ∧ f32.frac 1 ≠ 0 ∧ f32.expo 0x7FC00000 = 255 ∧ f64.expo 1 = 0 ∧ f64.expo 0xFFF8000000000000 = 2047 := by decide

/-! ## writers -/

/-- the property as stated: every finite normal value is serialised to its own bit string -/
def ieee_write_f32_full : Prop :=
  ∀ b, b < 2 ^ 32 → Spec.isNormal f32 b = true → f32BeWrite b = Spec.bytesBE f32 b ∧ f32LeWrite b = Spec.bytesLE f32 b
def ieee_write_f64_full : Prop :=
  ∀ b, b < 2 ^ 64 → Spec.isNormal f64 b = true → f64BeWrite b = Spec.bytesBE f64 b ∧ f64LeWrite b = Spec.bytesLE f64 b

/-- … is false of the code: the smallest normal binary32 value 2^-126 is written as four zero bytes -/
theorem ieee_write_f32_fails : ¬ ieee_write_f32_full := by
  intro h
  have := (h 0x00800000 (by decide) (by decide)).1
  revert this
  decide +kernel

/-- … and 2^-1022 (and every normal double below 1e-30, some 922 binades) as eight zero bytes -/
theorem ieee_write_f64_fails : ¬ ieee_write_f64_full := by
  intro h
  have := (h 0x0010000000000000 (by decide) (by decide)).1
  revert this
  decide +kernel

/-- the known-finding class KF-C20-ieee-flush: `fabs (in) < 1e-30` -/
def KF.ieeeFlush (f : Fmt) (b : Nat) : Bool := flushes f b

/-- the class in bit terms at its boundary: 0x0DA2425F is the largest flushed binary32 magnitude, 0x0DA24260 the first
    that is written; for binary64 the boundary is the pattern of 1e-30 itself -/
theorem ieee_flush_boundary :
    KF.ieeeFlush f32 0x0DA2425F = true ∧ KF.ieeeFlush f32 0x0DA24260 = false ∧ KF.ieeeFlush f32 0x8DA2425F = true ∧
    KF.ieeeFlush f64 0x39B4484BFEEBC29F = true ∧ KF.ieeeFlush f64 0x39B4484BFEEBC2A0 = false ∧
    KF.ieeeFlush f32 0x00800000 = true ∧ KF.ieeeFlush f64 0x0010000000000000 = true := by decide +kernel

/-- inside the class the writers produce zero bytes (+0), whatever the value and its sign -/
theorem ieee_write_flushed (b : Nat) :
    (KF.ieeeFlush f32 b = true → f32BeWrite b = [0, 0, 0, 0] ∧ f32LeWrite b = [0, 0, 0, 0]) ∧
    (KF.ieeeFlush f64 b = true → f64BeWrite b = [0, 0, 0, 0, 0, 0, 0, 0] ∧ f64LeWrite b = [0, 0, 0, 0, 0, 0, 0, 0]) := by
  constructor
  · intro h
    have hfin : f32.isFinite b = true := by
      simp only [KF.ieeeFlush, flushes, Bool.and_eq_true] at h; exact h.1
    have hw : f32WriteFields b = none := by
      unfold f32WriteFields; simp only [hfin, Bool.not_true, Bool.false_eq_true, if_false]
      simp only [KF.ieeeFlush] at h; simp only [h, if_true]
    simp [f32BeWrite, f32LeWrite, f32WriteBytes, hw]
  · intro h
    have hfin : f64.isFinite b = true := by
      simp only [KF.ieeeFlush, flushes, Bool.and_eq_true] at h; exact h.1
    have hw : f64WriteFields b = none := by
      unfold f64WriteFields; simp only [hfin, Bool.not_true, Bool.false_eq_true, if_false]
      simp only [KF.ieeeFlush] at h; simp only [h, if_true]
    simp [f64BeWrite, f64LeWrite, f64WriteBytes, hw]

/-- outside the class the binary32 writers produce the value's own bit string, in both byte orders -/
theorem ieee_write_f32_partial (b : Nat) (hb : b < 2 ^ 32) (hn : Spec.isNormal f32 b = true)
    (hk : KF.ieeeFlush f32 b = false) :
    f32BeWrite b = Spec.bytesBE f32 b ∧ f32LeWrite b = Spec.bytesLE f32 b := by
  rw [spec_isNormal_iff f32 f32_std] at hn
  have hw := f32WriteFields_normal b hn hk
  obtain ⟨h1, h2, h3⟩ := f32_fields b
  have hsgn : (if f32.sign b = true then 1 else 0) = b / 2147483648 % 2 := by
    rw [h3]; by_cases hs : b / 2147483648 % 2 = 1 <;> simp [hs]; omega
  have key : f32WriteBytes b = [b / 16777216 % 256, b / 65536 % 256, b / 256 % 256, b % 256] := by
    simp only [f32WriteBytes, hw]
    rw [hsgn, h1, h2]
    simp only [List.cons.injEq, and_true]
    refine ⟨?_, ?_, ?_, ?_⟩ <;> (show ((_ : Nat) = _); omega)
  constructor
  · rw [f32BeWrite, key, bytesBE_f32]
  · rw [f32LeWrite, key, bytesLE_f32]; rfl

/-- non-vacuity: an ordinary value satisfies the hypotheses and is written as its own bytes -/
example : Spec.isNormal f32 0xC2F6E979 = true ∧ KF.ieeeFlush f32 0xC2F6E979 = false ∧
    f32LeWrite 0xC2F6E979 = [0x79, 0xE9, 0xF6, 0xC2] ∧ f32BeWrite 0x0DA24260 = [0x0D, 0xA2, 0x42, 0x60] := by decide

/-- outside the class the binary64 writers produce the value's own bit string, in both byte orders -/
theorem ieee_write_f64_partial (b : Nat) (hb : b < 2 ^ 64) (hn : Spec.isNormal f64 b = true)
    (hk : KF.ieeeFlush f64 b = false) :
    f64BeWrite b = Spec.bytesBE f64 b ∧ f64LeWrite b = Spec.bytesLE f64 b := by
  rw [spec_isNormal_iff f64 f64_std] at hn
  have hw := f64WriteFields_normal b hn hk
  obtain ⟨h1, h2, h3⟩ := f64_fields b
  have hsgn : (if f64.sign b = true then 1 else 0) = b / 9223372036854775808 % 2 := by
    rw [h3]; by_cases hs : b / 9223372036854775808 % 2 = 1 <;> simp [hs]; omega
  have key : f64WriteBytes b = [b / 72057594037927936 % 256, b / 281474976710656 % 256, b / 1099511627776 % 256,
      b / 4294967296 % 256, b / 16777216 % 256, b / 65536 % 256, b / 256 % 256, b % 256] := by
    simp only [f64WriteBytes, hw]
    rw [hsgn, h1, h2]
    simp only [List.cons.injEq, and_true]
    clear hw hsgn h1 h2 h3 hk hn
    refine ⟨?_, ?_, ?_, ?_, ?_, ?_, ?_, ?_⟩ <;> (show ((_ : Nat) = _); omega)
  constructor
  · rw [f64BeWrite, key, bytesBE_f64]
  · rw [f64LeWrite, key, bytesLE_f64]; rfl

/-- non-vacuity -/
example : Spec.isNormal f64 0xC00921FB54442D18 = true ∧ KF.ieeeFlush f64 0xC00921FB54442D18 = false ∧
    f64BeWrite 0xC00921FB54442D18 = [0xC0, 0x09, 0x21, 0xFB, 0x54, 0x44, 0x2D, 0x18] := by decide +kernel

/-! ## write then read -/

/-- on the domain of the partial theorems, reading back what was written gives the value's bits; inside the
    flush class it gives +0 -/
theorem write_read_roundtrip_f32 (b : Nat) (hb : b < 2 ^ 32) (hn : Spec.isNormal f32 b = true) :
    (KF.ieeeFlush f32 b = false → f32BeRead (f32BeWrite b) = b ∧ f32LeRead (f32LeWrite b) = b) ∧
    (KF.ieeeFlush f32 b = true → f32BeRead (f32BeWrite b) = 0 ∧ f32LeRead (f32LeWrite b) = 0) := by
  constructor
  · intro hk
    obtain ⟨w1, w2⟩ := ieee_write_f32_partial b hb hn hk
    obtain ⟨r1, r2⟩ := ieee_read_native_f32 b hb hn
    rw [w1, w2]; exact ⟨r1, r2⟩
  · intro hk
    obtain ⟨w1, w2⟩ := (ieee_write_flushed b).1 hk
    rw [w1, w2]; decide

theorem write_read_roundtrip_f64 (b : Nat) (hb : b < 2 ^ 64) (hn : Spec.isNormal f64 b = true) :
    (KF.ieeeFlush f64 b = false → f64BeRead (f64BeWrite b) = b ∧ f64LeRead (f64LeWrite b) = b) ∧
    (KF.ieeeFlush f64 b = true → f64BeRead (f64BeWrite b) = 0 ∧ f64LeRead (f64LeWrite b) = 0) := by
  constructor
  · intro hk
    obtain ⟨w1, w2⟩ := ieee_write_f64_partial b hb hn hk
    obtain ⟨r1, r2⟩ := ieee_read_native_f64 b hb hn
    rw [w1, w2]; exact ⟨r1, r2⟩
  · intro hk
    obtain ⟨w1, w2⟩ := (ieee_write_flushed b).2 hk
    rw [w1, w2]; decide

example : f32LeRead (f32LeWrite 0x3DCCCCCD) = 0x3DCCCCCD ∧ f32LeRead (f32LeWrite 0x00800000) = 0 := by decide +kernel

/-! ## byte-order helpers -/

theorem endswap16_bytes (b0 b1 : Nat) (h0 : b0 < 256) (h1 : b1 < 256) :
    endswap16 (b1 * 256 + b0) = b0 * 256 + b1 := by unfold endswap16; omega
theorem endswap32_bytes (b0 b1 b2 b3 : Nat) (h0 : b0 < 256) (h1 : b1 < 256) (h2 : b2 < 256) (h3 : b3 < 256) :
    endswap32 (b3 * 16777216 + b2 * 65536 + b1 * 256 + b0) = b0 * 16777216 + b1 * 65536 + b2 * 256 + b3 := by
  unfold endswap32; omega
theorem endswap16_involutive (x : Nat) (h : x < 2 ^ 16) : endswap16 (endswap16 x) = x := by
  have hx : x = (x / 256) * 256 + x % 256 := by omega
  have h1 : x / 256 < 256 := by omega
  have h0 : x % 256 < 256 := by omega
  generalize x / 256 = b1 at *
  generalize x % 256 = b0 at *
  subst hx
  rw [endswap16_bytes b0 b1 h0 h1, endswap16_bytes b1 b0 h1 h0]
theorem endswap32_involutive (x : Nat) (h : x < 2 ^ 32) : endswap32 (endswap32 x) = x := by
  have hx : x = (x / 16777216) * 16777216 + (x / 65536 % 256) * 65536 + (x / 256 % 256) * 256 + x % 256 := by omega
  have h3 : x / 16777216 < 256 := by omega
  have h2 : x / 65536 % 256 < 256 := by omega
  have h1 : x / 256 % 256 < 256 := by omega
  have h0 : x % 256 < 256 := by omega
  generalize x / 16777216 = b3 at *
  generalize x / 65536 % 256 = b2 at *
  generalize x / 256 % 256 = b1 at *
  generalize x % 256 = b0 at *
  subst hx
  rw [endswap32_bytes b0 b1 b2 b3 h0 h1 h2 h3, endswap32_bytes b3 b2 b1 b0 h3 h2 h1 h0]
theorem endswap32_lt (x : Nat) : endswap32 x < 2 ^ 32 := by unfold endswap32; omega
theorem endswap64_involutive (x : Nat) (h : x < 2 ^ 64) : endswap64 (endswap64 x) = x := by
  unfold endswap64
  have a := endswap32_lt (x / 4294967296 % 4294967296)
  have b := endswap32_lt (x % 4294967296)
  have i1 := endswap32_involutive (x / 4294967296 % 4294967296) (by omega)
  have i2 := endswap32_involutive (x % 4294967296) (by omega)
  have e1 : (endswap32 (x / 4294967296 % 4294967296) + endswap32 (x % 4294967296) * 4294967296) / 4294967296 % 4294967296
      = endswap32 (x % 4294967296) := by omega
  have e2 : (endswap32 (x / 4294967296 % 4294967296) + endswap32 (x % 4294967296) * 4294967296) % 4294967296
      = endswap32 (x / 4294967296 % 4294967296) := by omega
  rw [e1, e2, i1, i2]; omega

/-- `ENDSWAP_16/32/64` as functions on bit vectors are exact involutions, for every bit pattern -/
theorem endswap_involutive :
    (∀ x : BitVec 16, bswap16 (bswap16 x) = x) ∧ (∀ x : BitVec 32, bswap32 (bswap32 x) = x) ∧
    (∀ x : BitVec 64, bswap64 (bswap64 x) = x) := by
  refine ⟨fun x => ?_, fun x => ?_, fun x => ?_⟩
  · apply BitVec.eq_of_toNat_eq
    have hx := x.isLt
    have hl : endswap16 x.toNat < 2 ^ 16 := by unfold endswap16; omega
    simp only [bswap16, BitVec.toNat_ofNat, Nat.mod_eq_of_lt hl]
    rw [endswap16_involutive _ hx, Nat.mod_eq_of_lt hx]
  · apply BitVec.eq_of_toNat_eq
    have hx := x.isLt
    have hl := endswap32_lt x.toNat
    simp only [bswap32, BitVec.toNat_ofNat, Nat.mod_eq_of_lt hl]
    rw [endswap32_involutive _ hx, Nat.mod_eq_of_lt hx]
  · apply BitVec.eq_of_toNat_eq
    have hx := x.isLt
    have hl : endswap64 x.toNat < 2 ^ 64 := by
      unfold endswap64
      have a := endswap32_lt (x.toNat / 4294967296 % 4294967296)
      have b := endswap32_lt (x.toNat % 4294967296)
      omega
    simp only [bswap64, BitVec.toNat_ofNat, Nat.mod_eq_of_lt hl]
    rw [endswap64_involutive _ hx, Nat.mod_eq_of_lt hx]

/-- a swap is the reversal of the byte string: the bytes of `x` in little-endian order, read as a big-endian number,
    are `ENDSWAP (x)` -/
theorem endswap_reverses_bytes (x : Nat) :
    ofBE (leBytes 2 x) = endswap16 x ∧ ofBE (leBytes 4 x) = endswap32 x := by
  constructor
  · simp only [ofBE, leBytes, List.reverse_cons, List.reverse_nil, List.nil_append, List.cons_append, ofLE, endswap16,
      Nat.div_div_eq_div_mul]
    omega
  · simp only [ofBE, leBytes, List.reverse_cons, List.reverse_nil, List.nil_append, List.cons_append, ofLE, endswap32,
      Nat.div_div_eq_div_mul, Nat.reduceMul]
    omega

/-- non-vacuity: the swaps are not the identity -/
example : endswap16 0x1234 = 0x3412 ∧ endswap32 0x12345678 = 0x78563412 ∧
    endswap64 0x0102030405060708 = 0x0807060504030201 ∧ bswap32 0x12345678#32 = 0x78563412#32 := by decide

/-! ### `psf_put_be*` / `psf_get_*` -/

theorem byteAt_eq (v : Int) : byteAt v 0 = (v % 256).toNat ∧ byteAt v 8 = (v / 256 % 256).toNat ∧
    byteAt v 16 = (v / 65536 % 256).toNat ∧ byteAt v 24 = (v / 16777216 % 256).toNat := by
  simp [byteAt, wrapU, asr]
theorem wrapS32_eq (x : Int) : wrapS 32 x = if x % 4294967296 < 2147483648 then x % 4294967296 else x % 4294967296 - 4294967296 := by
  simp [wrapS]
theorem wrapS16_eq (x : Int) : wrapS 16 x = if x % 65536 < 32768 then x % 65536 else x % 65536 - 65536 := by
  simp [wrapS]

/-- put then get is the identity on the whole value range of the integer type -/
theorem get_put_roundtrip (v : Int) :
    (-32768 ≤ v → v ≤ 32767 → getBe16 (putBe16 v) = v) ∧
    (-2147483648 ≤ v → v ≤ 2147483647 → getBe32 (putBe32 v) = v) := by
  obtain ⟨e0, e8, e16, e24⟩ := byteAt_eq v
  refine ⟨fun h1 h2 => ?_, fun h1 h2 => ?_⟩
  · simp only [putBe16, getBe16, e0, e8, wrapS16_eq]
    split <;> split <;> omega
  · simp only [putBe32, getBe32, e0, e8, e16, e24, wrapS32_eq]
    split <;> omega

/-- the little-endian and 24-bit readers are the big-endian 32-bit reader on the reversed / zero-extended string -/
theorem get_le_is_get_be_reversed (a b c d : Nat) :
    getLe32 [a, b, c, d] = getBe32 [d, c, b, a] ∧ getBe24 [a, b, c] = getBe32 [a, b, c, 0] ∧
    getLe24 [a, b, c] = getBe32 [c, b, a, 0] ∧
    getLe64 [a, b, c, d, a, b, c, d] = getBe64 [d, c, b, a, d, c, b, a] := by
  refine ⟨rfl, ?_, ?_, rfl⟩
  · simp only [getBe24, getBe32]; norm_num
  · simp only [getLe24, getBe32]; norm_num

/-- non-vacuity -/
example : putBe32 (-2) = [0xFF, 0xFF, 0xFF, 0xFE] ∧ getBe32 [0xFF, 0xFF, 0xFF, 0xFE] = -2 ∧ getLe32 [1, 2, 3, 4] = 0x04030201 ∧
    getBe16 [0x80, 0x01] = -32767 ∧ getBe24 [0x80, 0, 1] = -2147483392 ∧ getLe64 [1, 0, 0, 0, 0, 0, 0, 0x80] = -9223372036854775807 ∧
    putBe64 (-9223372036854775807) = [0x80, 0, 0, 0, 0, 0, 0, 1] := by decide

end Sf.C20Ieee
