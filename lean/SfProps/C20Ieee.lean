-- properties: C20 C01
/-
  C20, IEEE part — "the portable IEEE-754 float and double serialisers agree bit for bit with the native
  representation for every finite normal value, and byte-order helpers are exact involutions".
  Property theorems only (model: SfModel/Ieee.lean, helpers: SfProofs/Ieee.lean).

  * readers  : every FINITE pattern (normal, subnormal, ±0) is read back as itself (`ieee_read_finite_*`, C20's
               `ieee_read_native_*` is the normal case); Inf ↦ Inf, NaN ↦ Inf of the NaN's sign.  The readers before the two
               `fix:` commits are kept as `…Old` with `read_zero_old_rule`, `f32/f64_read_subnormal_old_rule`.
  * writers  : EVERY finite value — normal, subnormal, ±0 — is written as its own bit string (`ieee_write_finite_*`; C20's
               `ieee_write_native_*` is the normal case).  The rule before the first `fix:` commit (`fabs (in) < 1e-30`) is kept:
               `ieee_write_*_old_rule_fails`, `ieee_write_old_rule_partial`, `flushes_old_rule_iff_*` (the class in bit terms);
               so is the rule before the second (`fabs (in) < FLT_MIN` early return, sign by `in < 0.0`; `…TinyOld`):
               `ieee_write_tiny_old_rule`, `ieee_write_finite_tiny_old_rule_fails` (2^-127, −0.0), `ieee_write_native_tiny_old_rule`.
  * round trip: `replace_roundtrip` (C01 through the portable path, full strength: every finite value), with
               `replace_roundtrip_old_rule_fails` / `_partial` over the former class `KF.ieeeTiny`.
  * buffers  : `replace_write_finite_*`, `replace_read_finite_*`, `replace_buffer_roundtrip`: the array paths equal the native
               paths on every buffer of finite values (`…_native_*`: the normal values of the C20 statement).
  * byte order: `ENDSWAP_16/32/64` are involutions and reverse the byte string (Nat and BitVec forms, proved equal);
               `psf_put_be*` / `psf_get_*` are mutually inverse in both directions for 16, 32 and 64 bits.
-/
import SfModel.Ieee
import SfProofs.Ieee
import SfProofs.Codec
namespace Sf.C20Ieee
open Sf Sf.Float Sf.Ieee

/-! ## the spec layer agrees with the exact-value semantics used everywhere else in the model -/

theorem spec_isNormal_iff (f : Fmt) (hf : f.Std) (b : Nat) : Spec.isNormal f b = f.isNormal b := by
  rw [Bool.eq_iff_iff]
  rcases hf with rfl | rfl
  · simp only [Spec.isNormal, Spec.fields, Fmt.isNormal, Fmt.expo, Fmt.emax, f32]
    norm_num
    omega
  · simp only [Spec.isNormal, Spec.fields, Fmt.isNormal, Fmt.expo, Fmt.emax, f64]
    norm_num
    omega

/-- IEEE 754 §3.4: the value of a finite bit string is the dyadic `Fmt.toDy` assigns to it -/
theorem spec_value_finite (f : Fmt) (hf : f.Std) (b : Nat) (hfin : f.isFinite b = true) :
    Spec.value f (Spec.fields f b) = .fin (f.toDy b) := by
  rcases hf with rfl | rfl
  · have hne : ¬ (b / 2 ^ 23 % 2 ^ 8 = 2 ^ 8 - 1) := by simpa [Fmt.isFinite, Fmt.expo, Fmt.emax, f32] using hfin
    simp only [Spec.value, Spec.fields, Fmt.toDy, Fmt.expo, Fmt.frac, Fmt.sign, Fmt.qmin, Fmt.bias, f32]
    simp only [hne, if_false]
    by_cases h0 : b / 2 ^ 23 % 2 ^ 8 = 0
    · simp only [h0, if_true]; norm_num
    · simp only [h0, if_false]; norm_num; omega
  · have hne : ¬ (b / 2 ^ 52 % 2 ^ 11 = 2 ^ 11 - 1) := by simpa [Fmt.isFinite, Fmt.expo, Fmt.emax, f64] using hfin
    simp only [Spec.value, Spec.fields, Fmt.toDy, Fmt.expo, Fmt.frac, Fmt.sign, Fmt.qmin, Fmt.bias, f64]
    simp only [hne, if_false]
    by_cases h0 : b / 2 ^ 52 % 2 ^ 11 = 0
    · simp only [h0, if_true]; norm_num
    · simp only [h0, if_false]; norm_num; omega

theorem spec_encode_fields (f : Fmt) (hf : f.Std) (b : Nat) (hb : b < 2 ^ f.width) :
    Spec.encode f (Spec.fields f b) = b := by
  rcases hf with rfl | rfl
  · simp only [Spec.encode, Spec.fields, Fmt.width, f32] at *
    norm_num at *
    by_cases h : b / 2147483648 % 2 = 1 <;> simp only [h, if_true, if_false] <;> omega
  · simp only [Spec.encode, Spec.fields, Fmt.width, f64] at *
    norm_num at *
    by_cases h : b / 9223372036854775808 % 2 = 1 <;> simp only [h, if_true, if_false] <;> omega

/-- non-vacuity: 1.0f is the string 0|01111111|0…0 and denotes 2^23 · 2^-23 -/
example : Spec.fields f32 0x3F800000 = ⟨false, 127, 0⟩ ∧ Spec.value f32 ⟨false, 127, 0⟩ = .fin ⟨false, 2 ^ 23, -23⟩ ∧
    Spec.isNormal f32 0x3F800000 = true ∧ Spec.bytesBE f32 0x3F800000 = [0x3F, 0x80, 0, 0] := by decide

/-! ## readers (current rule: after the `fix:` commits "decoded subnormal numbers with a hidden bit" and
    "returned +0.0 for the bit pattern of -0.0") -/

/-- binary32: every FINITE pattern — normal, subnormal, +0, −0 — in either byte order, is read back as itself -/
theorem ieee_read_finite_f32 (b : Nat) (hb : b < 2 ^ 32) (hfin : f32.isFinite b = true) :
    f32BeRead (Spec.bytesBE f32 b) = b ∧ f32LeRead (Spec.bytesLE f32 b) = b := by
  have core := f32ReadCore_bytes b hb
  have hq : f32.qmin = -149 := by decide
  have key : f32ReadCore (b / 16777216 % 256) (b / 65536 % 256) (b / 256 % 256) (b % 256) = b := by
    rw [core]
    by_cases h0 : f32.expo b = 0 ∧ f32.frac b = 0
    · rw [if_pos h0]
      obtain ⟨hdec, _, _⟩ := pattern_decomp f32 f32_std b hb
      rw [h0.1, h0.2] at hdec; omega
    · rw [if_neg h0]
      by_cases he : f32.expo b = 0
      · rw [if_neg (by simpa using he)]
        have hd : f32.toDy b = ⟨f32.sign b, f32.frac b, -149⟩ := by rw [toDy_subnormal f32 b he, hq]
        rw [← hd, ofDy_toDy f32 f32_std b hb hfin]
      · rw [if_pos he]
        have hd : f32.toDy b = ⟨f32.sign b, 2 ^ 23 + f32.frac b, (f32.expo b : Int) - 127 - 23⟩ := by
          rw [toDy_normal f32 b he]; congr 1; rw [hq]; omega
        rw [← hd, ofDy_toDy f32 f32_std b hb hfin]
  rw [bytesBE_f32, bytesLE_f32]
  exact ⟨key, key⟩

/-- binary64: every finite pattern, in either byte order, is read back as itself -/
theorem ieee_read_finite_f64 (b : Nat) (hb : b < 2 ^ 64) (hfin : f64.isFinite b = true) :
    f64BeRead (Spec.bytesBE f64 b) = b ∧ f64LeRead (Spec.bytesLE f64 b) = b := by
  have core := f64ReadCore_bytes b hb
  have hq : f64.qmin = -1074 := by decide
  have key : f64ReadCore (b / 72057594037927936 % 256) (b / 281474976710656 % 256) (b / 1099511627776 % 256)
        (b / 4294967296 % 256) (b / 16777216 % 256) (b / 65536 % 256) (b / 256 % 256) (b % 256) = b := by
    rw [core]
    by_cases h0 : f64.expo b = 0 ∧ f64.frac b = 0
    · rw [if_pos h0]
      obtain ⟨hdec, _, _⟩ := pattern_decomp f64 f64_std b hb
      rw [h0.1, h0.2] at hdec; omega
    · rw [if_neg h0]
      by_cases he : f64.expo b = 0
      · rw [if_neg (by simpa using he)]
        have hd : f64.toDy b = ⟨f64.sign b, f64.frac b, -1074⟩ := by rw [toDy_subnormal f64 b he, hq]
        rw [← hd, ofDy_toDy f64 f64_std b hb hfin]
      · rw [if_pos he]
        have hd : f64.toDy b = ⟨f64.sign b, 2 ^ 52 + f64.frac b, (f64.expo b : Int) - 1023 - 52⟩ := by
          rw [toDy_normal f64 b he]; congr 1; rw [hq]; omega
        rw [← hd, ofDy_toDy f64 f64_std b hb hfin]
  rw [bytesBE_f64, bytesLE_f64]
  exact ⟨key, key⟩

theorem finite_of_spec_normal (f : Fmt) (hf : f.Std) (b : Nat) (hn : Spec.isNormal f b = true) :
    f.isNormal b = true ∧ f.isFinite b = true := by
  rw [spec_isNormal_iff f hf] at hn
  have hne : f.expo b ≠ f.emax ∧ f.expo b ≠ 0 := by simpa [Fmt.isNormal] using hn
  exact ⟨hn, by simp [Fmt.isFinite, hne.1]⟩

/-- the C20 statement for the readers: every finite normal pattern is read back as itself -/
theorem ieee_read_native_f32 (b : Nat) (hb : b < 2 ^ 32) (hn : Spec.isNormal f32 b = true) :
    f32BeRead (Spec.bytesBE f32 b) = b ∧ f32LeRead (Spec.bytesLE f32 b) = b :=
  ieee_read_finite_f32 b hb (finite_of_spec_normal f32 f32_std b hn).2
theorem ieee_read_native_f64 (b : Nat) (hb : b < 2 ^ 64) (hn : Spec.isNormal f64 b = true) :
    f64BeRead (Spec.bytesBE f64 b) = b ∧ f64LeRead (Spec.bytesLE f64 b) = b :=
  ieee_read_finite_f64 b hb (finite_of_spec_normal f64 f64_std b hn).2

/-- non-vacuity: the hypotheses are met by ordinary values, by subnormals and by −0, and the readers are not constant -/
example : Spec.isNormal f32 0xC2F6E979 = true ∧ f32LeRead [0x79, 0xE9, 0xF6, 0xC2] = 0xC2F6E979 ∧
    f32BeRead [0x3F, 0x80, 0, 0] = 0x3F800000 ∧ f64BeRead [0x40, 0x09, 0x21, 0xFB, 0x54, 0x44, 0x2D, 0x18] = 0x400921FB54442D18 ∧
    f32.isFinite 1 = true ∧ f32LeRead (Spec.bytesLE f32 1) = 1 ∧ f32BeRead (Spec.bytesBE f32 0x80000000) = 0x80000000 ∧
    f64LeRead (Spec.bytesLE f64 0x800FFFFFFFFFFFFF) = 0x800FFFFFFFFFFFFF := by
  decide +kernel

/-! ### outside the finite values: exponent field all ones (unchanged by the repairs; outside every property statement) -/

/-- exponent field 255: `pow (2.0, 128)` overflows binary32, so Inf is read as Inf and every NaN as the Inf of its sign -/
theorem f32_read_inf_nan (b : Nat) (hb : b < 2 ^ 32) (hE : f32.expo b = 255) :
    f32BeRead (Spec.bytesBE f32 b) = f32.sgnBit (f32.sign b) + 255 * 2 ^ 23 ∧
    f32LeRead (Spec.bytesLE f32 b) = f32.sgnBit (f32.sign b) + 255 * 2 ^ 23 := by
  have core := f32ReadCore_bytes b hb
  have h0 : ¬ (f32.expo b = 0 ∧ f32.frac b = 0) := fun h => by omega
  rw [if_neg h0, if_pos (by omega)] at core
  have hfr : f32.frac b < 2 ^ 23 := by simp [Fmt.frac, f32]; omega
  have hq : f32.qmin = -149 := by decide
  have := ofDy_normalised f32 (f32.sign b) 255 (f32.frac b) (by omega) hfr
  rw [show f32.mbits = 23 from rfl] at this
  have e1 : ((255 : Nat) : Int) - 1 + f32.qmin = ((f32.expo b : Nat) : Int) - 127 - 23 := by rw [hq, hE]; omega
  rw [e1] at this
  rw [this] at core
  have e2 : (255 ≥ f32.emax) := by decide
  rw [if_pos e2] at core
  have e3 : f32.emax = 255 := by decide
  rw [e3] at core
  rw [bytesBE_f32, bytesLE_f32]
  exact ⟨core, core⟩

theorem f64_read_inf_nan (b : Nat) (hb : b < 2 ^ 64) (hE : f64.expo b = 2047) :
    f64BeRead (Spec.bytesBE f64 b) = f64.sgnBit (f64.sign b) + 2047 * 2 ^ 52 ∧
    f64LeRead (Spec.bytesLE f64 b) = f64.sgnBit (f64.sign b) + 2047 * 2 ^ 52 := by
  have core := f64ReadCore_bytes b hb
  have h0 : ¬ (f64.expo b = 0 ∧ f64.frac b = 0) := fun h => by omega
  rw [if_neg h0, if_pos (by omega)] at core
  have hfr : f64.frac b < 2 ^ 52 := by simp [Fmt.frac, f64]; omega
  have hq : f64.qmin = -1074 := by decide
  have := ofDy_normalised f64 (f64.sign b) 2047 (f64.frac b) (by omega) hfr
  rw [show f64.mbits = 52 from rfl] at this
  have e1 : ((2047 : Nat) : Int) - 1 + f64.qmin = ((f64.expo b : Nat) : Int) - 1023 - 52 := by rw [hq, hE]; omega
  rw [e1] at this
  rw [this] at core
  have e2 : (2047 ≥ f64.emax) := by decide
  rw [if_pos e2] at core
  have e3 : f64.emax = 2047 := by decide
  rw [e3] at core
  rw [bytesBE_f64, bytesLE_f64]
  exact ⟨core, core⟩

example : f32BeRead (Spec.bytesBE f32 0x7FC00000) = 0x7F800000 ∧ f32.expo 0x7FC00000 = 255 ∧ f64.expo 0xFFF8000000000000 = 2047 := by
  decide +kernel

/-! ### the readers before the repairs (`f32BeReadOld` &c.) -/

/-- old rule: +0 and −0 were both read as +0 (`return 0.0` before the sign is applied) -/
theorem read_zero_old_rule : f32BeReadOld (Spec.bytesBE f32 0x80000000) = 0 ∧ f32LeReadOld (Spec.bytesLE f32 0x80000000) = 0 ∧
    f64BeReadOld (Spec.bytesBE f64 0x8000000000000000) = 0 ∧ f64LeReadOld (Spec.bytesLE f64 0x8000000000000000) = 0 := by
  decide +kernel

/-- old rule: a binary32 subnormal (E = 0, T ≠ 0) was read as the NORMAL number with exponent field 127 and the same T,
    i.e. as 1.T ∈ [1, 2) instead of T · 2^-149 (`mantissa |= 0x800000 ; exponent = exponent ? exponent - 127 : 0`) -/
theorem f32_read_subnormal_old_rule (b : Nat) (hb : b < 2 ^ 32) (hE : f32.expo b = 0) (hT : f32.frac b ≠ 0) :
    f32BeReadOld (Spec.bytesBE f32 b) = f32.sgnBit (f32.sign b) + 127 * 2 ^ 23 + f32.frac b ∧
    f32LeReadOld (Spec.bytesLE f32 b) = f32.sgnBit (f32.sign b) + 127 * 2 ^ 23 + f32.frac b := by
  have core := f32ReadCoreOld_bytes b hb
  have h0 : ¬ (f32.expo b = 0 ∧ f32.frac b = 0) := fun h => hT h.2
  rw [if_neg h0, if_neg (by simpa using hE)] at core
  have hfr : f32.frac b < 2 ^ 23 := by simp [Fmt.frac, f32]; omega
  have hq : f32.qmin = -149 := by decide
  have := ofDy_normalised f32 (f32.sign b) 127 (f32.frac b) (by omega) hfr
  rw [show f32.mbits = 23 from rfl] at this
  have e1 : ((127 : Nat) : Int) - 1 + f32.qmin = 0 - 23 := by rw [hq]; omega
  rw [e1] at this
  rw [this] at core
  have e2 : ¬ (127 ≥ f32.emax) := by decide
  rw [if_neg e2] at core
  rw [bytesBE_f32, bytesLE_f32]
  exact ⟨core, core⟩

/-- old rule: a binary64 subnormal was read as (2^52 + T) · 2^-1075 rounded to binary64 — about 2^-1023, not T · 2^-1074 -/
theorem f64_read_subnormal_old_rule (b : Nat) (hb : b < 2 ^ 64) (hE : f64.expo b = 0) (hT : f64.frac b ≠ 0) :
    f64BeReadOld (Spec.bytesBE f64 b) = f64.ofDy ⟨f64.sign b, 2 ^ 52 + f64.frac b, -1075⟩ ∧
    f64LeReadOld (Spec.bytesLE f64 b) = f64.ofDy ⟨f64.sign b, 2 ^ 52 + f64.frac b, -1075⟩ := by
  have core := f64ReadCoreOld_bytes b hb
  have h0 : ¬ (f64.expo b = 0 ∧ f64.frac b = 0) := fun h => hT h.2
  rw [if_neg h0, hE] at core
  rw [bytesBE_f64, bytesLE_f64]
  exact ⟨core, core⟩

/-- witnesses: under the old rule the smallest binary32 subnormal was read as 1 + 2^-23, the largest as 2 − 2^-23, the
    smallest binary64 subnormal as 2^-1023 (pattern 0x0008000000000000) -/
example : f32LeReadOld (Spec.bytesLE f32 1) = 0x3F800001 ∧ f32BeReadOld (Spec.bytesBE f32 0x007FFFFF) = 0x3FFFFFFF ∧
    f64LeReadOld (Spec.bytesLE f64 1) = 0x0008000000000000 ∧
    f32.expo 1 = 0 ∧ f32.frac 1 ≠ 0 ∧ f64.expo 1 = 0 := by decide +kernel

/-! ## writers (current rule: after the `fix:` commits "flushed every normal value below 1e-30 to zero" and
    "wrote subnormal numbers and -0.0 as +0.0": `signbit`, exponent field 0 encoded, no early return) -/

/-- `in < FLT_MIN` / `in < DBL_MIN` (the branch the repaired writers take for exponent field 0; the early return of the
    writers before that repair): exactly the zeros and the subnormals -/
theorem flushes_iff_not_normal (f : Fmt) (b : Nat) (hfin : f.isFinite b = true) :
    flushes f b = true ↔ f.expo b = 0 := by
  constructor
  · intro h
    by_contra he
    have hn : f.isNormal b = true := by
      have : f.expo b ≠ f.emax := by simpa [Fmt.isFinite] using hfin
      simp [Fmt.isNormal, this, he]
    rw [flushes_normal f b hn] at h; exact Bool.false_ne_true h
  · exact flushes_expo_zero f b hfin

/-- bytes produced for a normal value by a writer whose flush rule lets it through (either rule) -/
theorem f32WriteBytesWith_normal (fl : Nat → Bool) (b : Nat) (hb : b < 2 ^ 32) (hn : f32.isNormal b = true) (hk : fl b = false) :
    f32WriteBytesWith fl b = [b / 16777216 % 256, b / 65536 % 256, b / 256 % 256, b % 256] := by
  have hw := f32WriteFieldsWith_normal fl b hn hk
  obtain ⟨h1, h2, h3⟩ := f32_fields b
  have hsgn : (if f32.sign b = true then 1 else 0) = b / 2147483648 % 2 := by
    rw [h3]; by_cases hs : b / 2147483648 % 2 = 1 <;> simp [hs]; omega
  simp only [f32WriteBytesWith, f32FieldBytes, hw]
  rw [hsgn, h1, h2]
  simp only [List.cons.injEq, and_true]
  refine ⟨?_, ?_, ?_, ?_⟩ <;> (show ((_ : Nat) = _); omega)

theorem f64WriteBytesWith_normal (fl : Nat → Bool) (b : Nat) (hb : b < 2 ^ 64) (hn : f64.isNormal b = true) (hk : fl b = false) :
    f64WriteBytesWith fl b = [b / 72057594037927936 % 256, b / 281474976710656 % 256, b / 1099511627776 % 256,
      b / 4294967296 % 256, b / 16777216 % 256, b / 65536 % 256, b / 256 % 256, b % 256] := by
  have hw := f64WriteFieldsWith_normal fl b hn hk
  obtain ⟨h1, h2, h3⟩ := f64_fields b
  have hsgn : (if f64.sign b = true then 1 else 0) = b / 9223372036854775808 % 2 := by
    rw [h3]; by_cases hs : b / 9223372036854775808 % 2 = 1 <;> simp [hs]; omega
  simp only [f64WriteBytesWith, f64FieldBytes, hw]
  rw [hsgn, h1, h2]
  simp only [List.cons.injEq, and_true]
  clear hw hsgn h1 h2 h3 hk hn
  refine ⟨?_, ?_, ?_, ?_, ?_, ?_, ?_, ?_⟩ <;> (show ((_ : Nat) = _); omega)

/-- the bytes of the fields (sign, E, T) of a pattern are the pattern's own bytes, most significant first -/
theorem f32FieldBytes_fields (b : Nat) (hb : b < 2 ^ 32) :
    f32FieldBytes ((if f32.sign b then 1 else 0), f32.expo b, f32.frac b) =
      [b / 16777216 % 256, b / 65536 % 256, b / 256 % 256, b % 256] := by
  obtain ⟨h1, h2, h3⟩ := f32_fields b
  have hsgn : (if f32.sign b = true then 1 else 0) = b / 2147483648 % 2 := by
    rw [h3]; by_cases hs : b / 2147483648 % 2 = 1 <;> simp [hs]; omega
  simp only [f32FieldBytes]
  rw [hsgn, h1, h2]
  simp only [List.cons.injEq, and_true]
  refine ⟨?_, ?_, ?_, ?_⟩ <;> (show ((_ : Nat) = _); omega)

/-- binary64: (sign, E, upper integer with or without the hidden bit 2^28, lower 24 bits) -/
theorem f64FieldBytes_fields (b : Nat) (hb : b < 2 ^ 64) (hid : Nat) (hh : hid = 0 ∨ hid = 2 ^ 28) :
    f64FieldBytes ((if f64.sign b then 1 else 0), f64.expo b, hid + f64.frac b / 2 ^ 24, f64.frac b % 2 ^ 24) =
      [b / 72057594037927936 % 256, b / 281474976710656 % 256, b / 1099511627776 % 256,
       b / 4294967296 % 256, b / 16777216 % 256, b / 65536 % 256, b / 256 % 256, b % 256] := by
  obtain ⟨h1, h2, h3⟩ := f64_fields b
  have hsgn : (if f64.sign b = true then 1 else 0) = b / 9223372036854775808 % 2 := by
    rw [h3]; by_cases hs : b / 9223372036854775808 % 2 = 1 <;> simp [hs]; omega
  simp only [f64FieldBytes]
  rw [hsgn, h1, h2]
  simp only [List.cons.injEq, and_true]
  clear hsgn h1 h2 h3
  rcases hh with rfl | rfl <;> refine ⟨?_, ?_, ?_, ?_, ?_, ?_, ?_, ?_⟩ <;> (show ((_ : Nat) = _); omega)

/-- the repaired binary32 writers, at FULL strength: EVERY finite value — normal, subnormal, +0 and −0 — is serialised to
    its own bit string, in both byte orders (the C20 statement asks for the normal values; C01 through the portable path and
    C18's PEAK field need the rest) -/
theorem ieee_write_finite_f32 (b : Nat) (hb : b < 2 ^ 32) (hfin : f32.isFinite b = true) :
    f32BeWrite b = Spec.bytesBE f32 b ∧ f32LeWrite b = Spec.bytesLE f32 b := by
  have key : f32WriteBytes b = [b / 16777216 % 256, b / 65536 % 256, b / 256 % 256, b % 256] := by
    unfold f32WriteBytes
    by_cases he : f32.expo b = 0
    · rw [f32WriteFields_tiny b hfin he]
      have := f32FieldBytes_fields b hb
      rwa [he] at this
    · have hne : f32.expo b ≠ f32.emax := by simpa [Fmt.isFinite] using hfin
      have hn : f32.isNormal b = true := by simp [Fmt.isNormal, hne, he]
      rw [f32WriteFields_normal b hn]; exact f32FieldBytes_fields b hb
  constructor
  · rw [f32BeWrite, key, bytesBE_f32]
  · rw [f32LeWrite, key, bytesLE_f32]; rfl

/-- … and the repaired binary64 writers -/
theorem ieee_write_finite_f64 (b : Nat) (hb : b < 2 ^ 64) (hfin : f64.isFinite b = true) :
    f64BeWrite b = Spec.bytesBE f64 b ∧ f64LeWrite b = Spec.bytesLE f64 b := by
  have key : f64WriteBytes b = [b / 72057594037927936 % 256, b / 281474976710656 % 256, b / 1099511627776 % 256,
      b / 4294967296 % 256, b / 16777216 % 256, b / 65536 % 256, b / 256 % 256, b % 256] := by
    unfold f64WriteBytes
    by_cases he : f64.expo b = 0
    · rw [f64WriteFields_tiny b hfin he]
      have := f64FieldBytes_fields b hb 0 (Or.inl rfl)
      rwa [Nat.zero_add, he] at this
    · have hne : f64.expo b ≠ f64.emax := by simpa [Fmt.isFinite] using hfin
      have hn : f64.isNormal b = true := by simp [Fmt.isNormal, hne, he]
      rw [f64WriteFields_normal b hn]; exact f64FieldBytes_fields b hb (2 ^ 28) (Or.inr rfl)
  constructor
  · rw [f64BeWrite, key, bytesBE_f64]
  · rw [f64LeWrite, key, bytesLE_f64]; rfl

/-- the C20 statement for the binary32 writers: every finite normal value is serialised to its own bit string, in both
    byte orders -/
theorem ieee_write_native_f32 (b : Nat) (hb : b < 2 ^ 32) (hn : Spec.isNormal f32 b = true) :
    f32BeWrite b = Spec.bytesBE f32 b ∧ f32LeWrite b = Spec.bytesLE f32 b :=
  ieee_write_finite_f32 b hb (finite_of_spec_normal f32 f32_std b hn).2

/-- … and for the binary64 writers -/
theorem ieee_write_native_f64 (b : Nat) (hb : b < 2 ^ 64) (hn : Spec.isNormal f64 b = true) :
    f64BeWrite b = Spec.bytesBE f64 b ∧ f64LeWrite b = Spec.bytesLE f64 b :=
  ieee_write_finite_f64 b hb (finite_of_spec_normal f64 f64_std b hn).2

/-- non-vacuity: ordinary values, the smallest normal values, the old boundary, and now the exponent-field-0 class:
    the smallest and the largest subnormal, 2^-127, −0.0 -/
example : Spec.isNormal f32 0xC2F6E979 = true ∧ f32LeWrite 0xC2F6E979 = [0x79, 0xE9, 0xF6, 0xC2] ∧
    f32BeWrite 0x00800000 = [0x00, 0x80, 0, 0] ∧ f32BeWrite 0x0DA2425F = [0x0D, 0xA2, 0x42, 0x5F] ∧
    Spec.isNormal f64 0x0010000000000000 = true ∧ f64BeWrite 0x0010000000000000 = [0, 0x10, 0, 0, 0, 0, 0, 0] ∧
    f64BeWrite 0xC00921FB54442D18 = [0xC0, 0x09, 0x21, 0xFB, 0x54, 0x44, 0x2D, 0x18] ∧
    f32.isFinite 1 = true ∧ f32BeWrite 1 = [0, 0, 0, 1] ∧ f32BeWrite 0x007FFFFF = [0, 0x7F, 0xFF, 0xFF] ∧
    f32LeWrite 0x00400000 = [0, 0, 0x40, 0] ∧ f32BeWrite 0x80000000 = [0x80, 0, 0, 0] ∧ f32BeWrite 0 = [0, 0, 0, 0] ∧
    f64BeWrite 1 = [0, 0, 0, 0, 0, 0, 0, 1] ∧ f64LeWrite 0x8000000000000000 = [0, 0, 0, 0, 0, 0, 0, 0x80] ∧
    f64BeWrite 0x800FFFFFFFFFFFFF = [0x80, 0x0F, 0xFF, 0xFF, 0xFF, 0xFF, 0xFF, 0xFF] := by decide +kernel

/-! ### the writers before the repair of KF-C01-ieee-tiny / KF-C18-PEAK-SUBNORMAL (`if (fabs (in) < FLT_MIN) return ;` in
    front of `if (in < 0.0)`; `f32BeWriteTinyOld` &c.) -/

/-- old rule: zeros and subnormals were written as zero bytes (+0), whatever the value and its sign: the writers had no
    encoding for exponent field 0 -/
theorem ieee_write_tiny_old_rule (b : Nat) :
    (f32.isFinite b = true → f32.expo b = 0 → f32BeWriteTinyOld b = [0, 0, 0, 0] ∧ f32LeWriteTinyOld b = [0, 0, 0, 0]) ∧
    (f64.isFinite b = true → f64.expo b = 0 →
      f64BeWriteTinyOld b = [0, 0, 0, 0, 0, 0, 0, 0] ∧ f64LeWriteTinyOld b = [0, 0, 0, 0, 0, 0, 0, 0]) := by
  constructor
  · intro hfin he
    have h := flushes_expo_zero f32 b hfin he
    have hw : f32WriteFieldsWith (flushes f32) b = none := by
      unfold f32WriteFieldsWith; simp only [hfin, Bool.not_true, Bool.false_eq_true, if_false, h, if_true]
    simp [f32BeWriteTinyOld, f32LeWriteTinyOld, f32WriteBytesWith, hw]
  · intro hfin he
    have h := flushes_expo_zero f64 b hfin he
    have hw : f64WriteFieldsWith (flushes f64) b = none := by
      unfold f64WriteFieldsWith; simp only [hfin, Bool.not_true, Bool.false_eq_true, if_false, h, if_true]
    simp [f64BeWriteTinyOld, f64LeWriteTinyOld, f64WriteBytesWith, hw]

/-- old rule: on the normal values (all the C20 statement asks for) those writers were already exact -/
theorem ieee_write_native_tiny_old_rule :
    (∀ b, b < 2 ^ 32 → Spec.isNormal f32 b = true →
      f32BeWriteTinyOld b = Spec.bytesBE f32 b ∧ f32LeWriteTinyOld b = Spec.bytesLE f32 b) ∧
    (∀ b, b < 2 ^ 64 → Spec.isNormal f64 b = true →
      f64BeWriteTinyOld b = Spec.bytesBE f64 b ∧ f64LeWriteTinyOld b = Spec.bytesLE f64 b) := by
  constructor
  · intro b hb hn
    have hn2 := (finite_of_spec_normal f32 f32_std b hn).1
    have key := f32WriteBytesWith_normal (flushes f32) b hb hn2 (flushes_normal f32 b hn2)
    constructor
    · rw [f32BeWriteTinyOld, key, bytesBE_f32]
    · rw [f32LeWriteTinyOld, key, bytesLE_f32]; rfl
  · intro b hb hn
    have hn2 := (finite_of_spec_normal f64 f64_std b hn).1
    have key := f64WriteBytesWith_normal (flushes f64) b hb hn2 (flushes_normal f64 b hn2)
    constructor
    · rw [f64BeWriteTinyOld, key, bytesBE_f64]
    · rw [f64LeWriteTinyOld, key, bytesLE_f64]; rfl

/-- the full-strength writer statement for the old writers … -/
def ieee_write_finite_tiny_old_rule_full : Prop :=
  (∀ b, b < 2 ^ 32 → f32.isFinite b = true → f32BeWriteTinyOld b = Spec.bytesBE f32 b) ∧
  (∀ b, b < 2 ^ 64 → f64.isFinite b = true → f64BeWriteTinyOld b = Spec.bytesBE f64 b)

/-- … was false: 2^-127 (pattern 0x00400000) and −0.0 were written as four zero bytes, the smallest double subnormal and
    the double −0.0 as eight -/
theorem ieee_write_finite_tiny_old_rule_fails : ¬ ieee_write_finite_tiny_old_rule_full ∧
    f32BeWriteTinyOld 0x00400000 = [0, 0, 0, 0] ∧ f32BeWriteTinyOld 0x80000000 = [0, 0, 0, 0] ∧
    f64BeWriteTinyOld 1 = [0, 0, 0, 0, 0, 0, 0, 0] ∧ f64BeWriteTinyOld 0x8000000000000000 = [0, 0, 0, 0, 0, 0, 0, 0] := by
  refine ⟨?_, by decide +kernel, by decide +kernel, by decide +kernel, by decide +kernel⟩
  intro h
  have := h.1 0x00400000 (by decide) (by decide)
  revert this
  decide +kernel

/-! ### the writers before the repair (`fabs (in) < 1e-30`, `f32BeWriteOld` &c.) -/

/-- the property for the old writers … -/
def ieee_write_f32_old_rule_full : Prop :=
  ∀ b, b < 2 ^ 32 → Spec.isNormal f32 b = true → f32BeWriteOld b = Spec.bytesBE f32 b ∧ f32LeWriteOld b = Spec.bytesLE f32 b
def ieee_write_f64_old_rule_full : Prop :=
  ∀ b, b < 2 ^ 64 → Spec.isNormal f64 b = true → f64BeWriteOld b = Spec.bytesBE f64 b ∧ f64LeWriteOld b = Spec.bytesLE f64 b

/-- … was false: the smallest normal binary32 value 2^-126 was written as four zero bytes -/
theorem ieee_write_f32_old_rule_fails : ¬ ieee_write_f32_old_rule_full := by
  intro h
  have := (h 0x00800000 (by decide) (by decide)).1
  revert this
  decide +kernel

/-- … and 2^-1022 (and every normal double below 1e-30, some 922 binades) as eight zero bytes -/
theorem ieee_write_f64_old_rule_fails : ¬ ieee_write_f64_old_rule_full := by
  intro h
  have := (h 0x0010000000000000 (by decide) (by decide)).1
  revert this
  decide +kernel

/-- the class of the repaired defect KF-C20-ieee-flush -/
def KF.ieeeFlush (f : Fmt) (b : Nat) : Bool := flushesOld f b

/-- the old class in bit terms: a finite binary32 value was flushed iff its magnitude pattern is below 0x0DA24260 -/
theorem flushes_old_rule_iff_f32 (b : Nat) (hfin : f32.isFinite b = true) :
    KF.ieeeFlush f32 b = true ↔ b % 2 ^ 31 < 0x0DA24260 := by
  have hlo : (f32.toDy 0x0DA2425F).mag < flushBoundOld.val := by
    have : (f32.toDy 0x0DA2425F).abs.lt flushBoundOld = true := by decide +kernel
    rwa [Dy.lt_iff, abs_val] at this
  have hhi : ¬ (f32.toDy 0x0DA24260).mag < flushBoundOld.val := by
    have : (f32.toDy 0x0DA24260).abs.lt flushBoundOld = false := by decide +kernel
    intro h; rw [← abs_val, ← Dy.lt_iff, this] at h; exact Bool.false_ne_true h
  obtain ⟨h1, h2, _⟩ := f32_fields b
  have e1 : f32.expo 0x0DA2425F = 27 ∧ f32.frac 0x0DA2425F = 0x22425F := by decide
  have e2 : f32.expo 0x0DA24260 = 27 ∧ f32.frac 0x0DA24260 = 0x224260 := by decide
  unfold KF.ieeeFlush flushesOld
  rw [hfin, Bool.true_and, Dy.lt_iff, abs_val]
  constructor
  · intro h
    by_contra hc
    have := toDy_mag_mono f32 0x0DA24260 b (by rw [e2.1, e2.2, h1, h2]; omega)
    exact hhi (lt_of_le_of_lt this h)
  · intro h
    have := toDy_mag_mono f32 b 0x0DA2425F (by rw [e1.1, e1.2, h1, h2]; omega)
    exact lt_of_le_of_lt this hlo

/-- … and a finite binary64 value iff its magnitude pattern is below that of 1e-30 itself -/
theorem flushes_old_rule_iff_f64 (b : Nat) (hfin : f64.isFinite b = true) :
    KF.ieeeFlush f64 b = true ↔ b % 2 ^ 63 < 0x39B4484BFEEBC2A0 := by
  have hlo : (f64.toDy 0x39B4484BFEEBC29F).mag < flushBoundOld.val := by
    have : (f64.toDy 0x39B4484BFEEBC29F).abs.lt flushBoundOld = true := by decide +kernel
    rwa [Dy.lt_iff, abs_val] at this
  have hhi : ¬ (f64.toDy 0x39B4484BFEEBC2A0).mag < flushBoundOld.val := by
    have : (f64.toDy 0x39B4484BFEEBC2A0).abs.lt flushBoundOld = false := by decide +kernel
    intro h; rw [← abs_val, ← Dy.lt_iff, this] at h; exact Bool.false_ne_true h
  obtain ⟨h1, h2, _⟩ := f64_fields b
  have e1 : f64.expo 0x39B4484BFEEBC29F = 923 ∧ f64.frac 0x39B4484BFEEBC29F = 0x4484BFEEBC29F := by decide
  have e2 : f64.expo 0x39B4484BFEEBC2A0 = 923 ∧ f64.frac 0x39B4484BFEEBC2A0 = 0x4484BFEEBC2A0 := by decide
  unfold KF.ieeeFlush flushesOld
  rw [hfin, Bool.true_and, Dy.lt_iff, abs_val]
  constructor
  · intro h
    by_contra hc
    have := toDy_mag_mono f64 0x39B4484BFEEBC2A0 b (by rw [e2.1, e2.2, h1, h2]; omega)
    exact hhi (lt_of_le_of_lt this h)
  · intro h
    have := toDy_mag_mono f64 b 0x39B4484BFEEBC29F (by rw [e1.1, e1.2, h1, h2]; omega)
    exact lt_of_le_of_lt this hlo

/-- the old boundary witnesses: 0x0DA2425F was the largest flushed binary32 magnitude, 0x0DA24260 the first written -/
theorem ieee_flush_boundary_old_rule :
    KF.ieeeFlush f32 0x0DA2425F = true ∧ KF.ieeeFlush f32 0x0DA24260 = false ∧ KF.ieeeFlush f32 0x8DA2425F = true ∧
    KF.ieeeFlush f64 0x39B4484BFEEBC29F = true ∧ KF.ieeeFlush f64 0x39B4484BFEEBC2A0 = false ∧
    f32BeWriteOld 0x0DA2425F = [0, 0, 0, 0] ∧ f32BeWriteOld 0x0DA24260 = [0x0D, 0xA2, 0x42, 0x60] ∧
    f32BeWrite 0x0DA2425F = [0x0D, 0xA2, 0x42, 0x5F] := by decide +kernel

/-- outside the old class the old writers produced the native bit string (what round 2 proved as `…_partial`) -/
theorem ieee_write_old_rule_partial :
    (∀ b, b < 2 ^ 32 → Spec.isNormal f32 b = true → KF.ieeeFlush f32 b = false →
      f32BeWriteOld b = Spec.bytesBE f32 b ∧ f32LeWriteOld b = Spec.bytesLE f32 b) ∧
    (∀ b, b < 2 ^ 64 → Spec.isNormal f64 b = true → KF.ieeeFlush f64 b = false →
      f64BeWriteOld b = Spec.bytesBE f64 b ∧ f64LeWriteOld b = Spec.bytesLE f64 b) := by
  constructor
  · intro b hb hn hk
    have key := f32WriteBytesWith_normal (flushesOld f32) b hb (finite_of_spec_normal f32 f32_std b hn).1 hk
    constructor
    · rw [f32BeWriteOld, key, bytesBE_f32]
    · rw [f32LeWriteOld, key, bytesLE_f32]; rfl
  · intro b hb hn hk
    have key := f64WriteBytesWith_normal (flushesOld f64) b hb (finite_of_spec_normal f64 f64_std b hn).1 hk
    constructor
    · rw [f64BeWriteOld, key, bytesBE_f64]
    · rw [f64LeWriteOld, key, bytesLE_f64]; rfl

/-! ## write then read (also the C01 statement for the portable path: SFC_TEST_IEEE_FLOAT_REPLACE on) -/

/-- every FINITE value survives write-then-read bit for bit, in both byte orders -/
theorem write_read_finite_f32 (b : Nat) (hb : b < 2 ^ 32) (hfin : f32.isFinite b = true) :
    f32BeRead (f32BeWrite b) = b ∧ f32LeRead (f32LeWrite b) = b := by
  obtain ⟨w1, w2⟩ := ieee_write_finite_f32 b hb hfin
  obtain ⟨r1, r2⟩ := ieee_read_finite_f32 b hb hfin
  rw [w1, w2]; exact ⟨r1, r2⟩

theorem write_read_finite_f64 (b : Nat) (hb : b < 2 ^ 64) (hfin : f64.isFinite b = true) :
    f64BeRead (f64BeWrite b) = b ∧ f64LeRead (f64LeWrite b) = b := by
  obtain ⟨w1, w2⟩ := ieee_write_finite_f64 b hb hfin
  obtain ⟨r1, r2⟩ := ieee_read_finite_f64 b hb hfin
  rw [w1, w2]; exact ⟨r1, r2⟩

/-- every finite normal value survives write-then-read bit for bit, in both byte orders -/
theorem write_read_roundtrip_f32 (b : Nat) (hb : b < 2 ^ 32) (hn : Spec.isNormal f32 b = true) :
    f32BeRead (f32BeWrite b) = b ∧ f32LeRead (f32LeWrite b) = b :=
  write_read_finite_f32 b hb (finite_of_spec_normal f32 f32_std b hn).2

theorem write_read_roundtrip_f64 (b : Nat) (hb : b < 2 ^ 64) (hn : Spec.isNormal f64 b = true) :
    f64BeRead (f64BeWrite b) = b ∧ f64LeRead (f64LeWrite b) = b :=
  write_read_finite_f64 b hb (finite_of_spec_normal f64 f64_std b hn).2

/-- C01 over ALL finite values through the portable path, as stated -/
def replace_roundtrip_f32_full : Prop := ∀ b, b < 2 ^ 32 → f32.isFinite b = true → f32LeRead (f32LeWrite b) = b
def replace_roundtrip_f64_full : Prop := ∀ b, b < 2 ^ 64 → f64.isFinite b = true → f64LeRead (f64LeWrite b) = b

/-- … holds at full strength since the repair of the writers (KF-C01-ieee-tiny) -/
theorem replace_roundtrip : replace_roundtrip_f32_full ∧ replace_roundtrip_f64_full :=
  ⟨fun b hb hfin => (write_read_finite_f32 b hb hfin).2, fun b hb hfin => (write_read_finite_f64 b hb hfin).2⟩

/-- non-vacuity: the hypotheses are met by the former class — subnormals and −0.0 — and by ordinary values -/
example : f32.isFinite 0x80000000 = true ∧ f32LeRead (f32LeWrite 0x80000000) = 0x80000000 ∧
    f32LeRead (f32LeWrite 0x007FFFFF) = 0x007FFFFF ∧ f32LeRead (f32LeWrite 1) = 1 ∧
    f32LeRead (f32LeWrite 0x3DCCCCCD) = 0x3DCCCCCD ∧ f32LeRead (f32LeWrite 0x00800000) = 0x00800000 ∧
    f64.isFinite 1 = true ∧ f64LeRead (f64LeWrite 1) = 1 ∧
    f64LeRead (f64LeWrite 0x8000000000000000) = 0x8000000000000000 := by decide +kernel

/-! ### the round trip before the repair (`f32LeWriteTinyOld`, `f64LeWriteTinyOld`) -/

def replace_roundtrip_f32_old_rule_full : Prop :=
  ∀ b, b < 2 ^ 32 → f32.isFinite b = true → f32LeRead (f32LeWriteTinyOld b) = b
def replace_roundtrip_f64_old_rule_full : Prop :=
  ∀ b, b < 2 ^ 64 → f64.isFinite b = true → f64LeRead (f64LeWriteTinyOld b) = b

/-- the class of the repaired defect KF-C01-ieee-tiny: a subnormal or −0 (exponent field 0, pattern not +0) -/
def KF.ieeeTiny (f : Fmt) (b : Nat) : Bool := f.expo b == 0 && b != 0

/-- old rule: the statement was false — −0.0 and the smallest double subnormal came back as +0 -/
theorem replace_roundtrip_old_rule_fails : ¬ replace_roundtrip_f32_old_rule_full ∧ ¬ replace_roundtrip_f64_old_rule_full := by
  constructor
  · intro h
    have := h 0x80000000 (by decide) (by decide)
    revert this; decide +kernel
  · intro h
    have := h 1 (by decide) (by decide)
    revert this; decide +kernel

/-- old rule: outside the class — every normal value and +0 — the round trip was exact; inside it the result was +0 -/
theorem replace_roundtrip_old_rule_partial :
    (∀ b, b < 2 ^ 32 → f32.isFinite b = true →
      (KF.ieeeTiny f32 b = false → f32LeRead (f32LeWriteTinyOld b) = b) ∧
      (KF.ieeeTiny f32 b = true → f32LeRead (f32LeWriteTinyOld b) = 0)) ∧
    (∀ b, b < 2 ^ 64 → f64.isFinite b = true →
      (KF.ieeeTiny f64 b = false → f64LeRead (f64LeWriteTinyOld b) = b) ∧
      (KF.ieeeTiny f64 b = true → f64LeRead (f64LeWriteTinyOld b) = 0)) := by
  constructor
  · intro b hb hfin
    by_cases he : f32.expo b = 0
    · have hw := ((ieee_write_tiny_old_rule b).1 hfin he).2
      have hz : f32LeRead [0, 0, 0, 0] = 0 := by decide
      constructor
      · intro hk
        have : b = 0 := by simpa [KF.ieeeTiny, he] using hk
        rw [hw, hz, this]
      · intro _; rw [hw, hz]
    · have hne : f32.expo b ≠ f32.emax := by simpa [Fmt.isFinite] using hfin
      have hn : Spec.isNormal f32 b = true := by rw [spec_isNormal_iff f32 f32_std]; simp [Fmt.isNormal, hne, he]
      constructor
      · intro _
        rw [(ieee_write_native_tiny_old_rule.1 b hb hn).2]
        exact (ieee_read_native_f32 b hb hn).2
      · intro hk; simp [KF.ieeeTiny, he] at hk
  · intro b hb hfin
    by_cases he : f64.expo b = 0
    · have hw := ((ieee_write_tiny_old_rule b).2 hfin he).2
      have hz : f64LeRead [0, 0, 0, 0, 0, 0, 0, 0] = 0 := by decide
      constructor
      · intro hk
        have : b = 0 := by simpa [KF.ieeeTiny, he] using hk
        rw [hw, hz, this]
      · intro _; rw [hw, hz]
    · have hne : f64.expo b ≠ f64.emax := by simpa [Fmt.isFinite] using hfin
      have hn : Spec.isNormal f64 b = true := by rw [spec_isNormal_iff f64 f64_std]; simp [Fmt.isNormal, hne, he]
      constructor
      · intro _
        rw [(ieee_write_native_tiny_old_rule.2 b hb hn).2]
        exact (ieee_read_native_f64 b hb hn).2
      · intro hk; simp [KF.ieeeTiny, he] at hk

/-- witnesses of the old rule: 2^-127, the largest subnormal and −0.0 came back as +0 -/
example : KF.ieeeTiny f32 0x80000000 = true ∧ KF.ieeeTiny f32 0 = false ∧ KF.ieeeTiny f32 0x3DCCCCCD = false ∧
    KF.ieeeTiny f32 0x00400000 = true ∧ f32LeRead (f32LeWriteTinyOld 0x00400000) = 0 ∧
    f32LeRead (f32LeWriteTinyOld 0x007FFFFF) = 0 ∧ f32LeRead (f32LeWriteTinyOld 0x80000000) = 0 ∧
    f32LeRead (f32LeWriteTinyOld 0x3DCCCCCD) = 0x3DCCCCCD := by decide +kernel

/-! ## byte-order helpers -/

theorem endswap16_bytes (b0 b1 : Nat) (h0 : b0 < 256) (h1 : b1 < 256) :
    endswap16 (b1 * 256 + b0) = b0 * 256 + b1 := by unfold endswap16; omega
theorem endswap32_bytes (b0 b1 b2 b3 : Nat) (h0 : b0 < 256) (h1 : b1 < 256) (h2 : b2 < 256) (h3 : b3 < 256) :
    endswap32 (b3 * 16777216 + b2 * 65536 + b1 * 256 + b0) = b0 * 16777216 + b1 * 65536 + b2 * 256 + b3 := by
  unfold endswap32; omega
theorem endswap16_involutive (x : Nat) (h : x < 2 ^ 16) : endswap16 (endswap16 x) = x := by
  have hx : x = (x / 256) * 256 + x % 256 := by omega
  have h1 : x / 256 < 256 := by omega
  have h0 : x % 256 < 256 := by omega
  generalize x / 256 = b1 at *
  generalize x % 256 = b0 at *
  subst hx
  rw [endswap16_bytes b0 b1 h0 h1, endswap16_bytes b1 b0 h1 h0]
theorem endswap32_involutive (x : Nat) (h : x < 2 ^ 32) : endswap32 (endswap32 x) = x := by
  have hx : x = (x / 16777216) * 16777216 + (x / 65536 % 256) * 65536 + (x / 256 % 256) * 256 + x % 256 := by omega
  have h3 : x / 16777216 < 256 := by omega
  have h2 : x / 65536 % 256 < 256 := by omega
  have h1 : x / 256 % 256 < 256 := by omega
  have h0 : x % 256 < 256 := by omega
  generalize x / 16777216 = b3 at *
  generalize x / 65536 % 256 = b2 at *
  generalize x / 256 % 256 = b1 at *
  generalize x % 256 = b0 at *
  subst hx
  rw [endswap32_bytes b0 b1 b2 b3 h0 h1 h2 h3, endswap32_bytes b3 b2 b1 b0 h3 h2 h1 h0]
theorem endswap32_lt (x : Nat) : endswap32 x < 2 ^ 32 := by unfold endswap32; omega
theorem endswap64_involutive (x : Nat) (h : x < 2 ^ 64) : endswap64 (endswap64 x) = x := by
  unfold endswap64
  have a := endswap32_lt (x / 4294967296 % 4294967296)
  have b := endswap32_lt (x % 4294967296)
  have i1 := endswap32_involutive (x / 4294967296 % 4294967296) (by omega)
  have i2 := endswap32_involutive (x % 4294967296) (by omega)
  have e1 : (endswap32 (x / 4294967296 % 4294967296) + endswap32 (x % 4294967296) * 4294967296) / 4294967296 % 4294967296
      = endswap32 (x % 4294967296) := by omega
  have e2 : (endswap32 (x / 4294967296 % 4294967296) + endswap32 (x % 4294967296) * 4294967296) % 4294967296
      = endswap32 (x / 4294967296 % 4294967296) := by omega
  rw [e1, e2, i1, i2]; omega

/-- `ENDSWAP_16/32/64` as functions on bit vectors are exact involutions, for every bit pattern -/
theorem endswap_involutive :
    (∀ x : BitVec 16, bswap16 (bswap16 x) = x) ∧ (∀ x : BitVec 32, bswap32 (bswap32 x) = x) ∧
    (∀ x : BitVec 64, bswap64 (bswap64 x) = x) := by
  refine ⟨fun x => ?_, fun x => ?_, fun x => ?_⟩
  · apply BitVec.eq_of_toNat_eq
    have hx := x.isLt
    have hl : endswap16 x.toNat < 2 ^ 16 := by unfold endswap16; omega
    simp only [bswap16, BitVec.toNat_ofNat, Nat.mod_eq_of_lt hl]
    rw [endswap16_involutive _ hx, Nat.mod_eq_of_lt hx]
  · apply BitVec.eq_of_toNat_eq
    have hx := x.isLt
    have hl := endswap32_lt x.toNat
    simp only [bswap32, BitVec.toNat_ofNat, Nat.mod_eq_of_lt hl]
    rw [endswap32_involutive _ hx, Nat.mod_eq_of_lt hx]
  · apply BitVec.eq_of_toNat_eq
    have hx := x.isLt
    have hl : endswap64 x.toNat < 2 ^ 64 := by
      unfold endswap64
      have a := endswap32_lt (x.toNat / 4294967296 % 4294967296)
      have b := endswap32_lt (x.toNat % 4294967296)
      omega
    simp only [bswap64, BitVec.toNat_ofNat, Nat.mod_eq_of_lt hl]
    rw [endswap64_involutive _ hx, Nat.mod_eq_of_lt hx]

/-- a swap is the reversal of the byte string: the bytes of `x` in little-endian order, read as a big-endian number,
    are `ENDSWAP (x)` -/
theorem endswap_reverses_bytes (x : Nat) :
    ofBE (leBytes 2 x) = endswap16 x ∧ ofBE (leBytes 4 x) = endswap32 x := by
  constructor
  · simp only [ofBE, leBytes, List.reverse_cons, List.reverse_nil, List.nil_append, List.cons_append, ofLE, endswap16,
      Nat.div_div_eq_div_mul]
    omega
  · simp only [ofBE, leBytes, List.reverse_cons, List.reverse_nil, List.nil_append, List.cons_append, ofLE, endswap32,
      Nat.div_div_eq_div_mul, Nat.reduceMul]
    omega

/-- non-vacuity: the swaps are not the identity -/
example : endswap16 0x1234 = 0x3412 ∧ endswap32 0x12345678 = 0x78563412 ∧
    endswap64 0x0102030405060708 = 0x0807060504030201 ∧ bswap32 0x12345678#32 = 0x78563412#32 := by decide

/-! ### `psf_put_be*` / `psf_get_*` -/

theorem byteAt_eq (v : Int) : byteAt v 0 = (v % 256).toNat ∧ byteAt v 8 = (v / 256 % 256).toNat ∧
    byteAt v 16 = (v / 65536 % 256).toNat ∧ byteAt v 24 = (v / 16777216 % 256).toNat := by
  simp [byteAt, wrapU, asr]
theorem wrapS32_eq (x : Int) : wrapS 32 x = if x % 4294967296 < 2147483648 then x % 4294967296 else x % 4294967296 - 4294967296 := by
  simp [wrapS]
theorem wrapS16_eq (x : Int) : wrapS 16 x = if x % 65536 < 32768 then x % 65536 else x % 65536 - 65536 := by
  simp [wrapS]

/-- put then get is the identity on the whole value range of the integer type -/
theorem get_put_roundtrip (v : Int) :
    (-32768 ≤ v → v ≤ 32767 → getBe16 (putBe16 v) = v) ∧
    (-2147483648 ≤ v → v ≤ 2147483647 → getBe32 (putBe32 v) = v) := by
  obtain ⟨e0, e8, e16, e24⟩ := byteAt_eq v
  refine ⟨fun h1 h2 => ?_, fun h1 h2 => ?_⟩
  · simp only [putBe16, getBe16, e0, e8, wrapS16_eq]
    split <;> split <;> omega
  · simp only [putBe32, getBe32, e0, e8, e16, e24, wrapS32_eq]
    split <;> omega

/-- the little-endian and 24-bit readers are the big-endian 32-bit reader on the reversed / zero-extended string -/
theorem get_le_is_get_be_reversed (a b c d : Nat) :
    getLe32 [a, b, c, d] = getBe32 [d, c, b, a] ∧ getBe24 [a, b, c] = getBe32 [a, b, c, 0] ∧
    getLe24 [a, b, c] = getBe32 [c, b, a, 0] ∧
    getLe64 [a, b, c, d, a, b, c, d] = getBe64 [d, c, b, a, d, c, b, a] := by
  refine ⟨rfl, ?_, ?_, rfl⟩
  · simp only [getBe24, getBe32]; norm_num
  · simp only [getLe24, getBe32]; norm_num

/-- non-vacuity -/
example : putBe32 (-2) = [0xFF, 0xFF, 0xFF, 0xFE] ∧ getBe32 [0xFF, 0xFF, 0xFF, 0xFE] = -2 ∧ getLe32 [1, 2, 3, 4] = 0x04030201 ∧
    getBe16 [0x80, 0x01] = -32767 ∧ getBe24 [0x80, 0, 1] = -2147483392 ∧ getLe64 [1, 0, 0, 0, 0, 0, 0, 0x80] = -9223372036854775807 ∧
    putBe64 (-9223372036854775807) = [0x80, 0, 0, 0, 0, 0, 0, 1] := by decide

/-! ### BitVec-level swaps -/

/-- 64-bit swap = byte-string reversal -/
theorem endswap64_reverses_bytes (x : Nat) (hx : x < 2 ^ 64) : ofBE (leBytes 8 x) = endswap64 x := by
  have hhi : x / 4294967296 % 4294967296 = x / 4294967296 := Nat.mod_eq_of_lt (by omega)
  have h1 := (endswap_reverses_bytes (x / 4294967296)).2
  have h2 := (endswap_reverses_bytes (x % 4294967296)).2
  unfold endswap64
  rw [hhi, ← h1, ← h2]
  simp only [ofBE, leBytes, List.reverse_cons, List.reverse_nil, List.nil_append, List.cons_append, ofLE,
    Nat.div_div_eq_div_mul, Nat.reduceMul]
  have a1 : x % 4294967296 / 256 % 256 = x / 256 % 256 := by omega
  have a2 : x % 4294967296 / 65536 % 256 = x / 65536 % 256 := by omega
  have a3 : x % 4294967296 / 16777216 % 256 = x / 16777216 % 256 := by omega
  have a0 : x % 4294967296 % 256 = x % 256 := by omega
  rw [a0, a1, a2, a3]
  generalize x % 256 = b0
  generalize x / 256 % 256 = b1
  generalize x / 65536 % 256 = b2
  generalize x / 16777216 % 256 = b3
  generalize x / 4294967296 % 256 = b4
  generalize x / 1099511627776 % 256 = b5
  generalize x / 281474976710656 % 256 = b6
  generalize x / 72057594037927936 % 256 = b7
  omega

theorem or_shift_add (a b : Nat) (hb : b < 256) : a <<< 8 ||| b = a * 256 + b := by
  rw [← Nat.shiftLeft_add_eq_or_of_lt (by simpa using hb), Nat.shiftLeft_eq]

theorem bvswap16_eq (x : BitVec 16) : bvswap16 x = bswap16 x := by
  apply BitVec.eq_of_toNat_eq
  have hx := x.isLt
  have hl : endswap16 x.toNat < 2 ^ 16 := by unfold endswap16; omega
  simp only [bvswap16, bswap16, BitVec.toNat_append, BitVec.extractLsb'_toNat, BitVec.toNat_ofNat, Nat.mod_eq_of_lt hl]
  rw [or_shift_add _ _ (Nat.mod_lt _ (by norm_num))]
  simp only [Nat.shiftRight_eq_div_pow, endswap16]
  omega

theorem bvswap32_eq (x : BitVec 32) : bvswap32 x = bswap32 x := by
  apply BitVec.eq_of_toNat_eq
  have hx := x.isLt
  simp only [bvswap32, bswap32, BitVec.toNat_append, BitVec.extractLsb'_toNat, BitVec.toNat_ofNat, Nat.mod_eq_of_lt (endswap32_lt _)]
  rw [or_shift_add _ _ (Nat.mod_lt _ (by norm_num)), or_shift_add _ _ (Nat.mod_lt _ (by norm_num)), or_shift_add _ _ (Nat.mod_lt _ (by norm_num))]
  simp only [Nat.shiftRight_eq_div_pow, endswap32, Nat.reducePow, Nat.div_one]
  omega
theorem endswap64_lt (x : Nat) : endswap64 x < 2 ^ 64 := by
  unfold endswap64
  have a := endswap32_lt (x / 4294967296 % 4294967296)
  have b := endswap32_lt (x % 4294967296)
  omega

theorem bvswap64_eq (x : BitVec 64) : bvswap64 x = bswap64 x := by
  apply BitVec.eq_of_toNat_eq
  have hx := x.isLt
  simp only [bvswap64, bswap64, BitVec.toNat_append, BitVec.extractLsb'_toNat, BitVec.toNat_ofNat, Nat.mod_eq_of_lt (endswap64_lt _)]
  rw [or_shift_add _ _ (Nat.mod_lt _ (by norm_num)), or_shift_add _ _ (Nat.mod_lt _ (by norm_num)), or_shift_add _ _ (Nat.mod_lt _ (by norm_num)),
    or_shift_add _ _ (Nat.mod_lt _ (by norm_num)), or_shift_add _ _ (Nat.mod_lt _ (by norm_num)), or_shift_add _ _ (Nat.mod_lt _ (by norm_num)),
    or_shift_add _ _ (Nat.mod_lt _ (by norm_num))]
  simp only [Nat.shiftRight_eq_div_pow, Nat.reducePow, Nat.div_one]
  generalize x.toNat = n at *
  have h := endswap64_reverses_bytes n hx
  rw [← h]
  simp only [ofBE, leBytes, List.reverse_cons, List.reverse_nil, List.nil_append, List.cons_append, ofLE,
    Nat.div_div_eq_div_mul, Nat.reduceMul]
  omega

/-- the BitVec-level swaps (`bvswap*`: the byte fields re-assembled in reverse order with `extractLsb'` / `++`) are exact
    involutions on every bit pattern -/
theorem bvswap_involutive :
    (∀ x : BitVec 16, bvswap16 (bvswap16 x) = x) ∧ (∀ x : BitVec 32, bvswap32 (bvswap32 x) = x) ∧
    (∀ x : BitVec 64, bvswap64 (bvswap64 x) = x) := by
  obtain ⟨i16, i32, i64⟩ := endswap_involutive
  refine ⟨fun x => ?_, fun x => ?_, fun x => ?_⟩
  · rw [bvswap16_eq, bvswap16_eq]; exact i16 x
  · rw [bvswap32_eq, bvswap32_eq]; exact i32 x
  · rw [bvswap64_eq, bvswap64_eq]; exact i64 x

example : bvswap16 0x1234#16 = 0x3412#16 ∧ bvswap32 0x12345678#32 = 0x78563412#32 ∧
    bvswap64 0x0102030405060708#64 = 0x0807060504030201#64 := by decide

/-! ### put after get, 64-bit round trips -/

theorem byteAt_eq64 (v : Int) : byteAt v 32 = (v / 4294967296 % 256).toNat ∧ byteAt v 40 = (v / 1099511627776 % 256).toNat ∧
    byteAt v 48 = (v / 281474976710656 % 256).toNat ∧ byteAt v 56 = (v / 72057594037927936 % 256).toNat := by
  simp [byteAt, wrapU, asr]
theorem wrapS64_eq (x : Int) : wrapS 64 x = if x % 18446744073709551616 < 9223372036854775808 then x % 18446744073709551616
    else x % 18446744073709551616 - 18446744073709551616 := by
  simp [wrapS]

/-- the eight bytes `psf_put_be64` stores are the base-256 digits of the unsigned residue -/
theorem byteAt_digits64 (v : Int) (w : Nat) (hw : (w : Int) = v % 18446744073709551616) :
    byteAt v 0 = w % 256 ∧ byteAt v 8 = w / 256 % 256 ∧ byteAt v 16 = w / 65536 % 256 ∧ byteAt v 24 = w / 16777216 % 256 ∧
    byteAt v 32 = w / 4294967296 % 256 ∧ byteAt v 40 = w / 1099511627776 % 256 ∧
    byteAt v 48 = w / 281474976710656 % 256 ∧ byteAt v 56 = w / 72057594037927936 % 256 := by
  obtain ⟨e0, e8, e16, e24⟩ := byteAt_eq v
  obtain ⟨e32, e40, e48, e56⟩ := byteAt_eq64 v
  rw [e0, e8, e16, e24, e32, e40, e48, e56]
  refine ⟨?_, ?_, ?_, ?_, ?_, ?_, ?_, ?_⟩ <;> (show ((_ : Nat) = _); omega)

theorem digits64_sum (w : Nat) (hw : w < 2 ^ 64) :
    ((w / 72057594037927936 % 256 % 256) * 16777216 + (w / 281474976710656 % 256 % 256) * 65536 + (w / 1099511627776 % 256 % 256) * 256
        + w / 4294967296 % 256 % 256) * 4294967296
      + ((w / 16777216 % 256 % 256) * 16777216 + (w / 65536 % 256 % 256) * 65536 + (w / 256 % 256 % 256) * 256 + w % 256 % 256) = w := by
  have d1 : w / 65536 = w / 256 / 256 := by rw [Nat.div_div_eq_div_mul]
  have d2 : w / 16777216 = w / 256 / 256 / 256 := by rw [Nat.div_div_eq_div_mul, Nat.div_div_eq_div_mul]
  have d3 : w / 4294967296 = w / 256 / 256 / 256 / 256 := by simp [Nat.div_div_eq_div_mul]
  have d4 : w / 1099511627776 = w / 256 / 256 / 256 / 256 / 256 := by simp [Nat.div_div_eq_div_mul]
  have d5 : w / 281474976710656 = w / 256 / 256 / 256 / 256 / 256 / 256 := by simp [Nat.div_div_eq_div_mul]
  have d6 : w / 72057594037927936 = w / 256 / 256 / 256 / 256 / 256 / 256 / 256 := by simp [Nat.div_div_eq_div_mul]
  rw [d1, d2, d3, d4, d5, d6]
  have h7 : w / 256 / 256 / 256 / 256 / 256 / 256 / 256 < 256 := by rw [← d6]; omega
  clear d1 d2 d3 d4 d5 d6
  generalize h1 : w / 256 = x1 at *
  generalize h2 : x1 / 256 = x2 at *
  generalize h3 : x2 / 256 = x3 at *
  generalize h4 : x3 / 256 = x4 at *
  generalize h5 : x4 / 256 = x5 at *
  generalize h6 : x5 / 256 = x6 at *
  generalize h7' : x6 / 256 = x7 at *
  omega

/-- put then get is the identity on the whole `int64_t` range -/
theorem get_put_be64 (v : Int) (h1 : -9223372036854775808 ≤ v) (h2 : v ≤ 9223372036854775807) : getBe64 (putBe64 v) = v := by
  obtain ⟨w, hw⟩ : ∃ w : Nat, (w : Int) = v % 18446744073709551616 := ⟨(v % 18446744073709551616).toNat, by omega⟩
  have hwlt : w < 2 ^ 64 := by omega
  obtain ⟨b0, b8, b16, b24, b32, b40, b48, b56⟩ := byteAt_digits64 v w hw
  rw [putBe64, b0, b8, b16, b24, b32, b40, b48, b56]
  simp only [getBe64]
  rw [digits64_sum w hwlt, wrapS64_eq]
  split <;> omega

/-- get then put is the identity on 8-byte strings -/
theorem put_get_be64 (a b c d e f g h : Nat) (ha : a < 256) (hb : b < 256) (hc : c < 256) (hd : d < 256)
    (he : e < 256) (hf : f < 256) (hg : g < 256) (hh : h < 256) :
    putBe64 (getBe64 [a, b, c, d, e, f, g, h]) = [a, b, c, d, e, f, g, h] := by
  simp only [getBe64, Nat.mod_eq_of_lt ha, Nat.mod_eq_of_lt hb, Nat.mod_eq_of_lt hc, Nat.mod_eq_of_lt hd,
    Nat.mod_eq_of_lt he, Nat.mod_eq_of_lt hf, Nat.mod_eq_of_lt hg, Nat.mod_eq_of_lt hh]
  generalize hu : (a * 16777216 + b * 65536 + c * 256 + d) * 4294967296 + (e * 16777216 + f * 65536 + g * 256 + h) = u
  have hult : u < 2 ^ 64 := by omega
  have hw : ((u : Nat) : Int) = wrapS 64 (u : Int) % 18446744073709551616 := by rw [wrapS64_eq]; split <;> omega
  obtain ⟨b0, b8, b16, b24, b32, b40, b48, b56⟩ := byteAt_digits64 (wrapS 64 (u : Int)) u hw
  rw [putBe64, b0, b8, b16, b24, b32, b40, b48, b56]
  simp only [List.cons.injEq, and_true]
  subst hu
  refine ⟨?_, ?_, ?_, ?_, ?_, ?_, ?_, ?_⟩ <;> (show ((_ : Nat) = _); omega)

/-- … and on 2-byte strings -/
theorem put_get_be16 (a b : Nat) (ha : a < 256) (hb : b < 256) : putBe16 (getBe16 [a, b]) = [a, b] := by
  obtain ⟨e0, e8, _, _⟩ := byteAt_eq (getBe16 [a, b])
  rw [putBe16, e0, e8]
  simp only [getBe16, Nat.mod_eq_of_lt ha, Nat.mod_eq_of_lt hb, wrapS16_eq, List.cons.injEq, and_true]
  refine ⟨?_, ?_⟩ <;> (show ((_ : Nat) = _); split <;> split <;> omega)


/-- bytes of a wrapped 32-bit value -/
theorem byteAt_wrapS32 (u : Nat) (hu : u < 2 ^ 32) :
    byteAt (wrapS 32 u) 24 = u / 16777216 % 256 ∧ byteAt (wrapS 32 u) 16 = u / 65536 % 256 ∧
    byteAt (wrapS 32 u) 8 = u / 256 % 256 ∧ byteAt (wrapS 32 u) 0 = u % 256 := by
  obtain ⟨e0, e8, e16, e24⟩ := byteAt_eq (wrapS 32 u)
  rw [e0, e8, e16, e24, wrapS32_eq]
  refine ⟨?_, ?_, ?_, ?_⟩ <;> (show ((_ : Nat) = _); split <;> omega)

/-- get then put is the identity on 4-byte strings -/
theorem put_get_be32 (a b c d : Nat) (ha : a < 256) (hb : b < 256) (hc : c < 256) (hd : d < 256) :
    putBe32 (getBe32 [a, b, c, d]) = [a, b, c, d] := by
  have hu : a * 16777216 + b * 65536 + c * 256 + d < 2 ^ 32 := by omega
  have hg : getBe32 [a, b, c, d] = wrapS 32 ((a * 16777216 + b * 65536 + c * 256 + d : Nat) : Int) := by
    simp only [getBe32, Nat.mod_eq_of_lt ha, Nat.mod_eq_of_lt hb, Nat.mod_eq_of_lt hc, Nat.mod_eq_of_lt hd]
    push_cast; rfl
  obtain ⟨b24, b16, b8, b0⟩ := byteAt_wrapS32 _ hu
  rw [putBe32, hg, b24, b16, b8, b0]
  simp only [List.cons.injEq, and_true]
  refine ⟨?_, ?_, ?_, ?_⟩ <;> (show ((_ : Nat) = _); omega)


/-! ## C20 lifted to whole buffers: the `replace_*` array paths equal the native paths on normal values -/

theorem leBytes_ofLE : ∀ (l : List Nat), (∀ b ∈ l, b < 256) → leBytes l.length (ofLE l) = l
  | [], _ => rfl
  | b :: bs, h => by
    have hb : b < 256 := h b (by simp)
    have ih := leBytes_ofLE bs (fun x hx => h x (by simp [hx]))
    simp only [List.length_cons, ofLE, leBytes]
    have e1 : (b + 256 * ofLE bs) % 256 = b := by omega
    have e2 : (b + 256 * ofLE bs) / 256 = ofLE bs := by omega
    rw [e1, e2, ih]

/-- the staging-buffer word of a big-endian file: byte-swapping the value gives the reversed byte string -/
theorem leBytes_endswap32 (x : Nat) : leBytes 4 (endswap32 x) = beBytes 4 x := by
  rw [← (endswap_reverses_bytes x).2]
  have hl : ((leBytes 4 x).reverse).length = 4 := by simp [leBytes_length]
  have := leBytes_ofLE (leBytes 4 x).reverse (fun b hb => leBytes_lt 4 x b (by simpa using hb))
  rw [hl] at this
  simpa [ofBE, beBytes] using this

theorem ofLE_bytesLE_f32 (x : Nat) (hx : x < 2 ^ 32) : ofLE (Spec.bytesLE f32 x) = x := by
  have : f32.width / 8 = 4 := by decide
  rw [Spec.bytesLE, this, ofLE_leBytes]
  exact Nat.mod_eq_of_lt (by norm_num; omega)

/-- C20 lifted to whole buffers, write side: for a buffer of normal values `replace_write_f` (f2bf_array + endswap_int_array)
    produces exactly the bytes of the native path, for both file byte orders -/
theorem replace_write_finite_f32 (fileBE : Bool) (xs : List Nat) (h : ∀ x ∈ xs, x < 2 ^ 32 ∧ f32.isFinite x = true) :
    replaceWriteF32 fileBE xs = hostWrite f32 fileBE xs := by
  unfold replaceWriteF32 hostWrite
  induction xs with
  | nil => rfl
  | cons x xs ih =>
    obtain ⟨hx, hn⟩ := h x (by simp)
    simp only [List.flatMap_cons]
    rw [ih (fun y hy => h y (by simp [hy]))]
    congr 1
    rw [(ieee_write_finite_f32 x hx hn).2, ofLE_bytesLE_f32 x hx]
    cases fileBE
    · simp only [Bool.false_eq_true, if_false]; rfl
    · simp only [if_true]; rw [leBytes_endswap32]; rfl

/-- … and read side: reading the native bytes of a buffer of normal values through `replace_read_f` returns the buffer -/
theorem replace_read_finite_f32 (fileBE : Bool) (xs : List Nat) (h : ∀ x ∈ xs, x < 2 ^ 32 ∧ f32.isFinite x = true) :
    replaceReadF32 fileBE (hostWrite f32 fileBE xs) = xs := by
  unfold replaceReadF32 hostWrite
  rw [groups_flatMap 4 (by omega)]
  · rw [List.map_map]
    conv => rhs; rw [← List.map_id xs]
    apply List.map_congr_left
    intro x hxm
    obtain ⟨hx, hn⟩ := h x hxm
    simp only [Function.comp, id]
    have hw : f32.width / 8 = 4 := by decide
    cases fileBE
    · simp only [Bool.false_eq_true, if_false]
      rw [ofLE_bytesLE_f32 x hx]
      exact (ieee_read_finite_f32 x hx hn).2
    · simp only [if_true]
      have e : ofLE (Spec.bytesBE f32 x) = endswap32 x := by
        rw [Spec.bytesBE, hw, ← (endswap_reverses_bytes x).2]; rfl
      rw [e, endswap32_involutive x hx]
      exact (ieee_read_finite_f32 x hx hn).2
  · intro v _
    have hw : f32.width / 8 = 4 := by decide
    cases fileBE <;> simp [Spec.bytesBE, Spec.bytesLE, hw, leBytes_length, beBytes_length]


theorem leBytes_endswap64 (x : Nat) (hx : x < 2 ^ 64) : leBytes 8 (endswap64 x) = beBytes 8 x := by
  rw [← endswap64_reverses_bytes x hx]
  have hl : ((leBytes 8 x).reverse).length = 8 := by simp [leBytes_length]
  have := leBytes_ofLE (leBytes 8 x).reverse (fun b hb => leBytes_lt 8 x b (by simpa using hb))
  rw [hl] at this
  simpa [ofBE, beBytes] using this

theorem ofLE_bytesLE_f64 (x : Nat) (hx : x < 2 ^ 64) : ofLE (Spec.bytesLE f64 x) = x := by
  have : f64.width / 8 = 8 := by decide
  rw [Spec.bytesLE, this, ofLE_leBytes]
  exact Nat.mod_eq_of_lt (by norm_num; omega)

/-- the same for `replace_write_d` / `replace_read_d` (double64.c) -/
theorem replace_write_finite_f64 (fileBE : Bool) (xs : List Nat) (h : ∀ x ∈ xs, x < 2 ^ 64 ∧ f64.isFinite x = true) :
    replaceWriteF64 fileBE xs = hostWrite f64 fileBE xs := by
  unfold replaceWriteF64 hostWrite
  induction xs with
  | nil => rfl
  | cons x xs ih =>
    obtain ⟨hx, hn⟩ := h x (by simp)
    simp only [List.flatMap_cons]
    rw [ih (fun y hy => h y (by simp [hy]))]
    congr 1
    rw [(ieee_write_finite_f64 x hx hn).2, ofLE_bytesLE_f64 x hx]
    cases fileBE
    · simp only [Bool.false_eq_true, if_false]; rfl
    · simp only [if_true]; rw [leBytes_endswap64 x hx]; rfl

theorem replace_read_finite_f64 (fileBE : Bool) (xs : List Nat) (h : ∀ x ∈ xs, x < 2 ^ 64 ∧ f64.isFinite x = true) :
    replaceReadF64 fileBE (hostWrite f64 fileBE xs) = xs := by
  unfold replaceReadF64 hostWrite
  rw [groups_flatMap 8 (by omega)]
  · rw [List.map_map]
    conv => rhs; rw [← List.map_id xs]
    apply List.map_congr_left
    intro x hxm
    obtain ⟨hx, hn⟩ := h x hxm
    simp only [Function.comp, id]
    have hw : f64.width / 8 = 8 := by decide
    cases fileBE
    · simp only [Bool.false_eq_true, if_false]
      rw [ofLE_bytesLE_f64 x hx]
      exact (ieee_read_finite_f64 x hx hn).2
    · simp only [if_true]
      have e : ofLE (Spec.bytesBE f64 x) = endswap64 x := by
        rw [Spec.bytesBE, hw, ← endswap64_reverses_bytes x hx]; rfl
      rw [e, endswap64_involutive x hx]
      exact (ieee_read_finite_f64 x hx hn).2
  · intro v _
    have hw : f64.width / 8 = 8 := by decide
    cases fileBE <;> simp [Spec.bytesBE, Spec.bytesLE, hw, leBytes_length, beBytes_length]

/-- the C20 form of the four buffer theorems: buffers of normal values -/
theorem replace_write_native_f32 (fileBE : Bool) (xs : List Nat) (h : ∀ x ∈ xs, x < 2 ^ 32 ∧ Spec.isNormal f32 x = true) :
    replaceWriteF32 fileBE xs = hostWrite f32 fileBE xs :=
  replace_write_finite_f32 fileBE xs fun x hx => ⟨(h x hx).1, (finite_of_spec_normal f32 f32_std x (h x hx).2).2⟩
theorem replace_read_native_f32 (fileBE : Bool) (xs : List Nat) (h : ∀ x ∈ xs, x < 2 ^ 32 ∧ Spec.isNormal f32 x = true) :
    replaceReadF32 fileBE (hostWrite f32 fileBE xs) = xs :=
  replace_read_finite_f32 fileBE xs fun x hx => ⟨(h x hx).1, (finite_of_spec_normal f32 f32_std x (h x hx).2).2⟩
theorem replace_write_native_f64 (fileBE : Bool) (xs : List Nat) (h : ∀ x ∈ xs, x < 2 ^ 64 ∧ Spec.isNormal f64 x = true) :
    replaceWriteF64 fileBE xs = hostWrite f64 fileBE xs :=
  replace_write_finite_f64 fileBE xs fun x hx => ⟨(h x hx).1, (finite_of_spec_normal f64 f64_std x (h x hx).2).2⟩
theorem replace_read_native_f64 (fileBE : Bool) (xs : List Nat) (h : ∀ x ∈ xs, x < 2 ^ 64 ∧ Spec.isNormal f64 x = true) :
    replaceReadF64 fileBE (hostWrite f64 fileBE xs) = xs :=
  replace_read_finite_f64 fileBE xs fun x hx => ⟨(h x hx).1, (finite_of_spec_normal f64 f64_std x (h x hx).2).2⟩

/-- C01 for whole buffers through the portable path, at full strength: what `replace_write_*` puts into the file is read back
    by `replace_read_*` as the very buffer, for every buffer of finite values, both file byte orders -/
theorem replace_buffer_roundtrip (fileBE : Bool) :
    (∀ xs : List Nat, (∀ x ∈ xs, x < 2 ^ 32 ∧ f32.isFinite x = true) → replaceReadF32 fileBE (replaceWriteF32 fileBE xs) = xs) ∧
    (∀ xs : List Nat, (∀ x ∈ xs, x < 2 ^ 64 ∧ f64.isFinite x = true) → replaceReadF64 fileBE (replaceWriteF64 fileBE xs) = xs) :=
  ⟨fun xs h => by rw [replace_write_finite_f32 fileBE xs h, replace_read_finite_f32 fileBE xs h],
   fun xs h => by rw [replace_write_finite_f64 fileBE xs h, replace_read_finite_f64 fileBE xs h]⟩

/-- non-vacuity: a buffer of ordinary values, both file byte orders; a buffer holding −0.0, a subnormal and 2^-127 -/
example : replaceWriteF32 true [0x3F800000, 0xC2F6E979] = [0x3F, 0x80, 0, 0, 0xC2, 0xF6, 0xE9, 0x79] ∧
    replaceReadF32 false [0, 0, 0x80, 0x3F, 0x79, 0xE9, 0xF6, 0xC2] = [0x3F800000, 0xC2F6E979] ∧
    hostWrite f32 false [0x3F800000] = [0, 0, 0x80, 0x3F] ∧
    replaceReadF64 true [0x40, 0x09, 0x21, 0xFB, 0x54, 0x44, 0x2D, 0x18] = [0x400921FB54442D18] ∧
    replaceWriteF32 true [0x80000000, 1, 0x00400000] = [0x80, 0, 0, 0, 0, 0, 0, 1, 0, 0x40, 0, 0] ∧
    replaceReadF32 true (replaceWriteF32 true [0x80000000, 1, 0x00400000]) = [0x80000000, 1, 0x00400000] ∧
    replaceWriteF64 false [0x8000000000000001] = [1, 0, 0, 0, 0, 0, 0, 0x80] := by decide +kernel

end Sf.C20Ieee
