/-
  C12 — the containers beside RIFF/WAVE: theorems about SfModel/MetaX.lean (AIFF text chunks and markers, CAF info strings,
  channel layout tags), the definitions `sfmodel meta` runs against the library for AIFF and CAF scripts.
-/
import SfModel.MetaX
import SfProofs.MetaBytes
import SfProofs.MetaStrings
import SfProofs.Bytes
namespace Sf.MetaX
open Sf.Meta

@[simp] theorem be4_length (v : Nat) : (be4 v).length = 4 := beBytes_length 4 v
@[simp] theorem be2_length (v : Nat) : (be2 v).length = 2 := beBytes_length 2 v
@[simp] theorem be8_length (v : Nat) : (be8 v).length = 8 := beBytes_length 8 v

theorem ofBE_be4 {v : Nat} (h : v < 2 ^ 32) : ofBE (be4 v) = v := by
  rw [be4, ofBE_beBytes]; exact Nat.mod_eq_of_lt (by simpa using h)
theorem ofBE_be2 {v : Nat} (h : v < 2 ^ 16) : ofBE (be2 v) = v := by
  rw [be2, ofBE_beBytes]; exact Nat.mod_eq_of_lt (by simpa using h)
theorem ofBE_be8 {v : Nat} (h : v < 2 ^ 64) : ofBE (be8 v) = v := by
  rw [be8, ofBE_beBytes]; exact Nat.mod_eq_of_lt (by simpa using h)

theorem takeWhile_all {α} (p : α → Bool) (l : List α) (h : ∀ a ∈ l, p a = true) : l.takeWhile p = l := by
  induction l with
  | nil => rfl
  | cons a t ih => simp [List.takeWhile_cons, h a (by simp), ih (fun b hb => h b (by simp [hb]))]

theorem cstr_no_zero (s : List Byte) (h : ∀ b ∈ s, b ≠ 0) : cstr s = s := by
  unfold cstr; apply takeWhile_all; intro b hb; simpa using h b hb

theorem cstr_append_zero2 (s r : List Byte) (h : ∀ b ∈ s, b ≠ 0) : cstr (s ++ 0 :: r) = s := by
  induction s with
  | nil => simp [cstr]
  | cons a t ih =>
    have ha : a ≠ 0 := h a (by simp)
    have := ih (fun b hb => h b (by simp [hb]))
    simp [cstr, ha] at this ⊢
    exact this

/-! ## AIFF text chunks -/

theorem sanitize_printable (s : List Byte) (h : ∀ b ∈ s, isPrint b = true) : sanitize s = s := by
  unfold sanitize
  conv => rhs; rw [← List.map_id s]
  apply List.map_congr_left
  intro b hb; simp [h b hb]

theorem printablePrefix_printable (s : List Byte) (h : ∀ b ∈ s, isPrint b = true) : printablePrefix s = s := by
  unfold printablePrefix; exact takeWhile_all _ s h

/-- one text chunk at the front of the walk is read back as it was set, and the walk goes on behind its pad byte -/
theorem aiffParseW_item (L : AiffLimits) (fuel : Nat) (e : Nat × List Byte) (rest : List Byte) (h : aiffOkW L e) :
    aiffParseW L (fuel + 1) (aiffItem e ++ rest) = e :: aiffParseW L fuel rest := by
  obtain ⟨ty, s⟩ := e
  obtain ⟨hz, hne, h32, hty⟩ := h
  simp only at hz hne hty h32
  have hpos : 0 < s.length := List.length_pos_iff.mpr hne
  have hcs := cstr_no_zero s hz
  have m4 : ∀ t : String, t.toList.length = 4 → (mk t).length = 4 := fun t ht => by simp [mk_length, ht]
  have body : ∀ (m : List Byte), m.length = 4 → isAiffText m = true → ∀ (payload : List Byte) (size : Nat), size < 2 ^ 32 →
      payload.length = size + size % 2 → aiffReadTextW L m size (payload ++ rest) = some (ty, s) →
      aiffParseW L (fuel + 1) (m ++ be4 size ++ payload ++ rest) = (ty, s) :: aiffParseW L fuel rest := by
    intro m hm4 htext payload size hsz hpl hread
    rw [aiffParseW]
    have hlen : ¬ (m ++ be4 size ++ payload ++ rest).length < 8 := by simp [hm4]; omega
    rw [if_neg hlen]
    have e1 : (m ++ be4 size ++ payload ++ rest).take 4 = m := by
      rw [List.append_assoc, List.append_assoc]; exact take_front _ _ 4 hm4
    have e2 : ((m ++ be4 size ++ payload ++ rest).drop 4).take 4 = be4 size := by
      rw [List.append_assoc, List.append_assoc, drop_front _ _ 4 hm4]; exact take_front _ _ 4 (be4_length _)
    have e3 : (m ++ be4 size ++ payload ++ rest).drop 8 = payload ++ rest := by
      rw [List.append_assoc]; exact drop_front _ _ 8 (by simp [hm4])
    simp only [e1, e2, e3, ofBE_be4 hsz]
    rw [if_neg (by simp [htext]; omega)]
    simp only [hread]
    rw [drop_front _ _ _ hpl]
  rcases hty with ⟨rfl, hl⟩ | ⟨rfl, hl⟩ | ⟨rfl, hl⟩ | ⟨rfl, hl, hp⟩ | ⟨rfl, hl, hp⟩
  · -- NAME
    have := body (mk "NAME") (by decide) (by decide) (s ++ zeros (s.length % 2)) s.length (by omega) (by simp) (by
      simp only [aiffReadTextW]
      rw [if_neg (by omega), if_neg (by decide), if_neg (by decide), if_pos trivial, if_neg (by omega)]
      rw [List.append_assoc, take_front _ _ _ rfl, hcs])
    simpa [aiffItem, serS, List.append_assoc] using this
  · -- ANNO
    have := body (mk "ANNO") (by decide) (by decide) (s ++ zeros (s.length % 2)) s.length (by omega) (by simp) (by
      simp only [aiffReadTextW]
      rw [if_neg (by omega), if_neg (by decide), if_neg (by decide), if_neg (by decide), if_pos trivial, if_neg (by omega)]
      rw [List.append_assoc, take_front _ _ _ rfl, hcs])
    simpa [aiffItem, serS, List.append_assoc] using this
  · -- AUTH
    have := body (mk "AUTH") (by decide) (by decide) (s ++ zeros (s.length % 2)) s.length (by omega) (by simp) (by
      simp only [aiffReadTextW]
      rw [if_neg (by omega), if_neg (by decide), if_pos trivial, if_neg (by omega)]
      rw [List.append_assoc, take_front _ _ _ rfl, hcs])
    simpa [aiffItem, serS, List.append_assoc] using this
  · -- (c)
    have := body (mk "(c) ") (by decide) (by decide) (s ++ zeros (s.length % 2)) s.length (by omega) (by simp) (by
      simp only [aiffReadTextW]
      rw [if_neg (by omega), if_pos trivial, if_neg (by omega)]
      rw [List.append_assoc, take_front _ _ _ rfl, sanitize_printable s hp, hcs])
    simpa [aiffItem, serS, List.append_assoc] using this
  · -- APPL
    have := body (mk "APPL") (by decide) (by decide) (mk "m3ga" ++ s ++ zeros (s.length % 2)) (s.length + 4) (by omega)
      (by simp [mk_length]; omega) (by
      simp only [aiffReadTextW]
      rw [if_neg (by omega), if_neg (by decide), if_neg (by decide), if_neg (by decide), if_neg (by decide), if_pos trivial,
        if_neg (by omega)]
      have e4 : (mk "m3ga").length = 4 := by decide
      rw [List.append_assoc, List.append_assoc, drop_front _ _ 4 e4, Nat.add_sub_cancel, take_front _ _ _ rfl, hcs,
        printablePrefix_printable s hp])
    simpa [aiffItem, List.append_assoc] using this

theorem aiffParseW_items (L : AiffLimits) (es : List (Nat × List Byte)) (h : ∀ e ∈ es, aiffOkW L e) :
    ∀ fuel, es.length ≤ fuel → aiffParseW L fuel (aiffStrings es) = es := by
  unfold aiffStrings
  induction es with
  | nil => intro fuel _; cases fuel <;> simp [aiffParseW]
  | cons e t ih =>
    intro fuel hf
    cases fuel with
    | zero => simp at hf
    | succ f =>
      simp only [List.flatMap_cons]
      rw [aiffParseW_item L f e _ (h e (by simp)), ih (fun e he => h e (by simp [he])) f (by simpa using hf)]

theorem aiffOk_limits (e : Nat × List Byte) (h : aiffOk e) : aiffOkW aiffLimits e := by
  obtain ⟨hz, hne, hty⟩ := h
  refine ⟨hz, hne, ?_, ?_⟩
  · unfold HEADER_CAP at hty; omega
  · unfold aiffLimits; simp only
    rcases hty with ⟨a, b⟩ | ⟨a, b⟩ | ⟨a, b⟩ | ⟨a, b, c⟩ | ⟨a, b, c⟩
    · exact Or.inl ⟨a, by omega⟩
    · exact Or.inr (Or.inl ⟨a, by omega⟩)
    · exact Or.inr (Or.inr (Or.inl ⟨a, by omega⟩))
    · exact Or.inr (Or.inr (Or.inr (Or.inl ⟨a, by omega, c⟩)))
    · exact Or.inr (Or.inr (Or.inr (Or.inr ⟨a, by omega, c⟩)))

/-- get after re-open = what was set (full strength in the lengths since the repair of the reader), for every list of AIFF
    texts `aiffOk` admits: non-empty C strings whose chunk the header cache can hold (100 KiB; the writer cannot produce more
    either), copyright and software printable ASCII (known finding KF.aiffSanitize) -/
theorem aiff_text_roundtrip (es : List (Nat × List Byte)) (h : ∀ e ∈ es, aiffOk e) :
    ∀ fuel, es.length ≤ fuel → aiffParse fuel (aiffStrings es) = es :=
  aiffParseW_items aiffLimits es (fun e he => aiffOk_limits e (h e he))

example : aiffParse 9 (aiffStrings [(1, ascii "Title"), (3, ascii "tools (libsndfile-1.2.2)"), (2, ascii "(c) me"), (5, ascii "odd")]) =
    [(1, ascii "Title"), (3, ascii "tools (libsndfile-1.2.2)"), (2, ascii "(c) me"), (5, ascii "odd")] := by decide +kernel

/-- the old reader's round trip under its limits (title / comment < 8190 bytes, author < 8191, copyright < 8192, …) -/
theorem aiff_text_roundtrip_short_old_rule (es : List (Nat × List Byte)) (h : ∀ e ∈ es, aiffOkOld e) :
    ∀ fuel, es.length ≤ fuel → aiffParseOld fuel (aiffStrings es) = es :=
  aiffParseW_items aiffLimitsOld es h

/-- the full statement puts no limit on the texts -/
def aiff_text_full : Prop := ∀ es : List (Nat × List Byte), (∀ e ∈ es, (∀ b ∈ e.2, b ≠ 0) ∧ e.2 ≠ [] ∧ e.1 ∈ [1, 2, 3, 4, 5]) →
  aiffParse (es.length + 1) (aiffStrings es) = es

/-- known finding KF.aiffSanitize (still open): a copyright text with a byte outside printable ASCII comes back with '.' in its
    place, a software text is cut there -/
theorem aiff_text_limits_witness : ¬ aiff_text_full := by
  intro h
  have := h [(2, [169, 32, 90])] (by decide)
  revert this; decide +kernel

example : aiffParse 3 (aiffStrings [(3, [90, 111, 195, 171])]) = [(3, [90, 111])] := by decide +kernel

/-- the statement for lengths: printable texts of any length the header cache can hold -/
def aiff_text_lengths_full_for (parse : Nat → List Byte → List (Nat × List Byte)) : Prop :=
  ∀ es : List (Nat × List Byte), (∀ e ∈ es, e.2 ≠ [] ∧ e.1 ∈ [1, 2, 3, 4, 5] ∧ e.2.length + 4 ≤ HEADER_CAP ∧ ∀ b ∈ e.2, isPrint b = true) →
  parse (es.length + 1) (aiffStrings es) = es

theorem isPrint_ne_zero (b : Byte) (h : isPrint b = true) : b ≠ 0 := by
  intro h0; subst h0; simp [isPrint] at h

/-- full strength for the repaired reader: no 8 KiB limit -/
theorem aiff_text_lengths_full : aiff_text_lengths_full_for aiffParse := by
  intro es h
  apply aiff_text_roundtrip es _ _ (by omega)
  intro e he
  obtain ⟨hne, hty, hl, hp⟩ := h e he
  refine ⟨fun b hb => isPrint_ne_zero b (hp b hb), hne, ?_⟩
  simp only [List.mem_cons, List.mem_nil_iff, or_false] at hty
  rcases hty with a | a | a | a | a
  · exact Or.inl ⟨a, by omega⟩
  · exact Or.inr (Or.inr (Or.inr (Or.inl ⟨a, by omega, hp⟩)))
  · exact Or.inr (Or.inr (Or.inr (Or.inr ⟨a, hl, hp⟩)))
  · exact Or.inr (Or.inr (Or.inl ⟨a, by omega⟩))
  · exact Or.inr (Or.inl ⟨a, by omega⟩)

theorem long_title_admissible (n : Nat) (hn : 0 < n) (hc : n + 4 ≤ HEADER_CAP) :
    ∀ e ∈ [((4 : Nat), ([65] : List Byte)), (1, List.replicate n 65)],
      e.2 ≠ [] ∧ e.1 ∈ [1, 2, 3, 4, 5] ∧ e.2.length + 4 ≤ HEADER_CAP ∧ ∀ b ∈ e.2, isPrint b = true := by
  intro e he
  simp only [List.mem_cons, List.mem_nil_iff, or_false] at he
  rcases he with rfl | rfl
  · decide
  · refine ⟨by cases n <;> simp_all [List.replicate], by simp, by simpa using hc, ?_⟩
    intro b hb
    rw [(List.mem_replicate.mp hb).2]; decide

/-- a title of 8190 bytes is read back now … -/
example : aiffParse 3 (aiffStrings [(4, [65]), (1, List.replicate 8190 65)]) = [(4, [65]), (1, List.replicate 8190 65)] :=
  aiff_text_lengths_full _ (long_title_admissible 8190 (by decide) (by decide))

/-- … and was skipped by the reader with the 8 KiB scratch buffer -/
theorem aiff_text_8190_old_rule : ¬ aiff_text_lengths_full_for aiffParseOld := by
  intro h
  have := h [(4, [65]), (1, List.replicate 8190 65)] (long_title_admissible 8190 (by decide) (by decide))
  have hold : aiffParseOld 3 (aiffStrings [(4, [65]), (1, List.replicate 8190 65)]) = [(4, [65])] := by decide +kernel
  rw [show ([(4, [65]), (1, List.replicate 8190 65)] : List (Nat × List Byte)).length + 1 = 3 from rfl, hold] at this
  exact absurd (congrArg List.length this) (by simp only [List.length_cons, List.length_nil]; omega)

/-- before the repair of the APPL reader the software text could come back with up to four stale bytes behind it -/
theorem appl_stale_old_rule : applTextOld (ascii "fer!") (ascii "tools (libsndfile-1.2.2)") = ascii "tools (libsndfile-1.2.2)fer!" ∧
    applTextOld (ascii "fer!") (ascii "tool (libsndfile-1.2.2)") = ascii "tool (libsndfile-1.2.2)" := by decide +kernel

/-! ## CAF info strings -/

def pairBytes (e : Nat × List Byte) : List Byte := ((cafKey e.1).getD []) ++ [0] ++ e.2 ++ [0]

theorem cafKey_spec {ty : Nat} {k : List Byte} (h : cafKey ty = some k) : (∀ b ∈ k, b ≠ 0) ∧ cafType k = some ty ∧ k ≠ [] := by
  unfold cafKey at h
  split at h <;> simp at h <;> subst h <;> decide

/-- when everything fits the buffer, put_key_value collects every pair in order -/
theorem cafPut_fits (cap : Nat) (es : List (Nat × List Byte)) (h : ∀ e ∈ es, cafOk e) :
    ∀ (buf : List Byte) (cnt : Nat), buf.length + cafNeed es < cap →
      cafPut cap buf cnt es = (buf ++ es.flatMap pairBytes, cnt + es.length) := by
  induction es with
  | nil => intro buf cnt _; simp [cafPut]
  | cons e t ih =>
    intro buf cnt hfit
    obtain ⟨_, hk⟩ := h e (by simp)
    obtain ⟨k, hk⟩ := Option.isSome_iff_exists.mp hk
    simp only [cafNeed, hk, Option.getD_some] at hfit
    simp only [cafPut, hk]
    rw [if_neg (by omega)]
    rw [ih (fun e he => h e (by simp [he])) _ _ (by simp only [List.length_append, List.length_cons, List.length_nil]; omega)]
    simp [pairBytes, hk, List.append_assoc]; omega

theorem cafPairs_pairs (es : List (Nat × List Byte)) (h : ∀ e ∈ es, cafOk e) :
    ∀ fuel, es.length ≤ fuel → cafPairs fuel (es.flatMap pairBytes) = es := by
  induction es with
  | nil => intro fuel _; cases fuel <;> simp [cafPairs]
  | cons e t ih =>
    intro fuel hf
    cases fuel with
    | zero => simp at hf
    | succ f =>
      obtain ⟨ty, v⟩ := e
      obtain ⟨hz, hk⟩ := h (ty, v) (by simp)
      obtain ⟨k, hk⟩ := Option.isSome_iff_exists.mp hk
      simp only at hz hk
      obtain ⟨kz, kt, kne⟩ := cafKey_spec hk
      simp only [List.flatMap_cons, pairBytes, hk, Option.getD_some, List.append_assoc, List.singleton_append]
      have hkey : cstr (k ++ 0 :: (v ++ 0 :: t.flatMap pairBytes)) = k := cstr_append_zero2 k _ kz
      have hd : (k ++ 0 :: (v ++ 0 :: t.flatMap pairBytes)).drop (k.length + 1) = v ++ 0 :: t.flatMap pairBytes := by
        rw [show k ++ 0 :: (v ++ 0 :: t.flatMap pairBytes) = (k ++ [0]) ++ (v ++ 0 :: t.flatMap pairBytes) by simp]
        exact drop_front _ _ _ (by simp)
      have hd2 : (v ++ 0 :: t.flatMap pairBytes).drop (v.length + 1) = t.flatMap pairBytes := by
        rw [show v ++ 0 :: t.flatMap pairBytes = (v ++ [0]) ++ t.flatMap pairBytes by simp]
        exact drop_front _ _ _ (by simp)
      have hb : k ++ (0 :: v ++ 0 :: t.flatMap pairBytes) = k ++ 0 :: (v ++ 0 :: t.flatMap pairBytes) := by simp
      rw [hb, cafPairs]
      dsimp only
      rw [if_neg (by cases k <;> simp_all), hkey, if_neg (by simp only [List.length_append, List.length_cons]; omega), hd,
        cstr_append_zero2 v _ hz, hd2, kt]
      dsimp only
      rw [ih (fun e he => h e (by simp [he])) f (by simpa using hf)]

theorem flatMap_pairBytes_length (es : List (Nat × List Byte)) : (es.flatMap pairBytes).length = cafNeed es := by
  induction es with
  | nil => simp [cafNeed]
  | cons e t ih => simp only [List.flatMap_cons, List.length_append, ih, cafNeed, pairBytes, List.length_cons, List.length_nil]; omega

theorem length_le_cafNeed (es : List (Nat × List Byte)) : es.length ≤ cafNeed es := by
  induction es with
  | nil => simp
  | cons e t ih => simp only [List.length_cons, cafNeed]; omega

/-- get after re-open = what was set, for every list of CAF strings (any of the ten types, no NUL) that fits the writer's
    buffer of `cap` bytes and the 100 KiB the reader accepts -/
theorem caf_info_roundtrip_cap (cap : Nat) (es : List (Nat × List Byte)) (h : ∀ e ∈ es, cafOk e) (hfit : cafNeed es < cap)
    (hcap : cafNeed es ≤ HEADER_CAP) : readCafInfo (writeCafInfoW cap es) = es := by
  cases es with
  | nil => simp [writeCafInfoW, cafPut, readCafInfo, ofBE, ofLE]
  | cons e t =>
    have hput := cafPut_fits cap (e :: t) h [] 0 (by simpa using hfit)
    have hlen := flatMap_pairBytes_length (e :: t)
    have hpos : 0 < cafNeed (e :: t) := by simp only [cafNeed]; omega
    unfold HEADER_CAP at hcap
    unfold writeCafInfoW
    simp only [hput, List.nil_append, Nat.zero_add]
    rw [if_neg (by simp only [hlen, List.length_cons]; omega)]
    unfold readCafInfo
    have e4 : (mk "info").length = 4 := by decide
    simp only [List.append_assoc]
    rw [drop_front_add (mk "info") _ 4 0 e4, List.drop_zero, take_front _ _ 8 (be8_length _), ofBE_be8 (by omega)]
    rw [if_neg (by unfold HEADER_CAP; omega)]
    have h16 : (mk "info" ++ (be8 (((e :: t).flatMap pairBytes).length + 4) ++ (be4 (e :: t).length ++ (e :: t).flatMap pairBytes))).drop 16
        = (e :: t).flatMap pairBytes := by
      rw [show mk "info" ++ (be8 (((e :: t).flatMap pairBytes).length + 4) ++ (be4 (e :: t).length ++ (e :: t).flatMap pairBytes))
          = (mk "info" ++ be8 (((e :: t).flatMap pairBytes).length + 4) ++ be4 (e :: t).length) ++ (e :: t).flatMap pairBytes by simp]
      exact drop_front _ _ 16 (by simp [e4])
    rw [h16, Nat.add_sub_cancel, List.take_length]
    exact cafPairs_pairs (e :: t) h _ (by rw [hlen]; have := length_le_cafNeed (e :: t); omega)

theorem cafKey_length {ty : Nat} {k : List Byte} (h : cafKey ty = some k) : k.length ≤ 11 := by
  unfold cafKey at h
  split at h <;> simp at h <;> subst h <;> decide

/-- the bytes the strings occupy in `psf->strings.storage` (text + NUL each) -/
def storedBytes (es : List (Nat × List Byte)) : Nat := (es.map fun e => e.2.length + 1).sum

theorem cafNeed_le_stored (es : List (Nat × List Byte)) : cafNeed es ≤ storedBytes es + 12 * es.length := by
  induction es with
  | nil => simp [cafNeed, storedBytes]
  | cons e t ih =>
    have hk : ((cafKey e.1).getD []).length ≤ 11 := by
      cases hc : cafKey e.1 with
      | none => simp
      | some k => simpa using cafKey_length hc
    simp only [cafNeed, storedBytes, List.map_cons, List.sum_cons, List.length_cons] at ih ⊢
    omega

/-- `caf_info_roundtrip` (full strength since the repair of the writer's buffer): get after re-open = what was set for every
    list of CAF strings a string table can hold (at most 32 entries, any of the ten types, no NUL) — `used`
    (`strings.storage_used`) is at least the bytes these strings occupy there — whose `info` chunk the header cache can hold -/
theorem caf_info_roundtrip (used : Nat) (es : List (Nat × List Byte)) (h : ∀ e ∈ es, cafOk e) (h32 : es.length ≤ SF_MAX_STRINGS)
    (hused : storedBytes es ≤ used) (hcap : cafNeed es ≤ HEADER_CAP) : readCafInfo (writeCafInfo used es) = es := by
  apply caf_info_roundtrip_cap _ es h _ hcap
  have := cafNeed_le_stored es
  unfold SF_MAX_STRINGS at *
  omega

example : readCafInfo (writeCafInfo 20 [(1, ascii "T"), (8, ascii "a licence"), (16, ascii "genre")]) =
    [(1, ascii "T"), (8, ascii "a licence"), (16, ascii "genre")] := by decide +kernel

/-- more than 16 KiB of strings now come back … -/
example : readCafInfo (writeCafInfo 16372 [(1, [84]), (5, List.replicate 16367 99), (4, [65])]) =
    [(1, [84]), (5, List.replicate 16367 99), (4, [65])] := by
  apply caf_info_roundtrip
  · intro e he
    simp only [List.mem_cons, List.mem_nil_iff, or_false] at he
    rcases he with rfl | rfl | rfl
    · exact ⟨by decide, by decide⟩
    · refine ⟨?_, by decide⟩
      intro b hb; rw [(List.mem_replicate.mp hb).2]; decide
    · exact ⟨by decide, by decide⟩
  · decide
  · decide +kernel
  · decide +kernel

/-- … where the fixed 16 KiB buffer dropped the string that did not fit, silently -/
theorem caf_buffer_limit_old_rule :
    readCafInfo (writeCafInfoOld [(1, [84]), (5, List.replicate 16367 99), (4, [65])]) = [(1, [84]), (4, [65])] := by decide +kernel

/-- the old writer's round trip under its limit `cafNeed es < 16384` -/
theorem caf_info_roundtrip_16k_old_rule (es : List (Nat × List Byte)) (h : ∀ e ∈ es, cafOk e) (hfit : cafNeed es < CAF_BUF) :
    readCafInfo (writeCafInfoOld es) = es :=
  caf_info_roundtrip_cap CAF_BUF es h hfit (by unfold CAF_BUF at hfit; unfold HEADER_CAP; omega)

/-! ## channel layout tags -/

theorem find_by_tag_of_nodup (l : List (Nat × Option (List Nat))) (hn : (l.map (·.1)).Nodup) (e : Nat × Option (List Nat)) (he : e ∈ l) :
    l.find? (fun x => decide (x.1 = e.1)) = some e := by
  induction l with
  | nil => simp at he
  | cons a t ih =>
    simp only [List.map_cons, List.nodup_cons] at hn
    rcases List.mem_cons.mp he with rfl | he'
    · simp [List.find?_cons]
    · have hne : ¬ a.1 = e.1 := by
        intro h; apply hn.1; rw [h]; exact List.mem_map_of_mem he'
      simp [List.find?_cons, hne, ih hn.2 he']

/-- the tags of chanmap.c are pairwise different and fit 32 bits (checked on the table extracted from the source) -/
theorem layout_tags_nodup : (layoutTable.map (·.1)).Nodup := by decide +kernel
theorem layout_tags_lt : ∀ e ∈ layoutTable, e.1 < 2 ^ 32 := by decide +kernel

/-- channel map round trip for AIFF (`CHAN`) and CAF (`chan`): whenever SFC_SET_CHANNEL_MAP_INFO finds a layout tag for the
    caller's map, the re-opened file returns exactly that map -/
theorem chan_roundtrip (caf : Bool) (m : List Nat) (h : findTag m ≠ 0) : readChan caf m.length (be4 (findTag m)) = some m := by
  unfold findTag findTagIn at h
  split at h
  · simp at h
  · rename_i hr
    split at h
    · rename_i e hf
      have hmem := List.mem_of_find?_eq_some hf
      have hp := List.find?_some hf
      simp only [Bool.and_eq_true, decide_eq_true_eq] at hp
      obtain ⟨hlen, hmap⟩ := hp
      have htag : findTag m = e.1 := by
        unfold findTag findTagIn; rw [if_neg hr, hf]
      have hlt := layout_tags_lt e hmem
      unfold readChan
      rw [htag, List.take_of_length_le (by simp), ofBE_be4 hlt]
      unfold ofTag ofTagIn
      have hcond : ¬ e.1 % 65536 ≥ layoutGroups := by omega
      have hfind := find_by_tag_of_nodup _ layout_tags_nodup e hmem
      obtain ⟨t, om⟩ := e
      simp only at hlen hmap hcond hfind
      subst hmap
      dsimp only
      simp only [if_neg hcond, hfind]
      congr 1
      apply List.take_of_length_le
      have hg : layoutGroups ≤ 256 := by decide
      cases caf <;> simp <;> omega
    · simp at h

example : findTag [2, 3] = 6619138 ∧ readChan false 2 (be4 6619138) = some [2, 3] ∧ findTag [3, 4] = 0 := by decide +kernel

/-! ## AIFF markers -/

theorem pascal_spec (name : List Byte) (hl : name.length ≤ 253) (hz : ∀ b ∈ name, b ≠ 0) :
    ∃ (size : Nat) (body : List Byte), pascal name = size :: body ∧ size % 2 = 1 ∧ body.length = size ∧
      1 + size = name.length + 1 + (if (name.length + 1) % 2 = 0 then 0 else 1) ∧ cstr body = name := by
  unfold pascal pascalW
  rcases Nat.mod_two_eq_zero_or_one name.length with he | ho
  · have hne : ¬ name.length % 2 = 1 := by omega
    have h1 : (name.length + 1) % 2 = 1 := by omega
    refine ⟨name.length + 1, name ++ [0], ?_, h1, by simp, ?_, ?_⟩
    · simp only [hne, if_false]
      rw [Nat.min_eq_left (by omega)]
      congr 1
      have hz256 : zeros 256 = 0 :: zeros 255 := rfl
      rw [hz256, show name ++ 0 :: zeros 255 = (name ++ [0]) ++ zeros 255 by simp]
      exact take_front _ _ _ (by simp)
    · simp [h1]; omega
    · simpa using cstr_append_zero2 name [] hz
  · have h0 : (name.length + 1) % 2 = 0 := by omega
    refine ⟨name.length, name, ?_, ho, rfl, ?_, cstr_no_zero name hz⟩
    · simp only [ho, if_true]
      rw [Nat.min_eq_left (by omega)]
      simp
    · simp [h0]; omega

/-- repaired (KF-C12-AIFF-CUE-NAME-254): names of 254 and 255 characters — the longest SF_CUE_POINT.name holds — are written with an odd
    count and an even total, exactly the bytes `markStringLength` counts for the MARK chunk size -/
theorem pascal_254_255 :
    (pascal (List.replicate 254 110)).length = 256 ∧ (pascal (List.replicate 255 110)).length = 256 ∧
    (pascal (List.replicate 254 110)).head? = some 255 ∧
    markStringLength ⟨1, 2, List.replicate 254 110⟩ = 256 ∧ markStringLength ⟨1, 2, List.replicate 255 110⟩ = 256 := by decide +kernel

/-- the rule before the repair wrote 255 bytes where the chunk size counts 256: the MARK chunk was one byte short -/
theorem pascal_254_old_rule :
    (pascalOld (List.replicate 254 110)).length = 255 ∧ (pascalOld (List.replicate 255 110)).length = 255 ∧
    (pascalOld (List.replicate 253 110)) = pascal (List.replicate 253 110) := by decide +kernel

theorem serMark_length (m : Mark) (h : m.ok) : (serMark m).length = 6 + markStringLength m := by
  obtain ⟨_, _, hl, hz⟩ := h
  obtain ⟨size, body, hp, _, hb, hsz, _⟩ := pascal_spec m.name hl hz
  simp only [serMark, hp, List.length_append, be2_length, be4_length, List.length_cons, hb, markStringLength]; omega

/-- one marker is read back as it was written, and the walk goes on behind it -/
theorem parseMarks_mark (n : Nat) (m : Mark) (rest : List Byte) (h : m.ok) :
    parseMarks (n + 1) (serMark m ++ rest) = m :: parseMarks n rest := by
  obtain ⟨hid, hpos, hl, hz⟩ := h
  obtain ⟨size, body, hp, hodd, hb, _, hcs⟩ := pascal_spec m.name hl hz
  have hmod : m.id % 65536 = m.id := Nat.mod_eq_of_lt hid
  simp only [serMark, hp, hmod, List.append_assoc, List.cons_append]
  rw [parseMarks]
  rw [if_neg (by simp; omega)]
  have g6 : (be2 m.id ++ (be4 m.position ++ size :: (body ++ rest))).getD 6 0 = size := by
    rw [show be2 m.id ++ (be4 m.position ++ size :: (body ++ rest)) = (be2 m.id ++ be4 m.position) ++ size :: (body ++ rest) by simp]
    rw [List.getD_eq_getElem?_getD, List.getElem?_append_right (by simp)]
    simp
  have d7 : (be2 m.id ++ (be4 m.position ++ size :: (body ++ rest))).drop 7 = body ++ rest := by
    rw [show be2 m.id ++ (be4 m.position ++ size :: (body ++ rest)) = (be2 m.id ++ be4 m.position ++ [size]) ++ (body ++ rest) by simp]
    exact drop_front _ _ 7 (by simp)
  have d7p : (be2 m.id ++ (be4 m.position ++ size :: (body ++ rest))).drop (7 + size) = rest := by
    rw [← List.drop_drop, d7]; exact drop_front _ _ _ hb
  simp only [g6, hodd, if_true, d7, d7p, take_front _ _ 2 (be2_length _), drop_front _ _ 2 (be2_length _), take_front _ _ 4 (be4_length _),
    ofBE_be2 hid, ofBE_be4 hpos, take_front _ _ _ hb, hcs]
  rw [List.take_of_length_le (by omega)]

theorem parseMarks_all (ms : List Mark) (h : ∀ m ∈ ms, m.ok) : parseMarks ms.length (ms.flatMap serMark) = ms := by
  induction ms with
  | nil => simp [parseMarks]
  | cons m t ih =>
    simp only [List.length_cons, List.flatMap_cons]
    rw [parseMarks_mark _ m _ (h m (by simp)), ih (fun m hm => h m (by simp [hm]))]

theorem flatMap_serMark_length (ms : List Mark) (h : ∀ m ∈ ms, m.ok) :
    (ms.flatMap serMark).length = ms.length * 6 + (ms.map markStringLength).sum := by
  induction ms with
  | nil => simp
  | cons m t ih =>
    simp only [List.flatMap_cons, List.length_append, serMark_length m (h m (by simp)), ih (fun m hm => h m (by simp [hm])), List.length_cons,
      List.map_cons, List.sum_cons]; omega

/-- AIFF markers: 16-bit id, position and name (at most 253 bytes, no NUL) survive, for up to 2500 markers -/
theorem mark_roundtrip (ms : List Mark) (hn : ms.length ≤ 2500) (h : ∀ m ∈ ms, m.ok) : readMarks (writeMarks ms) = some ms := by
  have hlen := flatMap_serMark_length ms h
  have hsum : (ms.map markStringLength).sum ≤ 256 * ms.length := by
    clear hlen
    induction ms with
    | nil => simp
    | cons m t ih =>
      have := (h m (by simp)).2.2.1
      have := ih (by simp at hn; omega) (fun m hm => h m (by simp [hm]))
      simp only [List.map_cons, List.sum_cons, List.length_cons, markStringLength]; split <;> omega
  unfold readMarks writeMarks
  simp only [List.append_assoc]
  have e4 : (mk "MARK").length = 4 := by decide
  rw [drop_front_add (mk "MARK") _ 4 0 e4, drop_front_add (mk "MARK") _ 4 4 e4]
  simp only [List.drop_zero, take_front _ _ 4 (be4_length _), drop_front _ _ 4 (be4_length _), ofBE_be4 (show 2 + ms.length * 6 + (ms.map markStringLength).sum < 2 ^ 32 by omega)]
  have htake : (be2 ms.length ++ ms.flatMap serMark).take (2 + ms.length * 6 + (ms.map markStringLength).sum) = be2 ms.length ++ ms.flatMap serMark :=
    List.take_of_length_le (by simp only [List.length_append, be2_length, hlen]; omega)
  rw [htake]
  simp only [take_front _ _ 2 (be2_length _), drop_front _ _ 2 (be2_length _), ofBE_be2 (show ms.length < 2 ^ 16 by omega)]
  rw [if_neg (by omega), parseMarks_all ms h]

example : readMarks (writeMarks [⟨1, 10, ascii "one"⟩, ⟨7, 20, ascii "even"⟩, ⟨9, 30, []⟩]) = some [⟨1, 10, ascii "one"⟩, ⟨7, 20, ascii "even"⟩, ⟨9, 30, []⟩] := by
  decide +kernel

/-- the cue fields AIFF has no place for come back as 0 / 'data' (an assumption of the check, stated here as what the model does) -/
example : cueOfMark (markOfCue ⟨70000, 5, 7, 8, 9, 44, ascii "n"⟩) = ⟨70000 % 65536, 0, 0x61746164, 0, 0, 44, ascii "n"⟩ := by decide

end Sf.MetaX
