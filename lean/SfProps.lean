import SfProps.C20
