import SfProps.C20
import SfProps.C02
