import SfProps.C20
import SfProps.C02
import SfProps.C13
import SfProps.C20Adpcm
import SfProps.C10
import SfProps.C02Float
