/-
  SfModel.OpenGate — psf_open_file (src/sndfile.c), with the container's open function as a PARAMETER:
  whatever a parser leaves behind (`Parsed`, arbitrary), what does sf_open return and what is sf_errno.

  The SFE_* numbers are not written here: `Errs` is instantiated on every run from the tree's own
  common.h (harness `sfh c03consts`, SfModel/Generated/C03Consts.lean).
-/
import SfModel.Basic
namespace Sf.OpenGate

structure SfInfo where
  frames : Int
  samplerate : Int
  channels : Int
  format : Int
  sections : Int
  seekable : Int
deriving Repr, DecidableEq, Inhabited

/-- the error numbers psf_open_file itself can produce -/
structure Errs where
  unrecognised : Int      -- SF_ERR_UNRECOGNISED_FORMAT
  badOpenMode : Int
  badSfInfoPtr : Int
  rawBadFormat : Int
  badOffset : Int
  noEmbeddedRdwr : Int
  zeroMajor : Int
  zeroMinor : Int
  badOpenFormat : Int
  noEmbedSupport : Int
  badModeRw : Int
  badSfInfo : Int
  internal : Int
deriving Repr, DecidableEq, Inhabited

def Errs.nonzero (E : Errs) : Prop :=
  E.unrecognised ≠ 0 ∧ E.badOpenMode ≠ 0 ∧ E.badSfInfoPtr ≠ 0 ∧ E.rawBadFormat ≠ 0 ∧ E.badOffset ≠ 0 ∧
  E.noEmbeddedRdwr ≠ 0 ∧ E.zeroMajor ≠ 0 ∧ E.zeroMinor ≠ 0 ∧ E.badOpenFormat ≠ 0 ∧ E.noEmbedSupport ≠ 0 ∧
  E.badModeRw ≠ 0 ∧ E.badSfInfo ≠ 0 ∧ E.internal ≠ 0

instance (E : Errs) : Decidable E.nonzero := by unfold Errs.nonzero; infer_instance

def SFM_READ : Int := 0x10
def SFM_WRITE : Int := 0x20
def SFM_RDWR : Int := 0x30
def SF_MAX_CHANNELS : Int := 1024

/-- SF_CONTAINER (x) = x & 0x0FFF0000, SF_CODEC (x) = x & 0xFFFF, on the 32-bit pattern of the C int -/
def container (fmt : Int) : Nat := (wrapU 32 fmt) &&& 0x0FFF0000
def codec (fmt : Int) : Nat := (wrapU 32 fmt) &&& 0xFFFF

def FMT_WAV : Nat := 0x010000
def FMT_AIFF : Nat := 0x020000
def FMT_AU : Nat := 0x030000
def FMT_RAW : Nat := 0x040000
def FMT_WAVEX : Nat := 0x130000
def FMT_FLAC : Nat := 0x170000
def FMT_MPEG : Nat := 0x230000

/-- what the container open function (wav_open, aiff_open, …) returned and left in SF_PRIVATE -/
structure Parsed where
  error : Int            -- its return value
  sf : SfInfo            -- psf->sf
  datalength : Int
  dataoffset : Int
  blockwidth : Int
  bytewidth : Int
deriving Repr, DecidableEq, Inhabited

/-- everything else psf_open_file looks at -/
structure Ctx where
  psfError : Int := 0        -- psf->error on entry (psf_fopen failed, …)
  mode : Int := 0x10
  sfinfoNull : Bool := false
  inFormat : Int := 0        -- sfinfo->format as passed by the caller
  rawCheck : Bool := true    -- sf_format_check (sfinfo), consulted for a RAW read
  fileoffset : Int := 0      -- > 0: embedded (sf_open_fd on a positioned descriptor)
  filelength : Int := 0
  endPos : Int := 0          -- psf_ftell after seeking to the end (embedded SFM_WRITE only)
  wrCheck : Bool := true     -- sf_format_check (&psf->sf) in the write / empty-RDWR branch
  dispatchKnown : Bool := true  -- the `switch (SF_CONTAINER (psf->sf.format))` has a case for it
  rwCheck : Bool := true     -- sf_format_check (&psf->sf) after the parser, consulted for RDWR
deriving Repr, DecidableEq, Inhabited

inductive Result where
  | ok (info : SfInfo)       -- non-NULL handle, *sfinfo on return
  | error (sfErrno : Int)    -- NULL, sf_error (NULL)
deriving Repr, DecidableEq, Inhabited

def validateSfinfo (i : SfInfo) : Bool :=
  if i.samplerate < 1 then false
  else if i.frames < 0 then false
  else if i.channels < 1 ∨ i.channels > SF_MAX_CHANNELS then false
  else if container i.format = 0 then false
  else if codec i.format = 0 then false
  else if i.sections < 1 then false
  else true

def validatePsf (p : Parsed) : Bool :=
  if p.datalength < 0 then false
  else if p.dataoffset < 0 then false
  else if p.blockwidth ≠ 0 ∧ p.blockwidth ≠ p.sf.channels * p.bytewidth then false
  else true

def embedOk (c : Nat) : Bool :=
  c = FMT_WAV ∨ c = FMT_WAVEX ∨ c = FMT_AIFF ∨ c = FMT_AU ∨ c = FMT_MPEG ∨ c = FMT_FLAC

/-- the checks of psf_open_file in program order: (does this one fire?, the value `error` gets).
    The first that fires decides. -/
def firstError : List (Bool × Int) → Option Int
  | [] => none
  | (b, e) :: rest => if b then some e else firstError rest

def checks (E : Errs) (c : Ctx) (p : Parsed) : List (Bool × Int) :=
  let fileoffset := if c.fileoffset > 0 ∧ c.mode = SFM_WRITE then c.endPos else c.fileoffset
  let writing : Bool := c.mode = SFM_WRITE ∨ (c.mode = SFM_RDWR ∧ c.filelength = 0)
  [ (decide (c.psfError ≠ 0), c.psfError),
    (decide (c.mode ≠ SFM_READ ∧ c.mode ≠ SFM_WRITE ∧ c.mode ≠ SFM_RDWR), E.badOpenMode),
    (c.sfinfoNull, E.badSfInfoPtr),
    (decide (c.mode = SFM_READ ∧ container c.inFormat = FMT_RAW) && !c.rawCheck, E.rawBadFormat),
    (decide (c.fileoffset > 0 ∧ c.mode = SFM_READ ∧ c.filelength < 44), E.badOffset),
    (decide (c.fileoffset > 0 ∧ c.mode = SFM_RDWR), E.noEmbeddedRdwr),
    (writing && decide (container c.inFormat = 0), E.zeroMajor),
    (writing && decide (codec c.inFormat = 0), E.zeroMinor),
    (writing && !c.wrCheck, E.badOpenFormat),
    (!c.dispatchKnown, E.unrecognised),                 -- `default :` of the container switch
    (decide (p.error ≠ 0), p.error),                    -- `if (error) goto error_exit`
    (decide (fileoffset > 0) && !embedOk (container p.sf.format), E.noEmbedSupport),
    (decide (c.mode = SFM_RDWR) && !c.rwCheck, E.badModeRw),
    (!validateSfinfo p.sf, E.badSfInfo),
    (!validatePsf p, E.internal) ]

/-- psf_open_file.  `error_exit` stores the *unmapped* code in sf_errno (the mapping to
    SF_ERR_MALFORMED_FILE afterwards only changes a local that is then discarded), so that is what
    sf_error (NULL) shows. -/
def openFile (E : Errs) (c : Ctx) (p : Parsed) : Result :=
  match firstError (checks E c p) with
  | some e => .error e
  | none =>
    if c.mode = SFM_WRITE then .ok { p.sf with frames := 0, sections := 0, seekable := 0 }
    else .ok p.sf

end Sf.OpenGate
