/-
  SfModel.AlacMatrix — the matrixing of src/ALAC/matrix_dec.c (`unmix16 / 20 / 24 / 32`) and matrix_enc.c (`mix16 / 20 / 24 /
  32`), namespace Sf.AlacCore. Per sample pair; int32 arithmetic wraps.

      mix:    u = (mixres * l + (2^mixbits - mixres) * r) >> mixbits,   v = l - r
      unmix:  l = u + v - ((mixres * v) >> mixbits),                    r = l - v

  `mixbits` is a byte of the packet: a shift count of 32 or more is undefined in C (the decoder model refuses it as
  `unmodelled`; the encoder always writes 2).
-/
import SfModel.AlacBits
namespace Sf.AlacCore

/-- the matrixed-stereo inverse of one pair: (l, r) -/
def unmixLR (mixbits : Nat) (mixres u v : Int) : Int × Int :=
  let l := w32 (w32 (u + v) - asr (w32 (mixres * v)) mixbits)
  (l, w32 (l - v))

/-- the matrixing of one pair: (u, v) -/
def mixUV (mixbits : Nat) (mixres l r : Int) : Int × Int :=
  (asr (w32 (w32 (mixres * l) + w32 (w32 ((2 : Int) ^ mixbits - mixres) * r))) mixbits, w32 (l - r))

/-- `unmix16 / 20 / 24 / 32` for one pair into caller ints: `sh` = (shiftUV [k], shiftUV [k + 1]) when bytes were shifted
    off; `none` = a bit depth the `switch` of alac_decode does not know -/
def unmixPair (depth bytesShifted mixbits : Nat) (mixres : Int) (u v : Int) (sh : Nat × Nat) : Option (Int × Int) :=
  let lr := if mixres ≠ 0 then unmixLR mixbits mixres u v else (u, v)
  let shift := 8 * bytesShifted
  if depth = 16 then some (shl32 lr.1 16, shl32 lr.2 16)
  else if depth = 20 then some (shl32 lr.1 12, shl32 lr.2 12)
  else if depth = 24 then
    if bytesShifted ≠ 0 then some (shl32 (w32 (shl32 lr.1 shift + sh.1)) 8, shl32 (w32 (shl32 lr.2 shift + sh.2)) 8)
    else some (shl32 lr.1 8, shl32 lr.2 8)
  else if depth = 32 then
    -- unmix32: the matrixed branch ors `shiftUV` in even when no bytes were shifted off (shift 0); the caller hands over what the
    -- shift buffer's memory holds then
    if mixres ≠ 0 ∨ bytesShifted ≠ 0 then some (orU32 (shl32 lr.1 shift) sh.1, orU32 (shl32 lr.2 shift) sh.2)
    else some lr
  else none

end Sf.AlacCore
