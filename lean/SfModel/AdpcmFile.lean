/-
  SfModel.AdpcmFile — the WRITE side of IMA ADPCM (WAV / W64 layout, AIFF `ima4` layout) and MS ADPCM as a handle sees it:
  the geometry `wav_open` / `w64_open` / `aiff_open` hand to `wavlike_ima_init` / `aiff_ima_init` / `wavlike_msadpcm_init`,
  `ima_writer_init`, `ima_write_block` / `msadpcm_write_block`, the four write entry points with their conversions and
  4096-short staging, `ima_close` / `msadpcm_close`, the frame count a re-open computes, `sf_seek` on the writing handle.

  The writers are instances of the generic block writer (SfModel/Block.lean) with the REAL encoders of SfModel/AdpcmEnc.lean.
  The encoders change the `samples` buffer (codes / reconstructions are written back, one channel's worth is cleared, the
  AIFF layout leaves it alone); the generic writer keeps the caller's items in its buffer, so the buffer as the encoder left
  it travels in the encoder state (`ES.stale`).  It is observable in exactly one place: `ima_close` / `msadpcm_close` encode
  a partly filled block as it stands — new frames first, then whatever the last encode left behind them:
      WAV layouts, 1 channel   zeros                                  (the whole buffer was cleared)
      IMA WAV, 2 channels      zeros up to item `samplesperblock`, then the 4-bit codes of the block before
      MS, 2 channels           zeros up to item `samplesperblock`, then the reconstructed samples of the block before
      IMA AIFF                 the frames of the block before (nothing is ever cleared)
  (the first block of a file is padded with zeros in every layout: `calloc`).

  Core Lean only.
-/
import SfModel.AdpcmEnc
import SfModel.Block
import SfModel.BlockConv
import SfModel.AdpcmReader
import SfModel.Geometry
namespace Sf.AdpcmEnc
open Sf.Float Sf.Block Sf.Adpcm

inductive Kind | imaWav | imaAiff | ms
deriving Repr, DecidableEq, Inhabited

/-- what the `*_init` functions are handed / compute: channels, `blocksize`, `samplesperblock` -/
structure Geo where
  kind : Kind
  ch   : Nat
  ba   : Nat      -- pima->blocksize / pms->blocksize (AIFF: one channel's packet, 34)
  spb  : Nat
deriving Repr, DecidableEq

/-- `wav_open` / `w64_open`: `blockalign = wavlike_srate2blocksize (samplerate * channels)` (the product formed in a C int:
    it wraps from 2^31 on, SfModel/Geometry.lean); `aiff_open`: AIFC_IMA4_BLOCK_LEN = 34.  `ima_writer_init` /
    `wavlike_msadpcm_init` (mode SFM_WRITE) derive `samplesperblock`. -/
def geoOf (kind : Kind) (sr ch : Nat) : Geo :=
  match kind with
  | .imaWav  => let ba := Geometry.srate2blocksize (sr * ch); ⟨kind, ch, ba, 2 * (ba - 4 * ch) / ch + 1⟩
  | .imaAiff => ⟨kind, ch, 34, 2 * ((34 - 2) * ch) / ch⟩
  | .ms      => let ba := Geometry.srate2blocksize (sr * ch); ⟨kind, ch, ba, 2 + 2 * (ba - 7 * ch) / ch⟩

/-- bytes one encode call writes -/
def Geo.blockBytes (g : Geo) : Nat := if g.kind = .imaAiff then g.ch * g.ba else g.ba

/-- `wavlike_msadpcm_init`: `samplesperblock < 7 * channels` and `2 * blockalign < samplesperblock * channels` are refused -/
def Geo.initOk (g : Geo) : Bool :=
  (g.ch = 1 || g.ch = 2) && (g.kind != .ms || (7 * g.ch ≤ g.spb && g.spb * g.ch ≤ 2 * g.ba))

/-! ## conversions of the caller types -/

/-- `SF_BUFFER_LEN / sizeof (short)` -/
def chunkLen : Nat := 4096
/-- the short entry points hand the caller's buffer through (pieces of 0x10000000 items), the others stage 4096 shorts -/
def chunkOf (ty : Ty) : Nat := if ty = .s16 then 0 else chunkLen

/-- `normfact = (psf->norm_float == SF_TRUE) ? (1.0 * 0x7FFF) : 1.0` -/
def normfact (on : Bool) : Dy := if on then ⟨false, 32767, 0⟩ else pow2 0

/-- `ima_write_s/i/f/d`, `msadpcm_write_s/i/f/d`: what a caller item becomes in `short sptr [k]`.  No clipping, whatever
    SFC_SET_CLIPPING says: the rounded product is truncated to a `short`. -/
def toCodec (cv : Conv) (ty : Ty) (v : Int) : Int :=
  match ty with
  | .s16 => v
  | .s32 => asr v 16                                                                    -- ptr [k] >> 16
  | .f32 => wrapS 16 (lrintInt cv.variant (mulNf f32 (normfact cv.normF) v.toNat))        -- psf_lrintf (normfact * ptr [k])
  | .f64 => wrapS 16 (lrintInt cv.variant (mulNf f64 (normfact cv.normD) v.toNat))        -- psf_lrint (normfact * ptr [k])

/-! ## the writers -/

/-- cross-block encoder state: the two IMA channels, and the `samples` buffer as the last encode call left it -/
structure ES where
  st    : Ch × Ch := ({}, {})
  stale : List Int := []
deriving Repr

def ES.init (g : Geo) : ES := { stale := zeros (g.spb * g.ch) }

/-- `pima->encode_block` / `msadpcm_encode_block` -/
def encOf (g : Geo) (es : ES) (buf : List Int) : ES × List Byte :=
  match g.kind with
  | .imaWav  => let r := imaWavEncodeBlock g.ch g.spb es.st buf; (⟨r.1, r.2.2⟩, r.2.1)
  | .imaAiff => let r := imaAiffEncodeBlock g.ch es.st buf; (⟨r.1, r.2.2⟩, r.2.1)
  | .ms      => let r := msEncodeBlock g.ch g.spb buf; (⟨es.st, r.2⟩, r.1)

/-- the block writer with the real encoder -/
def writer (g : Geo) : Writer ES := { spb := g.spb, ch := g.ch, enc := encOf g }

def initW (g : Geo) : WState ES := (writer g).init (ES.init g)

/-- `sf_write_T` / `sf_writef_T` of caller items -/
def writeCall (g : Geo) (cv : Conv) (ty : Ty) (st : WState ES) (vs : List Int) : WState ES :=
  let xs := vs.map (toCodec cv ty)
  (writer g).writeChunked (chunkOf ty) (xs.length + 1) st xs xs.length

/-- `ima_close` / `msadpcm_close`: `if (samplecount && samplecount < samplesperblock) encode_block ()` on the buffer as it
    stands: the pending frames, behind them what the last encode call left -/
def closeSt (g : Geo) (st : WState ES) : WState ES :=
  if st.cnt = 0 then st
  else (writer g).emit { st with buf := st.buf.take (st.cnt * g.ch) ++ st.es.stale.drop (st.cnt * g.ch) }

def session (g : Geo) (cv : Conv) (calls : List (Ty × List Int)) : WState ES :=
  calls.foldl (fun st c => writeCall g cv c.1 st c.2) (initW g)

/-- the data region after `sf_close` -/
def closedBytes (g : Geo) (cv : Conv) (calls : List (Ty × List Int)) : List Byte :=
  (closeSt g (session g cv calls)).bytes

/-- `psf->sf.frames` right after the open for write: `wav_open` and `aiff_open` clear it; `w64_open` sets it, for the two
    ADPCM encodings, to the "stupidly high" file length SF_COUNT_MAX - 10000 -/
def openFrames (w64 : Bool) : Nat := if w64 then 2 ^ 63 - 1 - 10000 else 0

/-- `psf->sf.frames` as the close functions leave it for the header writer (`fact` chunk of WAV / W64, numSampleFrames of
    AIFF): `ima_close` stores `samplesperblock * blockcount / channels` (blockcount = encode calls; the division by the
    channel count halves the value for two channels); `msadpcm_close` stores nothing: the field keeps the larger of what the
    open left there and the count of frames written (in a W64 file: SF_COUNT_MAX - 10000) -/
def headerFrames (g : Geo) (nblk written openF : Nat) : Nat :=
  if g.kind = .ms then max openF written else g.spb * nblk / g.ch

/-- the header field itself: AIFF-C stores the number of 64-frame packets (`sf.frames / AIFC_IMA4_SAMPLES_PER_BLOCK`) -/
def headerField (g : Geo) (hf : Nat) : Nat := if g.kind = .imaAiff then hf / 64 else hf

/-! ## re-open -/

/-- frames a reader finds in a data region of `n` bytes: `ima_reader_init` (WAV: `samplesperblock * blocks`, AIFF:
    `samplesperblock * blocks / channels` with `blocks` counted in 34-byte packets), `wavlike_msadpcm_init`
    (`(datalength / blocksize) * samplesperblock`) -/
def framesAtOpen (g : Geo) (n : Nat) : Nat :=
  let blocks := if n % g.ba ≠ 0 then n / g.ba + 1 else n / g.ba
  match g.kind with
  | .imaWav  => g.spb * blocks
  | .imaAiff => g.spb * blocks / g.ch
  | .ms      => n / g.ba * g.spb

/-- the block decoder of the layout -/
def decOf (g : Geo) : List Byte → List Int :=
  match g.kind with
  | .imaWav  => imaWavDecodeBlock g.ch g.spb
  | .imaAiff => imaAiffDecodeBlock g.ch g.ba g.spb
  | .ms      => msDecodeBlock g.ch g.spb

/-- the block reader over a data region.  WAV layouts: `Block.imaWavReader` / `Block.msReader` themselves.  AIFF layout: one
    reader block = the `channels` packets of one encode call; this describes `ima_reader_init` for data regions that are a
    whole number of such groups (every library-written file), not for a region that ends between two packets of a frame group. -/
def readerOf (g : Geo) (data : List Byte) : Reader := adpcmReader (decOf g) g.ch g.blockBytes g.spb data

/-! ## sf_seek on the writing handle -/

/-- result of `sf_seek` (absolute target `off` ≥ 0 already resolved, not `SEEK_CUR 0`) on a handle opened with SFM_WRITE:
    `ret = none`: refused (−1, error set). -/
structure SeekW where
  ret     : Option Nat
  restart : Bool          -- file position back at the data offset, block counter cleared
  dropped : Bool          -- the block DECODER ran: the frames pending in the buffer are forgotten
deriving Repr, DecidableEq

/-- `wavlike_ima_seek` / `aiff_ima_seek` / `msadpcm_seek` with mode SFM_WRITE.
    * IMA, both layouts: every target is refused and nothing changes.
    * MS: target 0 "succeeds" — `msadpcm_seek` rewinds the file to the data offset, runs the block decoder (which forgets the
      frames pending in the buffer) and returns 0: the handle starts over; any other target is refused (`blocks` is 0 on a
      writer, so every positive target is out of range). -/
def seekWrite (g : Geo) (off : Nat) : SeekW :=
  match g.kind with
  | .imaWav  => ⟨none, false, false⟩
  | .imaAiff => ⟨none, false, false⟩
  | .ms      => if off = 0 then ⟨some 0, true, true⟩ else ⟨none, false, false⟩

/-- the rule before the repair of KF-IMA-WAV-SEEK-WRITE: `wavlike_ima_seek` moved the file position to the data offset and
    cleared `blockcount` BEFORE it noticed that a writer has no decoder — the seek to frame 0 was refused (−1) and the blocks
    written from then on replaced the first blocks of the file -/
def seekWriteOld (g : Geo) (off : Nat) : SeekW :=
  match g.kind with
  | .imaWav  => if off = 0 then ⟨none, true, false⟩ else ⟨none, false, false⟩
  | _        => seekWrite g off

end Sf.AdpcmEnc
