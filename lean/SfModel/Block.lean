/-
  SfModel.Block — the generic block reader and block writer shared (in shape) by the PAF24, SDS, IMA, MS-ADPCM and
  GSM codecs of libsndfile (`paf24_read`/`paf24_write`, `sds_read`/`sds_write`, …).

  Reader:  "decode block k into a buffer of `spb` frames; copy min (remaining, left in block) items; reload on
            exhaustion; seek k = load block k / spb, skip k % spb".
  Writer:  "accumulate into the block buffer; encode + emit when full; flush at close".

  The loops work on *items* (frames × channels) exactly as the C does, including `count / channels`
  truncating when an inner call does not hold a whole number of frames (the staging loops of the short/float/
  double wrappers cut the caller's buffer every 2048 items — known finding KF-PAF24-CHUNK).

  Block numbering: the C keeps `read_block` = number of blocks loaded so far (1-based: the loaded block is
  `read_block - 1`); here `cur` is the index of the loaded block (`cur = read_block - 1`).

  Core Lean only.
-/
import SfModel.Basic
namespace Sf.Block

def zeros (n : Nat) : List Int := List.replicate n 0

/-! ## reader -/

structure Reader where
  spb    : Nat                 -- frames per block
  ch     : Nat                 -- channels
  frames : Nat                 -- the codec's own frame bound (`sample_count` / `psds->frames`)
  src    : Nat → List Int      -- decodeBlock k : the `spb * ch` items of block k

structure RState where
  cur : Nat                    -- index of the loaded block (C: read_block - 1)
  cnt : Nat                    -- frames of it already delivered (C: read_count)
  buf : List Int               -- its decoded items (C: samples / read_samples)
deriving Repr

def Reader.load (r : Reader) (k : Nat) : RState := ⟨k, 0, r.src k⟩
/-- state after `*_init`: "Read first block." -/
def Reader.init (r : Reader) : RState := r.load 0
/-- `paf24_seek` / `sds_seek` (mode SFM_READ): load block k / spb, then `read_count = k % spb` -/
def Reader.seek (r : Reader) (k : Nat) : RState := ⟨k / r.spb, k % r.spb, r.src (k / r.spb)⟩

/-- frame index of the next frame delivered -/
def Reader.pos (r : Reader) (st : RState) : Nat := st.cur * r.spb + st.cnt

/-- the reload at the top of an iteration: `if (read_count >= spb) read_block ()` -/
def Reader.reload (r : Reader) (st : RState) : RState :=
  if st.cnt ≥ r.spb then r.load (st.cur + 1) else st

/-- `paf24_read` / `sds_read`: one inner call for `n` items. Returns (state, the n items of the caller's
    buffer, `total`).  `fuel` bounds the iterations (each consumes at least one item). -/
def Reader.readLoop (r : Reader) : Nat → RState → Nat → RState × List Int × Nat
  | 0, st, n => (st, zeros n, 0)
  | fuel + 1, st, n =>
    if n = 0 then (st, [], 0)
    else if r.pos st ≥ r.frames then (st, zeros n, 0)           -- memset (&ptr [total], 0, …) ; return total
    else
      let st1 := r.reload st
      let count := min ((r.spb - st1.cnt) * r.ch) n
      let piece := (st1.buf.drop (st1.cnt * r.ch)).take count
      let st2 : RState := ⟨st1.cur, st1.cnt + count / r.ch, st1.buf⟩
      let (st3, d, t) := r.readLoop fuel st2 (n - count)
      (st3, piece ++ d, count + t)

def Reader.read (r : Reader) (st : RState) (n : Nat) : RState × List Int × Nat := r.readLoop (n + 1) st n

/-- the staging loop of `*_read_s/f/d`: the request is cut into inner calls of at most `chunk` items (0 = one call).
    Every inner call converts its whole `readcount` cells into the caller's buffer *at offset `total`*, and
    `total` advances by the count delivered, `len` by `readcount`; the loop does not stop at a short inner call.
    So after a short call the following (empty, zero-filled) calls land on top of its tail and the far end of the
    caller's buffer is never written.  `acc` = the cells written so far (a prefix of the caller's buffer),
    `total` = the running return value.  Returns (state, written prefix, total). -/
def Reader.readChunked (r : Reader) (chunk : Nat) : Nat → RState → Nat → List Int → Nat → RState × List Int × Nat
  | 0, st, _, acc, total => (st, acc, total)
  | fuel + 1, st, n, acc, total =>
    if n = 0 then (st, acc, total)
    else
      let rc := if chunk = 0 then n else min chunk n
      let (st1, d1, t1) := r.read st rc
      r.readChunked chunk fuel st1 (n - rc) (acc.take total ++ d1 ++ acc.drop (total + rc)) (total + t1)

/-- the decoded item stream: item i of the file -/
def Reader.itemAt (r : Reader) (i : Nat) : Int := ((r.src (i / (r.spb * r.ch))).drop (i % (r.spb * r.ch))).headD 0

/-- items [p, p + n) of the stream -/
def Reader.slice (r : Reader) (p n : Nat) : List Int := (List.range n).map fun i => r.itemAt (p + i)

/-! ## writer -/

structure Writer (σ : Type) where
  spb : Nat
  ch  : Nat
  enc : σ → List Int → σ × List Byte      -- encodeBlock: cross-block encoder state allowed

structure WState (σ : Type) where
  cnt : Nat                      -- frames in the buffer (write_count)
  buf : List Int                 -- the block buffer, always `spb * ch` items (old contents persist)
  es  : σ
  out : List (List Byte)         -- emitted blocks, newest first
  nblk : Nat := 0                -- blocks emitted

def Writer.init (w : Writer σ) (s0 : σ) : WState σ := ⟨0, zeros (w.spb * w.ch), s0, [], 0⟩

/-- `memcpy (&samples [off], piece, …)` -/
def overwrite (buf : List Int) (off : Nat) (piece : List Int) (len : Nat) : List Int :=
  buf.take off ++ piece ++ buf.drop (off + len)

/-- `*_write_block` when the buffer is full: encode, emit, `write_count = 0` -/
def Writer.emit (w : Writer σ) (st : WState σ) : WState σ :=
  let (es, bytes) := w.enc st.es st.buf
  { cnt := 0, buf := st.buf, es := es, out := bytes :: st.out, nblk := st.nblk + 1 }

/-- `paf24_write` / `sds_write`: one inner call with the items `xs` (`n = xs.length`). -/
def Writer.writeLoop (w : Writer σ) : Nat → WState σ → List Int → Nat → WState σ
  | 0, st, _, _ => st
  | fuel + 1, st, xs, n =>
    if n = 0 then st
    else
      let count := min ((w.spb - st.cnt) * w.ch) n
      let buf := overwrite st.buf (st.cnt * w.ch) (xs.take count) count
      let st1 : WState σ := { st with buf := buf, cnt := st.cnt + count / w.ch }
      let st2 := if st1.cnt ≥ w.spb then w.emit st1 else st1
      w.writeLoop fuel st2 (xs.drop count) (n - count)

def Writer.write (w : Writer σ) (st : WState σ) (xs : List Int) : WState σ :=
  let n := xs.length
  w.writeLoop (n + 1) st xs n

/-- staging loop of `*_write_s/f/d`: inner calls of at most `chunk` items (0 = one call) -/
def Writer.writeChunked (w : Writer σ) (chunk : Nat) : Nat → WState σ → List Int → Nat → WState σ
  | 0, st, _, _ => st
  | fuel + 1, st, xs, n =>
    if n = 0 then st
    else
      let wc := if chunk = 0 then n else min chunk n
      let st1 := w.writeLoop (wc + 1) st (xs.take wc) wc
      w.writeChunked chunk fuel st1 (xs.drop wc) (n - wc)

/-- flush at close: `if (write_count > 0) write_block ()`; `padZero` = the tail of the buffer is cleared first
    (sds_close does, paf24_close does not: the tail then still holds the previous block's frames) -/
def Writer.close (w : Writer σ) (padZero : Bool) (st : WState σ) : WState σ :=
  if st.cnt = 0 then st
  else
    let buf := if padZero then st.buf.take (st.cnt * w.ch) ++ zeros ((w.spb - st.cnt) * w.ch) else st.buf
    w.emit { st with buf := buf }

def WState.bytes (st : WState σ) : List Byte := st.out.reverse.flatten

end Sf.Block
