/-
  SfModel.AbsQuerySeek — the read wrapper's `last_op` rule next to the descriptor model of `*_get_chunk_data`
  (SfModel/AbsQuery.lean): WHICH way of "putting the descriptor back" works for WHICH codec.

      sf_read_T :   if (psf->last_op != SFM_READ)
                        if (psf->seek (psf, SFM_READ, psf->read_current) < 0)  return 0 ;      /* SFE_BAD_SEEK */
                    count = psf->read_T (psf, ptr, len) ;  psf->read_current += count / channels ;  psf->last_op = SFM_READ ;

  A query that moved the descriptor can (a) restore the byte offset — the codec is not involved — or (b) clear `last_op`, which makes
  the next read call the CODEC's seek function with the current frame.  (b) needs a codec that can seek there: dwvw_seek accepts
  frame 0 only, g72x_seek / nms_adpcm_seek refuse every call.  Core Lean only.
-/
import SfModel.AbsQuery
namespace Sf.AbsQS
open Sf Sf.AbsQ

/-- the codec side: which frames `psf->seek (psf, SFM_READ, k)` accepts, and the descriptor offset from which the decoder continues
    when `k` frames have been delivered (a function of the file) -/
structure Codec where
  canSeek : Nat → Bool
  offsetOf : Nat → Nat

/-- PCM, float, G.711, IMA / MS ADPCM, GSM 6.10 … : any frame -/
def anywhere (offsetOf : Nat → Nat) : Codec := ⟨fun _ => true, offsetOf⟩
/-- dwvw_seek: `if (offset == 0) { rewind } else SFE_BAD_SEEK` -/
def rewindOnly (offsetOf : Nat → Nat) : Codec := ⟨fun k => k == 0, offsetOf⟩
/-- g72x_seek, nms_adpcm_seek: always refused -/
def never (offsetOf : Nat → Nat) : Codec := ⟨fun _ => false, offsetOf⟩

structure H where
  fd : Nat                 -- the descriptor's offset
  lastRead : Bool          -- psf->last_op == SFM_READ
  rpos : Nat               -- psf->read_current
  err : Bool := false      -- SFE_BAD_SEEK latched
deriving Repr, DecidableEq

/-- between two reads of one handle: the last operation was a read and the descriptor is where the decoder continues -/
def Coherent (c : Codec) (h : H) : Prop := h.lastRead = true ∧ h.fd = c.offsetOf h.rpos

/-- the answer of a read of `n` frames (all available): frames returned, and whether the decoder took its bytes from the right place -/
structure Ans where
  ret : Nat
  rightPlace : Bool
deriving Repr, DecidableEq

def readCall (c : Codec) (h : H) (n : Nat) : H × Ans :=
  if h.lastRead then
    ({ h with fd := c.offsetOf (h.rpos + n), rpos := h.rpos + n }, ⟨n, h.fd == c.offsetOf h.rpos⟩)
  else if c.canSeek h.rpos then
    ({ h with fd := c.offsetOf (h.rpos + n), rpos := h.rpos + n, lastRead := true }, ⟨n, true⟩)
  else ({ h with err := true }, ⟨0, false⟩)

/-- `*_get_chunk_data` as written: the descriptor program of SfModel/AbsQuery.lean, `last_op` untouched -/
def queryRestore (h : H) (off len datalen : Nat) : H :=
  { h with fd := (runAll ⟨h.fd, 0⟩ (getChunkData off len datalen)).pos }

/-- the variant "seek, read, `psf->last_op = 0`" (no save / restore) -/
def queryForget (h : H) (off len datalen : Nat) : H :=
  { h with fd := (runAll ⟨h.fd, 0⟩ [.seekSet off, .read (min datalen len)]).pos, lastRead := false }

end Sf.AbsQS
