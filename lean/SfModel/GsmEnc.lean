/-
  SfModel.GsmEnc — the GSM 06.10 full-rate ENCODER of src/GSM610 (preprocess.c, lpc.c, short_term.c analysis part,
  long_term.c, rpe.c, code.c, gsm_encode.c) as libsndfile compiles it.

  Build configuration (gsm610_priv.h): `USE_FLOAT_MUL`, `FAST` and `WAV49` are #defined, `LTP_CUT` is not; the run-time
  flag `S->fast` stays 0 (libsndfile never calls gsm_option (GSM_OPT_FAST)).  So the code that runs is:
    * the integer Short_term_analysis_filtering, the integer Reflection_coefficients … (no `Fast_*` routine);
    * Autocorrelation with `float` products `(int32_t) (sl * sp [-k])` — exact: after the dynamic scaling every |s| is at
      most 2048, products are below 2^24;
    * the `USE_FLOAT_MUL` Calculation_of_the_LTP_parameters: the 81 cross-correlations are accumulated in `float`
      registers, one rounding to binary32 per addition (products |wt·dp| ≤ 2^24 are exact, the running sums are not).
      `f32r` is that rounding on integers (round to nearest, ties to even, 24 significant bits; x86-64 SSE scalar
      arithmetic, no FMA contraction).  Every value involved is an integer below 2^31, so the float → int32 and
      int32 → float conversions around `L_max` are exact.

  Same conventions as SfModel/Gsm.lean: `Int` values, explicit `w16` / `w32` at every C assignment that converts.
  Core Lean only.
-/
import SfModel.Gsm
namespace Sf.Gsm

/-! ## 32-bit helpers (gsm610_priv.h, add.c) -/

def sat32 (x : Int) : Int := if x < -2147483648 then -2147483648 else if x > 2147483647 then 2147483647 else x

/-- `GSM_L_ADD (a, b)`: the three branches (both negative through unsigned arithmetic, both positive, mixed) are the
    saturated sum -/
def lAdd (a b : Int) : Int := sat32 (a + b)

/-- number of binary digits of a natural number below 2^40 -/
def bitlenAux : Nat → Nat → Nat
  | 0, _ => 0
  | f + 1, n => if n = 0 then 0 else 1 + bitlenAux f (n / 2)
def bitlen (n : Nat) : Nat := bitlenAux 40 n

/-- `gsm_norm (a)` for a ≠ 0 (the `bitoff` table counts the leading zeros of a byte; for −1 the code answers 31) -/
def gsmNorm (a : Int) : Int :=
  if a < 0 then (if a ≤ -1073741824 then 0 else 31 - (bitlen (-a - 1).toNat : Int))
  else 31 - (bitlen a.toNat : Int)

/-- `gsm_div (num, denum)`, 0 ≤ num ≤ denum: 15 rounds of shift-and-subtract -/
def divLoop : Nat → Int → Int → Int → Int
  | 0, _, _, div => div
  | k + 1, lnum, ldenum, div =>
    let div := w16 (div * 2)
    let lnum := w32 (lnum * 2)
    if lnum ≥ ldenum then divLoop k (lnum - ldenum) ldenum (w16 (div + 1)) else divLoop k lnum ldenum div
def gsmDiv (num denum : Int) : Int := if num = 0 then 0 else divLoop 15 num denum 0

/-- `SASL_L (x, by)` / `x << by` on an int32 -/
def sasl32 (x : Int) (k : Nat) : Int := w32 (x * 2 ^ k)

/-- rounding of an integer to binary32 (24 significant bits, nearest, ties to even); |x| < 2^39 -/
def f32r (x : Int) : Int :=
  let a := x.natAbs
  let bl := bitlen a
  if bl ≤ 24 then x
  else
    let e := bl - 24
    let q := a / 2 ^ e
    let r := a % 2 ^ e
    let half := 2 ^ (e - 1)
    let q' := if r > half ∨ (r = half ∧ q % 2 = 1) then q + 1 else q
    if x < 0 then - ((q' * 2 ^ e : Nat) : Int) else ((q' * 2 ^ e : Nat) : Int)

/-! ## 4.2.0 – 4.2.3 preprocessing (preprocess.c) -/

/-- one sample of `Gsm_Preprocess`: ((z1, L_z2, mp), so) -/
def preStep (z1 lz2 mp s : Int) : (Int × Int × Int) × Int :=
  let so := w16 (shl32 (sasr s 3) 2)                 -- downscaling
  let s1 := w16 (so - z1)                            -- offset compensation, non-recursive part
  let ls2 := shl32 s1 15
  let msp := w16 (sasr lz2 15)
  let lsp := w16 (lz2 - shl32 msp 15)
  let ls2 := w32 (ls2 + multR lsp 32735)
  let ltemp := w32 (msp * 32735)
  let lz2' := lAdd ltemp ls2
  let ltemp := lAdd lz2' 16384                       -- sof with rounding
  let msp2 := w16 (multR mp (-28180))                -- pre-emphasis
  let mp' := w16 (sasr ltemp 15)
  ((so, lz2', mp'), add mp' msp2)

def preprocess : (Int × Int × Int) → List Int → (Int × Int × Int) × List Int
  | z, [] => (z, [])
  | (z1, lz2, mp), s :: ss =>
    let (z', o) := preStep z1 lz2 mp s
    let (zf, os) := preprocess z' ss
    (zf, o :: os)

/-! ## 4.2.4 – 4.2.7 LPC analysis (lpc.c) -/

def maxAbs (l : List Int) : Int := l.foldl (fun m x => if gabs x > m then gabs x else m) 0

/-- Σ_{i ≥ k} s [i] · s [i − k], each product rounded to binary32 and truncated to int32 (both exact, see header) -/
def acfK (s : List Int) (k : Nat) : Int :=
  (List.zipWith (fun a b => f32r (a * b)) (s.drop k) s).foldl (fun acc p => w32 (acc + p)) 0

/-- `Autocorrelation`: (L_ACF [0..8], s after the scaling and re-scaling) -/
def autocorr (s : List Int) : List Int × List Int :=
  let smax := maxAbs s
  let scalauto : Int := if smax = 0 then 0 else w16 (4 - gsmNorm (shl32 smax 16))
  let sc := if scalauto > 0 then s.map fun x => w16 (multR x (asr 16384 (scalauto - 1).toNat)) else s
  let lacf := (List.range 9).map fun k => sasl32 (acfK sc k) 1
  let s' := if scalauto > 0 then sc.map fun x => w16 (x * 2 ^ scalauto.toNat) else sc
  (lacf, s')

/-- one round n of the Schur recursion: (P, K) -> (P', K'); cells m = 1 .. 8 − n are updated -/
def schurUpdate (n : Nat) (r : Int) (p k : List Int) : List Int × List Int :=
  let p' := (List.range 9).map fun (m : Nat) =>
    if m = 0 then w16 (add (p.getD 0 0) (w16 (multR (p.getD 1 0) r)))
    else if m ≤ 8 - n then w16 (add (p.getD (m + 1) 0) (w16 (multR (k.getD m 0) r)))
    else p.getD m 0
  let k' := (List.range 9).map fun (m : Nat) =>
    if 1 ≤ m ∧ m ≤ 8 - n then w16 (add (k.getD m 0) (w16 (multR (p.getD (m + 1) 0) r)))
    else k.getD m 0
  (p', k')

/-- the loop `for (n = 1 ; n <= 8 ; n++, r++)` of `Reflection_coefficients`; `fuel` = rounds left -/
def schurLoop : Nat → Nat → List Int → List Int → List Int
  | 0, _, _, _ => []
  | fuel + 1, n, p, k =>
    let temp := gabs (p.getD 1 0)
    if p.getD 0 0 < temp then List.replicate (fuel + 1) 0
    else
      let r0 := gsmDiv temp (p.getD 0 0)
      let r := if p.getD 1 0 > 0 then w16 (- r0) else r0
      if n = 8 then [r]
      else
        let (p', k') := schurUpdate n r p k
        r :: schurLoop fuel (n + 1) p' k'

def reflCoeffs (lacf : List Int) : List Int :=
  let l0 := lacf.getD 0 0
  if l0 = 0 then List.replicate 8 0
  else
    let temp := gsmNorm l0
    let acf := lacf.map fun x => w16 (sasr (sasl32 x temp.toNat) 16)
    let k := (List.range 9).map fun (i : Nat) => if 1 ≤ i ∧ i ≤ 7 then acf.getD i 0 else 0
    schurLoop 8 1 acf k

/-- `Transformation_to_Log_Area_Ratios`, one coefficient -/
def toLar (r : Int) : Int :=
  let temp := gabs r
  let temp := if temp < 22118 then asr temp 1 else if temp < 31130 then w16 (temp - 11059) else w16 (w16 (temp - 26112) * 4)
  if r < 0 then w16 (- temp) else temp

/-- `Quantization_and_coding`, one `STEP (A, B, MAC, MIC)` -/
def quantLar (lar a b mac mic : Int) : Int :=
  let temp := w16 (mult a lar)
  let temp := w16 (add temp b)
  let temp := w16 (add temp 256)
  let temp := sasr temp 9
  if temp > mac then w16 (mac - mic) else if temp < mic then 0 else w16 (temp - mic)

/-- `Gsm_LPC_Analysis`: (LARc [0..7], s after Autocorrelation's in-place scaling) -/
def lpcAnalysis (s : List Int) : List Int × List Int :=
  let (lacf, s') := autocorr s
  let lar := (reflCoeffs lacf).map toLar
  ((List.range 8).map fun (i : Nat) => quantLar (lar.getD i 0) (tab tabA i) (tab tabB i) (tab tabMAC i) (tab tabMIC i), s')

/-! ## 4.2.8 – 4.2.10 short-term analysis filter (short_term.c) -/

/-- inner loop over (rp [i], u [i]), i = 0 .. 7: (di, u') -/
def anaStep : List (Int × Int) → Int → Int → Int × List Int
  | [], di, _ => (di, [])
  | (rpi, ui) :: rest, di, sav =>
    let zzz := w16 (multR rpi di)
    let sav' := w16 (add ui zzz)
    let zzz2 := w16 (multR rpi ui)
    let di' := w16 (add di zzz2)
    let (d, us) := anaStep rest di' sav'
    (d, sav :: us)

/-- `Short_term_analysis_filtering (S, rp, k_n, s)`: (u', d) -/
def anaFilter (rp : List Int) : List Int → List Int → List Int × List Int
  | u, [] => (u, [])
  | u, s :: ss =>
    let (di, u') := anaStep (rp.zip u) s s
    let (uf, out) := anaFilter rp u' ss
    (uf, di :: out)

/-- `Gsm_Short_Term_Analysis_Filter`: (state, d [0 .. 159]) -/
def shortTermAnalysis (st : State) (larc : List Int) (s : List Int) : State × List Int :=
  let cur := decodeLar larc
  let prev := if st.j = 0 then st.larpp1 else st.larpp0
  let st1 : State := if st.j = 0 then { st with larpp0 := cur, j := 1 } else { st with larpp1 := cur, j := 0 }
  let (u1, d1) := anaFilter ((coeff0_12 prev cur).map larpToRp) st.u (s.take 13)
  let (u2, d2) := anaFilter ((coeff13_26 prev cur).map larpToRp) u1 ((s.drop 13).take 14)
  let (u3, d3) := anaFilter ((coeff27_39 prev cur).map larpToRp) u2 ((s.drop 27).take 13)
  let (u4, d4) := anaFilter (cur.map larpToRp) u3 ((s.drop 40).take 120)
  ({ st1 with u := u4 }, d1 ++ d2 ++ d3 ++ d4)

/-! ## 4.2.11 – 4.2.12 long-term predictor (long_term.c, the USE_FLOAT_MUL variant) -/

/-- cross-correlation at one lag, accumulated in a `float` register: `E = W * a ; S += E` for K = 0 .. 39 -/
def crossCorr (wt : List Int) (dpl : List Int) : Int :=
  (List.zipWith (fun w a => f32r (w * a)) wt dpl).foldl (fun acc e => f32r (acc + e)) 0

/-- the search `if (S > L_max) { L_max = S ; Nc = lag ; }` over lags 40 .. 120 in increasing order -/
def lagSearch (wt hist : List Int) : Nat → Nat → Int → Int → Int × Int
  | 0, _, lmax, nc => (lmax, nc)
  | fuel + 1, lag, lmax, nc =>
    let s := crossCorr wt (hist.drop (120 - lag))
    if s > f32r lmax then lagSearch wt hist fuel (lag + 1) (w32 s) lag
    else lagSearch wt hist fuel (lag + 1) lmax nc

/-- the scaling exponent `scal` of `Calculation_of_the_LTP_parameters` (for dmax = 0 the C leaves temp = 0, so scal = 6) -/
def ltpScal (d : List Int) : Int :=
  let dmax := maxAbs d
  let temp : Int := if dmax = 0 then 0 else gsmNorm (shl32 dmax 16)
  if temp > 6 then 0 else w16 (6 - temp)

/-- coding of the LTP gain from the rescaled maximum and the power (the tail of the same function) -/
def ltpGain (lmax lpower : Int) : Int :=
  if lmax ≤ 0 then 0
  else if lmax ≥ lpower then 3
  else
    let temp := gsmNorm lpower
    let r := w16 (sasr (sasl32 lmax temp.toNat) 16)
    let s := w16 (sasr (sasl32 lpower temp.toNat) 16)
    if r ≤ gsmMult s (tab tabDLB 0) then 0 else if r ≤ gsmMult s (tab tabDLB 1) then 1
      else if r ≤ gsmMult s (tab tabDLB 2) then 2 else 3

/-- `Calculation_of_the_LTP_parameters (d, dp, &bc, &Nc)`; `hist` = dp [-120 .. -1]: (bc, Nc) -/
def ltpParams (d hist : List Int) : Int × Int :=
  let scal := ltpScal d
  let wt := d.map fun x => sasr x scal.toNat
  let ln := lagSearch wt hist 81 40 0 40
  let lmax := sasr (w32 (ln.1 * 2)) (6 - scal).toNat
  let lpower := w32 (2 * (((hist.drop (120 - ln.2).toNat).take 40).map fun x => sasr x 3).foldl (fun acc t => w32 (acc + t * t)) 0)
  (ltpGain lmax lpower, ln.2)

/-- `Long_term_analysis_filtering`: (dpp [0..39], e [0..39]) -/
def ltAnalysis (bc nc : Int) (hist d : List Int) : List Int × List Int :=
  let bp := tab tabQLB bc
  let dpp := ((hist.drop (120 - nc).toNat).take 40).map fun x => w16 (multR bp x)
  (dpp, List.zipWith (fun a b => w16 (sub a b)) d dpp)

/-! ## 4.2.13 – 4.2.17 RPE encoding (rpe.c) -/

/-- `Weighting_filter`: e [-5 .. 44] with zero borders -> x [0 .. 39] -/
def weighting (e : List Int) : List Int :=
  let wt := List.replicate 5 0 ++ e ++ List.replicate 5 0
  (List.range 40).map fun (k : Nat) =>
    let acc := (List.zipWith (fun a h => a * h) (wt.drop k) tabH).foldl (fun s p => w32 (s + p)) 4096
    let r := sasr acc 13
    if r < -32768 then -32768 else if r > 32767 then 32767 else r

/-- energy of grid m: `L_result` after `<<= 1` -/
def gridEnergy (x : List Int) (m : Nat) : Int :=
  w32 (2 * ((List.range 13).map fun (i : Nat) => sasr (x.getD (m + 3 * i) 0) 2).foldl (fun acc t => w32 (acc + t * t)) 0)

/-- `RPE_grid_selection`: (Mc, xM [0..12]) -/
def gridSelect (x : List Int) : Int × List Int :=
  let e0 := gridEnergy x 0
  let (mc, em) : Nat × Int := (0, e0)
  let (mc, em) := if gridEnergy x 1 > em then (1, gridEnergy x 1) else (mc, em)
  let (mc, em) := if gridEnergy x 2 > em then (2, gridEnergy x 2) else (mc, em)
  let (mc, _) := if gridEnergy x 3 > em then (3, gridEnergy x 3) else (mc, em)
  ((mc : Int), (List.range 13).map fun (i : Nat) => x.getD (mc + 3 * i) 0)

/-- the exponent search of `APCM_quantization`: six rounds of `itest |= (temp <= 0) ; temp >>= 1 ; if (!itest) expon++` -/
def exponLoop : Nat → Int → Bool → Int → Int
  | 0, _, _, expon => expon
  | k + 1, temp, itest, expon =>
    let itest := itest || decide (temp ≤ 0)
    exponLoop k (sasr temp 1) itest (if itest then expon else expon + 1)

/-- `APCM_quantization`: (xMc [0..12], mant, expon, xmaxc) -/
def apcmQuant (xm : List Int) : List Int × Int × Int × Int :=
  let xmax := maxAbs xm
  let expon := exponLoop 6 (sasr xmax 9) false 0
  let temp := expon + 5
  let xmaxc := gsmAdd (sasr xmax temp.toNat) (w16 (expon * 8))
  let (expon, mant) := expMant xmaxc
  let temp1 := 6 - expon
  let temp2 := tab tabNRFAC mant
  let xmc := xm.map fun x =>
    let t := w16 (shl32 x temp1.toNat)
    let t := w16 (mult t temp2)
    let t := sasr t 12
    w16 (t + 4)
  (xmc, mant, expon, xmaxc)

/-- `Gsm_RPE_Encoding`: (xmaxc, Mc, xMc, e' [0..39]) -/
def rpeEncode (e : List Int) : Int × Int × List Int × List Int :=
  let x := weighting e
  let (mc, xm) := gridSelect x
  let (xmc, mant, expon, xmaxc) := apcmQuant xm
  let xmp := apcmInv xmc mant expon
  (xmaxc, mc, xmc, gridPos mc xmp)

/-! ## 4.2 the coder (code.c) and the frame packer (gsm_encode.c) -/

/-- the four sub-segments of `Gsm_Coder`: (history dp [-120 .. -1] after the sub-frames, parameters, the new cells) -/
def coderLoop : List (List Int) → List Int → List Int × List Sub × List Int
  | [], hist => (hist, [], [])
  | d :: ds, hist =>
    let (bc, nc) := ltpParams d hist
    let (dpp, e) := ltAnalysis bc nc hist d
    let (xmaxc, mc, xmc, e') := rpeEncode e
    let dpNew := List.zipWith (fun a b => w16 (add a b)) e' dpp
    let (h, subs, news) := coderLoop ds ((hist ++ dpNew).drop 40)
    (h, { nc := nc, bc := bc, mc := mc, xmaxc := xmaxc, xmc := xmc } :: subs, dpNew ++ news)

/-- `Gsm_Coder` -/
def coder (st : State) (s : List Int) : State × Params :=
  let ((z1, lz2, mp), so) := preprocess (st.z1, st.lz2, w16 st.mp) s
  let st := { st with z1 := z1, lz2 := lz2, mp := mp }
  let (larc, so) := lpcAnalysis so
  let (st, d) := shortTermAnalysis st larc so
  let hist := st.dp0.take 120
  let (hist', subs, news) := coderLoop [d.take 40, (d.drop 40).take 40, (d.drop 80).take 40, (d.drop 120).take 40] hist
  -- dp0 [120 .. 280) holds the 160 new cells, dp0 [0 .. 120) = their last 120 (the memcpy at the end)
  ({ st with dp0 := hist' ++ news }, { larc := larc, subs := subs })

def bitsOfMsb (w : Nat) (v : Int) : List Bool := (List.range w).map fun i => (wrapU w v / 2 ^ (w - 1 - i)) % 2 = 1
def bitsOfLsb (w : Nat) (v : Int) : List Bool := (List.range w).map fun i => (wrapU w v / 2 ^ i) % 2 = 1

def bytesMsb : Nat → List Bool → List Byte
  | 0, _ => []
  | n + 1, bs => valMsb (bs.take 8) :: bytesMsb n (bs.drop 8)
def bytesLsb : Nat → List Bool → List Byte
  | 0, _ => []
  | n + 1, bs => valLsb (bs.take 8) :: bytesLsb n (bs.drop 8)

def paramList (p : Params) : List Int :=
  p.larc ++ p.subs.flatMap fun s => [s.nc, s.bc, s.mc, s.xmaxc] ++ s.xmc

/-- `gsm_encode (s, source, c)`: (state, the bytes it stores at `c`: 33) -/
def gsmEncode (st : State) (s : List Int) : State × List Byte :=
  let (st, p) := coder st s
  let vals := paramList p
  if st.wavFmt then
    let fi := 1 - st.frameIndex
    if fi = 1 then
      let bits := (List.zipWith bitsOfLsb fieldWidths vals).flatten ++ List.replicate 4 false
      let bytes := bytesLsb 33 bits
      ({ st with frameIndex := fi, frameChain := bytes.getD 32 0 }, bytes)
    else
      let bits := bitsOfLsb 4 st.frameChain ++ (List.zipWith bitsOfLsb fieldWidths vals).flatten
      ({ st with frameIndex := fi }, bytesLsb 33 bits)
  else
    let bits := bitsOfMsb 4 13 ++ (List.zipWith bitsOfMsb fieldWidths vals).flatten
    (st, bytesMsb 33 bits)

/-- `gsm610_encode_block` / `gsm610_wav_encode_block`: the block written to the file -/
def encodeBlock (wav : Bool) (st : State) (samples : List Int) : State × List Byte :=
  if wav then
    let (st1, b1) := gsmEncode st (samples.take 160)
    let (st2, b2) := gsmEncode st1 ((samples.drop 160).take 160)
    (st2, b1.take 32 ++ b2)
  else gsmEncode st (samples.take 160)

end Sf.Gsm
