/-
  SfModel.Faults — C15: the I/O layer as an adversarial ORACLE.

  `Sf.Handle` talks to a byte store that always works.  Here the five SF_VIRTUAL_IO callbacks are answered by an
  oracle: a function from the history of (request, answer) pairs to the next answer, constrained only by the
  callback contract (`Oracle.Contract`).  The loops of the sample-granular codecs (pcm.c, float32.c, double64.c,
  ulaw.c, alaw.c), the 16 read/write wrappers and `sf_seek` of sndfile.c, `psf_default_seek`, the AU / WAV header
  writers, `wav_write_tailer` and the close path are rewritten over that oracle — as total functions WITHOUT fuel:
  Lean's termination checker accepts them for EVERY oracle, inside or outside the contract.

  What is modelled (code-shaped, bug for bug):
    psf_fread / psf_fwrite on virtual I/O   one callback, item count = bytes / width (a partial item is dropped,
                                            although the callback has consumed its bytes)
    psf->file.seek_failed                   (round 8) set by a psf_fseek whose callback answers < 0, cleared by the next
                                            psf_fseek that succeeds; while it is set psf_fwrite makes NO callback and
                                            returns 0.  The latch is a function of the history: `seekFailed`.
    whole_frames (sndfile.c, round 8)       a codec count that ends inside a frame is rounded down to whole frames and
                                            psf->last_op is cleared (0: neither SFM_READ nor SFM_WRITE, modelled as
                                            `Mode.rw`, the value a RDWR handle starts with): the next call seeks first.
    The rules before the two repairs stay next to the new ones: `fwriteOld`, `readTailOld`, `writeTailOld`.
    codec loops                             `while (len > 0) { … if (count < bufferlen) break ; len -= count ; }`
                                            with the staging length of each (encoding, caller type) pair
    sf_read_* / sf_readf_* / sf_write_* / sf_writef_*, sf_seek, psf_default_seek (fc49efc, 9b1ea83 included)
    au_write_header, wav_write_header, wav_write_tailer, au_close, wav_close, psf_close (virtual I/O: psf_fclose
    makes no callback; every psf_fseek / psf_fwrite result in the header writers is ignored, as in the C)

  NOT modelled here (monitored only by the fault enumeration of vlib/props/c15.py): the block codecs' I/O loops
  (ima_adpcm.c, ms_adpcm.c, gsm610.c, g72x.c, nms_adpcm.c, vox via ima_oki, dwvw.c, paf.c 24-bit, sds.c, alac.c incl. its
  packet-table scan, xi.c dpcm), psf_binheader_readf / header_read (the header cache), every header parser, the
  open path, the other 20 containers' header writers, sf_read_raw / sf_write_raw, the descriptor route of
  file_io.c (`while (items > 0) { count = read (…) ; if (count == -1 && errno == EINTR) continue ; … }` — that loop
  does not terminate for an oracle that answers EINTR for ever).
-/
import SfModel.Handle
namespace Sf.Faults
open Sf

/-! ## the oracle -/

inductive Req
  | len
  | tell
  | seek (off : Int) (whence : Nat)
  | read (n : Nat)
  | write (data : List Byte)
deriving Repr, Inhabited

/-- what a callback answers: `n` is the returned sf_count_t (position, length, bytes written);
    for a read the delivered bytes are `data` and the count is `data.length` -/
structure Ans where
  n : Int := 0
  data : List Byte := []
deriving Repr, Inhabited

/-- newest first -/
abbrev Hist := List (Req × Ans)

abbrev Oracle := Hist → Req → Ans

/-- the SF_VIRTUAL_IO callback contract -/
def Ans.ok : Req → Ans → Prop
  | .read n, a => a.data.length ≤ n
  | .write d, a => 0 ≤ a.n ∧ a.n ≤ d.length
  | .seek _ _, a => -1 ≤ a.n
  | .len, a => 0 ≤ a.n
  | .tell, a => 0 ≤ a.n

def Oracle.Contract (o : Oracle) : Prop := ∀ hist r, Ans.ok r (o hist r)

def call (o : Oracle) (hist : Hist) (r : Req) : Ans × Hist := (o hist r, (r, o hist r) :: hist)

def ioTell (o : Oracle) (hist : Hist) : Int × Hist := ((call o hist .tell).1.n, (call o hist .tell).2)
def ioLen (o : Oracle) (hist : Hist) : Int × Hist := ((call o hist .len).1.n, (call o hist .len).2)
def ioSeek (o : Oracle) (hist : Hist) (off : Int) (whence : Nat) : Int × Hist :=
  ((call o hist (.seek off whence)).1.n, (call o hist (.seek off whence)).2)

/-- `psf_fread (ptr, width, items)` on virtual I/O: (bytes delivered, items = bytes / width, history) -/
def fread (o : Oracle) (hist : Hist) (width items : Nat) : List Byte × Nat × Hist :=
  if width = 0 ∨ items = 0 then ([], 0, hist) else
  ((call o hist (.read (width * items))).1.data, (call o hist (.read (width * items))).1.data.length / width,
   (call o hist (.read (width * items))).2)

/-- `psf->file.seek_failed`: the most recent psf_fseek of the history was answered with a negative value
    (`psf->file.seek_failed = (absolute_position < 0)` in psf_fseek; nothing else touches the flag) -/
def seekFailed : Hist → Bool
  | [] => false
  | (.seek _ _, a) :: _ => decide (a.n < 0)
  | _ :: rest => seekFailed rest

/-- `psf_fwrite (ptr, width, items)` on virtual I/O: (items = bytes accepted / width, history).
    After a failed seek (`seekFailed`) nothing is handed to the callback. -/
def fwrite (o : Oracle) (hist : Hist) (width items : Nat) (data : List Byte) : Nat × Hist :=
  if width = 0 ∨ items = 0 then (0, hist) else
  if seekFailed hist then (0, hist) else
  ((call o hist (.write data)).1.n.toNat / width, (call o hist (.write data)).2)

/-- psf_fwrite before the repair of KF-C15-HEADER-POSITION: it wrote wherever a failed seek had left the file -/
def fwriteOld (o : Oracle) (hist : Hist) (width items : Nat) (data : List Byte) : Nat × Hist :=
  if width = 0 ∨ items = 0 then (0, hist) else
  ((call o hist (.write data)).1.n.toNat / width, (call o hist (.write data)).2)

/-! ## codec loops -/

/-- items per staging-buffer round of the loop that serves (file encoding, caller type); 0 = the call is a single
    psf_fread / psf_fwrite straight from / into the caller's buffer (BUF_UNION is 8192 bytes) -/
def stageLen (e : Enc) (ty : Ty) (wr : Bool) : Nat :=
  match e with
  | .pcm p =>
    if p.w == 8 then 8192
    else if p.w == 16 then (if ty == .s16 ∧ (!wr ∨ !p.big) then 0 else 4096)
    else if p.w == 24 then 2730
    else (if ty == .s32 ∧ (!wr ∨ !p.big) then 0 else 2048)
  | .flt big => if ty == .f32 ∧ !big then 0 else 2048
  | .dbl big => if ty == .f64 ∧ (!wr ∨ !big) then 0 else 1024
  | .ulaw | .alaw => 8192

def roundLen (B len : Nat) : Nat := if B = 0 then len else min len B

/-- `while (len > 0) { if (len < bufferlen) bufferlen = len ; readcount = psf_fread (…) ; convert readcount items ;
     total += readcount ; if (readcount < bufferlen) break ; len -= readcount ; }`
    returns (bytes of the whole items delivered, total, history). -/
def readLoop (o : Oracle) (w B : Nat) (len : Nat) (hist : Hist) (acc : List Byte) (total : Nat) : List Byte × Nat × Hist :=
  if hl : len = 0 then (acc, total, hist) else
  let r := fread o hist w (roundLen B len)
  if hb : r.2.1 < roundLen B len then (acc ++ r.1.take (r.2.1 * w), total + r.2.1, r.2.2)
  else readLoop o w B (len - r.2.1) r.2.2 (acc ++ r.1.take (r.2.1 * w)) (total + r.2.1)
termination_by len
decreasing_by
  have : 0 < roundLen B len := by unfold roundLen; split <;> omega
  have hb2 : ¬ (fread o hist w (roundLen B len)).2.1 < roundLen B len := hb
  omega

/-- the write loops; `bytes` are the encoded items of the whole call.
    returns (total, items handed to psf_fwrite in all rounds, history) -/
def writeLoop (o : Oracle) (w B : Nat) (bytes : List Byte) (len : Nat) (hist : Hist) (total attempted : Nat) : Nat × Nat × Hist :=
  if hl : len = 0 then (total, attempted, hist) else
  let r := fwrite o hist w (roundLen B len) ((bytes.drop (total * w)).take (roundLen B len * w))
  if hb : r.1 < roundLen B len then (total + r.1, attempted + roundLen B len, r.2)
  else writeLoop o w B bytes (len - r.1) r.2 (total + r.1) (attempted + roundLen B len)
termination_by len
decreasing_by
  have : 0 < roundLen B len := by unfold roundLen; split <;> omega
  have hb2 : ¬ (fwrite o hist w (roundLen B len) ((bytes.drop (total * w)).take (roundLen B len * w))).1 < roundLen B len := hb
  omega

/-! ## seeking -/

def E_SEEK_FAILED : Int := 1009
def E_INTERNAL : Int := 1010
def E_SYSTEM : Int := 2

/-- `psf_default_seek`: the frame, or -1 with the positions untouched -/
def defaultSeek (o : Oracle) (h : H) (hist : Hist) (frame : Int) : Int × H × Hist :=
  if h.bw = 0 ∨ h.dataoffset < 0 then (-1, { h with error := E_BAD_SEEK }, hist) else
  let position : Int := h.dataoffset + (h.bw : Int) * frame
  let r := ioSeek o hist position 0
  if r.1 ≠ position then (-1, { h with error := E_SEEK_FAILED }, r.2) else (frame, h, r.2)

/-! ## header writers (every seek and write result is ignored, as in the C) -/

/-- `xxx_write_header (psf, calc_length)`: (returned error, handle, history) -/
def writeHeader (o : Oracle) (h : H) (hist : Hist) (calcLen : Bool) : Int × H × Hist :=
  match h.container with
  | .raw => (0, h, hist)
  | .au =>
    let t := ioTell o hist
    let current := t.1
    let hl : H × Hist := if calcLen then
        let l := ioLen o t.2
        let fl := l.1
        let dl := fl - h.dataoffset
        ({ h with filelength := fl, datalength := if h.dataend != 0 then dl - (fl - h.dataend) else dl }, l.2)
      else (h, t.2)
    let h := hl.1
    let hdr := auHeader h
    let s0 := ioSeek o hl.2 0 0
    let wr := fwrite o s0.2 hdr.length 1 hdr
    if h.error != 0 then (h.error, h, wr.2) else
    let h := { h with dataoffset := 24 }
    (h.error, h, if current > 0 then (ioSeek o wr.2 current 0).2 else wr.2)
  | .wav =>
    let t := ioTell o hist
    let current := t.1
    let hasData : Bool := current > h.dataoffset
    let hl : H × Hist := if calcLen then
        let l := ioLen o t.2
        let fl := l.1
        let dl := fl - h.dataoffset
        let dl := if h.dataend != 0 then dl - (fl - h.dataend) else h.frames * h.nb * h.ch
        ({ h with filelength := fl, datalength := dl }, l.2)
      else (h, t.2)
    let h := hl.1
    let hdr := wavHeader h
    let s0 := ioSeek o hl.2 0 0
    let wr := fwrite o s0.2 hdr.length 1 hdr
    if h.error != 0 then (h.error, h, wr.2) else
    if hasData ∧ h.dataoffset ≠ hdr.length then (E_INTERNAL, { h with error := E_INTERNAL }, wr.2) else
    let h := { h with dataoffset := hdr.length }
    (h.error, h, if !hasData then (ioSeek o wr.2 hdr.length 0).2 else if current > 0 then (ioSeek o wr.2 current 0).2 else wr.2)

/-- `wav_write_tailer` -/
def wavTailer (o : Oracle) (h : H) (hist : Hist) : H × Hist :=
  let dl : Int := h.frames * h.nb * h.ch
  let h := { h with datalength := dl, dataend := h.dataoffset + dl }
  let hh : H × Hist :=
    if h.dataend > 0 then (h, (ioSeek o hist h.dataend 0).2)
    else ({ h with dataend := (ioSeek o hist 0 2).1 }, (ioSeek o hist 0 2).2)
  let h := hh.1
  let pad : List Byte := if h.dataend % 2 == 1 then [0] else []
  let peak : List Byte := match h.peak with
    | some ps => if !h.peakAtStart then peakChunk h ps else []
    | none => []
  let tail := pad ++ peak
  (h, if tail.length > 0 then (fwrite o hh.2 tail.length 1 tail).2 else hh.2)

/-- `psf_close`: codec_close (none for these codecs), container_close, psf_fclose (no callback on virtual I/O), free.
    Always returns 0 on virtual I/O. -/
def closeHandle (o : Oracle) (h : H) (hist : Hist) : Int × Hist :=
  let h := { h with error := 0 }
  if h.mode == .r then (0, hist) else
  match h.container with
  | .raw => (0, hist)
  | .au => (0, (writeHeader o h hist true).2.2)
  | .wav =>
    let th := wavTailer o h hist
    let hh : H × Hist := if th.1.mode == .rw then
        let t := ioTell o th.2
        if t.1 < th.1.filelength then
          -- psf_ftruncate on virtual I/O: since 7f90196 it returns -1 without touching a descriptor and without latching SFE_SYSTEM
          ({ th.1 with filelength := t.1 }, t.2)
        else (th.1, t.2)
      else th
    (0, (writeHeader o hh.1 hh.2 true).2.2)

/-! ## the wrappers of sndfile.c -/

structure Res where
  h : H
  hist : Hist
  out : Out

/-- `whole_frames (psf, count, channels)` of sndfile.c: the count the caller is told, and psf->last_op afterwards
    (`op` when the count is whole frames; cleared -- `Mode.rw` = neither read nor write -- otherwise) -/
def wholeFrames (count : Int) (ch : Nat) (op : Mode) : Int × Mode :=
  if ch ≤ 1 ∨ count % ch = 0 then (count, op) else (count - count % ch, .rw)

/-- the codec call and the end clamp of sf_read_* (after the guards and the optional seek) -/
def readTail (o : Oracle) (h : H) (hist : Hist) (ty : Ty) (frameCall : Bool) (len : Int) : Res :=
  let lp := readLoop o h.nb (stageLen h.enc ty false) len.toNat hist [] 0
  let count : Int := lp.2.1
  let vals := h.enc.decodeAll h.conv ty lp.1
  let cr : Int × Int :=
    if count ≤ (h.frames - h.rpos) * h.ch then (count, h.rpos + count / h.ch)
    else ((h.frames - h.rpos) * h.ch, h.frames)
  let wf := wholeFrames cr.1 h.ch .r
  ⟨{ h with rpos := cr.2, lastOp := wf.2 }, lp.2.2,
   { ret := if frameCall then wf.1 / h.ch else wf.1, err := 0, data := vals.take wf.1.toNat, hasData := true }⟩

/-- sf_read_* before the repair of KF-C15-PARTIAL-FRAME: the codec's count went to the caller as it was -/
def readTailOld (o : Oracle) (h : H) (hist : Hist) (ty : Ty) (frameCall : Bool) (len : Int) : Res :=
  let lp := readLoop o h.nb (stageLen h.enc ty false) len.toNat hist [] 0
  let count : Int := lp.2.1
  let vals := h.enc.decodeAll h.conv ty lp.1
  let cr : Int × Int :=
    if count ≤ (h.frames - h.rpos) * h.ch then (count, h.rpos + count / h.ch)
    else ((h.frames - h.rpos) * h.ch, h.frames)
  ⟨{ h with rpos := cr.2, lastOp := .r }, lp.2.2,
   { ret := if frameCall then cr.1 / h.ch else cr.1, err := 0, data := vals.take cr.1.toNat, hasData := true }⟩

/-- `if (psf->last_op != SFM_READ) if (psf->seek (psf, SFM_READ, psf->read_current) < 0) return 0 ;` then the codec -/
def readCore (o : Oracle) (h : H) (hist : Hist) (ty : Ty) (frameCall : Bool) (len : Int) : Res :=
  if h.lastOp != .r then
    (if (defaultSeek o h hist h.rpos).1 < 0 then
      ⟨(defaultSeek o h hist h.rpos).2.1, (defaultSeek o h hist h.rpos).2.2, { ret := 0, err := (defaultSeek o h hist h.rpos).2.1.error }⟩
     else readTail o (defaultSeek o h hist h.rpos).2.1 (defaultSeek o h hist h.rpos).2.2 ty frameCall len)
  else readTail o h hist ty frameCall len

/-- the guards of sf_read_* in the order of the C; `some e`: the call returns 0 with psf->error = e (0 = end of data) -/
def readGuard (h : H) (frameCall : Bool) (n : Int) : Option Int :=
  if n < 0 then some E_NEG_LEN
  else if h.mode == .w then some E_NOT_READMODE
  else if !frameCall ∧ n % h.ch != 0 then some E_BAD_ALIGN
  else if h.rpos ≥ h.frames then some 0
  else none

def stepRead (o : Oracle) (h : H) (hist : Hist) (ty : Ty) (frameCall : Bool) (n : Int) : Res :=
  if n == 0 then ⟨h, hist, { ret := 0, err := h.error }⟩ else
  match readGuard h frameCall n with
  | some e => ⟨{ h with error := e }, hist, { ret := 0, err := e }⟩
  | none => readCore o { h with error := 0 } hist ty frameCall (if frameCall then n * h.ch else n)

/-- the codec call and the position bookkeeping of sf_write_* (after the guards, the seek and the first header) -/
def writeTail (o : Oracle) (h : H) (hist : Hist) (ty : Ty) (frameCall : Bool) (len : Int) (data : List Int) : Res :=
  let vals := data.take len.toNat
  let lp := writeLoop o h.nb (stageLen h.enc ty true) (h.enc.encodeAll h.conv ty vals) len.toNat hist 0 0
  let count : Int := lp.1
  let wpos := h.wpos + count / h.ch
  -- PEAK tracking runs once per staging round, before the round is written
  let peak := peakUpdate h ty (vals.take lp.2.1)
  let wf := wholeFrames count h.ch .w
  ⟨{ h with haveWritten := true, wpos := wpos, lastOp := wf.2, peak := peak,
            frames := if wpos > h.frames then wpos else h.frames,
            dataend := if wpos > h.frames then 0 else h.dataend },
   lp.2.2, { ret := if frameCall then wf.1 / h.ch else wf.1, err := 0 }⟩

/-- sf_write_* before the repair of KF-C15-PARTIAL-FRAME -/
def writeTailOld (o : Oracle) (h : H) (hist : Hist) (ty : Ty) (frameCall : Bool) (len : Int) (data : List Int) : Res :=
  let vals := data.take len.toNat
  let lp := writeLoop o h.nb (stageLen h.enc ty true) (h.enc.encodeAll h.conv ty vals) len.toNat hist 0 0
  let count : Int := lp.1
  let wpos := h.wpos + count / h.ch
  let peak := peakUpdate h ty (vals.take lp.2.1)
  ⟨{ h with haveWritten := true, wpos := wpos, lastOp := .w, peak := peak,
            frames := if wpos > h.frames then wpos else h.frames,
            dataend := if wpos > h.frames then 0 else h.dataend },
   lp.2.2, { ret := if frameCall then count / h.ch else count, err := 0 }⟩

/-- the seek, the first header, the codec, the auto header of sf_write_* -/
def writeCore (o : Oracle) (h : H) (hist : Hist) (ty : Ty) (frameCall : Bool) (len : Int) (data : List Int) : Res :=
  let sk : Int × H × Hist := if h.lastOp != .w then defaultSeek o h hist h.wpos else (0, h, hist)
  if sk.1 < 0 then ⟨sk.2.1, sk.2.2, { ret := 0, err := sk.2.1.error }⟩ else
  let h := sk.2.1
  -- if (psf->have_written == SF_FALSE && psf->write_header != NULL) if ((psf->error = psf->write_header (psf, SF_FALSE))) return 0 ;
  let wh : Int × H × Hist := if !h.haveWritten ∧ h.container != .raw then writeHeader o h sk.2.2 false else (0, h, sk.2.2)
  if wh.1 != 0 then ⟨{ wh.2.1 with error := wh.1 }, wh.2.2, { ret := 0, err := wh.1 }⟩ else
  let t := writeTail o wh.2.1 wh.2.2 ty frameCall len data
  if t.h.autoHeader ∧ t.h.container != .raw then
    ⟨(writeHeader o t.h t.hist true).2.1, (writeHeader o t.h t.hist true).2.2, t.out⟩
  else t

def writeGuard (h : H) (frameCall : Bool) (n : Int) : Option Int :=
  if n < 0 then some E_NEG_LEN
  else if h.mode == .r then some E_NOT_WRITEMODE
  else if !frameCall ∧ n % h.ch != 0 then some E_BAD_ALIGN
  else none

def stepWrite (o : Oracle) (h : H) (hist : Hist) (ty : Ty) (frameCall : Bool) (n : Int) (data : List Int) : Res :=
  if n == 0 then ⟨h, hist, { ret := 0, err := h.error }⟩ else
  match writeGuard h frameCall n with
  | some e => ⟨{ h with error := e }, hist, { ret := 0, err := e }⟩
  | none => writeCore o { h with error := 0 } hist ty frameCall (if frameCall then n * h.ch else n) data

def stepSeek (o : Oracle) (h : H) (hist : Hist) (off : Int) (whence : Int) : Res :=
  let h := { h with error := 0 }
  let wm := whence % 0x100 / 0x10 * 0x10
  let wm := wm % 0x40
  let fail (e : Int) : Res := ⟨{ h with error := e }, hist, { ret := -1, err := e }⟩
  if (wm == 0x20 ∧ h.mode == .r) ∨ (wm == 0x10 ∧ h.mode == .w) then fail E_WRONG_SEEK else
  let r : Except Int (Sum Int Int) :=
    if whence == 0 ∨ whence == 0x10 ∨ whence == 0x20 ∨ whence == 0x30 then .ok (.inl off)
    else if whence == 1 then
      if off == 0 ∧ h.mode == .r then .ok (.inr h.rpos)
      else if off == 0 ∧ h.mode == .w then .ok (.inr h.wpos)
      else if h.mode == .r then .ok (.inl (h.rpos + off)) else .ok (.inl (h.wpos + off))
    else if whence == 0x11 then (if off == 0 then .ok (.inr h.rpos) else .ok (.inl (h.rpos + off)))
    else if whence == 0x21 then (if off == 0 then .ok (.inr h.wpos) else .ok (.inl (h.wpos + off)))
    else if whence == 2 ∨ whence == 0x12 ∨ whence == 0x22 then .ok (.inl (h.frames + off))
    else .error E_BAD_SEEK
  match r with
  | .error e => fail e
  | .ok (.inr v) => ⟨h, hist, { ret := v, err := 0 }⟩
  | .ok (.inl target) =>
    if (h.mode == .rw ∨ h.mode == .w) ∧ target < 0 then fail E_BAD_SEEK
    else if h.mode == .r ∧ (target < 0 ∨ target > h.frames) then fail E_BAD_SEEK
    else
      let newMode : Int := if wm != 0 then wm else modeBits h.mode
      let sk := defaultSeek o h hist target
      -- 9b1ea83: a failed codec seek returns -1 and keeps the positions
      if sk.1 < 0 then ⟨sk.2.1, sk.2.2, { ret := -1, err := sk.2.1.error }⟩ else
      let h := if newMode == 0x10 then { h with rpos := target, lastOp := .r }
               else if newMode == 0x20 then { h with wpos := target, lastOp := .w }
               else { h with rpos := target, wpos := target, lastOp := .r }
      ⟨h, sk.2.2, { ret := target, err := 0 }⟩

/-- SFC_UPDATE_HEADER_NOW (0x1060) and SFC_SET_UPDATE_HEADER_AUTO (0x1061); the result of write_header is dropped -/
def stepCmd (o : Oracle) (h : H) (hist : Hist) (cmd : Nat) (size : Int) : Res :=
  let h := { h with error := 0 }
  match cmd with
  | 0x1061 => ⟨{ h with autoHeader := size != 0 }, hist, { ret := if size != 0 then 1 else 0 }⟩
  | 0x1060 =>
    if h.mode != .r ∧ h.container != .raw then
      ⟨(writeHeader o h hist true).2.1, (writeHeader o h hist true).2.2, { ret := 0 }⟩
    else ⟨h, hist, { ret := 0 }⟩
  | _ => ⟨h, hist, { ret := 0 }⟩

/-! ## a concrete oracle: the memory store of harness/vio.c with its fault kinds (used by `sfmodel faults`
    and by the witnesses of SfProps/C15.lean) -/

structure Fault where
  at_ : Nat := 0          -- first failing callback (1-based), 0 = never
  kind : Nat := 0
  single : Bool := false
deriving Repr, Inhabited

structure Mem where
  bytes : List Byte := []
  pos : Nat := 0
  calls : Nat := 0
  fired : Nat := 0
deriving Repr, Inhabited

def Fault.now (f : Fault) (calls : Nat) : Bool :=
  f.at_ != 0 ∧ f.kind != 0 ∧ (if f.single then calls == f.at_ else calls ≥ f.at_)

/-- `shorten` of vio.c: (new count, fired) -/
def shorten (kind count : Nat) : Nat × Bool :=
  if kind == 1 ∨ kind == 8 then (0, true)
  else if kind == 2 then (if count > 0 then (count / 2, true) else (count, false))
  else if kind == 7 then (if count > 0 then (count - 1, true) else (count, false))
  else (count, false)

def memStep (f : Fault) (m : Mem) (r : Req) : Ans × Mem :=
  let m := { m with calls := m.calls + 1 }
  let now := f.now m.calls
  match r with
  | .len =>
    if now ∧ f.kind == 4 then ({ n := m.bytes.length + 1000 }, { m with fired := m.fired + 1 })
    else if now ∧ (f.kind == 5 ∨ f.kind == 8) then ({ n := (m.bytes.length / 2 : Nat) }, { m with fired := m.fired + 1 })
    else ({ n := m.bytes.length }, m)
  | .tell =>
    if now ∧ f.kind == 6 then ({ n := m.pos + 7 }, { m with fired := m.fired + 1 }) else ({ n := m.pos }, m)
  | .seek off whence =>
    if now ∧ (f.kind == 3 ∨ f.kind == 8) then ({ n := -1 }, { m with fired := m.fired + 1 }) else
    let np : Int := if whence == 0 then off else if whence == 1 then m.pos + off else m.bytes.length + off
    if whence > 2 ∨ np < 0 then ({ n := -1 }, m) else ({ n := np }, { m with pos := np.toNat })
  | .read n =>
    let c := if now then shorten f.kind n else (n, false)
    let m := if c.2 then { m with fired := m.fired + 1 } else m
    let got := (m.bytes.drop m.pos).take c.1
    ({ n := got.length, data := got }, { m with pos := m.pos + got.length })
  | .write d =>
    let c := if now then shorten f.kind d.length else (d.length, false)
    let m := if c.2 then { m with fired := m.fired + 1 } else m
    let d := d.take c.1
    if d.isEmpty then ({ n := 0 }, m) else
    ({ n := d.length }, { m with bytes := writeAt m.bytes m.pos d, pos := m.pos + d.length })

/-- state of the store after a history (oldest request first) -/
def memAfter (f : Fault) (m0 : Mem) (hist : Hist) : Mem :=
  hist.foldr (fun ra m => (memStep f m ra.1).2) m0

def memOracle (f : Fault) (m0 : Mem) : Oracle := fun hist r => (memStep f (memAfter f m0 hist) r).1

end Sf.Faults
