/-
  SfModel.SdsFile — stand-alone byte-exact (L1) model of the MIDI Sample Dump Standard container of src/sds.c as a
  whole: the 21-byte dump header, the packet sequence, and the write session with header updates.  It connects the
  packet codec of SfModel/Sds.lean (`encBlock`, `header`, `enc3` / `dec3`) with the block-count scan of
  SfModel/SdsScan.lean.

      F0 7E 00 01  00 00  <bit width>  <sample period, 3 x 7 bits, LSB first>  <data length, 3 x 7 bits>
      <sustain loop start 3> <sustain loop end 3> <loop type>  F7                                       (21 bytes)
      then packets  F0 7E 00 02 <packet number & 0x7F> <120 data bytes> <checksum> F7                   (127 bytes each)
      (the writer emits no tailer)

  * `St`, `openW`, `push`, `write`, `update`, `close`
        sds_open / sds_write / sds_write_header / sds_close.  The file position is always
        21 + 127 * write_block, so the store is kept as header, complete packets (newest first) and `pending` —
        the 127 bytes a header update flushed behind them:  sds_write_header writes the partly filled packet out
        (all of `write_samples`: the fresh samples and, behind them, whatever the buffer still holds from the
        packet before), seeks back over it and restores write_count / write_block, so that the next full packet
        overwrites it.  sds_close zeroes the tail of the buffer before it writes the last packet.
        Since the round-9 repair (KF-SDS-RDWR-IDLE) the header holds psf->sf.frames, which sds_open sets to 0 whatever
        the caller passed and the sf_write_* wrappers keep at the end of the audio; before it, it held
        `total_written` (bumped by the full length at the start of every write call).  In an SFM_WRITE session
        without seeks — what this machine describes — the two are equal at every point where a header is emitted
        (the wrapper has moved sf.frames before it calls write_header), so the field `total` stands for both; the
        rule for a handle opened SFM_RDWR on an existing file, where they differ, is lean/SfModel/SdsRdwr.lean.
  * `period`, `quant`
        the rate quantiser: 10^9 / rate nanoseconds in 21 bits, read back as 10^9 / period (16000 for period 0).
  * `blocks`, `parse`
        sds_read_header + sds_init + validate_sfinfo: the frame count is the header's data-length field, the packet
        count comes from the scan `Sf.SdsScan.scan .current` run on the oracle the file bytes define.
-/
import SfModel.Sds
import SfModel.SdsScan
import SfModel.Small2
namespace Sf.SdsFile
open Sf Sf.Sds

structure Cfg where
  codec : Nat          -- PCM_S8 = 1, PCM_16 = 2, PCM_24 = 3
  sr : Nat
deriving Repr, DecidableEq, Inhabited

def Cfg.wf (c : Cfg) : Prop := (c.codec = 1 ∨ c.codec = 2 ∨ c.codec = 3) ∧ 1 ≤ c.sr ∧ c.sr ≤ 0x7FFFFFFF
instance (c : Cfg) : Decidable c.wf := by unfold Cfg.wf; infer_instance

def Cfg.bitwidth (c : Cfg) : Nat := 8 * c.codec
def Cfg.w (c : Cfg) : Nat := widthOf c.bitwidth
def Cfg.spb (c : Cfg) : Nat := spbOf c.w
def Cfg.fmtWord (c : Cfg) : Nat := 0x110000 + c.codec

/-! ## the rate quantiser -/

/-- the sample period field: 10^9 / rate, low 21 bits -/
def period (sr : Nat) : Nat := (1000000000 / sr) % 2 ^ 21

/-- the rate sds_read_header derives from a period field -/
def rateOf (p : Nat) : Nat := if p > 0 then 1000000000 / p else 16000

/-- the rate a reader reports for a file written at `sr` -/
def quant (sr : Nat) : Nat := rateOf (period sr)

/-! ## the write session -/

structure St where
  hdr : List Byte := []
  pkts : List (List Byte) := []      -- complete packets, newest first (write_block of them)
  wblock : Nat := 0
  pending : List Byte := []          -- what the store holds behind the complete packets
  buf : List Int := []               -- write_samples
  wcount : Nat := 0
  total : Nat := 0                   -- the end of the audio: psf->sf.frames (before the round-9 repair: total_written)
  frames : Nat := 0                  -- psf->sf.frames
deriving Repr, DecidableEq, Inhabited

/-- the file image -/
def St.bytes (s : St) : List Byte := s.hdr ++ (s.pkts.reverse.flatten ++ s.pending)

/-- sf_open (SFM_WRITE): sds_open sets psf->sf.frames = 0 whatever the caller passed, writes the header and seeks to 21 -/
def openW (c : Cfg) (_callerFrames : Nat) : St :=
  { buf := List.replicate c.spb 0, frames := 0, hdr := header c.bitwidth c.sr 0 }

/-- `psds->writer`: the whole of write_samples goes out as packet number write_block -/
def flush (c : Cfg) (s : St) : St :=
  { s with pkts := (encBlock c.w s.wblock s.buf).2 :: s.pkts, wblock := s.wblock + 1, wcount := 0, pending := [] }

/-- one sample through sds_write: into the staging buffer, and the packet out when the buffer is full -/
def push (c : Cfg) (s : St) (x : Int) : St :=
  if s.wcount + 1 ≥ c.spb then flush c { s with buf := s.buf.set s.wcount x }
  else { s with buf := s.buf.set s.wcount x, wcount := s.wcount + 1 }

/-- sds_write_header (psf, calc_length): psf->sf.frames, the partly filled packet (written, then sought back over),
    the header -/
def emit (c : Cfg) (s : St) (calcLen : Bool) : St :=
  { s with frames := if calcLen then s.total else s.frames,
           pending := if s.wcount > 0 then (encBlock c.w s.wblock s.buf).2 else s.pending,
           hdr := header c.bitwidth c.sr s.total }

/-- one sf_write_int call of `xs` (ints as sds_write receives them); `first` = the have_written latch is still open -/
def write (c : Cfg) (s : St) (xs : List Int) (auto : Bool) (first : Bool) : St :=
  let s := if first then emit c s false else s
  let s := { s with total := s.total + xs.length }
  let s := xs.foldl (push c) s
  if auto then emit c s true else s

def update (c : Cfg) (s : St) : St := emit c s true

/-- sds_close: zero the tail of the buffer, write the last packet, then the header -/
def close (c : Cfg) (s : St) : St :=
  let s := if s.wcount > 0 then flush c { s with buf := s.buf.take s.wcount ++ List.replicate (c.spb - s.wcount) 0 } else s
  emit c s true

inductive WOp
  | write (xs : List Int) (auto : Bool)
  | update
deriving Repr, DecidableEq, Inhabited

/-- the session state and the have_written latch -/
def stepOp (c : Cfg) (sf : St × Bool) : WOp → St × Bool
  | .write xs auto => if xs.isEmpty then sf else (write c sf.1 xs auto sf.2, false)      -- sf_write_* returns at once for len = 0
  | .update => (update c sf.1, sf.2)

def run (c : Cfg) (s : St) (ops : List WOp) : St := (ops.foldl (stepOp c) (s, true)).1

def opsData : List WOp → List Int
  | [] => []
  | .write xs _ :: r => xs ++ opsData r
  | .update :: r => opsData r

def closedBytes (c : Cfg) (stale : Nat) (ops : List WOp) : List Byte := (close c (run c (openW c stale) ops)).bytes
def snapshotBytes (c : Cfg) (stale : Nat) (ops : List WOp) : List Byte := (update c (run c (openW c stale) ops)).bytes

/-! ## the read side -/

/-- the oracle of the block-count scan that a file defines: the k-th psf_fread of 2 bytes happens at offset
    21 + 127 k and delivers what the file still has there; `marker` is the two bytes in host order -/
def scanOracle (bs : List Byte) (k : Nat) : Nat × Nat :=
  let off := 21 + 127 * k
  (min 2 (bs.length - off), bs.getD off 0 + 256 * bs.getD (off + 1) 0)

/-- `psds->total_blocks`: the scan of SfModel/SdsScan.lean on the file (at most one iteration per byte) -/
def blocks (bs : List Byte) : Nat := (SdsScan.scan .current bs.length (scanOracle bs) bs.length 0 21 0xF07E).getD 0

/-- sds_read_header + sds_init + validate_sfinfo on a file of at least 21 bytes -/
def readHeader (bs : List Byte) : Small2.ParseRes :=
  if bs.length < 21 then .unmodelled else
  if bs.getD 0 0 ≠ 0xF0 ∨ bs.getD 1 0 ≠ 0x7E ∨ bs.getD 3 0 ≠ 1 then .err else          -- SFE_SDS_NOT_SDS
  let bitwidth := bs.getD 6 0
  if bitwidth ≤ 1 then .err else                                                      -- SFE_SDS_BAD_BIT_WIDTH
  let sr := rateOf (dec3 ((bs.drop 7).take 3))
  let frames := dec3 ((bs.drop 10).take 3)
  if (bitwidth + 7) / 8 > 4 then .err else                                            -- "Weird byte width"
  if bitwidth < 8 ∨ bitwidth > 28 then .err else                                      -- sds_init
  .ok { ch := 1, fmt := 0x110000 + (bitwidth + 7) / 8, sr := sr, frames := frames }

/-- sf_seek (h, frames, SEEK_SET) right after the open — to the end of the audio the header announces: sds_seek
    refuses a packet index beyond the packets the scan counted (the result is the new position or −1) -/
def seekEnd (bs : List Byte) : Int :=
  let spb := spbOf (widthOf (bs.getD 6 0))
  let frames := dec3 ((bs.drop 10).take 3)
  if frames / spb ≤ blocks bs then (frames : Int) else -1

/-- `sf_open_virtual (SFM_READ)` on `bs` -/
def parse (bs : List Byte) : Small2.ParseRes :=
  if bs.length < 12 then .err else
  match Small2.guess bs with
  | some (.fmt 0x110000) => readHeader bs
  | _ => .unmodelled

end Sf.SdsFile
