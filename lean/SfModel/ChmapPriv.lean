/-
  SfModel.ChmapPriv — SFC_SET_CHANNEL_MAP_INFO with the container's PRIVATE copy of the verdict next to psf->channel_map.

  Sf.ChmapVerdict derives what reaches the file from psf->channel_map alone.  In the code the container keeps its own value:
  `wpriv->wavex_channelmask` (wav_command, rf64_command) / `chanmap_tag` (aiff_command, caf_command), written by
  `psf->command (psf, SFC_SET_CHANNEL_MAP_INFO, NULL, 0)` from the map in psf->channel_map at that moment, and the header writers
  use THAT value.  Two sites cooperate in the refusal branch of sf_command:
    * the handler (`Handler.overwrite`: `priv = derive (map) ; return priv != 0` — all four handlers of the code;
      `Handler.transactional`: leaves priv alone when the map cannot be expressed),
    * the generic code, which puts the old map back and (`rederive = true`, the code) calls the handler once more so that priv is
      the old map's value again.
  (overwrite, rederive) and (transactional, no re-derivation) both keep `priv` in step with the map; (overwrite, no
  re-derivation) — one handler forgotten when the others are made transactional — zeroes the mask / tag of the map accepted before.
  Core Lean only.
-/
import SfModel.ChmapVerdict
namespace Sf.ChmapPriv
open Sf Sf.ChmapVerdict

inductive Handler | overwrite | transactional
  deriving DecidableEq, Repr

structure PSt where
  container : Nat
  map : Option (List Nat)      -- psf->channel_map
  priv : Nat                   -- wavex_channelmask / chanmap_tag
deriving DecidableEq, Repr

/-- what the handler computes from a map: the channel mask (WAV / WAVEX / RF64) or the layout tag (AIFF / CAF) -/
def derive (c : Nat) (m : List Nat) : Nat :=
  if c = cWAV ∨ c = cWAVEX ∨ c = cRF64 then genChannelMask m
  else if c = cAIFF ∨ c = cCAF then MetaX.findTag m
  else 0

/-- `psf->command (psf, SFC_SET_CHANNEL_MAP_INFO, NULL, 0)` with `m` in psf->channel_map: (answer, priv afterwards) -/
def handler (hd : Handler) (c priv : Nat) (m : List Nat) : Bool × Nat :=
  match hd with
  | .overwrite => (derive c m != 0, derive c m)
  | .transactional => if derive c m = 0 then (false, priv) else (true, derive c m)

/-- sf_command (SFC_SET_CHANNEL_MAP_INFO) with a right-sized map of valid ids on a handle that has written no audio and whose
    container has a command handler: (return value, state) -/
def setValid (hd : Handler) (rederive : Bool) (s : PSt) (new : List Nat) : Nat × PSt :=
  let r := handler hd s.container s.priv new
  if r.1 then (1, { s with map := some new, priv := r.2 })
  else
    -- free (psf->channel_map) ; psf->channel_map = old_map ; [ if (old_map != NULL) psf->command (…) ]
    match s.map with
    | some old => (0, { s with priv := if rederive then (handler hd s.container r.2 old).2 else r.2 })
    | none => (0, { s with priv := r.2 })

/-- the code as it is -/
def setNow : PSt → List Nat → Nat × PSt := setValid .overwrite true

/-- priv is the value of the map in force (0 without one); a map in force is one the container can express -/
def PInv (s : PSt) : Prop :=
  match s.map with
  | some m => s.priv = derive s.container m ∧ derive s.container m ≠ 0
  | none => s.priv = 0

instance (s : PSt) : Decidable (PInv s) := by
  unfold PInv; cases s.map <;> exact inferInstance

/-- the channel mask / layout tag the header writer puts into the file -/
def written (s : PSt) : Nat := s.priv

end Sf.ChmapPriv
