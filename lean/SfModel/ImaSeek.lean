/-
  SfModel.ImaSeek — the READ side of src/ima_adpcm.c AS WRITTEN, with the block counter in the C code's own units.

  The generic block reader (SfModel/Block.lean, `Reader.seek r k = load block k / spb`) abstracts the counter away: its `cur` is the
  index of the loaded block.  The C keeps `pima->blockcount`, which `wavlike_ima_decode_block` advances by ONE per decoded block
  and `aiff_ima_decode_block` by `channels` (an AIFF ima4 block is `channels` packets of 34 bytes and `pima->blocks` counts
  packets: `newblockaiff = newblock * psf->sf.channels`).  Anything that compares a target block with `blockcount` (a fast path
  "the block is loaded already", an end test) has to be right in THAT unit; so the state here is the C struct's:

      blockcount, samplecount, samples [spb * channels]       and the file position, counted in packets of `blocksize` bytes
                                                              from `psf->dataoffset`

  `decodeBlock`   = `wavlike_ima_decode_block` (`unit = 1`) / `aiff_ima_decode_block` (`unit = channels`): advance the counter, past the
                    end zero the buffer, else read `unit` packets at the file position and decode them (`src p` = the `spb * channels`
                    samples the decoder makes of the packets p .. p + unit - 1; the decoders themselves are SfModel/Adpcm.lean);
  `readLoop`      = `ima_read_block`;
  `seek`          = `wavlike_ima_seek` / `aiff_ima_seek` with mode SFM_READ (the target already resolved to an absolute frame by sf_seek);
  `seekFast`      = the same with the fast path `if (newblock == pima->blockcount - 1) { samplecount = newsample ; return offset ; }`
                    — right for `unit = 1`, wrong for `unit = channels > 1` (seeded/C20-aiff-ima-seek-fastpath-stereo): kept to show that the
                    theorems of SfProps/C06ImaSeek.lean separate the two.

  Scope: a data region of whole packets (what every writer produces; a file cut inside a packet is C03's business: the short read
  leaves stale bytes of the previous block in `pima->block`).
  Core Lean only.
-/
import SfModel.Basic
namespace Sf.ImaSeek

def zeros (n : Nat) : List Int := List.replicate n 0

structure Cfg where
  ch     : Nat                 -- psf->sf.channels
  spb    : Nat                 -- pima->samplesperblock
  unit   : Nat                 -- what decode_block adds to blockcount: 1 (WAV / W64 layout), channels (AIFF layout)
  blocks : Nat                 -- pima->blocks, in the same unit (datalength / blocksize)
  src    : Nat → List Int      -- the decoded block that starts at packet p of the data region

structure St where
  blockcount  : Nat
  samplecount : Nat
  samples     : List Int
  fpos        : Nat            -- (psf_ftell - dataoffset) / blocksize
deriving Repr, DecidableEq

/-- `pima->decode_block (psf, pima)` -/
def decodeBlock (c : Cfg) (s : St) : St :=
  if s.blockcount + c.unit > c.blocks then
    { blockcount := s.blockcount + c.unit, samplecount := 0, samples := zeros (c.spb * c.ch), fpos := s.fpos }
  else
    { blockcount := s.blockcount + c.unit, samplecount := 0, samples := c.src s.fpos, fpos := s.fpos + c.unit }

/-- `ima_reader_init`: "Read first block." -/
def init (c : Cfg) : St := decodeBlock c ⟨0, 0, zeros (c.spb * c.ch), 0⟩

/-- `ima_read_block (psf, pima, ptr, len)`: returns (state, the `len` cells of `ptr`, `total`) -/
def readLoop (c : Cfg) : Nat → St → Nat → St × List Int × Nat
  | 0, s, n => (s, zeros n, 0)
  | fuel + 1, s, n =>
    if n = 0 then (s, [], 0)
    else if s.blockcount ≥ c.blocks ∧ s.samplecount ≥ c.spb then (s, zeros n, 0)
    else
      let s1 := if s.samplecount ≥ c.spb then decodeBlock c s else s
      let count := min ((c.spb - s1.samplecount) * c.ch) n
      let piece := (s1.samples.drop (s1.samplecount * c.ch)).take count
      let s2 : St := { s1 with samplecount := s1.samplecount + count / c.ch }
      let r := readLoop c fuel s2 (n - count)
      (r.1, piece ++ r.2.1, count + r.2.2)

def read (c : Cfg) (s : St) (n : Nat) : St × List Int × Nat := readLoop c (n + 1) s n

/-- `wavlike_ima_seek` / `aiff_ima_seek`, mode SFM_READ, absolute target frame `k`; `none` = PSF_SEEK_ERROR -/
def seek (c : Cfg) (s : St) (k : Nat) : Option St :=
  if k = 0 then
    some { decodeBlock c { s with fpos := 0, blockcount := 0 } with samplecount := 0 }
  else if k > c.blocks * c.spb then none
  else
    let nb := k / c.spb * c.unit                      -- newblock (wavlike) / newblockaiff
    some { decodeBlock c { s with fpos := nb, blockcount := nb } with samplecount := k % c.spb }

/-- the same with the fast path "target block = blockcount - 1 is the loaded one": correct only in the unit of `blockcount` -/
def seekFast (c : Cfg) (s : St) (k : Nat) : Option St :=
  if k = 0 then seek c s k
  else if k > c.blocks * c.spb then none
  else if k / c.spb + 1 = s.blockcount then some { s with samplecount := k % c.spb }
  else seek c s k

/-- the state the C code is in when block `b` is loaded and `cnt` of its frames are consumed -/
def atBlock (c : Cfg) (b cnt : Nat) : St :=
  { blockcount := (b + 1) * c.unit, samplecount := cnt, samples := c.src (b * c.unit), fpos := (b + 1) * c.unit }

/-- frame index of the next frame delivered -/
def pos (c : Cfg) (s : St) : Nat := (s.blockcount / c.unit - 1) * c.spb + s.samplecount

/-- a configuration as `ima_reader_init` leaves it for a data region of `nb` whole blocks -/
structure Cfg.Wf (c : Cfg) (nb : Nat) : Prop where
  ch_pos   : 0 < c.ch
  spb_pos  : 0 < c.spb
  unit_pos : 0 < c.unit
  blocks   : c.blocks = nb * c.unit
  len      : ∀ p, (c.src p).length = c.spb * c.ch

/-- a history on one handle: reads of any item counts and seeks to any targets -/
inductive Op | read (n : Nat) | seek (k : Nat)

def step (c : Cfg) (s : St) : Op → St
  | .read n => (read c s n).1
  | .seek k => (seek c s k).getD s

def run (c : Cfg) (s : St) (ops : List Op) : St := ops.foldl (step c) s

end Sf.ImaSeek
