/-
  SfModel.MetaX — metadata of the containers beside RIFF/WAVE (property C12): AIFF text chunks and markers, CAF `info`
  strings, the `chan` / `CHAN` chunk and the channel-layout table.

  Code-shaped model of
    src/aiff.c     aiff_write_strings (APPL/m3ga, NAME, (c), AUTH, ANNO), the readers of those chunks in aiff_read_header /
                   aiff_read_text_chunk (buffer allocated from the chunk size since the repair, 8 KiB scratch buffer before;
                   psf_sanitize_string on (c), the printable prefix of APPL), the MARK writer
                   (pascal strings of the 'p' format) and reader, the CHAN chunk and aiff_read_chanmap
    src/caf.c      caf_write_strings / put_key_value (buffer allocated from the string storage since the repair, 16 KiB before),
                   caf_read_strings, the chan chunk and caf_read_chanmap
    src/chanmap.c  aiff_caf_find_channel_layout_tag, aiff_caf_of_channel_layout_tag over the table extracted from the
                   source into Generated/ChanMap.lean
    src/common.c   the 'S' and 'p' cases of psf_binheader_writef
  as the code is after the repairs "fix: AIFF APPL chunk reader appended up to four stale bytes …" and "fix: an AIFF file with a
  text chunk of 8 KiB or more could not be opened" (the rules before them are kept next to the new ones).
  Core Lean only.  Builds on the string table of SfModel.Meta.
-/
import SfModel.Meta
import SfModel.Generated.ChanMap
namespace Sf.MetaX
open Sf.Meta

def be4 (v : Nat) : List Byte := beBytes 4 v
def be2 (v : Nat) : List Byte := beBytes 2 v
def be8 (v : Nat) : List Byte := beBytes 8 v

def isPrint (b : Byte) : Bool := 0x20 ≤ b && b ≤ 0x7e

/-! ## 1. AIFF text chunks -/

/-- the 'S' case of psf_binheader_writef: length, text, and the terminator as pad byte when the length is odd -/
def serS (s : List Byte) : List Byte := be4 s.length ++ s ++ zeros (s.length % 2)

/-- the chunk aiff_write_strings emits for a string type (DATE, ALBUM, LICENSE, TRACKNUMBER, GENRE: none) -/
def aiffItem (e : Nat × List Byte) : List Byte :=
  match e.1 with
  | 3 => mk "APPL" ++ be4 (e.2.length + 4) ++ mk "m3ga" ++ e.2 ++ zeros (e.2.length % 2)
  | 1 => mk "NAME" ++ serS e.2
  | 2 => mk "(c) " ++ serS e.2
  | 4 => mk "AUTH" ++ serS e.2
  | 5 => mk "ANNO" ++ serS e.2
  | _ => []

def aiffStrings (es : List (Nat × List Byte)) : List Byte := es.flatMap aiffItem

def SCRATCH : Nat := 8192      -- sizeof (ubuf.scbuf)

/-- psf_sanitize_string: every byte that is not printable ASCII becomes '.' -/
def sanitize (s : List Byte) : List Byte := s.map fun b => if isPrint b then b else 46

/-- the APPL reader: the text ends at the first byte that is not printable -/
def printablePrefix (s : List Byte) : List Byte := s.takeWhile isPrint

/-- the chunk sizes from which on a text chunk is skipped instead of read -/
structure AiffLimits where
  c    : Nat
  auth : Nat
  name : Nat
  anno : Nat
  appl : Nat
deriving DecidableEq, Repr

/-- since the repair ("fix: AIFF strings of 8 KiB or more could be written but not read back"): the text is read into a buffer
    allocated from the chunk size; only `chunk_size > 100 * 1024` (more than the header cache holds) is skipped -/
def aiffLimits : AiffLimits := ⟨HEADER_CAP + 1, HEADER_CAP + 1, HEADER_CAP + 1, HEADER_CAP + 1, HEADER_CAP + 1⟩

/-- before it: the 8 KiB scratch union, `chunk_size >= sizeof (ubuf.scbuf) - slack` -/
def aiffLimitsOld : AiffLimits := ⟨SCRATCH, SCRATCH - 1, SCRATCH - 2, SCRATCH - 2, SCRATCH - 1⟩

/-- what a text chunk hands to psf_store_string.  `none`: nothing is stored (empty chunk, or beyond the limit: skipped). -/
def aiffReadTextW (L : AiffLimits) (m : List Byte) (size : Nat) (payload : List Byte) : Option (Nat × List Byte) :=
  if size = 0 then none
  else if m = mk "(c) " then (if size ≥ L.c then none else some (2, cstr (sanitize (payload.take size))))
  else if m = mk "AUTH" then (if size ≥ L.auth then none else some (4, cstr (payload.take size)))
  else if m = mk "NAME" then (if size ≥ L.name then none else some (1, cstr (payload.take size)))
  else if m = mk "ANNO" then (if size ≥ L.anno then none else some (5, cstr (payload.take size)))
  else if m = mk "APPL" then
    (if size ≥ L.appl ∨ size < 4 then none else some (3, printablePrefix (cstr ((payload.drop 4).take (size - 4)))))
  else none

def aiffReadText : List Byte → Nat → List Byte → Option (Nat × List Byte) := aiffReadTextW aiffLimits
def aiffReadTextOld : List Byte → Nat → List Byte → Option (Nat × List Byte) := aiffReadTextW aiffLimitsOld

def isAiffText (m : List Byte) : Bool := m = mk "(c) " || m = mk "AUTH" || m = mk "NAME" || m = mk "ANNO" || m = mk "APPL"

/-- the chunk walk of aiff_read_header restricted to text chunks (the walk of the whole header is SfModel.Aiff): marker, size,
    payload, pad byte of an odd size.  Any other marker ends this walk. -/
def aiffParseW (L : AiffLimits) : Nat → List Byte → List (Nat × List Byte)
  | 0, _ => []
  | fuel+1, b =>
    if b.length < 8 then []
    else
      let m := b.take 4
      let size := ofBE ((b.drop 4).take 4)
      let p := b.drop 8
      if !isAiffText m ∨ size > p.length then []
      else
        let rest := p.drop (size + size % 2)
        match aiffReadTextW L m size p with
        | some e => e :: aiffParseW L fuel rest
        | none => aiffParseW L fuel rest

def aiffParse : Nat → List Byte → List (Nat × List Byte) := aiffParseW aiffLimits
def aiffParseOld : Nat → List Byte → List (Nat × List Byte) := aiffParseW aiffLimitsOld

/-- the limits under which an AIFF text survives, for a reader with the skip thresholds `L` -/
def aiffOkW (L : AiffLimits) (e : Nat × List Byte) : Prop :=
  (∀ b ∈ e.2, b ≠ 0) ∧ e.2 ≠ [] ∧ e.2.length + 4 < 2 ^ 32 ∧
  ((e.1 = 1 ∧ e.2.length < L.name) ∨ (e.1 = 5 ∧ e.2.length < L.anno) ∨ (e.1 = 4 ∧ e.2.length < L.auth) ∨
   (e.1 = 2 ∧ e.2.length < L.c ∧ ∀ b ∈ e.2, isPrint b = true) ∨ (e.1 = 3 ∧ e.2.length + 4 < L.appl ∧ ∀ b ∈ e.2, isPrint b = true))

/-- what an AIFF text must be to survive since the repair: a non-empty C string whose chunk the header cache can hold
    (`HEADER_CAP`); copyright and software printable ASCII (the `(c)` reader sanitises, the APPL reader stops at the first other
    byte: known finding KF.aiffSanitize).  No 8 KiB limit any more. -/
def aiffOk (e : Nat × List Byte) : Prop :=
  (∀ b ∈ e.2, b ≠ 0) ∧ e.2 ≠ [] ∧
  ((e.1 = 1 ∧ e.2.length ≤ HEADER_CAP) ∨ (e.1 = 5 ∧ e.2.length ≤ HEADER_CAP) ∨ (e.1 = 4 ∧ e.2.length ≤ HEADER_CAP) ∨
   (e.1 = 2 ∧ e.2.length ≤ HEADER_CAP ∧ ∀ b ∈ e.2, isPrint b = true) ∨ (e.1 = 3 ∧ e.2.length + 4 ≤ HEADER_CAP ∧ ∀ b ∈ e.2, isPrint b = true))

/-- the limits of the old reader: title / comment < 8190 bytes, author < 8191, copyright < 8192, software + 4 < 8191 -/
def aiffOkOld (e : Nat × List Byte) : Prop := aiffOkW aiffLimitsOld e

/-- the APPL reader before the repair: the buffer was terminated 4 bytes behind the text, so up to four bytes of whatever an
    earlier chunk had left there (`stale`) followed it -/
def applTextOld (stale : List Byte) (text : List Byte) : List Byte :=
  printablePrefix (cstr (text ++ (if text.length % 2 = 1 then [0] else []) ++ stale.take 4 ++ [0]))

/-! ## 2. AIFF markers -/

/-- the 'p' case of psf_binheader_writef: a length byte (odd; at most `cap`) and that many bytes of the name buffer, which is
    zero-filled behind the text -/
def pascalW (cap : Nat) (name : List Byte) : List Byte :=
  let size := if name.length % 2 = 1 then name.length else name.length + 1
  let size := min size cap
  size :: (name ++ zeros 256).take size

/-- the repaired rule: a pascal string holds up to 255 characters (count byte + text is always even) -/
def pascal (name : List Byte) : List Byte := pascalW 255 name

/-- before the repair of KF-C12-AIFF-CUE-NAME-254: the cap was 254, so a name of 254 / 255 characters was written as count 254 + 254
    bytes — an odd total, one byte less than `markStringLength` counts -/
def pascalOld (name : List Byte) : List Byte := pascalW 254 name

structure Mark where
  id : Nat
  position : Nat
  name : List Byte
deriving DecidableEq, Repr

def serMark (m : Mark) : List Byte := be2 (m.id % 65536) ++ be4 m.position ++ pascal m.name

def markStringLength (m : Mark) : Nat := m.name.length + 1 + (if (m.name.length + 1) % 2 = 0 then 0 else 1)

/-- the MARK chunk of aiff_write_header (cue points present, no instrument) -/
def writeMarks (ms : List Mark) : List Byte :=
  mk "MARK" ++ be4 (2 + ms.length * 6 + (ms.map markStringLength).sum) ++ be2 ms.length ++ ms.flatMap serMark

/-- one marker of the MARK reader: id, position, pascal string (an even length byte means one more byte follows) -/
def parseMarks : Nat → List Byte → List Mark
  | 0, _ => []
  | n+1, b =>
    if b.length < 7 then []
    else
      let ch := b.getD 6 0
      let plen := if ch % 2 = 1 then ch else ch + 1
      ⟨ofBE (b.take 2), ofBE ((b.drop 2).take 4), (cstr ((b.drop 7).take plen)).take 255⟩ :: parseMarks n (b.drop (7 + plen))

def readMarks (chunk : List Byte) : Option (List Mark) :=
  let size := ofBE ((chunk.drop 4).take 4)
  let p := (chunk.drop 8).take size
  let n := ofBE (p.take 2)
  if n > 2500 then none else some (parseMarks n (p.drop 2))

def Mark.ok (m : Mark) : Prop := m.id < 65536 ∧ m.position < 2 ^ 32 ∧ m.name.length ≤ 253 ∧ ∀ b ∈ m.name, b ≠ 0

/-- a cue point as AIFF keeps it: 16-bit id, sample_offset, name; position / chunk_start / block_start are 0 and fcc_chunk is
    'data' after re-open -/
def markOfCue (c : Cue) : Mark := ⟨c.indx % 65536, c.sampleOffset, c.name⟩
def cueOfMark (m : Mark) : Cue := ⟨m.id, 0, 0x61746164, 0, 0, m.position, m.name⟩

/-! ## 3. CAF `info` strings -/

def cafKey (ty : Nat) : Option (List Byte) :=
  match ty with
  | 1 => some (ascii "title") | 2 => some (ascii "copyright") | 3 => some (ascii "software") | 4 => some (ascii "artist")
  | 5 => some (ascii "comment") | 6 => some (ascii "date") | 7 => some (ascii "album") | 8 => some (ascii "license")
  | 9 => some (ascii "tracknumber") | 16 => some (ascii "genre") | _ => none

def cafType (key : List Byte) : Option Nat :=
  if key = ascii "title" then some 1 else if key = ascii "copyright" then some 2 else if key = ascii "software" then some 3
  else if key = ascii "artist" then some 4 else if key = ascii "comment" ∨ key = ascii "comments" then some 5
  else if key = ascii "date" then some 6 else if key = ascii "album" then some 7 else if key = ascii "license" then some 8
  else if key = ascii "tracknumber" then some 9 else if key = ascii "genre" then some 16 else none

def CAF_BUF : Nat := 16 * 1024

/-- put_key_value over the entries in slot order, for a buffer of `cap` bytes: (bytes collected, number of strings put).
    An entry that does not fit the buffer is skipped silently. -/
def cafPut (cap : Nat) : List Byte → Nat → List (Nat × List Byte) → List Byte × Nat
  | buf, cnt, [] => (buf, cnt)
  | buf, cnt, e :: rest =>
    match cafKey e.1 with
    | none => cafPut cap buf cnt rest
    | some k =>
      if buf.length + k.length + e.2.length + 2 > cap ∨ buf.length + (k.length + e.2.length + 2) ≥ cap then cafPut cap buf cnt rest
      else cafPut cap (buf ++ k ++ [0] ++ e.2 ++ [0]) (cnt + 1) rest

/-- caf_write_strings with a buffer of `cap` bytes: the `info` chunk (nothing when no string was put) -/
def writeCafInfoW (cap : Nat) (es : List (Nat × List Byte)) : List Byte :=
  let r := cafPut cap [] 0 es
  if r.2 = 0 ∨ r.1.length = 0 then [] else mk "info" ++ be8 (r.1.length + 4) ++ be4 r.2 ++ r.1

/-- since the repair ("fix: CAF strings beyond 16 KiB in total were silently left out of the file"): the buffer is allocated
    with `strings.storage_used + SF_MAX_STRINGS * 16` bytes; `used` = psf->strings.storage_used -/
def writeCafInfo (used : Nat) (es : List (Nat × List Byte)) : List Byte := writeCafInfoW (used + SF_MAX_STRINGS * 16) es

/-- before it: `char s [16 * 1024]` -/
def writeCafInfoOld (es : List (Nat × List Byte)) : List Byte := writeCafInfoW CAF_BUF es

/-- the key/value walk of caf_read_strings over the bytes behind the count -/
def cafPairs : Nat → List Byte → List (Nat × List Byte)
  | 0, _ => []
  | fuel+1, b =>
    if b = [] then []
    else
      let key := cstr b
      if key.length + 1 > b.length then []
      else
        let b1 := b.drop (key.length + 1)
        let value := cstr b1
        let rest := b1.drop (value.length + 1)
        match cafType key with
        | some ty => (ty, value) :: cafPairs fuel rest
        | none => cafPairs fuel rest

/-- the `info` case of caf_read_header and caf_read_strings: a string area of more than 100 KiB is not read (it could not
    pass the header cache) -/
def readCafInfo (chunk : List Byte) : List (Nat × List Byte) :=
  let size := ofBE ((chunk.drop 4).take 8)
  if size ≤ 4 ∨ size - 4 > HEADER_CAP then [] else
  let b := (chunk.drop 16).take (size - 4)
  cafPairs (b.length + 1) b

def cafOk (e : Nat × List Byte) : Prop := (∀ b ∈ e.2, b ≠ 0) ∧ (cafKey e.1).isSome

/-- the total the buffer must hold -/
def cafNeed : List (Nat × List Byte) → Nat
  | [] => 0
  | e :: rest => ((cafKey e.1).getD []).length + e.2.length + 2 + cafNeed rest

/-! ## 4. Channel layout tags and the `chan` chunk -/

/-- aiff_caf_find_channel_layout_tag: the first table entry of that channel count whose map equals the caller's -/
def findTagIn (table : List (Nat × Option (List Nat))) (groups : Nat) (map : List Nat) : Nat :=
  if map.length < 1 ∨ map.length ≥ groups then 0
  else match table.find? (fun e => e.1 % 65536 = map.length && e.2 = some map) with
    | some e => e.1
    | none => 0

/-- aiff_caf_of_channel_layout_tag -/
def ofTagIn (table : List (Nat × Option (List Nat))) (groups : Nat) (tag : Nat) : Option (Nat × Option (List Nat)) :=
  if tag % 65536 ≥ groups then none else table.find? (fun e => e.1 = tag)

def findTag (map : List Nat) : Nat := findTagIn layoutTable layoutGroups map
def ofTag (tag : Nat) : Option (Nat × Option (List Nat)) := ofTagIn layoutTable layoutGroups tag

def SF_CHANNEL_MAP_MAX : Nat := 27

/-- SFC_SET_CHANNEL_MAP_INFO for AIFF / CAF before the audio: the map is stored when every code is valid, the result is whether a
    layout tag exists for it.  Returns (result, stored map, tag). -/
def setChannelMap (channels : Nat) (map : List Nat) : Option (Nat × List Nat × Nat) :=
  if map.length ≠ channels ∨ map.any (fun c => c = 0 ∨ c ≥ SF_CHANNEL_MAP_MAX) then none
  else some ((if findTag map ≠ 0 then 1 else 0), map, findTag map)

def writeChanAiff (tag : Nat) : List Byte := if tag = 0 then [] else mk "CHAN" ++ be4 12 ++ be4 tag ++ be4 0 ++ be4 0
def writeChanCaf (tag : Nat) : List Byte := if tag = 0 then [] else mk "chan" ++ be8 12 ++ be4 tag ++ be4 0 ++ be4 0

/-- aiff_read_chanmap / caf_read_chanmap: the map of the tag's table entry, cut to the channel count (CAF masks the tag with 0xff) -/
def readChan (caf : Bool) (channels : Nat) (payload : List Byte) : Option (List Nat) :=
  let tag := ofBE (payload.take 4)
  match ofTag tag with
  | some (_, some m) => some (m.take (min channels (if caf then tag % 256 else tag % 65536)))
  | _ => none

end Sf.MetaX
